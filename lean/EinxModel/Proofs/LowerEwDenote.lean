import EinxModel.Proofs.LowerEw
/-! Helper lemmas for `lower_elementwise_correct` (Props/C01LowerOps.lean), denotation side: the loop-notation
denotation of an elementwise operation on converted expressions, entry by entry, for any number of inputs, and
the tie between the loop form of `denoteElementwiseFold` and a functional form. -/
namespace Einx.Lower
open Einx Einx.IR Einx.Generic Einx.Denote
open Einx.Update (mapOpt mapOpt_eq_some_iff)

/-! ### the valuation of an output assignment -/

/-- The `k`-th assignment of the iteration space of a repetition-free output. -/
def sigmaOf (Lo : List Ax) (k : Nat) : Assign := (names Lo).zip (unravel (lens Lo) k)

/-- The valuation it induces on all axis names (0 for names it does not assign). -/
def valOf (Lo : List Ax) (k : Nat) : String → Nat := fun n => (Assign.get (sigmaOf Lo k) n).getD 0

theorem sigmaOf_get {Lo : List Ax} (hout : (names Lo).Nodup) {k : Nat} (hk : k < prod (lens Lo)) :
    (∀ b ∈ Lo, Assign.get (sigmaOf Lo k) b.name = some (valOf Lo k b.name)) ∧
    idx Lo (valOf Lo k) = unravel (lens Lo) k ∧ Bnd (valOf Lo k) Lo := by
  have hv : Valid (lens Lo) (unravel (lens Lo) k) := unravel_valid _ _ hk
  have hvl : (unravel (lens Lo) k).length = Lo.length := by rw [valid_length hv]; simp [lens]
  have hzip := zip_get Lo _ hout hvl
  have hLoget : ∀ b ∈ Lo, ∃ x, Assign.get (sigmaOf Lo k) b.name = some x := by
    intro b hb
    have : Assign.get (sigmaOf Lo k) b.name ∈ Lo.map (fun a => Assign.get (sigmaOf Lo k) a.name) :=
      List.mem_map.mpr ⟨b, hb, rfl⟩
    simp only [sigmaOf] at this
    rw [hzip] at this
    obtain ⟨x, _, hx⟩ := List.mem_map.mp this
    exact ⟨x, hx.symm⟩
  have hLoval : ∀ b ∈ Lo, Assign.get (sigmaOf Lo k) b.name = some (valOf Lo k b.name) := by
    intro b hb
    obtain ⟨x, hx⟩ := hLoget b hb
    simp only [valOf, hx, Option.getD_some]
  have hidx : idx Lo (valOf Lo k) = unravel (lens Lo) k := by
    have : Lo.map (fun a => Assign.get (sigmaOf Lo k) a.name) = (idx Lo (valOf Lo k)).map some := by
      simp only [idx, List.map_map]
      apply List.map_congr_left
      intro b hb
      simp [hLoval b hb]
    simp only [sigmaOf] at this
    rw [this] at hzip
    exact (List.map_inj_right (fun x y h => Option.some.inj h)).mp hzip
  exact ⟨hLoval, hidx, bnd_of_valid (by rw [hidx]; exact hv)⟩

/-- The extension of the `k`-th output assignment to the axes of an input: defined, and it agrees with `valOf` on
the input's axes, which bounds `valOf` there. -/
theorem extend_valOf {Li Lo : List Ax} (hout : (names Lo).Nodup)
    (hcons : ∀ a ∈ Li, ∀ b ∈ Lo, a.name = b.name → a.len = b.len)
    (hsub : ∀ a ∈ Li, a.len ≠ 1 → a.name ∈ names Lo) {k : Nat} (hk : k < prod (lens Lo)) :
    ∃ σ', extend (sigmaOf Lo k) (Li.map toLeaf) = some σ' ∧
      (∀ a ∈ Li, Assign.get σ' a.name = some (valOf Lo k a.name)) ∧ Bnd (valOf Lo k) Li := by
  obtain ⟨hLoval, _, hbo⟩ := sigmaOf_get hout hk
  have hunit : ∀ a ∈ Li, Assign.get (sigmaOf Lo k) a.name = none → a.len = 1 := by
    intro a ha hn
    apply Classical.byContradiction
    intro hne
    obtain ⟨b, hb, hbn⟩ := List.mem_map.mp (hsub a ha hne)
    have := hLoval b hb
    rw [hbn, hn] at this
    cases this
  obtain ⟨σ', hext, hpres, hnew⟩ := extend_ok (Li.map toLeaf) (sigmaOf Lo k) (by
    intro l hl hn
    obtain ⟨a, ha, rfl⟩ := List.mem_map.mp hl
    exact hunit a ha hn)
  have hLival : ∀ a ∈ Li, Assign.get σ' a.name = some (valOf Lo k a.name) := by
    intro a ha
    obtain ⟨x, hx, h0⟩ := hnew (toLeaf a) (List.mem_map.mpr ⟨a, ha, rfl⟩)
    have hx' : Assign.get σ' a.name = some x := hx
    cases hg : Assign.get (sigmaOf Lo k) a.name with
    | none =>
      have : x = 0 := h0 hg
      simp only [valOf, hg, Option.getD_none, hx', this]
    | some y =>
      rw [hpres _ _ hg]
      simp only [valOf, hg, Option.getD_some]
  refine ⟨σ', hext, hLival, ?_⟩
  intro a ha
  cases hg : Assign.get (sigmaOf Lo k) a.name with
  | none =>
    have h1 := hunit a ha hg
    simp only [valOf, hg, Option.getD_none, h1]
    exact Nat.one_pos
  | some y =>
    have hmem := get_some_mem hg
    have hvl : (unravel (lens Lo) k).length = Lo.length := by
      rw [valid_length (unravel_valid _ _ hk)]; simp [lens]
    have hmem' : a.name ∈ names Lo := by
      have hl : (sigmaOf Lo k).map (·.1) = names Lo := by
        simp only [sigmaOf]
        rw [List.map_fst_zip]; rw [hvl]; simp [names]
      rw [hl] at hmem; exact hmem
    obtain ⟨b, hb, hbn⟩ := List.mem_map.mp hmem'
    have := hbo b hb
    rw [hbn] at this
    rw [hcons a ha b hb hbn.symm]; exact this

/-- The cell that an input view reads under the extended assignment. -/
theorem cellAt_valOf {e : List G} {σ' : Assign} {val : String → Nat} (i : Nat)
    (h : ∀ a ∈ G.leavesL e, Assign.get σ' a.name = some (val a.name)) :
    cellAt (toDimL e) (gShape e) i σ' = some (cOf i e val) := by
  obtain ⟨pi, hpi, _, hri⟩ := posL_toDimL σ' val e h
  simp only [cellAt, flatPos, position_eq, hpi, Option.map_some, hri, cOf]

theorem flatPos_valOf {eout : List G} (hout : (names (G.leavesL eout)).Nodup) {k : Nat}
    (hk : k < prod (lens (G.leavesL eout))) :
    flatPos (toDimL eout) (gShape eout) (sigmaOf (G.leavesL eout) k) = some k := by
  obtain ⟨hLoval, hidx, _⟩ := sigmaOf_get hout hk
  obtain ⟨po, hpo, _, hro⟩ := posL_toDimL (sigmaOf (G.leavesL eout) k) (valOf (G.leavesL eout) k) eout hLoval
  simp only [flatPos, position_eq, hpo, Option.map_some, hro, hidx, ravel_unravel _ _ hk]

/-! ### entries of an elementwise operation with any combining function -/

/-- `Denote.ewEntry` with the combining function as a parameter (`.app f` for the documented form, `foldCells f`
for the left fold of the n-ary operations). -/
def ewEntryG (g : List Cell → Cell) (ins : List (List Dim × List Nat)) (vo : List Dim) (so : List Nat) (σ : Assign) :
    Option (Nat × Cell) :=
  match ewArgs ins σ, flatPos vo so σ with
  | some args, some po => some (po, g args)
  | _, _ => none

def ewCellsG (g : List Cell → Cell) (ins : List (List Dim × List Nat)) (vo : List Dim) (so : List Nat) : Option (List Cell) :=
  match mapOpt (ewEntryG g ins vo so) (outAssignments vo) with
  | some es => gatherAll (prod so) es
  | none => none

theorem ewCells_eq_G (f : String) (ins : List (List Dim × List Nat)) (vo : List Dim) (so : List Nat) :
    ewCells f ins vo so = ewCellsG (Cell.app f) ins vo so := rfl

/-- What an elementwise operation writes for the `k`-th assignment of the iteration space. -/
theorem ewEntryG_lower (g : List Cell → Cell) {ins : List (List G)} {eout : List G}
    (hout : (names (G.leavesL eout)).Nodup)
    (hcons : ∀ e ∈ ins, ∀ a ∈ G.leavesL e, ∀ b ∈ G.leavesL eout, a.name = b.name → a.len = b.len)
    (hsub : ∀ e ∈ ins, ∀ a ∈ G.leavesL e, a.len ≠ 1 → a.name ∈ names (G.leavesL eout))
    (k : Nat) (hk : k < prod (lens (G.leavesL eout))) :
    ewEntryG g (ins.map (fun e => (toDimL e, gShape e))) (toDimL eout) (gShape eout) (sigmaOf (G.leavesL eout) k)
      = some (k, g ((ins.zipIdx 0).map (fun x => cOf x.2 x.1 (valOf (G.leavesL eout) k)))) := by
  have hargs : ewArgs (ins.map (fun e => (toDimL e, gShape e))) (sigmaOf (G.leavesL eout) k)
      = some ((ins.zipIdx 0).map (fun x => cOf x.2 x.1 (valOf (G.leavesL eout) k))) := by
    unfold ewArgs
    rw [List.zipIdx_map, mapOpt_map, mapOpt_eq_some_iff, List.map_map]
    apply List.map_congr_left
    intro x hx
    have hxe := List.fst_mem_of_mem_zipIdx hx
    obtain ⟨σ', hext, hval, _⟩ := extend_valOf hout (hcons x.1 hxe) (hsub x.1 hxe) hk
    simp only [Prod.map, id, leavesL_toDimL, hext, Function.comp]
    exact cellAt_valOf x.2 hval
  simp only [ewEntryG, hargs, flatPos_valOf hout hk]

/-- A list of entries that writes `c k` to every flat position `k` of a repetition-free output, in the order of
the iteration space, gathers to the cells `c 0, c 1, …`. -/
theorem gather_pointwise {eout : List G} (hout : (names (G.leavesL eout)).Nodup) (fE : Assign → Option (Nat × Cell))
    (c : Nat → Cell) (hpt : ∀ k, k < prod (lens (G.leavesL eout)) → fE (sigmaOf (G.leavesL eout) k) = some (k, c k)) :
    (match mapOpt fE (outAssignments (toDimL eout)) with
      | some es => gatherAll (prod (gShape eout)) es
      | none => none) = some ((List.range (prod (gShape eout))).map c) := by
  have hn : prod (gShape eout) = prod (lens (G.leavesL eout)) := prod_gShape_leaves eout
  have hentries : mapOpt fE (outAssignments (toDimL eout))
      = some ((List.range (prod (gShape eout))).map (fun k => (k, c k))) := by
    rw [outAssignments_toDimL eout hout, mapOpt_eq_some_iff, hn, List.map_map, List.map_map]
    apply List.map_congr_left
    intro k hk
    exact hpt k (List.mem_range.mp hk)
  rw [hentries]
  exact gatherAll_range _ c

/-- **The denotation side of elementwise operations.** -/
theorem ewCellsG_lower (g : List Cell → Cell) {ins : List (List G)} {eout : List G}
    (hout : (names (G.leavesL eout)).Nodup)
    (hcons : ∀ e ∈ ins, ∀ a ∈ G.leavesL e, ∀ b ∈ G.leavesL eout, a.name = b.name → a.len = b.len)
    (hsub : ∀ e ∈ ins, ∀ a ∈ G.leavesL e, a.len ≠ 1 → a.name ∈ names (G.leavesL eout)) :
    ∃ cs, ewCellsG g (ins.map (fun e => (toDimL e, gShape e))) (toDimL eout) (gShape eout) = some cs ∧
      cs.length = prod (gShape eout) ∧
      ∀ k, k < prod (gShape eout) → ∃ val, (∀ e ∈ ins, Bnd val (G.leavesL e)) ∧ Bnd val (G.leavesL eout) ∧
        ravel (lens (G.leavesL eout)) (idx (G.leavesL eout) val) = k ∧
        cs[k]? = some (g ((ins.zipIdx 0).map (fun x => cOf x.2 x.1 val))) := by
  have hn : prod (gShape eout) = prod (lens (G.leavesL eout)) := prod_gShape_leaves eout
  refine ⟨(List.range (prod (gShape eout))).map
    (fun k => g ((ins.zipIdx 0).map (fun x => cOf x.2 x.1 (valOf (G.leavesL eout) k)))), ?_, by simp, ?_⟩
  · unfold ewCellsG
    exact gather_pointwise hout _ _ (fun k hk => ewEntryG_lower g hout hcons hsub k hk)
  · intro k hk
    have hk' : k < prod (lens (G.leavesL eout)) := hn ▸ hk
    obtain ⟨_, hidx, hbo⟩ := sigmaOf_get hout hk'
    refine ⟨valOf (G.leavesL eout) k, ?_, hbo, by rw [hidx]; exact ravel_unravel _ _ hk', ?_⟩
    · intro e he
      obtain ⟨_, _, _, hb⟩ := extend_valOf hout (hcons e he) (hsub e he) hk'
      exact hb
    · rw [List.getElem?_map, List.getElem?_range hk]
      rfl

/-! ### the loop form of `denoteElementwiseFold` and of `fillOutput` -/

theorem mapOpt_map_some {α β γ : Type} (f : α → Option β) (h : β → γ) (l : List α) :
    mapOpt (fun a => (f a).map h) l = (mapOpt f l).map (List.map h) := by
  induction l with
  | nil => rfl
  | cons a as ih =>
    simp only [mapOpt, ih]
    cases f a with
    | none => rfl
    | some b =>
      cases mapOpt f as with
      | none => rfl
      | some bs => rfl

/-- `fillOutput`: scatter the entries by raveled position, then require every position to be written. -/
theorem okOpt_fillOutput (so : List Nat) (entries : List (List Nat × Cell)) :
    okOpt (fillOutput so entries)
      = (gatherAll (prod so) (entries.map (fun e => (ravel so e.1, e.2)))).map (fun cs => (⟨so, cs⟩ : Tensor Cell)) := by
  unfold fillOutput
  simp only [gatherAll, scatter, List.foldl_map]
  rw [okOpt_bind, okOpt_mapM_optE]
  cases mapOpt id (List.foldl (fun acc e => acc.set (ravel so e.1) (some e.2)) (List.replicate (prod so) none) entries) with
  | none => rfl
  | some cs => rfl

def foldOuter (f : String) (vis : List (List Dim)) (exprsIn : List Expr) (vo : List Dim) :
    Assign → List (List Nat × Cell) → Denote.E (ForInStep (List (List Nat × Cell))) :=
  fun σ entries => do
    let args ← forIn (vis.zip exprsIn).zipIdx [] (Denote.ewInner σ)
    let po ← optE "unassigned output axis" (position vo σ)
    pure (ForInStep.yield (entries ++ [(po, foldCells f args)]))

theorem denoteElementwiseFold_eq (f : String) (exprsIn : List Expr) (exprOut : Expr) :
    denoteElementwiseFold f exprsIn exprOut = (do
      let vis ← exprsIn.mapM singleView
      let vo ← singleView exprOut
      let entries ← forIn (assignments (axesOf (Dim.leavesL vo))) [] (foldOuter f vis exprsIn vo)
      fillOutput (shapeOf exprOut) entries) := by
  unfold denoteElementwiseFold
  rfl

def foldEntryP (f : String) (vis : List (List Dim)) (exprsIn : List Expr) (vo : List Dim) (σ : Assign) :
    Option (List Nat × Cell) :=
  match mapOpt (ewArg σ) (vis.zip exprsIn).zipIdx, position vo σ with
  | some args, some po => some (po, foldCells f args)
  | _, _ => none

theorem fold_outer_loop (f : String) (vis : List (List Dim)) (exprsIn : List Expr) (vo : List Dim) :
    ∀ (asg : List Assign) (entries : List (List Nat × Cell)),
      okOpt (forIn asg entries (foldOuter f vis exprsIn vo))
        = (mapOpt (foldEntryP f vis exprsIn vo) asg).map (fun es => entries ++ es) := by
  intro asg
  induction asg with
  | nil => intro entries; simp [mapOpt, okOpt_pure]
  | cons σ asg ih =>
    intro entries
    rw [List.forIn_cons]
    simp only [foldOuter, bind_assoc, pure_bind]
    rw [okOpt_bind, ew_inner_loop]
    simp only [mapOpt, foldEntryP]
    cases mapOpt (ewArg σ) (vis.zip exprsIn).zipIdx with
    | none => rfl
    | some args =>
      simp only [Option.map_some, Option.bind_some, List.nil_append]
      cases hp : position vo σ with
      | none => simp only [optE_none, error_bind, okOpt, Option.map_none]
      | some po =>
        simp only [optE_some, pure_bind, ih]
        cases mapOpt (foldEntryP f vis exprsIn vo) asg with
        | none => rfl
        | some es => simp [List.append_assoc]

/-- **Tie between the loop form and the functional form of the n-ary elementwise denotation.** -/
theorem denoteElementwiseFold_eq_fun (f : String) (exprsIn : List Expr) (exprOut : Expr)
    (hin : Expr.concatFreeL exprsIn = true) (hout : exprOut.concatFree = true) :
    okOpt (denoteElementwiseFold f exprsIn exprOut)
      = (ewCellsG (foldCells f) (exprsIn.map (fun e => (rootDims e, shapeOf e))) (rootDims exprOut) (shapeOf exprOut)).map
          (fun cs => (⟨shapeOf exprOut, cs⟩ : Tensor Cell)) := by
  rw [denoteElementwiseFold_eq, mapM_singleView exprsIn hin, singleView_of_concatFree hout]
  simp only [pure_bind]
  rw [okOpt_bind, fold_outer_loop]
  have hent : ewEntryG (foldCells f) (exprsIn.map (fun e => (rootDims e, shapeOf e))) (rootDims exprOut) (shapeOf exprOut)
      = fun σ => (foldEntryP f (exprsIn.map rootDims) exprsIn (rootDims exprOut) σ).map
          (fun e => (ravel (shapeOf exprOut) e.1, e.2)) := by
    funext σ
    have : mapOpt (ewArg σ) ((exprsIn.map rootDims).zip exprsIn).zipIdx
        = ewArgs (exprsIn.map (fun e => (rootDims e, shapeOf e))) σ := by
      unfold ewArgs
      have h1 : (exprsIn.map rootDims).zip exprsIn = exprsIn.map (fun e => (rootDims e, e)) := by
        rw [List.zip_map_left, List.zip_eq_zipWith]; simp [List.zipWith_self]
      rw [h1, List.zipIdx_map, List.zipIdx_map, mapOpt_map, mapOpt_map]
      rfl
    simp only [ewEntryG, foldEntryP, this, flatPos]
    cases ewArgs (exprsIn.map (fun e => (rootDims e, shapeOf e))) σ with
    | none => rfl
    | some args =>
      cases position (rootDims exprOut) σ with
      | none => rfl
      | some po => rfl
  unfold ewCellsG
  rw [hent, mapOpt_map_some]
  simp only [outAssignments]
  cases mapOpt (foldEntryP f (exprsIn.map rootDims) exprsIn (rootDims exprOut))
      (assignments (axesOf (Dim.leavesL (rootDims exprOut)))) with
  | none => rfl
  | some es =>
    simp only [Option.map_some, Option.bind_some, List.nil_append]
    exact okOpt_fillOutput _ _

/-! ### both sides together -/

theorem concatFreeL_map_rootExpr : ∀ ins : List (List G), Expr.concatFreeL (ins.map rootExpr) = true
  | [] => rfl
  | e :: es => by
    simp only [List.map_cons, Expr.concatFreeL, concatFree_rootExpr e, concatFreeL_map_rootExpr es, Bool.and_self]

theorem map_rootExpr_dims (ins : List (List G)) :
    (ins.map rootExpr).map (fun e => (rootDims e, shapeOf e)) = ins.map (fun e => (toDimL e, gShape e)) := by
  rw [List.map_map]
  apply List.map_congr_left
  intro e _
  simp only [Function.comp, rootDims_rootExpr, shapeOf_rootExpr]

theorem ok_of_okOpt {α : Type} {x : Denote.E α} {a : α} (h : okOpt x = some a) : x = .ok a := by
  cases x with
  | error e => simp [okOpt] at h
  | ok b => simp only [okOpt, Option.some.injEq] at h; rw [h]

/-- The denotation an elementwise call is compared with, from the cells of the functional form. -/
theorem ewExpected_of_cells {f : String} {kind : EwKind} {ins : List (List G)} {go : List G} {cs : List Cell}
    (hk : ewKindOf f = some kind)
    (h : ewCellsG (ewCell f kind) (ins.map (fun e => (toDimL e, gShape e))) (toDimL go) (gShape go) = some cs) :
    ewExpected f ins go = .ok ⟨gShape go, cs⟩ := by
  unfold ewExpected
  rw [hk]
  cases kind with
  | nary =>
    simp only []
    apply ok_of_okOpt
    rw [denoteElementwiseFold_eq_fun f _ _ (concatFreeL_map_rootExpr ins) (concatFree_rootExpr go), map_rootExpr_dims,
      rootDims_rootExpr, shapeOf_rootExpr]
    have : ewCell f EwKind.nary = foldCells f := rfl
    rw [this] at h
    rw [h]; rfl
  | fixed n =>
    simp only []
    apply ok_of_okOpt
    rw [denoteElementwise_eq_fun f _ _ (concatFreeL_map_rootExpr ins) (concatFree_rootExpr go)]
    unfold denoteElementwiseFun
    simp only [concatFreeL_map_rootExpr ins, concatFree_rootExpr go, Bool.and_self, Bool.not_true, Bool.false_eq_true,
      if_false]
    rw [map_rootExpr_dims, rootDims_rootExpr, shapeOf_rootExpr, ewCells_eq_G]
    have : ewCell f (EwKind.fixed n) = Cell.app f := rfl
    rw [this] at h
    rw [h]; rfl

theorem symRun_multi {prog : List Instr} {shapes : List (List Nat)} {regs : List (Tensor Cell)} {r : Nat} {T : Tensor Cell}
    (hev : evalProg symAlg prog (symInputs shapes) = .ok regs) (hr : regs[r]? = some T) :
    symRun prog shapes [r] = .ok [T] := by
  simp [symRun, hev, bind, Except.bind, selectRegs, hr, pure, Except.pure]

/-- The register that `lowerElementwise`'s program computes from the symbolic inputs holds exactly the cells of the
loop-notation denotation. -/
theorem lower_ew_core {f : String} {ins : List (List G)} {go : List G} {s : St}
    (hd : ewDomain ins go = true) (h : lowerElementwise f ins go = .ok s) :
    ∃ T, ewExpected f ins go = .ok T ∧ T.shape = gShape go ∧
      symRun s.prog (ins.map gShape) [s.reg] = .ok [T] := by
  simp only [ewDomain, Bool.and_eq_true, List.all_eq_true] at hd
  have hout := (noDup_iff _).mp hd.1
  have hcons : ∀ e ∈ ins, ∀ a ∈ G.leavesL e, ∀ b ∈ G.leavesL go, a.name = b.name → a.len = b.len :=
    fun e he => consistentLens_spec (hd.2 e he)
  cases hk : ewKindOf f with
  | none =>
    unfold lowerElementwise Generic.ewInner at h
    simp [hk, bind, Except.bind, throw, throwThe, MonadExceptOf.throw] at h
  | some kind =>
    obtain ⟨hall, regs, T, hev, hreg, hsh, hlen, hread⟩ := lowerElementwise_run hk hout hcons h
    obtain ⟨cs, hcs, hcl, hpt⟩ := ewCellsG_lower (ewCell f kind) hout hcons (fun e he => (hall e he).2)
    have hdat : T.data = cs := by
      apply List.ext_getElem?
      intro k
      by_cases hk' : k < prod (gShape go)
      · obtain ⟨val, hbi, hbo, hr, hc⟩ := hpt k hk'
        have := hread val hbi hbo
        rw [hr] at this
        rw [this, hc]
      · rw [List.getElem?_eq_none (by omega), List.getElem?_eq_none (by omega)]
    refine ⟨⟨gShape go, cs⟩, ewExpected_of_cells hk hcs, rfl, ?_⟩
    have hT : T = ⟨gShape go, cs⟩ := by
      cases T
      simp only at hsh hdat
      rw [hsh, hdat]
    rw [← hT]
    exact symRun_multi hev hreg
