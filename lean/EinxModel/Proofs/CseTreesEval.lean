import EinxModel.Proofs.CseTreesBasic
/-!
Helper lemmas for `Props/C02Cse.lean`, part 2: **the replacement walk preserves values** (`repl_eval`): if every
event of the walk is good for a pair of assignments `σ` (before) / `σ'` (after) — a copied unknown axis has the same
length, the axis `cse.<k>` has the value of what it replaces, a replaced root-level part has one dimension — then the
output nodes have the values of the input nodes, entry by entry at root level.
-/
namespace Einx.Solve.CseT
open Einx.Solve

def GoodEv (σ σ' : Var → Nat) : Ev → Prop
  | .surv n _ => σ' n = σ n
  | .used k e len atRoot =>
    0 < len ∧ (valueOf e = none → σ' (cseName k) = evalV σ e) ∧ (atRoot = true → ndim e = 1)

def isList : VExpr → Bool
  | .list _ => true
  | _ => false

theorem noListL_cons (c : VExpr) (cs : List VExpr) : noListL (c :: cs) = (!isList c && noListL cs) := by
  cases c <;> simp [noListL, isList]

section
variable (mn : Id → Option Nat) (ma : Id → Nat → Nat → Option (Nat × Nat))

theorem repl_matched {id : Id} {k : Nat} (h : mn id = some k) (e : VExpr) :
    repl cseName mn ma id e = (do pure [← newAxis (cseName k) (valueOf e) (valueRange e)]) := by
  cases e <;> simp [repl, nodeOr, h]

theorem trace_matched {id : Id} {k : Nat} (h : mn id = some k) (lvl : Bool) (e : VExpr) :
    trace mn ma lvl id e = [.used k e 1 lvl] := by
  cases e <;> simp [trace, evNode, h]

variable (σ σ' : Var → Nat)

/-- the axis that replaces `e` has the value of `e` -/
theorem used_axis_eval {k : Nat} {e : VExpr} {len : Nat} {r : Bool} (m : Nat)
    (hg : GoodEv σ σ' (.used k e len r)) : evalV σ' (.axis (cseName k) (valueOf e) m) = evalV σ e := by
  obtain ⟨_, h2, _⟩ := hg
  cases hv : valueOf e with
  | none => simp only [evalV]; exact h2 hv
  | some v => simp only [evalV]; exact (valueOf_some_eval σ e v hv).symm

def RNode (t : VExpr) : Prop :=
  ∀ (lvl : Bool) (id : Id) (ts' : List VExpr), wfV t = true → repl cseName mn ma id t = .ok ts' →
    (∀ ev ∈ trace mn ma lvl id t, GoodEv σ σ' ev) →
    natProd (evalVL σ' ts') = evalV σ t ∧ (lvl = true → evalVL σ' (itemsL ts') = evalVL σ (items t)) ∧
      (isList t = false → ∃ t', ts' = [t'])

def RList (l : List VExpr) : Prop :=
  (∀ (lvl : Bool) (pid : Id) (n i skip : Nat) (ts' : List VExpr), wfVL l = true →
    replL cseName mn ma pid n i skip l = .ok ts' → (∀ ev ∈ traceL mn ma lvl pid n i skip l, GoodEv σ σ' ev) →
    natProd (evalVL σ' ts') = natProd (evalVL σ (l.drop skip)) ∧
      (lvl = true → evalVL σ' (itemsL ts') = evalVL σ (itemsL (l.drop skip)))) ∧
  (∀ (lvl : Bool) (pid : Id) (k : Nat) (ts' : List VExpr), wfVL l = true →
    replC cseName mn ma pid k l = .ok ts' → (∀ ev ∈ traceC mn ma lvl pid k l, GoodEv σ σ' ev) →
    natProd (evalVL σ' ts') = natProd (evalVL σ l) ∧
      (lvl = true → evalVL σ' (itemsL ts') = evalVL σ (itemsL l)) ∧
      (noListL l = true → evalVL σ' ts' = evalVL σ l ∧ ts'.length = l.length))

/-- the node-level replacement -/
theorem rNode_matched {id : Id} {k : Nat} (hm : mn id = some k) (t : VExpr) (lvl : Bool) (ts' : List VExpr)
    (hr : repl cseName mn ma id t = .ok ts') (hg : ∀ ev ∈ trace mn ma lvl id t, GoodEv σ σ' ev) :
    natProd (evalVL σ' ts') = evalV σ t ∧ (lvl = true → evalVL σ' (itemsL ts') = evalVL σ (items t)) ∧
      (isList t = false → ∃ t', ts' = [t']) := by
  rw [repl_matched mn ma hm] at hr
  rw [trace_matched mn ma hm] at hg
  obtain ⟨a, ha, hp⟩ := bind_ok.mp hr
  obtain ⟨m, ub, _, rfl⟩ := newAxis_ok ha
  have hts := pure_ok.mp hp
  subst hts
  have hgood := hg _ (List.mem_singleton.mpr rfl)
  have hev := used_axis_eval σ σ' m hgood
  refine ⟨by simp [evalVL, natProd, hev], ?_, fun _ => ⟨_, rfl⟩⟩
  intro hl
  have hnd : ndim t = 1 := hgood.2.2 hl
  rw [ndim_one_vals σ t hnd]
  simp [itemsL, items, evalVL, hev]

theorem drop_pos_cons {α : Type} (x : α) (xs : List α) {k : Nat} (h : 0 < k) : (x :: xs).drop k = xs.drop (k - 1) := by
  cases k with
  | zero => omega
  | succ j => simp

mutual
theorem rNode : ∀ t : VExpr, RNode mn ma σ σ' t
  | .axis n v m => by
    intro lvl id ts' _ hr hg
    cases hm : mn id with
    | some k => exact rNode_matched mn ma σ σ' hm _ lvl ts' hr hg
    | none =>
      simp only [repl, nodeOr, hm] at hr
      simp only [trace, evNode, hm] at hg
      have := pure_ok.mp hr; subst this
      have hev : evalV σ' (.axis n v m) = evalV σ (.axis n v m) := by
        cases v with
        | none => simp only [evalV]; exact hg _ (List.mem_singleton.mpr rfl)
        | some w => simp [evalV]
      exact ⟨by simp [evalVL, natProd, hev], fun _ => by simp [itemsL, items, evalVL, hev], fun _ => ⟨_, rfl⟩⟩
  | .flat e => by
    intro lvl id ts' hwf hr hg
    cases hm : mn id with
    | some k => exact rNode_matched mn ma σ σ' hm _ lvl ts' hr hg
    | none =>
      simp only [repl, nodeOr, hm] at hr
      simp only [trace, evNode, hm] at hg
      obtain ⟨ts2, h2, hp⟩ := bind_ok.mp hr
      have := pure_ok.mp hp; subst this
      obtain ⟨ih1, _, _⟩ := rNode e false (id ++ [0]) ts2 (by simpa [wfV] using hwf) h2 hg
      have hev : evalV σ' (mkFlat (mkList ts2)) = evalV σ (.flat e) := by
        rw [(mkFlat_spec σ' _).1, (mkList_spec σ' ts2).1, ih1]; simp [evalV]
      refine ⟨by simp [evalVL, natProd, hev], fun _ => ?_, fun _ => ⟨_, rfl⟩⟩
      simp [itemsL, (mkFlat_spec σ' _).2.1, items, evalVL, hev]
  | .brackets e => by
    intro lvl id ts' hwf hr hg
    cases hm : mn id with
    | some k => exact rNode_matched mn ma σ σ' hm _ lvl ts' hr hg
    | none =>
      simp only [repl, nodeOr, hm] at hr
      simp only [trace, evNode, hm] at hg
      obtain ⟨ts2, h2, hp⟩ := bind_ok.mp hr
      have := pure_ok.mp hp; subst this
      obtain ⟨ih1, ih2, _⟩ := rNode e lvl (id ++ [0]) ts2 (by simpa [wfV] using hwf) h2 hg
      have hev : evalV σ' (mkBrackets (mkList ts2)) = evalV σ (.brackets e) := by
        rw [(mkBrackets_spec σ' _).1, (mkList_spec σ' ts2).1, ih1]; simp [evalV]
      refine ⟨by simp [evalVL, natProd, hev], fun hl => ?_, fun _ => ⟨_, rfl⟩⟩
      simp only [itemsL, List.append_nil, (mkBrackets_spec σ' _).2.1, (mkList_spec σ' ts2).2.1, items]
      exact ih2 hl
  | .concat cs => by
    intro lvl id ts' hwf hr hg
    cases hm : mn id with
    | some k => exact rNode_matched mn ma σ σ' hm _ lvl ts' hr hg
    | none =>
      simp only [repl, nodeOr, hm] at hr
      simp only [trace, evNode, hm] at hg
      obtain ⟨ts2, h2, hr2⟩ := bind_ok.mp hr
      obtain ⟨c', hc, hp⟩ := bind_ok.mp hr2
      have := pure_ok.mp hp; subst this
      simp only [wfV, Bool.and_eq_true, decide_eq_true_eq] at hwf
      obtain ⟨⟨hw1, hw2⟩, hw3⟩ := hwf
      obtain ⟨_, _, ih3⟩ := (rList cs).2 lvl id 0 ts2 hw1 h2 hg
      obtain ⟨ihv, ihl⟩ := ih3 hw2
      have hcc := mkConcat_spec σ' ts2 c' hc (by omega)
      subst hcc
      have hev : evalV σ' (.concat ts2) = evalV σ (.concat cs) := by simp only [evalV]; rw [ihv]
      exact ⟨by simp [evalVL, natProd, hev], fun _ => by simp [itemsL, items, evalVL, hev], fun _ => ⟨_, rfl⟩⟩
  | .list cs => by
    intro lvl id ts' hwf hr hg
    cases hm : mn id with
    | some k => exact rNode_matched mn ma σ σ' hm _ lvl ts' hr hg
    | none =>
      simp only [repl, nodeOr, hm] at hr
      simp only [trace, evNode, hm] at hg
      have hw : wfVL cs = true := by simpa [wfV] using hwf
      refine ⟨?_, ?_, fun h => by simp [isList] at h⟩
      · split at hr
        · rename_i h1
          simp only [h1, if_true] at hg
          exact ((rList cs).2 lvl id 0 ts' hw hr hg).1
        · rename_i h1
          simp only [h1] at hg
          simpa [evalV] using ((rList cs).1 lvl id cs.length 0 0 ts' hw hr hg).1
      · intro hl
        split at hr
        · rename_i h1
          simp only [h1, if_true] at hg
          simpa [items] using ((rList cs).2 lvl id 0 ts' hw hr hg).2.1 hl
        · rename_i h1
          simp only [h1] at hg
          simpa [items] using ((rList cs).1 lvl id cs.length 0 0 ts' hw hr hg).2 hl
theorem rList : ∀ l : List VExpr, RList mn ma σ σ' l
  | [] => by
    refine ⟨?_, ?_⟩
    · intro lvl pid n i skip ts' _ hr _
      simp only [replL] at hr
      have := pure_ok.mp hr; subst this
      simp [evalVL, itemsL]
    · intro lvl pid k ts' _ hr _
      simp only [replC] at hr
      have := pure_ok.mp hr; subst this
      simp [evalVL, itemsL]
  | t :: ts => by
    refine ⟨?_, ?_⟩
    · intro lvl pid n i skip ts' hwf hr hg
      simp only [wfVL, Bool.and_eq_true] at hwf
      simp only [replL] at hr
      simp only [traceL] at hg
      split at hr
      · rename_i hs
        simp only [hs, if_true] at hg
        rw [drop_pos_cons t ts hs]
        exact (rList ts).1 lvl pid n (i + 1) (skip - 1) ts' hwf.2 hr hg
      · rename_i hs
        have hs0 : skip = 0 := by omega
        subst hs0
        simp only [Nat.lt_irrefl, if_false] at hg
        simp only [List.drop_zero]
        cases hma : ma pid i n with
        | some p =>
          obtain ⟨idx, len⟩ := p
          simp only [hma] at hr hg
          obtain ⟨a, ha, hr2⟩ := bind_ok.mp hr
          obtain ⟨r, hrr, hp⟩ := bind_ok.mp hr2
          have := pure_ok.mp hp; subst this
          obtain ⟨m, ub, _, rfl⟩ := newAxis_ok ha
          have hgood := hg _ List.mem_cons_self
          have hlen : 0 < len := hgood.1
          have hvo : valueOf (.list ((t :: ts).take len)) = prodOpt (valuesOf ((t :: ts).take len)) := by simp [valueOf]
          have hev := used_axis_eval σ σ' m hgood
          rw [hvo] at hev
          obtain ⟨ih1, ih2⟩ := (rList ts).1 lvl pid n (i + 1) (len - 1) r hwf.2 hrr
            (fun ev hev => hg ev (List.mem_cons_of_mem _ hev))
          have hsplit : t :: ts = (t :: ts).take len ++ ts.drop (len - 1) := by
            conv => lhs; rw [← List.take_append_drop len (t :: ts)]
            rw [drop_pos_cons t ts hlen]
          constructor
          · conv => rhs; rw [hsplit]
            simp only [evalVL, natProd, evalVL_append, natProd_append, hev, ih1, evalV]
          · intro hl
            conv => rhs; rw [hsplit]
            have hnd : ndim (.list ((t :: ts).take len)) = 1 := hgood.2.2 hl
            have h1 := ndim_one_vals σ _ hnd
            simp only [items] at h1
            simp only [itemsL, items, itemsL_append, evalVL_append, evalVL, List.singleton_append, hev, ih2 hl, h1]
        | none =>
          simp only [hma] at hr hg
          obtain ⟨a, ha, hr2⟩ := bind_ok.mp hr
          obtain ⟨r, hrr, hp⟩ := bind_ok.mp hr2
          have := pure_ok.mp hp; subst this
          obtain ⟨ih1, ih2, _⟩ := rNode t lvl (pid ++ [i]) a hwf.1 ha (fun ev hev => hg ev (List.mem_append_left _ hev))
          obtain ⟨jh1, jh2⟩ := (rList ts).1 lvl pid n (i + 1) 0 r hwf.2 hrr
            (fun ev hev => hg ev (List.mem_append_right _ hev))
          simp only [List.drop_zero] at jh1 jh2
          constructor
          · simp only [evalVL_append, natProd_append, evalVL, natProd, ih1, jh1]
          · intro hl
            simp only [itemsL_append, evalVL_append, itemsL, ih2 hl, jh2 hl]
    · intro lvl pid k ts' hwf hr hg
      simp only [wfVL, Bool.and_eq_true] at hwf
      simp only [replC] at hr
      simp only [traceC] at hg
      obtain ⟨a, ha, hr2⟩ := bind_ok.mp hr
      obtain ⟨r, hrr, hp⟩ := bind_ok.mp hr2
      have := pure_ok.mp hp; subst this
      obtain ⟨ih1, ih2, ih3⟩ := rNode t lvl (pid ++ [k]) a hwf.1 ha (fun ev hev => hg ev (List.mem_append_left _ hev))
      obtain ⟨jh1, jh2, jh3⟩ := (rList ts).2 lvl pid (k + 1) r hwf.2 hrr
        (fun ev hev => hg ev (List.mem_append_right _ hev))
      refine ⟨?_, ?_, ?_⟩
      · simp only [evalVL_append, natProd_append, evalVL, natProd, ih1, jh1]
      · intro hl
        simp only [itemsL_append, evalVL_append, itemsL, ih2 hl, jh2 hl]
      · intro hnl
        rw [noListL_cons] at hnl
        simp only [Bool.and_eq_true, Bool.not_eq_true'] at hnl
        obtain ⟨t', rfl⟩ := ih3 hnl.1
        obtain ⟨k1, k2⟩ := jh3 hnl.2
        simp only [evalVL, natProd, Nat.mul_one] at ih1
        simp [evalVL, ih1, k1, k2]
end

end

end Einx.Solve.CseT
