import EinxModel.Proofs.NotationNFDefs
import EinxModel.Proofs.NotationFinishNF
/-!
# M1 Notation — normal form, layer 0: the result of `parse` satisfies `G true true true`

`parse_G`: every tree returned by `parse` is in the grammar `G` (with `Op`/`Args` nodes allowed wherever a `List` is), and
when the stripped token list contains no operator at its top level the result is an item or the empty list.
-/
namespace Einx.Notation

namespace NF

/-- `P` holds for the value of a successful result. -/
def OkP {α : Type} (P : α → Prop) : Res α → Prop
  | .ok x => P x
  | .error _ => True

theorem OkP.of_eq {α : Type} {P : α → Prop} {r : Res α} {x : α} (h : OkP P r) (hr : r = .ok x) : P x := by
  rw [hr] at h; exact h

/-! ### Elementary facts about the grammars -/

theorem G_item {ao aa al al' : Bool} {x : Expr} (h : G ao aa al x = true) (hi : isItem x = true) :
    G ao aa al' x = true := by
  cases x <;> first | (simpa only [G] using h) | (simp [isItem] at hi)

theorem G_mono {ao aa : Bool} {x : Expr} (h : G ao aa false x = true) : G ao aa true x = true := by
  cases x <;> first | (simpa only [G] using h) | (simp [G] at h)

theorem G_false_item {ao aa : Bool} {x : Expr} (h : G ao aa false x = true) : isItem x = true := by
  cases x <;> first | rfl | (simp [G] at h)

theorem GL_iff {ao aa al : Bool} : ∀ {cs : List Expr}, GL ao aa al cs = true ↔ ∀ c ∈ cs, G ao aa al c = true
  | [] => by simp [GL]
  | c :: cs => by simp [GL, GL_iff (cs := cs)]

theorem isItem_of_axisOrFlat {x : Expr} (h : isAxisOrFlat x = true) : isItem x = true := by
  cases x <;> first | rfl | (simp [isAxisOrFlat, Expr.isAxis, Expr.isFlat] at h)

theorem isEmptyList_ndim {x : Expr} (h : isEmptyList x = true) : x.ndim = some 0 := by
  cases x with
  | list cs b e =>
    cases cs with
    | nil => simp [Expr.ndim, ndimSum]
    | cons _ _ => simp [isEmptyList] at h
  | _ => simp [isEmptyList] at h

theorem G_emptyList (ao aa : Bool) : G ao aa true emptyList = true := by
  simp [emptyList, G, GL]

theorem isEmptyList_emptyList : isEmptyList emptyList = true := rfl

theorem G_of_isEmptyList {ao aa : Bool} {x : Expr} (h : isEmptyList x = true) : G ao aa true x = true := by
  cases x with
  | list cs b e =>
    cases cs with
    | nil => simp [G, GL]
    | cons _ _ => simp [isEmptyList] at h
  | _ => simp [isEmptyList] at h

/-! ### The smart constructors -/

theorem mkFlat_isFlat (a : Expr) (b e : Int) : (mkFlat a b e).isFlat = true := by
  unfold mkFlat
  split
  · assumption
  · rfl

theorem G_mkFlat {ao aa : Bool} {a : Expr} (b e : Int) (h : G ao aa true a = true) :
    G ao aa true (mkFlat a b e) = true := by
  unfold mkFlat
  split
  · exact h
  · rename_i hf
    simp only [G, Bool.and_eq_true, Bool.not_eq_true']
    exact ⟨by simpa using hf, h⟩

theorem mkBrackets_cases {ao aa : Bool} {a : Expr} (b e : Int) (h : G ao aa true a = true) :
    G ao aa true (mkBrackets a b e) = true ∧ (isItem (mkBrackets a b e) || isEmptyList (mkBrackets a b e)) = true ∧
      (mkBrackets a b e).ndim = a.ndim := by
  unfold mkBrackets
  split
  · rename_i hb
    refine ⟨h, ?_, rfl⟩
    cases a <;> simp [Expr.isBrackets] at hb
    simp [isItem]
  · split
    · rename_i hn
      refine ⟨G_emptyList ao aa, by simp [isEmptyList_emptyList], ?_⟩
      rw [isEmptyList_ndim isEmptyList_emptyList]
      exact (beq_iff_eq.mp hn).symm
    · rename_i hb hn
      refine ⟨?_, by simp [isItem], by simp [Expr.ndim]⟩
      simp only [G, Bool.and_eq_true, Bool.not_eq_true']
      exact ⟨⟨by simpa using hb, by simpa using hn⟩, h⟩

theorem mkEllipsis_cases {ao aa : Bool} {a : Expr} (b e : Int) (d : Nat) (h : G ao aa true a = true)
    (hi : (isItem a || isEmptyList a) = true) :
    G ao aa true (mkEllipsis a b e d) = true ∧ (isItem (mkEllipsis a b e d) || isEmptyList (mkEllipsis a b e d)) = true := by
  unfold mkEllipsis
  split
  · exact ⟨G_emptyList ao aa, by simp [isEmptyList_emptyList]⟩
  · rename_i hn
    refine ⟨?_, by simp [isItem]⟩
    have hne : isEmptyList a = false := by
      cases he : isEmptyList a with
      | false => rfl
      | true => rw [isEmptyList_ndim he] at hn; simp at hn
    have hit : isItem a = true := by simpa [hne] using hi
    simp only [G, Bool.or_eq_true, Bool.and_eq_true]
    right
    exact ⟨by simpa using hn, G_item h hit⟩

theorem mkConcat_two {cs : List Expr} (b e : Int) (h : 2 ≤ cs.length) : mkConcat cs b e = .concat cs b e :=
  FinNF.mkConcat_nf b e h

theorem G_mkConcat {ao aa : Bool} {cs : List Expr} (b e : Int) (h2 : 2 ≤ cs.length)
    (hax : ∀ c ∈ cs, isAxisOrFlat c = true) (hg : ∀ c ∈ cs, G ao aa true c = true) :
    G ao aa true (mkConcat cs b e) = true := by
  rw [mkConcat_two b e h2]
  simp only [G, Bool.and_eq_true, decide_eq_true_eq, List.all_eq_true]
  refine ⟨⟨h2, hax⟩, GL_iff.mpr ?_⟩
  intro c hc
  exact G_item (hg c hc) (isItem_of_axisOrFlat (hax c hc))

/-! ### `List.create` on items and empty lists -/

theorem flattenOne_item {x : Expr} (h : isItem x = true) : flattenOne x = [x] := by
  cases x <;> first | rfl | (simp [isItem] at h)

theorem flattenOne_empty {x : Expr} (h : isEmptyList x = true) : flattenOne x = [] := by
  cases x with
  | list cs b e =>
    cases cs with
    | nil => simp [flattenOne, flattenAll]
    | cons _ _ => simp [isEmptyList] at h
  | _ => simp [isEmptyList] at h

theorem mem_flattenAll_items : ∀ {xs : List Expr}, (∀ x ∈ xs, (isItem x || isEmptyList x) = true) →
    ∀ y ∈ flattenAll xs, y ∈ xs ∧ isItem y = true
  | [], _, y, hy => by simp [flattenAll] at hy
  | x :: xs, h, y, hy => by
    simp only [flattenAll, List.mem_append] at hy
    have hx := h x (by simp)
    rcases hy with hy | hy
    · cases hit : isItem x with
      | true =>
        rw [flattenOne_item hit] at hy
        simp only [List.mem_singleton] at hy
        subst hy
        exact ⟨by simp, hit⟩
      | false =>
        have he : isEmptyList x = true := by simpa [hit] using hx
        rw [flattenOne_empty he] at hy
        cases hy
    · obtain ⟨h1, h2⟩ := mem_flattenAll_items (fun x' hx' => h x' (by simp [hx'])) y hy
      exact ⟨by simp [h1], h2⟩

/-- `List.create` of trees in the grammar that are items or empty lists is in the grammar. -/
theorem G_mkList {ao aa : Bool} {xs : List Expr} (b e : Int) (hg : ∀ x ∈ xs, G ao aa true x = true)
    (hi : ∀ x ∈ xs, (isItem x || isEmptyList x) = true) : G ao aa true (mkList xs b e) = true := by
  have hm := mem_flattenAll_items hi
  unfold mkList
  split
  · rename_i c hc
    exact hg c (hm c (by rw [hc]; simp)).1
  · rename_i hne
    simp only [G, Bool.true_and, Bool.and_eq_true, bne_iff_ne, ne_eq]
    refine ⟨?_, GL_iff.mpr ?_⟩
    · intro h1
      match hf : flattenAll xs, h1 with
      | [c], _ => exact hne c hf
    · intro c hc
      obtain ⟨h1, h2⟩ := hm c hc
      exact G_item (hg c h1) h2

/-! ### Operands -/

theorem naryOps_eq : naryOps = [lit "->", lit ",", lit "+", lit " "] := by decide

theorem splitOn_mem (op : Str) (d : Nat) : ∀ (ts : List Tok),
    (∀ t ∈ (splitOn op d ts).1.1, t ∈ ts ∧ t.isText op = false) ∧
      ∀ o ∈ (splitOn op d ts).2, ∀ t ∈ o.1, t ∈ ts ∧ t.isText op = false
  | [] => by simp [splitOn]
  | t :: ts => by
    have ih := splitOn_mem op d ts
    simp only [splitOn]
    split
    · refine ⟨by simp, ?_⟩
      intro o ho t' ht'
      rcases List.mem_cons.mp ho with rfl | ho
      · have := ih.1 t' ht'
        exact ⟨by simp [this.1], this.2⟩
      · have := ih.2 o ho t' ht'
        exact ⟨by simp [this.1], this.2⟩
    · rename_i hne
      refine ⟨?_, ?_⟩
      · intro t' ht'
        rcases List.mem_cons.mp ht' with rfl | ht'
        · exact ⟨by simp, by simpa using hne⟩
        · have := ih.1 t' ht'
          exact ⟨by simp [this.1], this.2⟩
      · intro o ho t' ht'
        have := ih.2 o ho t' ht'
        exact ⟨by simp [this.1], this.2⟩

theorem operands_mem {op : Str} {ts : List Tok} {o : TL} (ho : o ∈ operands op ts) :
    ∀ t ∈ o.ts, t ∈ ts ∧ t.isText op = false := by
  simp only [operands, List.map_cons, List.mem_cons, List.mem_map] at ho
  have := splitOn_mem op (lastEnd ts 0) ts
  rcases ho with ho | ⟨p, hp, ho⟩
  · subst ho; rw [mkTL_ts]; exact this.1
  · subst ho; rw [mkTL_ts]; exact this.2 p hp

theorem splitOn_rest_ne (op : Str) (d : Nat) : ∀ (ts : List Tok), ts.any (Tok.isText op) = true → (splitOn op d ts).2 ≠ []
  | [], h => by simp at h
  | t :: ts, h => by
    simp only [splitOn]
    split
    · simp
    · rename_i hne
      have : ts.any (Tok.isText op) = true := by simpa [hne] using h
      exact splitOn_rest_ne op d ts this

theorem operands_length_pos (op : Str) (ts : List Tok) : 1 ≤ (operands op ts).length := by
  simp [operands]

theorem operands_length_two {op : Str} {ts : List Tok} (h : ts.any (Tok.isText op) = true) :
    2 ≤ (operands op ts).length := by
  have := splitOn_rest_ne op (lastEnd ts 0) ts h
  simp only [operands, List.map_cons, List.length_cons, List.length_map]
  cases hr : (splitOn op (lastEnd ts 0) ts).2 with
  | nil => exact (this hr).elim
  | cons _ _ => simp

theorem findOp_none_of_all {ops : List Str} {ts : List Tok} (h : ∀ op ∈ ops, ts.any (Tok.isText op) = false) :
    findOp ops ts = none := by
  induction ops with
  | nil => rfl
  | cons a as ih =>
    simp only [findOp]
    rw [h a (by simp)]
    simp only [Bool.false_eq_true, if_false]
    exact ih (fun op hop => h op (by simp [hop]))

theorem all_of_findOp_none {ops : List Str} {ts : List Tok} (h : findOp ops ts = none) :
    ∀ op ∈ ops, ts.any (Tok.isText op) = false := by
  induction ops with
  | nil => simp
  | cons a as ih =>
    simp only [findOp] at h
    split at h
    · cases h
    · rename_i hne
      intro op hop
      rcases List.mem_cons.mp hop with rfl | hop
      · simpa using hne
      · exact ih h op hop

theorem any_false_of_sub {op : Str} {ts ts' : List Tok} (hsub : ∀ t ∈ ts', t ∈ ts) (h : ts.any (Tok.isText op) = false) :
    ts'.any (Tok.isText op) = false := by
  rw [List.any_eq_false] at h ⊢
  intro t ht
  exact h t (hsub t ht)

/-- An operand of the space operator contains no operator at its top level. -/
theorem space_operand_noOps {ts : List Tok} {o : TL} (hf : findOp naryOps ts = some (lit " "))
    (ho : o ∈ operands (lit " ") ts) : findOp naryOps (strip o.ts) = none := by
  have hm := operands_mem ho
  rw [naryOps_eq] at hf ⊢
  simp only [findOp] at hf
  have hsub : ∀ t ∈ strip o.ts, t ∈ ts := fun t ht => (hm t (mem_strip ht)).1
  apply findOp_none_of_all
  intro op hop
  simp only [List.mem_cons, List.not_mem_nil, or_false] at hop
  split at hf
  · cases hf
  · rename_i h1
    split at hf
    · cases hf
    · rename_i h2
      split at hf
      · cases hf
      · rename_i h3
        rcases hop with rfl | rfl | rfl | rfl
        · exact any_false_of_sub hsub (by simpa using h1)
        · exact any_false_of_sub hsub (by simpa using h2)
        · exact any_false_of_sub hsub (by simpa using h3)
        · rw [List.any_eq_false]
          intro t ht
          have := (hm t (mem_strip ht)).2
          simp [this]

theorem mapM_ok_length {α β : Type} (f : α → Res β) : ∀ (l : List α) (xs : List β), l.mapM f = .ok xs → xs.length = l.length
  | [], xs, h => by
    simp only [List.mapM_nil, pure, Except.pure, Except.ok.injEq] at h
    subst h; rfl
  | a :: l, xs, h => by
    simp only [List.mapM_cons, bind, Except.bind] at h
    cases hfa : f a with
    | error e => rw [hfa] at h; simp at h
    | ok y =>
      rw [hfa] at h
      simp only at h
      cases hl : l.mapM f with
      | error e => rw [hl] at h; simp at h
      | ok ys =>
        rw [hl] at h
        simp only [pure, Except.pure, Except.ok.injEq] at h
        subst h
        simp [mapM_ok_length f l ys hl]

/-! ### `combine` and `parseAxis` -/

theorem keepOperands_of_ne {op : Str} (h : op ≠ lit " ") (ops : List TL) : keepOperands op ops = ops := by
  unfold keepOperands
  rw [if_neg (by simpa using h)]

/-- The result of `combine`, given what is known about the parsed operands. -/
theorem combine_G {op : Str} {xs : List Expr} {b e : Nat} {ipc : Bool} {ts : List Tok}
    (hg : ∀ x ∈ xs, G true true true x = true)
    (hsp : op = lit " " → ∀ x ∈ xs, (isItem x || isEmptyList x) = true)
    (hne : op ≠ lit " " → xs ≠ []) (h2 : op = lit "+" → 2 ≤ xs.length) :
    OkP (fun y => G true true true y = true) (combine op xs b e ipc ts) := by
  unfold combine
  split
  · rename_i hop
    exact G_mkList _ _ hg (hsp (by simpa using hop))
  · rename_i hsp
    have hne := hne (by simpa using hsp)
    split
    · simp only [OkP, G, Bool.true_and, Bool.and_eq_true, Bool.not_eq_true', List.isEmpty_eq_false_iff]
      exact ⟨hne, GL_iff.mpr hg⟩
    · split
      · simp only [OkP, G, Bool.true_and, Bool.and_eq_true, Bool.not_eq_true', List.isEmpty_eq_false_iff]
        exact ⟨hne, GL_iff.mpr hg⟩
      · split
        · rename_i hop
          dsimp only
          split
          · trivial
          · rename_i hinv
            split
            · trivial
            · simp only [OkP]
              have hax : ∀ c ∈ xs, isAxisOrFlat c = true := by
                intro c hc
                have : (xs.filter (fun o => !isAxisOrFlat o)) = [] := by simpa using hinv
                rw [List.filter_eq_nil_iff] at this
                simpa using this c hc
              exact G_mkConcat _ _ (h2 (by simpa using hop)) hax hg
        · trivial

theorem parseAxis_G (t : Token) : OkP (fun y => G true true true y = true ∧ isItem y = true) (parseAxis t) := by
  unfold parseAxis
  split
  · split
    · simp only [OkP, G, axisOK, isItem, and_true]
      simp
    · trivial
  · split
    · rename_i h
      simp only [OkP, G, axisOK, isItem, and_true]
      exact h
    · trivial

theorem G_anon_ellipsis (t : Token) :
    G true true true (mkEllipsis (.axis anonName none t.b t.b) t.b t.e t.b) = true ∧
      isItem (mkEllipsis (.axis anonName none t.b t.b) t.b t.e t.b) = true := by
  have : mkEllipsis (.axis anonName none t.b t.b) t.b t.e t.b = .ellipsis (.axis anonName none t.b t.b) t.b t.b t.e := by
    simp [mkEllipsis, Expr.ndim]
  rw [this]
  simp [G, isAnonAxisNone, isItem]

/-! ### `parse` -/

/-- Layer 0: the result of `parse` is in the grammar `G` (with `Op` and `Args` nodes); if the stripped token list has no
    operator at its top level, the result is an item or the empty list. -/
theorem parse_G (ts : List Tok) (b e : Nat) (ipc : Bool) :
    OkP (fun x => G true true true x = true ∧
      (findOp naryOps (strip ts) = none → (isItem x || isEmptyList x) = true)) (parse ts b e ipc) := by
  fun_induction parse ts b e ipc with
  | case1 ts b e ipc hs =>
    simp only [OkP]
    refine ⟨?_, fun _ => ?_⟩
    · simp [mkList, flattenAll, G, GL]
    · simp [mkList, flattenAll, isEmptyList]
  | case2 ts b e ipc o c inner hs ib err heq ih => trivial
  | case3 ts b e ipc o c inner hs ib x heq ho hc ih =>
    rw [heq] at ih
    simp only [OkP] at ih ⊢
    refine ⟨ih.1, fun _ => ?_⟩
    cases x <;> simp [Expr.isConcat] at hc
    simp [isItem]
  | case4 ts b e ipc o c inner hs ib x heq ho hc ih =>
    rw [heq] at ih
    simp only [OkP] at ih ⊢
    refine ⟨G_mkFlat _ _ ih.1, fun _ => ?_⟩
    have := mkFlat_isFlat x o.b c.e
    cases hm : mkFlat x o.b c.e <;> rw [hm] at this <;> simp [Expr.isFlat] at this
    simp [isItem]
  | case5 ts b e ipc o c inner hs ib x heq ho hb ih =>
    rw [heq] at ih
    simp only [OkP] at ih ⊢
    have := mkBrackets_cases (ao := true) (aa := true) (Int.ofNat o.b) (Int.ofNat c.e) ih.1
    exact ⟨this.1, fun _ => this.2.1⟩
  | case6 => trivial
  | case7 => trivial
  | case8 ts b e ipc t0 rest _ hs ts1 b1 e1 op hop xs heq ih =>
    have hlen := mapM_ok_length _ _ _ heq
    have hany := findOp_any hop
    have hmem : ∀ x ∈ xs, ∃ a : { o // o ∈ keepOperands op (operands op ts1) },
        parse a.1.ts a.1.b a.1.e false = .ok x := by
      intro x hx
      obtain ⟨a, _, ha⟩ := mapM_ok_mem _ _ _ heq x hx
      exact ⟨a, ha⟩
    have hih : ∀ x ∈ xs, G true true true x = true ∧
        (op = lit " " → (isItem x || isEmptyList x) = true) := by
      intro x hx
      obtain ⟨a, ha⟩ := hmem x hx
      have := ih a
      rw [ha] at this
      simp only [OkP] at this
      refine ⟨this.1, fun hsp => this.2 ?_⟩
      have hm := mem_keepOperands a.2
      subst hsp
      exact space_operand_noOps hop hm
    have hcomb : OkP (fun y => G true true true y = true) (combine op xs b1 e1 ipc ts1) := by
      refine combine_G (fun x hx => (hih x hx).1) (fun hsp x hx => (hih x hx).2 hsp) ?_ ?_
      · intro hsp h0
        rw [h0, keepOperands_of_ne hsp] at hlen
        simp only [List.length_nil, List.length_attach] at hlen
        have := operands_length_pos op ts1
        omega
      · intro hpl
        have hsp : op ≠ lit " " := by rw [hpl]; decide
        rw [keepOperands_of_ne hsp] at hlen
        simp only [List.length_attach] at hlen
        have := operands_length_two hany
        omega
    cases hc : combine op xs b1 e1 ipc ts1 with
    | error err => trivial
    | ok y =>
      rw [hc] at hcomb
      simp only [OkP] at hcomb ⊢
      refine ⟨hcomb, fun hnone => ?_⟩
      rw [hs] at hnone
      rw [hop] at hnone
      cases hnone
  | case9 ts b e ipc t hs _ _ _ _ =>
    simp only [OkP]
    exact ⟨(G_anon_ellipsis t).1, fun _ => by simp [(G_anon_ellipsis t).2]⟩
  | case10 ts b e ipc t hs _ _ _ _ =>
    have := parseAxis_G t
    cases hp : parseAxis t with
    | error err => trivial
    | ok y =>
      rw [hp] at this
      simp only [OkP] at this ⊢
      exact ⟨this.1, fun _ => by simp [this.2]⟩
  | case11 => trivial
  | case12 ts b e ipc x t hs _ operand heq _ _ _ hop ih =>
    rw [heq] at ih
    simp only [OkP] at ih ⊢
    have hx : findOp naryOps (strip [x]) = none := by
      apply findOp_none_of_all
      intro op hmem
      refine any_false_of_sub (fun t' ht' => ?_) (all_of_findOp_none hop op hmem)
      have := mem_strip ht'
      simp only [List.mem_singleton] at this
      subst this
      exact List.mem_cons_self
    have := mkEllipsis_cases (ao := true) (aa := true) (Int.ofNat x.b) (Int.ofNat t.e) t.b ih.1 (ih.2 hx)
    exact ⟨this.1, fun _ => this.2⟩
  | case13 => trivial
  | case14 => trivial

end NF

end Einx.Notation
