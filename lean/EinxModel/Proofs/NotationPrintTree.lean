import EinxModel.Proofs.NotationPrintTexts
import EinxModel.Proofs.NotationPieces
import EinxModel.Proofs.NotationStack
/-!
# M1 Notation — from the printed text of a printable expression to its token tree

`tree_of_print`: lexer, duplicate-space pass and delimiter stack on `str(t)` yield a token tree that erases to `t.ptree`.
-/
namespace Einx.Notation

theorem lit_contains_open : literals.contains (lit "(") = true := by decide
theorem lit_contains_close : literals.contains (lit ")") = true := by decide
theorem lit_contains_bopen : literals.contains (lit "[") = true := by decide
theorem lit_contains_bclose : literals.contains (lit "]") = true := by decide
theorem lit_contains_ell : literals.contains (lit "...") = true := by decide

theorem wf_atom_ell : (PTok.atom (lit "...")).wf = true := by decide

theorem natStr_valid (k : Nat) : validToken (natStr k) = true := by
  simp only [validToken, natStr_isDigitStr, Bool.or_true]

theorem singleton_flatten (s : Str) : [s].flatten = s := by simp

/-- What the three layers need to know about the token tree of a printed expression. -/
def TextsOK (a : Expr) : Prop :=
  a.print = (textsL a.ptree).flatten ∧ Good (textsL a.ptree) ∧ wfL a.ptree = true

def TextsOKL (cs : List Expr) : Prop :=
  printL cs = (ptreeL cs).map (fun p => (textsL p).flatten) ∧ (∀ p ∈ ptreeL cs, Good (textsL p)) ∧
    (∀ p ∈ ptreeL cs, wfL p = true)

theorem textsOK_group {o c : Str} {inner : List PTok} {s : Str} (ho : literals.contains o = true)
    (hc : literals.contains c = true) (hwf : (delimsFront.contains o && closingOf o == some c) = true)
    (h1 : s = (textsL inner).flatten) (h2 : Good (textsL inner)) (h3 : wfL inner = true) :
    o ++ (s ++ c) = (textsL [PTok.group o c inner]).flatten ∧ Good (textsL [PTok.group o c inner]) ∧
      wfL [PTok.group o c inner] = true := by
  refine ⟨?_, ?_, ?_⟩
  · simp only [textsL, PTok.texts, List.append_nil, List.flatten_cons, List.flatten_append, List.flatten_nil, h1]
  · simp only [textsL, PTok.texts, List.append_nil]
    exact good_cons_lit ho (good_snoc_lit h2 hc)
  · simp only [wfL, PTok.wf, h3, Bool.and_true]
    exact hwf

theorem textsOKL_join {sep : List PTok} {l : Str} {ls : List Str} {cs : List Expr} (hsep : textsL sep = l :: ls)
    (hl : literals.contains l = true) (hls : ∀ a ∈ ls, literals.contains a = true) (hwf : wfL sep = true)
    (h : TextsOKL cs) :
    joinWith (textsL sep).flatten (printL cs) = (textsL (joinP sep (ptreeL cs))).flatten ∧
      Good (textsL (joinP sep (ptreeL cs))) ∧ wfL (joinP sep (ptreeL cs)) = true := by
  refine ⟨?_, good_joinP hsep hl hls _ h.2.1, wfL_joinP hwf _ h.2.2⟩
  rw [flatten_textsL_joinP, h.1]

mutual
theorem textsOK_PT (inBr al : Bool) : ∀ (a : Expr), PT inBr al a = true → TextsOK a
  | .axis n v _ _, h => by
    cases v with
    | none =>
      simp only [PT] at h
      refine ⟨?_, ?_, ?_⟩
      · simp only [Expr.print, Expr.ptree, textsL, PTok.texts, List.append_nil, singleton_flatten]
      · simp only [Expr.ptree, textsL, PTok.texts, List.append_nil]
        exact good_word (isAxisName_isWord h) (isAxisName_valid h)
      · simp only [Expr.ptree, wfL, PTok.wf, Bool.and_true]
        exact word_not_delim (isAxisName_isWord h)
    | some k =>
      refine ⟨?_, ?_, ?_⟩
      · simp only [Expr.print, Expr.ptree, textsL, PTok.texts, List.append_nil, singleton_flatten]
      · simp only [Expr.ptree, textsL, PTok.texts, List.append_nil]
        exact good_word (natStr_isWord k) (natStr_valid k)
      · simp only [Expr.ptree, wfL, PTok.wf, Bool.and_true]
        exact word_not_delim (natStr_isWord k)
  | .flat i _ _, h => by
    simp only [PT, Bool.and_eq_true] at h
    have ih := textsOK_PT inBr true i h.2
    simp only [TextsOK, Expr.print, Expr.ptree]
    exact textsOK_group (o := lit "(") (c := lit ")") lit_contains_open lit_contains_close (by decide) ih.1 ih.2.1 ih.2.2
  | .brackets i _ _, h => by
    simp only [PT, Bool.and_eq_true] at h
    have ih := textsOK_PT true true i h.2
    simp only [TextsOK, Expr.print, Expr.ptree]
    exact textsOK_group (o := lit "[") (c := lit "]") lit_contains_bopen lit_contains_bclose (by decide) ih.1 ih.2.1 ih.2.2
  | .ellipsis i _ _ _, h => by
    simp only [PT, Bool.or_eq_true, Bool.and_eq_true] at h
    rcases h with h | ⟨⟨hna, hop⟩, hi⟩
    · have ha : isAnonAxis i = true := by
        cases i <;> simp_all [isAnonAxisNone, isAnonAxis]
        rename_i n v b e
        cases v <;> simp_all
      refine ⟨?_, ?_, ?_⟩
      · simp only [Expr.print, Expr.ptree, ha, if_true, textsL, PTok.texts, List.append_nil, singleton_flatten]
      · simp only [Expr.ptree, ha, if_true, textsL, PTok.texts, List.append_nil]
        exact good_lit lit_contains_ell
      · simp only [Expr.ptree, ha, if_true, wfL, Bool.and_true]
        exact wf_atom_ell
    · have ih := textsOK_PT inBr false i hi
      have ha : isAnonAxis i = false := by simpa using hna
      have hl : isListLenNe1 i = false := by
        cases i <;> simp_all [ellOperand, isListLenNe1, Expr.isAxis, Expr.isFlat, Expr.isBrackets, Expr.isConcat, isEllAnon]
      refine ⟨?_, ?_, ?_⟩
      · simp only [Expr.print, Expr.ptree, ha, hl, Bool.false_eq_true, if_false, textsL_append, List.flatten_append,
          textsL, PTok.texts, List.append_nil, singleton_flatten, ih.1]
      · simp only [Expr.ptree, ha, Bool.false_eq_true, if_false, textsL_append, textsL, PTok.texts, List.append_nil]
        exact good_snoc_lit ih.2.1 lit_contains_ell
      · simp only [Expr.ptree, ha, Bool.false_eq_true, if_false, wfL_append, ih.2.2, wfL, Bool.and_true, Bool.true_and]
        exact wf_atom_ell
  | .concat cs _ _, h => by
    simp only [PT, Bool.and_eq_true] at h
    have ih := textsOKL_PTL inBr cs h.2
    have hj := textsOKL_join (sep := sepPlus) (l := lit " ") (ls := [lit "+", lit " "]) rfl (by decide) (by decide) (by decide) ih
    simp only [TextsOK, Expr.print, Expr.ptree]
    exact textsOK_group (o := lit "(") (c := lit ")") lit_contains_open lit_contains_close (by decide) hj.1 hj.2.1 hj.2.2
  | .list cs _ _, h => by
    simp only [PT, Bool.and_eq_true] at h
    have ih := textsOKL_PTL inBr cs h.2
    exact textsOKL_join (sep := sepList) (l := lit " ") (ls := []) rfl (by decide) (by simp) (by decide) ih
  | .args .., h => by simp [PT] at h
  | .op .., h => by simp [PT] at h
theorem textsOKL_PTL (inBr : Bool) : ∀ (cs : List Expr), PTL inBr cs = true → TextsOKL cs
  | [], _ => ⟨rfl, by simp [ptreeL], by simp [ptreeL]⟩
  | c :: cs, h => by
    simp only [PTL, Bool.and_eq_true] at h
    have h1 := textsOK_PT inBr false c h.1
    have h2 := textsOKL_PTL inBr cs h.2
    refine ⟨?_, ?_, ?_⟩
    · simp only [printL, ptreeL, List.map_cons, h1.1, h2.1]
    · intro p hp
      simp only [ptreeL, List.mem_cons] at hp
      rcases hp with rfl | hp
      · exact h1.2.1
      · exact h2.2.1 p hp
    · intro p hp
      simp only [ptreeL, List.mem_cons] at hp
      rcases hp with rfl | hp
      · exact h1.2.2
      · exact h2.2.2 p hp
end

theorem textsOKL_of_all {P : Expr → Prop} (hP : ∀ c, P c → TextsOK c) : ∀ (cs : List Expr), (∀ c ∈ cs, P c) → TextsOKL cs
  | [], _ => ⟨rfl, by simp [ptreeL], by simp [ptreeL]⟩
  | c :: cs, h => by
    have h1 := hP c (h c (by simp))
    have h2 := textsOKL_of_all hP cs (fun a ha => h a (List.mem_cons_of_mem _ ha))
    refine ⟨?_, ?_, ?_⟩
    · simp only [printL, ptreeL, List.map_cons, h1.1, h2.1]
    · intro p hp
      simp only [ptreeL, List.mem_cons] at hp
      rcases hp with rfl | hp
      · exact h1.2.1
      · exact h2.2.1 p hp
    · intro p hp
      simp only [ptreeL, List.mem_cons] at hp
      rcases hp with rfl | hp
      · exact h1.2.2
      · exact h2.2.2 p hp

theorem textsOK_PArgs (a : Expr) (h : PArgs a = true) : TextsOK a := by
  cases a with
  | args as b e =>
    simp only [PArgs, Bool.and_eq_true, List.all_eq_true] at h
    have ih := textsOKL_of_all (P := fun c => PT false true c = true) (textsOK_PT false true) as h.2
    exact textsOKL_join (sep := sepArgs) (l := lit ",") (ls := [lit " "]) rfl (by decide) (by decide) (by decide) ih
  | _ => simp [PArgs] at h

theorem textsOK_PRoot (t : Expr) (h : PRoot t = true) : TextsOK t := by
  cases t with
  | op cs b e =>
    simp only [PRoot, Bool.and_eq_true, List.all_eq_true] at h
    have ih := textsOKL_of_all (P := fun c => PArgs c = true) textsOK_PArgs cs h.2
    exact textsOKL_join (sep := sepOp) (l := lit " ") (ls := [lit "->", lit " "]) rfl (by decide) (by decide) (by decide) ih
  | _ => simp [PRoot] at h

/-- Lexer, duplicate-space pass and delimiter stack on the printed text. -/
theorem tree_of_print (t : Expr) (h : PRoot t = true) (hadj : hasAdjSpaces (textsL t.ptree) = false) :
    ∃ toks T, lex t.print = .ok toks ∧ buildTree (dedupSpaces toks false) [] [] = .ok T ∧ eraseL T = t.ptree := by
  obtain ⟨h1, h2, h3⟩ := textsOK_PRoot t h
  obtain ⟨toks, hl, ht⟩ := lex_pieces (textsL t.ptree) h2.1 h2.2
  obtain ⟨T, hT, hE⟩ := buildTree_texts t.ptree h3 toks ht
  refine ⟨toks, T, by rw [h1]; exact hl, ?_, hE⟩
  rw [dedup_no_adj toks (by rw [ht]; exact hadj)]
  exact hT

end Einx.Notation
