import EinxModel.Proofs.NotationPrintTree
import EinxModel.Proofs.NotationPrintParse
/-!
# M1 Notation — re-printing when the printed text contains two adjacent spaces

`str(t)` of a printable `t` contains two adjacent spaces exactly when the left side of `->` ends with an empty argument
(`"a,  -> b"`): `Args.__str__` ends with `", "` and `Op.__str__` joins with `" -> "`.  The duplicate-space pass of `parse_op`
drops the second space; the resulting token tree is `s1.ptree ++ [->, ␣] ++ s2.ptree`, and `parse` strips the trailing space
of the left operand as it does for every operand.
-/
namespace Einx.Notation

namespace Adj

def headIsSp (l : List Str) : Bool := l.head? == some spaceLit
def lastIsSp (l : List Str) : Bool := l.getLast? == some spaceLit

theorem lastIsSp_cons_cons (a b : Str) (r : List Str) : lastIsSp (a :: b :: r) = lastIsSp (b :: r) := by
  simp [lastIsSp, List.getLast?_cons_cons]

theorem lastIsSp_single (a : Str) : lastIsSp [a] = (a == spaceLit) := by
  simp [lastIsSp]

theorem headIsSp_cons (a : Str) (r : List Str) : headIsSp (a :: r) = (a == spaceLit) := by
  simp [headIsSp]

/-- Adjacent spaces in a concatenation: inside one of the parts, or at the seam. -/
theorem hasAdj_append : ∀ (A B : List Str),
    hasAdjSpaces (A ++ B) = (hasAdjSpaces A || hasAdjSpaces B || (lastIsSp A && headIsSp B))
  | [], B => by simp [hasAdjSpaces, lastIsSp]
  | [a], [] => by simp [hasAdjSpaces, headIsSp]
  | [a], b :: r => by
    simp only [List.cons_append, List.nil_append, hasAdjSpaces, lastIsSp_single, headIsSp_cons, Bool.false_or]
    rw [Bool.or_comm]
  | a :: a' :: r, B => by
    have ih := hasAdj_append (a' :: r) B
    simp only [List.cons_append] at ih ⊢
    simp only [hasAdjSpaces, ih, lastIsSp_cons_cons, Bool.or_assoc]

/-- No adjacent spaces, no space at either end. -/
def tight (l : List Str) : Bool := !hasAdjSpaces l && !headIsSp l && !lastIsSp l

theorem tight_nil : tight [] = true := by decide

theorem tight_single {w : Str} (h : (w == spaceLit) = false) : tight [w] = true := by
  simp [tight, hasAdjSpaces, headIsSp_cons, lastIsSp_single, h]

theorem headIsSp_append (A B : List Str) : headIsSp (A ++ B) = (if A.isEmpty then headIsSp B else headIsSp A) := by
  cases A <;> simp [headIsSp]

theorem lastIsSp_append (A B : List Str) : lastIsSp (A ++ B) = (if B.isEmpty then lastIsSp A else lastIsSp B) := by
  cases B with
  | nil => simp
  | cons b r =>
    simp only [lastIsSp, List.getLast?_append, List.isEmpty_cons, Bool.false_eq_true, if_false]
    cases h : (b :: r).getLast? with
    | none => simp at h
    | some x => simp

theorem lastIsSp_snoc (A : List Str) (c : Str) : lastIsSp (A ++ [c]) = (c == spaceLit) := by
  rw [lastIsSp_append]; simp [lastIsSp_single]

/-- A delimiter group: `o`, the inner texts, `c`. -/
theorem tight_group {o c : Str} {I : List Str} (ho : (o == spaceLit) = false) (hc : (c == spaceLit) = false)
    (hI : hasAdjSpaces I = false) : tight (o :: (I ++ [c])) = true := by
  have e : o :: (I ++ [c]) = [o] ++ (I ++ [c]) := rfl
  have h1 : hasAdjSpaces (I ++ [c]) = false := by
    rw [hasAdj_append]; simp [hI, hasAdjSpaces, headIsSp_cons, hc]
  have h2 : lastIsSp (o :: (I ++ [c])) = false := by
    rw [show o :: (I ++ [c]) = (o :: I) ++ [c] from rfl, lastIsSp_snoc]; exact hc
  simp only [tight, headIsSp_cons, ho, h2, Bool.not_false, Bool.and_true, Bool.not_eq_true']
  rw [e, hasAdj_append]
  simp [hasAdjSpaces, h1, lastIsSp_single, ho]

theorem tight_parts {l : List Str} (h : tight l = true) :
    hasAdjSpaces l = false ∧ headIsSp l = false ∧ lastIsSp l = false := by
  simpa [tight, and_assoc] using h

theorem tight_of_parts {l : List Str} (h1 : hasAdjSpaces l = false) (h2 : headIsSp l = false) (h3 : lastIsSp l = false) :
    tight l = true := by
  simp [tight, h1, h2, h3]

/-- `A ++ [c]` for a non-space `c` (the ellipsis). -/
theorem tight_snoc {A : List Str} {c : Str} (hA : tight A = true) (hc : (c == spaceLit) = false) : tight (A ++ [c]) = true := by
  obtain ⟨h1, h2, h3⟩ := tight_parts hA
  apply tight_of_parts
  · rw [hasAdj_append]; simp [h1, hasAdjSpaces, h3]
  · rw [headIsSp_append]
    cases A with
    | nil => simp [headIsSp_cons, hc]
    | cons a r => simpa using h2
  · rw [lastIsSp_snoc]; exact hc

/-- Joining two non-empty tight lists with a separator that starts and ends with a space and has no adjacent spaces. -/
theorem tight_join2 {A S B : List Str} (hA : tight A = true) (hAne : A ≠ []) (hB : tight B = true) (hBne : B ≠ [])
    (hS : hasAdjSpaces S = false) : tight (A ++ S ++ B) = true := by
  obtain ⟨a1, a2, a3⟩ := tight_parts hA
  obtain ⟨b1, b2, b3⟩ := tight_parts hB
  apply tight_of_parts
  · rw [hasAdj_append, hasAdj_append]
    simp [a1, b1, hS, a3, b2]
  · rw [List.append_assoc, headIsSp_append]
    cases A with
    | nil => exact (hAne rfl).elim
    | cons a r => simpa using a2
  · rw [lastIsSp_append]
    cases B with
    | nil => exact (hBne rfl).elim
    | cons b r => simpa using b3

/-! ### The token texts of printable terms are tight -/

theorem axisName_ne_space {n : Str} (h : isAxisName n = true) : (n == spaceLit) = false := by
  cases hn : n == spaceLit with
  | false => rfl
  | true =>
    rw [beq_iff_eq.mp hn] at h
    revert h; decide

theorem word_ne_space {w : Str} (h : isWord w = true) : (w == spaceLit) = false := by
  cases hn : w == spaceLit with
  | false => rfl
  | true =>
    rw [beq_iff_eq.mp hn] at h
    revert h; decide

theorem textsL_single (p : PTok) : textsL [p] = p.texts := by simp [textsL]

/-- Joining non-empty tight pieces with a separator without adjacent spaces. -/
theorem tight_joinP {sep : List PTok} (hsep : hasAdjSpaces (textsL sep) = false) :
    ∀ (Ps : List (List PTok)), (∀ P ∈ Ps, tight (textsL P) = true ∧ textsL P ≠ []) →
      tight (textsL (joinP sep Ps)) = true ∧ (Ps ≠ [] → textsL (joinP sep Ps) ≠ [])
  | [], _ => ⟨by simp [joinP, textsL, tight_nil], fun h => (h rfl).elim⟩
  | [P], h => ⟨(h P (by simp)).1, fun _ => (h P (by simp)).2⟩
  | P :: Q :: r, h => by
    have ih := tight_joinP hsep (Q :: r) (fun P' hP' => h P' (List.mem_cons_of_mem _ hP'))
    have hP := h P (by simp)
    simp only [joinP, textsL_append]
    refine ⟨tight_join2 hP.1 hP.2 ih.1 (ih.2 (by simp)) hsep, ?_⟩
    intro _ h0
    have := List.append_eq_nil_iff.mp h0
    exact hP.2 (List.append_eq_nil_iff.mp this.1).1

theorem item_texts_ne {inBr : Bool} : ∀ {a : Expr}, PT inBr false a = true → textsL a.ptree ≠ []
  | .axis n v _ _, _ => by cases v <;> simp [Expr.ptree, textsL, PTok.texts]
  | .flat .., _ => by simp [Expr.ptree, textsL, PTok.texts]
  | .brackets .., _ => by simp [Expr.ptree, textsL, PTok.texts]
  | .concat .., _ => by simp [Expr.ptree, textsL, PTok.texts]
  | .ellipsis i _ _ _, _ => by
    simp only [Expr.ptree]
    split
    · simp [textsL, PTok.texts]
    · simp [textsL_append, textsL, PTok.texts]
  | .list .., h => by simp [PT] at h
  | .args .., h => by simp [PT] at h
  | .op .., h => by simp [PT] at h

mutual
theorem tight_PT (inBr al : Bool) : ∀ (a : Expr), PT inBr al a = true → tight (textsL a.ptree) = true
  | .axis n v _ _, h => by
    cases v with
    | none =>
      simp only [PT] at h
      simp only [Expr.ptree, textsL_single, PTok.texts]
      exact tight_single (axisName_ne_space h)
    | some k =>
      simp only [Expr.ptree, textsL_single, PTok.texts]
      exact tight_single (word_ne_space (natStr_isWord k))
  | .flat i _ _, h => by
    simp only [PT, Bool.and_eq_true] at h
    have ih := tight_PT inBr true i h.2
    simp only [Expr.ptree, textsL_single, PTok.texts]
    exact tight_group (by decide) (by decide) (tight_parts ih).1
  | .brackets i _ _, h => by
    simp only [PT, Bool.and_eq_true] at h
    have ih := tight_PT true true i h.2
    simp only [Expr.ptree, textsL_single, PTok.texts]
    exact tight_group (by decide) (by decide) (tight_parts ih).1
  | .ellipsis i _ _ _, h => by
    simp only [PT, Bool.or_eq_true, Bool.and_eq_true] at h
    simp only [Expr.ptree]
    split
    · simp only [textsL_single, PTok.texts]
      exact tight_single (by decide)
    · rename_i hna
      rcases h with h | h
      · exact (hna (PrintParse.anonNone_anon h)).elim
      · have ih := tight_PT inBr false i h.2
        simp only [textsL_append, textsL_single, PTok.texts]
        exact tight_snoc ih (by decide)
  | .concat cs _ _, h => by
    simp only [PT, Bool.and_eq_true] at h
    have ih := tight_PTL inBr cs h.2
    have hj := tight_joinP (sep := sepPlus) (by decide) (ptreeL cs) ih
    simp only [Expr.ptree, textsL_single, PTok.texts]
    exact tight_group (by decide) (by decide) (tight_parts hj.1).1
  | .list cs _ _, h => by
    simp only [PT, Bool.and_eq_true] at h
    have ih := tight_PTL inBr cs h.2
    simp only [Expr.ptree]
    exact (tight_joinP (sep := sepList) (by decide) (ptreeL cs) ih).1
  | .args .., h => by simp [PT] at h
  | .op .., h => by simp [PT] at h
theorem tight_PTL (inBr : Bool) : ∀ (cs : List Expr), PTL inBr cs = true →
    ∀ P ∈ ptreeL cs, tight (textsL P) = true ∧ textsL P ≠ []
  | [], _ => by simp [ptreeL]
  | c :: cs, h => by
    simp only [PTL, Bool.and_eq_true] at h
    intro P hP
    simp only [ptreeL, List.mem_cons] at hP
    rcases hP with rfl | hP
    · exact ⟨tight_PT inBr false c h.1, item_texts_ne h.1⟩
    · exact tight_PTL inBr cs h.2 P hP
end

/-! ### One side of `->`: no adjacent spaces, no leading space (a trailing space if the last argument is empty) -/

theorem comma_ne_space : lit "," ≠ spaceLit := by decide
theorem arrow_ne_space : lit "->" ≠ spaceLit := by decide
theorem arrow_ne_space' : lit "->" ≠ [' '] := by decide

theorem side_joinP : ∀ (Ps : List (List PTok)), (∀ P ∈ Ps, tight (textsL P) = true) →
    hasAdjSpaces (textsL (joinP sepArgs Ps)) = false ∧ headIsSp (textsL (joinP sepArgs Ps)) = false
  | [], _ => by simp [joinP, textsL, hasAdjSpaces, headIsSp]
  | [P], h => ⟨(tight_parts (h P (by simp))).1, (tight_parts (h P (by simp))).2.1⟩
  | P :: Q :: r, h => by
    have ih := side_joinP (Q :: r) (fun P' hP' => h P' (List.mem_cons_of_mem _ hP'))
    obtain ⟨a1, a2, a3⟩ := tight_parts (h P (by simp))
    have hs : textsL sepArgs = [lit ",", spaceLit] := rfl
    simp only [joinP, textsL_append, hs]
    constructor
    · rw [hasAdj_append, hasAdj_append]
      simp [a1, ih.1, ih.2, hasAdjSpaces, headIsSp_cons, comma_ne_space]
    · rw [List.append_assoc, headIsSp_append]
      cases hP : textsL P with
      | nil => simp [headIsSp_cons, comma_ne_space]
      | cons a r' => rw [hP] at a2; simpa using a2

theorem side_texts {s : Expr} (h : PArgs s = true) :
    hasAdjSpaces (textsL s.ptree) = false ∧ headIsSp (textsL s.ptree) = false := by
  cases s with
  | args as b e =>
    simp only [PArgs, Bool.and_eq_true, List.all_eq_true] at h
    simp only [Expr.ptree]
    apply side_joinP
    intro P hP
    rw [PrintParse.ptreeL_eq_map] at hP
    obtain ⟨a, ha, rfl⟩ := List.mem_map.mp hP
    exact tight_PT false true a (h.2 a ha)
  | _ => simp [PArgs] at h

/-! ### The root -/

theorem textsL_sepOp : textsL sepOp = [spaceLit, lit "->", spaceLit] := rfl

/-- The token texts of `s1 -> s2`. -/
theorem root_texts (s1 s2 : Expr) (b e : Int) :
    textsL (Expr.op [s1, s2] b e).ptree = textsL s1.ptree ++ [spaceLit, lit "->", spaceLit] ++ textsL s2.ptree := by
  simp only [Expr.ptree, ptreeL, joinP, textsL_append, textsL_sepOp]

/-- With one side there are no adjacent spaces; with two sides there are exactly when the texts of the left side end
    with a space, and dropping the space that follows gives a text list without adjacent spaces. -/
theorem root_adj {t : Expr} (h : PRoot t = true) (hadj : hasAdjSpaces (textsL t.ptree) = true) :
    ∃ s1 s2 b e A, t = .op [s1, s2] b e ∧ PArgs s1 = true ∧ PArgs s2 = true ∧ textsL s1.ptree = A ++ [spaceLit] ∧
      hasAdjSpaces (A ++ spaceLit :: (lit "->" :: spaceLit :: textsL s2.ptree)) = false := by
  cases t with
  | op cs b e =>
    simp only [PRoot, Bool.and_eq_true, List.all_eq_true] at h
    match cs, h with
    | [], h => simp at h
    | [s1], h =>
      have := (side_texts (h.2 s1 (by simp))).1
      simp only [Expr.ptree, ptreeL, joinP] at hadj
      rw [this] at hadj
      cases hadj
    | [s1, s2], h =>
      have h1 := side_texts (h.2 s1 (by simp))
      have h2 := side_texts (h.2 s2 (by simp))
      rw [root_texts, hasAdj_append, hasAdj_append] at hadj
      have hl : lastIsSp (textsL s1.ptree) = true := by
        simpa [h1.1, h2.1, h2.2, hasAdjSpaces, headIsSp_cons, spaceLit, arrow_ne_space'] using hadj
      have hg : (textsL s1.ptree).getLast? = some spaceLit := by simpa [lastIsSp] using hl
      obtain ⟨A, hA⟩ := List.getLast?_eq_some_iff.mp hg
      refine ⟨s1, s2, b, e, A, rfl, h.2 s1 (by simp), h.2 s2 (by simp), hA, ?_⟩
      have e1 : A ++ spaceLit :: (lit "->" :: spaceLit :: textsL s2.ptree) =
          textsL s1.ptree ++ [lit "->", spaceLit] ++ textsL s2.ptree := by
        rw [hA]; simp
      rw [e1, hasAdj_append, hasAdj_append]
      simp [h1.1, h2.1, h2.2, hasAdjSpaces, headIsSp_cons, arrow_ne_space]
    | _ :: _ :: _ :: _, h => simp at h
  | _ => simp [PRoot] at h

/-! ### The duplicate-space pass on the tokens of the printed text -/

theorem dedup_adjacent (xs ys : List Token) (s s' : Token) (hs : s.isSpace = true) (hs' : s'.isSpace = true) (f : Bool) :
    dedupSpaces (xs ++ s :: s' :: ys) f = dedupSpaces (xs ++ s :: ys) f := by
  induction xs generalizing f with
  | nil => cases f <;> simp [dedupSpaces, hs, hs']
  | cons x xs ih =>
    simp only [List.cons_append, dedupSpaces]
    split
    · split
      · exact ih true
      · rw [ih true]
    · rw [ih false]

/-- Tokens whose texts are `A ++ ␣ :: ␣ :: B`, where `A ++ ␣ :: B` has no adjacent spaces: the pass drops the second space. -/
theorem dedup_one {toks : List Token} {A B : List Str} (ht : toks.map (·.text) = A ++ spaceLit :: spaceLit :: B)
    (hna : hasAdjSpaces (A ++ spaceLit :: B) = false) :
    (dedupSpaces toks false).map (·.text) = A ++ spaceLit :: B := by
  obtain ⟨xs, rest, rfl, hxs, hrest⟩ := List.map_eq_append_iff.mp ht
  obtain ⟨s, rest2, rfl, hs, hrest2⟩ := List.map_eq_cons_iff.mp hrest
  obtain ⟨s', ys, rfl, hs', hys⟩ := List.map_eq_cons_iff.mp hrest2
  have e : (xs ++ s :: ys).map (·.text) = A ++ spaceLit :: B := by simp [hxs, hs, hys]
  rw [dedup_adjacent xs ys s s' (by simp [Token.isSpace, hs]) (by simp [Token.isSpace, hs']) false,
    dedup_no_adj _ (by rw [e]; exact hna), e]

end Adj

open Adj PrintParse in
/-- Lexer, duplicate-space pass and delimiter stack on a printed text with two adjacent spaces: the token tree erases to
    `s1.ptree ++ [->, ␣] ++ s2.ptree`. -/
theorem tree_of_print_adj {s1 s2 : Expr} {b e : Int} (h : PRoot (.op [s1, s2] b e) = true) {A : List Str}
    (hA : textsL s1.ptree = A ++ [spaceLit])
    (hna : hasAdjSpaces (A ++ spaceLit :: (lit "->" :: spaceLit :: textsL s2.ptree)) = false) :
    ∃ toks T, lex (Expr.op [s1, s2] b e).print = .ok toks ∧ buildTree (dedupSpaces toks false) [] [] = .ok T ∧
      eraseL T = s1.ptree ++ [.atom (lit "->"), .atom (lit " ")] ++ s2.ptree := by
  obtain ⟨h1, h2, h3⟩ := textsOK_PRoot _ h
  obtain ⟨toks, hl, ht⟩ := lex_pieces _ h2.1 h2.2
  have ht' : toks.map (·.text) = A ++ spaceLit :: spaceLit :: (lit "->" :: spaceLit :: textsL s2.ptree) := by
    rw [ht, root_texts, hA]; simp
  have hd := dedup_one ht' hna
  have hP : (dedupSpaces toks false).map (·.text) = textsL (s1.ptree ++ [.atom (lit "->"), .atom (lit " ")] ++ s2.ptree) := by
    rw [hd, textsL_append, textsL_append, hA]
    simp [textsL, PTok.texts, spaceLit, lit]
  have hwf : wfL (s1.ptree ++ [.atom (lit "->"), .atom (lit " ")] ++ s2.ptree) = true := by
    simp only [PRoot, Bool.and_eq_true, List.all_eq_true] at h
    have w1 := (textsOK_PArgs s1 (h.2 s1 (by simp))).2.2
    have w2 := (textsOK_PArgs s2 (h.2 s2 (by simp))).2.2
    rw [wfL_append, wfL_append, w1, w2]
    decide
  obtain ⟨T, hT, hE⟩ := buildTree_texts _ hwf _ hP
  exact ⟨toks, T, by rw [h1]; exact hl, hT, hE⟩

open PrintParse in
/-- `parse` on that token tree: the left operand `s1.ptree` ends with a space, which `parse` strips. -/
theorem parse_printed_adj {s1 s2 : Expr} {b0 e0 : Int} (h : PRoot (.op [s1, s2] b0 e0) = true) (T : List Tok)
    (hT : eraseL T = s1.ptree ++ [.atom (lit "->"), .atom (lit " ")] ++ s2.ptree) :
    ∃ x, parse T 0 (lastEnd T 0) false = .ok x ∧ x.shape = (preTree (.op [s1, s2] b0 e0)).shape ∧ ValuedFresh x := by
  simp only [PRoot, Bool.and_eq_true, List.all_eq_true] at h
  obtain ⟨xs, b', e', S, hp, hss, hvs⟩ := nary_join (op := lit "->") (pre := [])
    (post := [.atom (lit " ")]) (o := .atom (lit "->")) (g := unwrapArgs) (ys := [s1, s2])
    (by decide) rfl rfl rfl pstrip_append_nil pstrip_cons_sp (by simp)
    (fun y hy => side_noArrow (h.2 y hy))
    (fun y hy => side_good (h.2 y hy))
    (fun P _ hany => pfindOp_arrow hany) T 0 (lastEnd T 0) false (by rw [hT]; rfl)
  rw [combine_arrow] at hp
  refine ⟨.op xs b' e', hp, ?_, ?_⟩
  · simp only [preTree, Expr.shape, hss]
  · simp only [ValuedFresh]
    exact hvs

end Einx.Notation
