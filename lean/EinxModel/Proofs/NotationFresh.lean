import EinxModel.Proofs.NotationNFParse
/-!
# M1 Notation — the fresh names of numeric axes in a result of `parse` are pairwise distinct

`parse` names a numeric axis `unnamed.<begin position of its token>`.  The tokens of the lexer have strictly increasing begin
positions (`segment_sorted`), the duplicate-space pass and the delimiter stack keep their order (`dedupSpaces_sublist`,
`buildTree_abL`), and `parse` uses every token at most once (`parse_vnames`).  Hence the names of the numeric axes of a
result of `parse` are pairwise distinct (`parse_fresh_nodup`), and an occurrence with a fresh name is determined by that
name (`fresh_unique`): the inconsistent-brackets check can never fire on a numeric axis of a freshly parsed tree.
-/
namespace Einx.Notation

namespace Fresh
open NF
open scoped List

/-! ### Begin positions of the atoms of a token tree; names of the numeric axes of an expression -/

mutual
/-- Begin positions of the atoms (not the delimiters), in source order. -/
def abT : Tok → List Nat
  | .atom t => [t.b]
  | .group _ _ inner => abL inner
def abL : List Tok → List Nat
  | [] => []
  | t :: ts => abT t ++ abL ts
end

mutual
/-- Names of the numeric axes, in pre-order. -/
def vnames : Expr → List Str
  | .axis n v _ _ => match v with | none => [] | some _ => [n]
  | .flat i _ _ | .brackets i _ _ | .ellipsis i _ _ _ => vnames i
  | .concat cs _ _ | .list cs _ _ | .args cs _ _ | .op cs _ _ => vnamesL cs
def vnamesL : List Expr → List Str
  | [] => []
  | c :: cs => vnames c ++ vnamesL cs
end

/-- The fresh names that the atoms of a token tree can give rise to. -/
def FN (ts : List Tok) : List Str := (abL ts).map unnamedName

theorem abL_append : ∀ (xs ys : List Tok), abL (xs ++ ys) = abL xs ++ abL ys
  | [], ys => by simp [abL]
  | x :: xs, ys => by simp only [List.cons_append, abL, abL_append xs ys, List.append_assoc]

theorem abL_sublist {xs ys : List Tok} (h : xs <+ ys) : abL xs <+ abL ys := by
  induction h with
  | slnil => exact List.Sublist.refl _
  | cons a _ ih => simp only [abL]; exact ih.trans (List.sublist_append_right _ _)
  | cons_cons a _ ih => simp only [abL]; exact List.Sublist.append (List.Sublist.refl _) ih

theorem FN_sublist {xs ys : List Tok} (h : xs <+ ys) : FN xs <+ FN ys := (abL_sublist h).map _

theorem vnamesL_append : ∀ (xs ys : List Expr), vnamesL (xs ++ ys) = vnamesL xs ++ vnamesL ys
  | [], ys => by simp [vnamesL]
  | x :: xs, ys => by simp only [List.cons_append, vnamesL, vnamesL_append xs ys, List.append_assoc]

mutual
theorem flattenOne_vnames : ∀ (x : Expr), vnamesL (flattenOne x) = vnames x
  | .list cs _ _ => by simp only [flattenOne, vnames, flattenAll_vnames cs]
  | .axis .. => by simp only [flattenOne, vnamesL, List.append_nil]
  | .flat .. => by simp only [flattenOne, vnamesL, List.append_nil]
  | .brackets .. => by simp only [flattenOne, vnamesL, List.append_nil]
  | .ellipsis .. => by simp only [flattenOne, vnamesL, List.append_nil]
  | .concat .. => by simp only [flattenOne, vnamesL, List.append_nil]
  | .args .. => by simp only [flattenOne, vnamesL, List.append_nil]
  | .op .. => by simp only [flattenOne, vnamesL, List.append_nil]
theorem flattenAll_vnames : ∀ (cs : List Expr), vnamesL (flattenAll cs) = vnamesL cs
  | [] => by simp only [flattenAll]
  | c :: cs => by simp only [flattenAll, vnamesL_append, flattenOne_vnames c, flattenAll_vnames cs, vnamesL]
end

theorem vnames_mkList (xs : List Expr) (b e : Int) : vnames (mkList xs b e) = vnamesL xs := by
  unfold mkList
  split
  · rename_i c hc
    rw [← flattenAll_vnames xs, hc]
    simp only [vnamesL, List.append_nil]
  · simp only [vnames, flattenAll_vnames]

theorem vnames_mkConcat (xs : List Expr) (b e : Int) : vnames (mkConcat xs b e) = vnamesL xs := by
  unfold mkConcat
  split
  · simp only [vnamesL, List.append_nil]
  · simp only [vnames]

theorem vnames_mkFlat (a : Expr) (b e : Int) : vnames (mkFlat a b e) = vnames a := by
  unfold mkFlat
  split
  · rfl
  · simp only [vnames]

theorem vnames_mkBrackets (a : Expr) (b e : Int) : vnames (mkBrackets a b e) <+ vnames a := by
  unfold mkBrackets
  split
  · exact List.Sublist.refl _
  · split
    · simp [emptyList, vnames, vnamesL]
    · simp only [vnames]; exact List.Sublist.refl _

theorem vnames_mkEllipsis (a : Expr) (b e : Int) (d : Nat) : vnames (mkEllipsis a b e d) <+ vnames a := by
  unfold mkEllipsis
  split
  · simp [emptyList, vnames, vnamesL]
  · simp only [vnames]; exact List.Sublist.refl _

/-! ### Operands -/

theorem dropTrailSpaces_sublist : ∀ (ts : List Tok), dropTrailSpaces ts <+ ts
  | [] => by simp [dropTrailSpaces]
  | t :: ts => by
    have ih := dropTrailSpaces_sublist ts
    simp only [dropTrailSpaces]
    cases hr : dropTrailSpaces ts with
    | nil =>
      simp only
      split
      · exact List.nil_sublist _
      · exact List.Sublist.cons_cons _ (List.nil_sublist _)
    | cons r rs =>
      rw [hr] at ih
      exact List.Sublist.cons_cons _ ih

theorem strip_sublist (ts : List Tok) : strip ts <+ ts :=
  (dropTrailSpaces_sublist _).trans (List.dropWhile_sublist _)

theorem flatMap_sublist {α β : Type} (g : α → List β) {l1 l2 : List α} (h : l1 <+ l2) : l1.flatMap g <+ l2.flatMap g := by
  induction h with
  | slnil => exact List.Sublist.refl _
  | cons a _ ih => simp only [List.flatMap_cons]; exact ih.trans (List.sublist_append_right _ _)
  | cons_cons a _ ih => simp only [List.flatMap_cons]; exact List.Sublist.append (List.Sublist.refl _) ih

theorem splitOn_abL (op : Str) (d : Nat) : ∀ (ts : List Tok),
    abL (splitOn op d ts).1.1 ++ (splitOn op d ts).2.flatMap (fun o => abL o.1) <+ abL ts
  | [] => by simp [splitOn, abL]
  | t :: ts => by
    have ih := splitOn_abL op d ts
    simp only [splitOn]
    split
    · simp only [abL, List.nil_append, List.flatMap_cons]
      exact ih.trans (List.sublist_append_right _ _)
    · simp only [abL, List.append_assoc]
      exact List.Sublist.append (List.Sublist.refl _) ih

theorem operands_abL (op : Str) (ts : List Tok) : (operands op ts).flatMap (fun o => abL o.ts) <+ abL ts := by
  have := splitOn_abL op (lastEnd ts 0) ts
  simp only [operands, List.map_cons, List.flatMap_cons, mkTL_ts, List.flatMap_map]
  exact this

theorem keepOperands_sublist (op : Str) (l : List TL) : keepOperands op l <+ l := by
  unfold keepOperands
  split
  · exact List.filter_sublist
  · exact List.Sublist.refl _

/-- `mapM` of a function whose results use only the tokens of their operand. -/
theorem mapM_vnames {α : Type} (f : α → Res Expr) (g : α → List Nat) : ∀ (l : List α) (xs : List Expr),
    l.mapM f = .ok xs → (∀ a ∈ l, OkP (fun x => vnames x <+ (g a).map unnamedName) (f a)) →
    vnamesL xs <+ (l.flatMap g).map unnamedName
  | [], xs, h, _ => by
    simp only [List.mapM_nil, pure, Except.pure, Except.ok.injEq] at h
    subst h
    simp [vnamesL]
  | a :: l, xs, h, hf => by
    simp only [List.mapM_cons, bind, Except.bind] at h
    cases hfa : f a with
    | error e => rw [hfa] at h; simp at h
    | ok y =>
      rw [hfa] at h
      simp only at h
      cases hl : l.mapM f with
      | error e => rw [hl] at h; simp at h
      | ok ys =>
        rw [hl] at h
        simp only [pure, Except.pure, Except.ok.injEq] at h
        subst h
        have h1 := hf a (by simp)
        rw [hfa] at h1
        have h2 := mapM_vnames f g l ys hl (fun a' ha' => hf a' (by simp [ha']))
        simp only [vnamesL, List.flatMap_cons, List.map_append]
        exact List.Sublist.append h1 h2

theorem combine_vnames (op : Str) (xs : List Expr) (b e : Nat) (ipc : Bool) (ts : List Tok) :
    OkP (fun y => vnames y = vnamesL xs) (combine op xs b e ipc ts) := by
  unfold combine
  split
  · exact vnames_mkList _ _ _
  · split
    · simp only [OkP, vnames]
    · split
      · simp only [OkP, vnames]
      · split
        · dsimp only
          split
          · trivial
          · split
            · trivial
            · exact vnames_mkConcat _ _ _
        · trivial

theorem parseAxis_vnames (t : Token) : OkP (fun y => vnames y <+ [unnamedName t.b]) (parseAxis t) := by
  unfold parseAxis
  split
  · split
    · simp only [OkP, vnames]; exact List.Sublist.refl _
    · trivial
  · split
    · simp only [OkP, vnames]; exact List.nil_sublist _
    · trivial

/-! ### `parse` uses every atom at most once -/

theorem parse_vnames (ts : List Tok) (b e : Nat) (ipc : Bool) :
    OkP (fun x => vnames x <+ FN ts) (parse ts b e ipc) := by
  fun_induction parse ts b e ipc with
  | case1 ts b e ipc hs =>
    simp only [OkP, vnames_mkList, vnamesL]
    exact List.nil_sublist _
  | case2 => trivial
  | case3 ts b e ipc o c inner hs ib x heq ho hc ih =>
    rw [heq] at ih
    simp only [OkP] at ih ⊢
    have : FN [Tok.group o c inner] <+ FN ts := FN_sublist (hs ▸ strip_sublist ts)
    refine ih.trans ?_
    simpa only [FN, abL, abT, List.append_nil] using this
  | case4 ts b e ipc o c inner hs ib x heq ho hc ih =>
    rw [heq] at ih
    simp only [OkP] at ih ⊢
    have : FN [Tok.group o c inner] <+ FN ts := FN_sublist (hs ▸ strip_sublist ts)
    rw [vnames_mkFlat]
    refine ih.trans ?_
    simpa only [FN, abL, abT, List.append_nil] using this
  | case5 ts b e ipc o c inner hs ib x heq ho hb ih =>
    rw [heq] at ih
    simp only [OkP] at ih ⊢
    have : FN [Tok.group o c inner] <+ FN ts := FN_sublist (hs ▸ strip_sublist ts)
    refine (vnames_mkBrackets _ _ _).trans (ih.trans ?_)
    simpa only [FN, abL, abT, List.append_nil] using this
  | case6 => trivial
  | case7 => trivial
  | case8 ts b e ipc t0 rest _ hs ts1 b1 e1 op hop xs heq ih =>
    have hcv := combine_vnames op xs b1 e1 ipc ts1
    cases hc : combine op xs b1 e1 ipc ts1 with
    | error err => trivial
    | ok y =>
      rw [hc] at hcv
      simp only [OkP] at hcv ⊢
      rw [hcv]
      have hm := mapM_vnames _ (fun a : { o // o ∈ keepOperands op (operands op ts1) } => abL a.1.ts) _ _ heq
        (fun a _ => ih a)
      refine hm.trans (List.Sublist.map _ ?_)
      have e1 : (keepOperands op (operands op ts1)).attach.flatMap (fun a => abL a.1.ts) =
          (keepOperands op (operands op ts1)).flatMap (fun o => abL o.ts) := by
        rw [← List.flatMap_map (f := Subtype.val) (g := fun o : TL => abL o.ts), List.attach_map_subtype_val]
      rw [e1]
      refine (flatMap_sublist _ (keepOperands_sublist op _)).trans ((operands_abL op ts1).trans ?_)
      have hsub : ts1 <+ ts := by
        show t0 :: rest <+ ts
        rw [← hs]; exact strip_sublist ts
      exact abL_sublist hsub
  | case9 ts b e ipc t hs _ _ _ _ =>
    simp only [OkP]
    have : mkEllipsis (.axis anonName none t.b t.b) t.b t.e t.b = .ellipsis (.axis anonName none t.b t.b) t.b t.b t.e := by
      simp [mkEllipsis, Expr.ndim]
    rw [this]
    simp only [vnames]
    exact List.nil_sublist _
  | case10 ts b e ipc t hs _ _ _ _ =>
    have := parseAxis_vnames t
    cases hp : parseAxis t with
    | error err => trivial
    | ok y =>
      rw [hp] at this
      simp only [OkP] at this ⊢
      have h2 : FN [Tok.atom t] <+ FN ts := FN_sublist (hs ▸ strip_sublist ts)
      refine this.trans ?_
      simpa only [FN, abL, abT, List.append_nil, List.map_cons, List.map_nil] using h2
  | case11 => trivial
  | case12 ts b e ipc x t hs _ operand heq _ _ _ _ ih =>
    rw [heq] at ih
    simp only [OkP] at ih ⊢
    have h2 : FN [x, Tok.atom t] <+ FN ts := FN_sublist (hs ▸ strip_sublist ts)
    have h3 : FN [x] <+ FN [x, Tok.atom t] := FN_sublist (List.Sublist.cons_cons _ (List.nil_sublist _))
    exact (vnames_mkEllipsis _ _ _ _).trans (ih.trans (h3.trans h2))
  | case13 => trivial
  | case14 => trivial

/-! ### The tokens of the lexer have strictly increasing positions -/

theorem flush_sorted {cur : Str} {start pos : Nat} (h : start + cur.length = pos) :
    ∀ t ∈ flush cur start pos, t.b = start ∧ start < pos := by
  intro t ht
  unfold flush at ht
  split at ht
  · simp at ht
  · rename_i hc
    simp only [List.mem_singleton] at ht
    subst ht
    have : cur.length ≠ 0 := by
      intro h0; apply hc; simp [List.length_eq_zero_iff.mp h0]
    exact ⟨rfl, by omega⟩

theorem flush_pairwise (cur : Str) (start pos : Nat) : ((flush cur start pos).map (·.b)).Pairwise (· < ·) := by
  unfold flush
  split <;> simp

theorem segment_sorted (lits : List Str) (cs : Str) (pos start : Nat) (cur : Str) (h : start + cur.length = pos) :
    ((segment lits cs pos start cur).map (·.b)).Pairwise (· < ·) ∧ ∀ t ∈ segment lits cs pos start cur, start ≤ t.b := by
  fun_induction segment lits cs pos start cur with
  | case1 pos start cur =>
    exact ⟨flush_pairwise _ _ _, fun t ht => by rw [(flush_sorted h t ht).1]; exact Nat.le_refl _⟩
  | case2 pos start cur c rest l hl ih =>
    have hne := matchLit_ne_nil hl
    have hl0 : l.length ≠ 0 := fun h0 => hne (List.length_eq_zero_iff.mp h0)
    obtain ⟨ih1, ih2⟩ := ih (by simp)
    constructor
    · simp only [List.map_append, List.map_cons, List.pairwise_append, List.pairwise_cons, List.mem_map,
        List.mem_cons, forall_exists_index, and_imp, forall_apply_eq_imp_iff₂]
      refine ⟨flush_pairwise _ _ _, ⟨?_, ih1⟩, ?_⟩
      · intro t ht
        have := ih2 t ht
        omega
      · intro t ht y hy
        have hf := flush_sorted h t ht
        rcases hy with rfl | ⟨t', ht', rfl⟩
        · omega
        · have := ih2 t' ht'
          omega
    · intro t ht
      simp only [List.mem_append, List.mem_cons] at ht
      rcases ht with ht | rfl | ht
      · rw [(flush_sorted h t ht).1]; exact Nat.le_refl _
      · simp only; omega
      · have := ih2 t ht
        omega
  | case3 pos start cur c rest hl ih =>
    exact ih (by simp only [List.length_append, List.length_singleton]; omega)

theorem lex_eq_segment {text : Str} {toks : List Token} (h : lex text = .ok toks) : toks = segment literals text 0 0 [] := by
  unfold lex at h
  simp only at h
  split at h
  · cases h
  · cases h; rfl

theorem dedupSpaces_sublist : ∀ (ts : List Token) (f : Bool), dedupSpaces ts f <+ ts
  | [], _ => by simp [dedupSpaces]
  | t :: ts, f => by
    simp only [dedupSpaces]
    split
    · split
      · exact (dedupSpaces_sublist ts true).trans (List.sublist_cons_self _ _)
      · exact List.Sublist.cons_cons _ (dedupSpaces_sublist ts true)
    · exact List.Sublist.cons_cons _ (dedupSpaces_sublist ts false)

/-! ### The delimiter stack keeps the atoms in order -/

def isAtomTok (t : Token) : Bool := !delimsFront.contains t.text && !delimsBack.contains t.text

def atomBs (ts : List Token) : List Nat := (ts.filter isAtomTok).map (·.b)

/-- Atoms of the open frames, outermost first. -/
def abF : List (Token × List Tok) → List Nat
  | [] => []
  | f :: fs => abF fs ++ abL f.2

theorem atomBs_cons_delim {t : Token} (ts : List Token) (h : isAtomTok t = false) : atomBs (t :: ts) = atomBs ts := by
  simp [atomBs, h]

theorem atomBs_cons_atom {t : Token} (ts : List Token) (h : isAtomTok t = true) : atomBs (t :: ts) = t.b :: atomBs ts := by
  simp [atomBs, h]

theorem buildTree_abL : ∀ (ts : List Token) (frames : List (Token × List Tok)) (base T : List Tok),
    buildTree ts frames base = .ok T → abL T = abL base ++ abF frames ++ atomBs ts := by
  intro ts
  induction ts with
  | nil =>
    intro frames base T h
    cases frames with
    | nil =>
      simp only [buildTree, Except.ok.injEq] at h
      subst h
      simp [abF, atomBs]
    | cons f fs =>
      obtain ⟨o, items⟩ := f
      simp [buildTree] at h
  | cons t ts ih =>
    intro frames base T h
    simp only [buildTree] at h
    split at h
    · rename_i hf
      have := ih _ _ _ h
      rw [this, atomBs_cons_delim ts (by simp only [isAtomTok, hf, Bool.not_true, Bool.false_and])]
      simp only [abF, abL, List.append_nil]
    · rename_i hf
      split at h
      · rename_i hb
        have hd : isAtomTok t = false := by simp only [isAtomTok, hb, Bool.not_true, Bool.and_false]
        cases frames with
        | nil => simp at h
        | cons f fs =>
          obtain ⟨o, items⟩ := f
          simp only at h
          split at h
          · cases h
          · cases fs with
            | nil =>
              simp only at h
              have := ih _ _ _ h
              rw [this, atomBs_cons_delim ts hd]
              simp only [abL_append, abL, abT, abF, List.append_nil, List.nil_append, List.append_assoc]
            | cons f2 fs2 =>
              obtain ⟨o2, items2⟩ := f2
              simp only at h
              have := ih _ _ _ h
              rw [this, atomBs_cons_delim ts hd]
              simp only [abL_append, abL, abT, abF, List.append_nil, List.append_assoc]
      · rename_i hb
        have hd : isAtomTok t = true := by
          simp only [isAtomTok, Bool.eq_false_iff.mpr hf, Bool.eq_false_iff.mpr hb, Bool.not_false, Bool.and_self]
        cases frames with
        | nil =>
          simp only at h
          have := ih _ _ _ h
          rw [this, atomBs_cons_atom ts hd]
          simp only [abL_append, abL, abT, abF, List.append_nil, List.append_assoc, List.singleton_append]
        | cons f fs =>
          obtain ⟨o, items⟩ := f
          simp only at h
          have := ih _ _ _ h
          rw [this, atomBs_cons_atom ts hd]
          simp only [abL_append, abL, abT, abF, List.append_nil, List.append_assoc, List.singleton_append]

/-- The atoms of the token tree of a text have pairwise distinct begin positions. -/
theorem tree_nodup {text : Str} {toks : List Token} {T : List Tok} (hl : lex text = .ok toks)
    (hb : buildTree (dedupSpaces toks false) [] [] = .ok T) : (FN T).Nodup := by
  have hab := buildTree_abL _ _ _ _ hb
  simp only [abL, abF, List.nil_append] at hab
  have hs := (segment_sorted literals text 0 0 [] (by simp)).1
  rw [← lex_eq_segment hl] at hs
  have hsub : abL T <+ toks.map (·.b) := by
    rw [hab, atomBs]
    exact List.Sublist.map _ (List.filter_sublist.trans (dedupSpaces_sublist toks false))
  have hp : (abL T).Pairwise (· < ·) := hs.sublist hsub
  simp only [FN, List.Nodup, List.pairwise_map]
  refine hp.imp ?_
  intro a b hab' heq
  have := unnamedName_inj heq
  omega

/-- The names of the numeric axes of the tree that `parse` returns for the token tree of a text are pairwise distinct. -/
theorem parse_fresh_nodup {text : Str} {toks : List Token} {T : List Tok} {x : Expr} {b e : Nat} {ipc : Bool}
    (hl : lex text = .ok toks) (hb : buildTree (dedupSpaces toks false) [] [] = .ok T) (hp : parse T b e ipc = .ok x) :
    (vnames x).Nodup :=
  List.Nodup.sublist ((parse_vnames T b e ipc).of_eq hp) (tree_nodup hl hb)

/-! ### An occurrence with a fresh name is determined by the name -/

theorem nodup_append_disjoint {α : Type} {l1 l2 : List α} (h : (l1 ++ l2).Nodup) {a : α} (h1 : a ∈ l1) (h2 : a ∈ l2) : False := by
  rw [List.nodup_append] at h
  exact h.2.2 a h1 a h2 rfl

theorem anonName_ne_unnamed' (q : Nat) : anonName ≠ unnamedName q := by
  intro h
  have : anonName.head? = (unnamedName q).head? := by rw [h]
  revert this
  simp [anonName, unnamedName, lit, Einx.Extracted.anonymousVariableName]

theorem not_axisName_unnamed {q : Nat} (h : isAxisName (unnamedName q) = true) : False :=
  isAxisName_not_dot h (unnamedName_mem_dot q)

mutual
/-- In a tree of the grammar `G`, an occurrence whose name is fresh is an occurrence of a numeric axis. -/
theorem occs_fresh_mem (ao aa al : Bool) : ∀ (x : Expr), G ao aa al x = true → ∀ (br : List Int) (m : Bool),
    ∀ o ∈ occs br m x, ∀ q, o.name = unnamedName q → o.name ∈ vnames x
  | .axis n v b e, h, br, m, o, ho, q, hq => by
    simp only [occs, List.mem_singleton] at ho
    subst ho
    simp only at hq ⊢
    cases v with
    | none =>
      simp only [G, axisOK] at h
      exact (not_axisName_unnamed (hq ▸ h)).elim
    | some k => simp [vnames]
  | .flat i _ _, h, br, m, o, ho, q, hq => by
    simp only [G, Bool.and_eq_true] at h
    simp only [occs] at ho
    simp only [vnames]
    exact occs_fresh_mem ao aa true i h.2 br m o ho q hq
  | .brackets i b e, h, br, m, o, ho, q, hq => by
    simp only [G, Bool.and_eq_true] at h
    simp only [occs] at ho
    simp only [vnames]
    exact occs_fresh_mem ao aa true i h.2 _ true o ho q hq
  | .ellipsis i _ _ _, h, br, m, o, ho, q, hq => by
    simp only [G, Bool.or_eq_true, Bool.and_eq_true] at h
    simp only [occs] at ho
    simp only [vnames]
    rcases h with h | h
    · cases i with
      | axis n v bi ei =>
        cases v with
        | none =>
          simp only [isAnonAxisNone, beq_iff_eq] at h
          simp only [occs, List.mem_singleton] at ho
          subst ho
          simp only at hq
          exact (anonName_ne_unnamed' q (h ▸ hq)).elim
        | some k => simp [isAnonAxisNone] at h
      | _ => simp [isAnonAxisNone] at h
    · exact occs_fresh_mem ao aa false i h.2 br m o ho q hq
  | .concat cs _ _, h, br, m, o, ho, q, hq => by
    simp only [G, Bool.and_eq_true] at h
    simp only [occs] at ho
    simp only [vnames]
    exact occsL_fresh_mem ao aa false cs h.2 br m o ho q hq
  | .list cs _ _, h, br, m, o, ho, q, hq => by
    simp only [G, Bool.and_eq_true] at h
    simp only [occs] at ho
    simp only [vnames]
    exact occsL_fresh_mem ao aa false cs h.2 br m o ho q hq
  | .args cs _ _, h, br, m, o, ho, q, hq => by
    simp only [G, Bool.and_eq_true] at h
    simp only [occs] at ho
    simp only [vnames]
    exact occsL_fresh_mem ao aa true cs h.2 br m o ho q hq
  | .op cs _ _, h, br, m, o, ho, q, hq => by
    simp only [G, Bool.and_eq_true] at h
    simp only [occs] at ho
    simp only [vnames]
    exact occsL_fresh_mem ao aa true cs h.2 br m o ho q hq
theorem occsL_fresh_mem (ao aa al : Bool) : ∀ (cs : List Expr), GL ao aa al cs = true → ∀ (br : List Int) (m : Bool),
    ∀ o ∈ occsL br m cs, ∀ q, o.name = unnamedName q → o.name ∈ vnamesL cs
  | [], _, _, _, o, ho, _, _ => by simp [occsL] at ho
  | c :: cs, h, br, m, o, ho, q, hq => by
    simp only [GL, Bool.and_eq_true] at h
    simp only [occsL, List.mem_append] at ho
    simp only [vnamesL, List.mem_append]
    rcases ho with ho | ho
    · exact Or.inl (occs_fresh_mem ao aa al c h.1 br m o ho q hq)
    · exact Or.inr (occsL_fresh_mem ao aa al cs h.2 br m o ho q hq)
end

mutual
/-- In a tree of the grammar `G` whose numeric axes have pairwise distinct names, two occurrences with the same fresh name
    are the same occurrence. -/
theorem fresh_unique (ao aa al : Bool) : ∀ (x : Expr), G ao aa al x = true → (vnames x).Nodup → ∀ (br : List Int) (m : Bool),
    ∀ o1 ∈ occs br m x, ∀ o2 ∈ occs br m x, ∀ q, o1.name = unnamedName q → o2.name = o1.name → o1 = o2
  | .axis n v b e, _, _, br, m, o1, ho1, o2, ho2, _, _, _ => by
    simp only [occs, List.mem_singleton] at ho1 ho2
    rw [ho1, ho2]
  | .flat i _ _, h, hn, br, m, o1, ho1, o2, ho2, q, hq, he => by
    simp only [G, Bool.and_eq_true] at h
    simp only [occs] at ho1 ho2
    simp only [vnames] at hn
    exact fresh_unique ao aa true i h.2 hn br m o1 ho1 o2 ho2 q hq he
  | .brackets i b e, h, hn, br, m, o1, ho1, o2, ho2, q, hq, he => by
    simp only [G, Bool.and_eq_true] at h
    simp only [occs] at ho1 ho2
    simp only [vnames] at hn
    exact fresh_unique ao aa true i h.2 hn _ true o1 ho1 o2 ho2 q hq he
  | .ellipsis i _ _ _, h, hn, br, m, o1, ho1, o2, ho2, q, hq, he => by
    simp only [G, Bool.or_eq_true, Bool.and_eq_true] at h
    simp only [occs] at ho1 ho2
    simp only [vnames] at hn
    rcases h with h | h
    · cases i with
      | axis n v bi ei =>
        simp only [occs, List.mem_singleton] at ho1 ho2
        rw [ho1, ho2]
      | _ => simp [isAnonAxisNone] at h
    · exact fresh_unique ao aa false i h.2 hn br m o1 ho1 o2 ho2 q hq he
  | .concat cs _ _, h, hn, br, m, o1, ho1, o2, ho2, q, hq, he => by
    simp only [G, Bool.and_eq_true] at h
    simp only [occs] at ho1 ho2
    simp only [vnames] at hn
    exact freshL_unique ao aa false cs h.2 hn br m o1 ho1 o2 ho2 q hq he
  | .list cs _ _, h, hn, br, m, o1, ho1, o2, ho2, q, hq, he => by
    simp only [G, Bool.and_eq_true] at h
    simp only [occs] at ho1 ho2
    simp only [vnames] at hn
    exact freshL_unique ao aa false cs h.2 hn br m o1 ho1 o2 ho2 q hq he
  | .args cs _ _, h, hn, br, m, o1, ho1, o2, ho2, q, hq, he => by
    simp only [G, Bool.and_eq_true] at h
    simp only [occs] at ho1 ho2
    simp only [vnames] at hn
    exact freshL_unique ao aa true cs h.2 hn br m o1 ho1 o2 ho2 q hq he
  | .op cs _ _, h, hn, br, m, o1, ho1, o2, ho2, q, hq, he => by
    simp only [G, Bool.and_eq_true] at h
    simp only [occs] at ho1 ho2
    simp only [vnames] at hn
    exact freshL_unique ao aa true cs h.2 hn br m o1 ho1 o2 ho2 q hq he
theorem freshL_unique (ao aa al : Bool) : ∀ (cs : List Expr), GL ao aa al cs = true → (vnamesL cs).Nodup →
    ∀ (br : List Int) (m : Bool), ∀ o1 ∈ occsL br m cs, ∀ o2 ∈ occsL br m cs, ∀ q, o1.name = unnamedName q →
      o2.name = o1.name → o1 = o2
  | [], _, _, _, _, o1, ho1, _, _, _, _, _ => by simp [occsL] at ho1
  | c :: cs, h, hn, br, m, o1, ho1, o2, ho2, q, hq, he => by
    simp only [GL, Bool.and_eq_true] at h
    simp only [occsL, List.mem_append] at ho1 ho2
    simp only [vnamesL] at hn
    have hn1 : (vnames c).Nodup := (List.nodup_append.mp hn).1
    have hn2 : (vnamesL cs).Nodup := (List.nodup_append.mp hn).2.1
    have hq2 : o2.name = unnamedName q := he.trans hq
    rcases ho1 with ho1 | ho1 <;> rcases ho2 with ho2 | ho2
    · exact fresh_unique ao aa al c h.1 hn1 br m o1 ho1 o2 ho2 q hq he
    · have m1 := occs_fresh_mem ao aa al c h.1 br m o1 ho1 q hq
      have m2 := occsL_fresh_mem ao aa al cs h.2 br m o2 ho2 q hq2
      rw [he] at m2
      exact (nodup_append_disjoint hn m1 m2).elim
    · have m1 := occsL_fresh_mem ao aa al cs h.2 br m o1 ho1 q hq
      have m2 := occs_fresh_mem ao aa al c h.1 br m o2 ho2 q hq2
      rw [he] at m2
      exact (nodup_append_disjoint hn m2 m1).elim
    · exact freshL_unique ao aa al cs h.2 hn2 br m o1 ho1 o2 ho2 q hq he
end

end Fresh

end Einx.Notation
