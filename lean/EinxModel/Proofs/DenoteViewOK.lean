import EinxModel.Proofs.DenoteConcatLaws
import EinxModel.Proofs.DenoteViews
/-!
Every virtual tensor enumerated by `views` is well formed (`Dim.viewOKL`): a chosen block `off o d t` of a concatenation
fits into the concatenation (`o + d.size ≤ t`).
-/
namespace Einx.Denote
open Einx Einx.IR List

mutual
/-- Every chosen block inside the dimension fits (concatenations that are still unresolved are allowed). -/
def Dim.wf : Dim → Prop
  | .axis _ => True
  | .flat ds => Dim.wfL ds
  | .concat ds => Dim.wfL ds
  | .off o d t => d.wf ∧ o + d.size ≤ t
def Dim.wfL : List Dim → Prop
  | [] => True
  | d :: ds => d.wf ∧ Dim.wfL ds
end

mutual
theorem dims_wf : ∀ (m : Bool) (e : Expr), Dim.wfL (dims m e)
  | m, .axis n v => by simp [dims, Dim.wfL, Dim.wf]
  | m, .list cs => by simp only [dims]; exact dimsL_wf m cs
  | m, .flat e => by simp only [dims, Dim.wfL, Dim.wf, and_true]; exact dims_wf m e
  | m, .concat cs => by simp only [dims, Dim.wfL, Dim.wf, and_true]; exact dimsL_wf m cs
  | m, .br e => by simp only [dims]; exact dims_wf true e
theorem dimsL_wf : ∀ (m : Bool) (cs : List Expr), Dim.wfL (dimsL m cs)
  | m, [] => by simp [dimsL, Dim.wfL]
  | m, c :: cs => by simp only [dimsL]; exact wfL_append (dims_wf m c) (dimsL_wf m cs)
theorem wfL_append : ∀ {a b : List Dim}, Dim.wfL a → Dim.wfL b → Dim.wfL (a ++ b)
  | [], b, _, hb => hb
  | d :: a, b, ha, hb => by
    simp only [List.cons_append, Dim.wfL] at ha ⊢
    exact ⟨ha.1, wfL_append ha.2 hb⟩
end

theorem wfL_getElem? : ∀ (ds : List Dim) (k : Nat) (d : Dim), Dim.wfL ds → ds[k]? = some d → d.wf
  | [], k, d, _, h => by simp at h
  | x :: ds, 0, d, hw, h => by
    simp only [List.getElem?_cons_zero, Option.some.injEq] at h
    subst h; exact hw.1
  | x :: ds, k + 1, d, hw, h => by
    simp only [List.getElem?_cons_succ] at h
    exact wfL_getElem? ds k d hw.2 h

mutual
theorem choose_wf (k : Nat) : ∀ (d d' : Dim), d.wf → d.choose k = some d' → d'.wf
  | .axis _, d', _, h => by simp [Dim.choose] at h
  | .flat ds, d', hw, h => by
    simp only [Dim.choose] at h
    cases hc : Dim.chooseL k ds with
    | none => simp [hc] at h
    | some ds' =>
      simp only [hc, Option.map_some, Option.some.injEq] at h
      subst h
      exact chooseL_wf k ds ds' hw hc
  | .concat ds, d', hw, h => by
    simp only [Dim.choose] at h
    cases hg : ds[k]? with
    | none => simp [hg] at h
    | some d =>
      simp only [hg, Option.some.injEq] at h
      subst h
      refine ⟨wfL_getElem? ds k d hw hg, ?_⟩
      have := foldl_size_le ds k 0 d hg
      omega
  | .off o d t, d', hw, h => by
    simp only [Dim.choose] at h
    cases hc : d.choose k with
    | none => simp [hc] at h
    | some d2 =>
      simp only [hc, Option.map_some, Option.some.injEq] at h
      subst h
      exact ⟨choose_wf k d d2 hw.1 hc, by rw [choose_size k d d2 hc]; exact hw.2⟩
theorem chooseL_wf (k : Nat) : ∀ (ds ds' : List Dim), Dim.wfL ds → Dim.chooseL k ds = some ds' → Dim.wfL ds'
  | [], ds', _, h => by simp [Dim.chooseL] at h
  | d :: ds, ds', hw, h => by
    simp only [Dim.chooseL] at h
    split at h
    · cases hc : d.choose k with
      | none => simp [hc] at h
      | some d2 =>
        simp only [hc, Option.map_some, Option.some.injEq] at h
        subst h
        exact ⟨choose_wf k d d2 hw.1 hc, hw.2⟩
    · cases hc : Dim.chooseL k ds with
      | none => simp [hc] at h
      | some ds2 =>
        simp only [hc, Option.map_some, Option.some.injEq] at h
        subst h
        exact ⟨hw.1, chooseL_wf k ds ds2 hw.2 hc⟩
end

mutual
theorem viewOK_of_wf : ∀ d : Dim, d.wf → d.nconcat = 0 → d.viewOK = true
  | .axis _, _, _ => rfl
  | .flat ds, hw, hn => by simp only [Dim.viewOK]; exact viewOKL_of_wf ds hw (by simpa [Dim.nconcat] using hn)
  | .concat ds, _, hn => by simp [Dim.nconcat] at hn
  | .off o d t, hw, hn => by
    simp only [Dim.viewOK, Bool.and_eq_true, decide_eq_true_eq]
    exact ⟨viewOK_of_wf d hw.1 (by simpa [Dim.nconcat] using hn), hw.2⟩
theorem viewOKL_of_wf : ∀ ds : List Dim, Dim.wfL ds → Dim.nconcatL ds = 0 → Dim.viewOKL ds = true
  | [], _, _ => rfl
  | d :: ds, hw, hn => by
    simp only [Dim.nconcatL] at hn
    simp only [Dim.viewOKL, Bool.and_eq_true]
    exact ⟨viewOK_of_wf d hw.1 (by omega), viewOKL_of_wf ds hw.2 (by omega)⟩
end

theorem viewsFuel_wf : ∀ (n : Nat) (ds : List Dim), Dim.wfL ds → ∀ v ∈ viewsFuel n ds, Dim.wfL v
  | 0, ds, hw, v, hv => by
    simp only [viewsFuel, List.mem_singleton] at hv
    subst hv; exact hw
  | n + 1, ds, hw, v, hv => by
    rw [viewsFuel] at hv
    split at hv
    · simp only [List.mem_singleton] at hv
      subst hv; exact hw
    · simp only [List.mem_flatMap, List.mem_range] at hv
      obtain ⟨k, _, hk⟩ := hv
      cases hc : Dim.chooseL k ds with
      | none => simp [hc] at hk
      | some ds' =>
        simp only [hc] at hk
        exact viewsFuel_wf n ds' (chooseL_wf k ds ds' hw hc) v hk

/-- **Every virtual tensor of a solved expression is well formed.** -/
theorem views_viewOK (e : Expr) : ∀ v ∈ views e, Dim.viewOKL v = true := by
  intro v hv
  unfold views at hv
  exact viewOKL_of_wf v (viewsFuel_wf _ _ (dims_wf false e) v hv) (viewsFuel_concatFree _ _ (by omega) v hv)

end Einx.Denote
