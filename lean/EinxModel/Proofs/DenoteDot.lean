import EinxModel.Proofs.DenoteReducePerm
/-!
Dot (C08): the functional form `Denote.denoteDotFun` is the executable loop form `Denote.denoteDot`; its cell
function sees the output assignment only through `get`, so the generic output laws of `genCells` apply.
-/
namespace Einx.Denote
open Einx Einx.IR
open Einx.Update (mapOpt mapOpt_eq_some_iff mapOpt_length mapOpt_congr)

def dtInner (σ τ : Assign) : (List Dim × Expr) × Nat → List Cell → E (ForInStep (List Cell)) :=
  fun x factors =>
    match x with
    | ((v, e), i) => do
      let a ← optE "axis neither contracted nor in output" (inputAssign (τ ++ σ) τ (Dim.leavesL v))
      let p ← optE "unassigned input axis" (position v a)
      pure (ForInStep.yield (factors ++ [Cell.src i (ravel (shapeOf e) p)]))

def dtMid (vis : List (List Dim)) (exprsIn : List Expr) (σ : Assign) : Assign → List Cell → E (ForInStep (List Cell)) :=
  fun τ terms => do
    let factors ← forIn (vis.zip exprsIn).zipIdx [] (dtInner σ τ)
    pure (ForInStep.yield (terms ++ [mkProd factors]))

def dtOuter (vis : List (List Dim)) (exprsIn : List Expr) (marked : List (String × Nat)) (vo : List Dim) :
    Assign → List (List Nat × Cell) → E (ForInStep (List (List Nat × Cell))) :=
  fun σ entries => do
    let terms ← forIn (assignments marked) [] (dtMid vis exprsIn σ)
    let po ← optE "unassigned output axis" (position vo σ)
    pure (ForInStep.yield (entries ++ [(po, mkRed "sum" terms)]))

theorem denoteDot_eq (exprsIn : List Expr) (exprOut : Expr) :
    denoteDot exprsIn exprOut = (do
      let vis ← exprsIn.mapM singleView
      let vo ← singleView exprOut
      let entries ← forIn (assignments (axesOf (Dim.leavesL vo))) []
        (dtOuter vis exprsIn (axesOf ((vis.flatMap Dim.leavesL).filter (·.marked))) vo)
      fillOutput (shapeOf exprOut) entries) := by
  unfold denoteDot
  rfl

def dotFactorL (σ τ : Assign) (x : (List Dim × Expr) × Nat) : Option Cell :=
  match inputAssign (τ ++ σ) τ (Dim.leavesL x.1.1) with
  | some a => cellAt x.1.1 (shapeOf x.1.2) x.2 a
  | none => none

theorem dt_inner_loop (σ τ : Assign) : ∀ (l : List ((List Dim × Expr) × Nat)) (factors : List Cell),
    okOpt (forIn l factors (dtInner σ τ)) = (mapOpt (dotFactorL σ τ) l).map (fun cs => factors ++ cs) := by
  intro l
  induction l with
  | nil => intro factors; simp [mapOpt, okOpt_pure]
  | cons x l ih =>
    intro factors
    obtain ⟨⟨v, e⟩, i⟩ := x
    rw [List.forIn_cons]
    simp only [mapOpt, dotFactorL, dtInner, cellAt, flatPos]
    cases hx : inputAssign (τ ++ σ) τ (Dim.leavesL v) with
    | none => simp only [optE_none, error_bind, okOpt, Option.map_none]
    | some a =>
      cases hp : position v a with
      | none => simp only [hp, optE_some, optE_none, pure_bind, error_bind, okOpt, Option.map_none]
      | some p =>
        simp only [hp, optE_some, pure_bind, Option.map_some, ih]
        cases mapOpt (dotFactorL σ τ) l with
        | none => rfl
        | some cs => simp

def dotTermL (vis : List (List Dim)) (exprsIn : List Expr) (σ τ : Assign) : Option Cell :=
  (mapOpt (dotFactorL σ τ) (vis.zip exprsIn).zipIdx).map mkProd

theorem dt_mid_loop (vis : List (List Dim)) (exprsIn : List Expr) (σ : Assign) :
    ∀ (l : List Assign) (terms : List Cell),
      okOpt (forIn l terms (dtMid vis exprsIn σ)) = (mapOpt (dotTermL vis exprsIn σ) l).map (fun cs => terms ++ cs) := by
  intro l
  induction l with
  | nil => intro terms; simp [mapOpt, okOpt_pure]
  | cons τ l ih =>
    intro terms
    rw [List.forIn_cons]
    simp only [dtMid, bind_assoc, pure_bind]
    rw [okOpt_bind, dt_inner_loop]
    simp only [mapOpt, dotTermL]
    cases mapOpt (dotFactorL σ τ) (vis.zip exprsIn).zipIdx with
    | none => rfl
    | some fs =>
      simp only [Option.map_some, Option.bind_some, List.nil_append, ih]
      cases mapOpt (dotTermL vis exprsIn σ) l with
      | none => rfl
      | some cs => simp

def dotEntryL (vis : List (List Dim)) (exprsIn : List Expr) (marked : List (String × Nat)) (vo : List Dim) (σ : Assign) :
    Option (List Nat × Cell) :=
  match mapOpt (dotTermL vis exprsIn σ) (assignments marked), position vo σ with
  | some terms, some po => some (po, mkRed "sum" terms)
  | _, _ => none

theorem dt_outer_loop (vis : List (List Dim)) (exprsIn : List Expr) (marked : List (String × Nat)) (vo : List Dim) :
    ∀ (asg : List Assign) (entries : List (List Nat × Cell)),
      okOpt (forIn asg entries (dtOuter vis exprsIn marked vo))
        = (mapOpt (dotEntryL vis exprsIn marked vo) asg).map (fun es => entries ++ es) := by
  intro asg
  induction asg with
  | nil => intro entries; simp [mapOpt, okOpt_pure]
  | cons σ asg ih =>
    intro entries
    rw [List.forIn_cons]
    simp only [dtOuter, bind_assoc, pure_bind]
    rw [okOpt_bind, dt_mid_loop]
    simp only [mapOpt, dotEntryL]
    cases mapOpt (dotTermL vis exprsIn σ) (assignments marked) with
    | none => rfl
    | some terms =>
      simp only [Option.map_some, Option.bind_some, List.nil_append]
      cases hp : position vo σ with
      | none => simp only [optE_none, error_bind, okOpt, Option.map_none]
      | some po =>
        simp only [optE_some, pure_bind, Option.map_some, ih]
        cases mapOpt (dotEntryL vis exprsIn marked vo) asg with
        | none => rfl
        | some es => simp

theorem dotTermL_eq (exprsIn : List Expr) (σ τ : Assign) :
    dotTermL (exprsIn.map rootDims) exprsIn σ τ = dotTerm (exprsIn.map (fun e => (rootDims e, shapeOf e))) σ τ := by
  unfold dotTermL dotTerm
  have h1 : (exprsIn.map rootDims).zip exprsIn = exprsIn.map (fun e => (rootDims e, e)) := by
    rw [List.zip_map_left, List.zip_eq_zipWith]; simp [List.zipWith_self]
  rw [h1, List.zipIdx_map, List.zipIdx_map, mapOpt_map, mapOpt_map]
  rfl

theorem dotMarked_eq (exprsIn : List Expr) :
    axesOf (((exprsIn.map rootDims).flatMap Dim.leavesL).filter (·.marked))
      = dotMarked (exprsIn.map (fun e => (rootDims e, shapeOf e))) := by
  simp only [dotMarked, List.flatMap_map]

theorem dotEntryL_gen (exprsIn : List Expr) (vo : List Dim) (so : List Nat) (σ : Assign) :
    (dotEntryL (exprsIn.map rootDims) exprsIn (dotMarked (exprsIn.map (fun e => (rootDims e, shapeOf e)))) vo σ).map
        (fun e => (ravel so e.1, e.2))
      = genEntry (dotX (exprsIn.map (fun e => (rootDims e, shapeOf e)))) vo so σ := by
  have : dotTermL (exprsIn.map rootDims) exprsIn σ = dotTerm (exprsIn.map (fun e => (rootDims e, shapeOf e))) σ := by
    funext τ; exact dotTermL_eq exprsIn σ τ
  simp only [dotEntryL, genEntry, dotX, dotArgs, flatPos, this]
  cases mapOpt (dotTerm (exprsIn.map (fun e => (rootDims e, shapeOf e))) σ)
    (assignments (dotMarked (exprsIn.map (fun e => (rootDims e, shapeOf e))))) <;> cases position vo σ <;> rfl

/-- **Tie between the loop form and the functional form of dot** (concatenation-free expressions). -/
theorem denoteDot_eq_fun (exprsIn : List Expr) (eo : Expr) (hin : Expr.concatFreeL exprsIn = true)
    (heo : eo.concatFree = true) : okOpt (denoteDot exprsIn eo) = okOpt (denoteDotFun exprsIn eo) := by
  rw [denoteDot_eq, mapM_singleView exprsIn hin, singleView_of_concatFree heo]
  simp only [pure_bind]
  rw [okOpt_bind, dotMarked_eq, dt_outer_loop]
  unfold denoteDotFun dotCells genCells
  simp only [hin, heo, Bool.and_self, Bool.not_true, Bool.false_eq_true, if_false, outAssignments]
  have hg : genEntry (dotX (exprsIn.map (fun e => (rootDims e, shapeOf e)))) (rootDims eo) (shapeOf eo)
      = fun σ => (dotEntryL (exprsIn.map rootDims) exprsIn (dotMarked (exprsIn.map (fun e => (rootDims e, shapeOf e))))
          (rootDims eo) σ).map (fun e' => (ravel (shapeOf eo) e'.1, e'.2)) := by
    funext σ; exact (dotEntryL_gen exprsIn _ _ σ).symm
  rw [hg, mapOpt_optmap]
  cases mapOpt (dotEntryL (exprsIn.map rootDims) exprsIn (dotMarked (exprsIn.map (fun e => (rootDims e, shapeOf e))))
      (rootDims eo)) (assignments (axesOf (Dim.leavesL (rootDims eo)))) with
  | none => rfl
  | some es =>
    simp only [Option.map_some, Option.bind_some, List.nil_append, okOpt_fillOutput]
    cases gatherAll (prod (shapeOf eo)) (es.map (fun e' => (ravel (shapeOf eo) e'.1, e'.2))) <;> rfl

/-! ### the cell function of dot sees the output assignment only through `get` -/

theorem dotX_getInvariant (ins : List (List Dim × List Nat)) : GetInvariant (dotX ins) := by
  intro σ σ' h
  unfold dotX dotArgs
  have : dotTerm ins σ = dotTerm ins σ' := by
    funext τ
    unfold dotTerm
    have : dotFactor σ τ = dotFactor σ' τ := by
      funext q
      unfold dotFactor
      rw [inputAssign_congr (σ := τ ++ σ) (σ' := τ ++ σ') (τ := τ) (τ' := τ)
        (fun n => by rw [get_append, get_append, h n]) (fun _ => rfl)]
    rw [this]
  rw [this]

end Einx.Denote

namespace Einx.Denote
open Einx Einx.IR
open Einx.Update (mapOpt mapOpt_congr)

/-! ### elementwise operations have the shape `genCells` -/

def ewX (f : String) (ins : List (List Dim × List Nat)) (σ : Assign) : Option Cell := (ewArgs ins σ).map (Cell.app f)

theorem ewCells_eq_genCells (f : String) (ins : List (List Dim × List Nat)) (vo : List Dim) (so : List Nat) :
    ewCells f ins vo so = genCells (ewX f ins) vo so := by
  unfold ewCells genCells
  have : ewEntry f ins vo so = genEntry (ewX f ins) vo so := by
    funext σ
    simp only [ewEntry, genEntry, ewX]
    cases ewArgs ins σ <;> cases flatPos vo so σ <;> rfl
  rw [this]
  cases mapOpt (genEntry (ewX f ins) vo so) (outAssignments vo) <;> rfl

theorem ewX_getInvariant (f : String) (ins : List (List Dim × List Nat)) : GetInvariant (ewX f ins) := by
  intro σ σ' h
  unfold ewX ewArgs
  congr 1
  apply mapOpt_congr
  intro p _
  rcases extend_sameGet (Dim.leavesL p.1.1) σ σ' h with ⟨h1, h2⟩ | ⟨σ1, σ1', h1, h2, hs⟩
  · rw [h1, h2]
  · rw [h1, h2]; exact cellAt_sameGet hs _ _ _

end Einx.Denote
