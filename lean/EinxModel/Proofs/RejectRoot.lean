import EinxModel.Proofs.RejectInternal
/-!
# The root of every tree `parse_op` returns is `Op[Args]` or `Op[Args, Args]` (helper lemmas for Props/C03Reject.lean)

`_parse_op` reads `op.children[0].children` and `op.children[1].children` without a check; `parse_args` asserts
`isinstance(op.children[0], Args)`.  Both are safe: the second `move_up` pass wraps every child of the root in `Args`, the
post-check bounds the number of children by two, and the first pass never produces an `Op` without children
(invariant `OpsNE`: `parse` creates `Op` nodes only from the `≥ 2` operands of a `->`).
-/
namespace Einx.Notation

/-! ## `OpsNE`: every `Op` node has at least one child -/

mutual
def OpsNE : Expr → Prop
  | .axis .. => True
  | .flat i _ _ | .brackets i _ _ | .ellipsis i _ _ _ => OpsNE i
  | .concat cs _ _ | .list cs _ _ | .args cs _ _ => OpsNEL cs
  | .op cs _ _ => cs ≠ [] ∧ OpsNEL cs
def OpsNEL : List Expr → Prop
  | [] => True
  | c :: cs => OpsNE c ∧ OpsNEL cs
end

theorem opsNEL_iff {cs : List Expr} : OpsNEL cs ↔ ∀ c ∈ cs, OpsNE c := by
  induction cs with
  | nil => simp [OpsNEL]
  | cons c cs ih => simp [OpsNEL, ih]

theorem opsNE_emptyList : OpsNE emptyList := by simp [emptyList, OpsNE, OpsNEL]

theorem opsNE_mkFlat {i : Expr} (b e : Int) (hi : OpsNE i) : OpsNE (mkFlat i b e) := by
  unfold mkFlat; split
  · exact hi
  · exact hi

theorem opsNE_mkBrackets {i : Expr} (b e : Int) (hi : OpsNE i) : OpsNE (mkBrackets i b e) := by
  unfold mkBrackets; split
  · exact hi
  · split
    · exact opsNE_emptyList
    · exact hi

theorem opsNE_mkEllipsis {i : Expr} (b e : Int) (id : Nat) (hi : OpsNE i) : OpsNE (mkEllipsis i b e id) := by
  unfold mkEllipsis; split
  · exact opsNE_emptyList
  · exact hi

theorem opsNE_mkConcat {cs : List Expr} (b e : Int) (h : ∀ c ∈ cs, OpsNE c) : OpsNE (mkConcat cs b e) := by
  unfold mkConcat; split
  · exact h _ (by simp)
  · exact opsNEL_iff.mpr h

mutual
theorem flattenOne_opsNE : ∀ (x : Expr), OpsNE x → ∀ c ∈ flattenOne x, OpsNE c
  | .list cs _ _, h => by
    simp only [flattenOne]
    exact flattenAll_opsNE cs (by simpa only [OpsNE] using h)
  | .axis .., h => by simp only [flattenOne, List.mem_singleton]; intro c hc; subst hc; exact h
  | .flat .., h => by simp only [flattenOne, List.mem_singleton]; intro c hc; subst hc; exact h
  | .brackets .., h => by simp only [flattenOne, List.mem_singleton]; intro c hc; subst hc; exact h
  | .ellipsis .., h => by simp only [flattenOne, List.mem_singleton]; intro c hc; subst hc; exact h
  | .concat .., h => by simp only [flattenOne, List.mem_singleton]; intro c hc; subst hc; exact h
  | .args .., h => by simp only [flattenOne, List.mem_singleton]; intro c hc; subst hc; exact h
  | .op .., h => by simp only [flattenOne, List.mem_singleton]; intro c hc; subst hc; exact h
theorem flattenAll_opsNE : ∀ (cs : List Expr), OpsNEL cs → ∀ c ∈ flattenAll cs, OpsNE c
  | [], _ => by simp [flattenAll]
  | x :: xs, h => by
    simp only [flattenAll, List.mem_append]
    simp only [OpsNEL] at h
    intro c hc
    rcases hc with hc | hc
    · exact flattenOne_opsNE x h.1 c hc
    · exact flattenAll_opsNE xs h.2 c hc
end

theorem opsNE_mkList {cs : List Expr} (b e : Int) (h : ∀ c ∈ cs, OpsNE c) : OpsNE (mkList cs b e) := by
  have hf := flattenAll_opsNE cs (opsNEL_iff.mpr h)
  unfold mkList; split
  · rename_i c hc
    exact hf c (by rw [hc]; simp)
  · exact opsNEL_iff.mpr hf

theorem opsNE_children {x : Expr} (h : OpsNE x) : ∀ c ∈ x.children, OpsNE c := by
  cases x with
  | axis => intro c hc; simp [Expr.children] at hc
  | flat i b e => intro c hc; simp only [Expr.children, List.mem_singleton] at hc; subst hc; exact h
  | brackets i b e => intro c hc; simp only [Expr.children, List.mem_singleton] at hc; subst hc; exact h
  | ellipsis i id b e => intro c hc; simp only [Expr.children, List.mem_singleton] at hc; subst hc; exact h
  | concat cs b e => exact opsNEL_iff.mp h
  | list cs b e => exact opsNEL_iff.mp h
  | args cs b e => exact opsNEL_iff.mp h
  | op cs b e => exact opsNEL_iff.mp h.2

/-! ## `parse` produces `OpsNE` trees -/

theorem mapM_ok_length {α β : Type} (f : α → Res β) : ∀ (l : List α) (xs : List β), l.mapM f = .ok xs → xs.length = l.length
  | [], xs, h => by
    simp only [List.mapM_nil, pure, Except.pure, Except.ok.injEq] at h
    subst h; rfl
  | a :: l, xs, h => by
    simp only [List.mapM_cons, bind, Except.bind] at h
    cases hfa : f a with
    | error e => rw [hfa] at h; simp at h
    | ok y =>
      rw [hfa] at h
      simp only at h
      cases hl : l.mapM f with
      | error e => rw [hl] at h; simp at h
      | ok ys =>
        rw [hl] at h
        simp only [pure, Except.pure, Except.ok.injEq] at h
        subst h
        simp [mapM_ok_length f l ys hl]

theorem combine_opsNE {op : Str} {xs : List Expr} {b e : Nat} {ipc : Bool} {ts : List Tok}
    (hxs : ∀ x ∈ xs, OpsNE x) (hne : op = lit "->" → xs ≠ []) :
    ∀ r, combine op xs b e ipc ts = .ok r → OpsNE r := by
  intro r hr
  unfold combine at hr
  split at hr
  · cases hr; exact opsNE_mkList _ _ hxs
  · split at hr
    · rename_i h
      cases hr
      exact ⟨hne (by simpa using h), opsNEL_iff.mpr hxs⟩
    · split at hr
      · cases hr; exact opsNEL_iff.mpr hxs
      · split at hr
        · dsimp only at hr
          split at hr
          · cases hr
          · split at hr
            · cases hr
            · cases hr; exact opsNE_mkConcat _ _ hxs
        · cases hr

theorem parseAxis_opsNE (t : Token) : ∀ r, parseAxis t = .ok r → OpsNE r := by
  intro r hr
  unfold parseAxis at hr
  split at hr
  · split at hr
    · cases hr; trivial
    · cases hr
  · split at hr
    · cases hr; trivial
    · cases hr

theorem operands_ne (op : Str) (ts : List Tok) : operands op ts ≠ [] := by
  simp [operands]

theorem parse_opsNE (ts : List Tok) (b e : Nat) (ipc : Bool) : ∀ r, parse ts b e ipc = .ok r → OpsNE r := by
  fun_induction parse ts b e ipc with
  | case1 => intro r hr; cases hr; exact opsNE_mkList _ _ (by simp)
  | case2 => intro r hr; cases hr
  | case3 ts b e ipc o c inner hs ib x heq _ _ ih => intro r hr; cases hr; exact ih x heq
  | case4 ts b e ipc o c inner hs ib x heq _ _ ih => intro r hr; cases hr; exact opsNE_mkFlat _ _ (ih x heq)
  | case5 ts b e ipc o c inner hs ib x heq _ _ ih => intro r hr; cases hr; exact opsNE_mkBrackets _ _ (ih x heq)
  | case6 => intro r hr; cases hr
  | case7 => intro r hr; cases hr
  | case8 ts b e ipc t0 rest _ hs ts1 b1 e1 op hop xs heq ih =>
    intro r hr
    refine combine_opsNE ?_ ?_ r hr
    · intro x hx
      obtain ⟨a, _, ha⟩ := mapM_ok_mem _ _ _ heq x hx
      exact ih a x ha
    · intro hop'
      have hlen := mapM_ok_length _ _ _ heq
      intro hnil
      rw [hnil] at hlen
      simp only [List.length_nil, List.length_attach] at hlen
      have hk : keepOperands op (operands op ts1) = operands op ts1 := by
        unfold keepOperands
        rw [hop']
        simp [lit]
      rw [hk] at hlen
      exact operands_ne op ts1 (List.length_eq_zero_iff.mp hlen.symm)
  | case9 => intro r hr; cases hr; exact opsNE_mkEllipsis _ _ _ trivial
  | case10 ts b e ipc t hs _ _ _ _ => intro r hr; exact parseAxis_opsNE t r hr
  | case11 => intro r hr; cases hr
  | case12 ts b e ipc x t hs _ operand heq _ _ _ _ ih => intro r hr; cases hr; exact opsNE_mkEllipsis _ _ _ (ih operand heq)
  | case13 => intro r hr; cases hr
  | case14 => intro r hr; cases hr

/-! ## The first pass returns at least one alternative -/

theorem headD_eraseDups_ne_zero (l : List Nat) (h : ∀ n ∈ l, n ≠ 0) : l.eraseDups.headD 1 ≠ 0 := by
  cases hl : l.eraseDups with
  | nil => simp
  | cons a as =>
    simp only [List.headD_cons]
    have : a ∈ l.eraseDups := by rw [hl]; simp
    exact h a (List.mem_eraseDups.mp this)

/-- Lifted nodes with at least one alternative, all `OpsNE`. -/
def AltsNE (y : Expr) : Prop := y.children ≠ [] ∧ ∀ c ∈ y.children, OpsNE c

theorem opsNE_pick (idx : Nat) {y : Expr} (h : AltsNE y) : OpsNE (pick idx y) := by
  unfold pick
  split
  · rename_i c hx
    exact h.2 c (by rw [hx]; simp)
  · rw [List.getD_eq_getElem?_getD]
    cases hi : y.children[idx]? with
    | none => simpa using opsNE_emptyList
    | some z => simpa using h.2 z (List.mem_of_getElem? hi)

theorem distribute_op_altsNE (cls : Cls) {children : List Expr} (b e : Int) (arrows : List Int)
    (hch : ∀ y ∈ children, AltsNE y) : ∀ r, distribute .op cls children b e arrows = .ok r → AltsNE r := by
  intro r hr
  unfold distribute at hr
  dsimp only at hr
  split at hr
  · cases hr
  · cases hr
    constructor
    · simp only [Lift.wrap, Expr.children, ne_eq, List.map_eq_nil_iff, List.range_eq_nil]
      apply headD_eraseDups_ne_zero
      intro n hn
      simp only [List.mem_filter, List.mem_map] at hn
      obtain ⟨⟨y, hy, rfl⟩, _⟩ := hn
      intro h0
      exact (hch y hy).1 (List.length_eq_zero_iff.mp h0)
    · intro c hc
      simp only [Lift.wrap, Expr.children, List.mem_map] at hc
      obtain ⟨idx, _, rfl⟩ := hc
      have hitems : ∀ z ∈ children.map (pick idx), OpsNE z := by
        intro z hz
        obtain ⟨y, hy, rfl⟩ := List.mem_map.mp hz
        exact opsNE_pick idx (hch y hy)
      cases cls
      · exact opsNE_mkList b e hitems
      · exact opsNE_mkConcat b e hitems
      · exact opsNEL_iff.mpr hitems

theorem altsNE_map {o : Expr} (h : AltsNE o) (f : Expr → Expr) (hf : ∀ a, OpsNE a → OpsNE (f a)) (b e : Int) :
    AltsNE (Lift.op.wrap (o.children.map f) b e) := by
  constructor
  · simp only [Lift.wrap, Expr.children, ne_eq, List.map_eq_nil_iff]; exact h.1
  · intro c hc
    simp only [Lift.wrap, Expr.children, List.mem_map] at hc
    obtain ⟨a, ha, rfl⟩ := hc
    exact hf a (h.2 a ha)

mutual
theorem moveUp_op_altsNE (arrows : List Int) : ∀ (x : Expr), OpsNE x → ∀ r, moveUp .op arrows x = .ok r → AltsNE r
  | .axis .., _, r, h => by
    simp only [moveUp, Except.ok.injEq] at h
    subst h
    exact ⟨by simp [Lift.wrap, Expr.children], by intro c hc; simp only [Lift.wrap, Expr.children, List.mem_singleton] at hc; subst hc; trivial⟩
  | .flat i b e, hx, r, h => by
    simp only [moveUp] at h
    cases hm : moveUp .op arrows i with
    | error err => rw [hm] at h; cases h
    | ok o =>
      rw [hm] at h
      simp only [Except.ok.injEq] at h
      subst h
      exact altsNE_map (moveUp_op_altsNE arrows i (by simpa only [OpsNE] using hx) o hm) _ (fun a ha => opsNE_mkFlat b e ha) _ _
  | .brackets i b e, hx, r, h => by
    simp only [moveUp] at h
    cases hm : moveUp .op arrows i with
    | error err => rw [hm] at h; cases h
    | ok o =>
      rw [hm] at h
      simp only [Except.ok.injEq] at h
      subst h
      exact altsNE_map (moveUp_op_altsNE arrows i (by simpa only [OpsNE] using hx) o hm) _ (fun a ha => opsNE_mkBrackets b e ha) _ _
  | .ellipsis i id b e, hx, r, h => by
    simp only [moveUp] at h
    cases hm : moveUp .op arrows i with
    | error err => rw [hm] at h; cases h
    | ok o =>
      rw [hm] at h
      simp only [Except.ok.injEq] at h
      subst h
      exact altsNE_map (moveUp_op_altsNE arrows i (by simpa only [OpsNE] using hx) o hm) _ (fun a ha => opsNE_mkEllipsis b e id ha) _ _
  | .list cs b e, hx, r, h => by
    simp only [moveUp] at h
    cases hm : moveUpL .op arrows cs with
    | error err => rw [hm] at h; cases h
    | ok ch =>
      rw [hm] at h
      exact distribute_op_altsNE .list b e arrows (moveUpL_op_altsNE arrows cs (by simpa only [OpsNE] using hx) ch hm) r h
  | .concat cs b e, hx, r, h => by
    simp only [moveUp] at h
    cases hm : moveUpL .op arrows cs with
    | error err => rw [hm] at h; cases h
    | ok ch =>
      rw [hm] at h
      exact distribute_op_altsNE .concat b e arrows (moveUpL_op_altsNE arrows cs (by simpa only [OpsNE] using hx) ch hm) r h
  | .args cs b e, hx, r, h => by
    simp only [moveUp] at h
    cases hm : moveUpL .op arrows cs with
    | error err => rw [hm] at h; cases h
    | ok ch =>
      rw [hm] at h
      exact distribute_op_altsNE .args b e arrows (moveUpL_op_altsNE arrows cs (by simpa only [OpsNE] using hx) ch hm) r h
  | .op cs b e, hx, r, h => by
    simp only [moveUp] at h
    simp only [OpsNE] at hx
    cases hm : moveUpL .op arrows cs with
    | error err => rw [hm] at h; cases h
    | ok ch =>
      rw [hm] at h
      simp only [Except.ok.injEq] at h
      subst h
      have ih := moveUpL_op_altsNE arrows cs hx.2 ch hm
      have hlen : ch.length = cs.length := moveUpL_length arrows cs ch hm
      constructor
      · simp only [Expr.children, ne_eq, List.flatMap_eq_nil_iff]
        cases ch with
        | nil =>
          exfalso
          simp only [List.length_nil] at hlen
          exact hx.1 (List.length_eq_zero_iff.mp hlen.symm)
        | cons y ys =>
          intro hall
          exact (ih y (by simp)).1 (hall y (by simp))
      · intro c hc
        simp only [Expr.children, List.mem_flatMap] at hc
        obtain ⟨y, hy, hcy⟩ := hc
        exact (ih y hy).2 c hcy
theorem moveUpL_op_altsNE (arrows : List Int) : ∀ (cs : List Expr), OpsNEL cs → ∀ ch, moveUpL .op arrows cs = .ok ch →
    ∀ y ∈ ch, AltsNE y
  | [], _, ch, h => by
    simp only [moveUpL, Except.ok.injEq] at h
    subst h; intro y hy; cases hy
  | c :: cs, hcs, ch, h => by
    simp only [moveUpL] at h
    simp only [OpsNEL] at hcs
    cases hm : moveUp .op arrows c with
    | error err => rw [hm] at h; cases h
    | ok x =>
      rw [hm] at h
      cases hm2 : moveUpL .op arrows cs with
      | error err => rw [hm2] at h; cases h
      | ok xs =>
        rw [hm2] at h
        simp only [Except.ok.injEq] at h
        subst h
        intro y hy
        rcases List.mem_cons.mp hy with rfl | hy
        · exact moveUp_op_altsNE arrows c hcs.1 _ hm
        · exact moveUpL_op_altsNE arrows cs hcs.2 xs hm2 y hy
theorem moveUpL_length (arrows : List Int) : ∀ (cs : List Expr) (ch : List Expr), moveUpL .op arrows cs = .ok ch → ch.length = cs.length
  | [], ch, h => by
    simp only [moveUpL, Except.ok.injEq] at h
    subst h; rfl
  | c :: cs, ch, h => by
    simp only [moveUpL] at h
    cases hm : moveUp .op arrows c with
    | error err => rw [hm] at h; cases h
    | ok x =>
      rw [hm] at h
      cases hm2 : moveUpL .op arrows cs with
      | error err => rw [hm2] at h; cases h
      | ok xs =>
        rw [hm2] at h
        simp only [Except.ok.injEq] at h
        subst h
        simp [moveUpL_length arrows cs xs hm2]
end

/-! ## The second pass wraps every alternative in `Args` -/

def IsArgs : Expr → Prop
  | .args .. => True
  | _ => False

theorem moveUp_args_isArgs (arrows : List Int) (x : Expr) : ∀ r, moveUp .args arrows x = .ok r → IsArgs r := by
  intro r h
  cases x with
  | axis n v b e => simp only [moveUp, Except.ok.injEq] at h; subst h; trivial
  | flat i b e =>
    simp only [moveUp] at h
    cases hm : moveUp .args arrows i with
    | error err => rw [hm] at h; cases h
    | ok o => rw [hm] at h; simp only [Except.ok.injEq] at h; subst h; trivial
  | brackets i b e =>
    simp only [moveUp] at h
    cases hm : moveUp .args arrows i with
    | error err => rw [hm] at h; cases h
    | ok o => rw [hm] at h; simp only [Except.ok.injEq] at h; subst h; trivial
  | ellipsis i id b e =>
    simp only [moveUp] at h
    cases hm : moveUp .args arrows i with
    | error err => rw [hm] at h; cases h
    | ok o => rw [hm] at h; simp only [Except.ok.injEq] at h; subst h; trivial
  | list cs b e =>
    simp only [moveUp] at h
    cases hm : moveUpL .args arrows cs with
    | error err => rw [hm] at h; cases h
    | ok ch =>
      rw [hm] at h
      unfold distribute at h
      dsimp only at h
      split at h
      · cases h
      · cases h; trivial
  | concat cs b e =>
    simp only [moveUp] at h
    cases hm : moveUpL .args arrows cs with
    | error err => rw [hm] at h; cases h
    | ok ch =>
      rw [hm] at h
      unfold distribute at h
      dsimp only at h
      split at h
      · cases h
      · cases h; trivial
  | args cs b e =>
    simp only [moveUp] at h
    cases hm : moveUpL .args arrows cs with
    | error err => rw [hm] at h; cases h
    | ok ch => rw [hm] at h; simp only [Except.ok.injEq] at h; subst h; trivial
  | op cs b e => simp [moveUp] at h

theorem moveUpL_args_isArgs (arrows : List Int) : ∀ (cs : List Expr) (ch : List Expr), moveUpL .args arrows cs = .ok ch →
    ch.length = cs.length ∧ ∀ y ∈ ch, IsArgs y
  | [], ch, h => by
    simp only [moveUpL, Except.ok.injEq] at h
    subst h; simp
  | c :: cs, ch, h => by
    simp only [moveUpL] at h
    cases hm : moveUp .args arrows c with
    | error err => rw [hm] at h; cases h
    | ok x =>
      rw [hm] at h
      cases hm2 : moveUpL .args arrows cs with
      | error err => rw [hm2] at h; cases h
      | ok xs =>
        rw [hm2] at h
        simp only [Except.ok.injEq] at h
        subst h
        have ih := moveUpL_args_isArgs arrows cs xs hm2
        refine ⟨by simp [ih.1], ?_⟩
        intro y hy
        rcases List.mem_cons.mp hy with rfl | hy
        · exact moveUp_args_isArgs arrows c _ hm
        · exact ih.2 y hy

theorem traverseL_isArgs (inBr : Bool) : ∀ (cs : List Expr), (∀ y ∈ cs, IsArgs y) →
    (traverseL inBr cs).length = cs.length ∧ ∀ y ∈ traverseL inBr cs, IsArgs y
  | [], _ => by simp [traverseL]
  | c :: cs, h => by
    have ih := traverseL_isArgs inBr cs (fun y hy => h y (List.mem_cons_of_mem _ hy))
    have hc := h c (by simp)
    simp only [traverseL, List.length_cons, ih.1, List.mem_cons, true_and]
    intro y hy
    rcases hy with rfl | hy
    · cases c <;> simp only [IsArgs] at hc
      simp only [traverse]; trivial
    · exact ih.2 y hy

/-- The two shapes of a tree returned by `parse_op`. -/
theorem parseOp_root (text : Str) (x : Expr) (h : parseOp text = .ok x) :
    (∃ ins b1 e1 b e, x = .op [.args ins b1 e1] b e) ∨
    (∃ ins b1 e1 outs b2 e2 b e, x = .op [.args ins b1 e1, .args outs b2 e2] b e) := by
  unfold parseOp at h
  cases hl : lex text with
  | error err => rw [hl] at h; cases h
  | ok toks =>
    rw [hl] at h
    simp only at h
    cases hb : buildTree (dedupSpaces toks false) [] [] with
    | error err => rw [hb] at h; cases h
    | ok tree =>
      rw [hb] at h
      simp only at h
      cases hp : parse tree 0 (lastEnd tree 0) false with
      | error err => rw [hp] at h; cases h
      | ok y =>
        rw [hp] at h
        simp only at h
        have hy := parse_opsNE _ _ _ _ y hp
        cases hm : moveUp .op (posForLiteral (lit "->") text 0) y with
        | error err => rw [hm] at h; cases h
        | ok x1 =>
          rw [hm] at h
          simp only at h
          have halt := moveUp_op_altsNE _ y hy x1 hm
          rcases moveUp_op_res (posForLiteral (lit "->") text 0) y with ⟨cs, b, e, h1⟩ | ⟨k, pos, alts, h1⟩
          · rw [hm] at h1
            cases h1
            simp only at h
            cases hm2 : moveUpL .args (posForLiteral (lit "->") text 0) cs with
            | error err => rw [hm2] at h; cases h
            | ok cs2 =>
              rw [hm2] at h
              simp only at h
              split at h
              · cases h
              · rename_i hlen
                unfold checkBrackets at h
                dsimp only at h
                split at h
                · cases h
                  obtain ⟨hl2, ha2⟩ := moveUpL_args_isArgs _ cs cs2 hm2
                  obtain ⟨hl3, ha3⟩ := traverseL_isArgs false cs2 ha2
                  have hne : cs ≠ [] := by simpa [AltsNE, Expr.children] using halt.1
                  simp only [traverse, Expr.children, gt_iff_lt, Nat.not_lt] at hlen ⊢
                  generalize traverseL false cs2 = cs3 at hl3 ha3 hlen
                  have hpos : 0 < cs3.length := by
                    rw [hl3, hl2]; exact List.length_pos_iff.mpr hne
                  match cs3, hpos, hlen, ha3 with
                  | [a1], _, _, ha3 =>
                    have := ha3 a1 (by simp)
                    cases a1 <;> simp only [IsArgs] at this
                    exact Or.inl ⟨_, _, _, _, _, rfl⟩
                  | [a1, a2], _, _, ha3 =>
                    have h1 := ha3 a1 (by simp)
                    have h2 := ha3 a2 (by simp)
                    cases a1 <;> simp only [IsArgs] at h1
                    cases a2 <;> simp only [IsArgs] at h2
                    exact Or.inr ⟨_, _, _, _, _, _, _, _, rfl⟩
                  | _ :: _ :: _ :: _, _, hlen, _ => simp at hlen
                · cases h
          · rw [hm] at h1; cases h1

end Einx.Notation
