import EinxModel.Proofs.ExecSem
/-! Helper lemmas for `Props/C15Exec.lean`: the instance of `tracked_call_once` for constant objects (`isConstAtom`) and the
tracer of the user constant. -/
namespace Einx.Exec
open Einx.Compile

theorem modname_ne (x y s : String) (hs : s.length < 7) : ("module " ++ x ++ ":" ++ y) ≠ s := by
  intro h
  have := congrArg String.length h
  simp only [String.length_append] at this
  have h7 : "module ".length = 7 := by decide
  omega

theorem isConstAtom_qok : QOK isConstAtom where
  node := by
    intro e h
    cases e with
    | node tag a =>
      cases tag with
      | atom nm => exact ⟨nm, a, rfl⟩
      | _ => simp [isConstAtom] at h
    | _ => simp [isConstAtom] at h
  res := by intro n; simp [isConstAtom, resAtom, atom, E.mk]
  mod := by
    intro f i
    simp only [isConstAtom, modAtom, E.mk]
    have := modname_ne (f.getD "") i "const" (by decide)
    simpa using this
  clos := by intro k; simp [isConstAtom, closAtom, atom, E.mk]

theorem isConstAtom_const (n : Nat) : isConstAtom (constAtom n) = true := by
  simp [isConstAtom, constAtom, atom, E.mk]

theorem isConstAtom_in (t : Nat) : isConstAtom (inAtom t) = false := by
  simp [isConstAtom, inAtom, atom, E.mk]

/-! ### Counting uses -/

theorem le_sum_of_getElem? (l : List Nat) (i a : Nat) (h : l[i]? = some a) : a ≤ l.sum := by
  induction l generalizing i with
  | nil => simp at h
  | cons x rest ih =>
    cases i with
    | zero => simp at h; subst h; simp
    | succ i =>
      simp only [List.getElem?_cons_succ] at h
      have := ih i h
      simp only [List.sum_cons]
      omega

theorem add_le_sum_of_lt (l : List Nat) : ∀ (i j a b : Nat), i < j → l[i]? = some a → l[j]? = some b → a + b ≤ l.sum := by
  induction l with
  | nil => intro i j a b _ h; simp at h
  | cons x rest ih =>
    intro i j a b hij hi hj
    cases j with
    | zero => omega
    | succ j =>
      simp only [List.getElem?_cons_succ] at hj
      cases i with
      | zero =>
        simp only [List.getElem?_cons_zero, Option.some.injEq] at hi
        subst hi
        have := le_sum_of_getElem? rest j b hj
        simp only [List.sum_cons]
        omega
      | succ i =>
        simp only [List.getElem?_cons_succ] at hi
        have := ih i j a b (by omega) hi hj
        simp only [List.sum_cons]
        omega

/-- Two different applications that both mention `c` make `uses c ≥ 2`. -/
theorem uses_ge_two (ag : Adapt.Graph) (c i j : Nat) (a b : Adapt.App) (hij : i ≠ j) (hi : ag.apps[i]? = some a)
    (hj : ag.apps[j]? = some b) (ha : 1 ≤ a.uses c) (hb : 1 ≤ b.uses c) : 2 ≤ ag.uses c := by
  have h1 : (ag.apps.map (Adapt.App.uses c))[i]? = some (a.uses c) := by simp [List.getElem?_map, hi]
  have h2 : (ag.apps.map (Adapt.App.uses c))[j]? = some (b.uses c) := by simp [List.getElem?_map, hj]
  simp only [Adapt.Graph.uses]
  rcases Nat.lt_or_gt_of_ne hij with h | h
  · have := add_le_sum_of_lt _ i j _ _ h h1 h2
    omega
  · have := add_le_sum_of_lt _ j i _ _ h h2 h1
    omega

theorem toVal_var (t : Nat) : toVal (.var t) = .ref t := by simp [toVal]

/-- The translation of an application that aliases tracer `c` mentions `c`. -/
theorem alias_uses (cv : Option Adapt.Val) (a : App) (c : Nat) (h : aliasOperand a = some (.var c)) :
    1 ≤ (toAdaptApp cv a).uses c := by
  cases a with
  | cast input out =>
    simp only [aliasOperand, Option.some.injEq] at h
    subst h
    simp [toAdaptApp, Adapt.App.uses, toVal_var, Adapt.Val.uses]
  | assert_ xs cond msg out =>
    simp only [aliasOperand, Option.some.injEq] at h
    subst h
    simp only [toAdaptApp]
    split <;> simp [Adapt.App.uses, toVal_var, Adapt.Val.uses, Adapt.Val.usesL] <;> omega
  | callInplace xs fn args kwargs deps out =>
    simp only [aliasOperand, Option.some.injEq] at h
    subst h
    simp [toAdaptApp, Adapt.App.uses, toVal_var, Adapt.Val.uses, Adapt.Val.usesL]
  | updateitem obj key value op out =>
    simp only [aliasOperand, Option.some.injEq] at h
    subst h
    simp [toAdaptApp, Adapt.App.uses, toVal_var, Adapt.Val.uses, Adapt.Val.usesL]
  | _ => simp [aliasOperand] at h

theorem toAdapt_app_fwd (g : Graph) (shapes : List (Nat × List Nat)) (constVals : List (Option Adapt.Val)) (ag : Adapt.Graph)
    (h : toAdapt g shapes constVals = some ag) (i : Nat) (a : App) (ha : g.apps[i]? = some a) :
    ag.apps[i]? = some (toAdaptApp ((constVals[i]?).getD none) a) := by
  unfold toAdapt at h
  split at h
  · split at h
    · simp only [Option.some.injEq] at h
      subst h
      simp [List.getElem?_map, List.getElem?_zipIdx, ha]
    · cases h
  · cases h

/-- **The tracking hypotheses for the user constant**: for a supported graph accepted by `adaptOK`, the only tracer that holds a
constant object is the tracer `c` of the user constant. -/
theorem track_const (g : Graph) (aux : List TAux) (shapes : List (Nat × List Nat)) (constVals : List (Option Adapt.Val))
    (ag : Adapt.Graph) (fg : Factory.Graph) (hwf : g.WF = true) (hsup : Supported g = true)
    (hag : toAdapt g shapes constVals = some ag) (hfg : toFactory g aux = some fg) (hfwf : Factory.wf fg = true)
    (k c i : Nat) (fn : Adapt.Val) (args : List Adapt.Val) (kws : List (String × Adapt.Val)) (out : Adapt.Val)
    (hconst : ag.apps.filter Adapt.isAnyConstant = [.constant (.obj k) c])
    (hi : ag.apps[i]? = some (.call fn args kws out)) (hpi : Adapt.isCallOf c (.call fn args kws out) = true)
    (huses : ag.uses c = 1) :
    Track g isConstAtom (fun y => y = c) (fun k' => g.top = .gref k') := by
  obtain ⟨S, k0, sg, htop, hsg, hins, hout⟩ := supported_setup g aux fg hwf hsup hfg
  obtain ⟨kc, hkc, _, hkuniq⟩ := filter_singleton_index Adapt.isAnyConstant _ ag.apps hconst
  obtain ⟨a0, ha0, hta0⟩ := toAdapt_app g shapes constVals ag hag kc _ hkc
  obtain ⟨str0, rfl⟩ := toAdaptApp_constant_inv _ a0 _ c hta0.symm
  have hfa0 := S.app kc _ ha0
  have hcout : c ∈ (toGApp (.constant str0 c)).out.refs := by simp [toGApp, App.out, refs_var]
  -- every constant node is that node
  have honly : ∀ (j : Nat) (str : String) (o : Nat), g.apps[j]? = some (.constant str o) → o = c := by
    intro j str o hj
    have := toAdapt_app_fwd g shapes constVals ag hag j _ hj
    have hjk := hkuniq j _ this (by simp [toAdaptApp, Adapt.isAnyConstant])
    subst hjk
    rw [ha0] at hj
    simp only [Option.some.injEq, App.constant.injEq] at hj
    exact hj.2.symm
  refine ⟨?_, ?_, ?_, ?_⟩
  · -- inputs
    intro k' sg' t hk' hsg' ht
    rw [isConstAtom_in]
    constructor
    · intro h; cases h
    · intro htc
      exfalso
      rw [htop] at hk'
      simp only [E.gref.injEq] at hk'
      subst hk'
      rw [hsg] at hsg'
      cases hsg'
      subst htc
      exact Factory.wf_input_not_out hfwf t (by rw [hins]; exact ht) kc _ hfa0 hcout
  · -- constants
    intro j str o hj n
    rw [isConstAtom_const]
    exact ⟨fun _ => honly j str o hj, fun _ => rfl⟩
  · -- aliases: `c` is used by the call only
    intro j a x hj hal hx
    exfalso
    subst hx
    have hja := toAdapt_app_fwd g shapes constVals ag hag j a hj
    have h1 := alias_uses ((constVals[j]?).getD none) a x hal
    have h2 : 1 ≤ (Adapt.App.call fn args kws out).uses x := by
      cases fn with
      | ref f =>
        simp only [Adapt.isCallOf, beq_iff_eq] at hpi
        subst hpi
        simp only [Adapt.App.uses, Adapt.Val.uses, beq_self_eq_true, if_true]
        omega
      | _ => simp [Adapt.isCallOf] at hpi
    have hne : j ≠ i := by
      intro hji
      subst hji
      rw [hja] at hi
      simp only [Option.some.injEq] at hi
      obtain ⟨fn', args', kwargs', deps', o, rfl, _⟩ := toAdaptApp_call_inv _ a fn args kws out hi
      simp [aliasOperand] at hal
    have := uses_ge_two ag x j i _ _ hne hja hi h1 h2
    omega
  · -- producers
    intro j a y hj hy hyc
    subst hyc
    have hvt := S.varOuts a (List.mem_of_getElem? hj)
    have hyo : y ∈ (toGApp a).out.refs := (varTree_regKeys_iff a.out hvt y).1 hy
    have hjk := Factory.wf_producer_unique hfwf j kc _ _ (S.app j a hj) hfa0 y hyo hcout
    subst hjk
    rw [ha0] at hj
    cases hj
    exact ⟨rfl, Or.inl rfl⟩

end Einx.Exec
