import EinxModel.Denote.Fun
import EinxModel.Proofs.Update
import EinxModel.Order.Rename
import EinxModel.Proofs.IR
/-! Helper lemmas for C08 (equivariance of the loop-notation denotation). -/
namespace Einx.Denote
open Einx Einx.IR
open Einx.Update (mapOpt mapOpt_eq_some_iff mapOpt_length mapOpt_getElem? mapOpt_congr)
open Einx.Order.Fresh (InjOn)

/-! ### plumbing: `mapM` in `Option` is `mapOpt` -/

theorem mapM_eq_mapOpt {α β : Type} (f : α → Option β) (l : List α) : l.mapM f = mapOpt f l := by
  induction l with
  | nil => simp [mapOpt]
  | cons a as ih =>
    simp only [List.mapM_cons, mapOpt, ih]
    cases f a <;> cases mapOpt f as <;> rfl

theorem position_eq (v : List Dim) (σ : Assign) : position v σ = mapOpt (Dim.pos σ) v :=
  mapM_eq_mapOpt _ _

theorem position_nil (σ : Assign) : position [] σ = some [] := by simp [position_eq, mapOpt]

theorem position_cons (d : Dim) (v : List Dim) (σ : Assign) :
    position (d :: v) σ = match d.pos σ, position v σ with
      | some p, some ps => some (p :: ps)
      | _, _ => none := by
  simp only [position_eq, mapOpt]
  cases d.pos σ <;> cases mapOpt (Dim.pos σ) v <;> rfl

theorem mapOpt_append {α β : Type} (f : α → Option β) (l1 l2 : List α) :
    mapOpt f (l1 ++ l2) = match mapOpt f l1, mapOpt f l2 with
      | some a, some b => some (a ++ b)
      | _, _ => none := by
  induction l1 with
  | nil => simp only [List.nil_append, mapOpt]; cases mapOpt f l2 <;> rfl
  | cons x xs ih =>
    simp only [List.cons_append, mapOpt, ih]
    cases f x <;> cases mapOpt f xs <;> cases mapOpt f l2 <;> rfl

theorem position_append (v1 v2 : List Dim) (σ : Assign) :
    position (v1 ++ v2) σ = match position v1 σ, position v2 σ with
      | some a, some b => some (a ++ b)
      | _, _ => none := by
  simp only [position_eq, mapOpt_append]
  cases mapOpt (Dim.pos σ) v1 <;> cases mapOpt (Dim.pos σ) v2 <;> rfl

theorem position_length {v : List Dim} {σ : Assign} {p : List Nat} (h : position v σ = some p) :
    p.length = v.length := by
  rw [position_eq] at h; exact mapOpt_length h

/-! ### sizes -/

theorem sizeProd_eq (ds : List Dim) : Dim.sizeProd ds = prod (ds.map Dim.size) := by
  induction ds with
  | nil => simp [Dim.sizeProd, prod]
  | cons d ds ih => simp [Dim.sizeProd, prod, ih]

theorem size_flat (ds : List Dim) : (Dim.flat ds).size = prod (viewShape ds) := by
  simp [Dim.size, sizeProd_eq, viewShape]

/-! ### a flattened group is the row-major ravel of its members -/

theorem posFlat_eq (σ : Assign) (ds : List Dim) (acc : Nat) :
    Dim.posFlat σ ds acc =
      (mapOpt (Dim.pos σ) ds).map (fun ps => acc * prod (ds.map Dim.size) + ravel (ds.map Dim.size) ps) := by
  induction ds generalizing acc with
  | nil => simp [Dim.posFlat, mapOpt, prod, ravel]
  | cons d ds ih =>
    simp only [Dim.posFlat, mapOpt]
    cases hd : d.pos σ with
    | none => simp
    | some p =>
      simp only [ih]
      cases mapOpt (Dim.pos σ) ds with
      | none => simp
      | some ps =>
        simp only [Option.map_some, List.map_cons, prod, ravel, Option.some.injEq]
        rw [Nat.add_mul, Nat.mul_assoc, Nat.add_assoc]

theorem pos_flat (σ : Assign) (ds : List Dim) :
    (Dim.flat ds).pos σ = (position ds σ).map (ravel (viewShape ds)) := by
  simp only [Dim.pos, posFlat_eq, position_eq, viewShape]
  cases mapOpt (Dim.pos σ) ds <;> simp

/-! ### renaming -/

theorem get_nil (n : String) : Assign.get [] n = none := rfl

theorem get_cons (p : String × Nat) (σ : Assign) (n : String) :
    Assign.get (p :: σ) n = if p.1 = n then some p.2 else Assign.get σ n := by
  simp only [Assign.get, List.find?_cons]
  by_cases h : p.1 = n
  · simp [h]
  · have : (p.1 == n) = false := by simpa using h
    simp [this, h]

theorem rename_cons (ρ : String → String) (p : String × Nat) (σ : Assign) :
    Assign.rename ρ (p :: σ) = (ρ p.1, p.2) :: Assign.rename ρ σ := rfl

theorem get_rename {ρ : String → String} (hρ : Function.Injective ρ) (σ : Assign) (n : String) :
    Assign.get (Assign.rename ρ σ) (ρ n) = Assign.get σ n := by
  induction σ with
  | nil => rfl
  | cons p σ ih =>
    rw [rename_cons, get_cons, get_cons, ih]
    by_cases h : p.1 = n
    · simp [h]
    · have : ρ p.1 ≠ ρ n := fun e => h (hρ e)
      simp [h, this]

mutual
theorem size_rename (ρ : String → String) : ∀ d : Dim, (d.rename ρ).size = d.size
  | .axis l => by simp [Dim.rename, Dim.size, Leaf.rename]
  | .flat ds => by simp only [Dim.rename, Dim.size]; exact sizeProd_rename ρ ds
  | .concat ds => by simp only [Dim.rename, Dim.size]; exact sizeSum_rename ρ ds
  | .off o d t => by simp [Dim.rename, Dim.size]
theorem sizeProd_rename (ρ : String → String) : ∀ ds : List Dim, Dim.sizeProd (Dim.renameL ρ ds) = Dim.sizeProd ds
  | [] => by simp [Dim.renameL]
  | d :: ds => by simp [Dim.renameL, Dim.sizeProd, size_rename ρ d, sizeProd_rename ρ ds]
theorem sizeSum_rename (ρ : String → String) : ∀ ds : List Dim, Dim.sizeSum (Dim.renameL ρ ds) = Dim.sizeSum ds
  | [] => by simp [Dim.renameL]
  | d :: ds => by simp [Dim.renameL, Dim.sizeSum, size_rename ρ d, sizeSum_rename ρ ds]
end

theorem renameL_eq_map (ρ : String → String) (ds : List Dim) : Dim.renameL ρ ds = ds.map (Dim.rename ρ) := by
  induction ds with
  | nil => simp [Dim.renameL]
  | cons d ds ih => simp [Dim.renameL, ih]

theorem viewShape_rename (ρ : String → String) (v : List Dim) : viewShape (Dim.renameL ρ v) = viewShape v := by
  simp [viewShape, renameL_eq_map, Function.comp_def, size_rename]

mutual
theorem pos_rename {ρ : String → String} (hρ : Function.Injective ρ) (σ : Assign) :
    ∀ d : Dim, (d.rename ρ).pos (Assign.rename ρ σ) = d.pos σ
  | .axis l => by simp [Dim.rename, Dim.pos, Leaf.rename, get_rename hρ]
  | .flat ds => by simp only [Dim.rename, Dim.pos]; exact posFlat_rename hρ σ ds 0
  | .concat ds => by simp [Dim.rename, Dim.pos]
  | .off o d t => by simp [Dim.rename, Dim.pos, pos_rename hρ σ d]
theorem posFlat_rename {ρ : String → String} (hρ : Function.Injective ρ) (σ : Assign) :
    ∀ (ds : List Dim) (acc : Nat),
      Dim.posFlat (Assign.rename ρ σ) (Dim.renameL ρ ds) acc = Dim.posFlat σ ds acc
  | [], acc => by simp [Dim.renameL, Dim.posFlat]
  | d :: ds, acc => by
    simp only [Dim.renameL, Dim.posFlat, pos_rename hρ σ d, size_rename]
    cases d.pos σ with
    | none => rfl
    | some p => exact posFlat_rename hρ σ ds _
end

theorem position_rename {ρ : String → String} (hρ : Function.Injective ρ) (v : List Dim) (σ : Assign) :
    position (Dim.renameL ρ v) (Assign.rename ρ σ) = position v σ := by
  simp only [position_eq, renameL_eq_map]
  induction v with
  | nil => rfl
  | cons d v ih => simp only [List.map_cons, mapOpt, pos_rename hρ, ih]

theorem flatPos_rename {ρ : String → String} (hρ : Function.Injective ρ) (v : List Dim) (s : List Nat) (σ : Assign) :
    flatPos (Dim.renameL ρ v) s (Assign.rename ρ σ) = flatPos v s σ := by
  simp [flatPos, position_rename hρ]

theorem cellAt_rename {ρ : String → String} (hρ : Function.Injective ρ) (v : List Dim) (s : List Nat) (i : Nat)
    (σ : Assign) : cellAt (Dim.renameL ρ v) s i (Assign.rename ρ σ) = cellAt v s i σ := by
  simp [cellAt, flatPos_rename hρ]

/-! ### renaming: leaves, axes, assignments, extension -/

mutual
theorem leaves_rename (ρ : String → String) : ∀ d : Dim, (d.rename ρ).leaves = d.leaves.map (Leaf.rename ρ)
  | .axis l => by simp [Dim.rename, Dim.leaves]
  | .flat ds => by simp only [Dim.rename, Dim.leaves]; exact leavesL_rename ρ ds
  | .concat ds => by simp [Dim.rename, Dim.leaves]
  | .off o d t => by simp only [Dim.rename, Dim.leaves]; exact leaves_rename ρ d
theorem leavesL_rename (ρ : String → String) :
    ∀ ds : List Dim, Dim.leavesL (Dim.renameL ρ ds) = (Dim.leavesL ds).map (Leaf.rename ρ)
  | [] => by simp [Dim.renameL, Dim.leavesL]
  | d :: ds => by simp [Dim.renameL, Dim.leavesL, leaves_rename ρ d, leavesL_rename ρ ds]
end

def renPair (ρ : String → String) (p : String × Nat) : String × Nat := (ρ p.1, p.2)

theorem rename_eq_map (ρ : String → String) (σ : Assign) : Assign.rename ρ σ = σ.map (renPair ρ) := rfl

def axesStep (acc : List (String × Nat)) (l : Leaf) : List (String × Nat) :=
  if acc.any (·.1 == l.name) then acc else acc ++ [(l.name, l.size)]

theorem axesOf_eq (ls : List Leaf) : axesOf ls = ls.foldl axesStep [] := rfl

theorem any_name_rename {ρ : String → String} (hρ : Function.Injective ρ) (acc : List (String × Nat)) (n : String) :
    (acc.map (renPair ρ)).any (·.1 == ρ n) = acc.any (·.1 == n) := by
  induction acc with
  | nil => rfl
  | cons p acc ih =>
    have e : (ρ p.1 == ρ n) = (p.1 == n) := by
      by_cases h : p.1 = n
      · subst h; simp
      · have h2 : ρ p.1 ≠ ρ n := fun e => h (hρ e)
        rw [beq_eq_false_iff_ne.mpr h, beq_eq_false_iff_ne.mpr h2]
    simp only [List.map_cons, List.any_cons, ih, renPair, e]

theorem axesFold_rename {ρ : String → String} (hρ : Function.Injective ρ) (ls : List Leaf) :
    ∀ acc : List (String × Nat),
      (ls.map (Leaf.rename ρ)).foldl axesStep (acc.map (renPair ρ)) = (ls.foldl axesStep acc).map (renPair ρ) := by
  induction ls with
  | nil => intro acc; rfl
  | cons l ls ih =>
    intro acc
    simp only [List.map_cons, List.foldl_cons]
    have : axesStep (acc.map (renPair ρ)) (Leaf.rename ρ l) = (axesStep acc l).map (renPair ρ) := by
      simp only [axesStep, Leaf.rename, any_name_rename hρ]
      split <;> simp [renPair]
    rw [this, ih]

theorem axesOf_rename {ρ : String → String} (hρ : Function.Injective ρ) (ls : List Leaf) :
    axesOf (ls.map (Leaf.rename ρ)) = (axesOf ls).map (renPair ρ) := by
  simpa [axesOf_eq] using axesFold_rename hρ ls []

theorem assignments_rename (ρ : String → String) (axes : List (String × Nat)) :
    assignments (axes.map (renPair ρ)) = (assignments axes).map (Assign.rename ρ) := by
  induction axes with
  | nil => rfl
  | cons a rest ih =>
    obtain ⟨n, s⟩ := a
    simp only [List.map_cons, renPair, assignments, ih, List.map_flatMap, List.map_map]
    rfl

theorem extend_nil (σ : Assign) : extend σ [] = some σ := rfl

theorem extend_cons (σ : Assign) (l : Leaf) (ls : List Leaf) :
    extend σ (l :: ls) = match Assign.get σ l.name with
      | some _ => extend σ ls
      | none => if l.size == 1 then extend (σ ++ [(l.name, 0)]) ls else none := by
  simp only [extend, List.foldlM_cons]
  cases Assign.get σ l.name with
  | some x => rfl
  | none =>
    by_cases h : (l.size == 1) = true
    · simp [h]
    · simp [h]

theorem extend_rename {ρ : String → String} (hρ : Function.Injective ρ) (ls : List Leaf) :
    ∀ σ : Assign, extend (Assign.rename ρ σ) (ls.map (Leaf.rename ρ)) = (extend σ ls).map (Assign.rename ρ) := by
  induction ls with
  | nil => intro σ; rfl
  | cons l ls ih =>
    intro σ
    rw [List.map_cons, extend_cons, extend_cons]
    have hg : Assign.get (Assign.rename ρ σ) (Leaf.rename ρ l).name = Assign.get σ l.name := by
      simp [Leaf.rename, get_rename hρ]
    rw [hg]
    cases Assign.get σ l.name with
    | some x => exact ih σ
    | none =>
      have hs : (Leaf.rename ρ l).size = l.size := rfl
      simp only [hs]
      by_cases h : (l.size == 1) = true
      · simp only [h, if_true]
        have : Assign.rename ρ σ ++ [((Leaf.rename ρ l).name, 0)] = Assign.rename ρ (σ ++ [(l.name, 0)]) := by
          simp [Assign.rename, Leaf.rename]
        rw [this]; exact ih _
      · simp [h]

/-! ### renaming: the whole denotation -/

theorem outAssignments_rename {ρ : String → String} (hρ : Function.Injective ρ) (vo : List Dim) :
    outAssignments (Dim.renameL ρ vo) = (outAssignments vo).map (Assign.rename ρ) := by
  simp only [outAssignments, leavesL_rename, axesOf_rename hρ, assignments_rename]

theorem mapOpt_map {α β γ : Type} (f : β → Option γ) (g : α → β) (l : List α) :
    mapOpt f (l.map g) = mapOpt (fun a => f (g a)) l := by
  induction l with
  | nil => rfl
  | cons a as ih => simp only [List.map_cons, mapOpt, ih]

theorem idEntry_rename {ρ : String → String} (hρ : Function.Injective ρ) (vi : List Dim) (si : List Nat) (i : Nat)
    (vo : List Dim) (so : List Nat) (σ : Assign) :
    idEntry (Dim.renameL ρ vi) si i (Dim.renameL ρ vo) so (Assign.rename ρ σ) = idEntry vi si i vo so σ := by
  simp only [idEntry, leavesL_rename, extend_rename hρ, flatPos_rename hρ]
  cases extend σ (Dim.leavesL vi) with
  | none => rfl
  | some σ' => simp only [Option.map_some, cellAt_rename hρ]

theorem idCells_rename {ρ : String → String} (hρ : Function.Injective ρ) (vi : List Dim) (si : List Nat) (i : Nat)
    (vo : List Dim) (so : List Nat) :
    idCells (Dim.renameL ρ vi) si i (Dim.renameL ρ vo) so = idCells vi si i vo so := by
  simp only [idCells, idEntries, outAssignments_rename hρ, mapOpt_map, idEntry_rename hρ]

theorem ewArgs_rename {ρ : String → String} (hρ : Function.Injective ρ) (ins : List (List Dim × List Nat)) (σ : Assign) :
    ewArgs (ins.map (fun p => (Dim.renameL ρ p.1, p.2))) (Assign.rename ρ σ) = ewArgs ins σ := by
  simp only [ewArgs]
  have hz : (ins.map (fun p => (Dim.renameL ρ p.1, p.2))).zipIdx
      = ins.zipIdx.map (fun q => ((Dim.renameL ρ q.1.1, q.1.2), q.2)) := by
    rw [List.zipIdx_map]
    simp [Prod.map]
  rw [hz, mapOpt_map]
  apply mapOpt_congr
  intro q _
  simp only [leavesL_rename, extend_rename hρ]
  cases extend σ (Dim.leavesL q.1.1) with
  | none => rfl
  | some σ' => simp only [Option.map_some, cellAt_rename hρ]

theorem ewCells_rename {ρ : String → String} (hρ : Function.Injective ρ) (f : String)
    (ins : List (List Dim × List Nat)) (vo : List Dim) (so : List Nat) :
    ewCells f (ins.map (fun p => (Dim.renameL ρ p.1, p.2))) (Dim.renameL ρ vo) so = ewCells f ins vo so := by
  simp only [ewCells, outAssignments_rename hρ, mapOpt_map, ewEntry, ewArgs_rename hρ, flatPos_rename hρ]
  rfl

/-! ### renaming: expression level -/

mutual
theorem dims_rename (ρ : String → String) : ∀ (m : Bool) (e : Expr), dims m (e.rename ρ) = Dim.renameL ρ (dims m e)
  | m, .axis n v => by simp [Expr.rename, dims, Dim.renameL, Dim.rename, Leaf.rename]
  | m, .list cs => by simp only [Expr.rename, dims]; exact dimsL_rename ρ m cs
  | m, .flat e => by simp [Expr.rename, dims, Dim.renameL, Dim.rename, dims_rename ρ m e]
  | m, .concat cs => by simp [Expr.rename, dims, Dim.renameL, Dim.rename, dimsL_rename ρ m cs]
  | m, .br e => by simp only [Expr.rename, dims]; exact dims_rename ρ true e
theorem dimsL_rename (ρ : String → String) :
    ∀ (m : Bool) (cs : List Expr), dimsL m (Expr.renameL ρ cs) = Dim.renameL ρ (dimsL m cs)
  | m, [] => by simp [Expr.renameL, dimsL, Dim.renameL]
  | m, c :: cs => by
    simp only [Expr.renameL, dimsL, dims_rename ρ m c, dimsL_rename ρ m cs, renameL_eq_map, List.map_append]
end

mutual
theorem concatFree_rename (ρ : String → String) : ∀ e : Expr, (e.rename ρ).concatFree = e.concatFree
  | .axis n v => by simp [Expr.rename, Expr.concatFree]
  | .list cs => by simp only [Expr.rename, Expr.concatFree]; exact concatFreeL_rename ρ cs
  | .flat e => by simp only [Expr.rename, Expr.concatFree]; exact concatFree_rename ρ e
  | .concat cs => by simp [Expr.rename, Expr.concatFree]
  | .br e => by simp only [Expr.rename, Expr.concatFree]; exact concatFree_rename ρ e
theorem concatFreeL_rename (ρ : String → String) :
    ∀ cs : List Expr, Expr.concatFreeL (Expr.renameL ρ cs) = Expr.concatFreeL cs
  | [] => by simp [Expr.renameL]
  | c :: cs => by simp [Expr.renameL, Expr.concatFreeL, concatFree_rename ρ c, concatFreeL_rename ρ cs]
end

theorem rootDims_rename (ρ : String → String) (e : Expr) : rootDims (e.rename ρ) = Dim.renameL ρ (rootDims e) :=
  dims_rename ρ false e

theorem shapeOf_rename (ρ : String → String) (e : Expr) : shapeOf (e.rename ρ) = shapeOf e := by
  have := viewShape_rename ρ (dims false e)
  simpa [shapeOf, viewShape, dims_rename] using this

theorem Expr.renameL_eq_map (ρ : String → String) (cs : List Expr) : Expr.renameL ρ cs = cs.map (Expr.rename ρ) := by
  induction cs with
  | nil => simp [Expr.renameL]
  | cons c cs ih => simp [Expr.renameL, ih]

theorem denoteIdFun1_rename {ρ : String → String} (hρ : Function.Injective ρ) (vi : List Dim) (si : List Nat) (i : Nat)
    (vo : List Dim) (so : List Nat) :
    denoteIdFun1 (Dim.renameL ρ vi) si i (Dim.renameL ρ vo) so = denoteIdFun1 vi si i vo so := by
  simp only [denoteIdFun1, idCells_rename hρ]

theorem denoteIdFun_rename {ρ : String → String} (hρ : Function.Injective ρ) (exprsIn exprsOut : List Expr) :
    denoteIdFun (Expr.renameL ρ exprsIn) (Expr.renameL ρ exprsOut) = denoteIdFun exprsIn exprsOut := by
  unfold denoteIdFun
  simp only [concatFreeL_rename]
  have hl1 : (Expr.renameL ρ exprsIn).length = exprsIn.length := by simp [Expr.renameL_eq_map]
  have hl2 : (Expr.renameL ρ exprsOut).length = exprsOut.length := by simp [Expr.renameL_eq_map]
  rw [hl1, hl2]
  have hz : List.zip (Expr.renameL ρ exprsIn).zipIdx (Expr.renameL ρ exprsOut)
      = (List.zip exprsIn.zipIdx exprsOut).map (fun p => ((p.1.1.rename ρ, p.1.2), p.2.rename ρ)) := by
    rw [Expr.renameL_eq_map, Expr.renameL_eq_map, List.zipIdx_map, List.zip_map]
    simp [Prod.map]
  rw [hz, List.mapM_map]
  simp only [Function.comp_def, rootDims_rename, shapeOf_rename, denoteIdFun1_rename hρ]

theorem denoteElementwiseFun_rename {ρ : String → String} (hρ : Function.Injective ρ) (f : String)
    (exprsIn : List Expr) (exprOut : Expr) :
    denoteElementwiseFun f (Expr.renameL ρ exprsIn) (exprOut.rename ρ) = denoteElementwiseFun f exprsIn exprOut := by
  unfold denoteElementwiseFun
  simp only [concatFreeL_rename, concatFree_rename, shapeOf_rename, rootDims_rename]
  have : (Expr.renameL ρ exprsIn).map (fun e => (rootDims e, shapeOf e))
      = (exprsIn.map (fun e => (rootDims e, shapeOf e))).map (fun p => (Dim.renameL ρ p.1, p.2)) := by
    simp [Expr.renameL_eq_map, List.map_map, Function.comp_def, rootDims_rename, shapeOf_rename]
  rw [this, ewCells_rename hρ]

/-! ### regrouping: parentheses are a reshape -/

theorem ravel_append_len (s1 : List Nat) : ∀ (i1 s2 i2 : List Nat), i1.length = s1.length →
    ravel (s1 ++ s2) (i1 ++ i2) = ravel s1 i1 * prod s2 + ravel s2 i2 := by
  induction s1 with
  | nil => intro i1 s2 i2 h; cases i1 with
    | nil => simp [ravel]
    | cons _ _ => simp at h
  | cons a s1 ih =>
    intro i1 s2 i2 h
    cases i1 with
    | nil => simp at h
    | cons j i1 =>
      simp only [List.cons_append, ravel, ih i1 s2 i2 (by simpa using h), prod_append, Nat.add_mul, Nat.mul_assoc,
        Nat.add_assoc]

/-- Flat-index form of "grouping adjacent dimensions is a reshape". -/
theorem ravel_regroup (sp pp sm pm sq pq : List Nat) (hp : pp.length = sp.length) (hm : pm.length = sm.length) :
    ravel (sp ++ [prod sm] ++ sq) (pp ++ [ravel sm pm] ++ pq) = ravel (sp ++ sm ++ sq) (pp ++ pm ++ pq) := by
  rw [List.append_assoc, List.append_assoc, List.append_assoc, List.append_assoc,
    ravel_append_len sp pp _ _ hp, ravel_append_len sp pp _ _ hp, ravel_append_len sm pm _ _ hm,
    ravel_append_len [prod sm] [ravel sm pm] _ _ rfl, prod_append, prod_append]
  simp [ravel, prod]

theorem viewShape_append (v1 v2 : List Dim) : viewShape (v1 ++ v2) = viewShape v1 ++ viewShape v2 := by
  simp [viewShape]

theorem position_flat_singleton (mid : List Dim) (σ : Assign) :
    position [Dim.flat mid] σ = (position mid σ).map (fun pm => [ravel (viewShape mid) pm]) := by
  rw [position_cons, position_nil, pos_flat]
  cases position mid σ <;> rfl

theorem viewShape_position_length {v : List Dim} {σ : Assign} {p : List Nat} (h : position v σ = some p) :
    p.length = (viewShape v).length := by
  simp [viewShape, position_length h]

theorem flatPos_regroup (pre mid post : List Dim) (σ : Assign) :
    flatPos (pre ++ [Dim.flat mid] ++ post) (viewShape (pre ++ [Dim.flat mid] ++ post)) σ
      = flatPos (pre ++ mid ++ post) (viewShape (pre ++ mid ++ post)) σ := by
  simp only [flatPos, position_append, viewShape_append, position_flat_singleton]
  cases hp : position pre σ with
  | none => rfl
  | some pp =>
    cases hm : position mid σ with
    | none => rfl
    | some pm =>
      cases hq : position post σ with
      | none => rfl
      | some pq =>
        simp only [Option.map_some]
        have : viewShape [Dim.flat mid] = [prod (viewShape mid)] := by simp [viewShape, size_flat]
        rw [this, ravel_regroup _ _ _ _ _ _ (viewShape_position_length hp) (viewShape_position_length hm)]

/-! ### permutation of root dimensions and numpy's transpose -/

theorem permuteL_eq_map {α : Type} (d : α) (perm : List Nat) (l : List α) (h : ∀ a ∈ perm, a < l.length) :
    permuteL perm l = some (perm.map (fun a => l.getD a d)) := by
  unfold permuteL
  rw [mapOpt_eq_some_iff]
  simp only [List.map_map]
  apply List.map_congr_left
  intro a ha
  have := h a ha
  simp [List.getD, List.getElem?_eq_getElem this]

theorem valid_getD {s p : List Nat} (hv : Valid s p) : ∀ a, a < s.length → p.getD a 0 < s.getD a 0 := by
  induction hv with
  | nil => intro a h; simp at h
  | @cons s0 i ss is hi _ ih =>
    intro a h
    cases a with
    | zero => simpa using hi
    | succ a => simpa using ih a (by simpa using h)

theorem valid_permute {s p : List Nat} (hv : Valid s p) (perm : List Nat) (h : ∀ a ∈ perm, a < s.length) :
    Valid (perm.map (fun a => s.getD a 0)) (perm.map (fun a => p.getD a 0)) := by
  induction perm with
  | nil => exact Valid.nil
  | cons a perm ih =>
    exact Valid.cons (valid_getD hv a (h a (List.mem_cons_self ..)))
      (ih (fun b hb => h b (List.mem_cons_of_mem _ hb)))

theorem isPermOf_spec {perm : List Nat} {n : Nat} (h : isPermOf perm n = true) :
    isPerm perm n = true ∧ perm.length = n ∧ (∀ a, a < n → a ∈ perm) ∧ (∀ a ∈ perm, a < n) := by
  simp only [isPermOf, isPerm, Bool.and_eq_true, beq_iff_eq, List.all_eq_true, List.mem_range,
    List.contains_iff_mem, decide_eq_true_eq] at h
  refine ⟨?_, h.1.1, h.1.2, h.2⟩
  simp only [isPerm, Bool.and_eq_true, beq_iff_eq, List.all_eq_true, List.mem_range, List.contains_iff_mem]
  exact h.1

/-- Inverse gather: reading the permuted index back through `perm.idxOf` gives the original index. -/
theorem unpermute (perm p : List Nat) (n : Nat) (hlen : p.length = n) (hall : ∀ a, a < n → a ∈ perm) :
    (List.range n).map (fun a => (perm.map (fun b => p.getD b 0)).getD (perm.idxOf a) 0) = p := by
  apply List.ext_getElem
  · simp [hlen]
  · intro a h1 h2
    simp only [List.length_map, List.length_range] at h1
    have hmem := hall a h1
    have hlt : perm.idxOf a < perm.length := List.idxOf_lt_length_of_mem hmem
    simp only [List.getElem_map, List.getElem_range, List.getD_eq_getElem?_getD, List.getElem?_map,
      List.getElem?_eq_getElem hlt, Option.map_some, Option.getD_some, List.getElem_idxOf hlt,
      List.getElem?_eq_getElem h2]

theorem tabulate_getElem? (s : List Nat) (f : List Nat → Cell) (o : List Nat) (hv : Valid s o) :
    (tabulate s f).cells[ravel s o]? = some (f o) := by
  simp only [tabulate, List.getElem?_map, List.getElem?_range (ravel_lt hv), Option.map_some, unravel_ravel hv]

/-- **numpy's transpose, read at a permuted index.**  The transposed register holds, at the flat position
of the permuted multi-index, the element of the source at the flat position of the original multi-index. -/
theorem transpose_plan_reads (shapes : List (List Nat)) (x : Nat) (sx p perm : List Nat)
    (hx : shapes[x]? = some sx) (hperm : isPermOf perm sx.length = true) (hv : Valid sx p) :
    ∃ plan, planInstr shapes (.transpose x perm) = .ok plan ∧
      permuteL perm sx = some plan.shape ∧
      ∃ p', permuteL perm p = some p' ∧ Valid plan.shape p' ∧
        plan.cells[ravel plan.shape p']? = some (.src x (ravel sx p)) := by
  obtain ⟨hisp, hlen, hall, hlt⟩ := isPermOf_spec hperm
  have hpl : p.length = sx.length := valid_length hv
  refine ⟨tabulate (perm.map (fun a => sx.getD a 0)) (fun o =>
      Cell.src x (ravel sx ((List.range sx.length).map (fun a => o.getD (perm.idxOf a) 0)))),
    ?_, ?_, perm.map (fun a => p.getD a 0), ?_, ?_, ?_⟩
  · simp only [planInstr, getShape, hx, hisp, bind, Except.bind, pure, Except.pure, Bool.not_true]
    rfl
  · exact permuteL_eq_map 0 perm sx hlt
  · exact permuteL_eq_map 0 perm p (by rw [hpl]; exact hlt)
  · exact valid_permute hv perm hlt
  · simp only [tabulate]
    have hv' := valid_permute hv perm hlt
    have := tabulate_getElem? (perm.map (fun a => sx.getD a 0))
      (fun o => Cell.src x (ravel sx ((List.range sx.length).map (fun a => o.getD (perm.idxOf a) 0)))) _ hv'
    simp only [tabulate] at this
    rw [this, unpermute perm p sx.length hpl hall]

theorem mapOpt_permute {α β : Type} (f : α → Option β) (l : List α) (r : List β) (h : mapOpt f l = some r) :
    ∀ (perm : List Nat) (l' : List α), permuteL perm l = some l' → mapOpt f l' = permuteL perm r := by
  intro perm
  induction perm with
  | nil => intro l' hl; simp only [permuteL, mapOpt, Option.some.injEq] at hl; subst hl; rfl
  | cons a perm ih =>
    intro l' hl
    simp only [permuteL, mapOpt] at hl ⊢
    cases ha : l[a]? with
    | none => simp [ha] at hl
    | some y =>
      cases hr : mapOpt (fun a => l[a]?) perm with
      | none => simp [ha, hr] at hl
      | some ys =>
        simp only [ha, hr, Option.some.injEq] at hl
        subst hl
        have h1 : f y = r[a]? := mapOpt_getElem? h a y ha
        have h2 := ih ys hr
        simp only [permuteL] at h2
        simp only [mapOpt, h1, h2]

theorem position_permute {v v' : List Dim} {σ : Assign} {p perm : List Nat} (hp : position v σ = some p)
    (hv' : permuteL perm v = some v') : position v' σ = permuteL perm p := by
  rw [position_eq] at hp ⊢
  exact mapOpt_permute _ _ _ hp perm v' hv'

theorem viewShape_permute {v v' : List Dim} {perm : List Nat} (hv' : permuteL perm v = some v') :
    permuteL perm (viewShape v) = some (viewShape v') := by
  have h : mapOpt (fun d => some (Dim.size d)) v = some (viewShape v) := by
    rw [mapOpt_eq_some_iff]; simp [viewShape]
  have h' : mapOpt (fun d => some (Dim.size d)) v' = some (viewShape v') := by
    rw [mapOpt_eq_some_iff]; simp [viewShape]
  rw [← mapOpt_permute _ _ _ h perm v' hv', h']

/-! ### positions depend on the assignment only through the leaves; they are in range; they determine the leaves -/

/-- `σ` assigns to every listed leaf a value below its size. -/
def BoundedOn (σ : Assign) (ls : List Leaf) : Prop := ∀ l ∈ ls, ∃ x, Assign.get σ l.name = some x ∧ x < l.size

/-- `σ` and `τ` agree on the names of the listed leaves. -/
def AgreeOn (σ τ : Assign) (ls : List Leaf) : Prop := ∀ l ∈ ls, Assign.get σ l.name = Assign.get τ l.name

/-- Executable version of `BoundedOn`. -/
def boundedB (σ : Assign) (ls : List Leaf) : Bool :=
  ls.all (fun l => match Assign.get σ l.name with | some x => decide (x < l.size) | none => false)

theorem boundedB_spec {σ : Assign} {ls : List Leaf} (h : boundedB σ ls = true) : BoundedOn σ ls := by
  intro l hl
  simp only [boundedB, List.all_eq_true] at h
  have := h l hl
  cases hg : Assign.get σ l.name with
  | none => simp [hg] at this
  | some x => exact ⟨x, rfl, by simpa [hg] using this⟩

theorem BoundedOn.append {σ : Assign} {a b : List Leaf} (h : BoundedOn σ (a ++ b)) : BoundedOn σ a ∧ BoundedOn σ b :=
  ⟨fun l hl => h l (List.mem_append_left _ hl), fun l hl => h l (List.mem_append_right _ hl)⟩

theorem AgreeOn.append {σ τ : Assign} {a b : List Leaf} (h : AgreeOn σ τ (a ++ b)) : AgreeOn σ τ a ∧ AgreeOn σ τ b :=
  ⟨fun l hl => h l (List.mem_append_left _ hl), fun l hl => h l (List.mem_append_right _ hl)⟩

mutual
theorem pos_congr {σ τ : Assign} : ∀ d : Dim, AgreeOn σ τ d.leaves → d.pos σ = d.pos τ
  | .axis l, h => by simpa [Dim.pos] using h l (by simp [Dim.leaves])
  | .flat ds, h => by
    rw [pos_flat, pos_flat, position_eq, position_eq, mapOpt_pos_congr ds (by simpa [Dim.leaves] using h)]
  | .concat ds, _ => by simp [Dim.pos]
  | .off o d t, h => by simp only [Dim.pos]; rw [pos_congr d (by simpa [Dim.leaves] using h)]
theorem mapOpt_pos_congr {σ τ : Assign} :
    ∀ ds : List Dim, AgreeOn σ τ (Dim.leavesL ds) → mapOpt (Dim.pos σ) ds = mapOpt (Dim.pos τ) ds
  | [], _ => rfl
  | d :: ds, h => by
    simp only [Dim.leavesL] at h
    simp only [mapOpt, pos_congr d h.append.1, mapOpt_pos_congr ds h.append.2]
end

theorem position_congr {σ τ : Assign} (v : List Dim) (h : AgreeOn σ τ (Dim.leavesL v)) :
    position v σ = position v τ := by
  rw [position_eq, position_eq, mapOpt_pos_congr v h]

mutual
theorem pos_lt {σ : Assign} : ∀ d : Dim, d.concatFree = true → BoundedOn σ d.leaves →
    ∃ p, d.pos σ = some p ∧ p < d.size
  | .axis l, _, h => by
    obtain ⟨x, hx, hlt⟩ := h l (by simp [Dim.leaves])
    exact ⟨x, by simpa [Dim.pos] using hx, by simpa [Dim.size] using hlt⟩
  | .flat ds, hc, h => by
    obtain ⟨ps, hps, hv⟩ := mapOpt_pos_valid ds (by simpa [Dim.concatFree] using hc) (by simpa [Dim.leaves] using h)
    refine ⟨ravel (viewShape ds) ps, ?_, ?_⟩
    · rw [pos_flat, position_eq, hps]; rfl
    · rw [size_flat]; exact ravel_lt hv
  | .concat _, hc, _ => by simp [Dim.concatFree] at hc
  | .off _ _ _, hc, _ => by simp [Dim.concatFree] at hc
theorem mapOpt_pos_valid {σ : Assign} : ∀ ds : List Dim, Dim.concatFreeL ds = true → BoundedOn σ (Dim.leavesL ds) →
    ∃ ps, mapOpt (Dim.pos σ) ds = some ps ∧ Valid (viewShape ds) ps
  | [], _, _ => ⟨[], rfl, Valid.nil⟩
  | d :: ds, hc, h => by
    simp only [Dim.concatFreeL, Bool.and_eq_true] at hc
    simp only [Dim.leavesL] at h
    obtain ⟨p, hp, hlt⟩ := pos_lt d hc.1 h.append.1
    obtain ⟨ps, hps, hv⟩ := mapOpt_pos_valid ds hc.2 h.append.2
    exact ⟨p :: ps, by simp [mapOpt, hp, hps], Valid.cons hlt hv⟩
end

/-- The position of a concatenation-free view under an in-range assignment is a valid multi-index. -/
theorem position_valid {σ : Assign} (v : List Dim) (hc : Dim.concatFreeL v = true) (h : BoundedOn σ (Dim.leavesL v)) :
    ∃ p, position v σ = some p ∧ Valid (viewShape v) p := by
  rw [position_eq]; exact mapOpt_pos_valid v hc h

mutual
theorem pos_inj {σ τ : Assign} : ∀ d : Dim, d.concatFree = true → BoundedOn σ d.leaves → BoundedOn τ d.leaves →
    d.pos σ = d.pos τ → AgreeOn σ τ d.leaves
  | .axis l, _, hs, ht, he => by
    intro l' hl'
    simp only [Dim.leaves, List.mem_singleton] at hl'
    subst hl'
    simpa [Dim.pos] using he
  | .flat ds, hc, hs, ht, he => by
    have hc' : Dim.concatFreeL ds = true := by simpa [Dim.concatFree] using hc
    have hs' : BoundedOn σ (Dim.leavesL ds) := by simpa [Dim.leaves] using hs
    have ht' : BoundedOn τ (Dim.leavesL ds) := by simpa [Dim.leaves] using ht
    obtain ⟨ps, hps, hvs⟩ := mapOpt_pos_valid ds hc' hs'
    obtain ⟨qs, hqs, hvt⟩ := mapOpt_pos_valid ds hc' ht'
    rw [pos_flat, pos_flat, position_eq, position_eq, hps, hqs] at he
    simp only [Option.map_some, Option.some.injEq] at he
    have : ps = qs := by
      have := congrArg (unravel (viewShape ds)) he
      rwa [unravel_ravel hvs, unravel_ravel hvt] at this
    have := mapOpt_pos_inj ds hc' hs' ht' (by rw [hps, hqs, this])
    simpa [Dim.leaves] using this
  | .concat _, hc, _, _, _ => by simp [Dim.concatFree] at hc
  | .off _ _ _, hc, _, _, _ => by simp [Dim.concatFree] at hc
theorem mapOpt_pos_inj {σ τ : Assign} : ∀ ds : List Dim, Dim.concatFreeL ds = true →
    BoundedOn σ (Dim.leavesL ds) → BoundedOn τ (Dim.leavesL ds) →
    mapOpt (Dim.pos σ) ds = mapOpt (Dim.pos τ) ds → AgreeOn σ τ (Dim.leavesL ds)
  | [], _, _, _, _ => by intro l hl; simp [Dim.leavesL] at hl
  | d :: ds, hc, hs, ht, he => by
    simp only [Dim.concatFreeL, Bool.and_eq_true] at hc
    simp only [Dim.leavesL] at hs ht ⊢
    obtain ⟨p, hp, _⟩ := pos_lt d hc.1 hs.append.1
    obtain ⟨q, hq, _⟩ := pos_lt d hc.1 ht.append.1
    obtain ⟨ps, hps, _⟩ := mapOpt_pos_valid ds hc.2 hs.append.2
    obtain ⟨qs, hqs, _⟩ := mapOpt_pos_valid ds hc.2 ht.append.2
    simp only [mapOpt, hp, hq, hps, hqs, Option.some.injEq, List.cons.injEq] at he
    have h1 := pos_inj d hc.1 hs.append.1 ht.append.1 (by rw [hp, hq, he.1])
    have h2 := mapOpt_pos_inj ds hc.2 hs.append.2 ht.append.2 (by rw [hps, hqs, he.2])
    intro l hl
    rcases List.mem_append.mp hl with hl | hl
    · exact h1 l hl
    · exact h2 l hl
end

/-- The flat position addressed through a concatenation-free view determines the values of its leaves. -/
theorem flatPos_inj {σ τ : Assign} (v : List Dim) (hc : Dim.concatFreeL v = true)
    (hs : BoundedOn σ (Dim.leavesL v)) (ht : BoundedOn τ (Dim.leavesL v))
    (he : flatPos v (viewShape v) σ = flatPos v (viewShape v) τ) : AgreeOn σ τ (Dim.leavesL v) := by
  obtain ⟨p, hp, hvp⟩ := position_valid v hc hs
  obtain ⟨q, hq, hvq⟩ := position_valid v hc ht
  simp only [flatPos, hp, hq, Option.map_some, Option.some.injEq] at he
  have : p = q := by
    have := congrArg (unravel (viewShape v)) he
    rwa [unravel_ravel hvp, unravel_ravel hvq] at this
  apply mapOpt_pos_inj v hc hs ht
  rw [← position_eq, ← position_eq, hp, hq, this]

/-! ### the iteration space: assignments of the output axes are in range -/

/-- Same name ⇒ same size (what a solved expression guarantees). -/
def Consistent (ls : List Leaf) : Prop := ∀ l ∈ ls, ∀ l' ∈ ls, l.name = l'.name → l.size = l'.size

def consistentB (ls : List Leaf) : Bool := ls.all (fun l => ls.all (fun l' => l.name != l'.name || l.size == l'.size))

theorem consistentB_spec {ls : List Leaf} (h : consistentB ls = true) : Consistent ls := by
  intro l hl l' hl' hn
  simp only [consistentB, List.all_eq_true, Bool.or_eq_true, bne_iff_ne, ne_eq, beq_iff_eq] at h
  rcases h l hl l' hl' with h | h
  · exact absurd hn h
  · exact h

/-- Every leaf of `a` occurs (name and size) among the leaves of `b`. -/
def LeavesSub (a b : List Leaf) : Prop := ∀ l ∈ a, ∃ l' ∈ b, l'.name = l.name ∧ l'.size = l.size

def leavesSubB (a b : List Leaf) : Bool := a.all (fun l => b.any (fun l' => l'.name == l.name && l'.size == l.size))

theorem leavesSubB_spec {a b : List Leaf} (h : leavesSubB a b = true) : LeavesSub a b := by
  intro l hl
  simp only [leavesSubB, List.all_eq_true, List.any_eq_true, Bool.and_eq_true, beq_iff_eq] at h
  exact h l hl

theorem LeavesSub.trans {a b c : List Leaf} (h1 : LeavesSub a b) (h2 : LeavesSub b c) : LeavesSub a c := by
  intro l hl
  obtain ⟨l', hl', hn, hs⟩ := h1 l hl
  obtain ⟨l'', hl'', hn', hs'⟩ := h2 l' hl'
  exact ⟨l'', hl'', by rw [hn', hn], by rw [hs', hs]⟩

theorem BoundedOn.sub {σ : Assign} {a b : List Leaf} (h : BoundedOn σ b) (hs : LeavesSub a b) : BoundedOn σ a := by
  intro l hl
  obtain ⟨l', hl', hn, hsz⟩ := hs l hl
  obtain ⟨x, hx, hlt⟩ := h l' hl'
  exact ⟨x, by rw [← hn]; exact hx, by rw [← hsz]; exact hlt⟩

theorem AgreeOn.sub {σ τ : Assign} {a b : List Leaf} (h : AgreeOn σ τ b) (hs : LeavesSub a b) : AgreeOn σ τ a := by
  intro l hl
  obtain ⟨l', hl', hn, _⟩ := hs l hl
  rw [← hn]; exact h l' hl'

theorem AgreeOn.symm {σ τ : Assign} {a : List Leaf} (h : AgreeOn σ τ a) : AgreeOn τ σ a :=
  fun l hl => (h l hl).symm

theorem axesFold_mem (ls : List Leaf) : ∀ acc : List (String × Nat),
    (∀ q ∈ acc, q ∈ ls.foldl axesStep acc) ∧
    (∀ l ∈ ls, ∃ s, (l.name, s) ∈ ls.foldl axesStep acc) ∧
    (∀ q ∈ ls.foldl axesStep acc, q ∈ acc ∨ ∃ l ∈ ls, l.name = q.1 ∧ l.size = q.2) := by
  induction ls with
  | nil => intro acc; exact ⟨fun q h => h, fun l h => by simp at h, fun q h => Or.inl h⟩
  | cons l ls ih =>
    intro acc
    obtain ⟨i1, i2, i3⟩ := ih (axesStep acc l)
    have hsub : ∀ q ∈ acc, q ∈ axesStep acc l := by
      intro q hq; unfold axesStep; split
      · exact hq
      · exact List.mem_append_left _ hq
    have hl : ∃ s, (l.name, s) ∈ axesStep acc l := by
      unfold axesStep; split
      · rename_i h
        simp only [List.any_eq_true, beq_iff_eq] at h
        obtain ⟨q, hq, hn⟩ := h
        exact ⟨q.2, by rw [← hn]; exact hq⟩
      · exact ⟨l.size, by simp⟩
    refine ⟨fun q hq => i1 q (hsub q hq), ?_, ?_⟩
    · intro l' hl'
      rcases List.mem_cons.mp hl' with rfl | h
      · obtain ⟨s, hs⟩ := hl; exact ⟨s, i1 _ hs⟩
      · exact i2 l' h
    · intro q hq
      rcases i3 q hq with h | ⟨l', hl', hn, hs⟩
      · unfold axesStep at h; split at h
        · exact Or.inl h
        · rcases List.mem_append.mp h with h | h
          · exact Or.inl h
          · simp only [List.mem_singleton] at h
            exact Or.inr ⟨l, List.mem_cons_self .., by rw [h], by rw [h]⟩
      · exact Or.inr ⟨l', List.mem_cons_of_mem _ hl', hn, hs⟩

theorem assignments_bounded : ∀ (axes : List (String × Nat)) (σ : Assign), σ ∈ assignments axes →
    ∀ q ∈ axes, ∃ x s', Assign.get σ q.1 = some x ∧ (q.1, s') ∈ axes ∧ x < s' := by
  intro axes
  induction axes with
  | nil => intro σ _ q hq; simp at hq
  | cons a rest ih =>
    obtain ⟨n0, s0⟩ := a
    intro σ hσ q hq
    simp only [assignments, List.mem_flatMap, List.mem_range, List.mem_map] at hσ
    obtain ⟨i, hi, σ', hσ', rfl⟩ := hσ
    rw [get_cons]
    by_cases hn : n0 = q.1
    · exact ⟨i, s0, by simp [hn], by rw [← hn]; exact List.mem_cons_self .., hi⟩
    · have hq' : q ∈ rest := by
        rcases List.mem_cons.mp hq with h | h
        · exact absurd (by rw [h]) hn
        · exact h
      obtain ⟨x, s', hx, hm, hlt⟩ := ih σ' hσ' q hq'
      exact ⟨x, s', by simp [hn, hx], List.mem_cons_of_mem _ hm, hlt⟩

/-- Every assignment of the iteration space of a view is in range on all leaves of the view. -/
theorem outAssignments_bounded {vo : List Dim} (hcons : Consistent (Dim.leavesL vo)) {σ : Assign}
    (hσ : σ ∈ outAssignments vo) : BoundedOn σ (Dim.leavesL vo) := by
  intro l hl
  obtain ⟨_, h2, h3⟩ := axesFold_mem (Dim.leavesL vo) []
  obtain ⟨s, hs⟩ := h2 l hl
  obtain ⟨x, s', hx, hm, hlt⟩ := assignments_bounded _ σ hσ _ hs
  rcases h3 _ hm with h | ⟨l', hl', hn, hsz⟩
  · simp at h
  · refine ⟨x, hx, ?_⟩
    have := hcons l hl l' hl' hn.symm
    simp only at hsz
    rw [this, hsz]; exact hlt

theorem extend_of_bounded {σ : Assign} : ∀ ls : List Leaf, BoundedOn σ ls → extend σ ls = some σ := by
  intro ls
  induction ls with
  | nil => intro _; rfl
  | cons l ls ih =>
    intro h
    obtain ⟨x, hx, _⟩ := h l (List.mem_cons_self ..)
    rw [extend_cons, hx]
    exact ih (fun l' hl' => h l' (List.mem_cons_of_mem _ hl'))

/-! ### scatter -/

theorem scatterFold_length (entries : List (Nat × Cell)) : ∀ init : List (Option Cell),
    (entries.foldl (fun acc e => acc.set e.1 (some e.2)) init).length = init.length := by
  induction entries with
  | nil => intro init; rfl
  | cons e es ih => intro init; simp only [List.foldl_cons, ih, List.length_set]

theorem scatterFold_getElem (entries : List (Nat × Cell)) : ∀ (init : List (Option Cell)) (k : Nat) (c : Cell),
    (entries.foldl (fun acc e => acc.set e.1 (some e.2)) init)[k]? = some (some c) →
      init[k]? = some (some c) ∨ ∃ e ∈ entries, e.1 = k ∧ e.2 = c := by
  induction entries with
  | nil => intro init k c h; exact Or.inl h
  | cons e es ih =>
    intro init k c h
    simp only [List.foldl_cons] at h
    rcases ih _ k c h with h' | ⟨e', he', h1, h2⟩
    · rw [List.getElem?_set] at h'
      by_cases hek : e.1 = k
      · simp only [hek, if_true] at h'
        split at h'
        · simp only [Option.some.injEq] at h'
          exact Or.inr ⟨e, List.mem_cons_self .., hek, h'⟩
        · simp at h'
      · simp only [hek, if_false] at h'
        exact Or.inl h'
    · exact Or.inr ⟨e', List.mem_cons_of_mem _ he', h1, h2⟩

/-- A fully defined scattered output: its length, and every cell was written by some entry. -/
theorem gatherAll_spec {n : Nat} {entries : List (Nat × Cell)} {cs : List Cell} (h : gatherAll n entries = some cs) :
    cs.length = n ∧ ∀ k, k < n → ∃ e ∈ entries, e.1 = k ∧ cs[k]? = some e.2 := by
  unfold gatherAll at h
  have hlen : cs.length = n := by
    rw [mapOpt_length h, scatter, scatterFold_length, List.length_replicate]
  refine ⟨hlen, ?_⟩
  intro k hk
  have hk' : k < cs.length := by omega
  have hsc : (scatter n entries)[k]? = some (some cs[k]) := by
    have := congrArg (fun l => l[k]?) ((mapOpt_eq_some_iff _ _ _).mp h)
    simpa [List.getElem?_eq_getElem hk'] using this
  rcases scatterFold_getElem entries _ k cs[k] hsc with h0 | ⟨e, he, h1, h2⟩
  · simp [hk] at h0
  · exact ⟨e, he, h1, by rw [h2, List.getElem?_eq_getElem hk']⟩

theorem mapOpt_mem {α β : Type} {f : α → Option β} {l : List α} {r : List β} (h : mapOpt f l = some r) {b : β}
    (hb : b ∈ r) : ∃ a ∈ l, f a = some b := by
  have hm := (mapOpt_eq_some_iff _ _ _).mp h
  have : some b ∈ l.map f := by rw [hm]; exact List.mem_map_of_mem hb
  obtain ⟨a, ha, hfa⟩ := List.mem_map.mp this
  exact ⟨a, ha, hfa⟩

/-- Characterisation of a successful `id` denotation: every output cell is the input cell of some assignment
of the iteration space that addresses this output position. -/
theorem idCells_spec {vi : List Dim} {si : List Nat} {i : Nat} {vo : List Dim} {so : List Nat} {cs : List Cell}
    (h : idCells vi si i vo so = some cs) :
    cs.length = prod so ∧ ∀ k, k < prod so → ∃ σ ∈ outAssignments vo, ∃ σ', extend σ (Dim.leavesL vi) = some σ' ∧
      flatPos vo so σ = some k ∧ cellAt vi si i σ' = cs[k]? := by
  unfold idCells at h
  cases he : idEntries vi si i vo so with
  | none => simp [he] at h
  | some es =>
    simp only [he] at h
    obtain ⟨hlen, hall⟩ := gatherAll_spec h
    refine ⟨hlen, ?_⟩
    intro k hk
    obtain ⟨e, hmem, hk1, hc⟩ := hall k hk
    obtain ⟨σ, hσ, hent⟩ := mapOpt_mem he hmem
    refine ⟨σ, hσ, ?_⟩
    unfold idEntry at hent
    cases hx : extend σ (Dim.leavesL vi) with
    | none => simp [hx] at hent
    | some σ' =>
      simp only [hx] at hent
      cases hp : flatPos vo so σ with
      | none => simp [hp] at hent
      | some po =>
        cases hcell : cellAt vi si i σ' with
        | none => simp [hp, hcell] at hent
        | some c =>
          simp only [hp, hcell, Option.some.injEq] at hent
          subst hent
          exact ⟨σ', rfl, by simpa using hk1, by rw [hcell]; simpa using hc.symm⟩

/-! ### composition of rearrangements -/

theorem subst_src (T : Tensor Cell) (k : Nat) : subst [T] (.src 0 k) = (T.data[k]?).getD .bad := by
  simp [subst, evalCell, readReg, symAlg]

theorem cellAt_congr {σ τ : Assign} (v : List Dim) (s : List Nat) (i : Nat) (h : AgreeOn σ τ (Dim.leavesL v)) :
    cellAt v s i σ = cellAt v s i τ := by
  simp only [cellAt, flatPos, position_congr v h]

/-- The heart of `id_inverse` / `id_compose`: the cell at output position `k` of `e2→e3` after substituting the
result of `e1→e2` is the cell that `e1` reads under an assignment that addresses position `k` of `e3`. -/
theorem compose_point {v1 v2 v3 : List Dim} {s1 : List Nat} {i : Nat} {c12 c23 : List Cell}
    (hc2 : Dim.concatFreeL v2 = true) (hk2 : Consistent (Dim.leavesL v2)) (hk3 : Consistent (Dim.leavesL v3))
    (s12 : LeavesSub (Dim.leavesL v1) (Dim.leavesL v2)) (s23 : LeavesSub (Dim.leavesL v2) (Dim.leavesL v3))
    (h12 : idCells v1 s1 i v2 (viewShape v2) = some c12)
    (h23 : idCells v2 (viewShape v2) 0 v3 (viewShape v3) = some c23) :
    ∀ k, k < prod (viewShape v3) → ∃ τ, BoundedOn τ (Dim.leavesL v3) ∧ flatPos v3 (viewShape v3) τ = some k ∧
      ∃ c, cellAt v1 s1 i τ = some c ∧ (c23.map (subst [⟨viewShape v2, c12⟩]))[k]? = some c := by
  intro k hk
  obtain ⟨hlen23, hall23⟩ := idCells_spec h23
  obtain ⟨hlen12, hall12⟩ := idCells_spec h12
  obtain ⟨τ, hτ, τ2, hext, hpos3, hcell23⟩ := hall23 k hk
  have hb3 : BoundedOn τ (Dim.leavesL v3) := outAssignments_bounded hk3 hτ
  have hb2 : BoundedOn τ (Dim.leavesL v2) := hb3.sub s23
  rw [extend_of_bounded _ hb2] at hext
  simp only [Option.some.injEq] at hext
  subst hext
  obtain ⟨p2, hp2, hv2⟩ := position_valid v2 hc2 hb2
  have hk2lt : ravel (viewShape v2) p2 < prod (viewShape v2) := ravel_lt hv2
  have hf2 : flatPos v2 (viewShape v2) τ = some (ravel (viewShape v2) p2) := by simp [flatPos, hp2]
  obtain ⟨σ, hσ, σ1, hext1, hpos2, hcell12⟩ := hall12 _ hk2lt
  have hbσ2 : BoundedOn σ (Dim.leavesL v2) := outAssignments_bounded hk2 hσ
  rw [extend_of_bounded _ (hbσ2.sub s12)] at hext1
  simp only [Option.some.injEq] at hext1
  subst hext1
  have hagree : AgreeOn σ τ (Dim.leavesL v2) := flatPos_inj v2 hc2 hbσ2 hb2 (by rw [hpos2, hf2])
  have hc1 : cellAt v1 s1 i σ = cellAt v1 s1 i τ := cellAt_congr v1 s1 i (hagree.sub s12)
  have hk2len : ravel (viewShape v2) p2 < c12.length := by rw [hlen12]; exact hk2lt
  refine ⟨τ, hb3, hpos3, c12[ravel (viewShape v2) p2], ?_, ?_⟩
  · rw [← hc1, hcell12, List.getElem?_eq_getElem hk2len]
  · have hklen : k < c23.length := by rw [hlen23]; exact hk
    have h23k : c23[k]? = some (Cell.src 0 (ravel (viewShape v2) p2)) := by
      rw [← hcell23]; simp [cellAt, hf2]
    rw [List.getElem?_map, h23k, Option.map_some, subst_src]
    simp [List.getElem?_eq_getElem hk2len]

/-! ### expression level -/

theorem concatFreeL_append (a b : List Dim) :
    Dim.concatFreeL (a ++ b) = (Dim.concatFreeL a && Dim.concatFreeL b) := by
  induction a with
  | nil => simp [Dim.concatFreeL]
  | cons d a ih => simp [Dim.concatFreeL, ih, Bool.and_assoc]

mutual
theorem dims_concatFree : ∀ (m : Bool) (e : Expr), e.concatFree = true → Dim.concatFreeL (dims m e) = true
  | m, .axis n v, _ => by simp [dims, Dim.concatFreeL, Dim.concatFree]
  | m, .list cs, h => by simp only [dims]; exact dimsL_concatFree m cs (by simpa [Expr.concatFree] using h)
  | m, .flat e, h => by
    simp only [dims, Dim.concatFreeL, Dim.concatFree, Bool.and_true]
    exact dims_concatFree m e (by simpa [Expr.concatFree] using h)
  | m, .concat cs, h => by simp [Expr.concatFree] at h
  | m, .br e, h => by simp only [dims]; exact dims_concatFree true e (by simpa [Expr.concatFree] using h)
theorem dimsL_concatFree : ∀ (m : Bool) (cs : List Expr), Expr.concatFreeL cs = true → Dim.concatFreeL (dimsL m cs) = true
  | m, [], _ => by simp [dimsL, Dim.concatFreeL]
  | m, c :: cs, h => by
    simp only [Expr.concatFreeL, Bool.and_eq_true] at h
    simp only [dimsL, concatFreeL_append, Bool.and_eq_true]
    exact ⟨dims_concatFree m c h.1, dimsL_concatFree m cs h.2⟩
end

theorem rootDims_concatFree {e : Expr} (h : e.concatFree = true) : Dim.concatFreeL (rootDims e) = true :=
  dims_concatFree false e h

theorem shapeOf_eq (e : Expr) : shapeOf e = viewShape (rootDims e) := rfl

/-- A successful single-input single-output `id` denotation, unfolded. -/
theorem denoteIdFun_single {e1 e2 : Expr} {ts : List (Tensor Cell)} (h : denoteIdFun [e1] [e2] = .ok ts) :
    e1.concatFree = true ∧ e2.concatFree = true ∧
      ∃ cs, idCells (rootDims e1) (shapeOf e1) 0 (rootDims e2) (shapeOf e2) = some cs ∧ ts = [⟨shapeOf e2, cs⟩] := by
  unfold denoteIdFun at h
  by_cases hc : (Expr.concatFreeL [e1] && Expr.concatFreeL [e2]) = true
  · simp only [hc, Bool.not_true, Bool.false_eq_true, if_false, List.length_singleton, bne_self_eq_false] at h
    simp only [Expr.concatFreeL, Bool.and_true, Bool.and_eq_true] at hc
    refine ⟨hc.1, hc.2, ?_⟩
    simp only [List.zipIdx_cons, List.zipIdx_nil, List.zip_cons_cons, List.zip_nil_right, List.mapM_cons,
      List.mapM_nil, denoteIdFun1] at h
    cases hcs : idCells (rootDims e1) (shapeOf e1) 0 (rootDims e2) (shapeOf e2) with
    | none => simp [hcs, bind, Except.bind, throw, throwThe, MonadExceptOf.throw] at h
    | some cs =>
      simp only [hcs, bind, Except.bind, pure, Except.pure, Except.ok.injEq] at h
      exact ⟨cs, rfl, h.symm⟩
  · simp only [Bool.not_eq_true] at hc
    simp [hc, throw, throwThe, MonadExceptOf.throw] at h

/-! ### regrouping: whole tensors -/

theorem leavesL_append (a b : List Dim) : Dim.leavesL (a ++ b) = Dim.leavesL a ++ Dim.leavesL b := by
  induction a with
  | nil => simp [Dim.leavesL]
  | cons d a ih => simp [Dim.leavesL, ih]

theorem leavesL_regroup (pre mid post : List Dim) :
    Dim.leavesL (pre ++ [Dim.flat mid] ++ post) = Dim.leavesL (pre ++ mid ++ post) := by
  simp [leavesL_append, Dim.leavesL, Dim.leaves]

theorem prod_viewShape_regroup (pre mid post : List Dim) :
    prod (viewShape (pre ++ [Dim.flat mid] ++ post)) = prod (viewShape (pre ++ mid ++ post)) := by
  simp [viewShape_append, prod_append, viewShape, size_flat, prod]

theorem cellAt_regroup (pre mid post : List Dim) (i : Nat) (σ : Assign) :
    cellAt (pre ++ [Dim.flat mid] ++ post) (viewShape (pre ++ [Dim.flat mid] ++ post)) i σ
      = cellAt (pre ++ mid ++ post) (viewShape (pre ++ mid ++ post)) i σ := by
  simp only [cellAt, flatPos_regroup]

theorem idCells_regroup_input (pre mid post : List Dim) (i : Nat) (vo : List Dim) (so : List Nat) :
    idCells (pre ++ [Dim.flat mid] ++ post) (viewShape (pre ++ [Dim.flat mid] ++ post)) i vo so
      = idCells (pre ++ mid ++ post) (viewShape (pre ++ mid ++ post)) i vo so := by
  have : idEntry (pre ++ [Dim.flat mid] ++ post) (viewShape (pre ++ [Dim.flat mid] ++ post)) i vo so
      = idEntry (pre ++ mid ++ post) (viewShape (pre ++ mid ++ post)) i vo so := by
    funext σ
    simp only [idEntry, leavesL_regroup, cellAt_regroup]
  simp only [idCells, idEntries, this]

theorem idCells_regroup_output (vi : List Dim) (si : List Nat) (i : Nat) (pre mid post : List Dim) :
    idCells vi si i (pre ++ [Dim.flat mid] ++ post) (viewShape (pre ++ [Dim.flat mid] ++ post))
      = idCells vi si i (pre ++ mid ++ post) (viewShape (pre ++ mid ++ post)) := by
  have : idEntry vi si i (pre ++ [Dim.flat mid] ++ post) (viewShape (pre ++ [Dim.flat mid] ++ post))
      = idEntry vi si i (pre ++ mid ++ post) (viewShape (pre ++ mid ++ post)) := by
    funext σ
    simp only [idEntry, flatPos_regroup]
  simp only [idCells, idEntries, this, outAssignments, leavesL_regroup, prod_viewShape_regroup]

/-! ### whole-tensor permutation laws: `extend` is insensitive to leaf order; the leaves of a permuted
view are the original leaves -/

/-- Full agreement of two assignments (on every name). -/
def SameGet (σ τ : Assign) : Prop := ∀ n, Assign.get σ n = Assign.get τ n

theorem SameGet.agreeOn {σ τ : Assign} (h : SameGet σ τ) (ls : List Leaf) : AgreeOn σ τ ls :=
  fun l _ => h l.name

theorem get_append (σ τ : Assign) (n : String) :
    Assign.get (σ ++ τ) n = match Assign.get σ n with
      | some x => some x
      | none => Assign.get τ n := by
  induction σ with
  | nil => simp [get_nil]
  | cons p σ ih =>
    rw [List.cons_append, get_cons, get_cons]
    by_cases h : p.1 = n
    · simp [h]
    · simp only [h, if_false]; exact ih

/-- What the extended assignment answers: the old value, else `0` for the names of the listed leaves. -/
theorem extend_get : ∀ (ls : List Leaf) (σ σ' : Assign), extend σ ls = some σ' → ∀ n,
    Assign.get σ' n = match Assign.get σ n with
      | some x => some x
      | none => if ls.any (fun l => l.name == n) then some 0 else none := by
  intro ls
  induction ls with
  | nil =>
    intro σ σ' h n
    rw [extend_nil] at h
    simp only [Option.some.injEq] at h
    subst h
    cases Assign.get σ n <;> simp
  | cons l ls ih =>
    intro σ σ' h n
    rw [extend_cons] at h
    cases hg : Assign.get σ l.name with
    | some y =>
      simp only [hg] at h
      rw [ih σ σ' h n]
      cases hn : Assign.get σ n with
      | some x => rfl
      | none =>
        have : (l.name == n) = false := by
          apply beq_eq_false_iff_ne.mpr
          intro e; rw [e, hn] at hg; exact absurd hg (by simp)
        simp [List.any_cons, this]
    | none =>
      simp only [hg] at h
      by_cases hs : (l.size == 1) = true
      · simp only [hs, if_true] at h
        rw [ih _ σ' h n, get_append]
        cases hn : Assign.get σ n with
        | some x => rfl
        | none =>
          simp only [get_cons, get_nil, List.any_cons]
          by_cases e : l.name = n
          · simp [e]
          · have : (l.name == n) = false := beq_eq_false_iff_ne.mpr e
            simp [e, this]
      · simp [hs] at h

/-- Every leaf is assigned or has length 1. -/
def Extendable (σ : Assign) (ls : List Leaf) : Prop := ∀ l ∈ ls, Assign.get σ l.name ≠ none ∨ l.size = 1

theorem Consistent.tail {l : Leaf} {ls : List Leaf} (h : Consistent (l :: ls)) : Consistent ls :=
  fun a ha b hb => h a (List.mem_cons_of_mem _ ha) b (List.mem_cons_of_mem _ hb)

theorem extend_isSome_iff : ∀ (ls : List Leaf), Consistent ls → ∀ σ : Assign,
    (∃ σ', extend σ ls = some σ') ↔ Extendable σ ls := by
  intro ls
  induction ls with
  | nil => intro _ σ; exact ⟨fun _ l hl => by simp at hl, fun _ => ⟨σ, rfl⟩⟩
  | cons l ls ih =>
    intro hc σ
    rw [extend_cons]
    cases hg : Assign.get σ l.name with
    | some y =>
      simp only []
      rw [ih hc.tail σ]
      constructor
      · intro h l' hl'
        rcases List.mem_cons.mp hl' with rfl | h'
        · left; rw [hg]; simp
        · exact h l' h'
      · intro h l' hl'; exact h l' (List.mem_cons_of_mem _ hl')
    | none =>
      simp only []
      by_cases hs : (l.size == 1) = true
      · simp only [hs, if_true]
        have hs1 : l.size = 1 := by simpa using hs
        rw [ih hc.tail _]
        constructor
        · intro h l' hl'
          rcases List.mem_cons.mp hl' with rfl | h'
          · right; exact hs1
          · rcases h l' h' with h1 | h1
            · rw [get_append] at h1
              cases hn : Assign.get σ l'.name with
              | some x => left; simp
              | none =>
                right
                simp only [hn, get_cons, get_nil] at h1
                by_cases e : l.name = l'.name
                · rw [← hc l (List.mem_cons_self ..) l' hl' e]; exact hs1
                · simp [e] at h1
            · right; exact h1
        · intro h l' hl'
          rcases h l' (List.mem_cons_of_mem _ hl') with h1 | h1
          · left
            rw [get_append]
            cases hn : Assign.get σ l'.name with
            | some x => simp
            | none => exact absurd hn h1
          · right; exact h1
      · simp only [hs]
        constructor
        · rintro ⟨_, h⟩; simp at h
        · intro h
          rcases h l (List.mem_cons_self ..) with h1 | h1
          · exact absurd hg h1
          · simp [h1] at hs

theorem any_name_congr {ls ls' : List Leaf} (hm : ∀ l, l ∈ ls ↔ l ∈ ls') (n : String) :
    ls.any (fun l => l.name == n) = ls'.any (fun l => l.name == n) := by
  rw [Bool.eq_iff_iff]
  simp only [List.any_eq_true]
  constructor
  · rintro ⟨l, hl, h⟩; exact ⟨l, (hm l).mp hl, h⟩
  · rintro ⟨l, hl, h⟩; exact ⟨l, (hm l).mpr hl, h⟩

/-- **`extend` is insensitive to the order of the leaves** (for consistent leaves): on two lists with the same
members it fails on both, or succeeds on both with assignments that agree on every name. -/
theorem extend_perm {ls ls' : List Leaf} (hm : ∀ l, l ∈ ls ↔ l ∈ ls') (hc : Consistent ls) (σ τ : Assign)
    (hst : SameGet σ τ) :
    (extend σ ls = none ∧ extend τ ls' = none) ∨
      ∃ σ1 τ1, extend σ ls = some σ1 ∧ extend τ ls' = some τ1 ∧ SameGet σ1 τ1 ∧ Extendable σ ls := by
  have hc' : Consistent ls' := fun a ha b hb => hc a ((hm a).mpr ha) b ((hm b).mpr hb)
  have hE : Extendable σ ls ↔ Extendable τ ls' := by
    constructor
    · intro h l hl; rw [← hst]; exact h l ((hm l).mpr hl)
    · intro h l hl; rw [hst]; exact h l ((hm l).mp hl)
  by_cases hx : Extendable σ ls
  · obtain ⟨σ1, h1⟩ := (extend_isSome_iff ls hc σ).mpr hx
    obtain ⟨τ1, h2⟩ := (extend_isSome_iff ls' hc' τ).mpr (hE.mp hx)
    refine Or.inr ⟨σ1, τ1, h1, h2, ?_, hx⟩
    intro n
    rw [extend_get ls σ σ1 h1 n, extend_get ls' τ τ1 h2 n, hst n, any_name_congr hm n]
  · left
    constructor
    · cases h : extend σ ls with
      | none => rfl
      | some s => exact absurd ((extend_isSome_iff ls hc σ).mp ⟨s, h⟩) hx
    · cases h : extend τ ls' with
      | none => rfl
      | some s => exact absurd (hE.mpr ((extend_isSome_iff ls' hc' τ).mp ⟨s, h⟩)) hx

theorem position_sameGet {σ τ : Assign} (h : SameGet σ τ) (v : List Dim) : position v σ = position v τ :=
  position_congr v (h.agreeOn _)

theorem cellAt_sameGet {σ τ : Assign} (h : SameGet σ τ) (v : List Dim) (s : List Nat) (i : Nat) :
    cellAt v s i σ = cellAt v s i τ := cellAt_congr v s i (h.agreeOn _)

/-! membership in permuted lists and in leaves -/

theorem mem_permuteL {α : Type} {perm : List Nat} {l l' : List α} (hperm : isPermOf perm l.length = true)
    (h : permuteL perm l = some l') (a : α) : a ∈ l' ↔ a ∈ l := by
  obtain ⟨_, _, hall, hlt⟩ := isPermOf_spec hperm
  unfold permuteL at h
  have hm := (mapOpt_eq_some_iff _ _ _).mp h
  have e : a ∈ l' ↔ some a ∈ l'.map some := by simp
  rw [e, ← hm]
  simp only [List.mem_map]
  constructor
  · rintro ⟨i, _, hi⟩; exact List.mem_of_getElem? hi
  · intro ha
    obtain ⟨i, hi, rfl⟩ := List.getElem_of_mem ha
    exact ⟨i, hall i hi, by simp [hi]⟩

theorem mem_leavesL (v : List Dim) (l : Leaf) : l ∈ Dim.leavesL v ↔ ∃ d ∈ v, l ∈ d.leaves := by
  induction v with
  | nil => simp [Dim.leavesL]
  | cons d v ih => simp [Dim.leavesL, ih]

theorem leavesL_permute {perm : List Nat} {v v' : List Dim} (hperm : isPermOf perm v.length = true)
    (h : permuteL perm v = some v') (l : Leaf) : l ∈ Dim.leavesL v ↔ l ∈ Dim.leavesL v' := by
  rw [mem_leavesL, mem_leavesL]
  constructor
  · rintro ⟨d, hd, hl⟩; exact ⟨d, (mem_permuteL hperm h d).mpr hd, hl⟩
  · rintro ⟨d, hd, hl⟩; exact ⟨d, (mem_permuteL hperm h d).mp hd, hl⟩

/-! mapping cells through scatter/gather -/

theorem mapOpt_optmap {α β γ : Type} (f : α → Option β) (g : β → γ) (l : List α) :
    mapOpt (fun a => (f a).map g) l = (mapOpt f l).map (List.map g) := by
  induction l with
  | nil => rfl
  | cons a as ih =>
    simp only [mapOpt, ih]
    cases f a <;> cases mapOpt f as <;> rfl

theorem scatterFold_map (h : Cell → Cell) (es : List (Nat × Cell)) : ∀ init : List (Option Cell),
    (es.map (fun e => (e.1, h e.2))).foldl (fun acc e => acc.set e.1 (some e.2)) (init.map (Option.map h))
      = (es.foldl (fun acc e => acc.set e.1 (some e.2)) init).map (Option.map h) := by
  induction es with
  | nil => intro init; rfl
  | cons e es ih =>
    intro init
    simp only [List.map_cons, List.foldl_cons]
    rw [← ih, List.map_set]
    rfl

theorem gatherAll_map (h : Cell → Cell) (n : Nat) (es : List (Nat × Cell)) :
    gatherAll n (es.map (fun e => (e.1, h e.2))) = (gatherAll n es).map (List.map h) := by
  unfold gatherAll scatter
  have := scatterFold_map h es (List.replicate n none)
  simp only [List.map_replicate, Option.map_none] at this
  rw [this, mapOpt_map]
  exact mapOpt_optmap id h _

/-! numpy's transpose plan, independent of the multi-index -/

theorem transpose_plan_ok (shapes : List (List Nat)) (x : Nat) (sx perm : List Nat)
    (hx : shapes[x]? = some sx) (hperm : isPermOf perm sx.length = true) :
    ∃ plan, planInstr shapes (.transpose x perm) = .ok plan ∧ permuteL perm sx = some plan.shape ∧
      plan.cells.length = prod plan.shape ∧
      ∀ p, Valid sx p → ∃ p', permuteL perm p = some p' ∧ Valid plan.shape p' ∧
        plan.cells[ravel plan.shape p']? = some (.src x (ravel sx p)) := by
  obtain ⟨hisp, hlen, hall, hlt⟩ := isPermOf_spec hperm
  refine ⟨tabulate (perm.map (fun a => sx.getD a 0)) (fun o =>
      Cell.src x (ravel sx ((List.range sx.length).map (fun a => o.getD (perm.idxOf a) 0)))),
    ?_, ?_, ?_, ?_⟩
  · simp only [planInstr, getShape, hx, hisp, bind, Except.bind, pure, Except.pure, Bool.not_true]
    rfl
  · exact permuteL_eq_map 0 perm sx hlt
  · simp [tabulate]
  · intro p hv
    have hpl : p.length = sx.length := valid_length hv
    refine ⟨perm.map (fun a => p.getD a 0), permuteL_eq_map 0 perm p (by rw [hpl]; exact hlt),
      valid_permute hv perm hlt, ?_⟩
    simp only [tabulate]
    have hv' := valid_permute hv perm hlt
    have := tabulate_getElem? (perm.map (fun a => sx.getD a 0))
      (fun o => Cell.src x (ravel sx ((List.range sx.length).map (fun a => o.getD (perm.idxOf a) 0)))) _ hv'
    simp only [tabulate] at this
    rw [this, unpermute perm p sx.length hpl hall]

/-- `σ` is in range wherever it is defined on the listed leaves. -/
def InRangeOn (σ : Assign) (ls : List Leaf) : Prop := ∀ l ∈ ls, ∀ y, Assign.get σ l.name = some y → y < l.size

theorem bounded_of_extend {σ σ1 : Assign} {ls : List Leaf} (hr : InRangeOn σ ls) (hx : Extendable σ ls)
    (h : extend σ ls = some σ1) : BoundedOn σ1 ls := by
  intro l hl
  have hg := extend_get ls σ σ1 h l.name
  cases hn : Assign.get σ l.name with
  | some y => exact ⟨y, by rw [hg, hn], hr l hl y hn⟩
  | none =>
    have hany : ls.any (fun l' => l'.name == l.name) = true := by
      simp only [List.any_eq_true]; exact ⟨l, hl, by simp⟩
    rcases hx l hl with h1 | h1
    · exact absurd hn h1
    · exact ⟨0, by rw [hg, hn]; simp [hany], by omega⟩

theorem BoundedOn.sameGet {σ τ : Assign} {ls : List Leaf} (h : BoundedOn σ ls) (hs : SameGet σ τ) : BoundedOn τ ls :=
  fun l hl => by obtain ⟨x, hx, hlt⟩ := h l hl; exact ⟨x, by rw [← hs]; exact hx, hlt⟩

theorem BoundedOn.mem {σ : Assign} {ls ls' : List Leaf} (h : BoundedOn σ ls) (hm : ∀ l, l ∈ ls' → l ∈ ls) :
    BoundedOn σ ls' := fun l hl => h l (hm l hl)

/-- Reading the permuted view from the transposed tensor = reading the original view from the original tensor
(one in-range assignment, given plan). -/
theorem cellAt_permute_input {v v' : List Dim} {perm : List Nat} {shapes : List (List Nat)} {x : Nat} {σ : Assign}
    {plan : Plan} (hperm : isPermOf perm v.length = true) (hv' : permuteL perm v = some v')
    (hc : Dim.concatFreeL v = true) (hb : BoundedOn σ (Dim.leavesL v))
    (hx : shapes[x]? = some (viewShape v)) (hplan : planInstr shapes (.transpose x perm) = .ok plan) :
    plan.shape = viewShape v' ∧
    (cellAt v' (viewShape v') 0 σ).map (subst [⟨plan.shape, plan.cells⟩]) = cellAt v (viewShape v) x σ := by
  obtain ⟨p, hp, hv⟩ := position_valid v hc hb
  have hlen : (viewShape v).length = v.length := by simp [viewShape]
  obtain ⟨plan2, hplan2, hshape, _, hreads⟩ :=
    transpose_plan_ok shapes x (viewShape v) perm hx (by rw [hlen]; exact hperm)
  rw [hplan] at hplan2
  have : plan = plan2 := Except.ok.inj hplan2
  subst this
  obtain ⟨p', hp', _, hcell⟩ := hreads p hv
  have hs : plan.shape = viewShape v' := by
    have := viewShape_permute hv'
    rw [hshape] at this
    exact Option.some.inj this
  refine ⟨hs, ?_⟩
  have hpos' : position v' σ = some p' := by rw [position_permute hp hv', hp']
  rw [← hs]
  simp only [cellAt, flatPos, hpos', hp, Option.map_some, subst_src, hcell, Option.getD_some]

theorem idEntry_permute_input {v v' w : List Dim} {perm : List Nat} {shapes : List (List Nat)} {x : Nat} {σ : Assign}
    {sw : List Nat} {plan : Plan} (hperm : isPermOf perm v.length = true) (hv' : permuteL perm v = some v')
    (hc : Dim.concatFreeL v = true) (hcons : Consistent (Dim.leavesL v)) (hr : InRangeOn σ (Dim.leavesL v))
    (hx : shapes[x]? = some (viewShape v)) (hplan : planInstr shapes (.transpose x perm) = .ok plan) :
    (idEntry v' (viewShape v') 0 w sw σ).map (fun e => (e.1, subst [⟨plan.shape, plan.cells⟩] e.2))
      = idEntry v (viewShape v) x w sw σ := by
  rcases extend_perm (leavesL_permute hperm hv') hcons σ σ (fun _ => rfl) with ⟨h1, h2⟩ | ⟨σ1, σ1', h1, h2, hs, hE⟩
  · simp [idEntry, h1, h2]
  · have hb : BoundedOn σ1 (Dim.leavesL v) := bounded_of_extend hr hE h1
    have hcell := (cellAt_permute_input hperm hv' hc (hb.sameGet hs) hx hplan).2
    rw [← cellAt_sameGet hs v] at hcell
    simp only [idEntry, h1, h2]
    cases flatPos w sw σ with
    | none => rfl
    | some po =>
      rw [← hcell]
      cases cellAt v' (viewShape v') 0 σ1' <;> rfl

theorem assignments_get_some : ∀ (axes : List (String × Nat)) (σ : Assign), σ ∈ assignments axes →
    ∀ n y, Assign.get σ n = some y → ∃ s, (n, s) ∈ axes ∧ y < s := by
  intro axes
  induction axes with
  | nil =>
    intro σ hσ n y h
    simp only [assignments, List.mem_singleton] at hσ
    subst hσ; simp [get_nil] at h
  | cons a rest ih =>
    obtain ⟨n0, s0⟩ := a
    intro σ hσ n y h
    simp only [assignments, List.mem_flatMap, List.mem_range, List.mem_map] at hσ
    obtain ⟨i, hi, σ', hσ', rfl⟩ := hσ
    rw [get_cons] at h
    by_cases hn : n0 = n
    · simp only [hn, if_true, Option.some.injEq] at h
      subst h
      exact ⟨s0, by rw [← hn]; exact List.mem_cons_self .., hi⟩
    · simp only [hn, if_false] at h
      obtain ⟨s, hs, hlt⟩ := ih σ' hσ' n y h
      exact ⟨s, List.mem_cons_of_mem _ hs, hlt⟩

/-- An assignment of the iteration space of `w` is in range on every consistent leaf list containing the
leaves of `w`. -/
theorem outAssignments_inRange {w : List Dim} {ls : List Leaf} (hcons : Consistent (ls ++ Dim.leavesL w))
    {σ : Assign} (hσ : σ ∈ outAssignments w) : InRangeOn σ ls := by
  intro l hl y hy
  obtain ⟨s, hs, hlt⟩ := assignments_get_some _ σ hσ l.name y hy
  obtain ⟨_, _, h3⟩ := axesFold_mem (Dim.leavesL w) []
  rcases h3 _ hs with h | ⟨l', hl', hn, hsz⟩
  · simp at h
  · have := hcons l (List.mem_append_left _ hl) l' (List.mem_append_right _ hl') hn.symm
    simp only at hsz
    rw [this, hsz]; exact hlt

/-- **Permuting an input view together with its tensor leaves the whole result unchanged** (`id`). -/
theorem idCells_permute_input {v v' w : List Dim} {perm : List Nat} {shapes : List (List Nat)} {x : Nat}
    {sw : List Nat} {plan : Plan} (hperm : isPermOf perm v.length = true) (hv' : permuteL perm v = some v')
    (hc : Dim.concatFreeL v = true) (hcons : Consistent (Dim.leavesL v ++ Dim.leavesL w))
    (hx : shapes[x]? = some (viewShape v)) (hplan : planInstr shapes (.transpose x perm) = .ok plan) :
    (idCells v' (viewShape v') 0 w sw).map (List.map (subst [⟨plan.shape, plan.cells⟩]))
      = idCells v (viewShape v) x w sw := by
  have hcv : Consistent (Dim.leavesL v) :=
    fun a ha b hb => hcons a (List.mem_append_left _ ha) b (List.mem_append_left _ hb)
  have he : mapOpt (idEntry v (viewShape v) x w sw) (outAssignments w)
      = (mapOpt (idEntry v' (viewShape v') 0 w sw) (outAssignments w)).map
          (List.map (fun e => (e.1, subst [⟨plan.shape, plan.cells⟩] e.2))) := by
    rw [← mapOpt_optmap]
    apply mapOpt_congr
    intro σ hσ
    exact (idEntry_permute_input hperm hv' hc hcv (outAssignments_inRange hcons hσ) hx hplan).symm
  simp only [idCells, idEntries, he]
  cases mapOpt (idEntry v' (viewShape v') 0 w sw) (outAssignments w) with
  | none => rfl
  | some es => simp only [Option.map_some, gatherAll_map]


/-! ### permuting the output view: the transposed result -/

theorem subst_src_reg (regs : List (Tensor Cell)) (r k : Nat) (T : Tensor Cell) (h : regs[r]? = some T) :
    subst regs (.src r k) = (T.data[k]?).getD .bad := by
  simp [subst, evalCell, readReg, symAlg, h]

/-- The names an assignment of the iteration space of `w` defines are exactly the names of the leaves of `w`. -/
theorem outAssignments_dom {w : List Dim} {σ : Assign} (hσ : σ ∈ outAssignments w) (n : String) :
    Assign.get σ n ≠ none ↔ ∃ l ∈ Dim.leavesL w, l.name = n := by
  obtain ⟨_, h2, h3⟩ := axesFold_mem (Dim.leavesL w) []
  constructor
  · intro h
    cases hg : Assign.get σ n with
    | none => exact absurd hg h
    | some y =>
      obtain ⟨s, hs, _⟩ := assignments_get_some _ σ hσ n y hg
      rcases h3 _ hs with h | ⟨l, hl, hn, _⟩
      · simp at h
      · exact ⟨l, hl, hn⟩
  · rintro ⟨l, hl, rfl⟩
    obtain ⟨s, hs⟩ := h2 l hl
    obtain ⟨x, _, hx, _, _⟩ := assignments_bounded _ σ hσ _ hs
    rw [hx]; simp

theorem sameGet_of_agreeOn {w w' : List Dim} {σ τ : Assign} (hm : ∀ l, l ∈ Dim.leavesL w ↔ l ∈ Dim.leavesL w')
    (hσ : σ ∈ outAssignments w) (hτ : τ ∈ outAssignments w') (ha : AgreeOn σ τ (Dim.leavesL w)) : SameGet σ τ := by
  intro n
  by_cases h : ∃ l ∈ Dim.leavesL w, l.name = n
  · obtain ⟨l, hl, rfl⟩ := h; exact ha l hl
  · have h' : ¬ ∃ l ∈ Dim.leavesL w', l.name = n := by
      rintro ⟨l, hl, hn⟩; exact h ⟨l, (hm l).mpr hl, hn⟩
    have e1 : Assign.get σ n = none := by
      cases hg : Assign.get σ n with
      | none => rfl
      | some y => exact absurd ((outAssignments_dom hσ n).mp (by rw [hg]; simp)) h
    have e2 : Assign.get τ n = none := by
      cases hg : Assign.get τ n with
      | none => rfl
      | some y => exact absurd ((outAssignments_dom hτ n).mp (by rw [hg]; simp)) h'
    rw [e1, e2]

/-- **Permuting the output view permutes the result**: the cells of the permuted operation are the cells of
numpy's transpose plan applied to the original result (register `r`). -/
theorem idCells_permute_output {vi : List Dim} {si : List Nat} {i : Nat} {w w' : List Dim} {perm : List Nat}
    {shapes : List (List Nat)} {r : Nat} {plan : Plan} {cs cs' : List Cell} (regs : List (Tensor Cell))
    (hperm : isPermOf perm w.length = true) (hw' : permuteL perm w = some w')
    (hc : Dim.concatFreeL w = true) (hcons : Consistent (Dim.leavesL w))
    (hr : shapes[r]? = some (viewShape w)) (hplan : planInstr shapes (.transpose r perm) = .ok plan)
    (hregs : regs[r]? = some ⟨viewShape w, cs⟩)
    (h : idCells vi si i w (viewShape w) = some cs) (h' : idCells vi si i w' (viewShape w') = some cs') :
    plan.shape = viewShape w' ∧ cs' = plan.cells.map (subst regs) := by
  have hlen : (viewShape w).length = w.length := by simp [viewShape]
  obtain ⟨plan2, hplan2, hshape, hclen, hreads⟩ :=
    transpose_plan_ok shapes r (viewShape w) perm hr (by rw [hlen]; exact hperm)
  rw [hplan] at hplan2
  have : plan = plan2 := Except.ok.inj hplan2
  subst this
  have hs : plan.shape = viewShape w' := by
    have := viewShape_permute hw'
    rw [hshape] at this
    exact Option.some.inj this
  refine ⟨hs, ?_⟩
  have hm := leavesL_permute hperm hw'
  have hcons' : Consistent (Dim.leavesL w') := fun a ha b hb => hcons a ((hm a).mpr ha) b ((hm b).mpr hb)
  obtain ⟨hl, hall⟩ := idCells_spec h
  obtain ⟨hl', hall'⟩ := idCells_spec h'
  apply List.ext_getElem?
  intro k'
  by_cases hk' : k' < prod (viewShape w')
  · obtain ⟨σ', hσ', σ1', hext', hpos', hcell'⟩ := hall' k' hk'
    have hb' : BoundedOn σ' (Dim.leavesL w') := outAssignments_bounded hcons' hσ'
    have hb : BoundedOn σ' (Dim.leavesL w) := hb'.mem (fun l hl => (hm l).mp hl)
    obtain ⟨p, hp, hv⟩ := position_valid w hc hb
    obtain ⟨p', hp', _, hcell⟩ := hreads p hv
    have hposw' : position w' σ' = some p' := by rw [position_permute hp hw', hp']
    have hk'eq : k' = ravel (viewShape w') p' := by
      simp only [flatPos, hposw', Option.map_some, Option.some.injEq] at hpos'
      exact hpos'.symm
    have hklt : ravel (viewShape w) p < prod (viewShape w) := ravel_lt hv
    obtain ⟨τ, hτ, τ1, hext, hpos, hcellτ⟩ := hall _ hklt
    have hbτ : BoundedOn τ (Dim.leavesL w) := outAssignments_bounded hcons hτ
    have hag : AgreeOn τ σ' (Dim.leavesL w) :=
      flatPos_inj w hc hbτ hb (by rw [hpos]; simp [flatPos, hp])
    have hsg : SameGet τ σ' := sameGet_of_agreeOn hm hτ hσ' hag
    have hsg1 : SameGet τ1 σ1' := by
      intro n
      rw [extend_get _ τ τ1 hext n, extend_get _ σ' σ1' hext' n, hsg n]
    have hklen : ravel (viewShape w) p < cs.length := by rw [hl]; exact hklt
    rw [List.getElem?_map, hk'eq, ← hs, hcell, Option.map_some, subst_src_reg regs r _ _ hregs]
    rw [hs, ← hk'eq, ← hcell', ← cellAt_sameGet hsg1, hcellτ]
    simp [List.getElem?_eq_getElem hklen]
  · have h1 : cs'.length ≤ k' := by omega
    have h2 : (plan.cells.map (subst regs)).length ≤ k' := by
      rw [List.length_map, hclen, hs]; omega
    rw [List.getElem?_eq_none h1, List.getElem?_eq_none h2]

/-! ### renaming that is injective only on the names in use -/

mutual
/-- All axis names of an expression. -/
def Expr.names : Expr → List String
  | .axis n _ => [n]
  | .list cs => Expr.namesL cs
  | .flat e => e.names
  | .concat cs => Expr.namesL cs
  | .br e => e.names
def Expr.namesL : List Expr → List String
  | [] => []
  | c :: cs => c.names ++ Expr.namesL cs
end

mutual
theorem Expr.rename_congr {ρ ρ' : String → String} : ∀ e : Expr, (∀ n ∈ e.names, ρ n = ρ' n) → e.rename ρ = e.rename ρ'
  | .axis n v, h => by simp [Expr.rename, h n (by simp [Expr.names])]
  | .list cs, h => by simp only [Expr.rename]; rw [Expr.renameL_congr cs (by simpa [Expr.names] using h)]
  | .flat e, h => by simp only [Expr.rename]; rw [Expr.rename_congr e (by simpa [Expr.names] using h)]
  | .concat cs, h => by simp only [Expr.rename]; rw [Expr.renameL_congr cs (by simpa [Expr.names] using h)]
  | .br e, h => by simp only [Expr.rename]; rw [Expr.rename_congr e (by simpa [Expr.names] using h)]
theorem Expr.renameL_congr {ρ ρ' : String → String} :
    ∀ cs : List Expr, (∀ n ∈ Expr.namesL cs, ρ n = ρ' n) → Expr.renameL ρ cs = Expr.renameL ρ' cs
  | [], _ => rfl
  | c :: cs, h => by
    simp only [Expr.renameL]
    rw [Expr.rename_congr c (fun n hn => h n (by simp [Expr.namesL, hn])),
      Expr.renameL_congr cs (fun n hn => h n (by simp [Expr.namesL, hn]))]
end

def lenBound (ρ : String → String) : List String → Nat
  | [] => 0
  | m :: ms => (ρ m).length + lenBound ρ ms

theorem le_lenBound (ρ : String → String) : ∀ (N : List String) (m : String), m ∈ N → (ρ m).length ≤ lenBound ρ N
  | [], _, h => by simp at h
  | a :: N, m, h => by
    simp only [lenBound]
    rcases List.mem_cons.mp h with rfl | h
    · omega
    · have := le_lenBound ρ N m h; omega

/-- An everywhere-injective renaming that agrees with `ρ` on `N` (names outside `N` are sent to strings longer
than every image of `N`). -/
def extInj (ρ : String → String) (N : List String) (n : String) : String :=
  if n ∈ N then ρ n else n ++ "".pushn 'x' (lenBound ρ N + 1)

theorem extInj_agree (ρ : String → String) (N : List String) {n : String} (h : n ∈ N) : extInj ρ N n = ρ n := by
  simp [extInj, h]

theorem extInj_injective {ρ : String → String} {N : List String} (h : InjOn ρ N) : Function.Injective (extInj ρ N) := by
  intro a b hab
  unfold extInj at hab
  by_cases ha : a ∈ N <;> by_cases hb : b ∈ N
  · simp only [ha, hb, if_true] at hab; exact h a ha b hb hab
  · simp only [ha, hb, if_true, if_false] at hab
    have := congrArg String.length hab
    rw [String.length_append, String.length_pushn] at this
    have := le_lenBound ρ N a ha
    simp at *; omega
  · simp only [ha, hb, if_true, if_false] at hab
    have := congrArg String.length hab
    rw [String.length_append, String.length_pushn] at this
    have := le_lenBound ρ N b hb
    simp at *; omega
  · simp only [ha, hb, if_false] at hab
    exact (String.append_left_inj _).mp hab

/-- **Renaming that is injective on the axis names of the operation** leaves the `id` denotation unchanged. -/
theorem denoteIdFun_rename_on {ρ : String → String} (exprsIn exprsOut : List Expr)
    (hρ : InjOn ρ (Expr.namesL exprsIn ++ Expr.namesL exprsOut)) :
    denoteIdFun (Expr.renameL ρ exprsIn) (Expr.renameL ρ exprsOut) = denoteIdFun exprsIn exprsOut := by
  have h := denoteIdFun_rename (extInj_injective hρ) exprsIn exprsOut
  rw [Expr.renameL_congr (ρ := ρ) (ρ' := extInj ρ (Expr.namesL exprsIn ++ Expr.namesL exprsOut)) exprsIn
      (fun n hn => (extInj_agree ρ _ (List.mem_append_left _ hn)).symm),
    Expr.renameL_congr (ρ := ρ) (ρ' := extInj ρ (Expr.namesL exprsIn ++ Expr.namesL exprsOut)) exprsOut
      (fun n hn => (extInj_agree ρ _ (List.mem_append_right _ hn)).symm)]
  exact h

theorem denoteElementwiseFun_rename_on {ρ : String → String} (f : String) (exprsIn : List Expr) (exprOut : Expr)
    (hρ : InjOn ρ (Expr.namesL exprsIn ++ exprOut.names)) :
    denoteElementwiseFun f (Expr.renameL ρ exprsIn) (exprOut.rename ρ) = denoteElementwiseFun f exprsIn exprOut := by
  have h := denoteElementwiseFun_rename (extInj_injective hρ) f exprsIn exprOut
  rw [Expr.renameL_congr (ρ := ρ) (ρ' := extInj ρ (Expr.namesL exprsIn ++ exprOut.names)) exprsIn
      (fun n hn => (extInj_agree ρ _ (List.mem_append_left _ hn)).symm),
    Expr.rename_congr (ρ := ρ) (ρ' := extInj ρ (Expr.namesL exprsIn ++ exprOut.names)) exprOut
      (fun n hn => (extInj_agree ρ _ (List.mem_append_right _ hn)).symm)]
  exact h

/-! ### permuting one input of an elementwise operation -/

theorem cellAt_permute_input_reg {v v' : List Dim} {perm : List Nat} {shapes : List (List Nat)} {x : Nat} {σ : Assign}
    {plan : Plan} (regs : List (Tensor Cell)) (j : Nat)
    (hperm : isPermOf perm v.length = true) (hv' : permuteL perm v = some v')
    (hc : Dim.concatFreeL v = true) (hb : BoundedOn σ (Dim.leavesL v))
    (hx : shapes[x]? = some (viewShape v)) (hplan : planInstr shapes (.transpose x perm) = .ok plan)
    (hregs : regs[j]? = some ⟨plan.shape, plan.cells⟩) :
    (cellAt v' (viewShape v') j σ).map (subst regs) = cellAt v (viewShape v) x σ := by
  obtain ⟨p, hp, hv⟩ := position_valid v hc hb
  have hlen : (viewShape v).length = v.length := by simp [viewShape]
  obtain ⟨plan2, hplan2, hshape, _, hreads⟩ :=
    transpose_plan_ok shapes x (viewShape v) perm hx (by rw [hlen]; exact hperm)
  rw [hplan] at hplan2
  have : plan = plan2 := Except.ok.inj hplan2
  subst this
  obtain ⟨p', hp', _, hcell⟩ := hreads p hv
  have hs : plan.shape = viewShape v' := by
    have := viewShape_permute hv'
    rw [hshape] at this
    exact Option.some.inj this
  have hpos' : position v' σ = some p' := by rw [position_permute hp hv', hp']
  rw [← hs]
  simp only [cellAt, flatPos, hpos', hp, Option.map_some, subst_src_reg regs j _ _ hregs, hcell, Option.getD_some]

theorem cellAt_in_range {v : List Dim} {σ : Assign} (i : Nat) (hc : Dim.concatFreeL v = true)
    (hb : BoundedOn σ (Dim.leavesL v)) : ∃ k, cellAt v (viewShape v) i σ = some (.src i k) ∧ k < prod (viewShape v) := by
  obtain ⟨p, hp, hv⟩ := position_valid v hc hb
  exact ⟨ravel (viewShape v) p, by simp [cellAt, flatPos, hp], ravel_lt hv⟩

theorem subst_symInput (regs : List (Tensor Cell)) (i k : Nat) (s : List Nat) (h : regs[i]? = some (symInput i s))
    (hk : k < prod s) : subst regs (.src i k) = .src i k := by
  rw [subst_src_reg regs i k _ h]
  simp [symInput, List.getElem?_range hk]

theorem subst_app (regs : List (Tensor Cell)) (f : String) (args : List Cell) :
    subst regs (.app f args) = .app f (args.map (subst regs)) := by
  simp only [subst, evalCell, evalCells_eq_map, symAlg]
  rfl

/-- One argument of the elementary function: the cell input `q.2` contributes under `σ`. -/
def ewArg1 (σ : Assign) (q : (List Dim × List Nat) × Nat) : Option Cell :=
  match extend σ (Dim.leavesL q.1.1) with
  | some σ' => cellAt q.1.1 q.1.2 q.2 σ'
  | none => none

theorem ewArgs_eq (ins : List (List Dim × List Nat)) (σ : Assign) : ewArgs ins σ = mapOpt (ewArg1 σ) ins.zipIdx := rfl

theorem ewArg1_fixed {u : List Dim} {σ : Assign} {k : Nat} (regs : List (Tensor Cell))
    (hc : Dim.concatFreeL u = true) (hcons : Consistent (Dim.leavesL u)) (hr : InRangeOn σ (Dim.leavesL u))
    (hregs : regs[k]? = some (symInput k (viewShape u))) :
    (ewArg1 σ ((u, viewShape u), k)).map (subst regs) = ewArg1 σ ((u, viewShape u), k) := by
  simp only [ewArg1]
  cases hx : extend σ (Dim.leavesL u) with
  | none => rfl
  | some σ1 =>
    have hE := (extend_isSome_iff _ hcons σ).mp ⟨σ1, hx⟩
    obtain ⟨pos, hcell, hlt⟩ := cellAt_in_range k hc (bounded_of_extend hr hE hx)
    simp only [hcell, Option.map_some, subst_symInput regs k pos _ hregs hlt]

theorem ewArg1_permuted {v v' : List Dim} {perm : List Nat} {shapes : List (List Nat)} {j : Nat} {σ : Assign}
    {plan : Plan} (regs : List (Tensor Cell)) (hperm : isPermOf perm v.length = true) (hv' : permuteL perm v = some v')
    (hc : Dim.concatFreeL v = true) (hcons : Consistent (Dim.leavesL v)) (hr : InRangeOn σ (Dim.leavesL v))
    (hx : shapes[j]? = some (viewShape v)) (hplan : planInstr shapes (.transpose j perm) = .ok plan)
    (hregs : regs[j]? = some ⟨plan.shape, plan.cells⟩) :
    (ewArg1 σ ((v', viewShape v'), j)).map (subst regs) = ewArg1 σ ((v, viewShape v), j) := by
  simp only [ewArg1]
  rcases extend_perm (leavesL_permute hperm hv') hcons σ σ (fun _ => rfl) with ⟨h1, h2⟩ | ⟨σ1, σ1', h1, h2, hs, hE⟩
  · simp [h1, h2]
  · have hb : BoundedOn σ1 (Dim.leavesL v) := bounded_of_extend hr hE h1
    have hcell := cellAt_permute_input_reg regs j hperm hv' hc (hb.sameGet hs) hx hplan hregs
    rw [← cellAt_sameGet hs v] at hcell
    simp only [h1, h2, hcell]

theorem mapOpt_pointwise {α α' β β' : Type} (f : α → Option β) (g : α' → Option β') (h : β → β') :
    ∀ (l : List α) (l' : List α'), l.length = l'.length →
      (∀ (k : Nat) a a', l[k]? = some a → l'[k]? = some a' → (f a).map h = g a') →
      (mapOpt f l).map (List.map h) = mapOpt g l' := by
  intro l
  induction l with
  | nil => intro l' hl _; cases l' with
    | nil => rfl
    | cons _ _ => simp at hl
  | cons a l ih =>
    intro l' hl hp
    cases l' with
    | nil => simp at hl
    | cons a' l' =>
      have h0 := hp 0 a a' rfl rfl
      have ih' := ih l' (by simpa using hl) (fun k b b' hb hb' => hp (k + 1) b b' (by simpa using hb) (by simpa using hb'))
      simp only [mapOpt, ← h0, ← ih']
      cases f a <;> cases mapOpt f l <;> rfl

/-- **Permuting one input of an elementwise operation together with its tensor leaves the whole result
unchanged.**  `regs`: the transposed tensor in register `j`, the symbolic inputs elsewhere. -/
theorem ewCells_permute_input {f : String} {ins : List (List Dim × List Nat)} {j : Nat} {v v' w : List Dim}
    {perm sw : List Nat} {plan : Plan}
    (hj : ins[j]? = some (v, viewShape v))
    (hshape : ∀ p ∈ ins, p.2 = viewShape p.1 ∧ Dim.concatFreeL p.1 = true)
    (hperm : isPermOf perm v.length = true) (hv' : permuteL perm v = some v')
    (hcons : ∀ p ∈ ins, Consistent (Dim.leavesL p.1 ++ Dim.leavesL w))
    (hplan : planInstr (ins.map (·.2)) (.transpose j perm) = .ok plan) :
    (ewCells f (ins.set j (v', viewShape v')) w sw).map (List.map (subst
        ((ins.set j (v', viewShape v')).zipIdx.map (fun q =>
          if q.2 = j then (⟨plan.shape, plan.cells⟩ : Tensor Cell) else symInput q.2 q.1.2))))
      = ewCells f ins w sw := by
  generalize hregs : (ins.set j (v', viewShape v')).zipIdx.map (fun q =>
          if q.2 = j then (⟨plan.shape, plan.cells⟩ : Tensor Cell) else symInput q.2 q.1.2) = regs
  have hjlt : j < ins.length := by
    rcases Nat.lt_or_ge j ins.length with h | h
    · exact h
    · rw [List.getElem?_eq_none h] at hj; simp at hj
  have hvin : (v, viewShape v) ∈ ins := List.mem_of_getElem? hj
  have hargs : ∀ σ ∈ outAssignments w,
      (ewArgs (ins.set j (v', viewShape v')) σ).map (List.map (subst regs)) = ewArgs ins σ := by
    intro σ hσ
    rw [ewArgs_eq, ewArgs_eq]
    apply mapOpt_pointwise
    · simp
    · intro k a a' ha ha'
      rw [List.getElem?_zipIdx] at ha ha'
      have hreg : ∀ q, (ins.set j (v', viewShape v')).zipIdx[k]? = some q →
          regs[k]? = some (if q.2 = j then (⟨plan.shape, plan.cells⟩ : Tensor Cell) else symInput q.2 q.1.2) := by
        intro q hq
        rw [← hregs, List.getElem?_map, hq]; rfl
      by_cases hk : j = k
      · subst hk
        simp only [List.getElem?_set, if_true, hjlt, Option.map_some, Option.some.injEq, Nat.zero_add] at ha
        simp only [hj, Option.map_some, Option.some.injEq, Nat.zero_add] at ha'
        subst ha ha'
        have hc := hcons _ hvin
        refine ewArg1_permuted regs hperm hv' (hshape _ hvin).2
          (fun a ha b hb => hc a (List.mem_append_left _ ha) b (List.mem_append_left _ hb))
          (outAssignments_inRange hc hσ) (by simp [hj]) hplan ?_
        have := hreg ((v', viewShape v'), j) (by simp [List.getElem?_zipIdx, hjlt])
        simpa using this
      · simp only [List.getElem?_set, hk, if_false] at ha
        rw [ha] at ha'
        simp only [Option.some.injEq] at ha'
        subst ha'
        cases hp : ins[k]? with
        | none => simp [hp] at ha
        | some p =>
          simp only [hp, Option.map_some, Option.some.injEq, Nat.zero_add] at ha
          subst ha
          have hpin : p ∈ ins := List.mem_of_getElem? hp
          obtain ⟨u, su⟩ := p
          obtain ⟨hsu, hcu⟩ := hshape _ hpin
          simp only at hsu hcu
          subst hsu
          have hc := hcons _ hpin
          refine ewArg1_fixed regs hcu
            (fun a ha b hb => hc a (List.mem_append_left _ ha) b (List.mem_append_left _ hb))
            (outAssignments_inRange hc hσ) ?_
          have := hreg ((u, viewShape u), k) (by simp [List.getElem?_zipIdx, hk, hp])
          have hkj : ¬ k = j := fun e => hk e.symm
          simpa [hkj] using this
  have he : mapOpt (ewEntry f ins w sw) (outAssignments w)
      = (mapOpt (ewEntry f (ins.set j (v', viewShape v')) w sw) (outAssignments w)).map
          (List.map (fun e => (e.1, subst regs e.2))) := by
    rw [← mapOpt_optmap]
    apply mapOpt_congr
    intro σ hσ
    simp only [ewEntry, ← hargs σ hσ]
    cases ewArgs (ins.set j (v', viewShape v')) σ with
    | none => rfl
    | some args =>
      cases flatPos w sw σ with
      | none => rfl
      | some po => simp [subst_app]
  simp only [ewCells, he]
  cases mapOpt (ewEntry f (ins.set j (v', viewShape v')) w sw) (outAssignments w) with
  | none => rfl
  | some es => simp only [Option.map_some, gatherAll_map]

end Einx.Denote
