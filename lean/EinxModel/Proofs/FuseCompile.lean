import EinxModel.Proofs.FuseScope
import EinxModel.Proofs.FuseText
import EinxModel.Proofs.CompileOrder
/-!
C04, name re-use, part 6: the three facts about the output of `compile` that `fuseAll_safe` needs (besides closedness,
`compile_closed` in `Props/C04.lean`): the name groups are those of `fuseAll`, every variable is defined at most once, and every
statement lies in a block below `nblocks`.
-/
namespace Einx.Compile

theorem compile_fuse_facts (cfg : UCfg) (fc : FCfg) (g : Graph) (comp : Compiled) (hwf : g.WF = true)
    (h : compile cfg fc g = .ok comp) :
    comp.grp = fuseAll fc comp.st comp.nblocks ∧ (outsOf comp.st.program).Nodup ∧ (∀ p ∈ comp.st.body, p.1 < comp.nblocks) ∧
      ∀ p ∈ comp.st.bodyS, InfoOK comp.st.vars p := by
  unfold compile at h
  simp only [bind, Except.bind] at h
  cases hs : getScopes g g.fuel with
  | error err => simp [hs] at h
  | ok scopes =>
  simp only [hs] at h
  cases ho : visitOrder g with
  | error err => simp [ho] at h
  | ok order =>
  simp only [ho] at h
  cases he : emitAll { g := g, cfg := cfg, counts := (usageRec g cfg g.fuel g.top {}).counts, scopes := scopes } order {} with
  | error err => simp [he] at h
  | ok st =>
  simp only [he] at h
  cases hc : convTop st.cache g.top with
  | error err => simp [hc] at h
  | ok obj =>
  simp only [hc] at h
  obtain ⟨fvs, ex, hsd⟩ := emitAll_sd _ order {} st [] [] (SD.init _) (visitOrder_matched g order ho)
    (visitOrder_nodup_of_wf g hwf order ho) (by simp) he
  have hblk : ∀ p ∈ st.body, p.1 < scopes.scopes.length := by
    intro p hp
    exact goodBlk_lt { g := g, cfg := cfg, counts := (usageRec g cfg g.fuel g.top {}).counts, scopes := scopes } g g.fuel hs p.1
      (hsd.blk (p.1, p.2.stmt) (List.mem_map.2 ⟨p, hp, rfl⟩))
  have h0 : 0 < scopes.scopes.length := (getScopes_inv g g.fuel scopes hs).1
  have key : ∀ st' : GState, (st' = st ∨
        st' = ({ st with vars := st.vars ++ [{ block := 0, reuse := false }] } : GState).push none [(0, .assign st.vars.length obj false)]) →
      (outsOf st'.program).Nodup ∧ (∀ p ∈ st'.body, p.1 < scopes.scopes.length) ∧ ∀ p ∈ st'.bodyS, InfoOK st'.vars p := by
    intro st' hst
    rcases hst with rfl | rfl
    · exact ⟨hsd.nd, hblk, hsd.info⟩
    · refine ⟨?_, ?_, ?_⟩
      · rw [program_push]
        have : ({ st with vars := st.vars ++ [{ block := 0, reuse := false }] } : GState).program = st.program := rfl
        rw [this, outsOf_append, List.nodup_append]
        refine ⟨hsd.nd, by simp [outsOf, Stmt.outputVars], ?_⟩
        intro a ha b hb hab
        simp only [List.map_cons, List.map_nil, outsOf, List.flatMap_cons, List.flatMap_nil, Stmt.outputVars, List.append_nil,
          List.mem_singleton] at hb
        have := hsd.lt a ha
        omega
      · intro p hp
        simp only [GState.push, List.map_cons, List.map_nil, List.mem_append, List.mem_singleton] at hp
        rcases hp with hp | rfl
        · exact hblk p hp
        · exact h0
      · intro p hp
        rw [bodyS_push] at hp
        have hv : (({ st with vars := st.vars ++ [{ block := 0, reuse := false }] } : GState).push none
            [(0, Stmt.assign st.vars.length obj false)]).vars = st.vars ++ [{ block := 0, reuse := false }] := rfl
        rw [hv]
        rcases List.mem_append.1 hp with hp | hp
        · have hp' : p ∈ st.bodyS := hp
          exact (hsd.info p hp').append _ (fun o ho => hsd.lt o (mem_bodyS_outs hp' o ho))
        · simp only [List.mem_singleton] at hp
          subst hp
          intro o ho
          simp only [Stmt.outputVars, List.mem_singleton] at ho
          subst ho
          exact ⟨fun _ => by simp [blockOfV], by simp [Stmt.isImport]⟩
  have fin : ∀ (st' : GState) (cond : Prop) [Decidable cond] (mk : Compiled),
      mk.st = st' → mk.grp = fuseAll fc st' scopes.scopes.length → mk.nblocks = scopes.scopes.length →
      (st' = st ∨
        st' = ({ st with vars := st.vars ++ [{ block := 0, reuse := false }] } : GState).push none [(0, .assign st.vars.length obj false)]) →
      (if cond then (throw "RecursionError: Block.to_code" : Except String Unit) >>= fun _ => pure mk else pure mk) = .ok comp →
      comp.grp = fuseAll fc comp.st comp.nblocks ∧ (outsOf comp.st.program).Nodup ∧ (∀ p ∈ comp.st.body, p.1 < comp.nblocks) ∧
        ∀ p ∈ comp.st.bodyS, InfoOK comp.st.vars p := by
    intro st' cond _ mk h1 h2 h3 h4 h5
    split at h5
    · simp [throw, throwThe, MonadExceptOf.throw, bind, Except.bind] at h5
    · simp only [pure, Except.pure, Except.ok.injEq] at h5
      subst h5
      rw [h1, h3]
      exact ⟨h2, key st' h4⟩
  split at h
  · exact fin _ _ _ rfl rfl rfl (Or.inl rfl) h
  · cases hb : fc.bindResult with
    | false =>
      simp only [hb, Bool.false_eq_true, if_false] at h
      exact fin _ _ _ rfl rfl rfl (Or.inl rfl) h
    | true =>
      simp only [hb, if_true] at h
      exact fin _ _ _ rfl rfl rfl (Or.inr rfl) h

/-- The header of a block: no reads, and output variables (of imports) that do not allow re-use. -/
theorem header_props (st : GState) (hinfo : ∀ p ∈ st.bodyS, InfoOK st.vars p) (b : Nat) :
    ∀ s ∈ (st.header b).map (·.stmt), s.reads = [] ∧ ∀ o ∈ s.outputVars, reuseV st.vars o = false := by
  intro s hs
  constructor
  · apply List.eq_nil_iff_forall_not_mem.2
    intro w hw
    have := Stmt.reads_sub_inputVars s w hw
    rw [header_noinputs st b s hs] at this
    simp at this
  · obtain ⟨x, hx, rfl⟩ := List.mem_map.1 hs
    unfold GState.header at hx
    split at hx
    · rcases List.mem_append.1 hx with h | h
      · obtain ⟨c, _, rfl⟩ := List.mem_map.1 h
        intro o ho
        simp [Stmt.outputVars] at ho
      · rw [List.mem_reverse] at h
        obtain ⟨p, hp, rfl⟩ := List.mem_map.1 h
        obtain ⟨hp1, hp2⟩ := List.mem_filter.1 hp
        intro o ho
        exact (hinfo (p.1, p.2.stmt) (List.mem_map.2 ⟨p, hp1, rfl⟩) o ho).2 hp2
    · simp at hx

/-- **Text order**: the groups of `fuseAll` satisfy `fuseSafe` and `entrySafe` on the text of every block. -/
theorem fuseAll_text_safe (fc : FCfg) (hL : fc.checkLater = true) (hB : fc.checkBlock = true) (st : GState) (n : Nat)
    (hnd : (outsOf st.program).Nodup) (hcl : liveIn st.program = []) (hblk : ∀ p ∈ st.body, p.1 < n)
    (hinfo : ∀ p ∈ st.bodyS, InfoOK st.vars p) (b : Nat) :
    fuseSafe (fun v => (fuseAll fc st n)[v]?.getD v) ((st.block b).map (·.stmt)) = true ∧
    entrySafe (fun v => (fuseAll fc st n)[v]?.getD v) ((st.block b).map (·.stmt)) = true := by
  rw [block_stmts]
  have hP := bodyS_program st
  exact text_safe st.bodyS (blockOfV st.vars) (reuseV st.vars) n (fuseAll fc st n) (fuseAll_finv fc hL hB st n hnd hcl hblk)
    (by rw [hP]; exact hnd) (by rw [hP]; exact hcl) hinfo b _ (header_props st hinfo b)

end Einx.Compile
