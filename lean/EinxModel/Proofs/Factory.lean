import EinxModel.Factory.Check
/-! Helper lemmas for Props/C13.lean (core Lean only). -/
namespace Einx.Factory
open Einx.Extracted

/-! ### The property's own reading of "declares a keyword" (independent of `Extracted`) -/

/-- A factory may receive keyword `k` iff it takes `**kwargs` or declares `k` as a keyword-capable parameter. -/
def Spec.declares (s : Sig) (k : String) : Bool :=
  s.params.any (fun p => p.2 == ParamKind.varKw) ||
  s.params.any (fun p => p.1 == k && (p.2 == ParamKind.posOrKw || p.2 == ParamKind.kwOnly))

/-- The optional keywords named by the property. -/
def Spec.optionalKeywords : List String := ["name", "arg_index", "signature"]

theorem varKw_pred : (fun p : String × ParamKind => Factory.varKwKinds.contains p.2.pyName) = (fun p => p.2 == ParamKind.varKw) := by
  funext p
  cases p.2 <;> decide

theorem declared_pred (k : String) :
    (fun p : String × ParamKind => p.1 == k && Factory.declaredKinds.contains p.2.pyName) =
    (fun p => p.1 == k && (p.2 == ParamKind.posOrKw || p.2 == ParamKind.kwOnly)) := by
  funext p
  cases p.2 <;> simp [Factory.declaredKinds, ParamKind.pyName]

/-- The rule extracted from `_call_tensorfactory.use_parameter` is the property's rule. -/
theorem useParameter_eq_spec (s : Sig) (k : String) : useParameter s k = Spec.declares s k := by
  unfold useParameter Spec.declares hasVarKwargs declaresKw
  rw [varKw_pred, declared_pred]
  simp [Factory.useParamVarKwDisjunct, Factory.useParamRequiresDeclared]

/-- The keywords offered to the factory at argument index `i`, with their values, in dict order. -/
def Spec.offered (opName : Option String) (i : Nat) : List (String × KwVal) :=
  [("signature", KwVal.signature), ("arg_index", KwVal.argIndex i)] ++
    (match opName with | some n => [("name", KwVal.opName n)] | none => [])

theorem offered_eq (c : Ctx) (i : Nat) : offered c i = Spec.offered c.opName i := by
  unfold offered Spec.offered
  cases h : c.opName <;>
    simp [Factory.perCallKeywords, Factory.opsKeywords, Factory.factoryKwargsMergedRight, Factory.argIndexFromEnumerate, kwVal, h]

theorem passed_eq (c : Ctx) (i : Nat) (sig : Sig) :
    passed c i sig = (offered c i).filter (fun kv => Spec.declares sig kv.1) := by
  unfold passed
  simp [Factory.kwargsFilteredByUseParameter, useParameter_eq_spec]

/-! ### Counting calls in the model's node list -/

theorem callAll_count (c : Ctx) (v : Ref) : ∀ (args : List Arg) (base i : Nat),
    (callAll c base i args).1.countP (Node.callsRef v) = args.countP (fun a => a.factory.isSome && a.value == v) := by
  intro args
  induction args with
  | nil => intro base i; simp [callAll]
  | cons a as ih =>
    intro base i
    simp only [callAll, List.countP_append, List.countP_cons]
    rw [ih]
    cases hf : a.factory with
    | none => simp [callTensorFactory, hf]
    | some sig => simp [callTensorFactory, hf, Node.callsRef]; omega

theorem assertStep_noCall (c : Ctx) (v : Ref) (base : Nat) (x : Ref) (solved : List Nat) (s : String) :
    (assertStep c base x solved s).1.countP (Node.callsRef v) = 0 := by
  unfold assertStep
  split
  · simp [Node.callsRef]
  · split <;> simp [Node.callsRef]

theorem assertSteps_noCall (c : Ctx) (v : Ref) (solved : List Nat) : ∀ (ss : List String) (base : Nat) (x : Ref),
    (assertSteps c solved base x ss).1.countP (Node.callsRef v) = 0 := by
  intro ss
  induction ss with
  | nil => intro base x; simp [assertSteps]
  | cons s ss ih =>
    intro base x
    simp only [assertSteps, List.countP_append]
    rw [ih, assertStep_noCall]

theorem assertOutput_noCall (c : Ctx) (v : Ref) (base : Nat) (x : Ref) (called : Bool) (solved : List Nat) :
    (assertOutput c base x called solved).1.countP (Node.callsRef v) = 0 := by
  unfold assertOutput
  split
  · split
    · simp [List.countP_append, assertSteps_noCall, Node.callsRef]
    · exact assertSteps_noCall ..
  · simp

theorem assertAll_noCall (c : Ctx) (v : Ref) : ∀ (xs : List ((Ref × Bool) × Arg)) (base : Nat),
    (assertAll c base xs).1.countP (Node.callsRef v) = 0 := by
  intro xs
  induction xs with
  | nil => intro base; simp [assertAll]
  | cons x xs ih =>
    intro base
    obtain ⟨x, a⟩ := x
    simp only [assertAll, List.countP_append]
    rw [ih, assertOutput_noCall]

theorem eq_of_value_eq : ∀ (args : List Arg), (args.map (·.value)).Nodup → ∀ a ∈ args, ∀ b ∈ args, a.value = b.value → a = b := by
  intro args
  induction args with
  | nil => intro _ a ha; cases ha
  | cons x xs ih =>
    intro hnd a ha b hb hv
    simp only [List.map_cons, List.nodup_cons] at hnd
    rcases List.mem_cons.mp ha with rfl | ha' <;> rcases List.mem_cons.mp hb with rfl | hb'
    · rfl
    · exact absurd (hv ▸ List.mem_map_of_mem hb') hnd.1
    · exact absurd (hv ▸ List.mem_map_of_mem ha') hnd.1
    · exact ih hnd.2 a ha' b hb' hv

theorem countP_value_zero (v : Ref) : ∀ (args : List Arg), v ∉ args.map (·.value) →
    args.countP (fun b => b.factory.isSome && b.value == v) = 0 := by
  intro args h
  apply List.countP_eq_zero.mpr
  intro b hb
  have : b.value ≠ v := fun e => h (e ▸ List.mem_map_of_mem hb)
  simp [this]

theorem countP_value_one : ∀ (args : List Arg), (args.map (·.value)).Nodup → ∀ a ∈ args, a.factory.isSome = true →
    args.countP (fun b => b.factory.isSome && b.value == a.value) = 1 := by
  intro args
  induction args with
  | nil => intro _ a ha; cases ha
  | cons b bs ih =>
    intro hnd a ha hf
    simp only [List.map_cons, List.nodup_cons] at hnd
    rw [List.countP_cons]
    rcases List.mem_cons.mp ha with rfl | hab
    · rw [countP_value_zero _ _ hnd.1]; simp [hf]
    · have hne : b.value ≠ a.value := fun e => hnd.1 (e ▸ List.mem_map_of_mem hab)
      rw [ih hnd.2 a hab hf]; simp [hne]

/-! ### Position of the call and of the guard block -/

theorem callAll_snd_length (c : Ctx) : ∀ (args : List Arg) (base i : Nat), (callAll c base i args).2.length = args.length := by
  intro args
  induction args with
  | nil => intro base i; simp [callAll]
  | cons a as ih => intro base i; simp [callAll, ih]

/-- The `p`-th argument, if a factory, gets one call node (relative index `k`), and `xs[p] = (node (base+k), True)`. -/
theorem callAll_at (c : Ctx) : ∀ (args : List Arg) (base i p : Nat) (a : Arg) (sig : Sig),
    args[p]? = some a → a.factory = some sig →
    ∃ k, (callAll c base i args).2[p]? = some (Ref.node (base + k), true) ∧
         (callAll c base i args).1[k]? = some (Node.call a.value (Factory.callArgs.map (argVal a)) (passed c (i + p) sig) c.deps) := by
  intro args
  induction args with
  | nil => intro base i p a sig h; simp at h
  | cons b bs ih =>
    intro base i p a sig h hf
    cases p with
    | zero =>
      simp at h
      subst h
      refine ⟨0, ?_, ?_⟩
      · simp [callAll, callTensorFactory, hf]
      · simp [callAll, callTensorFactory, hf]
    | succ p =>
      simp at h
      obtain ⟨k, h1, h2⟩ := ih (base + (callTensorFactory c base i b).1.length) (i + 1) p a sig h hf
      refine ⟨(callTensorFactory c base i b).1.length + k, ?_, ?_⟩
      · simp only [callAll, List.getElem?_cons_succ]
        rw [h1]; simp [Nat.add_assoc]
      · simp only [callAll]
        rw [List.getElem?_append_right (by omega)]
        have : i + 1 + p = i + (p + 1) := by omega
        simpa [this] using h2

/-- Non-factory arguments are handed through unchanged, with `called = False`. -/
theorem callAll_at_tensor (c : Ctx) : ∀ (args : List Arg) (base i p : Nat) (a : Arg),
    args[p]? = some a → a.factory = none → (callAll c base i args).2[p]? = some (a.value, false) := by
  intro args
  induction args with
  | nil => intro base i p a h; simp at h
  | cons b bs ih =>
    intro base i p a h hf
    cases p with
    | zero => simp at h; subst h; simp [callAll, callTensorFactory, hf]
    | succ p => simp at h; simp only [callAll, List.getElem?_cons_succ]; exact ih _ _ p a h hf

/-- The seven nodes `_assert_output` inserts behind a factory result `x`, when the first gets index `b`. -/
def guardBlock (deps : List Ref) (x : Ref) (b : Nat) (solved : List Nat) : List Node :=
  [.isinstance x deps, .assert x (.node b), .getShape (.node (b + 1)), .tupleOf (.node (b + 2)) deps,
   .eqShape (.node (b + 3)) solved, .assert (.node (b + 1)) (.node (b + 4)), .castTensor (.node (b + 5)) solved]

theorem assertOutput_called (c : Ctx) (base : Nat) (x : Ref) (solved : List Nat) :
    assertOutput c base x true solved = (guardBlock c.deps x base solved, Ref.node (base + 6)) := by
  simp [assertOutput, assertSteps, assertStep, Factory.assertSequence, Factory.assertsGuardedByCalled, Factory.castAfterAsserts,
        guardBlock, Nat.add_assoc]

theorem assertOutput_notCalled (c : Ctx) (base : Nat) (x : Ref) (solved : List Nat) :
    assertOutput c base x false solved = ([], x) := by
  simp [assertOutput, Factory.assertsGuardedByCalled]

theorem assertAll_at (c : Ctx) : ∀ (xs : List ((Ref × Bool) × Arg)) (base p : Nat) (x : Ref) (a : Arg),
    xs[p]? = some ((x, true), a) →
    ∃ k, ((assertAll c base xs).1.drop k).take 7 = guardBlock c.deps x (base + k) a.solved ∧
         (assertAll c base xs).2[p]? = some (Ref.node (base + k + 6)) := by
  intro xs
  induction xs with
  | nil => intro base p x a h; simp at h
  | cons y ys ih =>
    intro base p x a h
    obtain ⟨y, b⟩ := y
    cases p with
    | zero =>
      simp at h
      obtain ⟨rfl, rfl⟩ := h
      refine ⟨0, ?_, ?_⟩
      · simp only [assertAll, assertOutput_called, List.drop_zero, Nat.add_zero]
        exact List.take_left' (by simp [guardBlock])
      · simp [assertAll, assertOutput_called]
    | succ p =>
      simp at h
      obtain ⟨k, h1, h2⟩ := ih (base + (assertOutput c base y.1 y.2 b.solved).1.length) p x a h
      refine ⟨(assertOutput c base y.1 y.2 b.solved).1.length + k, ?_, ?_⟩
      · simp only [assertAll]
        rw [← List.drop_drop, List.drop_left]
        simpa [Nat.add_assoc] using h1
      · simp only [assertAll, List.getElem?_cons_succ]
        rw [h2]; simp [Nat.add_assoc]

theorem assertAll_at_tensor (c : Ctx) : ∀ (xs : List ((Ref × Bool) × Arg)) (base p : Nat) (x : Ref) (a : Arg),
    xs[p]? = some ((x, false), a) → (assertAll c base xs).2[p]? = some x := by
  intro xs
  induction xs with
  | nil => intro base p x a h; simp at h
  | cons y ys ih =>
    intro base p x a h
    obtain ⟨y, b⟩ := y
    cases p with
    | zero => simp at h; obtain ⟨rfl, rfl⟩ := h; simp [assertAll, assertOutput_notCalled]
    | succ p => simp at h; simp only [assertAll, List.getElem?_cons_succ]; exact ih _ p x a h

/-! ### Trace purity of the model: every call-like node carries the `depend_on` stack -/

def Node.depsOK (d : List Ref) : Node → Bool
  | .call _ _ _ deps => deps == d
  | .isinstance _ deps => deps == d
  | .tupleOf _ deps => deps == d
  | _ => true

theorem callAll_depsOK (c : Ctx) : ∀ (args : List Arg) (base i : Nat), (callAll c base i args).1.all (Node.depsOK c.deps) = true := by
  intro args
  induction args with
  | nil => intro base i; simp [callAll]
  | cons a as ih =>
    intro base i
    simp only [callAll, List.all_append, ih, Bool.and_true]
    cases hf : a.factory <;> simp [callTensorFactory, hf, Node.depsOK]

theorem assertSteps_depsOK (c : Ctx) (solved : List Nat) : ∀ (ss : List String) (base : Nat) (x : Ref),
    (assertSteps c solved base x ss).1.all (Node.depsOK c.deps) = true := by
  intro ss
  induction ss with
  | nil => intro base x; simp [assertSteps]
  | cons s ss ih =>
    intro base x
    simp only [assertSteps, List.all_append, ih, Bool.and_true]
    unfold assertStep
    split
    · simp [Node.depsOK]
    · split <;> simp [Node.depsOK]

theorem assertAll_depsOK (c : Ctx) : ∀ (xs : List ((Ref × Bool) × Arg)) (base : Nat),
    (assertAll c base xs).1.all (Node.depsOK c.deps) = true := by
  intro xs
  induction xs with
  | nil => intro base; simp [assertAll]
  | cons x xs ih =>
    intro base
    obtain ⟨x, a⟩ := x
    simp only [assertAll, List.all_append, ih, Bool.and_true]
    unfold assertOutput
    split
    · split
      · simp [List.all_append, assertSteps_depsOK, Node.depsOK]
      · exact assertSteps_depsOK ..
    · simp

/-! ### Checker -/

theorem callsInput_mem_classUsers (g : Graph) (t i : Nat) (h : callsInput g t i = true) : i ∈ classUsers g t := by
  unfold callsInput at h
  unfold classUsers
  rw [List.mem_filter]
  cases ha : g.apps[i]? with
  | none => simp [ha] at h
  | some a =>
    have hlt : i < g.apps.length := by
      have := List.getElem?_eq_some_iff.mp ha
      exact this.1
    refine ⟨List.mem_range.mpr hlt, ?_⟩
    unfold usesAt
    rw [ha] at h ⊢
    obtain ⟨node, out⟩ := a
    cases node with
    | call fn args kwargs deps =>
      cases fn with
      | ref f =>
        simp at h
        simp [usesClass, GNode.isCast, GNode.operands, refsL, V.refs, h]
      | _ => simp at h
    | _ => simp at h

theorem filter_eq_singleton {α} [DecidableEq α] (P : α → Bool) (i : α) : ∀ (l : List α), l.Nodup → i ∈ l → P i = true →
    (∀ j ∈ l, P j = true → j = i) → l.filter P = [i] := by
  intro l
  induction l with
  | nil => intro _ h; cases h
  | cons x xs ih =>
    intro hnd hi hP huniq
    rw [List.nodup_cons] at hnd
    by_cases hx : x = i
    · subst hx
      have : xs.filter P = [] := by
        apply List.filter_eq_nil_iff.mpr
        intro j hj hPj
        have := huniq j (List.mem_cons_of_mem _ hj) (by simpa using hPj)
        exact hnd.1 (this ▸ hj)
      simp [List.filter_cons, hP, this]
    · have hi' : i ∈ xs := by
        rcases List.mem_cons.mp hi with h | h
        · exact absurd h.symm hx
        · exact h
      have hPx : P x = false := by
        cases h : P x with
        | false => rfl
        | true => exact absurd (huniq x (List.mem_cons_self ..) h) hx
      rw [List.filter_cons, hPx]
      simp only [Bool.false_eq_true, if_false]
      exact ih hnd.2 hi' hP (fun j hj => huniq j (List.mem_cons_of_mem _ hj))

/-! ### The guard chain of an accepted graph -/

theorem ensure_bind_ok {α} (b : Bool) (msg : String) (f : Unit → Except String α) (v : α)
    (h : (ensure b msg >>= f) = .ok v) : b = true ∧ f () = .ok v := by
  cases b <;> simp [ensure, bind, Except.bind, pure, Except.pure, throw, throwThe, MonadExceptOf.throw] at h ⊢
  exact h

/-- What an accepted guard is: the factory result `r` is consumed only by `isinstance(r, T)` (result `c1`) and
by `assert r, c1` (result `a1`); `c1` only by that assert; `a1` only by `a1.shape` (result `s`) and by the second
assert `assert a1, c2` (result `a2`); `s` only by `tuple(s)` (result `tt`); `tt` only by `tt == solved` (result
`c2`); `c2` only by the second assert.  ("Consumed" = operand of a non-`Cast` node, through any chain of `Cast`s.) -/
def GuardChain (g : Graph) (solved : List Nat) (r a2 : Nat) : Prop :=
  ∃ j1 j2 j3 j4 j5 j6 c1 a1 s tt c2 fn x ty d1 xs cond o xs2 cond2 fn2 y d2 lhs rhs,
    classUsers g r = [j1, j2] ∧
    g.apps[j1]? = some ⟨GNode.call fn [x, ty] [] d1, V.ref c1⟩ ∧ isBuiltin g fn "isinstance" = true ∧ refTo g x r = true ∧
    g.apps[j2]? = some ⟨GNode.assert xs cond, V.ref a1⟩ ∧ refTo g xs r = true ∧ refTo g cond c1 = true ∧
    classUsers g c1 = [j2] ∧
    classUsers g a1 = [j3, j6] ∧
    g.apps[j3]? = some ⟨GNode.getattr o "shape", V.ref s⟩ ∧ refTo g o a1 = true ∧
    classUsers g s = [j4] ∧
    g.apps[j4]? = some ⟨GNode.call fn2 [y] [] d2, V.ref tt⟩ ∧ isBuiltin g fn2 "tuple" = true ∧ refTo g y s = true ∧
    classUsers g tt = [j5] ∧
    g.apps[j5]? = some ⟨GNode.operator "==" [lhs, rhs], V.ref c2⟩ ∧ refTo g lhs tt = true ∧ rhs.asShape? = some solved ∧
    classUsers g c2 = [j6] ∧
    g.apps[j6]? = some ⟨GNode.assert xs2 cond2, V.ref a2⟩ ∧ refTo g xs2 a1 = true ∧ refTo g cond2 c2 = true

theorem checkGuard_chain (g : Graph) (solved : List Nat) (r a2 : Nat) (h : checkGuard g solved r = .ok a2) :
    GuardChain g solved r a2 := by
  unfold checkGuard at h
  split at h
  next j1 j2 hcu =>
    split at h
    next fn x ty d1 c1 h1 =>
      split at h
      next xs cond a1 h2 =>
        obtain ⟨e1, h⟩ := ensure_bind_ok _ _ _ _ h
        obtain ⟨e2, h⟩ := ensure_bind_ok _ _ _ _ h
        split at h
        next j3 j6 hcu2 =>
          split at h
          next o key s h3 =>
            split at h
            next xs2 cond2 a2' h6 =>
              obtain ⟨e3, h⟩ := ensure_bind_ok _ _ _ _ h
              split at h
              next j4 hcu3 =>
                split at h
                next fn2 y d2 tt h4 =>
                  obtain ⟨e4, h⟩ := ensure_bind_ok _ _ _ _ h
                  split at h
                  next j5 hcu4 =>
                    split at h
                    next op lhs rhs c2 h5 =>
                      obtain ⟨e5, h⟩ := ensure_bind_ok _ _ _ _ h
                      obtain ⟨e6, h⟩ := ensure_bind_ok _ _ _ _ h
                      obtain ⟨_, h⟩ := ensure_bind_ok _ _ _ _ h
                      simp only [pure, Except.pure, Except.ok.injEq] at h
                      subst h
                      simp only [Bool.and_eq_true, decide_eq_true_eq, beq_iff_eq] at e1 e2 e3 e4 e5 e6
                      obtain ⟨⟨hk, ho⟩, hx2⟩ := e3
                      obtain ⟨⟨hop, hl⟩, hr⟩ := e5
                      subst hk hop
                      exact ⟨j1, j2, j3, j4, j5, j6, c1, a1, s, tt, c2, fn, x, ty, d1, xs, cond, o, xs2, cond2, fn2, y, d2, lhs, rhs,
                        hcu, h1, e1.1.1.1, e1.1.1.2, h2, e1.1.2, e1.2, e2, hcu2, h3, ho, hcu3, h4, e4.1, e4.2, hcu4, h5, hl, hr,
                        e6.2, h6, hx2, e6.1⟩
                    next => simp [throw, throwThe, MonadExceptOf.throw] at h
                  next => simp [throw, throwThe, MonadExceptOf.throw] at h
                next => simp [throw, throwThe, MonadExceptOf.throw] at h
              next => simp [throw, throwThe, MonadExceptOf.throw] at h
            next => simp [throw, throwThe, MonadExceptOf.throw] at h
          next => simp [throw, throwThe, MonadExceptOf.throw] at h
        next => simp [throw, throwThe, MonadExceptOf.throw] at h
      next => simp [throw, throwThe, MonadExceptOf.throw] at h
    next => simp [throw, throwThe, MonadExceptOf.throw] at h
  next => simp [throw, throwThe, MonadExceptOf.throw] at h

end Einx.Factory
