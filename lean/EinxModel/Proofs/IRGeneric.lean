import EinxModel.IR.Generic
import EinxModel.Proofs.IR
namespace Einx.IR
open Einx

theorem evalProgG_map {ι α β : Type} (planOf : List (List Nat) → ι → E Plan)
    {A : Alg α} {B : Alg β} {h : α → β} (hh : Hom A B h) :
    ∀ (prog : List ι) (regs : List (Tensor α)),
      evalProgG planOf B prog (regs.map (Tensor.map h)) = (evalProgG planOf A prog regs).map (·.map (Tensor.map h))
  | [], regs => by simp [evalProgG, Except.map, pure, Except.pure]
  | i :: is, regs => by
    simp only [evalProgG, shapes_map]
    cases hp : planOf (regs.map (·.shape)) i with
    | error e => simp [bind, Except.bind, Except.map]
    | ok p =>
      simp only [bind, Except.bind]
      have := evalProgG_map planOf hh is (regs ++ [runPlan A regs p])
      simp only [List.map_append, List.map_cons, List.map_nil, ← runPlan_map hh] at this
      exact this

/-- Generic validator soundness (any instruction set). -/
theorem validateG_sound {ι : Type} (planOf : List (List Nat) → ι → E Plan)
    (prog : List ι) (outs : List Nat) (expected : List (Tensor Cell))
    (I : String → List Int → Int) (bad : Int) (xs : List (Tensor Int))
    (hlen : ∀ x ∈ xs, x.data.length = prod x.shape)
    (hv : validateG planOf prog (xs.map (·.shape)) outs expected = true) :
    ∃ regs, evalProgG planOf (intAlgOf I bad) prog xs = .ok regs ∧
      outs.map (fun r => regs[r]?) =
        expected.map (fun t => some (t.map (evalCell (intAlgOf I bad) xs))) := by
  unfold validateG at hv
  cases hs : symRunG planOf prog (xs.map (·.shape)) outs with
  | error e => simp [hs] at hv
  | ok res =>
    simp only [hs] at hv
    have heq := tensorsBeq_eq _ _ hv
    subst heq
    unfold symRunG at hs
    cases hr : evalProgG planOf symAlg prog (symInputs (xs.map (·.shape))) with
    | error e => simp [hr, bind, Except.bind] at hs
    | ok sregs =>
      simp only [hr, bind, Except.bind] at hs
      have hnat := evalProgG_map planOf (interp_hom I bad xs) prog (symInputs (xs.map (·.shape)))
      rw [symInputs_interp _ xs hlen, hr] at hnat
      refine ⟨_, hnat, ?_⟩
      cases hsel : selectRegs sregs outs with
      | none => simp [hsel] at hs
      | some ts =>
        simp only [hsel, pure, Except.pure, Except.ok.injEq] at hs
        subst hs
        exact selectRegs_map _ sregs outs ts hsel

/-- Symbolic equivalence of two programs implies equal outputs on all inputs and interpretations. -/
theorem equivG_sound {ι : Type} (planOf : List (List Nat) → ι → E Plan)
    (p1 p2 : List ι) (outs1 outs2 : List Nat)
    (I : String → List Int → Int) (bad : Int) (xs : List (Tensor Int))
    (hlen : ∀ x ∈ xs, x.data.length = prod x.shape)
    (hv : equivG planOf p1 p2 (xs.map (·.shape)) outs1 outs2 = true) :
    ∃ r1 r2, evalProgG planOf (intAlgOf I bad) p1 xs = .ok r1 ∧ evalProgG planOf (intAlgOf I bad) p2 xs = .ok r2 ∧
      outs1.map (fun r => r1[r]?) = outs2.map (fun r => r2[r]?) := by
  unfold equivG at hv
  cases h1 : symRunG planOf p1 (xs.map (·.shape)) outs1 with
  | error e => simp [h1] at hv
  | ok res1 =>
    cases h2 : symRunG planOf p2 (xs.map (·.shape)) outs2 with
    | error e => simp [h1, h2] at hv
    | ok res2 =>
      simp only [h1, h2] at hv
      have heq := tensorsBeq_eq _ _ hv
      subst heq
      have v1 : validateG planOf p1 (xs.map (·.shape)) outs1 res1 = true := by
        simp [validateG, h1, hv]
      have v2 : validateG planOf p2 (xs.map (·.shape)) outs2 res1 = true := by
        simp [validateG, h2, hv]
      obtain ⟨r1, e1, o1⟩ := validateG_sound planOf p1 outs1 res1 I bad xs hlen v1
      obtain ⟨r2, e2, o2⟩ := validateG_sound planOf p2 outs2 res1 I bad xs hlen v2
      exact ⟨r1, r2, e1, e2, o1.trans o2.symm⟩

end Einx.IR
