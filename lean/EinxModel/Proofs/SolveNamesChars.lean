import EinxModel.Proofs.SolveSem
/-!
Unique decoding of the variable names the solving model generates (`Solve/Tree.lean:expand`):

* node variables `#t/k(+/k….i.j` — `"#" ++ toString t`, then steps `"/" ++ toString k`, `"("`, `"+"`,
  then `idxSuffix idx`;
* axis variables `name.i.j` — `name ++ idxSuffix idx`.

Everything is done on `List Char` (`String.toList` is injective and a homomorphism for `++`).
`span_unique` is the one combinatorial fact: a list splits in exactly one way into a prefix whose
elements satisfy `p` and a rest that is empty or starts with an element failing `p`.
-/
namespace Einx.Solve

theorem span_unique {α : Type} (p : α → Prop) : ∀ (a a' r r' : List α), (∀ c ∈ a, p c) → (∀ c ∈ a', p c) →
    (∀ c, r.head? = some c → ¬ p c) → (∀ c, r'.head? = some c → ¬ p c) → a ++ r = a' ++ r' → a = a' ∧ r = r'
  | [], [], _, _, _, _, _, _, h => ⟨rfl, by simpa using h⟩
  | [], c :: t, r, r', _, h2, h3, _, h => by
    simp only [List.nil_append, List.cons_append] at h
    exact absurd (h2 c (by simp)) (h3 c (by rw [h]; rfl))
  | c :: t, [], r, r', h1, _, _, h4, h => by
    simp only [List.nil_append, List.cons_append] at h
    exact absurd (h1 c (by simp)) (h4 c (by rw [← h]; rfl))
  | c :: t, c' :: t', r, r', h1, h2, h3, h4, h => by
    simp only [List.cons_append, List.cons.injEq] at h
    obtain ⟨rfl, h⟩ := h
    obtain ⟨rfl, rfl⟩ := span_unique p t t' r r' (fun d hd => h1 d (by simp [hd])) (fun d hd => h2 d (by simp [hd])) h3 h4 h
    exact ⟨rfl, rfl⟩

/-- Splitting at the last occurrence of `x`. -/
theorem last_split_unique {α : Type} (x : α) (A A' d d' : List α) (hd : x ∉ d) (hd' : x ∉ d')
    (h : A ++ x :: d = A' ++ x :: d') : A = A' ∧ d = d' := by
  have hr := congrArg List.reverse h
  simp only [List.reverse_append, List.reverse_cons, List.append_assoc, List.singleton_append] at hr
  obtain ⟨h1, h2⟩ := span_unique (fun c => c ≠ x) d.reverse d'.reverse (x :: A.reverse) (x :: A'.reverse)
    (fun c hc he => hd (he ▸ List.mem_reverse.mp hc)) (fun c hc he => hd' (he ▸ List.mem_reverse.mp hc))
    (fun c hc => by simp only [List.head?_cons, Option.some.injEq] at hc; simp [hc])
    (fun c hc => by simp only [List.head?_cons, Option.some.injEq] at hc; simp [hc]) hr
  simp only [List.cons.injEq, true_and] at h2
  exact ⟨List.reverse_inj.mp h2, List.reverse_inj.mp h1⟩

/-! ### Decimal digits -/

/-- the characters of `toString k` -/
def digs (k : Nat) : List Char := Nat.toDigits 10 k

theorem toString_toList (k : Nat) : (toString k).toList = digs k := by simp [digs]

theorem digs_isDigit {k : Nat} {c : Char} (h : c ∈ digs k) : c.isDigit = true :=
  Nat.isDigit_of_mem_toDigits (by decide) (by decide) h

theorem digs_ne_nil (k : Nat) : digs k ≠ [] := Nat.toDigits_ne_nil

theorem digs_inj {k k' : Nat} (h : digs k = digs k') : k = k' := by
  have h1 : Nat.ofDigitChars 10 (digs k) 0 = k := Nat.ofDigitChars_ten_toDigits
  have h2 : Nat.ofDigitChars 10 (digs k') 0 = k' := Nat.ofDigitChars_ten_toDigits
  rw [← h1, ← h2, h]

theorem dot_not_digit : ('.' : Char).isDigit = false := by decide

theorem dot_not_mem_digs (k : Nat) : '.' ∉ digs k := fun h => by
  have := digs_isDigit h
  rw [dot_not_digit] at this
  cases this

theorem hash_not_mem_digs (k : Nat) : '#' ∉ digs k := fun h => by
  have := digs_isDigit h
  have h2 : ('#' : Char).isDigit = false := by decide
  rw [h2] at this
  cases this

/-- `digs k ++ r` decodes uniquely when `r` is empty or starts with a non-digit. -/
theorem digs_decode {k k' : Nat} {r r' : List Char} (hr : ∀ c, r.head? = some c → c.isDigit = false)
    (hr' : ∀ c, r'.head? = some c → c.isDigit = false) (h : digs k ++ r = digs k' ++ r') : k = k' ∧ r = r' := by
  obtain ⟨h1, h2⟩ := span_unique (fun c => c.isDigit = true) (digs k) (digs k') r r' (fun _ => digs_isDigit)
    (fun _ => digs_isDigit) (fun c hc => by simp [hr c hc]) (fun c hc => by simp [hr' c hc]) h
  exact ⟨digs_inj h1, h2⟩

/-! ### The index suffix `.i.j` -/

/-- the characters of `idxSuffix idx` -/
def sufL (idx : List Nat) : List Char := (idxSuffix idx).toList

theorem sufL_nil : sufL [] = [] := rfl

theorem sufL_cons (i : Nat) (l : List Nat) : sufL (i :: l) = '.' :: digs i ++ sufL l := by
  simp [sufL, idxSuffix, digs]

theorem sufL_append (l l' : List Nat) : sufL (l ++ l') = sufL l ++ sufL l' := by
  induction l with
  | nil => simp [sufL_nil]
  | cons i l ih => simp only [List.cons_append, sufL_cons, ih, List.append_assoc]

theorem sufL_snoc (l : List Nat) (i : Nat) : sufL (l ++ [i]) = sufL l ++ '.' :: digs i := by
  rw [sufL_append, sufL_cons, sufL_nil, List.append_nil]

theorem sufL_head (l : List Nat) (c : Char) (h : (sufL l).head? = some c) : c = '.' := by
  cases l with
  | nil => simp [sufL_nil] at h
  | cons i l => simp only [sufL_cons, List.cons_append, List.head?_cons, Option.some.injEq] at h; exact h.symm

theorem sufL_head_not_digit (l : List Nat) (c : Char) (h : (sufL l).head? = some c) : c.isDigit = false := by
  rw [sufL_head l c h]; exact dot_not_digit

theorem hash_not_mem_sufL (l : List Nat) : '#' ∉ sufL l := by
  induction l with
  | nil => simp [sufL_nil]
  | cons i l ih =>
    simp only [sufL_cons, List.cons_append, List.mem_cons, List.mem_append, not_or]
    exact ⟨by decide, hash_not_mem_digs i, ih⟩

theorem sufL_inj : ∀ (l l' : List Nat), sufL l = sufL l' → l = l'
  | [], [], _ => rfl
  | [], i :: l, h => by simp [sufL_nil, sufL_cons] at h
  | i :: l, [], h => by simp [sufL_nil, sufL_cons] at h
  | i :: l, i' :: l', h => by
    simp only [sufL_cons, List.cons_append, List.cons.injEq, true_and] at h
    obtain ⟨rfl, h2⟩ := digs_decode (sufL_head_not_digit l) (sufL_head_not_digit l') h
    rw [sufL_inj l l' h2]

/-- `w ++ sufL l` decodes uniquely when `w` contains no dot. -/
theorem dotfree_decode {w w' : List Char} {l l' : List Nat} (hw : '.' ∉ w) (hw' : '.' ∉ w')
    (h : w ++ sufL l = w' ++ sufL l') : w = w' ∧ l = l' := by
  obtain ⟨h1, h2⟩ := span_unique (fun c => c ≠ '.') w w' (sufL l) (sufL l') (fun c hc he => hw (he ▸ hc))
    (fun c hc he => hw' (he ▸ hc)) (fun c hc => by simp [sufL_head l c hc]) (fun c hc => by simp [sufL_head l' c hc]) h
  exact ⟨h1, sufL_inj l l' h2⟩

/-! ### Axis variables `name ++ idxSuffix idx` -/

/-- A name whose expanded variables `name.i.j` decode uniquely: it does not end in `.digits`
(sufficient: it contains no dot, or its last character is not a digit). -/
def GoodTail (s : List Char) : Prop := '.' ∈ s → ∀ c, s.getLast? = some c → c.isDigit = false

theorem not_goodTail_snoc (m : List Char) (t : List Nat) (i : Nat) : ¬ GoodTail (m ++ sufL t ++ '.' :: digs i) := by
  intro hg
  obtain ⟨c, hc⟩ : ∃ c, (digs i).getLast? = some c := by
    cases h : (digs i).getLast? with
    | none => exact absurd (List.getLast?_eq_none_iff.mp h) (digs_ne_nil i)
    | some c => exact ⟨c, rfl⟩
  have hlast : (m ++ sufL t ++ '.' :: digs i).getLast? = some c := by
    rw [List.getLast?_append, List.getLast?_cons, hc]
    rfl
  have := hg (by simp) c hlast
  rw [digs_isDigit (List.mem_of_getLast? hc)] at this
  cases this

theorem axisVar_decode_rev : ∀ (rl rl' : List Nat) (n m : List Char), GoodTail n → GoodTail m →
    n ++ sufL rl.reverse = m ++ sufL rl'.reverse → n = m ∧ rl = rl'
  | [], [], n, m, _, _, h => by simpa [sufL_nil] using h
  | [], i :: t, n, m, hn, _, h => by
    simp only [List.reverse_nil, sufL_nil, List.append_nil, List.reverse_cons, sufL_snoc] at h
    rw [← List.append_assoc] at h
    exact absurd (h ▸ hn) (not_goodTail_snoc m t.reverse i)
  | i :: t, [], n, m, _, hm, h => by
    simp only [List.reverse_nil, sufL_nil, List.append_nil, List.reverse_cons, sufL_snoc] at h
    rw [← List.append_assoc] at h
    exact absurd (h ▸ hm) (not_goodTail_snoc n t.reverse i)
  | i :: t, i' :: t', n, m, hn, hm, h => by
    simp only [List.reverse_cons, sufL_snoc] at h
    rw [← List.append_assoc, ← List.append_assoc] at h
    obtain ⟨h1, h2⟩ := last_split_unique '.' _ _ _ _ (dot_not_mem_digs i) (dot_not_mem_digs i') h
    obtain ⟨rfl, rfl⟩ := axisVar_decode_rev t t' n m hn hm h1
    rw [digs_inj h2]
    exact ⟨rfl, rfl⟩

/-- **Unique decoding of axis variables.** -/
theorem axisVar_decode {n m : List Char} {l l' : List Nat} (hn : GoodTail n) (hm : GoodTail m)
    (h : n ++ sufL l = m ++ sufL l') : n = m ∧ l = l' := by
  have := axisVar_decode_rev l.reverse l'.reverse n m hn hm (by simpa using h)
  exact ⟨this.1, List.reverse_inj.mp this.2⟩

end Einx.Solve
