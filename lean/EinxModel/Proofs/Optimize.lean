import EinxModel.Optimize.Rules
import EinxModel.Extracted.Kernels
import EinxModel.Proofs.IR
import Mathlib.Data.List.Nodup
import Mathlib.Data.List.Perm.Subperm
/-
Helper lemmas for C05: permutations as lists, validity of multi-indices by position, what `step`
computes for `transpose` / `reshape` / `broadcast_to` / `concatenate`.
-/
namespace Einx.Optimize
open Einx Einx.IR

/-! ### Multi-indices by position -/

theorem valid_iff_getD : ∀ {s i : List Nat},
    Valid s i ↔ i.length = s.length ∧ ∀ k, k < s.length → i.getD k 0 < s.getD k 0
  | [], [] => by simp; exact Valid.nil
  | [], _ :: _ => by simp; intro h; cases h
  | _ :: _, [] => by simp; intro h; cases h
  | a :: s, j :: i => by
    constructor
    · intro h
      cases h with
      | cons h1 h2 =>
        have ih := (valid_iff_getD (s := s) (i := i)).1 h2
        refine ⟨by simp [ih.1], ?_⟩
        intro k hk
        cases k with
        | zero => simpa using h1
        | succ k => simpa using ih.2 k (by simpa using hk)
    · rintro ⟨hl, hk⟩
      refine Valid.cons (by simpa using hk 0 (by simp)) ((valid_iff_getD (s := s) (i := i)).2 ⟨by simpa using hl, ?_⟩)
      intro k hk'
      simpa using hk (k + 1) (by simpa using hk')

theorem getD_map_range (n : Nat) (f : Nat → Nat) (a : Nat) (h : a < n) :
    ((List.range n).map f).getD a 0 = f a := by
  simp [List.getD, h]

/-! ### Permutations -/

/-- What `isPerm` gives. -/
structure PermOK (p : List Nat) (n : Nat) : Prop where
  len : p.length = n
  nodup : p.Nodup
  mem : ∀ a, a ∈ p ↔ a < n

theorem permOK_of_isPerm {p : List Nat} {n : Nat} (h : isPerm p n = true) : PermOK p n := by
  simp only [isPerm, Bool.and_eq_true, beq_iff_eq, List.all_eq_true, List.mem_range,
    List.contains_iff_mem] at h
  obtain ⟨hl, hc⟩ := h
  have hsub : List.range n ⊆ p := fun a ha => hc a (List.mem_range.1 ha)
  have hperm : (List.range n).Perm p :=
    (List.subperm_of_subset List.nodup_range hsub).perm_of_length_le (by simp [hl])
  exact ⟨hl, hperm.nodup_iff.1 List.nodup_range, fun a => by rw [← hperm.mem_iff, List.mem_range]⟩

theorem PermOK.idxOf_lt {p : List Nat} {n a : Nat} (h : PermOK p n) (ha : a < n) : p.idxOf a < n := by
  have := List.idxOf_lt_length_iff.2 ((h.mem a).2 ha)
  simpa [h.len] using this

theorem PermOK.getElem_idxOf {p : List Nat} {n a : Nat} (h : PermOK p n) (ha : a < n) :
    p[p.idxOf a]? = some a := by
  have hlt := List.idxOf_lt_length_iff.2 ((h.mem a).2 ha)
  rw [List.getElem?_eq_getElem hlt, List.getElem_idxOf hlt]

theorem PermOK.getElem_lt {p : List Nat} {n j : Nat} (h : PermOK p n) (hj : j < n) :
    ∃ a, p[j]? = some a ∧ a < n ∧ p.idxOf a = j := by
  have hj' : j < p.length := by simpa [h.len] using hj
  refine ⟨p[j], List.getElem?_eq_getElem hj', (h.mem _).1 (List.getElem_mem hj'), h.nodup.idxOf_getElem j hj'⟩

theorem permOK_range (n : Nat) : PermOK (List.range n) n :=
  ⟨by simp, List.nodup_range, fun _ => List.mem_range⟩

theorem idxOf_range {n a : Nat} (h : a < n) : (List.range n).idxOf a = a := by
  have := (List.nodup_range (n := n)).idxOf_getElem a (by simpa using h)
  simpa using this

/-! ### `Option`-valued comprehension -/

theorem mapM_some_length {α β : Type} (f : α → Option β) :
    ∀ (l : List α) (r : List β), l.mapM f = some r → r.length = l.length
  | [], r, h => by simp at h; simp [← h]
  | a :: l, r, h => by
    rw [List.mapM_cons] at h
    cases hfa : f a with
    | none => simp [hfa] at h
    | some b =>
      cases hl : l.mapM f with
      | none => simp [hfa, hl] at h
      | some r' =>
        simp [hfa, hl] at h
        subst h
        simp [mapM_some_length f l r' hl]

theorem mapM_some_getElem {α β : Type} (f : α → Option β) :
    ∀ (l : List α) (r : List β), l.mapM f = some r → ∀ (j : Nat) (a : α), l[j]? = some a → ∃ b, r[j]? = some b ∧ f a = some b
  | [], r, h, j, a, hj => by simp at hj
  | x :: l, r, h, j, a, hj => by
    rw [List.mapM_cons] at h
    cases hfa : f x with
    | none => simp [hfa] at h
    | some b =>
      cases hl : l.mapM f with
      | none => simp [hfa, hl] at h
      | some r' =>
        simp [hfa, hl] at h
        subst h
        cases j with
        | zero => simp at hj; subst hj; exact ⟨b, by simp, hfa⟩
        | succ j =>
          simp at hj
          obtain ⟨b', h1, h2⟩ := mapM_some_getElem f l r' hl j a hj
          exact ⟨b', by simpa using h1, h2⟩

theorem mapM_isSome {α β : Type} (f : α → Option β) :
    ∀ (l : List α), (∀ a ∈ l, (f a).isSome) → (l.mapM f).isSome
  | [], _ => by simp
  | x :: l, h => by
    rw [List.mapM_cons]
    have hx := h x (by simp)
    have hl := mapM_isSome f l (fun a ha => h a (by simp [ha]))
    cases hfa : f x with
    | none => simp [hfa] at hx
    | some b =>
      cases hr : l.mapM f with
      | none => simp [hr] at hl
      | some r => simp


/-! ### What `step` computes -/

theorem getShape_regs {α : Type} (regs : List (Tensor α)) (x : Nat) (t : Tensor α) (hx : regs[x]? = some t) :
    getShape (regs.map (·.shape)) x = .ok t.shape := by
  simp [getShape, List.getElem?_map, hx, pure, Except.pure]

theorem runPlan_tabulate {α : Type} (A : Alg α) (regs : List (Tensor α)) (s : List Nat) (f : List Nat → Cell) :
    runPlan A regs (tabulate s f) = ⟨s, (List.range (prod s)).map (fun k => evalCell A regs (f (unravel s k)))⟩ := by
  simp [runPlan, tabulate, evalCells_eq_map, Function.comp_def]

/-- Source multi-index read by the transpose plan at output multi-index `o`. -/
def gatherIdx (p : List Nat) (n : Nat) (o : List Nat) : List Nat :=
  (List.range n).map (fun a => o.getD (p.idxOf a) 0)

/-- Shape of `transpose x p` for an operand of shape `sx`. -/
def permShape (p sx : List Nat) : List Nat := p.map (fun a => sx.getD a 0)

theorem step_transpose {α : Type} (A : Alg α) (regs : List (Tensor α)) (x : Nat) (t : Tensor α) (p : List Nat)
    (hx : regs[x]? = some t) (hp : isPerm p t.shape.length = true) :
    step A regs (.transpose x p) = .ok ⟨permShape p t.shape,
      (List.range (prod (permShape p t.shape))).map (fun k =>
        readReg A regs x (ravel t.shape (gatherIdx p t.shape.length (unravel (permShape p t.shape) k))))⟩ := by
  simp only [step, planInstr, getShape_regs regs x t hx, bind, Except.bind, hp, Bool.not_true,
    Bool.false_eq_true, if_false, pure, Except.pure, runPlan_tabulate, evalCell]
  rfl


/-! ### Transposition: validity, shape and composition -/

theorem isPerm_of_permOK {p : List Nat} {n : Nat} (h : PermOK p n) : isPerm p n = true := by
  simp only [isPerm, Bool.and_eq_true, beq_iff_eq, List.all_eq_true, List.mem_range, List.contains_iff_mem]
  exact ⟨h.len, fun a ha => (h.mem a).2 ha⟩

theorem permShape_getD {p sx : List Nat} {j a : Nat} (hj : p[j]? = some a) :
    (permShape p sx).getD j 0 = sx.getD a 0 := by
  simp [permShape, List.getD, List.getElem?_map, hj]

theorem gatherIdx_getD {p : List Nat} {n a : Nat} (o : List Nat) (ha : a < n) :
    (gatherIdx p n o).getD a 0 = o.getD (p.idxOf a) 0 := by
  simp [gatherIdx, List.getD, ha]

theorem valid_gather {p sx o : List Nat} {n : Nat} (hp : PermOK p n) (hs : sx.length = n)
    (ho : Valid (permShape p sx) o) : Valid sx (gatherIdx p n o) := by
  rw [valid_iff_getD] at ho ⊢
  refine ⟨by simp [gatherIdx, hs], ?_⟩
  intro a ha
  rw [hs] at ha
  rw [gatherIdx_getD o ha]
  have hj := hp.idxOf_lt ha
  have := ho.2 (p.idxOf a) (by simpa [permShape, hp.len] using hj)
  rwa [permShape_getD (hp.getElem_idxOf ha)] at this

/-- The facts about the composed permutation that the extracted comprehension yields. -/
theorem compose_getElem {p1 p2 p : List Nat} {n : Nat} (h1 : PermOK p1 n) (h2 : PermOK p2 n)
    (hc : p2.mapM (fun q => p1[q]?) = some p) {j : Nat} (hj : j < n) :
    ∃ b a, p2[j]? = some b ∧ b < n ∧ p1[b]? = some a ∧ a < n ∧ p[j]? = some a := by
  obtain ⟨b, hb, hbn, _⟩ := h2.getElem_lt hj
  obtain ⟨a, ha, han, _⟩ := h1.getElem_lt hbn
  obtain ⟨a', ha', hfa⟩ := mapM_some_getElem _ p2 p hc j b hb
  rw [ha] at hfa
  cases hfa
  exact ⟨b, a, hb, hbn, ha, han, ha'⟩

theorem compose_permOK {p1 p2 p : List Nat} {n : Nat} (h1 : PermOK p1 n) (h2 : PermOK p2 n)
    (hc : p2.mapM (fun q => p1[q]?) = some p) : PermOK p n := by
  apply permOK_of_isPerm
  have hl : p.length = n := by rw [mapM_some_length _ p2 p hc, h2.len]
  simp only [isPerm, Bool.and_eq_true, beq_iff_eq, List.all_eq_true, List.mem_range, List.contains_iff_mem]
  refine ⟨hl, ?_⟩
  intro a ha
  have hb := h1.idxOf_lt ha
  have hj := h2.idxOf_lt hb
  obtain ⟨b', a', h2j, _, h1b, _, hpj⟩ := compose_getElem h1 h2 hc hj
  rw [h2.getElem_idxOf hb] at h2j
  cases h2j
  rw [h1.getElem_idxOf ha] at h1b
  cases h1b
  exact List.mem_of_getElem? hpj

theorem compose_idxOf {p1 p2 p : List Nat} {n a : Nat} (h1 : PermOK p1 n) (h2 : PermOK p2 n)
    (hc : p2.mapM (fun q => p1[q]?) = some p) (ha : a < n) :
    p.idxOf a = p2.idxOf (p1.idxOf a) := by
  have hp := compose_permOK h1 h2 hc
  have hb := h1.idxOf_lt ha
  have hj := h2.idxOf_lt hb
  obtain ⟨b', a', h2j, _, h1b, _, hpj⟩ := compose_getElem h1 h2 hc hj
  rw [h2.getElem_idxOf hb] at h2j
  cases h2j
  rw [h1.getElem_idxOf ha] at h1b
  cases h1b
  have hlt : p2.idxOf (p1.idxOf a) < p.length := by simpa [hp.len] using hj
  rw [List.getElem?_eq_getElem hlt] at hpj
  have hpj' : p[p2.idxOf (p1.idxOf a)] = a := by simpa using hpj
  have := hp.nodup.idxOf_getElem _ hlt
  rwa [hpj'] at this

theorem gather_gather {p1 p2 p : List Nat} {n : Nat} (h1 : PermOK p1 n) (h2 : PermOK p2 n)
    (hc : p2.mapM (fun q => p1[q]?) = some p) (o : List Nat) :
    gatherIdx p1 n (gatherIdx p2 n o) = gatherIdx p n o := by
  simp only [gatherIdx]
  apply List.map_congr_left
  intro a ha
  have ha := List.mem_range.1 ha
  have := gatherIdx_getD (p := p2) o (h1.idxOf_lt ha)
  simp only [gatherIdx] at this
  rw [this, compose_idxOf h1 h2 hc ha]

theorem permShape_compose {p1 p2 p sx : List Nat} {n : Nat} (h1 : PermOK p1 n) (h2 : PermOK p2 n)
    (hc : p2.mapM (fun q => p1[q]?) = some p) :
    permShape p2 (permShape p1 sx) = permShape p sx := by
  have hp := compose_permOK h1 h2 hc
  apply List.ext_getElem?
  intro j
  by_cases hj : j < n
  · obtain ⟨b, a, h2j, _, h1b, _, hpj⟩ := compose_getElem h1 h2 hc hj
    have e1 : (permShape p2 (permShape p1 sx))[j]? = some ((permShape p1 sx).getD b 0) := by
      simp [permShape, List.getElem?_map, h2j]
    have e2 : (permShape p sx)[j]? = some (sx.getD a 0) := by
      simp [permShape, List.getElem?_map, hpj]
    rw [e1, e2, permShape_getD h1b]
  · have l1 : (permShape p2 (permShape p1 sx)).length ≤ j := by simp [permShape, h2.len]; omega
    have l2 : (permShape p sx).length ≤ j := by simp [permShape, hp.len]; omega
    rw [List.getElem?_eq_none l1, List.getElem?_eq_none l2]


/-! ### Reading registers of an extended register file -/

theorem readReg_append_left {α : Type} (A : Alg α) (regs : List (Tensor α)) (y : Tensor α) (x k : Nat) (t : Tensor α)
    (hx : regs[x]? = some t) : readReg A (regs ++ [y]) x k = readReg A regs x k := by
  have hlt : x < regs.length := by
    rcases Nat.lt_or_ge x regs.length with h | h
    · exact h
    · rw [List.getElem?_eq_none h] at hx; cases hx
  simp [readReg, List.getElem?_append_left hlt]

theorem readReg_append_last {α : Type} (A : Alg α) (regs : List (Tensor α)) (y : Tensor α) (k : Nat) :
    readReg A (regs ++ [y]) regs.length k = (y.data[k]?).getD A.bad := by
  simp [readReg]

theorem getElem?_append_last {α : Type} (regs : List α) (y : α) : (regs ++ [y])[regs.length]? = some y := by
  simp

/-- **Two consecutive transposes are one transpose by the composed permutation** (at the level of one
`step` of the program evaluator, for every element algebra, every rank, every shape). -/
theorem transpose_transpose_step {α : Type} (A : Alg α) (regs : List (Tensor α)) (x : Nat) (t : Tensor α)
    (p1 p2 p : List Nat) (hx : regs[x]? = some t)
    (h1 : isPerm p1 t.shape.length = true) (h2 : isPerm p2 t.shape.length = true)
    (hc : p2.mapM (fun q => p1[q]?) = some p) :
    ∃ y z, step A regs (.transpose x p1) = .ok y ∧
      step A (regs ++ [y]) (.transpose regs.length p2) = .ok z ∧
      step A regs (.transpose x p) = .ok z := by
  have k1 := permOK_of_isPerm h1
  have k2 := permOK_of_isPerm h2
  have kp := compose_permOK k1 k2 hc
  have e1 := step_transpose A regs x t p1 hx h1
  have ep := step_transpose A regs x t p hx (isPerm_of_permOK kp)
  generalize hy : (⟨permShape p1 t.shape, (List.range (prod (permShape p1 t.shape))).map (fun k =>
        readReg A regs x (ravel t.shape (gatherIdx p1 t.shape.length (unravel (permShape p1 t.shape) k))))⟩ : Tensor α) = y at e1
  have hys : y.shape = permShape p1 t.shape := by rw [← hy]
  have hyd : y.data = (List.range (prod (permShape p1 t.shape))).map (fun k =>
        readReg A regs x (ravel t.shape (gatherIdx p1 t.shape.length (unravel (permShape p1 t.shape) k)))) := by rw [← hy]
  have hlen1 : (permShape p1 t.shape).length = t.shape.length := by simp [permShape, k1.len]
  have e2 := step_transpose A (regs ++ [y]) regs.length y p2 (getElem?_append_last regs y)
    (by rw [hys, hlen1]; exact h2)
  refine ⟨y, _, e1, e2, ?_⟩
  rw [ep, hys, hlen1, permShape_compose k1 k2 hc]
  congr 2
  apply List.map_congr_left
  intro k hk
  have hk := List.mem_range.1 hk
  have ho : Valid (permShape p2 (permShape p1 t.shape)) (unravel (permShape p t.shape) k) := by
    rw [permShape_compose k1 k2 hc]; exact unravel_valid _ _ hk
  have hv1 : Valid (permShape p1 t.shape) (gatherIdx p2 t.shape.length (unravel (permShape p t.shape) k)) :=
    valid_gather k2 hlen1 ho
  rw [readReg_append_last, hyd]
  have hlt := ravel_lt hv1
  simp only [List.getElem?_map, List.getElem?_range hlt, Option.map_some, Option.getD_some,
    unravel_ravel hv1, gather_gather k1 k2 hc]


/-! ### No-op rewrites -/

/-- Reading every element of a register whose data has the size its shape says gives back its data. -/
theorem readAll {α : Type} (A : Alg α) (regs : List (Tensor α)) (x : Nat) (t : Tensor α) (hx : regs[x]? = some t)
    (n : Nat) (hwf : t.data.length = n) :
    (List.range n).map (fun k => readReg A regs x k) = t.data := by
  apply List.ext_getElem
  · simp [hwf]
  · intro k h1 h2
    simp [readReg, hx, List.getElem?_eq_getElem h2]

theorem permShape_range (sx : List Nat) : permShape (List.range sx.length) sx = sx := by
  apply List.ext_getElem
  · simp [permShape]
  · intro k h1 h2
    simp [permShape, List.getD, List.getElem?_eq_getElem h2]

theorem gatherIdx_range {n : Nat} {o : List Nat} (ho : o.length = n) : gatherIdx (List.range n) n o = o := by
  apply List.ext_getElem
  · simp [gatherIdx, ho]
  · intro k h1 h2
    have hk : k < n := by simpa [gatherIdx] using h1
    simp [gatherIdx, idxOf_range hk, List.getD, List.getElem?_eq_getElem h2]

theorem transpose_id_step {α : Type} (A : Alg α) (regs : List (Tensor α)) (x : Nat) (t : Tensor α)
    (hx : regs[x]? = some t) (hwf : t.data.length = prod t.shape) :
    step A regs (.transpose x (List.range t.shape.length)) = .ok t := by
  rw [step_transpose A regs x t _ hx (isPerm_of_permOK (permOK_range _)), permShape_range]
  have : (List.range (prod t.shape)).map (fun k =>
      readReg A regs x (ravel t.shape (gatherIdx (List.range t.shape.length) t.shape.length (unravel t.shape k))))
      = (List.range (prod t.shape)).map (fun k => readReg A regs x k) := by
    apply List.map_congr_left
    intro k hk
    have hk := List.mem_range.1 hk
    have hv := unravel_valid t.shape k hk
    rw [gatherIdx_range (valid_length hv), ravel_unravel _ _ hk]
  rw [this, readAll A regs x t hx _ hwf]

theorem step_reshape {α : Type} (A : Alg α) (regs : List (Tensor α)) (x : Nat) (t : Tensor α) (s : List Nat)
    (hx : regs[x]? = some t) (hs : prod t.shape = prod s) :
    step A regs (.reshape x s) = .ok ⟨s, (List.range (prod s)).map (fun k => readReg A regs x k)⟩ := by
  simp only [step, planInstr, getShape_regs regs x t hx, bind, Except.bind, hs, bne_self_eq_false,
    Bool.false_eq_true, if_false, pure, Except.pure, runPlan, evalCells_eq_map, List.map_map]
  rfl

theorem step_reshape_error {α : Type} (A : Alg α) (regs : List (Tensor α)) (x : Nat) (t : Tensor α) (s : List Nat)
    (hx : regs[x]? = some t) (hs : prod t.shape ≠ prod s) :
    ∃ e, step A regs (.reshape x s) = .error e := by
  simp only [step, planInstr, getShape_regs regs x t hx, bind, Except.bind]
  simp only [bne_iff_ne, ne_eq, hs, not_false_eq_true, if_true, throw, throwThe, MonadExceptOf.throw]
  exact ⟨_, rfl⟩

theorem reshape_same_step {α : Type} (A : Alg α) (regs : List (Tensor α)) (x : Nat) (t : Tensor α)
    (hx : regs[x]? = some t) (hwf : t.data.length = prod t.shape) :
    step A regs (.reshape x t.shape) = .ok t := by
  rw [step_reshape A regs x t _ hx rfl, readAll A regs x t hx _ hwf]

theorem reshape_reshape_step {α : Type} (A : Alg α) (regs : List (Tensor α)) (x : Nat) (t : Tensor α)
    (s1 s2 : List Nat) (hx : regs[x]? = some t) (h1 : prod t.shape = prod s1) (h2 : prod s1 = prod s2) :
    ∃ y z, step A regs (.reshape x s1) = .ok y ∧
      step A (regs ++ [y]) (.reshape regs.length s2) = .ok z ∧
      step A regs (.reshape x s2) = .ok z := by
  refine ⟨_, _, step_reshape A regs x t s1 hx h1,
    step_reshape A (regs ++ [_]) regs.length _ s2 (getElem?_append_last regs _) h2, ?_⟩
  rw [step_reshape A regs x t s2 hx (h1.trans h2)]
  congr 2
  apply List.map_congr_left
  intro k hk
  have hk := List.mem_range.1 hk
  rw [readReg_append_last]
  simp [List.getElem?_range (show k < prod s1 by omega)]

theorem broadcastable_self : ∀ s : List Nat, broadcastable s s = true := by
  intro s
  simp only [broadcastable, Nat.le_refl, decide_true, Nat.sub_self, List.drop_zero, Bool.true_and,
    List.all_eq_true]
  intro ab hab
  have := List.of_mem_zip hab
  induction s with
  | nil => simp at hab
  | cons a s ih =>
    simp only [List.zip_cons_cons, List.mem_cons] at hab
    rcases hab with h | h
    · subst h; simp
    · exact ih h (List.of_mem_zip h)

theorem broadcastIndex_self {s o : List Nat} (h : Valid s o) : broadcastIndex s s o = o := by
  simp only [broadcastIndex, Nat.sub_self, List.drop_zero]
  induction h with
  | nil => simp
  | @cons a i ss is hi _ ih =>
    simp only [List.zip_cons_cons, List.map_cons, ih, List.cons.injEq, and_true]
    split
    · rename_i h1; simp at h1; omega
    · rfl

theorem broadcast_same_step {α : Type} (A : Alg α) (regs : List (Tensor α)) (x : Nat) (t : Tensor α)
    (hx : regs[x]? = some t) (hwf : t.data.length = prod t.shape) :
    step A regs (.broadcastTo x t.shape) = .ok t := by
  simp only [step, planInstr, getShape_regs regs x t hx, bind, Except.bind, broadcastable_self,
    Bool.not_true, Bool.false_eq_true, if_false, pure, Except.pure, runPlan_tabulate, evalCell]
  have : (List.range (prod t.shape)).map (fun k =>
      readReg A regs x (ravel t.shape (broadcastIndex t.shape t.shape (unravel t.shape k))))
      = (List.range (prod t.shape)).map (fun k => readReg A regs x k) := by
    apply List.map_congr_left
    intro k hk
    have hk := List.mem_range.1 hk
    rw [broadcastIndex_self (unravel_valid t.shape k hk), ravel_unravel _ _ hk]
  rw [this, readAll A regs x t hx _ hwf]


theorem set_getD_self (s : List Nat) (a : Nat) : s.set a (s.getD a 0) = s := by
  apply List.ext_getElem
  · simp
  · intro k h1 h2
    rw [List.getElem_set]
    split
    · rename_i h; subst h; simp [List.getD, List.getElem?_eq_getElem h2]
    · rfl

theorem concat_singleton_step {α : Type} (A : Alg α) (regs : List (Tensor α)) (x axis : Nat) (t : Tensor α)
    (hx : regs[x]? = some t) (hwf : t.data.length = prod t.shape) (hax : axis < t.shape.length) :
    step A regs (.concat [x] axis) = .ok t := by
  have hax' : ¬ (t.shape.length ≤ axis) := by omega
  simp only [step, planInstr, List.mapM_cons, List.mapM_nil, getShape_regs regs x t hx, bind, Except.bind,
    pure, Except.pure, ge_iff_le, hax', Bool.false_eq_true, if_false, List.all_cons, List.all_nil,
    beq_self_eq_true, Bool.and_self, Bool.not_true, List.map_cons, List.map_nil, List.foldl_cons, List.foldl_nil,
    Nat.zero_add, set_getD_self, runPlan_tabulate, List.zip_cons_cons, List.zip_nil_right]
  refine congrArg Except.ok ?_
  have hd := readAll A regs x t hx _ hwf
  cases t with
  | mk sh d =>
    simp only at hd hax hwf ⊢
    congr 1
    rw [← hd]
    apply List.map_congr_left
    intro k hk
    have hk := List.mem_range.1 hk
    have hv := unravel_valid sh k hk
    have hlt := ((valid_iff_getD).1 hv).2 axis hax
    simp only [planInstr.find, hlt, if_true, set_getD_self, evalCell, ravel_unravel _ _ hk]


/-! ### Symbolic runs speak for all tensor contents -/

/-- A successful symbolic run determines every concrete run (the core of `validate_sound`). -/
theorem symRun_sound (prog : List Instr) (outs : List Nat) (res : List (Tensor Cell))
    (I : String → List Int → Int) (bad : Int) (xs : List (Tensor Int))
    (hlen : ∀ x ∈ xs, x.data.length = prod x.shape)
    (hs : symRun prog (xs.map (·.shape)) outs = .ok res) :
    ∃ regs, evalProg (intAlgOf I bad) prog xs = .ok regs ∧
      outs.map (fun r => regs[r]?) = res.map (fun t => some (t.map (evalCell (intAlgOf I bad) xs))) := by
  unfold symRun at hs
  cases hr : evalProg symAlg prog (symInputs (xs.map (·.shape))) with
  | error e => simp [hr, bind, Except.bind] at hs
  | ok sregs =>
    simp only [hr, bind, Except.bind] at hs
    have hnat := evalProg_map (interp_hom I bad xs) prog (symInputs (xs.map (·.shape)))
    rw [symInputs_interp _ xs hlen, hr] at hnat
    refine ⟨_, hnat, ?_⟩
    cases hsel : selectRegs sregs outs with
    | none => simp [hsel] at hs
    | some ts =>
      simp only [hsel, pure, Except.pure, Except.ok.injEq] at hs
      subst hs
      exact selectRegs_map _ sregs outs ts hsel

/-! ### The pass loop -/

theorem fix_unfold {G : Type} (P : PassModel G) (g : G) :
    P.fix g = if (P.pass g).2 = true then ((P.fix (P.pass g).1).1, (P.fix (P.pass g).1).2 + 1) else ((P.pass g).1, 1) := by
  rw [PassModel.fix]
  split <;> rfl

theorem fix_iter_aux {G : Type} (P : PassModel G) :
    ∀ (n : Nat) (g : G), P.measure g ≤ n → ∀ fuel, n + 1 ≤ fuel →
      P.iter fuel g = some (P.fix g) ∧ (P.fix g).2 ≤ n + 1
  | n, g, hm, 0, hf => by omega
  | n, g, hm, fuel + 1, hf => by
    rw [fix_unfold]
    simp only [PassModel.iter]
    by_cases hc : (P.pass g).2 = true
    · have hd := P.decreases g hc
      cases n with
      | zero => omega
      | succ n =>
        have ih := fix_iter_aux P n (P.pass g).1 (by omega) fuel (by omega)
        simp only [hc, if_true, ih.1, Option.map_some]
        exact ⟨trivial, by omega⟩
    · simp only [hc, Bool.false_eq_true, if_false]
      exact ⟨trivial, by omega⟩


/-! ### The term model of a pass -/

theorem rewrite_facts (t : Term) :
    (rewrite t).1.size ≤ t.size ∧ ((rewrite t).2 = true → (rewrite t).1.size < t.size) ∧
      ((rewrite t).2 = false → (rewrite t).1 = t) := by
  induction t using rewrite.induct
  case case16 x y axis hn ihx ihy =>
    cases hx : (rewrite x).2 <;> cases hy : (rewrite y).2 <;> simp_all [rewrite, Term.size] <;> omega
  case case18 f x y s ihx ihy =>
    cases hx : (rewrite x).2 <;> cases hy : (rewrite y).2 <;> simp_all [rewrite, Term.size] <;> omega
  all_goals (simp_all [rewrite, Term.size] <;> omega)

/-- The pass loop instantiated with the term model of the six patterns. -/
def termPassModel : PassModel Term :=
  { pass := rewrite, measure := Term.size, decreases := fun t h => (rewrite_facts t).2.1 h }

/-! ### Programs of one and two instructions -/

theorem evalProg_one {α : Type} (A : Alg α) (regs : List (Tensor α)) (i : Instr) (t : Tensor α)
    (h : step A regs i = .ok t) : evalProg A [i] regs = .ok (regs ++ [t]) := by
  rw [evalProg_cons, h]; rfl

theorem evalProg_two {α : Type} (A : Alg α) (regs : List (Tensor α)) (i j : Instr) (y z : Tensor α)
    (h1 : step A regs i = .ok y) (h2 : step A (regs ++ [y]) j = .ok z) :
    evalProg A [i, j] regs = .ok (regs ++ [y] ++ [z]) := by
  rw [evalProg_cons, h1]
  show evalProg A [j] (regs ++ [y]) = _
  exact evalProg_one A _ j z h2

theorem evalProg_one_error {α : Type} (A : Alg α) (regs : List (Tensor α)) (i : Instr) (is : List Instr) (e : String)
    (h : step A regs i = .error e) : evalProg A (i :: is) regs = .error e := by
  rw [evalProg_cons, h]; rfl

theorem evalProg_two_error {α : Type} (A : Alg α) (regs : List (Tensor α)) (i j : Instr) (y : Tensor α) (e : String)
    (h1 : step A regs i = .ok y) (h2 : step A (regs ++ [y]) j = .error e) :
    evalProg A [i, j] regs = .error e := by
  rw [evalProg_cons, h1]
  show evalProg A [j] (regs ++ [y]) = _
  exact evalProg_one_error A _ j [] e h2

end Einx.Optimize
