import EinxModel.Proofs.Stb
import EinxModel.Proofs.PyPrelude
import EinxModel.Generic.StbPrims
/-! Helper lemmas for `Props/C17Xlate.lean`: the hand model of `_squeeze_transpose_broadcast`
(`Generic/Stb.lean`) restated in the vocabulary of the translation (`Basic/PyPrelude.lean`: sets as
duplicate-free lists, `index`, dicts as association lists).  Nothing here mentions `Extracted/*`. -/
namespace Einx.Generic
open Einx.Py

theorem filter_const_true {α : Type} (l : List α) : l.filter (fun _ => true) = l := by
  induction l with
  | nil => rfl
  | cons a t ih => simp [List.filter, ih]

/-- One iteration of the loop of `_to_axis_ids` on the pair (axes, counts): the count of the name so far
is read from the dict, the pair is appended, the count is incremented. -/
def idsStep (p : List (String × Nat) × List (String × Nat)) (a : Ax) : List (String × Nat) × List (String × Nat) :=
  (p.1 ++ [(a.name, dictGetD p.2 a.name 0)], dictSet p.2 a.name (dictGetD p.2 a.name 0 + 1))

/-- The dict of counts of `_to_axis_ids` is the multiset of names seen so far. -/
theorem idsStep_fold : ∀ (e : List Ax) (axes counts : List (String × Nat)) (seen : List String),
    (∀ n, dictGetD counts n 0 = seen.count n) →
    (e.foldl idsStep (axes, counts)).1 = axes ++ idsAux seen (names e)
  | [], axes, counts, seen, _ => by simp [names, idsAux]
  | a :: e, axes, counts, seen, h => by
    simp only [List.foldl_cons, names, List.map_cons, idsAux]
    have := idsStep_fold e (axes ++ [(a.name, dictGetD counts a.name 0)]) (dictSet counts a.name (dictGetD counts a.name 0 + 1))
      (a.name :: seen) (by
        intro n
        rw [dictGetD_dictSet, List.count_cons, h, h]
        by_cases hn : n = a.name
        · subst hn; simp
        · have : (n == a.name) = false := by simpa using hn
          have h2 : (a.name == n) = false := by simpa using (fun h => hn h.symm)
          simp [this, h2])
    simp only [idsStep] at this ⊢
    rw [this, h, names]
    simp

/-- The squeeze decision phrased with Python sets (`set(squeezable) - set(out_axes)`, `len(...) > 0`,
`a.name in squeeze_axes`) is the one of the model (list filters). -/
theorem squeeze_eq (s : St) (ein eout : List Ax) :
    (let sa := setDiff (setOf ((ein.filter (fun a => a.len == 1)).map (fun a => a.name))) (setOf (eout.map (fun a => a.name)))
     if decide (sa.length > 0) = true then
       (ein.filter (fun a => !sa.contains a.name), reshapeW s (lens (ein.filter (fun a => !sa.contains a.name))))
     else (ein, s))
    = squeezeStep s ein eout := by
  unfold squeezeStep
  simp only
  have hmem : ∀ n, n ∈ setDiff (setOf ((ein.filter (fun a => a.len == 1)).map (fun a => a.name))) (setOf (eout.map (fun a => a.name)))
      ↔ n ∈ (names (ein.filter (fun a => a.len == 1))).filter (fun n => !(names eout).contains n) := by
    intro n
    rw [mem_setDiff, mem_setOf, mem_setOf]
    simp [names]
  have hc : ∀ n, (setDiff (setOf ((ein.filter (fun a => a.len == 1)).map (fun a => a.name))) (setOf (eout.map (fun a => a.name)))).contains n
      = ((names (ein.filter (fun a => a.len == 1))).filter (fun n => !(names eout).contains n)).contains n := by
    intro n
    have := hmem n
    rw [Bool.eq_iff_iff]
    simpa using this
  rw [decide_length_pos_congr _ _ hmem]
  simp only [hc, decide_eq_true_eq]

/-- The permutation step of the model, phrased with Python's comparison of two sets. -/
theorem transposeStep_eq (s1 : St) (ein1 eout : List Ax) :
    transposeStep s1 ein1 eout =
      if Py.setEq (setOf ((idsOf (names eout)).filter (fun a => (idsOf (names ein1)).contains a))) (setOf (idsOf (names ein1))) then
        .ok (transposeW s1 (((idsOf (names eout)).filter (fun a => (idsOf (names ein1)).contains a)).map (fun o => (idsOf (names ein1)).idxOf o)))
      else .error "an input axis does not appear in the corresponding output expression" := by
  unfold transposeStep
  simp only [setEq_setOf, Generic.setEq]
  rfl

/-- `[in_axes.index(a) for a in out_axes if a in in_axes]` never raises and is the list of first positions. -/
theorem perm_eq {α : Type} [BEq α] [LawfulBEq α] (l m : List α) :
    (l.filter (fun a => m.contains a)).mapM (fun o => index m o)
      = .ok ((l.filter (fun a => m.contains a)).map (fun o => m.idxOf o)) := by
  apply mapM_index_of_subset
  intro x hx
  have := (List.mem_filter.mp hx).2
  simpa using this

end Einx.Generic
