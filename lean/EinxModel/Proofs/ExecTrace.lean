import EinxModel.Proofs.ExecVisit
/-! Helper lemmas for `Props/C13Exec.lean` / `Props/C15Exec.lean`: the parts of a successful `compile`, the statement emitted
for a call of an opaque callable, and the tagged event trace of the emitted statements. -/
namespace Einx.Exec
open Einx.Compile

/-! ### The parts of a successful compilation -/

/-- The context `compile` builds. -/
def ctxOf (cfg : UCfg) (g : Graph) (scopes : Scopes) : Ctx :=
  { g := g, cfg := cfg, counts := (usageRec g cfg g.fuel g.top {}).counts, scopes := scopes }

theorem compile_parts (cfg : UCfg) (fc : FCfg) (g : Graph) (comp : Compiled) (h : compile cfg fc g = .ok comp) :
    ∃ scopes st, visitOrder g = .ok comp.order ∧ emitAll (ctxOf cfg g scopes) comp.order {} = .ok st ∧
      (comp.st.body = st.body ∨ ∃ v e, comp.st.body = st.body ++ [(0, ⟨.assign v e false, none⟩)]) := by
  unfold compile at h
  simp only [bind, Except.bind] at h
  cases hs : getScopes g g.fuel with
  | error err => simp [hs] at h
  | ok scopes =>
  simp only [hs] at h
  cases ho : visitOrder g with
  | error err => simp [ho] at h
  | ok order =>
  simp only [ho] at h
  cases he : emitAll { g := g, cfg := cfg, counts := (usageRec g cfg g.fuel g.top {}).counts, scopes := scopes } order {} with
  | error err => simp [he] at h
  | ok st =>
  simp only [he] at h
  cases hc : convTop st.cache g.top with
  | error err => simp [hc] at h
  | ok obj =>
  simp only [hc] at h
  have fin : ∀ (st' : GState) (cond : Prop) [Decidable cond] (mk : Compiled),
      mk.st = st' → mk.order = order →
      (st'.body = st.body ∨ ∃ v e, st'.body = st.body ++ [(0, ⟨.assign v e false, none⟩)]) →
      (if cond then (throw "RecursionError: Block.to_code" : Except String Unit) >>= fun _ => pure mk else pure mk) = .ok comp →
      ∃ scopes st, (Except.ok order : Except String (List Visit)) = .ok comp.order ∧ emitAll (ctxOf cfg g scopes) comp.order {} = .ok st ∧
        (comp.st.body = st.body ∨ ∃ v e, comp.st.body = st.body ++ [(0, ⟨.assign v e false, none⟩)]) := by
    intro st' cond _ mk h1 h2 h3 h4
    split at h4
    · simp [throw, throwThe, MonadExceptOf.throw, bind, Except.bind] at h4
    · simp only [pure, Except.pure, Except.ok.injEq] at h4
      subst h4
      rw [h2, h1]
      exact ⟨scopes, st, rfl, he, h3⟩
  split at h
  · exact fin _ _ _ rfl rfl (Or.inl rfl) h
  · cases hb : fc.bindResult with
    | false =>
      simp only [hb, Bool.false_eq_true, if_false] at h
      exact fin _ _ _ rfl rfl (Or.inl rfl) h
    | true =>
      simp only [hb, if_true] at h
      refine fin _ _ _ rfl rfl (Or.inr ⟨st.vars.length, obj, ?_⟩) h
      simp [GState.push]

/-! ### Statements and their sources -/

theorem emitVisit_src_ne (c : Ctx) (st st' : GState) (v : Visit) (i : Nat) (hv : v ≠ .app i)
    (h : emitVisit c st v = .ok st') :
    ∃ new, st'.body = st.body ++ new ∧ ∀ p ∈ new, p.2.src ≠ some i := by
  cases v with
  | app j =>
    cases ha : c.g.apps[j]? with
    | none => simp [emitVisit, ha, throw, throwThe, MonadExceptOf.throw] at h
    | some a =>
      obtain ⟨new, hb, _, _⟩ := emitVisit_app c st st' j a ha h
      refine ⟨_, hb, ?_⟩
      intro p hp
      simp only [tagWith, List.mem_map] at hp
      obtain ⟨q, _, rfl⟩ := hp
      intro hsrc
      simp only [Option.some.injEq] at hsrc
      exact hv (by rw [hsrc])
  | enter gi =>
    obtain ⟨new, hb⟩ := emitVisit_other c st st' (.enter gi) rfl h
    refine ⟨_, hb, ?_⟩
    intro p hp
    simp only [tagWith, List.mem_map] at hp
    obtain ⟨q, _, rfl⟩ := hp
    simp
  | exit gi =>
    obtain ⟨new, hb⟩ := emitVisit_other c st st' (.exit gi) rfl h
    refine ⟨_, hb, ?_⟩
    intro p hp
    simp only [tagWith, List.mem_map] at hp
    obtain ⟨q, _, rfl⟩ := hp
    simp

theorem emitAll_src_ne (c : Ctx) (i : Nat) (order : List Visit) : ∀ (st st' : GState), emitAll c order st = .ok st' →
    Visit.app i ∉ order → ∃ new, st'.body = st.body ++ new ∧ ∀ p ∈ new, p.2.src ≠ some i := by
  induction order with
  | nil =>
    intro st st' h _
    simp only [emitAll, List.foldlM, pure, Except.pure, Except.ok.injEq] at h
    subst h
    exact ⟨[], by simp, by simp⟩
  | cons v rest ih =>
    intro st st' h hni
    obtain ⟨s1, h1, h2⟩ := emitAll_cons c v rest st st' h
    simp only [List.mem_cons, not_or] at hni
    obtain ⟨n1, e1, p1⟩ := emitVisit_src_ne c st s1 v i (fun hv => hni.1 hv.symm) h1
    obtain ⟨n2, e2, p2⟩ := ih s1 st' h2 hni.2
    refine ⟨n1 ++ n2, by rw [e2, e1, List.append_assoc], ?_⟩
    intro p hp
    rcases List.mem_append.1 hp with hp | hp
    · exact p1 p hp
    · exact p2 p hp

theorem emitAll_append (c : Ctx) (l1 l2 : List Visit) (st st' : GState) (h : emitAll c (l1 ++ l2) st = .ok st') :
    ∃ s1, emitAll c l1 st = .ok s1 ∧ emitAll c l2 s1 = .ok st' := by
  induction l1 generalizing st with
  | nil => exact ⟨st, rfl, h⟩
  | cons v rest ih =>
    obtain ⟨s0, h0, h1⟩ := emitAll_cons c v (rest ++ l2) st st' h
    obtain ⟨s1, h2, h3⟩ := ih s0 h1
    refine ⟨s1, ?_, h3⟩
    simp only [emitAll, List.foldlM_cons, bind, Except.bind, h0]
    exact h2

/-- Every tagged statement was emitted for a visited application. -/
theorem emitAll_src_mem (c : Ctx) (order : List Visit) : ∀ (st st' : GState), emitAll c order st = .ok st' → ∀ (j : Nat),
    j ∈ st'.srcs → j ∈ st.srcs ∨ Visit.app j ∈ order := by
  induction order with
  | nil =>
    intro st st' h j hj
    simp only [emitAll, List.foldlM, pure, Except.pure, Except.ok.injEq] at h
    subst h
    exact Or.inl hj
  | cons v rest ih =>
    intro st st' h j hj
    obtain ⟨s1, h1, h2⟩ := emitAll_cons c v rest st st' h
    obtain ⟨l1, e1, sub1, _⟩ := emitVisit_srcs c st s1 v h1
    rcases ih s1 st' h2 j hj with hj | hj
    · rw [e1] at hj
      rcases List.mem_append.1 hj with hj | hj
      · exact Or.inl hj
      · right
        have := sub1.subset hj
        cases v with
        | app k =>
          simp only [Visit.src, Option.toList, List.mem_singleton] at this
          rw [this]; simp
        | enter g => simp [Visit.src] at this
        | exit g => simp [Visit.src] at this
    · exact Or.inr (List.mem_cons_of_mem _ hj)

/-! ### The statement of a call of an opaque callable -/

theorem mapM_ok_map {α β γ : Type} (f : α → Except String β) (p : β → γ) (q : α → γ)
    (hf : ∀ a b, f a = .ok b → p b = q a) : ∀ (l : List α) (bs : List β), l.mapM f = .ok bs → bs.map p = l.map q := by
  intro l
  induction l with
  | nil =>
    intro bs h
    simp only [List.mapM_nil, pure, Except.pure, Except.ok.injEq] at h
    subst h
    rfl
  | cons a rest ih =>
    intro bs h
    simp only [List.mapM_cons, bind, Except.bind] at h
    cases h1 : f a with
    | error err => simp [h1] at h
    | ok b =>
      cases h2 : List.mapM f rest with
      | error err => simp [h1, h2] at h
      | ok bs' =>
        simp only [h1, h2, pure, Except.pure, Except.ok.injEq] at h
        subst h
        simp only [List.map_cons, ih bs' h2, hf a b h1]

theorem mapM_ok_length {α β : Type} (f : α → Except String β) (l : List α) (bs : List β) (h : l.mapM f = .ok bs) :
    bs.length = l.length := by
  have := mapM_ok_map f (fun _ => ()) (fun _ => ()) (fun _ _ _ => rfl) l bs h
  simpa using congrArg List.length this

theorem convKw_names (cache : List (E × E)) (kwargs : List (String × E)) (ks : List E) (h : convKw cache kwargs = .ok ks) :
    ks.map kwName = kwargs.map (fun kv => some kv.1) := by
  refine mapM_ok_map _ kwName (fun kv => some kv.1) ?_ kwargs ks h
  intro kv e h1
  obtain ⟨k, v⟩ := kv
  simp only [bind, Except.bind] at h1
  cases hc : convTop cache v with
  | error err => simp [hc] at h1
  | ok v' =>
    simp only [hc, pure, Except.pure, Except.ok.injEq] at h1
    subst h1
    simp [kwName, E.mk]

/-- **The statement of a call**: visiting an application that calls an opaque callable appends exactly one statement,
`v = f(a…, k=v…)` marked as an event, tagged with the application; it has as many positional arguments as the node and
the node's keyword names, in order. -/
theorem emitVisit_call (c : Ctx) (st st' : GState) (i : Nat) (fn : E) (args : List E) (kwargs : List (String × E))
    (deps : List E) (out : Nat) (ha : c.g.apps[i]? = some (.call fn args kwargs deps out))
    (hk : isAllowInline c.g fn = false) (h : emitVisit c st (.app i) = .ok st') :
    ∃ b v f as ks, st'.body = st.body ++ [(b, ⟨.assign v (E.mk .call (f :: as ++ ks)) true, some i⟩)] ∧
      as.length = args.length ∧ ks.map kwName = kwargs.map (fun kv => some kv.1) := by
  simp only [emitVisit, ha, emitApp, bind, Except.bind] at h
  cases hr : ruleOf c.g c.cfg.unaryParens st.cache (.call fn args kwargs deps out) with
  | error err => simp [hr] at h
  | ok r =>
    simp only [hr] at h
    cases hp : applyRule c st (patchForce c.g c.cfg (.call fn args kwargs deps out) r) with
    | error err => simp [hp] at h
    | ok p =>
      obtain ⟨s1, new⟩ := p
      simp only [hp, pure, Except.pure, Except.ok.injEq] at h
      subst h
      -- the rule
      simp only [ruleOf, bind, Except.bind] at hr
      cases hf : convTop st.cache fn with
      | error err => simp [hf] at hr
      | ok f =>
        simp only [hf] at hr
        cases has : args.mapM (convTop st.cache) with
        | error err => simp [has] at hr
        | ok as =>
          simp only [has] at hr
          cases hks : convKw st.cache kwargs with
          | error err => simp [hks] at hr
          | ok ks =>
            simp only [hks, pure, Except.pure, Except.ok.injEq, hk, Bool.not_false] at hr
            subst hr
            have hpf : patchForce c.g c.cfg (.call fn args kwargs deps out)
                (.define (.var out) (E.mk .call (f :: as ++ ks)) true true false) =
                .define (.var out) (E.mk .call (f :: as ++ ks)) true true false := by
              unfold patchForce; split <;> rfl
            rw [hpf] at hp
            simp only [applyRule] at hp
            obtain ⟨h1, h2, _⟩ := define_new c st s1 _ _ _ _ _ new hp
            have hbody := define_body c st s1 _ _ _ _ _ new hp
            have hlen := h2 rfl
            rcases h1 with rfl | ⟨b, v, rfl⟩
            · simp at hlen
            · refine ⟨b, v, f, as, ks, ?_, ?_, convKw_names _ _ _ hks⟩
              · rw [push_body, hbody]; rfl
              · exact mapM_ok_length _ args as has

/-! ### Tagged traces -/

theorem execStmt_trace (x : XState) (s : Stmt) : ∃ new, (execStmt x s).trace = x.trace ++ new := by
  cases s with
  | assign v rhs eff => cases eff <;> simp [execStmt]
  | return_ e => simp only [execStmt]; split <;> exact ⟨[], by simp⟩
  | _ => simp [execStmt]

theorem taggedTrace_append (x : XState) (l1 l2 : List SStmt) :
    taggedTrace x (l1 ++ l2) = taggedTrace x l1 ++ taggedTrace (execBlock x (l1.map (·.stmt))) l2 := by
  induction l1 generalizing x with
  | nil => simp [taggedTrace, execBlock]
  | cons s rest ih =>
    simp only [List.cons_append, taggedTrace, ih, List.append_assoc, List.map_cons, execBlock, List.foldl_cons]

/-- The tagged trace is the trace. -/
theorem taggedTrace_events (l : List SStmt) : ∀ (x : XState),
    (execBlock x (l.map (·.stmt))).trace = x.trace ++ (taggedTrace x l).map (·.2) := by
  induction l with
  | nil => intro x; simp [taggedTrace, execBlock]
  | cons s rest ih =>
    intro x
    obtain ⟨new, hn⟩ := execStmt_trace x s.stmt
    simp only [List.map_cons, execBlock, List.foldl_cons, taggedTrace, List.map_append, List.map_map]
    have := ih (execStmt x s.stmt)
    simp only [execBlock] at this
    rw [this, hn]
    simp [Function.comp_def]

theorem taggedTrace_filter_ne (i : Nat) (l : List SStmt) (hl : ∀ s ∈ l, s.src ≠ some i) : ∀ (x : XState),
    (taggedTrace x l).filter (isTag i) = [] := by
  induction l with
  | nil => intro x; rfl
  | cons s rest ih =>
    intro x
    simp only [taggedTrace, List.filter_append, ih (fun s' hs' => hl s' (List.mem_cons_of_mem _ hs')), List.append_nil]
    apply List.filter_eq_nil_iff.2
    intro p hp
    simp only [List.mem_map] at hp
    obtain ⟨e, _, rfl⟩ := hp
    have := hl s (by simp)
    simp [isTag, this]

theorem taggedTrace_call (x : XState) (v : Nat) (e : E) (i : Nat) :
    taggedTrace x [⟨.assign v e true, some i⟩] = [(some i, .call (e.subst x.env))] := by
  simp [taggedTrace, execStmt]

/-- If exactly one statement is tagged `i` and it is the assignment of a call, exactly one event is tagged `i`: that call. -/
theorem taggedTrace_filter_one (i : Nat) (l1 l2 : List SStmt) (v : Nat) (e : E) (x : XState)
    (h1 : ∀ s ∈ l1, s.src ≠ some i) (h2 : ∀ s ∈ l2, s.src ≠ some i) :
    ∃ env, (taggedTrace x (l1 ++ [⟨.assign v e true, some i⟩] ++ l2)).filter (isTag i) = [(some i, .call (e.subst env))] := by
  refine ⟨(execBlock x (l1.map (·.stmt))).env, ?_⟩
  rw [List.append_assoc, taggedTrace_append, taggedTrace_append, List.filter_append, List.filter_append,
    taggedTrace_filter_ne i l1 h1, taggedTrace_filter_ne i l2 h2, taggedTrace_call]
  simp [isTag]

theorem subst_call (σ : Nat → E) (f : E) (rest : List E) :
    (E.mk .call (f :: rest)).subst σ = E.mk .call (f.subst σ :: rest.map (E.subst σ)) := by
  have hl : ∀ l : List E, (E.ofList l).subst σ = E.ofList (l.map (E.subst σ)) := by
    intro l
    induction l with
    | nil => rfl
    | cons a r ih => simp [E.ofList, E.subst, ih]
  simp only [E.mk, E.subst, hl, List.map_cons]

theorem kwName_subst (σ : Nat → E) (e : E) (k : String) (h : kwName e = some k) : kwName (e.subst σ) = some k := by
  cases e with
  | node tag a => cases tag <;> simp_all [kwName, E.subst]
  | _ => simp [kwName] at h

theorem callParts_mk (f : E) (rest : List E) : callParts (E.mk .call (f :: rest)) = some (f, rest) := by
  simp [callParts, E.mk, E.ofList, E.toList_ofList]

end Einx.Exec
