import EinxModel.Proofs.CompileOrder
/-! Helper lemmas for `Props/C04.lean`: the emitted program reads no variable before it is bound, provided no nested
graph is mentioned while it is open (`noSelfRef`). -/
namespace Einx.Compile

/-- `v` occurs in the cached expression of a key that is looked up; if the key is a nested graph, it is one of `G`. -/
def Src (cache : List (E × E)) (G : List Nat) (v : Nat) : Prop :=
  ∃ k e, assocGet cache k = some e ∧ v ∈ e.vars ∧ ∀ gi, k = .gref gi → gi ∈ G

theorem Src.mono {cache : List (E × E)} {G G' : List Nat} {v : Nat} (h : Src cache G v) (hg : ∀ k ∈ G, k ∈ G') :
    Src cache G' v := by
  obtain ⟨k, e, h1, h2, h3⟩ := h
  exact ⟨k, e, h1, h2, fun gi hk => hg gi (h3 gi hk)⟩

theorem conv_vars (cache : List (E × E)) (x : E) :
    (∀ e, conv cache x = .ok e → ∀ v ∈ e.vars, Src cache x.grefsOf v) ∧
    (∀ e, convL cache x = .ok e → ∀ v ∈ e.vars, Src cache x.grefsOf v) := by
  induction x with
  | var t =>
    constructor
    · intro e h v hv
      simp only [conv] at h
      cases hg : assocGet cache (.var t) with
      | none => simp [hg] at h
      | some e' =>
        simp only [hg, Except.ok.injEq] at h
        subst h
        exact ⟨.var t, e', hg, hv, fun gi hk => by cases hk⟩
    · intro e h v hv
      simp only [convL, Except.ok.injEq] at h
      subst h
      simp [E.vars] at hv
  | lit c =>
    constructor
    · intro e h v hv
      simp only [conv, Except.ok.injEq] at h
      subst h
      simp [E.vars] at hv
    · intro e h v hv
      simp only [convL, Except.ok.injEq] at h
      subst h
      simp [E.vars] at hv
  | gref g =>
    constructor
    · intro e h v hv
      simp only [conv] at h
      cases hg : assocGet cache (.gref g) with
      | none => simp [hg] at h
      | some e' =>
        simp only [hg, Except.ok.injEq] at h
        subst h
        exact ⟨.gref g, e', hg, hv, fun gi hk => by cases hk; simp [E.grefsOf]⟩
    · intro e h v hv
      simp only [convL, Except.ok.injEq] at h
      subst h
      simp [E.vars] at hv
  | nil =>
    constructor
    · intro e h v hv
      simp only [conv, Except.ok.injEq] at h
      subst h
      simp [E.vars] at hv
    · intro e h v hv
      simp only [convL, Except.ok.injEq] at h
      subst h
      simp [E.vars] at hv
  | cons hd tl ih1 ih2 =>
    have hc : ∀ e, (do let a ← conv cache hd; let b ← convL cache tl; pure (E.cons a b) : Except String E) = .ok e →
        ∀ v ∈ e.vars, Src cache (E.cons hd tl).grefsOf v := by
      intro e h v hv
      cases h1 : conv cache hd with
      | error err => simp [h1, bind, Except.bind] at h
      | ok a =>
        cases h2 : convL cache tl with
        | error err => simp [h1, h2, bind, Except.bind] at h
        | ok b =>
          simp only [h1, h2, bind, Except.bind, pure, Except.pure, Except.ok.injEq] at h
          subst h
          simp only [E.vars, List.mem_append] at hv
          rcases hv with hv | hv
          · exact (ih1.1 a h1 v hv).mono (fun k hk => by simp [E.grefsOf, hk])
          · exact (ih2.2 b h2 v hv).mono (fun k hk => by simp [E.grefsOf, hk])
    constructor
    · intro e h; simp only [conv] at h; exact hc e h
    · intro e h; simp only [convL] at h; exact hc e h
  | node tag a ih =>
    have hn : ∀ (t : Tag) e, (do let y ← convL cache a; pure (E.node t y) : Except String E) = .ok e →
        ∀ v ∈ e.vars, Src cache (E.node tag a).grefsOf v := by
      intro t e h v hv
      cases h1 : convL cache a with
      | error err => simp [h1, bind, Except.bind] at h
      | ok y =>
        simp only [h1, bind, Except.bind, pure, Except.pure, Except.ok.injEq] at h
        subst h
        exact (ih.2 y h1 v (by simpa [E.vars] using hv)).mono (fun k hk => by simpa [E.grefsOf] using hk)
    have hlook : ∀ (t : Tag) e, (match (keyOf (.node t a)).bind (assocGet cache) with
          | some e => Except.ok e
          | none => (do let y ← convL cache a; pure (E.node t y) : Except String E)) = .ok e →
        (∀ k, keyOf (.node t a) = some k → ∀ gi, k ≠ .gref gi) →
        ∀ v ∈ e.vars, Src cache (E.node tag a).grefsOf v := by
      intro t e h hk v hv
      cases hb : (keyOf (.node t a)).bind (assocGet cache) with
      | none => simp only [hb] at h; exact hn t e h v hv
      | some e' =>
        simp only [hb, Except.ok.injEq] at h
        subst h
        cases hko : keyOf (.node t a) with
        | none => simp [hko] at hb
        | some k =>
          simp only [hko, Option.bind_some] at hb
          exact ⟨k, e', hb, hv, fun gi hg => absurd hg (hk k hko gi)⟩
    constructor
    · intro e h
      cases tag <;> simp only [conv] at h <;> try (simp at h; done)
      · exact hn _ e h
      · exact hlook _ e h (by intro k hk gi; simp only [keyOf, Option.some.injEq] at hk; subst hk; intro hc; cases hc)
      · exact hlook _ e h (by intro k hk gi; simp only [keyOf, Option.some.injEq] at hk; subst hk; intro hc; cases hc)
      · exact hn _ e h
    · intro e h v hv
      simp only [convL, Except.ok.injEq] at h
      subst h
      simp [E.vars] at hv

theorem convTop_vars (cache : List (E × E)) (x e : E) (h : convTop cache x = .ok e) :
    ∀ v ∈ e.vars, Src cache x.grefsOf v := by
  unfold convTop at h
  split at h
  · simp at h
  · exact (conv_vars cache x).1 e h

theorem mapM_ok_mem {α β : Type} (f : α → Except String β) : ∀ (l : List α) (bs : List β), l.mapM f = .ok bs →
    ∀ b ∈ bs, ∃ a ∈ l, f a = .ok b := by
  intro l
  induction l with
  | nil =>
    intro bs h b hb
    simp only [List.mapM_nil, pure, Except.pure, Except.ok.injEq] at h
    subst h
    simp at hb
  | cons a rest ih =>
    intro bs h b hb
    simp only [List.mapM_cons, bind, Except.bind] at h
    cases h1 : f a with
    | error err => simp [h1] at h
    | ok b1 =>
      cases h2 : List.mapM f rest with
      | error err => simp [h1, h2] at h
      | ok bs1 =>
        simp only [h1, h2, pure, Except.pure, Except.ok.injEq] at h
        subst h
        rcases List.mem_cons.1 hb with rfl | hb
        · exact ⟨a, by simp, h1⟩
        · obtain ⟨a', ha', hf⟩ := ih bs1 h2 b hb
          exact ⟨a', List.mem_cons_of_mem _ ha', hf⟩

theorem E.vars_ofList (l : List E) : (E.ofList l).vars = l.flatMap E.vars := by
  induction l with
  | nil => rfl
  | cons x xs ih => simp [E.ofList, E.vars, ih]

theorem E.vars_mk (tag : Tag) (l : List E) : (E.mk tag l).vars = l.flatMap E.vars := by
  simp [E.mk, E.vars, E.vars_ofList]

theorem mapM_convTop_vars (cache : List (E × E)) (l es : List E) (h : l.mapM (convTop cache) = .ok es) :
    ∀ e ∈ es, ∀ v ∈ e.vars, Src cache (l.flatMap E.grefsOf) v := by
  intro e he v hv
  obtain ⟨x, hx, hf⟩ := mapM_ok_mem _ l es h e he
  exact (convTop_vars cache x e hf v hv).mono (fun k hk => List.mem_flatMap.2 ⟨x, hx, hk⟩)

theorem convKw_vars (cache : List (E × E)) (kw : List (String × E)) (es : List E) (h : convKw cache kw = .ok es) :
    ∀ e ∈ es, ∀ v ∈ e.vars, Src cache ((kw.map (·.2)).flatMap E.grefsOf) v := by
  intro e he v hv
  unfold convKw at h
  obtain ⟨p, hp, hf⟩ := mapM_ok_mem _ kw es h e he
  obtain ⟨k, x⟩ := p
  simp only [bind, Except.bind] at hf
  cases h1 : convTop cache x with
  | error err => simp [h1] at hf
  | ok e1 =>
    simp only [h1, pure, Except.pure, Except.ok.injEq] at hf
    subst hf
    rw [E.vars_mk] at hv
    simp only [List.flatMap_cons, List.flatMap_nil, List.append_nil] at hv
    exact (convTop_vars cache x e1 h1 v hv).mono (fun g hg => List.mem_flatMap.2 ⟨x, List.mem_map.2 ⟨(k, x), hp, rfl⟩, hg⟩)

theorem keyParts_grefs (key p : E) (hp : p ∈ keyParts key) : ∀ k ∈ p.grefsOf, k ∈ key.grefsOf := by
  unfold keyParts at hp
  split at hp
  · rename_i a
    intro k hk
    simpa [E.grefsOf] using (mem_toList_vars a p hp).2 k hk
  · simp only [List.mem_singleton] at hp
    subst hp
    exact fun k hk => hk

theorem partConv_vars (cache : List (E × E)) (p e : E) (h : partConv cache p = .ok e) :
    ∀ v ∈ e.vars, Src cache p.grefsOf v := by
  unfold partConv at h
  split at h
  · rename_i x y z a
    simp only [bind, Except.bind] at h
    cases h1 : convL cache a with
    | error err => simp [h1] at h
    | ok e1 =>
      simp only [h1, pure, Except.pure, Except.ok.injEq] at h
      subst h
      intro v hv
      exact ((conv_vars cache a).2 e1 h1 v (by simpa [E.vars] using hv)).mono (fun k hk => by simpa [E.grefsOf] using hk)
  · exact convTop_vars cache p e h

theorem atExpr_vars (cache : List (E × E)) (obj key e : E) (h : atExpr cache obj key = .ok e) :
    ∀ v ∈ e.vars, Src cache (obj.grefsOf ++ key.grefsOf) v := by
  rw [atExpr_eq] at h
  simp only [bind, Except.bind] at h
  cases h1 : convTop cache obj with
  | error err => simp [h1] at h
  | ok o =>
    cases h2 : List.mapM (partConv cache) (keyParts key) with
    | error err => simp [h1, h2] at h
    | ok parts =>
      simp only [h1, h2, pure, Except.pure, Except.ok.injEq] at h
      subst h
      intro v hv
      rw [E.vars_mk] at hv
      simp only [List.flatMap_cons, List.mem_append, List.mem_flatMap] at hv
      rcases hv with hv | ⟨pe, hpe, hv⟩
      · exact (convTop_vars cache obj o h1 v hv).mono (fun k hk => List.mem_append_left _ hk)
      · obtain ⟨p, hp, hf⟩ := mapM_ok_mem _ _ _ h2 pe hpe
        exact (partConv_vars cache p pe hf v hv).mono (fun k hk => List.mem_append_right _ (keyParts_grefs key p hp k hk))

/-- Variables of the expressions of a rule (those its statement reads and the alias it caches). -/
def Rule.readVars : Rule → List Nat
  | .define _ e _ _ _ => e.vars
  | .effect s _ e => s.reads ++ e.vars
  | _ => []

theorem ruleOf_vars (g : Graph) (up : Bool) (cache : List (E × E)) (a : App) (rule : Rule)
    (h : ruleOf g up cache a = .ok rule) :
    ∀ v ∈ rule.readVars, Src cache (a.operandEs.flatMap E.grefsOf) v := by
  cases a with
  | call fn args kwargs deps out =>
    simp only [ruleOf, bind, Except.bind] at h
    cases h1 : convTop cache fn with
    | error err => simp [h1] at h
    | ok f =>
    cases h2 : List.mapM (convTop cache) args with
    | error err => simp [h1, h2] at h
    | ok as =>
    cases h3 : convKw cache kwargs with
    | error err => simp [h1, h2, h3] at h
    | ok ks =>
      simp only [h1, h2, h3, pure, Except.pure, Except.ok.injEq] at h
      subst h
      intro v hv
      simp only [Rule.readVars, E.vars_mk, List.flatMap_cons, List.flatMap_append, List.mem_append, List.mem_flatMap] at hv
      rcases hv with (hv | ⟨e, he, hv⟩) | ⟨e, he, hv⟩
      · exact (convTop_vars cache fn f h1 v hv).mono (fun k hk => by
          simp only [App.operandEs, List.flatMap_cons, List.flatMap_append, List.mem_append]; exact Or.inl (Or.inl hk))
      · exact (mapM_convTop_vars cache args as h2 e he v hv).mono (fun k hk => by
          simp only [App.operandEs, List.flatMap_cons, List.flatMap_append, List.mem_append]; exact Or.inl (Or.inr hk))
      · exact (convKw_vars cache kwargs ks h3 e he v hv).mono (fun k hk => by
          simp only [App.operandEs, List.flatMap_cons, List.flatMap_append, List.mem_append]; exact Or.inr hk)
  | callInplace xs fn args kwargs deps out =>
    simp only [ruleOf, bind, Except.bind] at h
    cases h0 : convTop cache xs with
    | error err => simp [h0] at h
    | ok x =>
    cases h1 : convTop cache fn with
    | error err => simp [h0, h1] at h
    | ok f =>
    cases h2 : List.mapM (convTop cache) args with
    | error err => simp [h0, h1, h2] at h
    | ok as =>
    cases h3 : convKw cache kwargs with
    | error err => simp [h0, h1, h2, h3] at h
    | ok ks =>
      simp only [h0, h1, h2, h3, pure, Except.pure, Except.ok.injEq] at h
      subst h
      intro v hv
      simp only [Rule.readVars, Stmt.reads, E.vars_mk, List.flatMap_cons, List.flatMap_append, List.mem_append,
        List.mem_flatMap] at hv
      rcases hv with ((hv | ⟨e, he, hv⟩) | ⟨e, he, hv⟩) | hv
      · exact (convTop_vars cache fn f h1 v hv).mono (fun k hk => by
          simp only [App.operandEs, List.flatMap_cons, List.flatMap_append, List.mem_append]; exact Or.inl (Or.inr (Or.inl hk)))
      · exact (mapM_convTop_vars cache args as h2 e he v hv).mono (fun k hk => by
          simp only [App.operandEs, List.flatMap_cons, List.flatMap_append, List.mem_append]; exact Or.inl (Or.inr (Or.inr hk)))
      · exact (convKw_vars cache kwargs ks h3 e he v hv).mono (fun k hk => by
          simp only [App.operandEs, List.flatMap_cons, List.flatMap_append, List.mem_append]; exact Or.inr hk)
      · exact (convTop_vars cache xs x h0 v hv).mono (fun k hk => by
          simp only [App.operandEs, List.flatMap_cons, List.flatMap_append, List.mem_append]; exact Or.inl (Or.inl hk))
  | getattr obj key out =>
    simp only [ruleOf, bind, Except.bind] at h
    cases h1 : convTop cache obj with
    | error err => simp [h1] at h
    | ok o =>
      simp only [h1, pure, Except.pure, Except.ok.injEq] at h
      subst h
      intro v hv
      simp only [Rule.readVars, E.vars_mk, List.flatMap_cons, List.flatMap_nil, List.append_nil] at hv
      exact (convTop_vars cache obj o h1 v hv).mono (fun k hk => by simp [App.operandEs, hk])
  | getitem obj key out =>
    simp only [ruleOf, bind, Except.bind] at h
    cases h1 : atExpr cache obj key with
    | error err => simp [h1] at h
    | ok e =>
      simp only [h1, pure, Except.pure, Except.ok.injEq] at h
      subst h
      intro v hv
      exact (atExpr_vars cache obj key e h1 v hv).mono (fun k hk => by simpa [App.operandEs] using hk)
  | updateitem obj key value op out =>
    simp only [ruleOf, bind, Except.bind] at h
    cases h1 : atExpr cache obj key with
    | error err => simp [h1] at h
    | ok e =>
    cases h2 : convTop cache value with
    | error err => simp [h1, h2] at h
    | ok vl =>
    cases h3 : convTop cache obj with
    | error err => simp [h1, h2, h3] at h
    | ok o =>
      simp only [h1, h2, h3, pure, Except.pure, Except.ok.injEq] at h
      subst h
      intro v hv
      simp only [Rule.readVars, Stmt.reads, List.mem_append] at hv
      rcases hv with (hv | hv) | hv
      · exact (atExpr_vars cache obj key e h1 v hv).mono (fun k hk => by
          simp only [App.operandEs, List.flatMap_cons, List.flatMap_nil, List.append_nil, List.mem_append] at hk ⊢
          rcases hk with hk | hk
          · exact Or.inl hk
          · exact Or.inr (Or.inl hk))
      · exact (convTop_vars cache value vl h2 v hv).mono (fun k hk => by simp [App.operandEs, hk])
      · exact (convTop_vars cache obj o h3 v hv).mono (fun k hk => by simp [App.operandEs, hk])
  | import_ imp from_ as_ out =>
    simp only [ruleOf, pure, Except.pure, Except.ok.injEq] at h
    subst h
    intro v hv
    simp [Rule.readVars] at hv
  | operator op operands out =>
    simp only [ruleOf, bind, Except.bind] at h
    cases h1 : List.mapM (convTop cache) operands with
    | error err => simp [h1] at h
    | ok os =>
      simp only [h1] at h
      have hmem := mapM_convTop_vars cache operands os h1
      match os, h, hmem with
      | [], h, _ => simp [throw, throwThe, MonadExceptOf.throw] at h
      | [x], h, hmem =>
        simp only [pure, Except.pure, Except.ok.injEq] at h
        subst h
        intro v hv
        simp only [Rule.readVars, E.vars_mk, List.flatMap_cons, List.flatMap_nil, List.append_nil] at hv
        exact hmem x (by simp) v hv
      | [x, y], h, hmem =>
        simp only [pure, Except.pure, Except.ok.injEq] at h
        subst h
        intro v hv
        simp only [Rule.readVars, E.vars_mk, List.flatMap_cons, List.flatMap_nil, List.append_nil, List.mem_append] at hv
        rcases hv with hv | hv
        · exact hmem x (by simp) v hv
        · exact hmem y (by simp) v hv
      | _ :: _ :: _ :: _, h, _ => simp [throw, throwThe, MonadExceptOf.throw] at h
  | assert_ xs cond msg out =>
    simp only [ruleOf, bind, Except.bind] at h
    cases h1 : convTop cache xs with
    | error err => simp [h1] at h
    | ok x =>
    cases h2 : convTop cache cond with
    | error err => simp [h1, h2] at h
    | ok cnd =>
      simp only [h1, h2, pure, Except.pure, Except.ok.injEq] at h
      subst h
      intro v hv
      simp only [Rule.readVars, Stmt.reads, List.mem_append] at hv
      rcases hv with hv | hv
      · exact (convTop_vars cache cond cnd h2 v hv).mono (fun k hk => by simp [App.operandEs, hk])
      · exact (convTop_vars cache xs x h1 v hv).mono (fun k hk => by simp [App.operandEs, hk])
  | builtin name out =>
    simp only [ruleOf, pure, Except.pure, Except.ok.injEq] at h
    subst h
    intro v hv
    simp [Rule.readVars, E.vars] at hv
  | cast input out =>
    simp only [ruleOf, bind, Except.bind] at h
    cases h1 : convTop cache input with
    | error err => simp [h1] at h
    | ok x =>
      simp only [h1, pure, Except.pure, Except.ok.injEq] at h
      subst h
      intro v hv
      exact (convTop_vars cache input x h1 v hv).mono (fun k hk => by simp [App.operandEs, hk])
  | constant str out =>
    simp only [ruleOf, pure, Except.pure, Except.ok.injEq] at h
    subst h
    intro v hv
    simp [Rule.readVars] at hv

theorem patchForce_readVars (g : Graph) (cfg : UCfg) (a : App) (r : Rule) : (patchForce g cfg a r).readVars = r.readVars := by
  unfold patchForce
  split
  · cases a <;> cases r <;> rfl
  · rfl

/-! ### What one emission step adds to the cache and to the program -/

theorem addVar_syn (c : Ctx) (st st1 : GState) (obj : E) (reuse : Bool) (v : Nat)
    (h : st.addVar c obj reuse = .ok (v, st1)) :
    st1.body = st.body ∧ ∃ more, st1.cache = st.cache ++ more ∧ ∀ p ∈ more, ∀ w ∈ p.2.vars, w = v := by
  obtain ⟨rfl, block, cache', _, hset, rfl⟩ := addVar_spec c st st1 obj reuse v h
  obtain ⟨more, hm, hv⟩ := setCache_append _ _ _ _ _ hset
  exact ⟨rfl, more, hm, fun p hp w hw => by simpa [E.vars] using hv p hp w hw⟩

theorem define_syn (c : Ctx) (st st1 : GState) (obj e : E) (eff ni fi : Bool) (new : List (Nat × Stmt))
    (h : define c st obj e eff ni fi = .ok (st1, new)) :
    (∀ s ∈ new, ∀ v ∈ s.2.reads, v ∈ e.vars) ∧
    ∃ more, st1.cache = st.cache ++ more ∧ ∀ p ∈ more, ∀ v ∈ p.2.vars, v ∈ e.vars ∨ v ∈ outsOf (new.map (·.2)) := by
  unfold define at h
  cases hu : usageGet c.counts c.g.fuel obj with
  | error err => simp [hu, bind, Except.bind] at h
  | ok n =>
    simp only [hu, bind, Except.bind] at h
    split at h
    · simp [throw, throwThe, MonadExceptOf.throw] at h
    · split at h
      · cases hs : st.set obj e with
        | error err => simp [hs, pure, Except.pure] at h
        | ok s1 =>
          simp only [hs, pure, Except.pure, Except.ok.injEq, Prod.mk.injEq] at h
          obtain ⟨rfl, rfl⟩ := h
          obtain ⟨cache', hset, rfl⟩ := set_spec _ _ _ _ hs
          obtain ⟨more, hm, hv⟩ := setCache_append _ _ _ _ _ hset
          exact ⟨by simp, more, hm, fun p hp v hv' => Or.inl (hv p hp v hv')⟩
      · cases ha : st.addVar c obj true with
        | error err => simp [ha] at h
        | ok p =>
          obtain ⟨v, s1⟩ := p
          simp only [ha] at h
          cases hb : c.blockFor obj with
          | error err => simp [hb] at h
          | ok b =>
            simp only [hb, pure, Except.pure, Except.ok.injEq, Prod.mk.injEq] at h
            obtain ⟨rfl, rfl⟩ := h
            obtain ⟨_, more, hm, hv⟩ := addVar_syn c st s1 obj true v ha
            refine ⟨?_, more, hm, ?_⟩
            · intro s hs w hw
              simp only [List.mem_singleton] at hs
              subst hs
              simpa [Stmt.reads] using hw
            · intro p hp w hw
              refine Or.inr ?_
              rw [hv p hp w hw]
              simp [outsOf, Stmt.outputVars]

theorem applyRule_syn (c : Ctx) (st st1 : GState) (rule : Rule) (new : List (Nat × Stmt))
    (h : applyRule c st rule = .ok (st1, new)) :
    (∀ s ∈ new, ∀ v ∈ s.2.reads, v ∈ rule.readVars) ∧
    ∃ more, st1.cache = st.cache ++ more ∧ ∀ p ∈ more, ∀ v ∈ p.2.vars, v ∈ rule.readVars ∨ v ∈ outsOf (new.map (·.2)) := by
  cases rule with
  | define out e eff ni fi =>
    simp only [applyRule] at h
    exact define_syn c st st1 out e eff ni fi new h
  | effect s out e =>
    simp only [applyRule, bind, Except.bind] at h
    cases hb : c.blockFor out with
    | error err => simp [hb] at h
    | ok b =>
      simp only [hb] at h
      cases hd : define c st out e false false true with
      | error err => simp [hd] at h
      | ok p =>
        obtain ⟨s1, more'⟩ := p
        simp only [hd, pure, Except.pure, Except.ok.injEq, Prod.mk.injEq] at h
        obtain ⟨rfl, rfl⟩ := h
        have hmore := (define_new c st s1 out e false false true more' hd).2.2 rfl
        subst hmore
        obtain ⟨_, more, hm, hv⟩ := define_syn c st s1 out e false false true [] hd
        refine ⟨?_, more, hm, ?_⟩
        · intro s' hs' w hw
          simp only [List.mem_singleton] at hs'
          subst hs'
          simp only [Rule.readVars, List.mem_append]
          exact Or.inl hw
        · intro p hp w hw
          rcases hv p hp w hw with h1 | h1
          · exact Or.inl (by simp [Rule.readVars, h1])
          · simp [outsOf] at h1
  | import_ out from_ imp hint =>
    simp only [applyRule, bind, Except.bind] at h
    cases ha : st.addVar c (.var out) false with
    | error err => simp [ha] at h
    | ok p =>
      obtain ⟨v, s1⟩ := p
      simp only [ha] at h
      cases hb : c.blockFor (.var out) with
      | error err => simp [hb] at h
      | ok b =>
        simp only [hb] at h
        split at h
        · simp [throw, throwThe, MonadExceptOf.throw] at h
        · simp only [pure, Except.pure, Except.ok.injEq, Prod.mk.injEq] at h
          obtain ⟨rfl, rfl⟩ := h
          obtain ⟨_, more, hm, hv⟩ := addVar_syn c st s1 _ false v ha
          refine ⟨by simp [Stmt.reads], more, by cases hint <;> exact hm, ?_⟩
          intro p hp w hw
          refine Or.inr ?_
          rw [hv p hp w hw]
          simp [outsOf, Stmt.outputVars]
  | constant out str =>
    simp only [applyRule, bind, Except.bind] at h
    cases ha : st.addVar c (.var out) false with
    | error err => simp [ha] at h
    | ok p =>
      obtain ⟨v, s1⟩ := p
      simp only [ha, pure, Except.pure, Except.ok.injEq, Prod.mk.injEq] at h
      obtain ⟨rfl, rfl⟩ := h
      obtain ⟨_, more, hm, hv⟩ := addVar_syn c st s1 _ false v ha
      refine ⟨by simp [Stmt.reads], more, hm, ?_⟩
      intro p hp w hw
      refine Or.inr ?_
      rw [hv p hp w hw]
      simp [outsOf, Stmt.outputVars]

/-! ### The closedness invariant -/

/-- Every variable of a cached expression has been bound by a statement — except the function variable of a nested graph
that is still open, which occurs only as *the* expression of that graph. -/
structure CL (st : GState) (pend : List Nat) : Prop where
  c1 : ∀ k e, (k, e) ∈ st.cache → ∀ v ∈ e.vars, v ∈ outsOf st.program ∨
        ∃ gi ∈ pend, k = .gref gi ∧ assocGet st.cache (.gref gi) = some e ∧ e = .var v

theorem CL.src {st : GState} {pend G : List Nat} (hcl : CL st pend) (hG : ∀ k ∈ G, k ∉ pend) (v : Nat)
    (h : Src st.cache G v) : v ∈ outsOf st.program := by
  obtain ⟨k, e, h1, h2, h3⟩ := h
  rcases hcl.c1 k e (assocGet_mem _ _ _ h1) v h2 with h4 | ⟨gi, hgi, rfl, _, _⟩
  · exact h4
  · exact absurd hgi (hG gi (h3 gi rfl))

theorem CL.extend {st st' : GState} {pend : List Nat} (hcl : CL st pend) (more : List (E × E)) (new : List Stmt)
    (hc : st'.cache = st.cache ++ more) (hp : st'.program = st.program ++ new)
    (hm : ∀ p ∈ more, ∀ v ∈ p.2.vars, v ∈ outsOf st.program ∨ v ∈ outsOf new) : CL st' pend := by
  refine ⟨?_⟩
  intro k e hmem v hv
  rw [hc] at hmem
  rw [hp, outsOf_append, hc]
  rcases List.mem_append.1 hmem with hmem | hmem
  · rcases hcl.c1 k e hmem v hv with h1 | ⟨gi, hgi, hk, hget, he⟩
    · exact Or.inl (List.mem_append_left _ h1)
    · exact Or.inr ⟨gi, hgi, hk, assocGet_append_some _ _ _ _ hget, he⟩
  · rcases hm (k, e) hmem v hv with h1 | h1
    · exact Or.inl (List.mem_append_left _ h1)
    · exact Or.inl (List.mem_append_right _ h1)

theorem app_closed (c : Ctx) (st st' : GState) (i : Nat) (pend : List Nat) (hcl : CL st pend)
    (h : emitVisit c st (.app i) = .ok st')
    (hns : ∀ a, c.g.apps[i]? = some a → ∀ k ∈ a.operandEs.flatMap E.grefsOf, k ∉ pend) :
    ∃ new, st'.program = st.program ++ new ∧ (∀ v ∈ liveIn new, v ∈ outsOf st.program) ∧ CL st' pend := by
  cases ha : c.g.apps[i]? with
  | none => simp [emitVisit, ha, throw, throwThe, MonadExceptOf.throw] at h
  | some a =>
    simp only [emitVisit, ha, emitApp, bind, Except.bind] at h
    cases hr : ruleOf c.g c.cfg.unaryParens st.cache a with
    | error err => simp [hr] at h
    | ok rule =>
      simp only [hr] at h
      cases hp : applyRule c st (patchForce c.g c.cfg a rule) with
      | error err => simp [hp] at h
      | ok p =>
        obtain ⟨s1, new⟩ := p
        simp only [hp, pure, Except.pure, Except.ok.injEq] at h
        subst h
        have hbody := applyRule_body c st s1 _ new hp
        have hprog : (s1.push (some i) new).program = st.program ++ new.map (·.2) := by
          rw [program_push]; simp only [GState.program, hbody]
        have hrv : ∀ v ∈ (patchForce c.g c.cfg a rule).readVars, v ∈ outsOf st.program := by
          intro v hv
          rw [patchForce_readVars] at hv
          exact hcl.src (hns a ha) v (ruleOf_vars _ _ _ _ _ hr v hv)
        obtain ⟨hreads, more, hm, hmv⟩ := applyRule_syn c st s1 _ new hp
        refine ⟨new.map (·.2), hprog, ?_, hcl.extend more _ hm hprog ?_⟩
        · intro v hv
          have hle := (applyRule_new c st s1 _ new hp).1
          match new, hle, hreads, hv with
          | [], _, _, hv => simp [liveIn] at hv
          | [s'], _, hreads, hv =>
            simp only [List.map_cons, List.map_nil, liveIn, List.filter_nil, List.append_nil] at hv
            exact hrv v (hreads s' (by simp) v hv)
        · intro p hp' v hv
          rcases hmv p hp' v hv with h1 | h1
          · exact Or.inl (hrv v h1)
          · exact Or.inr h1

theorem liveIn_nil_of_reads (l : List Stmt) (h : ∀ s ∈ l, s.reads = []) : liveIn l = [] := by
  induction l with
  | nil => rfl
  | cons s rest ih =>
    simp only [liveIn, h s (by simp), ih (fun s' hs' => h s' (List.mem_cons_of_mem _ hs')), List.filter_nil, List.append_nil]

theorem param_closed (c : Ctx) (st st' : GState) (t : Nat) (pend : List Nat) (hcl : CL st pend)
    (h : enterParam c st t = .ok st') :
    ∃ new, st'.program = st.program ++ new ∧ (∀ s ∈ new, s.reads = []) ∧ CL st' pend := by
  simp only [enterParam, bind, Except.bind] at h
  cases ha : st.addVar c (.var t) true with
  | error err => simp [ha] at h
  | ok p =>
    obtain ⟨v, s1⟩ := p
    simp only [ha, pure, Except.pure, Except.ok.injEq] at h
    subst h
    obtain ⟨hbody, more, hm, hv⟩ := addVar_syn c st s1 _ true v ha
    have hprog : (s1.push none [((s1.vars[v]?.map (fun i => i.block)).getD 0, Stmt.param v t)]).program
        = st.program ++ [.param v t] := by
      rw [program_push]; simp only [GState.program, hbody, List.map_cons, List.map_nil]
    refine ⟨[.param v t], hprog, by simp [Stmt.reads], hcl.extend more _ hm hprog ?_⟩
    intro p hp w hw
    refine Or.inr ?_
    rw [hv p hp w hw]
    simp [outsOf, Stmt.outputVars]

theorem params_closed (c : Ctx) (pend : List Nat) (inputs : List Nat) : ∀ (st st' : GState), CL st pend →
    inputs.foldlM (enterParam c) st = .ok st' →
    ∃ new, st'.program = st.program ++ new ∧ (∀ s ∈ new, s.reads = []) ∧ CL st' pend := by
  induction inputs with
  | nil =>
    intro st st' hcl h
    simp only [List.foldlM_nil, pure, Except.pure, Except.ok.injEq] at h
    subst h
    exact ⟨[], by simp, by simp, hcl⟩
  | cons t rest ih =>
    intro st st' hcl h
    simp only [List.foldlM_cons, bind, Except.bind] at h
    cases h1 : enterParam c st t with
    | error err => simp [h1] at h
    | ok s1 =>
      simp only [h1] at h
      obtain ⟨n1, e1, r1, hcl1⟩ := param_closed c st s1 t pend hcl h1
      obtain ⟨n2, e2, r2, hcl2⟩ := ih s1 st' hcl1 h
      refine ⟨n1 ++ n2, by rw [e2, e1, List.append_assoc], ?_, hcl2⟩
      intro s hs
      rcases List.mem_append.1 hs with hs | hs
      · exact r1 s hs
      · exact r2 s hs

theorem CL.congr {st st2 : GState} {pend : List Nat} (h : CL st pend) (hc : st2.cache = st.cache) (hb : st2.body = st.body) :
    CL st2 pend := by
  refine ⟨?_⟩
  have : st2.program = st.program := by simp only [GState.program, hb]
  rw [hc, this]
  exact h.c1

theorem enter_closed (c : Ctx) (st st' : GState) (gi : Nat) (pend : List Nat) (hcl : CL st pend)
    (h : emitVisit c st (.enter gi) = .ok st') :
    ∃ new, st'.program = st.program ++ new ∧ (∀ v ∈ liveIn new, v ∈ outsOf st.program) ∧ CL st' (gi :: pend) := by
  simp only [emitVisit] at h
  cases hg : c.g.graphs[gi]? with
  | none => simp [hg, throw, throwThe, MonadExceptOf.throw] at h
  | some sg =>
    simp only [hg, bind, Except.bind] at h
    cases ha : st.addVar c (.gref gi) true with
    | error err => simp [ha] at h
    | ok p =>
      obtain ⟨fv, s1⟩ := p
      simp only [ha] at h
      obtain ⟨rfl, block, cache', _, hset, rfl⟩ := addVar_spec c st s1 _ true fv ha
      obtain ⟨hm, hnone⟩ := setCache_gref _ _ _ _ hset
      subst hm
      have hcl1 : CL { st with vars := st.vars ++ [⟨block, true⟩], cache := st.cache ++ [(.gref gi, .var st.vars.length)] }
          (gi :: pend) := by
        refine ⟨?_⟩
        intro k e hmem v hv
        show v ∈ outsOf st.program ∨ _
        simp only at hmem
        rcases List.mem_append.1 hmem with hmem | hmem
        · rcases hcl.c1 k e hmem v hv with h1 | ⟨g', hg', hk, hget, he⟩
          · exact Or.inl h1
          · exact Or.inr ⟨g', List.mem_cons_of_mem _ hg', hk, assocGet_append_some _ _ _ _ hget, he⟩
        · simp only [List.mem_singleton, Prod.mk.injEq] at hmem
          obtain ⟨rfl, rfl⟩ := hmem
          simp only [E.vars, List.mem_singleton] at hv
          subst hv
          exact Or.inr ⟨gi, by simp, rfl, assocGet_append_none _ _ _ hnone, rfl⟩
      have fin : ∀ s2 : GState, CL s2 (gi :: pend) → s2.program = st.program →
          List.foldlM (enterParam c) s2 sg.inputs = .ok st' →
          ∃ new, st'.program = st.program ++ new ∧ (∀ v ∈ liveIn new, v ∈ outsOf st.program) ∧ CL st' (gi :: pend) := by
        intro s2 hcl2 hp2 hfold
        obtain ⟨new, e1, r1, hcl3⟩ := params_closed c (gi :: pend) sg.inputs s2 st' hcl2 hfold
        refine ⟨new, by rw [e1, hp2], ?_, hcl3⟩
        intro v hv
        rw [liveIn_nil_of_reads new r1] at hv
        simp at hv
      cases hn : sg.name with
      | none => simp only [hn] at h; exact fin _ hcl1 rfl h
      | some n =>
        simp only [hn] at h
        exact fin { st with vars := st.vars ++ [⟨block, true⟩], cache := st.cache ++ [(.gref gi, .var st.vars.length)],
                            hints := st.hints ++ [(st.vars.length, n)] } (hcl1.congr rfl rfl) rfl h

theorem exit_closed (c : Ctx) (st st' : GState) (gi : Nat) (pend : List Nat) (hcl : CL st pend)
    (h : emitVisit c st (.exit gi) = .ok st')
    (hns : ∀ sg, c.g.graphs[gi]? = some sg → ∀ k ∈ sg.output.grefsOf, k ∉ pend) :
    ∃ new, st'.program = st.program ++ new ∧ (∀ v ∈ liveIn new, v ∈ outsOf st.program) ∧ CL st' (pend.erase gi) := by
  simp only [emitVisit] at h
  cases hg : c.g.graphs[gi]? with
  | none => simp [hg, throw, throwThe, MonadExceptOf.throw] at h
  | some sg =>
    simp only [hg, bind, Except.bind] at h
    cases ho : c.blockFor (.gref gi) with
    | error err => simp [ho] at h
    | ok outer =>
    cases hi : c.blockFor sg.output with
    | error err => simp [ho, hi] at h
    | ok inner =>
    cases hf : varOf st.cache (.gref gi) with
    | error err => simp [ho, hi, hf] at h
    | ok fv =>
    cases hps : sg.inputs.mapM (fun t => varOf st.cache (.var t)) with
    | error err => simp [ho, hi, hf, hps] at h
    | ok params =>
    cases hr : convTop st.cache sg.output with
    | error err => simp [ho, hi, hf, hps, hr] at h
    | ok rr =>
      simp only [ho, hi, hf, hps, hr, pure, Except.pure, Except.ok.injEq] at h
      subst h
      have hprog : (st.push none [(inner, Stmt.return_ rr), (outer, Stmt.def_ fv params inner gi)]).program
          = st.program ++ [.return_ rr, .def_ fv params inner gi] := by
        rw [program_push]; rfl
      have hcache : assocGet st.cache (.gref gi) = some (.var fv) := by
        unfold varOf at hf
        split at hf
        · rename_i v hv; simp only [Except.ok.injEq] at hf; subst hf; exact hv
        · simp at hf
      refine ⟨_, hprog, ?_, ⟨?_⟩⟩
      · intro v hv
        simp only [liveIn, Stmt.reads, List.filter_nil, List.append_nil] at hv
        exact hcl.src (hns sg hg) v (convTop_vars _ _ _ hr v hv)
      · intro k e hmem v hv
        rw [hprog, outsOf_append]
        rcases hcl.c1 k e hmem v hv with h1 | ⟨g', hg', hk, hget, he⟩
        · exact Or.inl (List.mem_append_left _ h1)
        · by_cases hgg : g' = gi
          · subst hgg
            rw [hcache] at hget
            simp only [Option.some.injEq] at hget
            subst hget
            simp only [E.var.injEq] at he
            subst he
            exact Or.inl (List.mem_append_right _ (by simp [outsOf, Stmt.outputVars]))
          · exact Or.inr ⟨g', (List.mem_erase_of_ne hgg).2 hg', hk, hget, he⟩

/-! ### The whole traversal -/

theorem liveIn_append_cases (l1 l2 : List Stmt) (v : Nat) (h : v ∈ liveIn (l1 ++ l2)) :
    v ∈ liveIn l1 ∨ (v ∈ liveIn l2 ∧ v ∉ outsOf l1) := by
  induction l1 with
  | nil => exact Or.inr ⟨h, by simp [outsOf]⟩
  | cons s rest ih =>
    rw [List.cons_append, mem_liveIn_cons] at h
    rcases h with h | ⟨h1, h2⟩
    · exact Or.inl ((mem_liveIn_cons s rest v).2 (Or.inl h))
    · rcases ih h1 with h3 | ⟨h3, h4⟩
      · exact Or.inl ((mem_liveIn_cons s rest v).2 (Or.inr ⟨h3, h2⟩))
      · refine Or.inr ⟨h3, ?_⟩
        simp only [outsOf, List.flatMap_cons, List.mem_append, not_or]
        exact ⟨h2, h4⟩

theorem emitAll_closed (c : Ctx) (order : List Visit) : ∀ (pend : List Nat) (st st' : GState), CL st pend →
    noSelfRef c.g order pend = true → emitAll c order st = .ok st' →
    ∃ newAll, st'.program = st.program ++ newAll ∧ (∀ v ∈ liveIn newAll, v ∈ outsOf st.program) ∧
      CL st' (pendAfter order pend) := by
  induction order with
  | nil =>
    intro pend st st' hcl _ h
    simp only [emitAll, List.foldlM_nil, pure, Except.pure, Except.ok.injEq] at h
    subst h
    exact ⟨[], by simp, by simp [liveIn], hcl⟩
  | cons v rest ih =>
    intro pend st st' hcl hns h
    obtain ⟨s1, h1, h2⟩ := emitAll_cons c v rest st st' h
    have fin : ∀ (pend1 : List Nat) (new1 : List Stmt), s1.program = st.program ++ new1 →
        (∀ v ∈ liveIn new1, v ∈ outsOf st.program) → CL s1 pend1 → noSelfRef c.g rest pend1 = true →
        ∃ newAll, st'.program = st.program ++ newAll ∧ (∀ v ∈ liveIn newAll, v ∈ outsOf st.program) ∧
          CL st' (pendAfter rest pend1) := by
      intro pend1 new1 hp1 hl1 hcl1 hns1
      obtain ⟨new2, hp2, hl2, hcl2⟩ := ih pend1 s1 st' hcl1 hns1 h2
      refine ⟨new1 ++ new2, by rw [hp2, hp1, List.append_assoc], ?_, hcl2⟩
      intro w hw
      rcases liveIn_append_cases new1 new2 w hw with h3 | ⟨h3, h4⟩
      · exact hl1 w h3
      · have := hl2 w h3
        rw [hp1, outsOf_append, List.mem_append] at this
        rcases this with h5 | h5
        · exact h5
        · exact absurd h5 h4
    cases v with
    | app i =>
      simp only [noSelfRef, Bool.and_eq_true] at hns
      obtain ⟨new1, hp1, hl1, hcl1⟩ := app_closed c st s1 i pend hcl h1 (by
        intro a ha k hk hpk
        have := hns.1
        simp only [ha, List.all_eq_true] at this
        have := this k hk
        simp [hpk] at this)
      exact fin pend new1 hp1 hl1 hcl1 hns.2
    | enter gi =>
      simp only [noSelfRef] at hns
      obtain ⟨new1, hp1, hl1, hcl1⟩ := enter_closed c st s1 gi pend hcl h1
      exact fin (gi :: pend) new1 hp1 hl1 hcl1 hns
    | exit gi =>
      simp only [noSelfRef, Bool.and_eq_true] at hns
      obtain ⟨new1, hp1, hl1, hcl1⟩ := exit_closed c st s1 gi pend hcl h1 (by
        intro sg hsg k hk hpk
        have := hns.1
        simp only [hsg, List.all_eq_true] at this
        have := this k hk
        simp [hpk] at this)
      exact fin (pend.erase gi) new1 hp1 hl1 hcl1 hns.2

theorem CL.init : CL {} [] := ⟨by intro k e h; simp at h⟩

theorem emit_closed_of_noSelfRef (c : Ctx) (order : List Visit) (st : GState) (h : emitAll c order {} = .ok st)
    (hns : noSelfRef c.g order [] = true) : liveIn st.program = [] ∧ CL st (pendAfter order []) := by
  obtain ⟨newAll, hp, hl, hcl⟩ := emitAll_closed c order [] {} st CL.init hns h
  have hp' : st.program = newAll := by simpa [GState.program] using hp
  refine ⟨?_, hcl⟩
  apply List.eq_nil_iff_forall_not_mem.2
  intro v hv
  rw [hp'] at hv
  have := hl v hv
  simp [outsOf, GState.program] at this

end Einx.Compile
