import EinxModel.Proofs.NotationNFFinal
import EinxModel.Solve.FromNotation
import EinxModel.Proofs.SolveNames
/-!
`plainNames` holds for every input whose expressions come from the parser model: by the grammar of
`parseOp`'s results (`Proofs/NotationNF*.lean`, `NF.parseOp_NRoot`) a named axis carries a name
matching `[a-zA-Z_][a-zA-Z0-9_]*` or — directly under an ellipsis — the anonymous ellipsis name.
-/
namespace Einx.Solve
open Einx.Notation (N NL NArgs NRoot isAxisName anonName axisOK isAnonAxisNone)

/-- What the stage-1 parser can give a named axis: an identifier or the anonymous ellipsis name. -/
def ParserName (s : String) : Prop := identName s = true ∨ s = Einx.Extracted.anonymousVariableName

/-- An occurrence (name, enclosing ellipses) as the stage-1 parser can produce it: an identifier
anywhere, or the anonymous name under at least one ellipsis. -/
def ParserOcc (p : String × List Var) : Prop :=
  identName p.1 = true ∨ (p.1 = Einx.Extracted.anonymousVariableName ∧ p.2 ≠ [])

theorem ParserOcc.name {p : String × List Var} (h : ParserOcc p) : ParserName p.1 :=
  h.elim Or.inl (fun h => Or.inr h.1)

theorem isIdentStart_eq (c : Char) : isIdentStart c = Einx.Notation.isNameStart c := by
  simp [isIdentStart, Einx.Notation.isNameStart, Einx.Notation.isAsciiLetter]

theorem isIdentCont_eq (c : Char) : isIdentCont c = Einx.Notation.isNameCont c := by
  simp only [isIdentCont, isIdentStart, Einx.Notation.isNameCont, Einx.Notation.isAsciiLetter, Einx.Notation.isAsciiDigit]
  cases (decide ('a' ≤ c) && decide (c ≤ 'z') || decide ('A' ≤ c) && decide (c ≤ 'Z')) <;>
    cases (c == '_') <;> cases (decide ('0' ≤ c) && decide (c ≤ '9')) <;> rfl

theorem identChars_eq_isAxisName (n : List Char) : identChars n = isAxisName n := by
  cases n with
  | nil => rfl
  | cons c cs =>
    simp only [identChars, isAxisName, isIdentStart_eq]
    congr 1
    have : isIdentCont = Einx.Notation.isNameCont := funext isIdentCont_eq
    rw [this]

theorem identChars_plain {s : List Char} (h : identChars s = true) : plainChars s = true := by
  have hall : ∀ c ∈ s, isIdentCont c = true := by
    cases s with
    | nil => simp [identChars] at h
    | cons c cs =>
      simp only [identChars, Bool.and_eq_true, List.all_eq_true] at h
      intro d hd
      rcases List.mem_cons.mp hd with rfl | hd
      · simp [isIdentCont, h.1]
      · exact h.2 d hd
  rw [plainChars_iff]
  refine ⟨fun hm => ?_, fun hm => ?_⟩
  · have := hall _ hm
    exact absurd this (by decide)
  · have := hall _ hm
    exact absurd this (by decide)

theorem parserName_plain {s : String} (h : ParserName s) : plainName s = true := by
  rcases h with h | h
  · exact identChars_plain h
  · subst h; decide

mutual
theorem N_occs : ∀ (x : Einx.Notation.Expr) (inBr al : Bool), N inBr al x = true →
    ∀ st, ∀ p ∈ occs st (toSolve x), ParserOcc p
  | .axis n v b e, inBr, al, h, st, p, hp => by
    cases v with
    | none =>
      simp only [N, axisOK] at h
      simp only [toSolve, occs, List.mem_singleton] at hp
      subst hp
      left
      simp only [identName, String.toList_ofList, identChars_eq_isAxisName, h]
    | some k => simp [toSolve, occs] at hp
  | .flat i b e, inBr, al, h, st, p, hp => by
    simp only [N, Bool.and_eq_true] at h
    simp only [toSolve, occs] at hp
    exact N_occs i inBr true h.2 st p hp
  | .brackets i b e, inBr, al, h, st, p, hp => by
    simp only [N, Bool.and_eq_true] at h
    simp only [toSolve, occs] at hp
    exact N_occs i true true h.2 st p hp
  | .ellipsis i id b e, inBr, al, h, st, p, hp => by
    simp only [N, Bool.or_eq_true, Bool.and_eq_true] at h
    simp only [toSolve, occs] at hp
    rcases h with h | h
    · cases i with
      | axis n v b' e' =>
        cases v with
        | none =>
          simp only [isAnonAxisNone, beq_iff_eq] at h
          simp only [toSolve, occs, List.mem_singleton] at hp
          subst hp
          right
          exact ⟨by simp only [h, anonName, String.ofList_toList], by simp⟩
        | some k => simp [isAnonAxisNone] at h
      | _ => simp [isAnonAxisNone] at h
    · exact N_occs i inBr true h.2 _ p hp
  | .concat cs b e, inBr, al, h, st, p, hp => by
    simp only [N, Bool.and_eq_true] at h
    simp only [toSolve, occs] at hp
    exact NL_occs cs inBr h.2 st p hp
  | .list cs b e, inBr, al, h, st, p, hp => by
    simp only [N, Bool.and_eq_true] at h
    simp only [toSolve, occs] at hp
    exact NL_occs cs inBr h.2 st p hp
  | .args .., _, _, h, _, _, _ => by simp [N] at h
  | .op .., _, _, h, _, _, _ => by simp [N] at h
theorem NL_occs : ∀ (cs : List Einx.Notation.Expr) (inBr : Bool), NL inBr cs = true →
    ∀ st, ∀ p ∈ occsL st (toSolveL cs), ParserOcc p
  | [], _, _, _, p, hp => by simp [toSolveL, occsL] at hp
  | c :: cs, inBr, h, st, p, hp => by
    simp only [NL, Bool.and_eq_true] at h
    simp only [toSolveL, occsL, List.mem_append] at hp
    rcases hp with hp | hp
    · exact N_occs c inBr false h.1 st p hp
    · exact NL_occs cs inBr h.2 st p hp
end

/-- Every named axis of every operand expression of a `parseOp` result carries an identifier or the
anonymous ellipsis name. -/
theorem parseOp_names (text : Einx.Notation.Str) (t : Einx.Notation.Expr) (h : Einx.Notation.parseOp text = .ok t) :
    ∀ e ∈ operandExprs t, ∀ st, ∀ p ∈ occs st e, ParserOcc p := by
  have hr := (Einx.Notation.NF.parseOp_NRoot text t h).1
  intro e he st p hp
  cases t with
  | op cs b0 e0 =>
    simp only [NRoot, Bool.and_eq_true, List.all_eq_true] at hr
    simp only [operandExprs, Einx.Notation.Expr.children, List.mem_flatMap, List.mem_map] at he
    obtain ⟨side, hside, x, hx, rfl⟩ := he
    have hs := hr.2 side hside
    cases side with
    | args as b1 e1 =>
      simp only [NArgs, Bool.and_eq_true, List.all_eq_true] at hs
      simp only at hx
      exact N_occs x false true (hs.2 x hx) st p hp
    | _ => simp [NArgs] at hs
  | _ => simp [NRoot] at hr

/-- **Inputs built from the parser model's output satisfy the syntactic condition.** -/
theorem parseOp_plainNames (text : Einx.Notation.Str) (t : Einx.Notation.Expr) (h : Einx.Notation.parseOp text = .ok t)
    (inp : Input) (hts : ∀ tn ∈ inp.tensors, tn.expr ∈ operandExprs t) : plainNames inp = true := by
  simp only [plainNames, Input.axisNames, List.all_eq_true, List.mem_map]
  rintro n ⟨p, hp, rfl⟩
  unfold Input.occs at hp
  obtain ⟨tn, htn, hp⟩ := List.mem_flatMap.mp hp
  exact parserName_plain (parseOp_names text t h _ (hts tn htn) [] p hp).name

end Einx.Solve
