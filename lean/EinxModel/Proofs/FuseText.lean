import EinxModel.Proofs.FuseLoop
/-!
C04, name re-use, part 7: the interference condition in *text order*, block by block (the verdict `fuse_safe` of the driver).

The text of block `b` is a header `H` (comments, hoisted imports: no reads, output variables that do not allow re-use) followed by
the statements of `body` that belong to the block, in emission order.  With the invariant `FInv` for the final groups:
`fuseSafe ρ T` (a statement that writes a shared name is not followed, in the block, by a read of another variable of that name
before its definition) and `entrySafe ρ T` (the variables a block reads from outside — parameters, variables of enclosing blocks —
have pairwise distinct names).
-/
namespace Einx.Compile

/-! ### Lists -/

/-- A split of the filtered image of a list comes from a split of the list. -/
theorem filter_map_split {α β : Type} (q : α → Bool) (f : α → β) : ∀ (body : List α) (F1 F2 : List β) (s : β),
    (body.filter q).map f = F1 ++ s :: F2 →
    ∃ B1 y B2, body = B1 ++ y :: B2 ∧ q y = true ∧ f y = s ∧ F1 = (B1.filter q).map f ∧ F2 = (B2.filter q).map f
  | [], F1, F2, s, h => by simp at h
  | x :: xs, F1, F2, s, h => by
    by_cases hq : q x = true
    · rw [List.filter_cons_of_pos hq, List.map_cons] at h
      match F1, h with
      | [], h =>
        simp only [List.nil_append, List.cons.injEq] at h
        exact ⟨[], x, xs, rfl, hq, h.1, rfl, h.2.symm⟩
      | a :: F1', h =>
        simp only [List.cons_append, List.cons.injEq] at h
        obtain ⟨B1, y, B2, hb, hy, hfy, h1, h2⟩ := filter_map_split q f xs F1' F2 s h.2
        refine ⟨x :: B1, y, B2, by rw [hb]; rfl, hy, hfy, ?_, h2⟩
        rw [List.filter_cons_of_pos hq, List.map_cons, ← h1, h.1]
    · rw [List.filter_cons_of_neg hq] at h
      obtain ⟨B1, y, B2, hb, hy, hfy, h1, h2⟩ := filter_map_split q f xs F1 F2 s h
      refine ⟨x :: B1, y, B2, by rw [hb]; rfl, hy, hfy, ?_, h2⟩
      rw [List.filter_cons_of_neg hq, ← h1]

theorem filter_map_of_split {α β : Type} (q : α → Bool) (f : α → β) (B1 B2 : List α) (y : α) (hy : q y = true) :
    ((B1 ++ y :: B2).filter q).map f = (B1.filter q).map f ++ f y :: (B2.filter q).map f := by
  rw [List.filter_append, List.filter_cons_of_pos hy, List.map_append, List.map_cons]

/-! ### Reads and definitions -/

/-- In a closed program with single definitions no statement before the definition of `w`, nor the defining statement itself,
reads `w`. -/
theorem no_read_before_def (P : List Stmt) (hnd : (outsOf P).Nodup) (hcl : liveIn P = []) (B1 B2 : List Stmt) (d : Stmt)
    (hP : P = B1 ++ d :: B2) (w : Nat) (hw : w ∈ d.outputVars) : (∀ r ∈ B1, w ∉ r.reads) ∧ w ∉ d.reads := by
  constructor
  · intro r hr hwr
    obtain ⟨C1, C2, hB1⟩ := List.append_of_mem hr
    have hP' : P = C1 ++ r :: (C2 ++ d :: B2) := by rw [hP, hB1]; simp
    have hdef : w ∈ outsOf C1 := by
      apply live_defined C1 (r :: (C2 ++ d :: B2)) (by rw [← hP']; exact hcl) w
      exact (mem_liveIn_cons _ _ _).2 (Or.inl hwr)
    rw [hP'] at hnd
    refine (outs_disj C1 _ r hnd).2.1 w hdef ?_
    exact (mem_outsOf _ _).2 ⟨d, by simp, hw⟩
  · intro hwr
    have hdef : w ∈ outsOf B1 := by
      apply live_defined B1 (d :: B2) (by rw [← hP]; exact hcl) w
      exact (mem_liveIn_cons _ _ _).2 (Or.inl hwr)
    rw [hP] at hnd
    exact (outs_disj B1 B2 d hnd).1 w hdef hw

/-- A variable that is defined before its first reader in a list is not live on entry of the list. -/
theorem not_live_of_defined_first (l1 l2 : List Stmt) (d : Stmt) (w : Nat) (hw : w ∈ d.outputVars)
    (h1 : ∀ r ∈ l1, w ∉ r.reads) (hd : w ∉ d.reads) : w ∉ liveIn (l1 ++ d :: l2) := by
  intro h
  rcases liveIn_append_cases l1 (d :: l2) w h with h | ⟨h, _⟩
  · obtain ⟨r, hr, hwr⟩ := mem_liveIn_reads l1 w h
    exact h1 r hr hwr
  · rcases (mem_liveIn_cons d l2 w).1 h with h | ⟨_, h⟩
    · exact hd h
    · exact h hw

/-! ### The text of one block -/

theorem text_safe (body : List (Nat × Stmt)) (blockOf : Nat → Nat) (reuse : Nat → Bool) (n : Nat) (grp : List Nat)
    (hinv : FInv body blockOf reuse n [] grp) (hnd : (outsOf (body.map (·.2))).Nodup) (hcl : liveIn (body.map (·.2)) = [])
    (hinfo : ∀ p ∈ body, ∀ o ∈ p.2.outputVars, (p.2.isParam = false → blockOf o = p.1) ∧ (p.2.isImport = true → reuse o = false))
    (b : Nat) (H : List Stmt) (hH : ∀ s ∈ H, s.reads = [] ∧ ∀ o ∈ s.outputVars, reuse o = false) :
    fuseSafe (ρOf grp) (H ++ (body.filter (pb b)).map (·.2)) = true ∧
    entrySafe (ρOf grp) (H ++ (body.filter (pb b)).map (·.2)) = true := by
  have pb_block : ∀ y, pb b y = true → y.1 = b ∧ y.2.isImport = false ∧ y.2.isParam = false := by
    intro y hy
    simp only [pb, Bool.and_eq_true, beq_iff_eq, Bool.not_eq_true'] at hy
    exact ⟨hy.1.1, hy.1.2, hy.2⟩
  have pb_assign : ∀ w rhs eff, pb b (b, Stmt.assign w rhs eff) = true := by
    intro w rhs eff; simp [pb, Stmt.isImport, Stmt.isParam]
  -- a non-first member of a group whose block is `b` is defined in the text of the block, before all its readers
  have defined_in_text : ∀ w1 w2, w1 ≠ w2 → ρOf grp w1 = ρOf grp w2 → Before (body.map (·.2)) w1 w2 → blockOf w2 = b →
      ∃ bpre rhs eff brest, body = bpre ++ (b, Stmt.assign w2 rhs eff) :: brest ∧
        (∀ r ∈ bpre.map (·.2), w2 ∉ r.reads) ∧ w2 ∉ (Stmt.assign w2 rhs eff).reads := by
    intro w1 w2 hne hρ hB hb2
    obtain ⟨bpre, rhs, eff, brest, hbody⟩ := hinv.asg w1 w2 hne hρ hB
    rw [hb2] at hbody
    have hP : body.map (·.2) = bpre.map (·.2) ++ Stmt.assign w2 rhs eff :: brest.map (·.2) := by rw [hbody]; simp
    obtain ⟨h1, h2⟩ := no_read_before_def _ hnd hcl _ _ _ hP w2 (by simp [Stmt.outputVars])
    exact ⟨bpre, rhs, eff, brest, hbody, h1, h2⟩
  constructor
  · -- fuseSafe
    apply fuseSafe_of_splits
    intro tpre s trest hT o ho w hw
    by_cases hwo : w = o
    · exact Or.inl hwo
    refine Or.inr ?_
    intro hρ
    -- the statement belongs to the emitted part of the block
    have main : ∀ F1, (body.filter (pb b)).map (·.2) = F1 ++ s :: trest → False := by
      intro F1 hF
      obtain ⟨B1, y, B2, hbody, hy, hys, _, hF2⟩ := filter_map_split (pb b) (·.2) body F1 trest s hF
      obtain ⟨hyb, _, hypar⟩ := pb_block y hy
      have hP : body.map (·.2) = B1.map (·.2) ++ s :: B2.map (·.2) := by rw [hbody, ← hys]; simp
      have hbo : blockOf o = b := by
        have := (hinfo y (by rw [hbody]; simp) o (by rw [hys]; exact ho)).1 hypar
        rw [this, hyb]
      rcases hinv.ord w o hwo hρ with hb | hb
      · obtain ⟨p, t, r, e, ot, _, dead⟩ := hb
        obtain ⟨_, _, hr⟩ := split_unique _ hnd _ p _ r s t o hP e ho ot
        obtain ⟨x, hx, hwx⟩ := mem_liveIn_reads trest w hw
        refine dead x ?_ (Stmt.reads_sub_inputVars x w hwx)
        rw [← hr]
        rw [hF2] at hx
        obtain ⟨z, hz, rfl⟩ := List.mem_map.1 hx
        exact List.mem_map.2 ⟨z, (List.mem_filter.1 hz).1, rfl⟩
      · have hbw : blockOf w = b := by rw [hinv.blk w o hρ, hbo]
        obtain ⟨bpre, rhs, eff, brest, hbody2, hnr, hnd2⟩ := defined_in_text o w (Ne.symm hwo) hρ.symm hb hbw
        rcases split_tri B1 bpre y (b, Stmt.assign w rhs eff) B2 brest (hbody.symm.trans hbody2) with
          ⟨_, hyd, _⟩ | ⟨mid, hbp, hB2⟩ | ⟨mid, hB1, _⟩
        · -- the statement defines `w` itself
          rw [← hys, hyd] at ho
          simp only [Stmt.outputVars, List.mem_singleton] at ho
          exact hwo ho.symm
        · -- `w` is defined later in the block, before its readers
          rw [hF2, hB2, filter_map_of_split (pb b) (·.2) mid brest _ (pb_assign w rhs eff)] at hw
          refine not_live_of_defined_first _ _ _ w (by simp [Stmt.outputVars]) ?_ hnd2 hw
          intro r hr
          apply hnr r
          rw [hbp]
          obtain ⟨z, hz, rfl⟩ := List.mem_map.1 hr
          exact List.mem_map.2 ⟨z, by simp [(List.mem_filter.1 hz).1], rfl⟩
        · -- `w` defined before `o`: contradicts `Before o w`
          obtain ⟨p, t, r, e, wt, od, _⟩ := hb
          have hP2 : body.map (·.2) = bpre.map (·.2) ++ Stmt.assign w rhs eff :: brest.map (·.2) := by rw [hbody2]; simp
          obtain ⟨hp, _, _⟩ := split_unique _ hnd _ p _ r _ t w hP2 e (by simp [Stmt.outputVars]) wt
          have hnd' := hnd
          rw [hP] at hnd'
          refine (outs_disj _ _ s hnd').1 o ?_ ho
          rw [hB1, List.map_append, outsOf_append]
          exact List.mem_append_left _ (by rw [hp]; exact od)
    rcases List.append_eq_append_iff.1 hT with ⟨a', _, hF⟩ | ⟨c', hHs, hc⟩
    · exact main a' hF
    · match c', hHs, hc with
      | [], _, hc => exact main [] (by simpa using hc.symm)
      | s' :: c'', hHs, hc =>
        -- the statement belongs to the header: its output variable does not allow re-use
        simp only [List.cons_append, List.cons.injEq] at hc
        have hsH : s ∈ H := by rw [hHs, hc.1]; simp
        have h1 := (hH s hsH).2 o ho
        have h2 := hinv.ru o w (Ne.symm hwo) hρ.symm
        rw [h1] at h2
        exact Bool.noConfusion h2
  · -- entrySafe
    have key : ∀ w1 w2, w1 ≠ w2 → ρOf grp w1 = ρOf grp w2 → Before (body.map (·.2)) w1 w2 →
        w1 ∈ liveIn (H ++ (body.filter (pb b)).map (·.2)) → w2 ∉ liveIn (H ++ (body.filter (pb b)).map (·.2)) := by
      intro w1 w2 hne hρ hB h1
      -- a reader of `w1` in the text: it lies in block `b`, so `w1`, `w2` belong to block `b`
      obtain ⟨x, hx, hwx⟩ := mem_liveIn_reads _ w1 h1
      have hxF : x ∈ (body.filter (pb b)).map (·.2) := by
        rcases List.mem_append.1 hx with hx | hx
        · rw [(hH x hx).1] at hwx; simp at hwx
        · exact hx
      obtain ⟨y, hy, rfl⟩ := List.mem_map.1 hxF
      obtain ⟨hybody, hypb⟩ := List.mem_filter.1 hy
      have hb1 : blockOf w1 = b := by
        rw [← hinv.rd w1 w2 hne hρ hB y hybody (Stmt.reads_sub_inputVars _ _ hwx)]
        exact (pb_block y hypb).1
      have hb2 : blockOf w2 = b := by rw [← hinv.blk w1 w2 hρ, hb1]
      obtain ⟨bpre, rhs, eff, brest, hbody2, hnr, hnd2⟩ := defined_in_text w1 w2 hne hρ hB hb2
      rw [hbody2, filter_map_of_split (pb b) (·.2) bpre brest _ (pb_assign w2 rhs eff), ← List.append_assoc]
      refine not_live_of_defined_first _ _ _ w2 (by simp [Stmt.outputVars]) ?_ hnd2
      intro r hr
      rcases List.mem_append.1 hr with hr | hr
      · rw [(hH r hr).1]; simp
      · apply hnr r
        obtain ⟨z, hz, rfl⟩ := List.mem_map.1 hr
        exact List.mem_map.2 ⟨z, (List.mem_filter.1 hz).1, rfl⟩
    simp only [entrySafe, List.all_eq_true, Bool.or_eq_true, beq_iff_eq, bne_iff_ne, ne_eq]
    intro v hv w hw
    by_cases hvw : v = w
    · exact Or.inl hvw
    refine Or.inr ?_
    intro hρ
    rcases hinv.ord v w hvw hρ with hb | hb
    · exact key v w hvw hρ hb hv hw
    · exact key w v (Ne.symm hvw) hρ.symm hb hw hv

end Einx.Compile
