import EinxModel.Denote.Expr3
/-
Justification of the canonical forms of `Denote/Expr3.lean`:

* `peel_eq_unravel`: peeling a flat index by successive `divmod` with the sizes from the last axis to the
  first (what einx's `_unravel` emits and what `peelCells` builds symbolically) gives `unravel`;
* `evalCell_peelCells`: under every interpretation in which `remainder` / `floor_divide` are `%` and `/`
  on the integers, the cells `peelCells sizes k` evaluate to `unravel sizes` of the value of `k`.
-/
namespace Einx.Denote
open Einx Einx.IR

theorem prod_append_single (a : List Nat) (s : Nat) : prod (a ++ [s]) = prod a * s := by
  rw [prod_append]; simp [prod]

/-- `unravel` of a shape with one more trailing axis: divide by the last size for the leading axes, the
remainder is the last coordinate. -/
theorem unravel_append_single : ∀ (a : List Nat) (s k : Nat), k < prod (a ++ [s]) →
    unravel (a ++ [s]) k = unravel a (k / s) ++ [k % s]
  | [], s, k, h => by
    simp only [List.nil_append, prod, Nat.mul_one] at h
    simp [unravel, prod, Nat.mod_eq_of_lt h]
  | x :: a, s, k, h => by
    have hP : prod (a ++ [s]) = prod a * s := prod_append_single a s
    have hpos : 0 < prod a * s := by
      rcases Nat.eq_zero_or_pos (prod a * s) with h0 | h0
      · simp [prod, hP, h0] at h
      · exact h0
    have ih := unravel_append_single a s (k % (prod a * s)) (by rw [hP]; exact Nat.mod_lt _ hpos)
    simp only [List.cons_append, unravel, hP, ih, List.cons.injEq]
    refine ⟨?_, ?_⟩
    · rw [Nat.mul_comm (prod a) s, Nat.div_div_eq_div_mul]
    · rw [Nat.mul_comm (prod a) s, Nat.mod_mul_right_div_self, Nat.mod_mod_of_dvd _ (Nat.dvd_mul_right s (prod a))]

theorem peelRevNat_reverse : ∀ (rs : List Nat) (k : Nat), k < prod rs.reverse →
    (peelRevNat rs k).reverse = unravel rs.reverse k
  | [], k, _ => by simp [peelRevNat, unravel]
  | s :: rs, k, h => by
    simp only [List.reverse_cons] at h ⊢
    have hP := prod_append_single rs.reverse s
    have hq : k / s < prod rs.reverse := by
      rw [hP] at h
      exact Nat.div_lt_of_lt_mul (by rw [Nat.mul_comm]; exact h)
    rw [unravel_append_single _ _ _ h, ← peelRevNat_reverse rs (k / s) hq]
    simp [peelRevNat]

/-- **The peeled coordinates are `unravel`**: for a flat index inside the block, successive `divmod` by the
trailing sizes (last axis first; no arithmetic at all for a single axis) gives the row-major multi-index. -/
theorem peel_eq_unravel (sizes : List Nat) (k : Nat) (h : k < prod sizes) : peel sizes k = unravel sizes k := by
  have hgen : (peelRevNat sizes.reverse k).reverse = unravel sizes k := by
    have := peelRevNat_reverse sizes.reverse k (by simpa using h)
    simpa using this
  unfold peel
  split
  · rename_i s
    simp [unravel, prod]
  · exact hgen

/-! ### The symbolic peeling evaluates to `unravel` -/

/-- An interpretation of the function symbols in which `remainder` / `floor_divide` are the integer
operations on non-negative arguments (as in numpy). -/
def DivModInterp (I : String → List Int → Int) : Prop :=
  ∀ (a s : Nat), I "remainder" [Int.ofNat a, Int.ofNat s] = Int.ofNat (a % s) ∧
    I "floor_divide" [Int.ofNat a, Int.ofNat s] = Int.ofNat (a / s)

theorem evalCells_peelRevCells {I : String → List Int → Int} (hI : DivModInterp I) (bad : Int)
    (regs : List (Tensor Int)) : ∀ (rs : List Nat) (q : Cell) (n : Nat),
      evalCell ⟨id, I, bad⟩ regs q = Int.ofNat n →
      evalCells ⟨id, I, bad⟩ regs (peelRevCells rs q) = (peelRevNat rs n).map Int.ofNat
  | [], _, _, _ => by simp [peelRevCells, peelRevNat, evalCells]
  | s :: rs, q, n, hq => by
    have ih := evalCells_peelRevCells hI bad regs rs (.app "floor_divide" [q, .lit (Int.ofNat s)]) (n / s)
      (by simp only [evalCell, evalCells, hq, id]; exact (hI n s).2)
    simp only [peelRevCells, peelRevNat, evalCells, evalCell, hq, id, ih, List.map_cons, (hI n s).1]

theorem evalCells_reverse {α : Type} (A : Alg α) (regs : List (Tensor α)) (cs : List Cell) :
    evalCells A regs cs.reverse = (evalCells A regs cs).reverse := by
  have h : ∀ l : List Cell, evalCells A regs l = l.map (evalCell A regs) := by
    intro l; induction l with
    | nil => simp [evalCells]
    | cons c cs ih => simp [evalCells, ih]
  simp [h]

/-- **Meaning of the argmax/argmin coordinate cells**: whenever the flat-index cell `k` evaluates to a
natural number `n` inside the block, the cells `peelCells sizes k` of the denotation evaluate to the
row-major multi-index `unravel sizes n`. -/
theorem evalCell_peelCells {I : String → List Int → Int} (hI : DivModInterp I) (bad : Int)
    (regs : List (Tensor Int)) (sizes : List Nat) (k : Cell) (n : Nat)
    (hk : evalCell ⟨id, I, bad⟩ regs k = Int.ofNat n) (hn : n < prod sizes) :
    evalCells ⟨id, I, bad⟩ regs (peelCells sizes k) = (unravel sizes n).map Int.ofNat := by
  rw [← peel_eq_unravel sizes n hn]
  unfold peelCells peel
  split
  · simp [evalCells, hk]
  · rw [evalCells_reverse, evalCells_peelRevCells hI bad regs _ k n hk]
    simp

/-! ### The symbolic row-major formula of get_at evaluates to `ravel` -/

/-- An interpretation in which `add` / `multiply` are the integer operations. -/
def ArithInterp (I : String → List Int → Int) : Prop :=
  ∀ a b : Int, I "add" [a, b] = a + b ∧ I "multiply" [a, b] = a * b

/-- The row-major formula on integers: `Σ c_j · m_j` over the axes that have a coordinate. -/
def ravelInt (coords : List (Option Int)) (sizes : List Nat) : Int :=
  ((List.zip coords (strides sizes)).filterMap (fun (c, m) => c.map (· * Int.ofNat m))).sum

theorem evalCell_foldl_add {I : String → List Int → Int} (hI : ArithInterp I) (bad : Int)
    (regs : List (Tensor Int)) : ∀ (ts : List Cell) (c : Cell),
      evalCell ⟨id, I, bad⟩ regs (ts.foldl (fun acc d => Cell.app "add" [acc, d]) c) =
        evalCell ⟨id, I, bad⟩ regs c + (ts.map (evalCell ⟨id, I, bad⟩ regs)).sum
  | [], c => by simp
  | t :: ts, c => by
    rw [List.foldl_cons, evalCell_foldl_add hI bad regs ts]
    simp only [evalCell, evalCells, (hI _ _).1, List.map_cons, List.sum_cons]
    omega

theorem evalCell_terms {I : String → List Int → Int} (hI : ArithInterp I) (bad : Int)
    (regs : List (Tensor Int)) : ∀ (zs : List (Option Cell × Nat)),
      ((zs.filterMap (fun (c, m) => c.map (fun c => if m == 1 then c else Cell.app "multiply" [c, .lit (Int.ofNat m)]))).map
        (evalCell ⟨id, I, bad⟩ regs)).sum =
      ((zs.map (fun (c, m) => (c.map (evalCell ⟨id, I, bad⟩ regs), m))).filterMap
        (fun (c, m) => c.map (· * Int.ofNat m))).sum
  | [] => by simp
  | (none, m) :: zs => by
    simpa [List.filterMap_cons] using evalCell_terms hI bad regs zs
  | (some c, m) :: zs => by
    have ih := evalCell_terms hI bad regs zs
    simp only [List.filterMap_cons, Option.map_some, List.map_cons, List.sum_cons, ih]
    congr 1
    by_cases hm : m = 1
    · subst hm; simp
    · simp [hm, evalCell, evalCells, (hI _ _).2]

/-- **Meaning of the get_at index cell**: under every interpretation in which `add` / `multiply` are the
integer operations, `ravelExpr coords sizes` evaluates to `Σ c_j · m_j` over the values of the
coordinate cells. -/
theorem evalCell_ravelExpr {I : String → List Int → Int} (hI : ArithInterp I) (bad : Int)
    (regs : List (Tensor Int)) (coords : List (Option Cell)) (sizes : List Nat) :
    evalCell ⟨id, I, bad⟩ regs (ravelExpr coords sizes) =
      ravelInt (coords.map (Option.map (evalCell ⟨id, I, bad⟩ regs))) sizes := by
  have hz : List.zip (coords.map (Option.map (evalCell ⟨id, I, bad⟩ regs))) (strides sizes) =
      (List.zip coords (strides sizes)).map (fun (c, m) => (c.map (evalCell ⟨id, I, bad⟩ regs), m)) := by
    rw [List.zip_map_left]
    apply List.map_congr_left
    intro ⟨c, m⟩ _; rfl
  unfold ravelExpr ravelInt
  rw [hz, ← evalCell_terms hI bad regs]
  generalize (List.zip coords (strides sizes)).filterMap _ = terms
  cases terms with
  | nil => simp [evalCell]
  | cons t ts => simp only [foldCells, evalCell_foldl_add hI bad regs, List.map_cons, List.sum_cons]

/-- … and on natural-number coordinates (an omitted axis standing for index 0) that sum is `ravel`. -/
theorem ravelInt_eq_ravel : ∀ (sizes : List Nat) (vals : List (Option Nat)),
    ravelInt (vals.map (Option.map Int.ofNat)) sizes = Int.ofNat (ravel sizes (vals.map (·.getD 0)))
  | [], vals => by cases vals <;> simp [ravelInt, strides, ravel]
  | s :: ss, [] => by simp [ravelInt, ravel]
  | s :: ss, v :: vals => by
    have ih := ravelInt_eq_ravel ss vals
    unfold ravelInt at ih ⊢
    simp only [List.map_cons, strides, List.zip_cons_cons, List.filterMap_cons, ravel]
    cases v with
    | none => simpa using ih
    | some i =>
      simp only [Option.map_some, List.sum_cons, Option.getD_some]
      rw [ih]
      simp [Int.natCast_add, Int.natCast_mul]

end Einx.Denote
