import EinxModel.Proofs.OptDagMeasure
/-!
A pass keeps a single-output store single-output (`Store.single`): every node the traversal creates is a fresh tracer, a
merged call (one output) or a rebuilt application with the output pytree of the old one.
-/
namespace Einx.OptDag

def singleNode (n : Node) : Bool :=
  match n.origin with
  | .none => true
  | .app a => a.out == [.ref 0]
  | .proj _ _ => false

def AllN (st : St) : Prop := ∀ n ∈ st.nodes, singleNode n = true

theorem AllN.push {st : St} (h : AllN st) (n : Node) (hn : singleNode n = true) : AllN (st.pushNode n) := by
  intro m hm
  simp only [St.pushNode, List.mem_append, List.mem_singleton] at hm
  rcases hm with hm | rfl
  · exact h m hm
  · exact hn

def GS (g : Tok → St → R (List Tok × St)) : Prop := ∀ (t : Tok) (st : St) (v : List Tok) (st' : St), g t st = .ok (v, st') → AllN st → AllN st'
def VS (h : List Tok → St → R (List Tok × St)) : Prop := ∀ (toks : List Tok) (st : St) (v : List Tok) (st' : St), h toks st = .ok (v, st') → AllN st → AllN st'

theorem mapToks_s (g : Tok → St → R (List Tok × St)) (hg : GS g) : VS (mapToks g) := by
  intro toks
  induction toks with
  | nil =>
    intro st v st' h hA
    simp only [mapToks, pure, Except.pure, Except.ok.injEq, Prod.mk.injEq] at h
    obtain ⟨rfl, rfl⟩ := h
    exact hA
  | cons t ts ih =>
    intro st v st' h hA
    simp only [mapToks] at h
    obtain ⟨⟨v1, st1⟩, h1, h⟩ := bind_ok.1 h
    obtain ⟨⟨vs, st2⟩, h2, h⟩ := bind_ok.1 h
    simp only [pure, Except.pure, Except.ok.injEq, Prod.mk.injEq] at h
    obtain ⟨rfl, rfl⟩ := h
    exact ih st1 vs st2 h2 (hg t st v1 st1 h1 hA)

theorem mapOperands_s (h : List Tok → St → R (List Tok × St)) (hh : VS h) :
    ∀ (vs : List (List Tok)) (st : St) (vs' : List (List Tok)) (st' : St), mapOperands h vs st = .ok (vs', st') → AllN st → AllN st' := by
  intro vs
  induction vs with
  | nil =>
    intro st vs' st' hm hA
    simp only [mapOperands, pure, Except.pure, Except.ok.injEq, Prod.mk.injEq] at hm
    obtain ⟨rfl, rfl⟩ := hm
    exact hA
  | cons w ws ih =>
    intro st vs' st' hm hA
    simp only [mapOperands] at hm
    obtain ⟨⟨v1, st1⟩, h1, hm⟩ := bind_ok.1 hm
    obtain ⟨⟨vs1, st2⟩, h2, hm⟩ := bind_ok.1 hm
    simp only [pure, Except.pure, Except.ok.injEq, Prod.mk.injEq] at hm
    obtain ⟨rfl, rfl⟩ := hm
    exact ih st1 vs1 st2 h2 (hh w st v1 st1 h1 hA)

theorem mapKwargs_s (h : List Tok → St → R (List Tok × St)) (hh : VS h) :
    ∀ (kws : List (String × List Tok)) (st : St) (kws' : List (String × List Tok)) (st' : St), mapKwargs h kws st = .ok (kws', st') → AllN st → AllN st' := by
  intro kws
  induction kws with
  | nil =>
    intro st kws' st' hm hA
    simp only [mapKwargs, pure, Except.pure, Except.ok.injEq, Prod.mk.injEq] at hm
    obtain ⟨rfl, rfl⟩ := hm
    exact hA
  | cons kw ws ih =>
    obtain ⟨k, w⟩ := kw
    intro st kws' st' hm hA
    simp only [mapKwargs] at hm
    obtain ⟨⟨v1, st1⟩, h1, hm⟩ := bind_ok.1 hm
    obtain ⟨⟨vs1, st2⟩, h2, hm⟩ := bind_ok.1 hm
    simp only [pure, Except.pure, Except.ok.injEq, Prod.mk.injEq] at hm
    obtain ⟨rfl, rfl⟩ := hm
    exact ih st1 vs1 st2 h2 (hh w st v1 st1 h1 hA)

theorem rebuild_s (S : Store) (h : List Tok → St → R (List Tok × St)) (hh : VS h) (a : App) (base : Nat) (st st' : St)
    (hout : a.out = [.ref 0]) (hr : rebuild S h a base st = .ok st') (hA : AllN st) : AllN st' := by
  unfold rebuild at hr
  obtain ⟨⟨pre', st1⟩, h1, hr⟩ := bind_ok.1 hr
  obtain ⟨⟨args', st2⟩, h2, hr⟩ := bind_ok.1 hr
  obtain ⟨⟨kwargs', st3⟩, h3, hr⟩ := bind_ok.1 hr
  obtain ⟨⟨deps', st4⟩, h4, hr⟩ := bind_ok.1 hr
  obtain ⟨⟨tys, out⟩, h5, hr⟩ := bind_ok.1 hr
  have A4 : AllN st4 := mapOperands_s h hh _ _ _ _ h4 (mapKwargs_s h hh _ _ _ _ h3 (mapOperands_s h hh _ _ _ _ h2 (mapOperands_s h hh _ _ _ _ h1 hA)))
  simp only at hr
  split at hr
  · cases hr
  · rename_i hchk
    simp only [Bool.or_eq_true, bne_iff_ne, ne_eq, not_or, Decidable.not_not] at hchk
    obtain ⟨⟨_, hlen⟩, ho⟩ := hchk
    rw [nOut_one a hout] at hlen
    split at hr
    · cases hr
    · rename_i ty0 tys'
      simp only [List.length_cons, Nat.add_eq_right, List.length_eq_zero_iff] at hlen
      subst hlen
      simp only [pure, Except.pure, Except.ok.injEq, pushProjs] at hr
      subst hr
      have := A4.push ⟨ty0, .app { head := a.head, pre := pre', args := args', kwargs := kwargs', deps := deps', out := out }⟩
        (by simp [singleNode, ho, hout])
      exact this

theorem newInputs_s (S : Store) : ∀ (is : List Nat) (st : St) (js : List Nat) (st1 : St), newInputs S is st = .ok (js, st1) → AllN st → AllN st1
  | [], st, js, st1, h, hA => by
    simp only [newInputs, pure, Except.pure, Except.ok.injEq, Prod.mk.injEq] at h
    obtain ⟨rfl, rfl⟩ := h
    exact hA
  | i :: is, st, js, st1, h, hA => by
    simp only [newInputs] at h
    split at h
    · rename_i nd hn
      obtain ⟨⟨js', st2⟩, h1, h⟩ := bind_ok.1 h
      simp only [pure, Except.pure, Except.ok.injEq, Prod.mk.injEq] at h
      obtain ⟨rfl, rfl⟩ := h
      exact newInputs_s S is _ js' st2 h1 (hA.push ⟨nd.ty, .none⟩ rfl)
    · cases h

theorem optTok_s (pats : List Pattern) (S : Store) (hS : S.single = true) : ∀ fuel, GS (optTok pats S fuel)
  | 0 => by
    intro t st v st' h
    simp [optTok, throw, throwThe, MonadExceptOf.throw] at h
  | fuel + 1 => by
    have ihV := mapToks_s _ (optTok_s pats S hS fuel)
    intro t st v st' h hA
    cases t with
    | atom a =>
      simp only [optTok] at h
      split at h
      · cases h
      · simp only [pure, Except.pure, Except.ok.injEq, Prod.mk.injEq] at h
        obtain ⟨rfl, rfl⟩ := h
        exact hA
    | open_ c m =>
      simp only [optTok, pure, Except.pure, Except.ok.injEq, Prod.mk.injEq] at h
      obtain ⟨rfl, rfl⟩ := h
      exact hA
    | gref k =>
      simp only [optTok] at h
      split at h
      · simp only [pure, Except.pure, Except.ok.injEq, Prod.mk.injEq] at h
        obtain ⟨rfl, rfl⟩ := h
        exact hA
      · obtain ⟨m, hm, h⟩ := bind_ok.1 h
        split at h
        · rename_i v1
          obtain ⟨⟨new, st1⟩, h1, h⟩ := bind_ok.1 h
          simp only [pure, Except.pure, Except.ok.injEq, Prod.mk.injEq] at h
          obtain ⟨rfl, rfl⟩ := h
          exact ihV v1 st new st1 h1 hA
        · cases h
        · split at h
          · cases h
          · rename_i g hg
            obtain ⟨⟨ins, sta⟩, h3, h⟩ := bind_ok.1 h
            obtain ⟨⟨out, stb⟩, h4, h⟩ := bind_ok.1 h
            simp only [pure, Except.pure, Except.ok.injEq, Prod.mk.injEq] at h
            obtain ⟨rfl, rfl⟩ := h
            exact ihV g.output sta out stb h4 (newInputs_s S g.inputs st ins sta h3 hA)
    | ref i =>
      simp only [optTok] at h
      split at h
      · simp only [pure, Except.pure, Except.ok.injEq, Prod.mk.injEq] at h
        obtain ⟨rfl, rfl⟩ := h
        exact hA
      · obtain ⟨m, hm, h⟩ := bind_ok.1 h
        split at h
        · rename_i v1
          obtain ⟨⟨new, st1⟩, h1, h⟩ := bind_ok.1 h
          simp only [pure, Except.pure, Except.ok.injEq, Prod.mk.injEq] at h
          obtain ⟨rfl, rfl⟩ := h
          exact ihV v1 st new st1 h1 hA
        · rename_i fn x lit
          obtain ⟨⟨fn', st1⟩, h1, h⟩ := bind_ok.1 h
          obtain ⟨⟨x', st2⟩, h2, h⟩ := bind_ok.1 h
          split at h
          · cases h
          · simp only [pure, Except.pure, Except.ok.injEq, Prod.mk.injEq] at h
            obtain ⟨rfl, rfl⟩ := h
            exact (ihV x st1 x' st2 h2 (ihV fn st fn' st1 h1 hA)).push _ (by simp [singleNode])
        · split at h
          · cases h
          · simp only [pure, Except.pure, Except.ok.injEq, Prod.mk.injEq] at h
            obtain ⟨rfl, rfl⟩ := h
            exact hA.push _ rfl
          · rename_i ty a hn
            obtain ⟨st1, h1, h⟩ := bind_ok.1 h
            have A1 := rebuild_s S _ ihV a i st st1 (single_app S hS i ty a hn) h1 hA
            split at h
            · simp only [pure, Except.pure, Except.ok.injEq, Prod.mk.injEq] at h
              obtain ⟨rfl, rfl⟩ := h
              exact A1
            · cases h
          · rename_i ty src k hn
            exact (single_proj S hS i ty src k hn).elim

/-- **A pass keeps the store single-output.** -/
theorem pass_single (pats : List Pattern) (fuel : Nat) (p p' : Prog) (ch : Bool) (hS : p.store.single = true)
    (hp : pass pats fuel p = .ok (p', ch)) : p'.store.single = true := by
  unfold pass at hp
  obtain ⟨⟨top, st⟩, h1, hp⟩ := bind_ok.1 hp
  simp only [pure, Except.pure, Except.ok.injEq, Prod.mk.injEq] at hp
  obtain ⟨rfl, rfl⟩ := hp
  have := mapToks_s _ (optTok_s pats p.store hS fuel) p.top {} top st h1 (by intro n hn; simp at hn)
  simp only [Store.single, List.all_eq_true]
  intro n hn
  have h2 := this n hn
  simp only [singleNode] at h2
  exact h2

end Einx.OptDag
