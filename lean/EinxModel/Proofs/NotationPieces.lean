import EinxModel.Proofs.NotationPrintDefs
import EinxModel.Proofs.NotationSegment
/-!
# M1 Notation — the lexer on a concatenation of well separated token texts (`segment_pieces`)
-/
namespace Einx.Notation

/-! ### Literals at the head of a text -/

theorem literals_contains_cases {l : Str} (h : literals.contains l = true) :
    l = ['-', '>'] ∨ l = [','] ∨ l = ['+'] ∨ l = [' '] ∨ l = ['('] ∨ l = ['['] ∨ l = [')'] ∨ l = [']'] ∨
      l = ['.', '.', '.'] := by
  rw [literals_eq] at h
  simpa using h

/-- The literals are prefix-free: a literal at the head of the text is the one that is matched. -/
theorem matchLit_lit {l : Str} (h : literals.contains l = true) (rest : Str) :
    matchLit literals (l ++ rest) = some l := by
  have hc := literals_contains_cases h
  rw [literals_eq]
  rcases hc with h | h | h | h | h | h | h | h | h <;> subst h <;> simp [matchLit]

/-- No literal starts with a letter, a digit or an underscore. -/
theorem matchLit_nameCont {c : Char} (h : isNameCont c = true) (rest : Str) :
    matchLit literals (c :: rest) = none := by
  have h1 : ¬ '-' = c := by intro e; subst e; revert h; decide
  have h2 : ¬ ',' = c := by intro e; subst e; revert h; decide
  have h3 : ¬ '+' = c := by intro e; subst e; revert h; decide
  have h4 : ¬ ' ' = c := by intro e; subst e; revert h; decide
  have h5 : ¬ '(' = c := by intro e; subst e; revert h; decide
  have h6 : ¬ '[' = c := by intro e; subst e; revert h; decide
  have h7 : ¬ ')' = c := by intro e; subst e; revert h; decide
  have h8 : ¬ ']' = c := by intro e; subst e; revert h; decide
  have h9 : ¬ '.' = c := by intro e; subst e; revert h; decide
  rw [literals_eq]
  simp [matchLit, h1, h2, h3, h4, h5, h6, h7, h8, h9]

/-- Scanning a run of name characters only extends the pending token. -/
theorem segment_word (w : Str) (hw : w.all isNameCont = true) (rest : Str) (pos start : Nat) (cur : Str) :
    segment literals (w ++ rest) pos start cur = segment literals rest (pos + w.length) start (cur ++ w) := by
  induction w generalizing pos cur with
  | nil => simp
  | cons c w ih =>
    simp only [List.all_cons, Bool.and_eq_true] at hw
    rw [List.cons_append, segment_cons_none (matchLit_nameCont hw.1 _), ih hw.2]
    simp only [List.length_cons, List.append_assoc, List.singleton_append]
    rw [Nat.add_assoc, Nat.add_comm 1]

/-- In front of a matched literal the pending characters are emitted as a token of their own. -/
theorem segment_match_flush {v l : Str} (h : matchLit literals v = some l) (pos start : Nat) (cur : Str) :
    segment literals v pos start cur = flush cur start pos ++ segment literals v pos pos [] := by
  rcases v with _ | ⟨c, v'⟩
  · have hp := matchLit_prefix h
    have hne := matchLit_ne_nil h
    exact absurd (List.length_eq_zero_iff.mp (Nat.le_zero.mp hp)) hne
  · rw [segment_cons_some h, segment_cons_some h, flush_nil]
    rfl

theorem flush_word {w : Str} (hw : w.isEmpty = false) (start pos : Nat) : flush w start pos = [⟨w, start, pos⟩] := by
  simp [flush, hw]

theorem wellSep_tail {p : Str} {r : List Str} (h : wellSep (p :: r) = true) : wellSep r = true := by
  rcases r with _ | ⟨q, r⟩
  · rfl
  · simp only [wellSep, Bool.and_eq_true] at h
    exact h.2

theorem segment_pieces_aux (ps : List Str) (h : wellSep ps = true) (pos : Nat) :
    (segment literals ps.flatten pos pos []).map (·.text) = ps := by
  induction ps generalizing pos with
  | nil => simp [segment_nil, flush_nil]
  | cons p r ih =>
    have ht := wellSep_tail h
    rw [List.flatten_cons]
    by_cases hp : literals.contains p = true
    · rw [segment_lit _ (matchLit_lit hp _), List.map_cons, ih ht]
    · rcases r with _ | ⟨q, r⟩
      · simp only [wellSep, hp, Bool.false_or, isWord, Bool.and_eq_true, Bool.not_eq_true'] at h
        rw [List.flatten_nil, segment_word p h.2, segment_nil, List.nil_append, flush_word h.1]
        rfl
      · simp only [wellSep, hp, Bool.false_or, isWord, Bool.and_eq_true, Bool.not_eq_true'] at h
        obtain ⟨⟨⟨hne, hall⟩, hq⟩, _⟩ := h
        have hm : matchLit literals (q :: r).flatten = some q := by
          rw [List.flatten_cons]; exact matchLit_lit hq _
        rw [segment_word p hall, List.nil_append, segment_match_flush hm, flush_word hne, List.map_append, ih ht]
        rfl

/-- The lexer cuts a concatenation of well separated token texts (literals and words; a word is always followed by a
    literal or the end) back into exactly these texts. -/
theorem segment_pieces (ps : List Str) (h : wellSep ps = true) :
    (segment literals ps.flatten 0 0 []).map (·.text) = ps :=
  segment_pieces_aux ps h 0

/-- If moreover every text is a valid token, the lexer accepts the text. -/
theorem lex_pieces (ps : List Str) (h : wellSep ps = true) (hv : ∀ p ∈ ps, validToken p = true) :
    ∃ toks, lex ps.flatten = .ok toks ∧ toks.map (·.text) = ps := by
  have hs := segment_pieces ps h
  have hnone : (segment literals ps.flatten 0 0 []).find? (fun t => !validToken t.text) = none := by
    rw [List.find?_eq_none]
    intro t ht
    have : t.text ∈ ps := by
      rw [← hs]
      exact List.mem_map_of_mem ht
    simp [hv _ this]
  refine ⟨segment literals ps.flatten 0 0 [], ?_, hs⟩
  unfold lex
  simp only [hnone]

/-! ### Duplicate-space pass -/

theorem dedup_no_adj_aux (toks : List Token) (f : Bool) (h : hasAdjSpaces (toks.map (·.text)) = false)
    (hf : f = true → ∀ t, toks.head? = some t → t.isSpace = false) :
    dedupSpaces toks f = toks := by
  induction toks generalizing f with
  | nil => rfl
  | cons t ts ih =>
    have htail : hasAdjSpaces (ts.map (·.text)) = false := by
      rcases ts with _ | ⟨u, ts⟩
      · rfl
      · simp only [List.map_cons, hasAdjSpaces, Bool.or_eq_false_iff] at h
        exact h.2
    unfold dedupSpaces
    by_cases hs : t.isSpace = true
    · have hff : f = false := by
        cases f with
        | false => rfl
        | true =>
          have := hf rfl t rfl
          rw [hs] at this
          cases this
      subst hff
      simp only [hs, if_true, Bool.false_eq_true, if_false]
      rw [ih true htail]
      intro _ u hu
      rcases ts with _ | ⟨u', ts⟩
      · simp at hu
      · simp only [List.head?_cons, Option.some.injEq] at hu
        subst hu
        simp only [List.map_cons, hasAdjSpaces, Bool.or_eq_false_iff, Bool.and_eq_false_iff] at h
        unfold Token.isSpace at hs ⊢
        rcases h.1 with h1 | h1
        · rw [hs] at h1; cases h1
        · exact h1
    · simp only [hs, Bool.false_eq_true, if_false]
      rw [ih false htail (fun hc => by cases hc)]

/-- Without two adjacent space tokens the duplicate-space pass changes nothing. -/
theorem dedup_no_adj (toks : List Token) (h : hasAdjSpaces (toks.map (·.text)) = false) :
    dedupSpaces toks false = toks :=
  dedup_no_adj_aux toks false h (fun hc => by cases hc)

end Einx.Notation
