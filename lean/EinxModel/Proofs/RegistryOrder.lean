import EinxModel.Proofs.Registry
import EinxModel.Proofs.Order
/-!
Helper lemmas for the order- and history-independence theorems of C11:
membership / `Nodup` characterisations of `unionByUid`, of the candidate fold and of `keepMax`,
`dictGet`/`dictSet`, the state after a run of registrations.
-/
namespace Einx.Registry

/-! ### uid-injectivity -/

theorem uidInj_of_nodup : ∀ (U : List Backend), (U.map (·.uid)).Nodup → UidInj U
  | [], _ => by intro x hx; cases hx
  | a :: U, h => by
    rw [List.map_cons, List.nodup_cons] at h
    have ih := uidInj_of_nodup U h.2
    intro x hx y hy e
    rcases List.mem_cons.1 hx with rfl | hx' <;> rcases List.mem_cons.1 hy with rfl | hy'
    · rfl
    · exact absurd (List.mem_map.2 ⟨y, hy', e.symm⟩) h.1
    · exact absurd (List.mem_map.2 ⟨x, hx', e⟩) h.1
    · exact ih x hx' y hy' e

theorem nodup_of_nodup_uid {l : List Backend} (h : (l.map (·.uid)).Nodup) : l.Nodup := by
  induction l with
  | nil => exact List.nodup_nil
  | cons a l ih =>
    rw [List.map_cons, List.nodup_cons] at h
    exact List.nodup_cons.2 ⟨fun ha => h.1 (List.mem_map.2 ⟨a, ha, rfl⟩), ih h.2⟩

/-! ### `unionByUid` -/

theorem unionByUid_nil (a : List Backend) : unionByUid a [] = a := rfl

theorem unionByUid_cons (a : List Backend) (x : Backend) (b : List Backend) :
    unionByUid a (x :: b) = unionByUid (if a.any (·.uid == x.uid) then a else a ++ [x]) b := rfl

theorem mem_unionByUid_left {x : Backend} : ∀ (b a : List Backend), x ∈ a → x ∈ unionByUid a b
  | [], _, h => h
  | y :: b, a, h => by
    rw [unionByUid_cons]
    apply mem_unionByUid_left b
    split
    · exact h
    · exact List.mem_append_left _ h

theorem mem_unionByUid_sub {x : Backend} : ∀ (b a : List Backend), x ∈ unionByUid a b → x ∈ a ∨ x ∈ b
  | [], _, h => Or.inl h
  | y :: b, a, h => by
    rw [unionByUid_cons] at h
    rcases mem_unionByUid_sub b _ h with h | h
    · split at h
      · exact Or.inl h
      · rcases List.mem_append.1 h with h | h
        · exact Or.inl h
        · rw [List.mem_singleton.1 h]; exact Or.inr (List.mem_cons_self ..)
    · exact Or.inr (List.mem_cons_of_mem _ h)

theorem exists_uid_unionByUid {x : Backend} : ∀ (b a : List Backend), x ∈ b → ∃ y ∈ unionByUid a b, y.uid = x.uid
  | [], _, h => by cases h
  | z :: b, a, h => by
    rw [unionByUid_cons]
    rcases List.mem_cons.1 h with rfl | h
    · by_cases hany : a.any (·.uid == x.uid) = true
      · rw [if_pos hany]
        obtain ⟨y, hy, e⟩ := List.any_eq_true.1 hany
        exact ⟨y, mem_unionByUid_left b a hy, by simpa using e⟩
      · rw [if_neg hany]
        exact ⟨x, mem_unionByUid_left b _ (by simp), rfl⟩
    · exact exists_uid_unionByUid b _ h

theorem nodup_uid_unionByUid : ∀ (b a : List Backend), (a.map (·.uid)).Nodup → ((unionByUid a b).map (·.uid)).Nodup
  | [], _, h => h
  | x :: b, a, h => by
    rw [unionByUid_cons]
    apply nodup_uid_unionByUid b
    by_cases hany : a.any (·.uid == x.uid) = true
    · rw [if_pos hany]; exact h
    · rw [if_neg hany, List.map_append, List.map_singleton]
      refine List.nodup_append.2 ⟨h, by simp, ?_⟩
      intro u hu v hv e
      rw [List.mem_singleton.1 hv] at e
      obtain ⟨y, hy, rfl⟩ := List.mem_map.1 hu
      exact hany (List.any_eq_true.2 ⟨y, hy, by simpa using e⟩)

/-- Under uid-injectivity `unionByUid` is the set union. -/
theorem mem_unionByUid_iff {U a b : List Backend} (hU : UidInj U) (ha : ∀ x ∈ a, x ∈ U) (hb : ∀ x ∈ b, x ∈ U)
    (x : Backend) : x ∈ unionByUid a b ↔ x ∈ a ∨ x ∈ b := by
  refine ⟨mem_unionByUid_sub b a, fun h => ?_⟩
  rcases h with h | h
  · exact mem_unionByUid_left b a h
  · obtain ⟨y, hy, e⟩ := exists_uid_unionByUid b a h
    have hyU : y ∈ U := by
      rcases mem_unionByUid_sub b a hy with h' | h'
      · exact ha y h'
      · exact hb y h'
    rw [← hU y hyU x (hb x h) e]; exact hy

/-! ### the candidate fold -/

theorem mem_supporting {bs : List Backend} {ty : Nat} {x : Backend} :
    x ∈ supporting bs ty ↔ x ∈ bs ∧ x.invalid = false ∧ ty ∈ x.accepts := by
  simp [supporting, List.mem_filter]

theorem mem_candFold {bs : List Backend} (hU : UidInj bs) (x : Backend) :
    ∀ (tys : List Nat) (acc : List Backend), (∀ y ∈ acc, y ∈ bs) →
      (x ∈ tys.foldl (fun acc ty => unionByUid acc (supporting bs ty)) acc ↔
        x ∈ acc ∨ ∃ ty ∈ tys, x ∈ supporting bs ty)
  | [], acc, _ => by simp
  | ty :: tys, acc, hacc => by
    have hsup : ∀ y ∈ supporting bs ty, y ∈ bs := fun y hy => (mem_supporting.1 hy).1
    have hacc' : ∀ y ∈ unionByUid acc (supporting bs ty), y ∈ bs := by
      intro y hy
      rcases mem_unionByUid_sub _ _ hy with h | h
      · exact hacc y h
      · exact hsup y h
    rw [List.foldl_cons, mem_candFold hU x tys _ hacc', mem_unionByUid_iff hU hacc hsup]
    simp only [List.mem_cons, exists_eq_or_imp, or_assoc]

theorem nodup_uid_candFold (bs : List Backend) :
    ∀ (tys : List Nat) (acc : List Backend), (acc.map (·.uid)).Nodup →
      ((tys.foldl (fun acc ty => unionByUid acc (supporting bs ty)) acc).map (·.uid)).Nodup
  | [], _, h => h
  | ty :: tys, acc, h => by
    rw [List.foldl_cons]
    exact nodup_uid_candFold bs tys _ (nodup_uid_unionByUid _ _ h)

/-- The candidates of a non-scalar lookup, as a set. -/
theorem mem_candidates {s : State} (hU : UidInj s.backends) {tys : List Nat}
    (hsc : tys.all isScalarTy = false) (x : Backend) :
    x ∈ candidates s tys ↔ x ∈ s.backends ∧ x.invalid = false ∧ ∃ ty ∈ tys, ty ∈ x.accepts := by
  simp only [candidates, hsc, Bool.false_eq_true, ↓reduceIte]
  rw [mem_candFold hU x tys [] (by simp)]
  simp only [List.not_mem_nil, false_or, mem_supporting]
  constructor
  · rintro ⟨ty, hty, h1, h2, h3⟩; exact ⟨h1, h2, ty, hty, h3⟩
  · rintro ⟨h1, h2, ty, hty, h3⟩; exact ⟨ty, hty, h1, h2, h3⟩

theorem nodup_uid_candidates (s : State) (tys : List Nat) : ((candidates s tys).map (·.uid)).Nodup := by
  unfold candidates
  split
  · cases dictGet s.names "numpy" <;> simp
  · exact nodup_uid_candFold _ _ _ (by simp)

/-! ### `keepMax` -/

/-- "Keep only backends with highest priority", as a set. -/
theorem mem_keepMax {l : List Backend} {x : Backend} :
    x ∈ keepMax l ↔ x ∈ l ∧ ∀ y ∈ l, y.priority ≤ x.priority := by
  unfold keepMax
  split
  · rename_i hlen
    have hne : l ≠ [] := by intro e; subst e; simp at hlen
    obtain ⟨hub, w, hw, hwe⟩ := maxPriority_spec l hne
    simp only [List.mem_filter, beq_iff_eq]
    constructor
    · rintro ⟨hx, e⟩; exact ⟨hx, fun y hy => e ▸ hub y hy⟩
    · rintro ⟨hx, h⟩
      refine ⟨hx, ?_⟩
      have h1 := hub x hx
      have h2 := h w hw
      omega
  · rename_i hlen
    constructor
    · intro hx
      refine ⟨hx, fun y hy => ?_⟩
      match l, hlen, hx, hy with
      | [a], _, hx, hy =>
        rw [List.mem_singleton.1 hx, List.mem_singleton.1 hy]; exact Int.le_refl _
      | _ :: _ :: _, hlen, _, _ => simp at hlen
    · exact fun h => h.1

theorem keepMax_sublist (l : List Backend) : (keepMax l).Sublist l := by
  unfold keepMax; split
  · exact List.filter_sublist
  · exact List.Sublist.refl _

theorem keepMax_perm_of_perm {l₁ l₂ : List Backend} (h : l₁.Perm l₂) : (keepMax l₁).Perm (keepMax l₂) := by
  simp only [keepMax, h.length_eq, maxPriority_perm h]
  split
  · exact h.filter _
  · exact h

theorem nodup_uid_select (s : State) (tys : List Nat) : ((select s tys).map (·.uid)).Nodup :=
  ((keepMax_sublist _).map _).nodup (nodup_uid_candidates s tys)

/-- The selected backends, as a set: the candidates of maximal priority. -/
theorem mem_select {s : State} (hU : UidInj s.backends) {tys : List Nat}
    (hsc : tys.all isScalarTy = false) (x : Backend) :
    x ∈ select s tys ↔
      (x ∈ s.backends ∧ x.invalid = false ∧ ∃ ty ∈ tys, ty ∈ x.accepts) ∧
      ∀ y, (y ∈ s.backends ∧ y.invalid = false ∧ ∃ ty ∈ tys, ty ∈ y.accepts) → y.priority ≤ x.priority := by
  unfold select
  rw [mem_keepMax, mem_candidates hU hsc]
  constructor
  · rintro ⟨h1, h2⟩; exact ⟨h1, fun y hy => h2 y ((mem_candidates hU hsc y).2 hy)⟩
  · rintro ⟨h1, h2⟩; exact ⟨h1, fun y hy => h2 y ((mem_candidates hU hsc y).1 hy)⟩

/-! ### outcomes up to the order of an ambiguous candidate set -/

theorem OutEq.refl (x : Except Err Backend) : OutEq x x := by
  rcases x with (_|_|_|_) | a <;> simp [OutEq]

theorem OutEq.symm {x y : Except Err Backend} (h : OutEq x y) : OutEq y x := by
  rcases x with (_|_|_|_) | a <;> rcases y with (_|_|_|_) | b <;>
    first | exact List.Perm.symm h | simp_all [OutEq]

theorem OutEq.trans {x y z : Except Err Backend} (h1 : OutEq x y) (h2 : OutEq y z) : OutEq x z := by
  rcases x with (_|_|_|_) | a <;> rcases y with (_|_|_|_) | b <;> rcases z with (_|_|_|_) | c <;>
    first | exact List.Perm.trans h1 h2 | simp_all [OutEq]

theorem OutEq.of_eq {x y : Except Err Backend} (h : x = y) : OutEq x y := h ▸ OutEq.refl x

/-- `OutEq` on successful outcomes is equality. -/
theorem outEq_ok_iff {x : Except Err Backend} {b : Backend} : OutEq x (.ok b) ↔ x = .ok b := by
  rcases x with (_|_|_|_) | a <;> simp [OutEq]

theorem outEq_nomatch_iff {x : Except Err Backend} : OutEq x (.error .nomatch) ↔ x = .error .nomatch := by
  rcases x with (_|_|_|_) | a <;> simp [OutEq]

/-! ### order independence of the specification -/

theorem candidates_perm {s t : State} (h : SameSet s t) (tys : List Nat) :
    (candidates s tys).Perm (candidates t tys) := by
  by_cases hsc : tys.all isScalarTy = true
  · simp [candidates, hsc, h.names]
  · have hsc' : tys.all isScalarTy = false := by simpa using hsc
    rw [List.perm_ext_iff_of_nodup (nodup_of_nodup_uid (nodup_uid_candidates s tys))
      (nodup_of_nodup_uid (nodup_uid_candidates t tys))]
    intro x
    rw [mem_candidates h.injL hsc', mem_candidates h.injR hsc', h.mem]

theorem select_perm {s t : State} (h : SameSet s t) (tys : List Nat) : (select s tys).Perm (select t tys) :=
  keepMax_perm_of_perm (candidates_perm h tys)

theorem specGet_outEq {s t : State} (h : SameSet s t) (arg : BackendArg) (tys : List Nat) :
    OutEq (specGet s arg tys) (specGet t arg tys) := by
  have hp := select_perm h tys
  cases arg with
  | obj b => exact OutEq.refl _
  | name n => simp only [specGet, h.names n]; exact OutEq.refl _
  | other => simp only [specGet, h.stack]; exact OutEq.refl _
  | none =>
    simp only [specGet, h.stack, h.names "numpy"]
    cases t.stack.getLast? with
    | some b => exact OutEq.refl _
    | none =>
      simp only [bne_self_eq_false, Bool.false_eq_true, ↓reduceIte]
      split
      · exact OutEq.refl _
      · generalize select s tys = l₁ at hp
        generalize select t tys = l₂ at hp
        match l₁, l₂, hp with
        | [], l₂, hp => rw [← hp.nil_eq]; exact OutEq.refl _
        | [a], l₂, hp => rw [List.singleton_perm.1 hp]; exact OutEq.refl _
        | a :: b :: l, [], hp => exact absurd hp.eq_nil (by simp)
        | a :: b :: l, [c], hp => exact absurd (List.perm_singleton.1 hp) (by simp)
        | a :: b :: l, c :: d :: l', hp => exact hp.map _

/-! ### `dictGet` / `dictSet` -/

theorem dictGet_nil {β} (k : String) : dictGet ([] : List (String × β)) k = none := rfl

theorem dictGet_cons {β} (kv : String × β) (d : List (String × β)) (k : String) :
    dictGet (kv :: d) k = if kv.1 = k then some kv.2 else dictGet d k := by
  by_cases h : kv.1 = k
  · simp [dictGet, h]
  · have : (kv.1 == k) = false := by simpa using h
    simp [dictGet, h, this]

theorem dictGet_append_singleton {β} (k k' : String) (v : β) : ∀ (d : List (String × β)),
    dictGet (d ++ [(k, v)]) k' = match dictGet d k' with
      | some w => some w
      | none => if k = k' then some v else none
  | [] => by simp [dictGet_cons, dictGet_nil]
  | kv :: d => by
    rw [List.cons_append, dictGet_cons, dictGet_cons, dictGet_append_singleton k k' v d]
    split <;> rfl

theorem dictGet_map_set {β} (k k' : String) (v : β) : ∀ (d : List (String × β)),
    dictGet (d.map (fun kv => if kv.1 == k then (k, v) else kv)) k' =
      if k' = k then (dictGet d k').map (fun _ => v) else dictGet d k'
  | [] => by simp [dictGet_nil]
  | kv :: d => by
    rw [List.map_cons, dictGet_cons, dictGet_cons, dictGet_map_set k k' v d]
    by_cases h1 : kv.1 = k
    · by_cases h2 : k' = k
      · subst h2; simp [h1]
      · have : ¬ k = k' := fun e => h2 e.symm
        simp [h1, h2, this]
    · by_cases h3 : kv.1 = k'
      · have h2 : ¬ k' = k := fun e => h1 (h3.trans e)
        simp [h3, h2]
      · simp [h1, h3]

theorem dictGet_none_of_not_any {β} (k : String) : ∀ (d : List (String × β)), d.any (·.1 == k) = false → dictGet d k = none
  | [], _ => rfl
  | kv :: d, h => by
    simp only [List.any_cons, Bool.or_eq_false_iff, beq_eq_false_iff_ne, ne_eq] at h
    rw [dictGet_cons, if_neg h.1]
    exact dictGet_none_of_not_any k d h.2

theorem dictGet_some_of_any {β} (k : String) : ∀ (d : List (String × β)), d.any (·.1 == k) = true → ∃ v, dictGet d k = some v
  | [], h => by simp at h
  | kv :: d, h => by
    rw [dictGet_cons]
    by_cases h1 : kv.1 = k
    · exact ⟨kv.2, by rw [if_pos h1]⟩
    · rw [if_neg h1]
      have h1' : (kv.1 == k) = false := by simpa using h1
      simp only [List.any_cons, h1', Bool.false_or] at h
      exact dictGet_some_of_any k d h

/-- Python's `d[k] = v` followed by `d.get(k')`. -/
theorem dictGet_dictSet {β} (d : List (String × β)) (k k' : String) (v : β) :
    dictGet (dictSet d k v) k' = if k' = k then some v else dictGet d k' := by
  unfold dictSet
  by_cases hany : d.any (·.1 == k) = true
  · rw [if_pos hany, dictGet_map_set]
    by_cases h : k' = k
    · subst h
      obtain ⟨w, hw⟩ := dictGet_some_of_any k' d hany
      simp [hw]
    · simp [h]
  · rw [if_neg hany, dictGet_append_singleton]
    have hany' : d.any (·.1 == k) = false := by
      cases h : d.any (·.1 == k) with
      | false => rfl
      | true => exact absurd h hany
    have hnone := dictGet_none_of_not_any k d hany'
    by_cases h : k' = k
    · subst h; simp [hnone]
    · have : ¬ k = k' := fun e => h e.symm
      simp only [this, ↓reduceIte, h]
      cases dictGet d k' <;> rfl

/-! ### the state after a run of eager registrations -/

theorem registerAll_nil (cfg : Cfg) (s : State) : registerAll cfg s [] = s := rfl
theorem registerAll_cons (cfg : Cfg) (s : State) (b : Backend) (bs : List Backend) :
    registerAll cfg s (b :: bs) = registerAll cfg (s.register cfg b) bs := rfl

theorem registerAll_fields (cfg : Cfg) : ∀ (bs : List Backend) (s : State),
    (registerAll cfg s bs).backends = s.backends ++ bs ∧ (registerAll cfg s bs).uninit = s.uninit ∧
    (registerAll cfg s bs).stack = s.stack ∧ (registerAll cfg s bs).seen = s.seen ∧
    (s.memo = [] → (registerAll cfg s bs).memo = [])
  | [], s => by simp [registerAll_nil]
  | b :: bs, s => by
    obtain ⟨h1, h2, h3, h4, h5⟩ := registerAll_fields cfg bs (s.register cfg b)
    rw [registerAll_cons]
    refine ⟨by rw [h1]; simp [State.register], h2, h3, h4, fun hm => h5 ?_⟩
    simp [State.register, hm]

/-- A name not registered by the run keeps its entry. -/
theorem registerAll_names_other (cfg : Cfg) (n : String) : ∀ (bs : List Backend) (s : State),
    (∀ b ∈ bs, b.name ≠ n) → dictGet (registerAll cfg s bs).names n = dictGet s.names n
  | [], _, _ => rfl
  | b :: bs, s, h => by
    rw [registerAll_cons, registerAll_names_other cfg n bs _ (fun c hc => h c (List.mem_cons_of_mem _ hc))]
    have : ¬ n = b.name := fun e => h b (List.mem_cons_self ..) e.symm
    simp [State.register, dictGet_dictSet, this]

/-- With distinct names every registered backend is found under its name. -/
theorem registerAll_names_mem (cfg : Cfg) : ∀ (bs : List Backend) (s : State), (bs.map (·.name)).Nodup →
    ∀ b ∈ bs, dictGet (registerAll cfg s bs).names b.name = some b
  | [], _, _, b, hb => by cases hb
  | c :: bs, s, hnd, b, hb => by
    rw [List.map_cons, List.nodup_cons] at hnd
    rw [registerAll_cons]
    rcases List.mem_cons.1 hb with rfl | hb'
    · rw [registerAll_names_other cfg b.name bs _ (fun c hc e => hnd.1 (List.mem_map.2 ⟨c, hc, e⟩))]
      simp [State.register, dictGet_dictSet]
    · exact registerAll_names_mem cfg bs _ hnd.2 b hb'

/-- Registering two permutations of a list of distinctly named backends gives the same name map. -/
theorem registerAll_names_perm (cfg : Cfg) (s : State) {bs bs' : List Backend} (hp : bs.Perm bs')
    (hn : (bs.map (·.name)).Nodup) (n : String) :
    dictGet (registerAll cfg s bs).names n = dictGet (registerAll cfg s bs').names n := by
  have hn' : (bs'.map (·.name)).Nodup := (hp.map _).nodup_iff.1 hn
  by_cases h : ∃ b ∈ bs, b.name = n
  · obtain ⟨b, hb, rfl⟩ := h
    rw [registerAll_names_mem cfg bs s hn b hb, registerAll_names_mem cfg bs' s hn' b (hp.mem_iff.1 hb)]
  · have h1 : ∀ b ∈ bs, b.name ≠ n := fun b hb e => h ⟨b, hb, e⟩
    have h2 : ∀ b ∈ bs', b.name ≠ n := fun b hb => h1 b (hp.mem_iff.2 hb)
    rw [registerAll_names_other cfg n bs s h1, registerAll_names_other cfg n bs' s h2]

theorem registerAll_sameSet (cfg : Cfg) {bs bs' : List Backend} (hp : bs.Perm bs')
    (hn : (bs.map (·.name)).Nodup) (hu : (bs.map (·.uid)).Nodup) :
    SameSet (registerAll cfg {} bs) (registerAll cfg {} bs') := by
  have f := registerAll_fields cfg bs {}
  have f' := registerAll_fields cfg bs' {}
  refine ⟨fun b => ?_, ?_, ?_, registerAll_names_perm cfg {} hp hn, ?_⟩
  · rw [f.1, f'.1]; simpa using hp.mem_iff
  · apply uidInj_of_nodup; rw [f.1]; simpa using hu
  · apply uidInj_of_nodup; rw [f'.1]; simpa using (hp.map _).nodup_iff.1 hu
  · rw [f.2.2.1, f'.2.2.1]

theorem registerAll_quiet (cfg : Cfg) (bs : List Backend) (mods : List String) :
    Quiet (registerAll cfg {} bs) mods := by
  intro m _; rw [(registerAll_fields cfg bs {}).2.1]; rfl

theorem registerAll_memoOK (cfg : Cfg) (bs : List Backend) : MemoOK (registerAll cfg {} bs) := by
  intro e he; rw [(registerAll_fields cfg bs {}).2.2.2.2 rfl] at he; cases he

/-! ### histories without lazy registration -/

/-- What relates the implementation's state to the specification state along a history without lazy
registration. -/
structure EagerInv (st σ : State) : Prop where
  same : Same st σ
  memo : MemoOK st
  uninit : st.uninit = []

theorem EagerInv.quiet {st σ : State} (h : EagerInv st σ) (mods : List String) : Quiet st mods := by
  intro m _; rw [h.uninit]; rfl

theorem runOps_cons_fst (cfg : Cfg) (w : World) (op : Op) (ops : List Op) :
    (runOps cfg w (op :: ops)).1 = (runOps cfg (step cfg w op).1 ops).1 := rfl

theorem step_eagerInv (cfg : Cfg) (hc : cfg.registerClearsMemo = true) (w : World) (σ : State) (op : Op)
    (he : op.isEager = true) (inv : EagerInv w.st σ) :
    EagerInv (step cfg w op).1.st (specStep σ op) := by
  cases op with
  | register b =>
    refine ⟨⟨inv.same.uninit, ?_, ?_, inv.same.stack⟩, ?_, inv.uninit⟩
    · show w.st.backends ++ [b] = σ.backends ++ [b]
      rw [inv.same.backends]
    · show dictSet w.st.names b.name b = dictSet σ.names b.name b
      rw [inv.same.names]
    · intro e he; simp [step, State.register, hc] at he
  | registerOnImport m f => simp [Op.isEager] at he
  | importModule m => exact inv
  | get arg tys =>
    have h := get_quiet cfg w.st w.mods arg tys (inv.quiet _) inv.memo
    simp only [step, specStep]
    cases hg : w.st.get cfg w.mods arg tys with
    | error e => exact inv
    | ok r =>
      obtain ⟨s', b⟩ := r
      rw [hg] at h
      exact ⟨Same.trans ⟨h.2.1.uninit.symm, h.2.1.backends.symm, h.2.1.names.symm, h.2.1.stack.symm⟩ inv.same,
        h.2.2.1, h.2.1.uninit ▸ inv.uninit⟩
  | getByName n =>
    have h := getByName_quiet cfg w.st w.mods false n (inv.quiet _)
    simp only [step, specStep]
    cases hd : dictGet w.st.names n with
    | some b => rw [h.1 b hd]; exact inv
    | none => rw [h.2 hd]; exact inv
  | enter b =>
    refine ⟨⟨inv.same.uninit, inv.same.backends, inv.same.names, ?_⟩, inv.memo, inv.uninit⟩
    show w.st.stack ++ [b] = σ.stack ++ [b]
    rw [inv.same.stack]
  | exit b =>
    simp only [step, specStep, State.exit, inv.same.stack]
    cases σ.stack.getLast? with
    | none => exact inv
    | some t =>
      by_cases hu : (t.uid == b.uid) = true
      · simp only [hu, ↓reduceIte]
        exact ⟨⟨inv.same.uninit, inv.same.backends, inv.same.names, rfl⟩,
          inv.memo, inv.uninit⟩
      · simp only [hu]; exact inv

theorem runOps_eagerInv (cfg : Cfg) (hc : cfg.registerClearsMemo = true) :
    ∀ (ops : List Op) (w : World) (σ : State), (∀ op ∈ ops, op.isEager = true) → EagerInv w.st σ →
      EagerInv (runOps cfg w ops).1.st (ops.foldl specStep σ)
  | [], _, _, _, inv => inv
  | op :: ops, w, σ, he, inv => by
    rw [runOps_cons_fst, List.foldl_cons]
    exact runOps_eagerInv cfg hc ops _ _ (fun o ho => he o (List.mem_cons_of_mem _ ho))
      (step_eagerInv cfg hc w σ op (he op (List.mem_cons_self ..)) inv)

theorem eagerInv_empty : EagerInv {} {} := ⟨Same.refl _, (by intro e he; cases he), rfl⟩

/-! ### the specification state -/

theorem foldl_specStep_fields : ∀ (ops : List Op) (σ : State),
    (ops.foldl specStep σ).backends = σ.backends ++ regsOf ops ∧
    (ops.foldl specStep σ).names = (regsOf ops).foldl (fun d b => dictSet d b.name b) σ.names ∧
    (ops.foldl specStep σ).uninit = σ.uninit ∧ (ops.foldl specStep σ).memo = σ.memo ∧
    (ops.foldl specStep σ).seen = σ.seen
  | [], σ => by simp [regsOf]
  | op :: ops, σ => by
    obtain ⟨h1, h2, h3, h4, h5⟩ := foldl_specStep_fields ops (specStep σ op)
    rw [List.foldl_cons, h1, h2, h3, h4, h5]
    cases op with
    | register b => simp [specStep, regsOf]
    | exit b =>
      simp only [specStep, State.exit, regsOf, List.filterMap_cons]
      cases σ.stack.getLast? with
      | none => simp
      | some t => by_cases hu : (t.uid == b.uid) = true <;> simp [hu]
    | _ => simp [specStep, regsOf, State.enter]

theorem registerAll_names (cfg : Cfg) : ∀ (bs : List Backend) (s : State),
    (registerAll cfg s bs).names = bs.foldl (fun d b => dictSet d b.name b) s.names
  | [], _ => rfl
  | b :: bs, s => by rw [registerAll_cons, registerAll_names cfg bs]; rfl

theorem foldl_specStep_filter : ∀ (ops : List Op) (σ : State),
    ops.foldl specStep σ = (ops.filter (fun o => !Op.isLookup o)).foldl specStep σ
  | [], _ => rfl
  | op :: ops, σ => by
    cases op <;> simp [Op.isLookup, specStep, foldl_specStep_filter ops]

/-- Two eager histories that registered the same distinctly named backends (in any order) and are at the
same `with` nesting have specification states with the same set of backends. -/
theorem specState_sameSet {ops ops' : List Op} (hp : (regsOf ops).Perm (regsOf ops'))
    (hn : ((regsOf ops).map (·.name)).Nodup) (hu : ((regsOf ops).map (·.uid)).Nodup)
    (hst : (specState ops).stack = (specState ops').stack) : SameSet (specState ops) (specState ops') := by
  have f := foldl_specStep_fields ops {}
  have f' := foldl_specStep_fields ops' {}
  have cfg : Cfg := ⟨true⟩
  refine ⟨fun b => ?_, ?_, ?_, fun n => ?_, hst⟩
  · show b ∈ (ops.foldl specStep {}).backends ↔ b ∈ (ops'.foldl specStep {}).backends
    rw [f.1, f'.1]; simpa using hp.mem_iff
  · apply uidInj_of_nodup
    show (((ops.foldl specStep {}).backends).map (·.uid)).Nodup
    rw [f.1]; simpa using hu
  · apply uidInj_of_nodup
    show (((ops'.foldl specStep {}).backends).map (·.uid)).Nodup
    rw [f'.1]; simpa using (hp.map _).nodup_iff.1 hu
  · show dictGet (ops.foldl specStep {}).names n = dictGet (ops'.foldl specStep {}).names n
    rw [f.2.1, f'.2.1]
    have := registerAll_names_perm cfg {} hp hn n
    rwa [registerAll_names, registerAll_names] at this

end Einx.Registry
