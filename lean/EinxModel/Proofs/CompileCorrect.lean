import EinxModel.Proofs.Compile
/-! Helper lemmas for `compile_correct` (`Props/C04.lean`): the generator's cache and the reference's memo are
related by substitution of the current environment. -/
namespace Einx.Compile

/-- The cache with every expression read in environment `σ`. -/
def mapσ (σ : Nat → E) (cache : List (E × E)) : List (E × E) := cache.map (fun p => (p.1, p.2.subst σ))

theorem assocGet_mapσ (σ : Nat → E) (cache : List (E × E)) (k : E) :
    assocGet (mapσ σ cache) k = (assocGet cache k).map (E.subst σ) := by
  unfold assocGet mapσ
  induction cache with
  | nil => rfl
  | cons p rest ih =>
    simp only [List.map_cons, List.find?_cons]
    cases h : p.1 == k
    · simpa only [h] using ih
    · simp only [h, Option.map_some]

theorem conv_mapσ (σ : Nat → E) (cache : List (E × E)) (x : E) :
    conv (mapσ σ cache) x = (conv cache x).map (E.subst σ) ∧
    convL (mapσ σ cache) x = (convL cache x).map (E.subst σ) := by
  induction x with
  | var v =>
    constructor
    · simp only [conv, assocGet_mapσ]
      cases assocGet cache (.var v) <;> rfl
    · simp [convL]; rfl
  | lit c => exact ⟨rfl, rfl⟩
  | gref g =>
    constructor
    · simp only [conv, assocGet_mapσ]
      cases assocGet cache (.gref g) <;> rfl
    · simp [convL]; rfl
  | nil => exact ⟨rfl, rfl⟩
  | cons h t ih1 ih2 =>
    have : ∀ (a b : Except String E), (do let x ← a; let y ← b; pure (E.cons x y) : Except String E).map (E.subst σ)
        = (do let x ← a.map (E.subst σ); let y ← b.map (E.subst σ); pure (E.cons x y)) := by
      intro a b; cases a <;> cases b <;> rfl
    constructor
    · simp only [conv, ih1.1, ih2.2, this]
    · simp only [convL, ih1.1, ih2.2, this]
  | node tag a ih =>
    constructor
    · have hn : ∀ (t : Tag) (b : Except String E), (do let y ← b; pure (E.node t y) : Except String E).map (E.subst σ)
          = (do let y ← b.map (E.subst σ); pure (E.node t y)) := by
        intro t b; cases b <;> rfl
      have hk : ∀ k : Option E, k.bind (assocGet (mapσ σ cache)) = (k.bind (assocGet cache)).map (E.subst σ) := by
        intro k; cases k <;> simp [assocGet_mapσ]
      cases tag <;> simp only [conv, ih.2, hn, hk] <;> try rfl
      · cases (keyOf (E.node Tag.tuple a)).bind (assocGet cache)
        · exact (hn _ _).symm
        · rfl
      · cases (keyOf (E.node Tag.list a)).bind (assocGet cache)
        · exact (hn _ _).symm
        · rfl
    · simp [convL]; rfl

theorem convTop_mapσ (σ : Nat → E) (cache : List (E × E)) (x : E) :
    convTop (mapσ σ cache) x = (convTop cache x).map (E.subst σ) := by
  unfold convTop
  split
  · rfl
  · exact (conv_mapσ σ cache x).1

theorem convL_mapσ (σ : Nat → E) (cache : List (E × E)) (x : E) :
    convL (mapσ σ cache) x = (convL cache x).map (E.subst σ) := (conv_mapσ σ cache x).2

theorem mapM_map_except {α β : Type} (m : β → β) (f f' : α → Except String β) (h : ∀ a, f' a = (f a).map m) (l : List α) :
    l.mapM f' = (l.mapM f).map (List.map m) := by
  induction l with
  | nil => rfl
  | cons a rest ih =>
    simp only [List.mapM_cons, ih, h]
    cases f a <;> cases List.mapM f rest <;> rfl

theorem E.ofList_map (σ : Nat → E) (l : List E) : (E.ofList l).subst σ = E.ofList (l.map (E.subst σ)) := by
  induction l with
  | nil => rfl
  | cons x xs ih => simp only [E.ofList, E.subst, ih, List.map_cons]

theorem E.subst_mk (σ : Nat → E) (tag : Tag) (l : List E) : (E.mk tag l).subst σ = E.mk tag (l.map (E.subst σ)) := by
  simp only [E.mk, E.subst, E.ofList_map]

theorem convKw_mapσ (σ : Nat → E) (cache : List (E × E)) (kw : List (String × E)) :
    convKw (mapσ σ cache) kw = (convKw cache kw).map (List.map (E.subst σ)) := by
  unfold convKw
  apply mapM_map_except
  intro a
  obtain ⟨k, v⟩ := a
  simp only [convTop_mapσ]
  cases convTop cache v <;> rfl

/-- One key part of `_at`. -/
def partConv (cache : List (E × E)) (p : E) : Except String E :=
  match p with
  | .node (.slice x y z) a => do pure (E.node (.slice x y z) (← convL cache a))
  | p => convTop cache p

theorem atExpr_eq (cache : List (E × E)) (obj key : E) :
    atExpr cache obj key = (do
      let o ← convTop cache obj
      let parts ← (keyParts key).mapM (partConv cache)
      pure (E.mk .index (o :: parts))) := rfl

theorem partConv_mapσ (σ : Nat → E) (cache : List (E × E)) (p : E) :
    partConv (mapσ σ cache) p = (partConv cache p).map (E.subst σ) := by
  unfold partConv
  split
  · simp only [convL_mapσ]
    rename_i a
    cases convL cache a <;> rfl
  · exact convTop_mapσ σ cache p

theorem atExpr_mapσ (σ : Nat → E) (cache : List (E × E)) (obj key : E) :
    atExpr (mapσ σ cache) obj key = (atExpr cache obj key).map (E.subst σ) := by
  rw [atExpr_eq, atExpr_eq, mapM_map_except (E.subst σ) (partConv cache) (partConv (mapσ σ cache)) (partConv_mapσ σ cache),
    convTop_mapσ]
  cases convTop cache obj with
  | error e => rfl
  | ok o =>
    cases List.mapM (partConv cache) (keyParts key) with
    | error e => rfl
    | ok parts =>
      show Except.ok _ = Except.ok _
      rw [E.subst_mk]
      rfl

/-! ### Rules under substitution -/

/-- A statement with its expressions read in `σ`. -/
def Stmt.substE (σ : Nat → E) : Stmt → Stmt
  | .assign v rhs eff => .assign v (rhs.subst σ) eff
  | .exprStmt e extra => .exprStmt (e.subst σ) (extra.map (E.subst σ))
  | .update t op v extra => .update (t.subst σ) op (v.subst σ) (extra.map (E.subst σ))
  | .assert_ c msg extra => .assert_ (c.subst σ) msg (extra.map (E.subst σ))
  | .return_ e => .return_ (e.subst σ)
  | s => s

def Rule.subst (σ : Nat → E) : Rule → Rule
  | .define out e eff ni f => .define out (e.subst σ) eff ni f
  | .effect s out e => .effect (s.substE σ) out (e.subst σ)
  | r => r

theorem ruleOf_mapσ (g : Graph) (up : Bool) (σ : Nat → E) (cache : List (E × E)) (a : App) :
    ruleOf g up (mapσ σ cache) a = (ruleOf g up cache a).map (Rule.subst σ) := by
  have hm := mapM_map_except (E.subst σ) (convTop cache) (convTop (mapσ σ cache)) (convTop_mapσ σ cache)
  cases a with
  | call fn args kwargs deps out =>
    simp only [ruleOf, convTop_mapσ, convKw_mapσ, hm]
    cases convTop cache fn <;> try rfl
    cases List.mapM (convTop cache) args <;> try rfl
    cases convKw cache kwargs <;> try rfl
    show Except.ok _ = Except.ok _
    simp only [Rule.subst, E.subst_mk, List.map_cons, List.map_append]
  | callInplace xs fn args kwargs deps out =>
    simp only [ruleOf, convTop_mapσ, convKw_mapσ, hm]
    cases convTop cache xs <;> try rfl
    cases convTop cache fn <;> try rfl
    cases List.mapM (convTop cache) args <;> try rfl
    cases convKw cache kwargs <;> try rfl
    show Except.ok _ = Except.ok _
    simp only [Rule.subst, Stmt.substE, E.subst_mk, List.map_cons, List.map_append, List.map_nil]
  | getattr obj key out =>
    simp only [ruleOf, convTop_mapσ]
    cases convTop cache obj <;> rfl
  | getitem obj key out =>
    simp only [ruleOf, atExpr_mapσ]
    cases atExpr cache obj key <;> rfl
  | updateitem obj key value op out =>
    simp only [ruleOf, atExpr_mapσ, convTop_mapσ]
    cases atExpr cache obj key <;> try rfl
    cases convTop cache value <;> try rfl
    cases convTop cache obj <;> try rfl
  | import_ imp from_ as_ out => rfl
  | operator op operands out =>
    simp only [ruleOf, hm]
    cases List.mapM (convTop cache) operands with
    | error e => rfl
    | ok os =>
      match os with
      | [] => rfl
      | [x] => 
        show Except.ok _ = Except.ok _
        simp only [Rule.subst, E.subst_mk, List.map_cons, List.map_nil]
      | [x, y] => 
        show Except.ok _ = Except.ok _
        simp only [Rule.subst, E.subst_mk, List.map_cons, List.map_nil]
      | _ :: _ :: _ :: _ => rfl
  | assert_ xs cond msg out =>
    simp only [ruleOf, convTop_mapσ]
    cases convTop cache xs <;> try rfl
    cases convTop cache cond <;> try rfl
  | builtin name out => rfl
  | cast input out =>
    simp only [ruleOf, convTop_mapσ]
    cases convTop cache input <;> rfl
  | constant str out => rfl

/-! ### `setCache` under substitution -/

theorem foldlM_map_except {α β : Type} (m : β → β) (f f' : β → α → Except String β)
    (h : ∀ b a, f' (m b) a = (f b a).map m) (l : List α) : ∀ b, l.foldlM f' (m b) = (l.foldlM f b).map m := by
  induction l with
  | nil => intro b; rfl
  | cons a rest ih =>
    intro b
    simp only [List.foldlM_cons, h]
    cases hb : f b a with
    | error e => rfl
    | ok b1 => exact ih b1

theorem mapσ_append (σ : Nat → E) (c1 c2 : List (E × E)) : mapσ σ (c1 ++ c2) = mapσ σ c1 ++ mapσ σ c2 := by
  simp [mapσ]

theorem setCache_mapσ (σ : Nat → E) : ∀ (fuel : Nat) (cache : List (E × E)) (obj e : E),
    setCache fuel (mapσ σ cache) obj (e.subst σ) = (setCache fuel cache obj e).map (mapσ σ) := by
  intro fuel
  induction fuel with
  | zero => intro cache obj e; rfl
  | succ fuel ih =>
    intro cache obj e
    unfold setCache
    cases hk : keyOf obj with
    | none => rfl
    | some k =>
      simp only [assocGet_mapσ, Option.isSome_map]
      split
      · rfl
      · have happ : mapσ σ cache ++ [(k, e.subst σ)] = mapσ σ (cache ++ [(k, e)]) := by simp [mapσ]
        rw [happ]
        have hf : ∀ (a : E), List.foldlM (fun cache (x : E × Nat) => setCache fuel cache x.1 (E.mk (.elem (toString x.2)) [e.subst σ]))
              (mapσ σ (cache ++ [(k, e)])) a.toList.zipIdx =
            (List.foldlM (fun cache (x : E × Nat) => setCache fuel cache x.1 (E.mk (.elem (toString x.2)) [e]))
              (cache ++ [(k, e)]) a.toList.zipIdx).map (mapσ σ) := by
          intro a
          apply foldlM_map_except
          intro b x
          have := ih b x.1 (E.mk (.elem (toString x.2)) [e])
          rw [E.subst_mk] at this
          exact this
        split
        · exact hf _
        · exact hf _
        · rfl

theorem foldlM_append_inv {α : Type} (f : List (E × E) → α → Except String (List (E × E))) (P : E × E → Prop)
    (hstep : ∀ c a c', f c a = .ok c' → ∃ more, c' = c ++ more ∧ ∀ p ∈ more, P p) :
    ∀ (l : List α) (c0 c1 : List (E × E)), l.foldlM f c0 = .ok c1 → ∃ more, c1 = c0 ++ more ∧ ∀ p ∈ more, P p := by
  intro l
  induction l with
  | nil =>
    intro c0 c1 h
    simp only [List.foldlM_nil, pure, Except.pure, Except.ok.injEq] at h
    exact ⟨[], by simp [h], by simp⟩
  | cons x rest ihl =>
    intro c0 c1 h
    simp only [List.foldlM_cons, bind, Except.bind] at h
    cases hx : f c0 x with
    | error err => simp [hx] at h
    | ok c2 =>
      simp only [hx] at h
      obtain ⟨m1, e1, p1⟩ := hstep _ _ _ hx
      obtain ⟨m2, e2, p2⟩ := ihl c2 c1 h
      refine ⟨m1 ++ m2, by rw [e2, e1, List.append_assoc], ?_⟩
      intro p hp
      rcases List.mem_append.1 hp with hp | hp
      · exact p1 p hp
      · exact p2 p hp

/-- `setCache` only appends entries, and the variables of the new expressions are those of `e`. -/
theorem setCache_append : ∀ (fuel : Nat) (cache : List (E × E)) (obj e : E) (cache' : List (E × E)),
    setCache fuel cache obj e = .ok cache' →
    ∃ more, cache' = cache ++ more ∧ ∀ p ∈ more, ∀ v ∈ p.2.vars, v ∈ e.vars := by
  intro fuel
  induction fuel with
  | zero => intro cache obj e cache' h; simp [setCache] at h
  | succ fuel ih =>
    intro cache obj e cache' h
    unfold setCache at h
    cases hk : keyOf obj with
    | none => simp [hk] at h
    | some k =>
      simp only [hk] at h
      split at h
      · simp at h
      · have hf := foldlM_append_inv (fun cache (x : E × Nat) => setCache fuel cache x.1 (E.mk (.elem (toString x.2)) [e]))
          (fun p => ∀ v ∈ p.2.vars, v ∈ e.vars) (by
            intro c a c' hc
            obtain ⟨m1, e1, p1⟩ := ih _ _ _ _ hc
            refine ⟨m1, e1, ?_⟩
            intro p hp v hv
            have := p1 p hp v hv
            simpa [E.mk, E.ofList, E.vars] using this)
        have hone : ∀ c1, (∃ more, c1 = (cache ++ [(k, e)]) ++ more ∧ ∀ p ∈ more, ∀ v ∈ p.2.vars, v ∈ e.vars) →
            ∃ more, c1 = cache ++ more ∧ ∀ p ∈ more, ∀ v ∈ p.2.vars, v ∈ e.vars := by
          rintro c1 ⟨more, rfl, hm⟩
          refine ⟨(k, e) :: more, by simp, ?_⟩
          intro p hp v hv
          rcases List.mem_cons.1 hp with rfl | hp
          · exact hv
          · exact hm p hp v hv
        split at h
        · exact hone _ (hf _ _ _ h)
        · exact hone _ (hf _ _ _ h)
        · simp only [Except.ok.injEq] at h
          exact hone _ ⟨[], by simp [h], by simp⟩

/-! ### The simulation invariant -/

/-- Expressions of the cache only mention variables below `n` (semantically: their reading does not depend on the
environment at or above `n`). -/
def Fresh (n : Nat) (cache : List (E × E)) : Prop :=
  ∀ σ τ : Env, (∀ v, v < n → σ v = τ v) → mapσ σ cache = mapσ τ cache

/-- Generator state `st`, reference state `r` and execution state `x` of the statements emitted so far are related:
the memo of the reference is the cache read in `σ` (`σ` is the current environment, up to function variables of
nested graphs that are still open). -/
structure Sim (σ : Env) (st : GState) (r : RState) (x : XState) : Prop where
  vals : r.vals = mapσ σ st.cache
  trace : r.trace = x.trace
  ret : r.ret = x.ret
  nconst : r.nconst = st.consts.length
  fresh : Fresh st.vars.length st.cache

theorem Fresh.mono {n m : Nat} {cache : List (E × E)} (h : Fresh n cache) (hnm : n ≤ m) : Fresh m cache :=
  fun σ τ hst => h σ τ (fun v hv => hst v (Nat.lt_of_lt_of_le hv hnm))

theorem Fresh.set {n : Nat} {cache : List (E × E)} (h : Fresh n cache) (σ : Env) (t : E) :
    mapσ (σ.set n t) cache = mapσ σ cache :=
  h _ _ (fun v hv => Env.set_other σ n v t (Nat.ne_of_lt hv))

theorem set_spec (st st1 : GState) (obj e : E) (h : st.set obj e = .ok st1) :
    ∃ cache', setCache 64 st.cache obj e = .ok cache' ∧ st1 = { st with cache := cache' } := by
  unfold GState.set at h
  cases hs : setCache 64 st.cache obj e with
  | error err => simp [hs, bind, Except.bind] at h
  | ok cch =>
    simp only [hs, bind, Except.bind, pure, Except.pure, Except.ok.injEq] at h
    exact ⟨cch, rfl, h.symm⟩

theorem addVar_spec (c : Ctx) (st st1 : GState) (obj : E) (reuse : Bool) (v : Nat)
    (h : st.addVar c obj reuse = .ok (v, st1)) :
    v = st.vars.length ∧ ∃ block cache', c.blockFor obj = .ok block ∧
      setCache 64 st.cache obj (.var st.vars.length) = .ok cache' ∧
      st1 = { st with vars := st.vars ++ [⟨block, reuse⟩], cache := cache' } := by
  unfold GState.addVar at h
  cases hb : c.blockFor obj with
  | error err => simp [hb, bind, Except.bind] at h
  | ok b =>
    simp only [hb, bind, Except.bind] at h
    split at h
    · simp at h
    · rename_i s2 hs
      simp only [pure, Except.pure, Except.ok.injEq, Prod.mk.injEq] at h
      obtain ⟨rfl, rfl⟩ := h
      obtain ⟨cache', h1, h2⟩ := set_spec _ _ _ _ hs
      exact ⟨rfl, b, cache', rfl, h1, h2⟩

/-- Caching an expression whose reading only depends on variables below `n`. -/
theorem Fresh.setCache {n : Nat} {cache cache' : List (E × E)} (hf : Fresh n cache) (obj e : E)
    (he : ∀ σ τ : Env, (∀ v, v < n → σ v = τ v) → e.subst σ = e.subst τ)
    (h : setCache 64 cache obj e = .ok cache') : Fresh n cache' := by
  intro σ τ hst
  have h1 := setCache_mapσ σ 64 cache obj e
  have h2 := setCache_mapσ τ 64 cache obj e
  rw [h] at h1 h2
  rw [hf σ τ hst, he σ τ hst, h2] at h1
  simpa [Except.map] using h1.symm

/-- The generator binds a fresh variable to `obj`; the reference memoises `t`; the environment gets `t` at the
variable. -/
theorem addVar_sim (c : Ctx) (σ : Env) (st st1 : GState) (r : RState) (x : XState) (obj : E) (reuse : Bool) (v : Nat) (t : E)
    (hsim : Sim σ st r x) (h : st.addVar c obj reuse = .ok (v, st1)) :
    v = st.vars.length ∧ st1.vars.length = st.vars.length + 1 ∧
    setCache 64 r.vals obj t = .ok (mapσ (σ.set v t) st1.cache) ∧ Fresh st1.vars.length st1.cache ∧
    st1.consts = st.consts ∧ st1.body = st.body ∧ st1.hints = st.hints ∧ st1.comments = st.comments := by
  obtain ⟨rfl, block, cache', _, hset, rfl⟩ := addVar_spec c st st1 obj reuse v h
  refine ⟨rfl, by simp, ?_, ?_, rfl, rfl, rfl, rfl⟩
  · have h1 := setCache_mapσ (σ.set st.vars.length t) 64 st.cache obj (.var st.vars.length)
    rw [hset, hsim.fresh.set] at h1
    simp only [E.subst, Env.set_same] at h1
    rw [hsim.vals, h1]
    rfl
  · simp only [List.length_append, List.length_cons, List.length_nil]
    apply Fresh.setCache (hsim.fresh.mono (Nat.le_succ _)) obj (.var st.vars.length) _ hset
    intro σ τ hst
    exact hst _ (Nat.lt_succ_self _)

/-- How one step changes the environments: not at all, or both get the same value at the fresh variable `n`. -/
inductive Step (n : Nat) (σ σ' : Env) (x x' : XState) : Prop
  | same : σ' = σ → x'.env = x.env → Step n σ σ' x x'
  | bind (t : E) : σ' = σ.set n t → x'.env = x.env.set n t → Step n σ σ' x x'

theorem define_sim (c : Ctx) (σ : Env) (st st1 : GState) (r : RState) (x : XState) (obj e : E) (eff ni fi : Bool)
    (new : List (Nat × Stmt))
    (hsim : Sim σ st r x) (h : define c st obj e eff ni fi = .ok (st1, new))
    (heff : eff = true → ni = true)
    (hfr : ∀ σ τ : Env, (∀ v, v < st.vars.length → σ v = τ v) → e.subst σ = e.subst τ)
    (hag : ∀ s ∈ new, ∀ v ∈ s.2.reads, σ v = x.env v) :
    ∃ r' σ', refRule r (.define obj (e.subst σ) eff ni fi) = .ok r' ∧
      Sim σ' st1 r' (execBlock x (new.map (·.2))) ∧ Step st.vars.length σ σ' x (execBlock x (new.map (·.2))) ∧
      st.vars.length ≤ st1.vars.length ∧ st1.body = st.body ∧ (new = [] → σ' = σ) ∧
      (∀ s ∈ new, ∀ v ∈ s.2.outputVars, σ' v = (execBlock x (new.map (·.2))).env v ∧ v < st1.vars.length) := by
  unfold define at h
  cases hu : usageGet c.counts c.g.fuel obj with
  | error err => simp [hu, bind, Except.bind] at h
  | ok n =>
    simp only [hu, bind, Except.bind] at h
    split at h
    · simp [throw, throwThe, MonadExceptOf.throw] at h
    · rename_i hnot
      split at h
      · rename_i hin
        cases hs : st.set obj e with
        | error err => simp [hs, pure, Except.pure] at h
        | ok s1 =>
          simp only [hs, pure, Except.pure, Except.ok.injEq, Prod.mk.injEq] at h
          obtain ⟨rfl, rfl⟩ := h
          have heff' : eff = false := by
            cases eff with
            | false => rfl
            | true =>
              have := heff rfl
              subst this
              simp at hnot hin
              simp [hnot] at hin
          subst heff'
          obtain ⟨cache', hset, rfl⟩ := set_spec _ _ _ _ hs
          have h1 := setCache_mapσ σ 64 st.cache obj e
          rw [hset] at h1
          refine ⟨{ r with vals := mapσ σ cache' }, σ, ?_, ?_, Step.same rfl rfl, Nat.le_refl _, rfl, fun _ => rfl, by simp⟩
          · simp only [refRule, Bool.false_eq_true, if_false, hsim.vals, h1]
            rfl
          · exact ⟨rfl, hsim.trace, hsim.ret, hsim.nconst, Fresh.setCache hsim.fresh obj e hfr hset⟩
      · rename_i hin
        cases ha : st.addVar c obj true with
        | error err => simp [ha] at h
        | ok p =>
          obtain ⟨v, s1⟩ := p
          simp only [ha] at h
          cases hb : c.blockFor obj with
          | error err => simp [hb] at h
          | ok b =>
            simp only [hb, pure, Except.pure, Except.ok.injEq, Prod.mk.injEq] at h
            obtain ⟨rfl, rfl⟩ := h
            have hag' : e.subst σ = e.subst x.env :=
              E.subst_congr _ _ e (fun w hw => hag (b, .assign v e eff) (by simp) w (by simpa [Stmt.reads] using hw))
            cases eff with
            | true =>
              obtain ⟨rfl, hlen, hset, hfresh, hc, hbody, _, _⟩ :=
                addVar_sim c σ st s1 r x obj true v (resAtom r.trace.length) hsim ha
              refine ⟨{ r with vals := mapσ (σ.set st.vars.length (resAtom r.trace.length)) s1.cache,
                               trace := r.trace ++ [.call (e.subst σ)] },
                σ.set st.vars.length (resAtom r.trace.length), ?_, ?_, ?_, by omega, hbody, (fun h => by cases h), ?_⟩
              · simp only [refRule, if_true, hset]
                rfl
              · refine ⟨rfl, ?_, hsim.ret, ?_, hfresh⟩
                · simp only [execBlock, List.map_cons, List.map_nil, List.foldl_cons, List.foldl_nil, execStmt, if_true,
                    hsim.trace, hag']
                · simp only [hsim.nconst, hc]
              · refine Step.bind (resAtom r.trace.length) rfl ?_
                simp only [execBlock, List.map_cons, List.map_nil, List.foldl_cons, List.foldl_nil, execStmt, if_true,
                    hsim.trace]
              · intro s hs w hw
                simp only [List.mem_singleton] at hs
                subst hs
                simp only [Stmt.outputVars, List.mem_singleton] at hw
                subst hw
                refine ⟨?_, ?_⟩
                · simp only [execBlock, List.map_cons, List.map_nil, List.foldl_cons, List.foldl_nil, execStmt, if_true,
                      hsim.trace, Env.set_same]
                · first | (simp only [hlen]; omega) | (cases hint <;> simp only [hlen] <;> omega) | (simp [hlen])
            | false =>
              obtain ⟨rfl, hlen, hset, hfresh, hc, hbody, _, _⟩ :=
                addVar_sim c σ st s1 r x obj true v (e.subst σ) hsim ha
              refine ⟨{ r with vals := mapσ (σ.set st.vars.length (e.subst σ)) s1.cache },
                σ.set st.vars.length (e.subst σ), ?_, ?_, ?_, by omega, hbody, (fun h => by cases h), ?_⟩
              · simp only [refRule, Bool.false_eq_true, if_false, hset]
                rfl
              · refine ⟨rfl, ?_, hsim.ret, ?_, hfresh⟩
                · simp only [execBlock, List.map_cons, List.map_nil, List.foldl_cons, List.foldl_nil, execStmt,
                    Bool.false_eq_true, if_false, hsim.trace]
                · simp only [hsim.nconst, hc]
              · refine Step.bind (e.subst σ) rfl ?_
                simp only [execBlock, List.map_cons, List.map_nil, List.foldl_cons, List.foldl_nil, execStmt,
                    Bool.false_eq_true, if_false, hag']
              · intro s hs w hw
                simp only [List.mem_singleton] at hs
                subst hs
                simp only [Stmt.outputVars, List.mem_singleton] at hw
                subst hw
                refine ⟨?_, ?_⟩
                · simp only [execBlock, List.map_cons, List.map_nil, List.foldl_cons, List.foldl_nil, execStmt,
                      Bool.false_eq_true, if_false, hag', Env.set_same]
                · first | (simp only [hlen]; omega) | (cases hint <;> simp only [hlen] <;> omega) | (simp [hlen])

/-- Statements that are events (in-place call, item update, assert). -/
def Stmt.isEvent : Stmt → Bool
  | .exprStmt .. | .update .. | .assert_ .. => true
  | _ => false

/-- What `ruleOf` guarantees about a rule: an effectful definition is never inlined; the statement of an effect rule is an event. -/
def Rule.WF : Rule → Prop
  | .define _ _ eff ni _ => eff = true → ni = true
  | .effect s _ _ => s.isEvent = true
  | _ => True

theorem event_agree (s : Stmt) (σ τ : Env) (hr : ∀ v ∈ s.reads, σ v = τ v) :
    (s.substE σ).event? = (s.substE τ).event? := by
  cases s <;> try rfl
  · rename_i e extra
    simp only [Stmt.substE, Stmt.event?]
    rw [E.subst_congr σ τ e (fun v hv => hr v (by simpa [Stmt.reads] using hv))]
  · rename_i t op v extra
    simp only [Stmt.substE, Stmt.event?]
    rw [E.subst_congr σ τ t (fun w hw => hr w (by simp [Stmt.reads, hw])),
      E.subst_congr σ τ v (fun w hw => hr w (by simp [Stmt.reads, hw]))]
  · rename_i cnd msg extra
    simp only [Stmt.substE, Stmt.event?]
    rw [E.subst_congr σ τ cnd (fun v hv => hr v (by simpa [Stmt.reads] using hv))]

theorem execStmt_event (x : XState) (s : Stmt) (h : s.isEvent = true) :
    execStmt x s = { x with trace := x.trace ++ (s.substE x.env).event?.toList } := by
  cases s <;> simp [Stmt.isEvent] at h <;> rfl

theorem refRule_define_pure (r r' : RState) (out e : E) (ni fi : Bool)
    (h : refRule r (.define out e false ni fi) = .ok r') :
    setCache 64 r.vals out e = .ok r'.vals ∧ r' = { r with vals := r'.vals } := by
  simp only [refRule, Bool.false_eq_true, if_false, bind, Except.bind] at h
  cases hs : setCache 64 r.vals out e with
  | error err => simp [hs] at h
  | ok vals =>
    simp only [hs, pure, Except.pure, Except.ok.injEq] at h
    subst h
    exact ⟨rfl, rfl⟩

theorem applyRule_sim (c : Ctx) (σ : Env) (st st1 : GState) (r : RState) (x : XState) (rule : Rule)
    (new : List (Nat × Stmt))
    (hsim : Sim σ st r x) (h : applyRule c st rule = .ok (st1, new))
    (hwf : rule.WF)
    (hfr : ∀ σ τ : Env, (∀ v, v < st.vars.length → σ v = τ v) → rule.subst σ = rule.subst τ)
    (hag : ∀ s ∈ new, ∀ v ∈ s.2.reads, σ v = x.env v) :
    ∃ r' σ', refRule r (rule.subst σ) = .ok r' ∧
      Sim σ' st1 r' (execBlock x (new.map (·.2))) ∧ Step st.vars.length σ σ' x (execBlock x (new.map (·.2))) ∧
      st.vars.length ≤ st1.vars.length ∧ st1.body = st.body ∧
      (∀ s ∈ new, ∀ v ∈ s.2.outputVars, σ' v = (execBlock x (new.map (·.2))).env v ∧ v < st1.vars.length) := by
  cases rule with
  | define out e eff ni fi =>
    simp only [applyRule] at h
    obtain ⟨r', σ', h1, h2, h3, h4, h5, _, h7⟩ := define_sim c σ st st1 r x out e eff ni fi new hsim h hwf (by
      intro σ τ hst
      have := hfr σ τ hst
      simp only [Rule.subst, Rule.define.injEq, true_and, and_true] at this
      exact this) hag
    exact ⟨r', σ', h1, h2, h3, h4, h5, h7⟩
  | effect s out e =>
    simp only [applyRule, bind, Except.bind] at h
    cases hb : c.blockFor out with
    | error err => simp [hb] at h
    | ok b =>
      simp only [hb] at h
      cases hd : define c st out e false false true with
      | error err => simp [hd] at h
      | ok p =>
        obtain ⟨s1, more⟩ := p
        simp only [hd, pure, Except.pure, Except.ok.injEq, Prod.mk.injEq] at h
        obtain ⟨rfl, rfl⟩ := h
        have hmore := (define_new c st s1 out e false false true more hd).2.2 rfl
        subst hmore
        have hfr' : ∀ σ τ : Env, (∀ v, v < st.vars.length → σ v = τ v) → e.subst σ = e.subst τ := by
          intro σ τ hst
          have := hfr σ τ hst
          simp only [Rule.subst, Rule.effect.injEq, true_and] at this
          exact this.2
        -- the alias is not read by the statement: run `define_sim` with `σ` on both sides
        obtain ⟨r1, σ1, href, hsim1, _, hlen, hbody, hσ, _⟩ :=
          define_sim c σ st s1 r x out e false false true [] hsim hd (by intro h; cases h) hfr' (by simp)
        obtain ⟨hset, hr1⟩ := refRule_define_pure r r1 out (e.subst σ) false true href
        have hσ1 := hσ rfl
        subst hσ1
        refine ⟨{ r with vals := r1.vals, trace := r.trace ++ (s.substE σ1).event?.toList }, σ1, ?_, ?_, Step.same rfl ?_, hlen, hbody, ?_⟩
        · simp only [Rule.subst, refRule, hset, bind, Except.bind]
          rfl
        · simp only [execBlock, List.map_cons, List.map_nil, List.foldl_cons, List.foldl_nil, execStmt_event x s hwf]
          refine ⟨hsim1.vals, ?_, hsim.ret, (by have := hsim1.nconst; rw [hr1] at this; exact this), hsim1.fresh⟩
          simp only [hsim.trace]
          rw [event_agree s σ1 x.env (hag (b, s) (by simp))]
        · simp only [execBlock, List.map_cons, List.map_nil, List.foldl_cons, List.foldl_nil, execStmt_event x s hwf]
        · intro s' hs' w hw
          simp only [List.mem_singleton] at hs'
          subst hs'
          cases s <;> first | (simp [Rule.WF, Stmt.isEvent] at hwf; done) | (simp [Stmt.outputVars] at hw)
  | import_ out from_ imp hint =>
    simp only [applyRule, bind, Except.bind] at h
    cases ha : st.addVar c (.var out) false with
    | error err => simp [ha] at h
    | ok p =>
      obtain ⟨v, s1⟩ := p
      simp only [ha] at h
      cases hb : c.blockFor (.var out) with
      | error err => simp [hb] at h
      | ok b =>
        simp only [hb] at h
        split at h
        · simp [throw, throwThe, MonadExceptOf.throw] at h
        · simp only [pure, Except.pure, Except.ok.injEq, Prod.mk.injEq] at h
          obtain ⟨rfl, rfl⟩ := h
          obtain ⟨rfl, hlen, hset, hfresh, hc, hbody, _, _⟩ :=
            addVar_sim c σ st s1 r x (.var out) false v (modAtom from_ imp) hsim ha
          refine ⟨{ r with vals := mapσ (σ.set st.vars.length (modAtom from_ imp)) s1.cache },
            σ.set st.vars.length (modAtom from_ imp), ?_, ?_, Step.bind (modAtom from_ imp) rfl rfl, ?_, ?_, ?_⟩
          · simp only [Rule.subst, refRule, hset, bind, Except.bind]
            rfl
          · cases hint <;> exact ⟨rfl, hsim.trace, hsim.ret, by simp only [hsim.nconst, hc], hfresh⟩
          · cases hint <;> simp only [hlen] <;> omega
          · cases hint <;> exact hbody
          · intro s hs w hw
            simp only [List.mem_singleton] at hs
            subst hs
            simp only [Stmt.outputVars, List.mem_singleton] at hw
            subst hw
            refine ⟨?_, ?_⟩
            · simp only [execBlock, List.map_cons, List.map_nil, List.foldl_cons, List.foldl_nil, execStmt, Env.set_same]
            · first | (simp only [hlen]; omega) | (cases hint <;> simp only [hlen] <;> omega) | (simp [hlen])
  | constant out str =>
    simp only [applyRule, bind, Except.bind] at h
    cases ha : st.addVar c (.var out) false with
    | error err => simp [ha] at h
    | ok p =>
      obtain ⟨v, s1⟩ := p
      simp only [ha, pure, Except.pure, Except.ok.injEq, Prod.mk.injEq] at h
      obtain ⟨rfl, rfl⟩ := h
      obtain ⟨rfl, hlen, hset, hfresh, hc, hbody, _, _⟩ :=
        addVar_sim c σ st s1 r x (.var out) false v (constAtom (r.nconst + 1)) hsim ha
      refine ⟨{ r with vals := mapσ (σ.set st.vars.length (constAtom (r.nconst + 1))) s1.cache, nconst := r.nconst + 1 },
        σ.set st.vars.length (constAtom (r.nconst + 1)), ?_, ?_, Step.bind (constAtom (r.nconst + 1)) rfl ?_, ?_, hbody, ?_⟩
      · simp only [Rule.subst, refRule, hset, bind, Except.bind]
        rfl
      · exact ⟨rfl, hsim.trace, hsim.ret, by simp [hsim.nconst, hc], hfresh⟩
      · simp only [execBlock, List.map_cons, List.map_nil, List.foldl_cons, List.foldl_nil, execStmt, hsim.nconst, hc]
      · simp only [hlen]; omega
      · intro s hs w hw
        simp only [List.mem_singleton] at hs
        subst hs
        simp only [Stmt.outputVars, List.mem_singleton] at hw
        subst hw
        refine ⟨?_, ?_⟩
        · simp only [execBlock, List.map_cons, List.map_nil, List.foldl_cons, List.foldl_nil, execStmt, Env.set_same,
            hsim.nconst, hc]
        · first | (simp only [hlen]; omega) | (cases hint <;> simp only [hlen] <;> omega) | (simp [hlen])

/-! ### One application -/

theorem ruleOf_wf (g : Graph) (up : Bool) (cache : List (E × E)) (a : App) (rule : Rule)
    (h : ruleOf g up cache a = .ok rule) : rule.WF := by
  cases a <;> simp only [ruleOf, bind, Except.bind, pure, Except.pure] at h <;>
    (repeat' split at h) <;> (try (first | (cases h; simp [Rule.WF, Stmt.isEvent]) | (simp at h)))

theorem patchForce_wf (g : Graph) (cfg : UCfg) (a : App) (r : Rule) (h : r.WF) : (patchForce g cfg a r).WF := by
  unfold patchForce
  split
  · split <;> first | exact h | (simp only [Rule.WF] at h ⊢; exact h)
  · exact h

theorem patchForce_subst (g : Graph) (cfg : UCfg) (a : App) (r : Rule) (σ : Env) :
    (patchForce g cfg a r).subst σ = patchForce g cfg a (r.subst σ) := by
  unfold patchForce
  split
  · cases a <;> cases r <;> rfl
  · rfl

theorem refRule_patchForce (g : Graph) (cfg : UCfg) (a : App) (rule : Rule) (r : RState) :
    refRule r (patchForce g cfg a rule) = refRule r rule := by
  unfold patchForce
  split
  · cases a <;> cases rule <;> rfl
  · rfl

theorem Sim.push {σ : Env} {st : GState} {r : RState} {x : XState} (h : Sim σ st r x) (src : Option Nat)
    (new : List (Nat × Stmt)) : Sim σ (st.push src new) r x :=
  ⟨h.vals, h.trace, h.ret, h.nconst, h.fresh⟩

theorem program_push (st : GState) (src : Option Nat) (new : List (Nat × Stmt)) :
    (st.push src new).program = st.program ++ new.map (·.2) := by
  simp [GState.program, GState.push, Function.comp_def]

theorem app_step (c : Ctx) (σ : Env) (st st' : GState) (r : RState) (x : XState) (i : Nat)
    (hsim : Sim σ st r x) (h : emitVisit c st (.app i) = .ok st')
    (hag : ∀ new, st'.program = st.program ++ new → ∀ v ∈ liveIn new, σ v = x.env v) :
    ∃ new r' σ', st'.program = st.program ++ new ∧ refVisit c.g c.cfg.unaryParens r (.app i) = .ok r' ∧
      Sim σ' st' r' (execBlock x new) ∧ Step st.vars.length σ σ' x (execBlock x new) ∧
      st.vars.length ≤ st'.vars.length ∧ new.length ≤ 1 ∧
      (∀ s ∈ new, ∀ v ∈ s.outputVars, σ' v = (execBlock x new).env v ∧ v < st'.vars.length) := by
  cases ha : c.g.apps[i]? with
  | none => simp [emitVisit, ha, throw, throwThe, MonadExceptOf.throw] at h
  | some a =>
    simp only [emitVisit, ha, emitApp, bind, Except.bind] at h
    cases hr : ruleOf c.g c.cfg.unaryParens st.cache a with
    | error err => simp [hr] at h
    | ok rule =>
      simp only [hr] at h
      cases hp : applyRule c st (patchForce c.g c.cfg a rule) with
      | error err => simp [hp] at h
      | ok p =>
        obtain ⟨s1, new⟩ := p
        simp only [hp, pure, Except.pure, Except.ok.injEq] at h
        subst h
        have hfr : ∀ σ τ : Env, (∀ v, v < st.vars.length → σ v = τ v) →
            (patchForce c.g c.cfg a rule).subst σ = (patchForce c.g c.cfg a rule).subst τ := by
          intro σ τ hst
          have h1 := ruleOf_mapσ c.g c.cfg.unaryParens σ st.cache a
          have h2 := ruleOf_mapσ c.g c.cfg.unaryParens τ st.cache a
          rw [hsim.fresh σ τ hst, h2, hr] at h1
          simp only [Except.map, Except.ok.injEq] at h1
          rw [patchForce_subst, patchForce_subst, h1]
        have hbody0 := applyRule_body c st s1 _ new hp
        have hprog : (s1.push (some i) new).program = st.program ++ new.map (·.2) := by
          rw [program_push]
          simp only [GState.program, hbody0]
        obtain ⟨r', σ', href, hsim', hstep, hlen, hbody, hout⟩ :=
          applyRule_sim c σ st s1 r x _ new hsim hp (patchForce_wf _ _ _ _ (ruleOf_wf _ _ _ _ _ hr)) hfr
            (fun s hs v hv => hag _ hprog v (by
              have hle := (applyRule_new c st s1 _ new hp).1
              match new, hle, hs with
              | [s'], _, hs =>
                simp only [List.mem_singleton] at hs
                subst hs
                simpa [liveIn] using hv))
        refine ⟨new.map (·.2), r', σ', hprog, ?_, hsim'.push _ _, hstep, hlen, ?_, ?_⟩
        rotate_left
        · rw [List.length_map]; exact (applyRule_new c st s1 _ new hp).1
        · intro s hs v hv
          obtain ⟨s', hs', rfl⟩ := List.mem_map.1 hs
          exact hout s' hs' v hv
        · simp only [refVisit, ha, bind, Except.bind]
          rw [hsim.vals, ruleOf_mapσ, hr]
          simp only [Except.map]
          rw [← refRule_patchForce c.g c.cfg a, ← patchForce_subst]
          exact href

/-! ### A traversal of applications only -/

theorem execBlock_append (x : XState) (l1 l2 : List Stmt) : execBlock x (l1 ++ l2) = execBlock (execBlock x l1) l2 := by
  simp [execBlock, List.foldl_append]

def Visit.isApp : Visit → Bool
  | .app _ => true
  | _ => false

theorem emitAll_sim_flat (c : Ctx) (order : List Visit) (hflat : order.all Visit.isApp = true) :
    ∀ (st : GState) (r : RState) (x : XState), Sim x.env st r x → ∀ st', emitAll c order st = .ok st' →
    ∃ new r', st'.program = st.program ++ new ∧ order.foldlM (refVisit c.g c.cfg.unaryParens) r = .ok r' ∧
      Sim (execBlock x new).env st' r' (execBlock x new) := by
  induction order with
  | nil =>
    intro st r x hsim st' h
    simp only [emitAll, List.foldlM_nil, pure, Except.pure, Except.ok.injEq] at h
    subst h
    exact ⟨[], r, by simp, rfl, hsim⟩
  | cons v rest ih =>
    intro st r x hsim st' h
    simp only [List.all_cons, Bool.and_eq_true] at hflat
    obtain ⟨s1, h1, h2⟩ := emitAll_cons c v rest st st' h
    cases v with
    | app i =>
      obtain ⟨new1, r1, σ1, hp1, href1, hsim1, hstep, _⟩ :=
        app_step c x.env st s1 r x i hsim h1 (fun _ _ _ _ => rfl)
      have hσ : σ1 = (execBlock x new1).env := by
        cases hstep with
        | same e1 e2 => rw [e1, e2]
        | bind t e1 e2 => rw [e1, e2]
      rw [hσ] at hsim1
      obtain ⟨new2, r2, hp2, href2, hsim2⟩ := ih hflat.2 s1 r1 (execBlock x new1) hsim1 st' h2
      refine ⟨new1 ++ new2, r2, by rw [hp2, hp1, List.append_assoc], ?_, ?_⟩
      · simp only [List.foldlM_cons, href1, bind, Except.bind]
        exact href2
      · rw [execBlock_append]
        exact hsim2
    | enter g => simp [Visit.isApp] at hflat
    | exit g => simp [Visit.isApp] at hflat

theorem Sim.init : Sim unbound {} {} { env := unbound } :=
  ⟨rfl, rfl, rfl, rfl, fun _ _ _ => rfl⟩

/-! ### Nested graphs -/

/-- Variables bound by a list of statements. -/
def outsOf (l : List Stmt) : List Nat := l.flatMap Stmt.outputVars

theorem outsOf_append (l1 l2 : List Stmt) : outsOf (l1 ++ l2) = outsOf l1 ++ outsOf l2 := by
  simp [outsOf]

/-- The invariant with nested graphs: between `enter g` and `exit g` the function variable of `g` is cached but not yet
bound (the `def` is emitted at `exit`), so `σ` is the environment *with the pending function variables already bound to
their closures*; it agrees with the real environment on every variable that has been bound by a statement.  `en` is the
list of graphs that have been entered. -/
structure Inv (σ : Env) (st : GState) (r : RState) (x : XState) (en : List Nat) : Prop where
  sim : Sim σ st r x
  agree : ∀ v ∈ outsOf st.program, σ v = x.env v ∧ v < st.vars.length
  gclos : ∀ gi ∈ en, assocGet r.vals (.gref gi) = some (closAtom gi)

theorem assocGet_append_some {β : Type} (l m : List (E × β)) (k : E) (t : β) (h : assocGet l k = some t) :
    assocGet (l ++ m) k = some t := by
  unfold assocGet at h ⊢
  rw [List.find?_append]
  cases hf : l.find? (fun x => x.1 == k) with
  | none => simp [hf] at h
  | some p => simpa [hf] using h

theorem refRule_vals_append (r r' : RState) (rule : Rule) (h : refRule r rule = .ok r') :
    ∃ more, r'.vals = r.vals ++ more := by
  cases rule with
  | define out e eff ni fi =>
    cases eff with
    | true =>
      simp only [refRule, if_true, bind, Except.bind] at h
      cases hs : setCache 64 r.vals out (resAtom r.trace.length) with
      | error err => simp [hs] at h
      | ok vals =>
        simp only [hs, pure, Except.pure, Except.ok.injEq] at h
        subst h
        obtain ⟨more, hm, _⟩ := setCache_append _ _ _ _ _ hs
        exact ⟨more, hm⟩
    | false =>
      obtain ⟨hs, _⟩ := refRule_define_pure r r' out e ni fi h
      obtain ⟨more, hm, _⟩ := setCache_append _ _ _ _ _ hs
      exact ⟨more, hm⟩
  | effect s out e =>
    simp only [refRule, bind, Except.bind] at h
    cases hs : setCache 64 r.vals out e with
    | error err => simp [hs] at h
    | ok vals =>
      simp only [hs, pure, Except.pure, Except.ok.injEq] at h
      subst h
      obtain ⟨more, hm, _⟩ := setCache_append _ _ _ _ _ hs
      exact ⟨more, hm⟩
  | import_ out from_ imp hint =>
    simp only [refRule, bind, Except.bind] at h
    cases hs : setCache 64 r.vals (.var out) (modAtom from_ imp) with
    | error err => simp [hs] at h
    | ok vals =>
      simp only [hs, pure, Except.pure, Except.ok.injEq] at h
      subst h
      obtain ⟨more, hm, _⟩ := setCache_append _ _ _ _ _ hs
      exact ⟨more, hm⟩
  | constant out str =>
    simp only [refRule, bind, Except.bind] at h
    cases hs : setCache 64 r.vals (.var out) (constAtom (r.nconst + 1)) with
    | error err => simp [hs] at h
    | ok vals =>
      simp only [hs, pure, Except.pure, Except.ok.injEq] at h
      subst h
      obtain ⟨more, hm, _⟩ := setCache_append _ _ _ _ _ hs
      exact ⟨more, hm⟩

theorem refVisit_app_append (g : Graph) (up : Bool) (r r' : RState) (i : Nat) (h : refVisit g up r (.app i) = .ok r') :
    ∃ more, r'.vals = r.vals ++ more := by
  simp only [refVisit] at h
  cases ha : g.apps[i]? with
  | none => simp [ha, throw, throwThe, MonadExceptOf.throw] at h
  | some a =>
    simp only [ha, bind, Except.bind] at h
    cases hr : ruleOf g up r.vals a with
    | error err => simp [hr] at h
    | ok rule =>
      simp only [hr] at h
      exact refRule_vals_append r r' rule h

theorem app_inv (c : Ctx) (σ : Env) (st st' : GState) (r : RState) (x : XState) (i : Nat) (en : List Nat)
    (hinv : Inv σ st r x en) (h : emitVisit c st (.app i) = .ok st')
    (hag : ∀ new, st'.program = st.program ++ new → ∀ v ∈ liveIn new, v ∈ outsOf st.program) :
    ∃ new r' σ', st'.program = st.program ++ new ∧ refVisit c.g c.cfg.unaryParens r (.app i) = .ok r' ∧
      Inv σ' st' r' (execBlock x new) en := by
  obtain ⟨new, r', σ', hp, href, hsim, hstep, hlen, _, hout⟩ :=
    app_step c σ st st' r x i hinv.sim h (fun new hp v hv => (hinv.agree v (hag new hp v hv)).1)
  refine ⟨new, r', σ', hp, href, hsim, ?_, ?_⟩
  · intro v hv
    rw [hp, outsOf_append, List.mem_append] at hv
    rcases hv with hv | hv
    · obtain ⟨h1, h2⟩ := hinv.agree v hv
      refine ⟨?_, Nat.lt_of_lt_of_le h2 hlen⟩
      cases hstep with
      | same e1 e2 => rw [e1, e2]; exact h1
      | bind t e1 e2 =>
        rw [e1, e2, Env.set_other _ _ _ _ (Nat.ne_of_lt h2), Env.set_other _ _ _ _ (Nat.ne_of_lt h2)]
        exact h1
    · obtain ⟨s, hs, hvs⟩ := List.mem_flatMap.1 hv
      exact hout s hs v hvs
  · intro gi hgi
    obtain ⟨more, hm⟩ := refVisit_app_append _ _ _ _ _ href
    rw [hm]
    exact assocGet_append_some _ _ _ _ (hinv.gclos gi hgi)

theorem assocGet_append_none {β : Type} (l : List (E × β)) (k : E) (t : β) (h : assocGet l k = none) :
    assocGet (l ++ [(k, t)]) k = some t := by
  unfold assocGet at h ⊢
  rw [List.find?_append]
  cases hf : l.find? (fun x => x.1 == k) with
  | none => simp
  | some p => simp [hf] at h

theorem setCache_gref (cache cache' : List (E × E)) (gi : Nat) (t : E)
    (h : setCache 64 cache (.gref gi) t = .ok cache') :
    cache' = cache ++ [(.gref gi, t)] ∧ assocGet cache (.gref gi) = none := by
  simp only [setCache, keyOf] at h
  split at h
  · simp at h
  · rename_i hn
    simp only [Except.ok.injEq] at h
    refine ⟨h.symm, ?_⟩
    cases hg : assocGet cache (.gref gi) with
    | none => rfl
    | some _ => simp [hg] at hn

theorem Inv.congr {σ : Env} {st st2 : GState} {r : RState} {x : XState} {en : List Nat} (h : Inv σ st r x en)
    (hc : st2.cache = st.cache) (hv : st2.vars = st.vars) (hk : st2.consts = st.consts) (hb : st2.body = st.body) :
    Inv σ st2 r x en := by
  refine ⟨⟨by rw [hc]; exact h.sim.vals, h.sim.trace, h.sim.ret, by rw [hk]; exact h.sim.nconst, by rw [hc, hv]; exact h.sim.fresh⟩, ?_, h.gclos⟩
  intro v hv'
  have : st2.program = st.program := by simp only [GState.program, hb]
  rw [this] at hv'
  rw [hv]
  exact h.agree v hv'

theorem param_inv (c : Ctx) (σ : Env) (st st' : GState) (r : RState) (x : XState) (t : Nat) (en : List Nat)
    (hinv : Inv σ st r x en) (h : enterParam c st t = .ok st') :
    ∃ σ' vals' new, setCache 64 r.vals (.var t) (inAtom t) = .ok vals' ∧
      Inv σ' st' { r with vals := vals' } (execBlock x new) en ∧ st'.program = st.program ++ new := by
  simp only [enterParam, bind, Except.bind] at h
  cases ha : st.addVar c (.var t) true with
  | error err => simp [ha] at h
  | ok p =>
    obtain ⟨v, s1⟩ := p
    simp only [ha, pure, Except.pure, Except.ok.injEq] at h
    subst h
    obtain ⟨rfl, hlen, hset, hfresh, hc, hbody, _, _⟩ := addVar_sim c σ st s1 r x (.var t) true v (inAtom t) hinv.sim ha
    refine ⟨σ.set st.vars.length (inAtom t), _, [.param st.vars.length t], hset, ⟨?_, ?_, ?_⟩, ?_⟩
    · exact ⟨rfl, hinv.sim.trace, hinv.sim.ret, (by show r.nconst = s1.consts.length; rw [hinv.sim.nconst, hc]), hfresh⟩
    · intro v hv
      have hprog : (s1.push none [((s1.vars[st.vars.length]?.map (fun i => i.block)).getD 0, Stmt.param st.vars.length t)]).program
          = st.program ++ [.param st.vars.length t] := by
        rw [program_push]; simp only [GState.program, hbody, List.map_cons, List.map_nil]
      rw [hprog, outsOf_append, List.mem_append] at hv
      show _ ∧ v < s1.vars.length
      rw [hlen]
      simp only [execBlock, List.foldl_cons, List.foldl_nil, execStmt]
      rcases hv with hv | hv
      · obtain ⟨h1, h2⟩ := hinv.agree v hv
        rw [Env.set_other _ _ _ _ (Nat.ne_of_lt h2), Env.set_other _ _ _ _ (Nat.ne_of_lt h2)]
        exact ⟨h1, by omega⟩
      · simp only [outsOf, List.flatMap_cons, List.flatMap_nil, Stmt.outputVars, List.append_nil, List.mem_singleton] at hv
        subst hv
        rw [Env.set_same, Env.set_same]
        exact ⟨rfl, by omega⟩
    · intro gi hgi
      obtain ⟨more, hm, _⟩ := setCache_append _ _ _ _ _ hset
      show assocGet (mapσ _ s1.cache) _ = _
      rw [hm]
      exact assocGet_append_some _ _ _ _ (hinv.gclos gi hgi)
    · rw [program_push]; simp only [GState.program, hbody, List.map_cons, List.map_nil]

theorem params_inv (c : Ctx) (en : List Nat) (inputs : List Nat) :
    ∀ (σ : Env) (st st' : GState) (r : RState) (x : XState), Inv σ st r x en →
    inputs.foldlM (enterParam c) st = .ok st' →
    ∃ σ' vals' new, inputs.foldlM (fun vals t => setCache 64 vals (.var t) (inAtom t)) r.vals = .ok vals' ∧
      Inv σ' st' { r with vals := vals' } (execBlock x new) en ∧ st'.program = st.program ++ new := by
  induction inputs with
  | nil =>
    intro σ st st' r x hinv h
    simp only [List.foldlM_nil, pure, Except.pure, Except.ok.injEq] at h
    subst h
    exact ⟨σ, r.vals, [], rfl, hinv, by simp⟩
  | cons t rest ih =>
    intro σ st st' r x hinv h
    simp only [List.foldlM_cons, bind, Except.bind] at h
    cases h1 : enterParam c st t with
    | error err => simp [h1] at h
    | ok s1 =>
      simp only [h1] at h
      obtain ⟨σ1, vals1, new1, hs1, hinv1, hp1⟩ := param_inv c σ st s1 r x t en hinv h1
      obtain ⟨σ2, vals2, new2, hs2, hinv2, hp2⟩ := ih σ1 s1 st' _ _ hinv1 h
      refine ⟨σ2, vals2, new1 ++ new2, ?_, ?_, by rw [hp2, hp1, List.append_assoc]⟩
      · simp only [List.foldlM_cons, hs1, bind, Except.bind]
        exact hs2
      · rw [execBlock_append]
        exact hinv2

theorem enter_inv (c : Ctx) (σ : Env) (st st' : GState) (r : RState) (x : XState) (gi : Nat) (en : List Nat)
    (hinv : Inv σ st r x en) (h : emitVisit c st (.enter gi) = .ok st') :
    ∃ new r' σ', st'.program = st.program ++ new ∧ refVisit c.g c.cfg.unaryParens r (.enter gi) = .ok r' ∧
      Inv σ' st' r' (execBlock x new) (gi :: en) := by
  simp only [emitVisit] at h
  cases hg : c.g.graphs[gi]? with
  | none => simp [hg, throw, throwThe, MonadExceptOf.throw] at h
  | some sg =>
    simp only [hg, bind, Except.bind] at h
    cases ha : st.addVar c (.gref gi) true with
    | error err => simp [ha] at h
    | ok p =>
      obtain ⟨fv, s1⟩ := p
      simp only [ha] at h
      obtain ⟨rfl, hlen, hset, hfresh, hc, hbody, _, _⟩ :=
        addVar_sim c σ st s1 r x (.gref gi) true fv (closAtom gi) hinv.sim ha
      obtain ⟨hm, hnone⟩ := setCache_gref _ _ _ _ hset
      have hinv1 : Inv (σ.set st.vars.length (closAtom gi)) s1
          { r with vals := mapσ (σ.set st.vars.length (closAtom gi)) s1.cache } x (gi :: en) := by
        refine ⟨⟨rfl, hinv.sim.trace, hinv.sim.ret, by simp only [hinv.sim.nconst, hc], hfresh⟩, ?_, ?_⟩
        · intro v hv
          have : s1.program = st.program := by simp only [GState.program, hbody]
          rw [this] at hv
          obtain ⟨h1, h2⟩ := hinv.agree v hv
          rw [Env.set_other _ _ _ _ (Nat.ne_of_lt h2), hlen]
          exact ⟨h1, by omega⟩
        · intro g' hg'
          show assocGet (mapσ _ s1.cache) _ = _
          rw [hm]
          rcases List.mem_cons.1 hg' with rfl | hg'
          · exact assocGet_append_none _ _ _ hnone
          · exact assocGet_append_some _ _ _ _ (hinv.gclos g' hg')
      have hinv2 : ∀ s2 : GState, s2.cache = s1.cache → s2.vars = s1.vars → s2.consts = s1.consts → s2.body = s1.body →
          List.foldlM (enterParam c) s2 sg.inputs = .ok st' → ∃ new r' σ', st'.program = st.program ++ new ∧
            refVisit c.g c.cfg.unaryParens r (.enter gi) = .ok r' ∧ Inv σ' st' r' (execBlock x new) (gi :: en) := by
        intro s2 e1 e2 e3 e4 hfold
        obtain ⟨σ', vals', new, hs, hinv', hp⟩ := params_inv c (gi :: en) sg.inputs _ s2 st' _ x (hinv1.congr e1 e2 e3 e4) hfold
        refine ⟨new, _, σ', ?_, ?_, hinv'⟩
        · rw [hp]; simp only [GState.program, e4, hbody]
        · simp only [refVisit, hg, bind, Except.bind, hset]
          simp only at hs
          rw [hs]
          rfl
      cases hn : sg.name with
      | none => simp only [hn] at h; exact hinv2 _ rfl rfl rfl rfl h
      | some n => simp only [hn] at h; exact hinv2 { s1 with hints := s1.hints ++ [(st.vars.length, n)] } rfl rfl rfl rfl h

theorem fresh_var_lt {n : Nat} {cache : List (E × E)} (hf : Fresh n cache) (k : E) (v : Nat)
    (hmem : (k, E.var v) ∈ cache) : v < n := by
  rcases Nat.lt_or_ge v n with h | h
  · exact h
  · exfalso
    have := hf (fun _ => E.nil) (Env.set (fun _ => E.nil) v (.lit "")) (fun w hw => by
      rw [Env.set_other _ _ _ _ (by omega)])
    have h2 := (List.map_inj_left.1 this) (k, E.var v) hmem
    simp [E.subst, Env.set] at h2

theorem assocGet_mem {β : Type} (l : List (E × β)) (k : E) (t : β) (h : assocGet l k = some t) : (k, t) ∈ l := by
  unfold assocGet at h
  cases hf : l.find? (fun x => x.1 == k) with
  | none => simp [hf] at h
  | some p =>
    simp only [hf, Option.map_some, Option.some.injEq] at h
    have h1 := List.mem_of_find?_eq_some hf
    have h2 := List.find?_some hf
    simp only [beq_iff_eq] at h2
    obtain ⟨a, b⟩ := p
    simp only at h h2
    subst h h2
    exact h1

theorem exit_inv (c : Ctx) (σ : Env) (st st' : GState) (r : RState) (x : XState) (gi : Nat) (en : List Nat)
    (hinv : Inv σ st r x en) (hgi : gi ∈ en) (h : emitVisit c st (.exit gi) = .ok st')
    (hag : ∀ new, st'.program = st.program ++ new → ∀ v ∈ liveIn new, v ∈ outsOf st.program) :
    ∃ new r' σ', st'.program = st.program ++ new ∧ refVisit c.g c.cfg.unaryParens r (.exit gi) = .ok r' ∧
      Inv σ' st' r' (execBlock x new) en := by
  simp only [emitVisit] at h
  cases hg : c.g.graphs[gi]? with
  | none => simp [hg, throw, throwThe, MonadExceptOf.throw] at h
  | some sg =>
    simp only [hg, bind, Except.bind] at h
    cases ho : c.blockFor (.gref gi) with
    | error err => simp [ho] at h
    | ok outer =>
    cases hi : c.blockFor sg.output with
    | error err => simp [ho, hi] at h
    | ok inner =>
    cases hf : varOf st.cache (.gref gi) with
    | error err => simp [ho, hi, hf] at h
    | ok fv =>
    cases hps : sg.inputs.mapM (fun t => varOf st.cache (.var t)) with
    | error err => simp [ho, hi, hf, hps] at h
    | ok params =>
    cases hr : convTop st.cache sg.output with
    | error err => simp [ho, hi, hf, hps, hr] at h
    | ok rr =>
      simp only [ho, hi, hf, hps, hr, pure, Except.pure, Except.ok.injEq] at h
      subst h
      have hprog : (st.push none [(inner, Stmt.return_ rr), (outer, Stmt.def_ fv params inner gi)]).program
          = st.program ++ [.return_ rr, .def_ fv params inner gi] := by
        rw [program_push]; rfl
      -- the cached expression of the graph is its function variable, which `σ` already binds to the closure
      have hcache : assocGet st.cache (.gref gi) = some (.var fv) := by
        unfold varOf at hf
        split at hf
        · rename_i v hv; simp only [Except.ok.injEq] at hf; subst hf; exact hv
        · simp at hf
      have hσfv : σ fv = closAtom gi := by
        have := hinv.gclos gi hgi
        rw [hinv.sim.vals, assocGet_mapσ, hcache] at this
        simpa [E.subst] using this
      have hfvlt : fv < st.vars.length := fresh_var_lt hinv.sim.fresh _ _ (assocGet_mem _ _ _ hcache)
      have hreads : rr.subst σ = rr.subst x.env := by
        apply E.subst_congr
        intro v hv
        exact (hinv.agree v (hag _ hprog v (by simp [liveIn, Stmt.reads, hv]))).1
      refine ⟨[.return_ rr, .def_ fv params inner gi],
        { r with ret := match r.ret with | some t => some t | none => some (rr.subst σ) }, σ, hprog, ?_, ⟨?_, ?_, hinv.gclos⟩⟩
      · simp only [refVisit, hg, bind, Except.bind, hinv.sim.vals, convTop_mapσ, hr, Except.map]
        rfl
      · refine ⟨hinv.sim.vals, ?_, ?_, hinv.sim.nconst, hinv.sim.fresh⟩
        · simp only [execBlock, List.foldl_cons, List.foldl_nil, execStmt]
          cases x.ret <;> exact hinv.sim.trace
        · simp only [execBlock, List.foldl_cons, List.foldl_nil, execStmt]
          have := hinv.sim.ret
          cases hxr : x.ret with
          | none => rw [hxr] at this; simp only [this, hreads]
          | some t => rw [hxr] at this; simp only [this, hxr]
      · intro v hv
        rw [hprog, outsOf_append, List.mem_append] at hv
        show _ ∧ v < st.vars.length
        have henv : (execBlock x [.return_ rr, .def_ fv params inner gi]).env = x.env.set fv (closAtom gi) := by
          simp only [execBlock, List.foldl_cons, List.foldl_nil, execStmt]
          cases x.ret <;> rfl
        rw [henv]
        by_cases hvf : v = fv
        · subst hvf
          rw [Env.set_same]
          exact ⟨hσfv, hfvlt⟩
        · rw [Env.set_other _ _ _ _ hvf]
          rcases hv with hv | hv
          · exact hinv.agree v hv
          · simp [outsOf, Stmt.outputVars] at hv
            exact absurd hv hvf

/-! ### The whole traversal -/

theorem liveIn_append_left (l1 l2 : List Stmt) (v : Nat) (h : v ∈ liveIn l1) : v ∈ liveIn (l1 ++ l2) := by
  induction l1 with
  | nil => simp [liveIn] at h
  | cons s rest ih =>
    rw [List.cons_append, mem_liveIn_cons]
    rcases (mem_liveIn_cons s rest v).1 h with h | ⟨h1, h2⟩
    · exact Or.inl h
    · exact Or.inr ⟨ih h1, h2⟩

theorem liveIn_append_right (l1 l2 : List Stmt) (v : Nat) (h : v ∈ liveIn l2) :
    v ∈ liveIn (l1 ++ l2) ∨ v ∈ outsOf l1 := by
  induction l1 with
  | nil => exact Or.inl h
  | cons s rest ih =>
    rw [List.cons_append, mem_liveIn_cons]
    by_cases hs : v ∈ s.outputVars
    · exact Or.inr (by simp [outsOf, hs])
    · rcases ih with h1 | h1
      · exact Or.inl (Or.inr ⟨h1, hs⟩)
      · refine Or.inr ?_
        simp only [outsOf, List.flatMap_cons, List.mem_append]
        exact Or.inr h1

theorem emitVisit_program (c : Ctx) (st st' : GState) (v : Visit) (h : emitVisit c st v = .ok st') :
    ∃ new, st'.program = st.program ++ new := by
  have : ∃ src new, st'.body = st.body ++ tagWith src new := by
    cases v with
    | app i =>
      cases ha : c.g.apps[i]? with
      | none => simp [emitVisit, ha, throw, throwThe, MonadExceptOf.throw] at h
      | some a =>
        obtain ⟨new, hb, _⟩ := emitVisit_app c st st' i a ha h
        exact ⟨_, new, hb⟩
    | enter gi =>
      obtain ⟨new, hb⟩ := emitVisit_other c st st' (.enter gi) rfl h
      exact ⟨_, new, hb⟩
    | exit gi =>
      obtain ⟨new, hb⟩ := emitVisit_other c st st' (.exit gi) rfl h
      exact ⟨_, new, hb⟩
  obtain ⟨src, new, hb⟩ := this
  exact ⟨(tagWith src new).map (·.2.stmt), by simp only [GState.program, hb, List.map_append]⟩

theorem emitAll_program (c : Ctx) (order : List Visit) : ∀ (st st' : GState), emitAll c order st = .ok st' →
    ∃ new, st'.program = st.program ++ new := by
  induction order with
  | nil =>
    intro st st' h
    simp only [emitAll, List.foldlM_nil, pure, Except.pure, Except.ok.injEq] at h
    subst h
    exact ⟨[], by simp⟩
  | cons v rest ih =>
    intro st st' h
    obtain ⟨s1, h1, h2⟩ := emitAll_cons c v rest st st' h
    obtain ⟨n1, e1⟩ := emitVisit_program c st s1 v h1
    obtain ⟨n2, e2⟩ := ih s1 st' h2
    exact ⟨n1 ++ n2, by rw [e2, e1, List.append_assoc]⟩

/-- Every `exit g` comes after an `enter g` (decidable; true for every traversal the generator produces). -/
def matched : List Visit → List Nat → Bool
  | [], _ => true
  | .app _ :: rest, en => matched rest en
  | .enter gi :: rest, en => matched rest (gi :: en)
  | .exit gi :: rest, en => en.contains gi && matched rest en

theorem emitAll_inv (c : Ctx) (order : List Visit) :
    ∀ (en : List Nat) (σ : Env) (st st' : GState) (r : RState) (x : XState), Inv σ st r x en →
    matched order en = true → emitAll c order st = .ok st' →
    (∀ newAll, st'.program = st.program ++ newAll → ∀ v ∈ liveIn newAll, v ∈ outsOf st.program) →
    ∃ newAll r' σ' en', st'.program = st.program ++ newAll ∧
      order.foldlM (refVisit c.g c.cfg.unaryParens) r = .ok r' ∧ Inv σ' st' r' (execBlock x newAll) en' := by
  induction order with
  | nil =>
    intro en σ st st' r x hinv _ h _
    simp only [emitAll, List.foldlM_nil, pure, Except.pure, Except.ok.injEq] at h
    subst h
    exact ⟨[], r, σ, en, by simp, rfl, hinv⟩
  | cons v rest ih =>
    intro en σ st st' r x hinv hm h hcl
    obtain ⟨s1, h1, h2⟩ := emitAll_cons c v rest st st' h
    obtain ⟨n2, e2⟩ := emitAll_program c rest s1 st' h2
    -- closedness of what this step emits, and of the rest
    have hag : ∀ new, s1.program = st.program ++ new → ∀ v ∈ liveIn new, v ∈ outsOf st.program := by
      intro new hp v hv
      exact hcl (new ++ n2) (by rw [e2, hp, List.append_assoc]) v (liveIn_append_left _ _ _ hv)
    have hrest : ∀ new, s1.program = st.program ++ new →
        ∀ newAll, st'.program = s1.program ++ newAll → ∀ v ∈ liveIn newAll, v ∈ outsOf s1.program := by
      intro new hp newAll hpa v hv
      rw [hp, outsOf_append, List.mem_append]
      rcases liveIn_append_right new newAll v hv with h3 | h3
      · exact Or.inl (hcl (new ++ newAll) (by rw [hpa, hp, List.append_assoc]) v h3)
      · exact Or.inr h3
    have hfin : ∀ (en1 : List Nat) (new1 : List Stmt) (r1 : RState) (σ1 : Env), matched rest en1 = true →
        s1.program = st.program ++ new1 → refVisit c.g c.cfg.unaryParens r v = .ok r1 →
        Inv σ1 s1 r1 (execBlock x new1) en1 →
        ∃ newAll r' σ' en', st'.program = st.program ++ newAll ∧
          (v :: rest).foldlM (refVisit c.g c.cfg.unaryParens) r = .ok r' ∧ Inv σ' st' r' (execBlock x newAll) en' := by
      intro en1 new1 r1 σ1 hm1 hp1 href1 hinv1
      obtain ⟨new2, r2, σ2, en2, hp2, href2, hinv2⟩ := ih en1 σ1 s1 st' r1 _ hinv1 hm1 h2 (hrest new1 hp1)
      refine ⟨new1 ++ new2, r2, σ2, en2, by rw [hp2, hp1, List.append_assoc], ?_, ?_⟩
      · simp only [List.foldlM_cons, href1, bind, Except.bind]
        exact href2
      · rw [execBlock_append]
        exact hinv2
    cases v with
    | app i =>
      obtain ⟨new1, r1, σ1, hp1, href1, hinv1⟩ := app_inv c σ st s1 r x i en hinv h1 hag
      exact hfin en new1 r1 σ1 (by simpa [matched] using hm) hp1 href1 hinv1
    | enter gi =>
      obtain ⟨new1, r1, σ1, hp1, href1, hinv1⟩ := enter_inv c σ st s1 r x gi en hinv h1
      exact hfin (gi :: en) new1 r1 σ1 (by simpa [matched] using hm) hp1 href1 hinv1
    | exit gi =>
      simp only [matched, Bool.and_eq_true, List.contains_iff_mem] at hm
      obtain ⟨new1, r1, σ1, hp1, href1, hinv1⟩ := exit_inv c σ st s1 r x gi en hinv hm.1 h1 hag
      exact hfin en new1 r1 σ1 hm.2 hp1 href1 hinv1

theorem Inv.init : Inv unbound {} {} { env := unbound } [] :=
  ⟨Sim.init, by intro v hv; simp [outsOf, GState.program] at hv, by intro gi h; simp at h⟩

/-! ### Traversals produced by `visit` are well bracketed -/

theorem matched_mono (l : List Visit) : ∀ (en en' : List Nat), (∀ g ∈ en, g ∈ en') → matched l en = true → matched l en' = true := by
  induction l with
  | nil => intro _ _ _ _; rfl
  | cons v rest ih =>
    intro en en' hsub h
    cases v with
    | app i => exact ih en en' hsub h
    | enter gi =>
      refine ih (gi :: en) (gi :: en') ?_ h
      intro g hg
      rcases List.mem_cons.1 hg with rfl | hg
      · simp
      · exact List.mem_cons_of_mem _ (hsub g hg)
    | exit gi =>
      simp only [matched, Bool.and_eq_true, List.contains_iff_mem] at h ⊢
      exact ⟨hsub gi h.1, ih en en' hsub h.2⟩

/-- Graphs entered by a traversal. -/
def enteredOf : List Visit → List Nat
  | [] => []
  | .enter gi :: rest => enteredOf rest ++ [gi]
  | _ :: rest => enteredOf rest

theorem matched_append (l1 : List Visit) : ∀ (l2 : List Visit) (en : List Nat),
    matched l1 en = true → matched l2 (enteredOf l1 ++ en) = true → matched (l1 ++ l2) en = true := by
  induction l1 with
  | nil => intro l2 en _ h; simpa [enteredOf] using h
  | cons v rest ih =>
    intro l2 en h1 h2
    cases v with
    | app i => exact ih l2 en h1 h2
    | enter gi =>
      refine ih l2 (gi :: en) h1 ?_
      simpa [enteredOf, List.append_assoc] using h2
    | exit gi =>
      simp only [List.cons_append, matched, Bool.and_eq_true] at h1 ⊢
      exact ⟨h1.1, ih l2 en h1.2 h2⟩

/-- A piece of traversal that is well bracketed in every context. -/
def SelfMatched (l : List Visit) : Prop := ∀ en, matched l en = true

theorem SelfMatched.append {l1 l2 : List Visit} (h1 : SelfMatched l1) (h2 : SelfMatched l2) : SelfMatched (l1 ++ l2) :=
  fun en => matched_append l1 l2 en (h1 en) (h2 _)

theorem visit_foldlM_order (f : OState → E → Except String OState)
    (hf : ∀ st o st', f st o = .ok st' → ∃ new, st'.order = st.order ++ new ∧ SelfMatched new) :
    ∀ (l : List E) (st st' : OState), l.foldlM f st = .ok st' → ∃ new, st'.order = st.order ++ new ∧ SelfMatched new := by
  intro l
  induction l with
  | nil =>
    intro st st' h
    simp only [List.foldlM_nil, pure, Except.pure, Except.ok.injEq] at h
    subst h
    exact ⟨[], by simp, fun _ => rfl⟩
  | cons o rest ih =>
    intro st st' h
    simp only [List.foldlM_cons, bind, Except.bind] at h
    cases h1 : f st o with
    | error err => simp [h1] at h
    | ok s1 =>
      simp only [h1] at h
      obtain ⟨n1, e1, m1⟩ := hf st o s1 h1
      obtain ⟨n2, e2, m2⟩ := ih s1 st' h
      exact ⟨n1 ++ n2, by rw [e2, e1, List.append_assoc], m1.append m2⟩

theorem visit_order (g : Graph) : ∀ (fuel : Nat) (x : E) (st st' : OState), visit g fuel x st = .ok st' →
    ∃ new, st'.order = st.order ++ new ∧ SelfMatched new := by
  intro fuel
  induction fuel with
  | zero => intro x st st' h; simp [visit] at h
  | succ fuel ih =>
    intro x st st' h
    have hfold := visit_foldlM_order (fun st o => visit g fuel o st) (fun st o st' h => ih o st st' h)
    unfold visit at h
    split at h
    · simp only [Except.ok.injEq] at h; subst h; exact ⟨[], by simp, fun _ => rfl⟩
    · split at h
      · -- tracer
        split at h
        · simp at h
        · rename_i i a _
          simp only [bind, Except.bind] at h
          cases h1 : List.foldlM (fun st o => visit g fuel o st) st a.genOperands with
          | error err => simp [h1] at h
          | ok s1 =>
            simp only [h1, pure, Except.pure, Except.ok.injEq] at h
            subst h
            obtain ⟨n1, e1, m1⟩ := hfold _ _ _ h1
            refine ⟨n1 ++ [.app i], by simp [e1], m1.append (fun _ => rfl)⟩
      · simp only [Except.ok.injEq] at h; subst h; exact ⟨[], by simp, fun _ => rfl⟩
      · exact hfold _ _ _ h
      · exact hfold _ _ _ h
      · exact hfold _ _ _ h
      · -- nested graph
        split at h
        · simp at h
        · rename_i i _ _ sg _
          simp only [bind, Except.bind] at h
          cases h1 : visit g fuel sg.output
              { registered := st.registered ++ [E.gref i] ++ List.map E.var sg.inputs, order := st.order ++ [Visit.enter i] } with
          | error err => rw [h1] at h; simp at h
          | ok s1 =>
            rw [h1] at h
            simp only [pure, Except.pure, Except.ok.injEq] at h
            subst h
            obtain ⟨n1, e1, m1⟩ := ih _ _ _ h1
            refine ⟨.enter i :: (n1 ++ [.exit i]), by simp [e1], ?_⟩
            intro en
            show matched (n1 ++ [.exit i]) (i :: en) = true
            apply matched_append _ _ _ (m1 _)
            simp [matched]
      · simp at h

theorem visitOrder_matched (g : Graph) (order : List Visit) (h : visitOrder g = .ok order) : matched order [] = true := by
  simp only [visitOrder, bind, Except.bind] at h
  cases h1 : visit g g.fuel g.top {} with
  | error err => simp [h1] at h
  | ok s1 =>
    simp only [h1, pure, Except.pure, Except.ok.injEq] at h
    subst h
    obtain ⟨new, e1, m1⟩ := visit_order g _ _ _ _ h1
    rw [e1]
    simpa using m1 []

end Einx.Compile
