import EinxModel.Generic.Stb
/-! Helper lemmas for `stb_size_generic` (C17): every decision of the model of
`_squeeze_transpose_broadcast` is a function of the axis names and of the `length == 1` pattern. -/
namespace Einx.Generic
open Einx.IR

/-! ### list lemmas -/

theorem beq_false_of_length_ne (a b : List Nat) (h : a.length ≠ b.length) : (a == b) = false := by
  simp; intro h2; exact h (by rw [h2])

theorem eq_of_beq_list {a b : List Nat} (h : (a == b) = true) : a = b := by simpa using h

/-- Comparing a mapped list with the mapped filtered list is the test "nothing was filtered out". -/
theorem map_beq_map_filter {α : Type} (f : α → Nat) (p : α → Bool) (l : List α) :
    (l.map f == (l.filter p).map f) = l.all p := by
  by_cases h : l.all p = true
  · have : l.filter p = l := List.filter_eq_self.mpr (List.all_eq_true.mp h)
    simp [this, h]
  · have hex : ∃ x, x ∈ l ∧ ¬p x = true := by
      apply Classical.byContradiction
      intro hne
      apply h
      apply List.all_eq_true.mpr
      intro x hx
      apply Classical.byContradiction
      intro hpx
      exact hne ⟨x, hx, hpx⟩
    have hlt := List.length_filter_lt_length_iff_exists.mpr hex
    have : (l.map f == (l.filter p).map f) = false :=
      beq_false_of_length_ne _ _ (by simp; omega)
    simp only [Bool.not_eq_true] at h
    rw [this, h]

/-- Comparing two maps of the same list is a pointwise test. -/
theorem map_beq_map {α : Type} (f g : α → Nat) : ∀ l : List α,
    (l.map f == l.map g) = l.all (fun a => f a == g a)
  | [] => by simp
  | a :: l => by
    have ih := map_beq_map f g l
    simp only [List.map_cons, List.all_cons]
    rw [← ih]
    by_cases h : f a = g a
    · simp [h]
    · simp [h]

theorem length_le_of_nodup_subset {α : Type} [DecidableEq α] : ∀ (l m : List α),
    l.Nodup → (∀ x ∈ l, x ∈ m) → l.length ≤ m.length
  | [], _, _, _ => by simp
  | a :: t, m, hn, hs => by
    have ⟨hat, hnt⟩ := List.nodup_cons.mp hn
    have ham : a ∈ m := hs a (by simp)
    have hsub : ∀ x ∈ t, x ∈ m.erase a := by
      intro x hx
      have hne : x ≠ a := fun h => hat (h ▸ hx)
      exact (List.mem_erase_of_ne hne).mpr (hs x (by simp [hx]))
    have ih := length_le_of_nodup_subset t (m.erase a) hnt hsub
    rw [List.length_erase_of_mem ham] at ih
    have : 0 < m.length := List.length_pos_of_mem ham
    simp only [List.length_cons]
    omega

/-! ### axis ids -/

theorem idsAux_fst : ∀ (ns seen : List String), (idsAux seen ns).map Prod.fst = ns
  | [], _ => rfl
  | n :: ns, seen => by simp [idsAux, idsAux_fst ns]

theorem idsAux_length (ns seen : List String) : (idsAux seen ns).length = ns.length := by
  have := congrArg List.length (idsAux_fst ns seen)
  simpa using this

theorem idsAux_count_ge : ∀ (ns seen : List String) (m : String) (c : Nat),
    (m, c) ∈ idsAux seen ns → seen.count m ≤ c
  | [], _, _, _, h => by simp [idsAux] at h
  | n :: ns, seen, m, c, h => by
    simp only [idsAux, List.mem_cons] at h
    rcases h with h | h
    · simp only [Prod.mk.injEq] at h
      obtain ⟨rfl, rfl⟩ := h
      exact Nat.le_refl _
    · have := idsAux_count_ge ns (n :: seen) m c h
      rw [List.count_cons] at this
      omega

theorem idsAux_nodup : ∀ (ns seen : List String), (idsAux seen ns).Nodup
  | [], _ => by simp [idsAux]
  | n :: ns, seen => by
    simp only [idsAux, List.nodup_cons]
    refine ⟨?_, idsAux_nodup ns (n :: seen)⟩
    intro h
    have := idsAux_count_ge ns (n :: seen) n _ h
    rw [List.count_cons] at this
    simp at this
    omega

theorem idsOf_nodup (ns : List String) : (idsOf ns).Nodup := idsAux_nodup ns []
theorem idsOf_fst (ns : List String) : (idsOf ns).map Prod.fst = ns := idsAux_fst ns []
theorem idsOf_length (ns : List String) : (idsOf ns).length = ns.length := idsAux_length ns []

theorem mem_names_of_mem_idsOf {ns : List String} {x : String × Nat} (h : x ∈ idsOf ns) : x.1 ∈ ns := by
  have : x.1 ∈ (idsOf ns).map Prod.fst := List.mem_map.mpr ⟨x, h, rfl⟩
  rwa [idsOf_fst] at this

theorem exists_id_of_mem_names {ns : List String} {n : String} (h : n ∈ ns) : ∃ c, (n, c) ∈ idsOf ns := by
  rw [← idsOf_fst ns] at h
  obtain ⟨x, hx, rfl⟩ := List.mem_map.mp h
  exact ⟨x.2, hx⟩

/-! ### similarity of two length assignments: same names, same 1-pattern -/

inductive Sim : List Ax → List Ax → Prop
  | nil : Sim [] []
  | cons {a b : Ax} {l l' : List Ax} : a.name = b.name → (a.len == 1) = (b.len == 1) → Sim l l' → Sim (a :: l) (b :: l')

theorem sim_of_maps : ∀ (l l' : List Ax), names l = names l' →
    l.map (fun a => a.len == 1) = l'.map (fun a => a.len == 1) → Sim l l'
  | [], [], _, _ => .nil
  | [], _ :: _, h, _ => by simp [names] at h
  | _ :: _, [], h, _ => by simp [names] at h
  | a :: l, b :: l', hn, hp => by
    simp only [names, List.map_cons, List.cons.injEq] at hn hp
    exact .cons hn.1 hp.1 (sim_of_maps l l' hn.2 hp.2)

theorem Sim.names_eq {l l' : List Ax} (h : Sim l l') : names l = names l' := by
  induction h with
  | nil => rfl
  | cons hn _ _ ih => simp only [names, List.map_cons] at *; rw [hn, ih]

theorem Sim.length_eq {l l' : List Ax} (h : Sim l l') : l.length = l'.length := by
  induction h with
  | nil => rfl
  | cons _ _ _ ih => simp [ih]

theorem Sim.holes_eq {l l' : List Ax} (h : Sim l l') : holes (lens l) = holes (lens l') := by
  induction h with
  | nil => rfl
  | cons _ _ _ ih => simp only [holes, lens, List.map_cons, List.map_map] at *; rw [ih]

theorem Sim.filter {l l' : List Ax} (p p' : Ax → Bool)
    (hp : ∀ a b : Ax, a.name = b.name → (a.len == 1) = (b.len == 1) → p a = p' b) (h : Sim l l') :
    Sim (l.filter p) (l'.filter p') := by
  induction h with
  | nil => exact .nil
  | cons hn ho _ ih =>
    rename_i a b _ _ _
    simp only [List.filter_cons, hp a b hn ho]
    split
    · exact .cons hn ho ih
    · exact ih

theorem Sim.all_eq {l l' : List Ax} (p p' : Ax → Bool)
    (hp : ∀ a b : Ax, a.name = b.name → (a.len == 1) = (b.len == 1) → p a = p' b) (h : Sim l l') :
    l.all p = l'.all p' := by
  induction h with
  | nil => rfl
  | cons hn ho _ ih =>
    rename_i a b _ _ _
    simp only [List.all_cons, hp a b hn ho, ih]

theorem Sim.map_eq {β : Type} {l l' : List Ax} (f f' : Ax → β)
    (hf : ∀ a b : Ax, a.name = b.name → (a.len == 1) = (b.len == 1) → f a = f' b) (h : Sim l l') :
    l.map f = l'.map f' := by
  induction h with
  | nil => rfl
  | cons hn ho _ ih =>
    rename_i a b _ _ _
    simp only [List.map_cons, hf a b hn ho, ih]

/-! ### states that differ only in shapes -/

structure Rel (s s' : St) : Prop where
  reg : s.reg = s'.reg
  next : s.next = s'.next
  prog : progSkeleton s.prog = progSkeleton s'.prog

theorem Rel.emit {s s' : St} (h : Rel s s') (i i' : Instr) (hi : instrSkeleton i = instrSkeleton i')
    (sh sh' : List Nat) : Rel (s.emit i sh) (s'.emit i' sh') := by
  refine ⟨?_, ?_, ?_⟩
  · simp [St.emit, h.next]
  · simp [St.emit, h.next]
  · simp only [St.emit, progSkeleton, List.map_append, List.map_cons, List.map_nil]
    have := h.prog
    simp only [progSkeleton] at this
    rw [this, hi]

theorem holes_eq_of_length {a b : List Nat} (h : a.length = b.length) : holes a = holes b := by
  induction a generalizing b with
  | nil => cases b <;> simp_all [holes]
  | cons x a ih =>
    cases b with
    | nil => simp at h
    | cons y b => simp only [holes, List.map_cons] at *; rw [ih (by simpa using h)]

theorem reshapeW_shape (s : St) (t : List Nat) : (reshapeW s t).shape = t := by
  unfold reshapeW
  split
  · rename_i h; exact eq_of_beq_list h
  · rfl

theorem broadcastW_shape (s : St) (t : List Nat) : (broadcastW s t).shape = t := by
  unfold broadcastW
  split
  · rename_i h; exact eq_of_beq_list h
  · rfl

theorem reshapeW_rel {s s' : St} (h : Rel s s') (t t' : List Nat)
    (hd : (s.shape == t) = (s'.shape == t')) (hl : t.length = t'.length) :
    Rel (reshapeW s t) (reshapeW s' t') := by
  unfold reshapeW
  rw [hd]
  split
  · exact h
  · exact h.emit _ _ (by simp [instrSkeleton, h.reg, holes_eq_of_length hl]) _ _

theorem broadcastW_rel {s s' : St} (h : Rel s s') (t t' : List Nat)
    (hd : (s.shape == t) = (s'.shape == t')) (hl : t.length = t'.length) :
    Rel (broadcastW s t) (broadcastW s' t') := by
  unfold broadcastW
  rw [hd]
  split
  · exact h
  · exact h.emit _ _ (by simp [instrSkeleton, h.reg, holes_eq_of_length hl]) _ _

theorem transposeW_rel {s s' : St} (h : Rel s s') (perm : List Nat) :
    Rel (transposeW s perm) (transposeW s' perm) := by
  unfold transposeW
  split
  · exact h
  · exact h.emit _ _ (by simp [instrSkeleton, h.reg]) _ _

/-- The rank of the tensor after the (possibly skipped) transposition. -/
theorem transposeW_rank (s : St) (perm : List Nat) (h : s.shape.length = perm.length) :
    (transposeW s perm).shape.length = perm.length := by
  unfold transposeW
  split
  · exact h
  · simp [St.emit]

/-! ### the three parts of `_squeeze_transpose_broadcast` -/

theorem squeezeAxes_eq {ein ein' eout eout' : List Ax} (hi : Sim ein ein') (ho : Sim eout eout') :
    (names (ein.filter (fun a => a.len == 1))).filter (fun n => !(names eout).contains n)
      = (names (ein'.filter (fun a => a.len == 1))).filter (fun n => !(names eout').contains n) := by
  rw [ho.names_eq]
  have : Sim (ein.filter (fun a => a.len == 1)) (ein'.filter (fun a => a.len == 1)) :=
    hi.filter _ _ (fun a b _ h1 => h1)
  rw [this.names_eq]

theorem squeezeStep_generic {s s' : St} {ein ein' eout eout' : List Ax} (hs : Rel s s')
    (hsh : s.shape = lens ein) (hsh' : s'.shape = lens ein') (hi : Sim ein ein') (ho : Sim eout eout') :
    Sim (squeezeStep s ein eout).1 (squeezeStep s' ein' eout').1 ∧
    Rel (squeezeStep s ein eout).2 (squeezeStep s' ein' eout').2 ∧
    (squeezeStep s ein eout).2.shape = lens (squeezeStep s ein eout).1 ∧
    (squeezeStep s' ein' eout').2.shape = lens (squeezeStep s' ein' eout').1 := by
  unfold squeezeStep
  simp only []
  rw [squeezeAxes_eq hi ho]
  generalize (names (ein'.filter (fun a => a.len == 1))).filter (fun n => !(names eout').contains n) = sq
  split
  · -- some axis is squeezed
    have hsim : Sim (ein.filter (fun a => !sq.contains a.name)) (ein'.filter (fun a => !sq.contains a.name)) :=
      hi.filter _ _ (fun a b hn _ => by rw [hn])
    refine ⟨hsim, ?_, reshapeW_shape _ _, reshapeW_shape _ _⟩
    apply reshapeW_rel hs
    · rw [hsh, hsh']
      simp only [lens]
      rw [map_beq_map_filter, map_beq_map_filter]
      exact hi.all_eq _ _ (fun a b hn _ => by rw [hn])
    · simp only [lens, List.length_map]; exact hsim.length_eq
  · exact ⟨hi, hs, hsh, hsh'⟩

theorem transposeStep_generic {s s' : St} {ein ein' eout eout' : List Ax} (hs : Rel s s')
    (hi : Sim ein ein') (ho : Sim eout eout') :
    match transposeStep s ein eout, transposeStep s' ein' eout' with
    | .ok r, .ok r' => Rel r r'
    | .error e, .error e' => e = e'
    | _, _ => False := by
  unfold transposeStep
  simp only []
  rw [hi.names_eq, ho.names_eq]
  by_cases hset : setEq ((idsOf (names eout')).filter (fun o => (idsOf (names ein')).contains o)) (idsOf (names ein')) = true
  · simp only [hset, if_true]
    exact transposeW_rel hs _
  · simp only [hset]
    simp

/-- When the permutation is defined, the transposed tensor has fewer axes than the output expression
as soon as the output names an axis that the input does not have. -/
theorem transposeStep_rank {s r : St} {ein eout : List Ax} (hsh : s.shape = lens ein)
    (h : transposeStep s ein eout = .ok r)
    (hbc : ((names eout).filter (fun n => !(names ein).contains n)).length > 0) :
    r.shape.length < eout.length := by
  unfold transposeStep at h
  simp only [] at h
  by_cases hset : setEq ((idsOf (names eout)).filter (fun o => (idsOf (names ein)).contains o)) (idsOf (names ein)) = true
  · simp only [hset, if_true, Except.ok.injEq] at h
    subst h
    have hsub : ∀ x ∈ idsOf (names ein), x ∈ (idsOf (names eout)).filter (fun o => (idsOf (names ein)).contains o) := by
      unfold setEq at hset
      have := (Bool.and_eq_true _ _).mp hset
      have h2 := List.all_eq_true.mp this.2
      intro x hx
      exact List.contains_iff_mem.mp (h2 x hx)
    have hle := length_le_of_nodup_subset _ _ (idsOf_nodup (names ein)) hsub
    -- an output axis that is dropped by the intersection
    obtain ⟨n, hn⟩ := List.exists_mem_of_length_pos hbc
    have hn' := List.mem_filter.mp hn
    have hnin : n ∉ names ein := by
      intro hmem
      have := hn'.2
      simp at this
      exact this hmem
    obtain ⟨c, hc⟩ := exists_id_of_mem_names hn'.1
    have hnot : ¬ ((idsOf (names ein)).contains (n, c) = true) := by
      intro hcon
      exact hnin (mem_names_of_mem_idsOf (List.contains_iff_mem.mp hcon))
    have hlt : ((idsOf (names eout)).filter (fun o => (idsOf (names ein)).contains o)).length < (idsOf (names eout)).length :=
      List.length_filter_lt_length_iff_exists.mpr ⟨(n, c), hc, hnot⟩
    rw [idsOf_length] at hlt hle
    have hne : (names eout).length = eout.length := by simp [names]
    have hni : (names ein).length = ein.length := by simp [names]
    generalize ((idsOf (names eout)).filter (fun o => (idsOf (names ein)).contains o)) = inter at *
    unfold transposeW
    split
    · rw [hsh]; simp only [lens, List.length_map]; omega
    · simp only [St.emit, List.length_map]; omega
  · rw [if_neg hset] at h
    cases h

theorem one_beq_comm (n : Nat) : ((1 : Nat) == n) = (n == 1) := by
  by_cases h : n = 1
  · subst h; rfl
  · have h1 : (n == 1) = false := by simpa using h
    have h2 : ((1 : Nat) == n) = false := by simpa using (fun e : 1 = n => h e.symm)
    rw [h1, h2]

theorem broadcastStep_generic {s s' : St} {ein ein' eout eout' : List Ax} (hs : Rel s s')
    (hr : ((names eout).filter (fun n => !(names ein).contains n)).length > 0 → s.shape.length < eout.length)
    (hr' : ((names eout').filter (fun n => !(names ein').contains n)).length > 0 → s'.shape.length < eout'.length)
    (hi : Sim ein ein') (ho : Sim eout eout') :
    Rel (broadcastStep s ein eout) (broadcastStep s' ein' eout') := by
  unfold broadcastStep
  simp only []
  have hbc : (names eout).filter (fun n => !(names ein).contains n) = (names eout').filter (fun n => !(names ein').contains n) := by
    rw [hi.names_eq, ho.names_eq]
  rw [hbc] at hr ⊢
  generalize (names eout').filter (fun n => !(names ein').contains n) = bc at *
  split
  · rename_i hpos
    have h1 := hr hpos
    have h2 := hr' hpos
    apply broadcastW_rel
    · apply reshapeW_rel hs
      · rw [beq_false_of_length_ne _ _ (by simp; omega), beq_false_of_length_ne _ _ (by simp; omega)]
      · simp; exact ho.length_eq
    · rw [reshapeW_shape, reshapeW_shape]
      simp only [lens]
      rw [map_beq_map, map_beq_map]
      exact ho.all_eq _ _ (fun a b hn hone => by
        rw [hn]
        have e1 : ((1 : Nat) == a.len) = (a.len == 1) := one_beq_comm a.len
        have e2 : ((1 : Nat) == b.len) = (b.len == 1) := one_beq_comm b.len
        by_cases hb : bc.contains b.name = true
        · simp only [hb, if_true]
          rw [e1, e2, hone]
        · simp only [hb]
          simp)
    · simp only [lens, List.length_map]; exact ho.length_eq
  · exact hs

/-- `_squeeze_transpose_broadcast` on two length assignments with the same names and the same
1-pattern: same outcome kind, and the resulting states differ only in shapes. -/
theorem stb_generic {s s' : St} {ein ein' eout eout' : List Ax} (hs : Rel s s')
    (hsh : s.shape = lens ein) (hsh' : s'.shape = lens ein') (hi : Sim ein ein') (ho : Sim eout eout') :
    match stb s ein eout, stb s' ein' eout' with
    | .ok r, .ok r' => Rel r r'
    | .error e, .error e' => e = e'
    | _, _ => False := by
  obtain ⟨hsim1, hrel1, hs1, hs1'⟩ := squeezeStep_generic hs hsh hsh' hi ho
  have h2 := transposeStep_generic hrel1 hsim1 ho
  unfold stb
  generalize squeezeStep s ein eout = p1 at *
  generalize squeezeStep s' ein' eout' = p1' at *
  obtain ⟨e1, s1⟩ := p1
  obtain ⟨e1', s1'⟩ := p1'
  simp only [] at *
  cases ht : transposeStep s1 e1 eout with
  | error e =>
    cases ht' : transposeStep s1' e1' eout' with
    | error e' => simp only [ht, ht'] at h2; simp [bind, Except.bind, h2]
    | ok r' => simp [ht, ht'] at h2
  | ok r =>
    cases ht' : transposeStep s1' e1' eout' with
    | error e' => simp [ht, ht'] at h2
    | ok r' =>
      simp only [ht, ht'] at h2
      simp only [bind, Except.bind, pure, Except.pure]
      exact broadcastStep_generic h2 (transposeStep_rank hs1 ht) (transposeStep_rank hs1' ht') hsim1 ho

end Einx.Generic
