import EinxModel.Proofs.ExecView
import EinxModel.Proofs.ExecReach
/-! Helper lemmas for `Props/C13Exec.lean`: the generator's memoised depth-first traversal (`Compile.visit`) of a
supported, well-formed graph visits exactly the applications that the C13 backward pass calls reachable. -/
namespace Einx.Exec
open Einx.Compile Einx.Factory

/-- A tracer some evaluated node needs: the output mentions it, or a reachable application consumes it. -/
def Wanted (fg : Factory.Graph) (r : Nat) : Prop :=
  r ∈ fg.output.refs ∨ ∃ j b, Reach fg j ∧ fg.apps[j]? = some b ∧ r ∈ refsL b.node.operands

/-- What is known about the traversal state. -/
structure VI (cg : Compile.Graph) (fg : Factory.Graph) (ins : List Nat) (st : OState) : Prop where
  sound : ∀ i, Visit.app i ∈ st.order → Reach fg i
  prod : ∀ r, E.var r ∈ st.registered →
    r ∈ ins ∨ ∃ i a, Visit.app i ∈ st.order ∧ cg.apps[i]? = some a ∧ r ∈ (toV a.out).refs
  ops : ∀ i a, Visit.app i ∈ st.order → cg.apps[i]? = some a →
    ∀ o ∈ a.genOperands, ∀ r ∈ (toV o).refs, E.var r ∈ st.registered
  keys : ∀ k ∈ st.registered, (∃ n, k = E.gref n) ∨
    ∃ o, isVarTree o = true ∧ keyOf o = some k ∧ ∀ r ∈ (toV o).refs, E.var r ∈ st.registered

/-- Result of one `visit`. -/
structure VS (cg : Compile.Graph) (fg : Factory.Graph) (ins : List Nat) (l : List E) (st st' : OState) : Prop where
  inv : VI cg fg ins st'
  reg : ∀ k ∈ st.registered, k ∈ st'.registered
  ord : ∀ v ∈ st.order, v ∈ st'.order
  ent : ∀ k, Visit.enter k ∈ st'.order → Visit.enter k ∈ st.order
  post : ∀ o ∈ l, ∀ r ∈ (toV o).refs, E.var r ∈ st'.registered

/-- Static facts shared by all steps. -/
structure Setup (cg : Compile.Graph) (fg : Factory.Graph) : Prop where
  wf : cg.WF = true
  noNested : ∀ a ∈ cg.apps, ∀ o ∈ a.genOperands, o.grefsOf = []
  varOuts : ∀ a ∈ cg.apps, isVarTree a.out = true
  apps : fg.apps = cg.apps.map toGApp

theorem Setup.app {cg : Compile.Graph} {fg : Factory.Graph} (S : Setup cg fg) (i : Nat) (a : App)
    (ha : cg.apps[i]? = some a) : fg.apps[i]? = some (toGApp a) := by
  rw [S.apps, List.getElem?_map, ha]; rfl

theorem Setup.app_inv {cg : Compile.Graph} {fg : Factory.Graph} (S : Setup cg fg) (i : Nat) (b : GApp)
    (hb : fg.apps[i]? = some b) : ∃ a, cg.apps[i]? = some a ∧ b = toGApp a := by
  rw [S.apps, List.getElem?_map] at hb
  cases ha : cg.apps[i]? with
  | none => simp [ha] at hb
  | some a => exact ⟨a, rfl, by simpa [ha] using hb.symm⟩

theorem visit_fold_vs (cg : Compile.Graph) (fg : Factory.Graph) (ins : List Nat)
    (f : OState → E → Except String OState)
    (hf : ∀ st o st', f st o = .ok st' → VI cg fg ins st → o.grefsOf = [] → (∀ r ∈ (toV o).refs, Wanted fg r) →
      VS cg fg ins [o] st st') :
    ∀ (l : List E) (st st' : OState), l.foldlM f st = .ok st' → VI cg fg ins st →
      (∀ o ∈ l, o.grefsOf = [] ∧ ∀ r ∈ (toV o).refs, Wanted fg r) → VS cg fg ins l st st' := by
  intro l
  induction l with
  | nil =>
    intro st st' h hinv _
    simp only [List.foldlM_nil, pure, Except.pure, Except.ok.injEq] at h
    subst h
    exact ⟨hinv, fun _ hk => hk, fun _ hv => hv, fun _ hk => hk, by simp⟩
  | cons o rest ih =>
    intro st st' h hinv hl
    simp only [List.foldlM_cons, bind, Except.bind] at h
    cases h1 : f st o with
    | error err => simp [h1] at h
    | ok s1 =>
      simp only [h1] at h
      have ho := hl o (by simp)
      have r1 := hf st o s1 h1 hinv ho.1 ho.2
      have r2 := ih s1 st' h r1.inv (fun o' ho' => hl o' (List.mem_cons_of_mem _ ho'))
      refine ⟨r2.inv, fun k hk => r2.reg k (r1.reg k hk), fun v hv => r2.ord v (r1.ord v hv),
        fun k hk => r1.ent k (r2.ent k hk), ?_⟩
      intro o' ho' r hr
      rcases List.mem_cons.1 ho' with rfl | ho'
      · exact r2.reg _ (r1.post o' (by simp) r hr)
      · exact r2.post o' ho' r hr

theorem grefsOf_elem (a o : E) (ho : o ∈ a.toList) (tag : Tag) (h : (E.node tag a).grefsOf = []) : o.grefsOf = [] := by
  have h2 := (mem_toList_vars a o ho).2
  apply List.eq_nil_iff_forall_not_mem.2
  intro k hk
  have := h2 k hk
  simp only [E.grefsOf] at h
  rw [h] at this
  simp at this

theorem visit_vs (cg : Compile.Graph) (fg : Factory.Graph) (ins : List Nat) (S : Setup cg fg) :
    ∀ (fuel : Nat) (x : E) (st st' : OState), visit cg fuel x st = .ok st' → VI cg fg ins st → x.grefsOf = [] →
      (∀ r ∈ (toV x).refs, Wanted fg r) → VS cg fg ins [x] st st' := by
  intro fuel
  induction fuel with
  | zero => intro x st st' h; simp [visit] at h
  | succ fuel ih =>
    intro x st st' h hinv hng hw
    have hfold := visit_fold_vs cg fg ins (fun st o => visit cg fuel o st) (fun st o st' h hi => ih o st st' h hi)
    -- containers: fold over the elements
    have hcont : ∀ (tag : Tag) (a : E), x = .node tag a →
        (∀ r, r ∈ (toV (.node tag a)).refs ↔ ∃ o ∈ a.toList, r ∈ (toV o).refs) →
        List.foldlM (fun st o => visit cg fuel o st) st a.toList = .ok st' → VS cg fg ins [x] st st' := by
      intro tag a hx hrefs hf
      subst hx
      have r := hfold a.toList st st' hf hinv (fun o ho =>
        ⟨grefsOf_elem a o ho tag hng, fun r hr => hw r ((hrefs r).2 ⟨o, ho, hr⟩)⟩)
      refine ⟨r.inv, r.reg, r.ord, r.ent, ?_⟩
      intro o' ho' r' hr'
      simp only [List.mem_singleton] at ho'
      subst ho'
      obtain ⟨o, ho, hro⟩ := (hrefs r').1 hr'
      exact r.post o ho r' hro
    unfold visit at h
    split at h
    · -- memoised
      rename_i hreg
      simp only [Except.ok.injEq] at h
      subst h
      refine ⟨hinv, fun _ hk => hk, fun _ hv => hv, fun _ hk => hk, ?_⟩
      intro o ho r hr
      simp only [List.mem_singleton] at ho
      subst ho
      simp only [isRegistered] at hreg
      cases hk : keyOf o with
      | none => simp [hk] at hreg
      | some k =>
        simp only [hk, List.contains_eq_mem, decide_eq_true_eq] at hreg
        rcases hinv.keys k hreg with ⟨n, rfl⟩ | ⟨o', hv, hko, hall⟩
        · -- a graph key: `o` is that graph, which mentions no tracer
          cases o with
          | gref g => simp [refs_gref] at hr
          | var t => simp [keyOf] at hk
          | node tag a => cases tag <;> simp [keyOf] at hk
          | _ => simp [keyOf] at hk
        · have := varTree_key_refs o' o hv (by rw [hk, hko])
          rw [this] at hr
          exact hall r hr
    · rename_i hreg
      split at h
      · -- tracer
        rename_i t
        split at h
        · simp at h
        · rename_i i a horig
          simp only [bind, Except.bind] at h
          cases h1 : List.foldlM (fun st o => visit cg fuel o st) st a.genOperands with
          | error err => simp [h1] at h
          | ok s1 =>
            simp only [h1, pure, Except.pure, Except.ok.injEq] at h
            subst h
            have happ := originOf_app cg t i a horig
            have hmem : a ∈ cg.apps := List.mem_of_getElem? happ
            have hfa := S.app i a happ
            have hvt := S.varOuts a hmem
            have htout : t ∈ (toV a.out).refs := (varTree_regKeys_iff a.out hvt t).1 (WF.origin S.wf t i a horig)
            have hreach : Reach fg i := by
              rcases hw t (by simp [refs_var]) with ho | ⟨j, b, hj, hb, hrb⟩
              · exact Reach.out i (toGApp a) t hfa htout ho
              · exact Reach.step j b i (toGApp a) t hj hb hrb hfa htout
            have r1 := hfold a.genOperands st s1 h1 hinv (fun o ho =>
              ⟨S.noNested a hmem o ho, fun r hr => Or.inr ⟨i, toGApp a, hreach, hfa, (operand_refs a r).2 ⟨o, ho, hr⟩⟩⟩)
            refine ⟨⟨?_, ?_, ?_, ?_⟩, ?_, ?_, ?_, ?_⟩
            · intro i' hi'
              simp only [List.mem_append, List.mem_singleton, Visit.app.injEq] at hi'
              rcases hi' with hi' | rfl
              · exact r1.inv.sound i' hi'
              · exact hreach
            · intro r hr
              simp only [List.mem_append] at hr
              rcases hr with hr | hr
              · rcases r1.inv.prod r hr with h' | ⟨i', a', h1', h2', h3'⟩
                · exact Or.inl h'
                · exact Or.inr ⟨i', a', List.mem_append_left _ h1', h2', h3'⟩
              · exact Or.inr ⟨i, a, by simp, happ, (varTree_regKeys_iff a.out hvt r).1 hr⟩
            · intro i' a' hi' ha' o ho r hr
              simp only [List.mem_append, List.mem_singleton, Visit.app.injEq] at hi'
              rcases hi' with hi' | rfl
              · exact List.mem_append_left _ (r1.inv.ops i' a' hi' ha' o ho r hr)
              · rw [happ] at ha'
                cases ha'
                exact List.mem_append_left _ (r1.post o ho r hr)
            · intro k hk
              simp only [List.mem_append] at hk
              rcases hk with hk | hk
              · rcases r1.inv.keys k hk with h' | ⟨o', a1, a2, a3⟩
                · exact Or.inl h'
                · exact Or.inr ⟨o', a1, a2, fun r hr => List.mem_append_left _ (a3 r hr)⟩
              · obtain ⟨o', a1, a2, a3⟩ := varTree_regKeys_sub a.out hvt k hk
                exact Or.inr ⟨o', a1, a2, fun r hr => List.mem_append_right _ (a3 r hr)⟩
            · intro k hk
              exact List.mem_append_left _ (r1.reg k hk)
            · intro v hv
              exact List.mem_append_left _ (r1.ord v hv)
            · intro k hk
              simp only [List.mem_append, List.mem_singleton, reduceCtorEq, or_false] at hk
              exact r1.ent k hk
            · intro o ho r hr
              simp only [List.mem_singleton] at ho
              subst ho
              simp only [refs_var, List.mem_singleton] at hr
              subst hr
              exact List.mem_append_right _ (WF.origin S.wf r i a horig)
      · -- literal
        simp only [Except.ok.injEq] at h
        subst h
        refine ⟨hinv, fun _ hk => hk, fun _ hv => hv, fun _ hk => hk, ?_⟩
        intro o ho r hr
        simp only [List.mem_singleton] at ho
        subst ho
        simp [refs_lit] at hr
      · rename_i a
        exact hcont .tuple a rfl (mem_refs_tuple a) h
      · rename_i a
        exact hcont .list a rfl (mem_refs_list a) h
      · rename_i a
        exact hcont .dict a rfl (mem_refs_dict a) h
      · -- nested graph: excluded
        simp [E.grefsOf] at hng
      · simp at h

theorem mem_appsOf (order : List Visit) (i : Nat) : i ∈ appsOf order ↔ Visit.app i ∈ order := by
  induction order with
  | nil => simp [appsOf]
  | cons v rest ih => cases v <;> simp [appsOf, ih]

theorem appsOf_nodup (order : List Visit) (h : order.Nodup) : (appsOf order).Nodup := by
  induction order with
  | nil => simp [appsOf]
  | cons v rest ih =>
    have h' := List.nodup_cons.1 h
    cases v with
    | app i =>
      simp only [appsOf, List.nodup_cons]
      exact ⟨fun hin => h'.1 ((mem_appsOf rest i).1 hin), ih h'.2⟩
    | enter g => simpa [appsOf] using ih h'.2
    | exit g => simpa [appsOf] using ih h'.2

theorem supported_setup (cg : Compile.Graph) (aux : List TAux) (fg : Factory.Graph) (hwf : cg.WF = true)
    (hsup : Supported cg = true) (hfg : toFactory cg aux = some fg) :
    Setup cg fg ∧ ∃ k sg, cg.top = .gref k ∧ cg.graphs[k]? = some sg ∧ fg.inputs = sg.inputs ∧ fg.output = toV sg.output := by
  simp only [Supported, Bool.and_eq_true, List.all_eq_true, List.isEmpty_iff] at hsup
  unfold toFactory at hfg
  split at hfg
  · rename_i k htop
    split at hfg
    · rename_i sg hsg
      simp only [Option.some.injEq] at hfg
      subst hfg
      exact ⟨⟨hwf, fun a ha o ho => hsup.1.2 a ha o ho, fun a ha => hsup.2 a ha, rfl⟩, k, sg, htop, hsg, rfl, rfl⟩
    · cases hfg
  · cases hfg

/-- **The traversal visits exactly the reachable applications.** -/
theorem visitOrder_reach (cg : Compile.Graph) (aux : List TAux) (fg : Factory.Graph) (hwf : cg.WF = true)
    (hsup : Supported cg = true) (hfg : toFactory cg aux = some fg) (hfwf : Factory.wf fg = true)
    (order : List Visit) (ho : visitOrder cg = .ok order) (i : Nat) :
    Visit.app i ∈ order ↔ Reach fg i := by
  obtain ⟨S, k, sg, htop, hsg, hins, hout⟩ := supported_setup cg aux fg hwf hsup hfg
  simp only [visitOrder, bind, Except.bind] at ho
  cases h1 : visit cg cg.fuel cg.top {} with
  | error err => simp [h1] at ho
  | ok sfin =>
    simp only [h1, pure, Except.pure, Except.ok.injEq] at ho
    subst ho
    have hfuel : cg.fuel = (4 * (cg.apps.length + cg.graphs.length) + 63) + 1 := rfl
    rw [hfuel, htop] at h1
    unfold visit at h1
    simp only [isRegistered, keyOf, List.contains_eq_mem, List.not_mem_nil, decide_false, Bool.false_eq_true, if_false, hsg,
      bind, Except.bind] at h1
    cases h2 : visit cg (4 * (cg.apps.length + cg.graphs.length) + 63) sg.output
        { registered := ([] : List E) ++ [E.gref k] ++ List.map E.var sg.inputs, order := ([] : List Visit) ++ [Visit.enter k] } with
    | error err => rw [h2] at h1; simp at h1
    | ok s1 =>
      rw [h2] at h1
      simp only [pure, Except.pure, Except.ok.injEq] at h1
      subst h1
      have hinv0 : VI cg fg sg.inputs
          { registered := ([] : List E) ++ [E.gref k] ++ List.map E.var sg.inputs, order := ([] : List Visit) ++ [Visit.enter k] } := by
        refine ⟨?_, ?_, ?_, ?_⟩
        · intro i' hi'; simp at hi'
        · intro r hr
          simp only [List.nil_append, List.mem_append, List.mem_singleton, reduceCtorEq, List.mem_map, E.var.injEq,
            exists_eq_right, false_or] at hr
          exact Or.inl hr
        · intro i' a' hi'; simp at hi'
        · intro k' hk'
          simp only [List.nil_append, List.mem_append, List.mem_singleton, List.mem_map] at hk'
          rcases hk' with rfl | ⟨t, ht, rfl⟩
          · exact Or.inl ⟨k, rfl⟩
          · refine Or.inr ⟨.var t, rfl, rfl, ?_⟩
            intro r hr
            simp only [refs_var, List.mem_singleton] at hr
            subst hr
            simp only [List.nil_append, List.mem_append, List.mem_map]
            exact Or.inr ⟨r, ht, rfl⟩
      have r := visit_vs cg fg sg.inputs S _ sg.output _ s1 h2 hinv0 (WF.outputs hwf k sg hsg)
        (fun r hr => Or.inl (by rw [hout]; exact hr))
      have hiff : Visit.app i ∈ s1.order ++ [Visit.exit k] ↔ Visit.app i ∈ s1.order := by simp
      show Visit.app i ∈ s1.order ++ [Visit.exit k] ↔ _
      rw [hiff]
      constructor
      · exact r.inv.sound i
      · intro hr
        -- every registered tracer that an application produces was registered by that application
        have hprod : ∀ (i' : Nat) (b : GApp) (x : Nat), fg.apps[i']? = some b → x ∈ b.out.refs →
            E.var x ∈ s1.registered → Visit.app i' ∈ s1.order := by
          intro i' b x hb hx hreg
          rcases r.inv.prod x hreg with hin | ⟨i'', a'', h1', h2', h3'⟩
          · exact absurd hx (wf_input_not_out hfwf x (by rw [hins]; exact hin) i' b hb)
          · have := wf_producer_unique hfwf i' i'' b (toGApp a'') hb (S.app i'' a'' h2') x hx h3'
            rw [this]
            exact h1'
        clear hiff
        induction hr with
        | out i a x ha hx ho =>
          exact hprod i a x ha hx (r.post sg.output (by simp) x (by rw [← hout]; exact ho))
        | step j b i a x _ hb hxb ha hx ihj =>
          obtain ⟨b', hb', rfl⟩ := S.app_inv j b hb
          obtain ⟨o, ho, hro⟩ := (operand_refs b' x).1 hxb
          exact hprod i a x ha hx (r.inv.ops j b' ihj hb' o ho x hro)

/-- The traversal of a supported graph enters the compiled graph only. -/
theorem visitOrder_enters (cg : Compile.Graph) (aux : List TAux) (fg : Factory.Graph) (hwf : cg.WF = true)
    (hsup : Supported cg = true) (hfg : toFactory cg aux = some fg)
    (order : List Visit) (ho : visitOrder cg = .ok order) (k' : Nat) (hk' : Visit.enter k' ∈ order) : cg.top = .gref k' := by
  obtain ⟨S, k, sg, htop, hsg, hins, hout⟩ := supported_setup cg aux fg hwf hsup hfg
  simp only [visitOrder, bind, Except.bind] at ho
  cases h1 : visit cg cg.fuel cg.top {} with
  | error err => simp [h1] at ho
  | ok sfin =>
    simp only [h1, pure, Except.pure, Except.ok.injEq] at ho
    subst ho
    have hfuel : cg.fuel = (4 * (cg.apps.length + cg.graphs.length) + 63) + 1 := rfl
    rw [hfuel, htop] at h1
    unfold visit at h1
    simp only [isRegistered, keyOf, List.contains_eq_mem, List.not_mem_nil, decide_false, Bool.false_eq_true, if_false, hsg,
      bind, Except.bind] at h1
    cases h2 : visit cg (4 * (cg.apps.length + cg.graphs.length) + 63) sg.output
        { registered := ([] : List E) ++ [E.gref k] ++ List.map E.var sg.inputs, order := ([] : List Visit) ++ [Visit.enter k] } with
    | error err => rw [h2] at h1; simp at h1
    | ok s1 =>
      rw [h2] at h1
      simp only [pure, Except.pure, Except.ok.injEq] at h1
      subst h1
      have hinv0 : VI cg fg sg.inputs
          { registered := ([] : List E) ++ [E.gref k] ++ List.map E.var sg.inputs, order := ([] : List Visit) ++ [Visit.enter k] } := by
        refine ⟨?_, ?_, ?_, ?_⟩
        · intro i' hi'; simp at hi'
        · intro r hr
          simp only [List.nil_append, List.mem_append, List.mem_singleton, reduceCtorEq, List.mem_map, E.var.injEq,
            exists_eq_right, false_or] at hr
          exact Or.inl hr
        · intro i' a' hi'; simp at hi'
        · intro k'' hk''
          simp only [List.nil_append, List.mem_append, List.mem_singleton, List.mem_map] at hk''
          rcases hk'' with rfl | ⟨t, ht, rfl⟩
          · exact Or.inl ⟨k, rfl⟩
          · refine Or.inr ⟨.var t, rfl, rfl, ?_⟩
            intro r hr
            simp only [refs_var, List.mem_singleton] at hr
            subst hr
            simp only [List.nil_append, List.mem_append, List.mem_map]
            exact Or.inr ⟨r, ht, rfl⟩
      have r := visit_vs cg fg sg.inputs S _ sg.output _ s1 h2 hinv0 (WF.outputs hwf k sg hsg)
        (fun r hr => Or.inl (by rw [hout]; exact hr))
      have hk1 : Visit.enter k' ∈ s1.order := by
        have : Visit.enter k' ∈ s1.order ++ [Visit.exit k] := hk'
        simpa using this
      have := r.ent k' hk1
      simp only [List.nil_append, List.mem_singleton, Visit.enter.injEq] at this
      rw [htop, this]

end Einx.Exec
