import EinxModel.Generic.LowerSim
import EinxModel.Proofs.GroupCmp
import EinxModel.Proofs.StbU
import EinxModel.Proofs.LowerEw
/-! Size-genericity of the decomposer's lowering (C17), part A: what the relation `gsimL` (same description, two length
assignments with the same 1-pattern) gives, and the preparation of one input (`_decompose_single`, removal of the unit
axes, `_squeeze_transpose_broadcast(…, broadcast_to_unitary=True)`) on two related assignments. -/
namespace Einx.Lower
open Einx Einx.IR Einx.Generic Einx.Denote

theorem lprod_eq_prod : ∀ l : List Nat, lprod l = prod l
  | [] => rfl
  | x :: xs => by simp [lprod, prod, lprod_eq_prod xs]

theorem nat_mul_eq_one {m n : Nat} : m * n = 1 ↔ m = 1 ∧ n = 1 :=
  ⟨fun h => ⟨Nat.eq_one_of_mul_eq_one_right h, Nat.eq_one_of_mul_eq_one_left h⟩, fun h => by rw [h.1, h.2]⟩

theorem beq_one_eq {a b : Nat} (h : (a == 1) = (b == 1)) : a = 1 ↔ b = 1 := by
  constructor
  · intro e; rw [e] at h; simpa using h.symm
  · intro e; rw [e] at h; simpa using h

theorem beq_one_of_iff {a b : Nat} (h : a = 1 ↔ b = 1) : (a == 1) = (b == 1) := by
  rw [Bool.eq_iff_iff, beq_iff_eq, beq_iff_eq]; exact h

theorem _root_.Einx.Generic.Sim.append {a a' b b' : List Ax} (h1 : Sim a a') (h2 : Sim b b') : Sim (a ++ b) (a' ++ b') := by
  induction h1 with
  | nil => simpa using h2
  | cons hn ho _ ih => exact .cons hn ho ih

theorem _root_.Einx.Generic.Sim.pat1 {l l' : List Ax} (h : Sim l l') : pat1 (lens l) = pat1 (lens l') := by
  induction h with
  | nil => rfl
  | cons _ ho _ ih =>
    simp only [Generic.pat1, lens, List.map_cons, List.map_map] at ih ⊢
    rw [ho, ih]

/-! ### consequences of `gsim` -/

mutual
theorem gsim_leaves : ∀ (g g' : G), gsim g g' = true → Sim g.leaves g'.leaves
  | .ax a, .ax b, h => by
    simp only [gsim, Bool.and_eq_true, beq_iff_eq] at h
    exact .cons h.1 h.2 .nil
  | .grp gs, .grp hs, h => by
    simp only [gsim] at h
    simp only [G.leaves]
    exact gsimL_leaves gs hs h
  | .ax _, .grp _, h => by simp [gsim] at h
  | .grp _, .ax _, h => by simp [gsim] at h
theorem gsimL_leaves : ∀ (gs gs' : List G), gsimL gs gs' = true → Sim (G.leavesL gs) (G.leavesL gs')
  | [], [], _ => .nil
  | g :: gs, h :: hs, hh => by
    simp only [gsimL, Bool.and_eq_true] at hh
    simp only [G.leavesL]
    exact (gsim_leaves g h hh.1).append (gsimL_leaves gs hs hh.2)
  | [], _ :: _, h => by simp [gsimL] at h
  | _ :: _, [], h => by simp [gsimL] at h
end

mutual
theorem gsim_one : ∀ (g g' : G), gsim g g' = true → (g.size = 1 ↔ g'.size = 1)
  | .ax a, .ax b, h => by
    simp only [gsim, Bool.and_eq_true, beq_iff_eq] at h
    simp only [G.size]
    exact beq_one_eq h.2
  | .grp gs, .grp hs, h => by
    simp only [gsim] at h
    simp only [G.size]
    exact gsimL_one gs hs h
  | .ax _, .grp _, h => by simp [gsim] at h
  | .grp _, .ax _, h => by simp [gsim] at h
theorem gsimL_one : ∀ (gs gs' : List G), gsimL gs gs' = true → (G.sizeL gs = 1 ↔ G.sizeL gs' = 1)
  | [], [], _ => by simp [G.sizeL]
  | g :: gs, h :: hs, hh => by
    simp only [gsimL, Bool.and_eq_true] at hh
    simp only [G.sizeL, nat_mul_eq_one]
    rw [gsim_one g h hh.1, gsimL_one gs hs hh.2]
  | [], _ :: _, h => by simp [gsimL] at h
  | _ :: _, [], h => by simp [gsimL] at h
end

mutual
theorem gsim_depth : ∀ (g g' : G), gsim g g' = true → g.depth = g'.depth
  | .ax a, .ax b, _ => rfl
  | .grp gs, .grp hs, h => by
    simp only [gsim] at h
    simp only [G.depth]
    rw [gsimL_depth gs hs h]
  | .ax _, .grp _, h => by simp [gsim] at h
  | .grp _, .ax _, h => by simp [gsim] at h
theorem gsimL_depth : ∀ (gs gs' : List G), gsimL gs gs' = true → G.depthL gs = G.depthL gs'
  | [], [], _ => rfl
  | g :: gs, h :: hs, hh => by
    simp only [gsimL, Bool.and_eq_true] at hh
    simp only [G.depthL]
    rw [gsim_depth g h hh.1, gsimL_depth gs hs hh.2]
  | [], _ :: _, h => by simp [gsimL] at h
  | _ :: _, [], h => by simp [gsimL] at h
end

theorem gsimL_length : ∀ (e e' : List G), gsimL e e' = true → e.length = e'.length
  | [], [], _ => rfl
  | g :: gs, h :: hs, hh => by
    simp only [gsimL, Bool.and_eq_true] at hh
    simp [gsimL_length gs hs hh.2]
  | [], _ :: _, h => by simp [gsimL] at h
  | _ :: _, [], h => by simp [gsimL] at h

theorem gsimL_append : ∀ (a a' b b' : List G), gsimL a a' = true → gsimL b b' = true → gsimL (a ++ b) (a' ++ b') = true
  | [], [], _, _, _, h2 => by simpa using h2
  | g :: gs, h :: hs, b, b', hh, h2 => by
    simp only [gsimL, Bool.and_eq_true] at hh
    simp only [List.cons_append, gsimL, Bool.and_eq_true]
    exact ⟨hh.1, gsimL_append gs hs b b' hh.2 h2⟩
  | [], _ :: _, _, _, h, _ => by simp [gsimL] at h
  | _ :: _, [], _, _, h, _ => by simp [gsimL] at h

theorem gsimL_unflatten1 : ∀ (e e' : List G), gsimL e e' = true → gsimL (unflatten1 e) (unflatten1 e') = true
  | [], [], _ => by simp [unflatten1, gsimL]
  | g :: gs, h :: hs, hh => by
    simp only [gsimL, Bool.and_eq_true] at hh
    rw [unflatten1_cons, unflatten1_cons]
    apply gsimL_append _ _ _ _ _ (gsimL_unflatten1 gs hs hh.2)
    have h1 := hh.1
    cases g with
    | ax a =>
      cases h with
      | ax b => simp only [gsimL, h1, Bool.and_true]
      | grp _ => simp [gsim] at h1
    | grp gs1 =>
      cases h with
      | ax b => simp [gsim] at h1
      | grp hs1 => simpa only [gsim] using h1
  | [], _ :: _, h => by simp [gsimL] at h
  | _ :: _, [], h => by simp [gsimL] at h

theorem gsim_isGrp : ∀ (g g' : G), gsim g g' = true → isGrp g = isGrp g'
  | .ax _, .ax _, _ => rfl
  | .grp _, .grp _, _ => rfl
  | .ax _, .grp _, h => by simp [gsim] at h
  | .grp _, .ax _, h => by simp [gsim] at h

theorem gsimL_anyGrp : ∀ (e e' : List G), gsimL e e' = true → e.any isGrp = e'.any isGrp
  | [], [], _ => rfl
  | g :: gs, h :: hs, hh => by
    simp only [gsimL, Bool.and_eq_true] at hh
    simp only [List.any_cons, gsimL_anyGrp gs hs hh.2, gsim_isGrp g h hh.1]
  | [], _ :: _, h => by simp [gsimL] at h
  | _ :: _, [], h => by simp [gsimL] at h

/-! ### a grouped shape as the list of the products of its groups -/

/-- The members of a root dimension as `_decompose_single` sees them: the sizes of the members of a flattened axis. -/
def mem1 : G → List Nat
  | .grp gs => gs.map G.size
  | .ax a => [a.len]

/-- The leaf lengths below a root dimension (what `_compose_next` multiplies). -/
def lv (g : G) : List Nat := lens g.leaves

theorem lprod_map_size : ∀ gs : List G, lprod (gs.map G.size) = G.sizeL gs
  | [] => rfl
  | g :: gs => by simp [lprod, G.sizeL, lprod_map_size gs]

theorem lprod_mem1 (g : G) : lprod (mem1 g) = g.size := by
  cases g with
  | ax a => simp [mem1, lprod, G.size]
  | grp gs => simp [mem1, G.size, lprod_map_size]

theorem gShape_eq_groups (e : List G) : gShape e = (e.map mem1).map lprod := by
  simp [gShape, List.map_map, Function.comp_def, lprod_mem1]

theorem gShape_append (a b : List G) : gShape (a ++ b) = gShape a ++ gShape b := by simp [gShape]

theorem gShape_unflatten1 : ∀ e : List G, gShape (unflatten1 e) = (e.map mem1).flatten
  | [] => by simp [unflatten1, gShape]
  | g :: e => by
    rw [unflatten1_cons, gShape_append, gShape_unflatten1 e]
    cases g with
    | ax a => simp [mem1, gShape, G.size]
    | grp gs => simp [mem1, gShape]

theorem gShape_eq_lv (e : List G) : gShape e = (e.map lv).map lprod := by
  simp only [gShape, List.map_map, Function.comp_def, lv]
  apply List.map_congr_left
  intro g _
  rw [lprod_eq_prod, size_eq_leaves]

theorem lens_leavesL_eq : ∀ e : List G, lens (G.leavesL e) = (e.map lv).flatten
  | [] => rfl
  | g :: e => by
    simp only [G.leavesL, lens_append, List.map_cons, List.flatten_cons, lv]
    rw [lens_leavesL_eq e]

theorem sizes_pat : ∀ (gs hs : List G), gsimL gs hs = true →
    pat1 (gs.map G.size) = pat1 (hs.map G.size)
  | [], [], _ => rfl
  | g :: gs, h :: hs, hh => by
    simp only [gsimL, Bool.and_eq_true] at hh
    have ih := sizes_pat gs hs hh.2
    simp only [Generic.pat1, List.map_cons, List.map_map] at ih ⊢
    rw [ih, beq_one_of_iff (gsim_one g h hh.1)]
  | [], _ :: _, h => by simp [gsimL] at h
  | _ :: _, [], h => by simp [gsimL] at h

theorem gsim_pat_mem1 : ∀ (g g' : G), gsim g g' = true → pat1 (mem1 g) = pat1 (mem1 g')
  | .ax a, .ax b, h => by
    simp only [gsim, Bool.and_eq_true, beq_iff_eq] at h
    simp [mem1, Generic.pat1, h.2]
  | .grp gs, .grp hs, h => by
    simp only [gsim] at h
    simp only [mem1]
    exact sizes_pat gs hs h
  | .ax _, .grp _, h => by simp [gsim] at h
  | .grp _, .ax _, h => by simp [gsim] at h

theorem gsimL_groups_pat : ∀ (e e' : List G), gsimL e e' = true → (e.map mem1).map pat1 = (e'.map mem1).map pat1
  | [], [], _ => rfl
  | g :: gs, h :: hs, hh => by
    simp only [gsimL, Bool.and_eq_true] at hh
    simp only [List.map_cons]
    rw [gsim_pat_mem1 g h hh.1, gsimL_groups_pat gs hs hh.2]
  | [], _ :: _, h => by simp [gsimL] at h
  | _ :: _, [], h => by simp [gsimL] at h

theorem gsimL_lv_pat : ∀ (e e' : List G), gsimL e e' = true → (e.map lv).map pat1 = (e'.map lv).map pat1
  | [], [], _ => rfl
  | g :: gs, h :: hs, hh => by
    simp only [gsimL, Bool.and_eq_true] at hh
    have h1 : pat1 (lv g) = pat1 (lv h) := (gsim_leaves g h hh.1).pat1
    simp only [List.map_cons, h1, gsimL_lv_pat gs hs hh.2]
  | [], _ :: _, h => by simp [gsimL] at h
  | _ :: _, [], h => by simp [gsimL] at h

/-- **The no-op test of `_decompose_single`'s reshape** (grouped shape vs. the list of the members) gives the same
answer for two length assignments with the same 1-pattern. -/
theorem decompose_test {e e' : List G} (h : gsimL e e' = true) :
    (gShape e == gShape (unflatten1 e)) = (gShape e' == gShape (unflatten1 e')) := by
  rw [gShape_eq_groups e, gShape_unflatten1 e, gShape_eq_groups e', gShape_unflatten1 e']
  exact groups_cmp_generic _ _ (gsimL_groups_pat e e' h)

/-- **The no-op test of `_compose_next`'s reshape** (flat shape vs. the grouped output shape). -/
theorem compose_test {e e' : List G} (h : gsimL e e' = true) :
    (lens (G.leavesL e) == gShape e) = (lens (G.leavesL e') == gShape e') := by
  rw [gShape_eq_lv e, lens_leavesL_eq e, gShape_eq_lv e', lens_leavesL_eq e']
  exact groups_cmp_generic_symm _ _ (gsimL_lv_pat e e' h)

/-! ### `_decompose_single` -/

theorem depthL_append (a b : List G) : G.depthL (a ++ b) = max (G.depthL a) (G.depthL b) := by
  induction a with
  | nil => simp [G.depthL]
  | cons g a ih => simp only [List.cons_append, G.depthL, ih]; omega

theorem depthL_unflatten1 : ∀ e : List G, G.depthL (unflatten1 e) ≤ G.depthL e - 1
  | [] => by simp [unflatten1, G.depthL]
  | g :: e => by
    rw [unflatten1_cons, depthL_append]
    have ih := depthL_unflatten1 e
    cases g with
    | ax a => simp only [G.depthL, G.depth]; omega
    | grp gs => simp only [G.depthL, G.depth]; omega

theorem depthL_zero_flat : ∀ e : List G, G.depthL e = 0 → e.any isGrp = false
  | [], _ => rfl
  | g :: e, h => by
    simp only [G.depthL] at h
    have h1 : g.depth = 0 := by omega
    have h2 : G.depthL e = 0 := by omega
    simp only [List.any_cons, depthL_zero_flat e h2, Bool.or_false]
    cases g with
    | ax a => rfl
    | grp gs => simp [G.depth] at h1

theorem noGrp_depth : ∀ e : List G, e.any isGrp = false → G.depthL e = 0
  | [], _ => rfl
  | g :: e, h => by
    simp only [List.any_cons, Bool.or_eq_false_iff] at h
    simp only [G.depthL, noGrp_depth e h.2]
    cases g with
    | ax a => rfl
    | grp gs => simp [isGrp] at h

theorem decompose_flat : ∀ (fuel : Nat) (s : St) (e : List G), G.depthL e ≤ fuel →
    (decompose fuel s e).2.any isGrp = false
  | 0, s, e, h => by
    simp only [decompose]
    exact depthL_zero_flat e (by omega)
  | fuel + 1, s, e, h => by
    unfold decompose
    split
    · exact decompose_flat fuel _ _ (by have := depthL_unflatten1 e; omega)
    · rename_i hg
      simpa using hg

theorem gShape_flat : ∀ e : List G, e.any isGrp = false → gShape e = lens (G.leavesL e)
  | [], _ => rfl
  | g :: e, h => by
    simp only [List.any_cons, Bool.or_eq_false_iff] at h
    have ih := gShape_flat e h.2
    cases g with
    | ax a =>
      simp only [gShape, List.map_cons, G.size, G.leavesL, G.leaves, lens, List.cons_append, List.nil_append] at ih ⊢
      rw [ih]
    | grp gs => simp [isGrp] at h

/-- `_decompose_single` on two related assignments: the states differ only in shapes, the decomposed expressions are
again related, and the traced shapes are those of the decomposed expressions. -/
theorem decompose_rel : ∀ (fuel : Nat) {s s' : St} {e e' : List G}, Rel s s' → gsimL e e' = true →
    s.shape = gShape e → s'.shape = gShape e' →
    Rel (decompose fuel s e).1 (decompose fuel s' e').1 ∧
      gsimL (decompose fuel s e).2 (decompose fuel s' e').2 = true ∧
      (decompose fuel s e).1.shape = gShape (decompose fuel s e).2 ∧
      (decompose fuel s' e').1.shape = gShape (decompose fuel s' e').2
  | 0, _, _, _, _, hs, he, hsh, hsh' => ⟨hs, he, hsh, hsh'⟩
  | fuel + 1, s, s', e, e', hs, he, hsh, hsh' => by
    unfold decompose
    rw [gsimL_anyGrp e e' he]
    split
    · have hu := gsimL_unflatten1 e e' he
      apply decompose_rel fuel _ hu (reshapeW_shape _ _) (reshapeW_shape _ _)
      apply reshapeW_rel hs
      · rw [hsh, hsh']; exact decompose_test he
      · simp only [gShape, List.length_map]; exact gsimL_length _ _ hu
    · exact ⟨hs, he, hsh, hsh'⟩

/-! ### the preparation of one input -/

theorem _root_.Einx.Generic.Rel.focus {s s' : St} (h : Rel s s') (r : Nat) (sh sh' : List Nat) : Rel (s.focus r sh) (s'.focus r sh') :=
  ⟨rfl, h.next, h.prog⟩

theorem gsimL_noDup {e e' : List G} (h : gsimL e e' = true) :
    noDup (names (G.leavesL e)) = noDup (names (G.leavesL e')) := by
  rw [(gsimL_leaves e e' h).names_eq]

/-- `Decomposer.__call__`, first two steps for one input, on two related assignments. -/
theorem prepInput_rel {marked : List String} {s s' : St} {r : Nat} {e e' : List G} (hs : Rel s s')
    (he : gsimL e e' = true) {sq sq' : List Ax} {s1 s1' : St}
    (h : prepInput marked s r e = .ok (sq, s1)) (h' : prepInput marked s' r e' = .ok (sq', s1')) :
    Sim sq sq' ∧ Rel s1 s1' ∧ s1.shape = lens sq ∧ s1'.shape = lens sq' := by
  have hnd : noDup (names (G.leavesL e)) = true := by
    by_cases hnd : noDup (names (G.leavesL e)) = true
    · exact hnd
    · unfold prepInput at h
      simp [hnd, throw, throwThe, MonadExceptOf.throw, bind, Except.bind] at h
  have hnd' : noDup (names (G.leavesL e')) = true := by rw [← gsimL_noDup he]; exact hnd
  have hdep := gsimL_depth e e' he
  obtain ⟨hr1, he1, hsh1, hsh1'⟩ := decompose_rel (G.depthL e) (hs.focus r (gShape e) (gShape e')) he rfl rfl
  have hf := decompose_flat (G.depthL e) (s.focus r (gShape e)) e (Nat.le_refl _)
  have hf' := decompose_flat (G.depthL e) (s'.focus r (gShape e')) e' (by omega)
  unfold prepInput at h h'
  simp only [hnd, hnd', Bool.not_true, Bool.false_eq_true, if_false] at h h'
  rw [← hdep] at h'
  generalize decompose (G.depthL e) (s.focus r (gShape e)) e = d at *
  generalize decompose (G.depthL e) (s'.focus r (gShape e')) e' = d' at *
  obtain ⟨t, e1⟩ := d
  obtain ⟨t', e1'⟩ := d'
  simp only [pure, Except.pure, Except.ok.injEq, Prod.mk.injEq] at h h' hr1 he1 hsh1 hsh1' hf hf'
  obtain ⟨hsq, hs1⟩ := h
  obtain ⟨hsq', hs1'⟩ := h'
  subst hsq hsq' hs1 hs1'
  have hl := gsimL_leaves e1 e1' he1
  have hsim : Sim ((G.leavesL e1).filter (fun a => !(a.len == 1 && !marked.contains a.name)))
      ((G.leavesL e1').filter (fun a => !(a.len == 1 && !marked.contains a.name))) :=
    hl.filter _ _ (fun a b hn ho => by rw [hn, ho])
  refine ⟨hsim, ?_, reshapeW_shape _ _, reshapeW_shape _ _⟩
  apply reshapeW_rel hr1
  · rw [hsh1, hsh1', gShape_flat e1 hf, gShape_flat e1' hf']
    simp only [lens]
    rw [map_beq_map_filter, map_beq_map_filter]
    exact hl.all_eq _ _ (fun a b hn ho => by rw [hn, ho])
  · simp only [lens, List.length_map]; exact hsim.length_eq

/-- The chain of one input (`prepInput`, then the alignment with the output by `stbU`) on two related assignments. -/
theorem chainInput_rel {W W' : List Ax} {s s' : St} {i : Nat} {e e' : List G} (hs : Rel s s') (hW : Sim W W')
    (he : gsimL e e' = true) {e1 e1' : List Ax} {r r' : St}
    (h : chainInput W s i e = .ok (e1, r)) (h' : chainInput W' s' i e' = .ok (e1', r')) :
    Sim e1 e1' ∧ Rel r r' := by
  unfold chainInput at h h'
  cases hp : prepInput [] s i e with
  | error er => simp [hp, bind, Except.bind] at h
  | ok x =>
    cases hp' : prepInput [] s' i e' with
    | error er => simp [hp', bind, Except.bind] at h'
    | ok x' =>
      obtain ⟨sq, s1⟩ := x
      obtain ⟨sq', s1'⟩ := x'
      simp only [hp, hp', bind, Except.bind] at h h'
      obtain ⟨hsim, hrel, hsh, hsh'⟩ := prepInput_rel hs he hp hp'
      have := stbU_generic i hrel hsh hsh' hsim hW
      rw [h, h'] at this
      exact this

end Einx.Lower
