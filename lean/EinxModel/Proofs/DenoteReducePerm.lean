import EinxModel.Proofs.DenoteReduce
import Mathlib.Data.List.Perm.Lattice
import Mathlib.Data.Multiset.Bind
/-!
Reductions (C08): permuting the root dimensions of the input view -- bracketed or not -- together with the tensor.
The reduced cells are visited in another order; `mkRed` sorts them (`Proofs/CellOrder.lean`).
-/
namespace Einx.Denote
open Einx Einx.IR List
open Einx.Update (mapOpt mapOpt_eq_some_iff mapOpt_congr)

/-! ### enumeration order of assignments -/

theorem flatMap_comm_perm {α β γ : Type} (l1 : List α) (l2 : List β) (f : α → β → List γ) :
    (l1.flatMap (fun a => l2.flatMap (fun b => f a b))) ~ (l2.flatMap (fun b => l1.flatMap (fun a => f a b))) := by
  have := Multiset.bind_bind (m := (l1 : Multiset α)) (n := (l2 : Multiset β)) (f := fun a b => (f a b : Multiset γ))
  simp only [Multiset.coe_bind] at this
  exact Multiset.coe_eq_coe.mp (by simpa [Multiset.coe_bind] using this)

theorem SameGet.cons {σ τ : Assign} (h : SameGet σ τ) (p : String × Nat) : SameGet (p :: σ) (p :: τ) := by
  intro n; rw [get_cons, get_cons, h n]

theorem sameGet_swap (p q : String × Nat) (σ : Assign) (h : p.1 ≠ q.1) : SameGet (p :: q :: σ) (q :: p :: σ) := by
  intro n
  simp only [get_cons]
  by_cases h1 : p.1 = n <;> by_cases h2 : q.1 = n <;> simp [h1, h2]
  exact absurd (h1.trans h2.symm) h

/-- Enumerating the assignments of a permuted list of axes visits the same assignments (up to `SameGet`) in another
order. -/
theorem assignments_map_perm {γ : Type} {axes axes' : List (String × Nat)} (h : axes ~ axes') :
    ∀ (G : Assign → γ), (∀ σ τ, SameGet σ τ → G σ = G τ) → (axes.map (·.1)).Nodup →
      (assignments axes).map G ~ (assignments axes').map G := by
  induction h with
  | nil => intro G _ _; exact Perm.refl _
  | cons x _ ih =>
    intro G hG hnd
    obtain ⟨n, s⟩ := x
    simp only [assignments, List.map_flatMap, List.map_map]
    apply Perm.flatMap_left
    intro i _
    exact ih (G ∘ fun σ => (n, i) :: σ) (fun σ τ hst => hG _ _ (hst.cons _)) (by simpa using (List.nodup_cons.mp hnd).2)
  | swap x y l =>
    intro G hG hnd
    obtain ⟨nx, sx⟩ := x
    obtain ⟨ny, sy⟩ := y
    have hne : ny ≠ nx := by
      simp only [List.map_cons, List.nodup_cons, List.mem_cons, not_or] at hnd
      exact hnd.1.1
    simp only [assignments, List.map_flatMap, List.map_map]
    refine (flatMap_comm_perm _ _ _).trans ?_
    apply Perm.of_eq
    congr 1; funext i; congr 1; funext j; congr 1; funext σ
    exact hG _ _ (sameGet_swap (ny, j) (nx, i) σ hne)
  | trans h1 _ ih1 ih2 =>
    intro G hG hnd
    exact (ih1 G hG hnd).trans (ih2 G hG ((h1.map _).nodup_iff.mp hnd))

/-! ### `mapOpt id` (all-or-nothing) under permutation -/

theorem mapOpt_id_eq {α : Type} (l : List (Option α)) :
    mapOpt id l = if l.all Option.isSome then some l.reduceOption else none := by
  induction l with
  | nil => rfl
  | cons a l ih =>
    simp only [mapOpt, id, ih, List.all_cons]
    cases a with
    | none => simp
    | some b =>
      by_cases h : l.all Option.isSome = true
      · simp [h, List.reduceOption]
      · simp [h]

theorem mapOpt_id_perm {α : Type} {l1 l2 : List (Option α)} (h : l1 ~ l2) :
    (mapOpt id l1 = none ∧ mapOpt id l2 = none) ∨ ∃ r1 r2, mapOpt id l1 = some r1 ∧ mapOpt id l2 = some r2 ∧ r1 ~ r2 := by
  rw [mapOpt_id_eq, mapOpt_id_eq, h.all_eq]
  by_cases ha : l2.all Option.isSome = true
  · right
    simp only [ha, if_true]
    exact ⟨_, _, rfl, rfl, h.filterMap id⟩
  · left; simp [ha]

theorem mapOpt_eq_id_map {α β : Type} (f : α → Option β) (l : List α) : mapOpt f l = mapOpt id (l.map f) := by
  rw [mapOpt_map]; rfl

/-! ### the axes of a leaf list: distinct names; membership -/

theorem axesFold_nodup (ls : List Leaf) : ∀ acc : List (String × Nat), (acc.map (·.1)).Nodup →
    ((ls.foldl axesStep acc).map (·.1)).Nodup := by
  induction ls with
  | nil => intro acc h; exact h
  | cons l ls ih =>
    intro acc h
    apply ih
    unfold axesStep
    split
    · exact h
    · rename_i hany
      rw [List.map_append, List.nodup_append]
      refine ⟨h, by simp, ?_⟩
      intro a ha b hb
      simp only [List.map_cons, List.map_nil, List.mem_singleton] at hb
      subst hb
      rintro rfl
      apply hany
      obtain ⟨q, hq, hqn⟩ := List.mem_map.mp ha
      simp only [List.any_eq_true, beq_iff_eq]
      exact ⟨q, hq, hqn⟩

theorem axesOf_nodup (ls : List Leaf) : ((axesOf ls).map (·.1)).Nodup := by
  rw [axesOf_eq]; exact axesFold_nodup ls [] (by simp)

theorem mem_axesOf {ls : List Leaf} (hc : Consistent ls) (q : String × Nat) :
    q ∈ axesOf ls ↔ ∃ l ∈ ls, l.name = q.1 ∧ l.size = q.2 := by
  obtain ⟨_, h2, h3⟩ := axesFold_mem ls []
  rw [axesOf_eq]
  constructor
  · intro hq
    rcases h3 q hq with h | h
    · simp at h
    · exact h
  · rintro ⟨l, hl, hn, hs⟩
    obtain ⟨s, hs'⟩ := h2 l hl
    rcases h3 _ hs' with h | ⟨l', hl', hn', hsz'⟩
    · simp at h
    · have : l'.size = l.size := hc l' hl' l hl hn'
      have e : q = (l.name, s) := by
        simp only at hsz'
        exact Prod.ext hn.symm (by simp only; rw [← hs, ← this, hsz'])
      rw [e]; exact hs'

theorem axesOf_perm {ls ls' : List Leaf} (hm : ∀ l, l ∈ ls ↔ l ∈ ls') (hc : Consistent ls) : axesOf ls ~ axesOf ls' := by
  have hc' : Consistent ls' := fun a ha b hb => hc a ((hm a).mpr ha) b ((hm b).mpr hb)
  apply (List.perm_ext_iff_of_nodup (Nodup.of_map _ (axesOf_nodup ls)) (Nodup.of_map _ (axesOf_nodup ls'))).mpr
  intro q
  rw [mem_axesOf hc, mem_axesOf hc']
  constructor
  · rintro ⟨l, hl, h⟩; exact ⟨l, (hm l).mp hl, h⟩
  · rintro ⟨l, hl, h⟩; exact ⟨l, (hm l).mpr hl, h⟩

/-! ### what `inputAssign` computes -/

/-- No axis name is both bracketed and un-bracketed in the leaf list. -/
def MarkSep (ls : List Leaf) : Prop := ∀ l ∈ ls, ∀ l' ∈ ls, l.name = l'.name → l.marked = l'.marked

def markSepB (ls : List Leaf) : Bool := ls.all (fun l => ls.all (fun l' => l.name != l'.name || l.marked == l'.marked))

theorem markSepB_spec {ls : List Leaf} (h : markSepB ls = true) : MarkSep ls := by
  intro l hl l' hl' hn
  simp only [markSepB, List.all_eq_true, Bool.or_eq_true, bne_iff_ne, ne_eq, beq_iff_eq] at h
  rcases h l hl l' hl' with h1 | h1
  · exact absurd hn h1
  · exact h1

/-- The value `inputAssign σ τ` gives to the name of leaf `l`. -/
def inVal (σ τ : Assign) (l : Leaf) : Option Nat :=
  if l.marked then τ.get l.name
  else
    match σ.get l.name with
    | some v => some v
    | none => if l.size == 1 then some 0 else none

def stepAdd (acc : Assign) (l : Leaf) (v : Nat) : Assign := if (acc.get l.name).isSome then acc else acc ++ [(l.name, v)]

theorem get_stepAdd (acc : Assign) (l : Leaf) (v : Nat) (n : String) :
    (stepAdd acc l v).get n = match acc.get n with
      | some x => some x
      | none => if l.name = n then some v else none := by
  unfold stepAdd
  cases hl : acc.get l.name with
  | some y =>
    simp only [Option.isSome_some, if_true]
    cases hn : acc.get n with
    | some x => rfl
    | none =>
      have : l.name ≠ n := by rintro rfl; rw [hn] at hl; cases hl
      simp [this]
  | none =>
    simp only [Option.isSome_none, Bool.false_eq_true, if_false, get_append, get_cons, get_nil]
    cases acc.get n <;> rfl

theorem inputStep_eq (σ τ acc : Assign) (l : Leaf) (hinv : ∀ x, acc.get l.name = some x → inVal σ τ l = some x) :
    inputStep σ τ acc l = (inVal σ τ l).map (stepAdd acc l) := by
  unfold inputStep inVal stepAdd
  by_cases hm : l.marked = true
  · simp only [hm, if_true]
    cases τ.get l.name <;> rfl
  · simp only [hm, Bool.false_eq_true, if_false]
    cases ha : acc.get l.name with
    | some x =>
      have := hinv x ha
      simp only [inVal, hm, Bool.false_eq_true, if_false] at this
      rw [this]; rfl
    | none =>
      cases σ.get l.name with
      | some v => rfl
      | none => by_cases hs : (l.size == 1) = true <;> simp [hs]

theorem inVal_congr {σ τ : Assign} {all : List Leaf} (hms : MarkSep all) (hc : Consistent all) {l l' : Leaf}
    (hl : l ∈ all) (hl' : l' ∈ all) (hn : l.name = l'.name) : inVal σ τ l = inVal σ τ l' := by
  unfold inVal
  rw [hms l hl l' hl' hn, hc l hl l' hl' hn, hn]

theorem inputFold_spec (σ τ : Assign) (all : List Leaf) (hms : MarkSep all) (hc : Consistent all) :
    ∀ (ls : List Leaf) (acc : Assign), (∀ l ∈ ls, l ∈ all) →
      (∀ l ∈ all, ∀ x, acc.get l.name = some x → inVal σ τ l = some x) →
      match ls.foldlM (inputStep σ τ) acc with
      | some a => (∀ l ∈ ls, inVal σ τ l ≠ none) ∧
          ∀ n, a.get n = match acc.get n with
            | some x => some x
            | none => match ls.find? (fun l => l.name == n) with
              | some l => inVal σ τ l
              | none => none
      | none => ∃ l ∈ ls, inVal σ τ l = none := by
  intro ls
  induction ls with
  | nil =>
    intro acc _ _
    simp only [List.foldlM_nil, pure, List.find?_nil]
    refine ⟨fun l hl => by simp at hl, fun n => ?_⟩
    cases acc.get n <;> rfl
  | cons l ls ih =>
    intro acc hsub hinv
    have hl : l ∈ all := hsub l (List.mem_cons_self ..)
    rw [List.foldlM_cons, inputStep_eq σ τ acc l (hinv l hl)]
    cases hv : inVal σ τ l with
    | none => exact ⟨l, List.mem_cons_self .., hv⟩
    | some v =>
      simp only [Option.map_some, Option.bind_eq_bind, Option.bind_some]
      have hinv' : ∀ l2 ∈ all, ∀ x, (stepAdd acc l v).get l2.name = some x → inVal σ τ l2 = some x := by
        intro l2 hl2 x hx
        rw [get_stepAdd] at hx
        cases ha : acc.get l2.name with
        | some y => rw [ha] at hx; exact hinv l2 hl2 x (by rw [ha]; exact hx)
        | none =>
          rw [ha] at hx
          by_cases hn : l.name = l2.name
          · simp only [hn, if_true, Option.some.injEq] at hx
            rw [← inVal_congr hms hc hl hl2 hn, hv, hx]
          · simp [hn] at hx
      have := ih (stepAdd acc l v) (fun l' h' => hsub l' (List.mem_cons_of_mem _ h')) hinv'
      cases hf : ls.foldlM (inputStep σ τ) (stepAdd acc l v) with
      | none =>
        rw [hf] at this
        obtain ⟨l', hl', h'⟩ := this
        exact ⟨l', List.mem_cons_of_mem _ hl', h'⟩
      | some a =>
        rw [hf] at this
        obtain ⟨h1, h2⟩ := this
        refine ⟨?_, ?_⟩
        · intro l' hl'
          rcases List.mem_cons.mp hl' with rfl | hm
          · rw [hv]; simp
          · exact h1 l' hm
        · intro n
          rw [h2 n, get_stepAdd, List.find?_cons]
          cases acc.get n with
          | some x => rfl
          | none =>
            by_cases hn : l.name = n
            · simp [hn, hv]
            · have : (l.name == n) = false := beq_eq_false_iff_ne.mpr hn
              simp [hn, this]

/-- **What `inputAssign` computes** (no name both bracketed and un-bracketed, sizes consistent per name): it fails
iff some leaf has no value; otherwise it assigns exactly the names of the leaves, each with its value. -/
theorem inputAssign_spec (σ τ : Assign) {ls : List Leaf} (hms : MarkSep ls) (hc : Consistent ls) :
    match inputAssign σ τ ls with
    | some a => (∀ l ∈ ls, inVal σ τ l ≠ none ∧ a.get l.name = inVal σ τ l) ∧
        ∀ n, (∀ l ∈ ls, l.name ≠ n) → a.get n = none
    | none => ∃ l ∈ ls, inVal σ τ l = none := by
  have := inputFold_spec σ τ ls hms hc ls [] (fun _ h => h) (fun l _ x hx => by simp [get_nil] at hx)
  rw [inputAssign_eq]
  cases hf : ls.foldlM (inputStep σ τ) [] with
  | none => rw [hf] at this; exact this
  | some a =>
    rw [hf] at this
    obtain ⟨h1, h2⟩ := this
    refine ⟨fun l hl => ⟨h1 l hl, ?_⟩, fun n hn => ?_⟩
    · rw [h2 l.name, get_nil]
      simp only []
      cases hfind : ls.find? (fun l' => l'.name == l.name) with
      | none =>
        have := List.find?_eq_none.mp hfind l hl
        simp at this
      | some l0 =>
        have hl0 : l0 ∈ ls := List.mem_of_find?_eq_some hfind
        have hn0 : l0.name = l.name := by simpa using List.find?_some hfind
        exact inVal_congr hms hc hl0 hl hn0
    · rw [h2 n, get_nil]
      simp only []
      cases hfind : ls.find? (fun l' => l'.name == n) with
      | none => rfl
      | some l0 =>
        have hl0 : l0 ∈ ls := List.mem_of_find?_eq_some hfind
        have hn0 : l0.name = n := by simpa using List.find?_some hfind
        exact absurd hn0 (hn l0 hl0)

theorem inVal_sameGet {σ τ τ' : Assign} (h : SameGet τ τ') (l : Leaf) : inVal σ τ l = inVal σ τ' l := by
  unfold inVal; rw [h l.name]

/-- **`inputAssign` is insensitive to the order of the leaves and sees `τ` only through `get`.** -/
theorem inputAssign_perm {σ τ τ' : Assign} {ls ls' : List Leaf} (hm : ∀ l, l ∈ ls ↔ l ∈ ls') (hms : MarkSep ls)
    (hc : Consistent ls) (hτ : SameGet τ τ') :
    (inputAssign σ τ ls = none ∧ inputAssign σ τ' ls' = none) ∨
      ∃ a a', inputAssign σ τ ls = some a ∧ inputAssign σ τ' ls' = some a' ∧ SameGet a a' ∧
        ∀ l ∈ ls, a.get l.name = inVal σ τ l ∧ inVal σ τ l ≠ none := by
  have hms' : MarkSep ls' := fun a ha b hb => hms a ((hm a).mpr ha) b ((hm b).mpr hb)
  have hc' : Consistent ls' := fun a ha b hb => hc a ((hm a).mpr ha) b ((hm b).mpr hb)
  have s1 := inputAssign_spec σ τ hms hc
  have s2 := inputAssign_spec σ τ' hms' hc'
  cases h1 : inputAssign σ τ ls with
  | none =>
    rw [h1] at s1
    obtain ⟨l, hl, hv⟩ := s1
    cases h2 : inputAssign σ τ' ls' with
    | none => exact Or.inl ⟨rfl, rfl⟩
    | some a' =>
      rw [h2] at s2
      exact absurd (by rw [← inVal_sameGet hτ]; exact hv) (s2.1 l ((hm l).mp hl)).1
  | some a =>
    rw [h1] at s1
    cases h2 : inputAssign σ τ' ls' with
    | none =>
      rw [h2] at s2
      obtain ⟨l, hl, hv⟩ := s2
      exact absurd (by rw [inVal_sameGet hτ]; exact hv) (s1.1 l ((hm l).mpr hl)).1
    | some a' =>
      rw [h2] at s2
      refine Or.inr ⟨a, a', rfl, rfl, ?_, fun l hl => ⟨(s1.1 l hl).2, (s1.1 l hl).1⟩⟩
      intro n
      by_cases hn : ∃ l ∈ ls, l.name = n
      · obtain ⟨l, hl, rfl⟩ := hn
        rw [(s1.1 l hl).2, (s2.1 l ((hm l).mp hl)).2, inVal_sameGet hτ]
      · have e1 : ∀ l ∈ ls, l.name ≠ n := fun l hl h => hn ⟨l, hl, h⟩
        have e2 : ∀ l ∈ ls', l.name ≠ n := fun l hl h => hn ⟨l, (hm l).mpr hl, h⟩
        rw [s1.2 n e1, s2.2 n e2]

/-! ### `inputAssign` sees `σ` and `τ` only through `get` -/

theorem inputStep_congr {σ σ' τ τ' : Assign} (hσ : SameGet σ σ') (hτ : SameGet τ τ') (acc : Assign) (l : Leaf) :
    inputStep σ τ acc l = inputStep σ' τ' acc l := by
  unfold inputStep; rw [hσ l.name, hτ l.name]

theorem inputAssign_congr {σ σ' τ τ' : Assign} (hσ : SameGet σ σ') (hτ : SameGet τ τ') (ls : List Leaf) :
    inputAssign σ τ ls = inputAssign σ' τ' ls := by
  rw [inputAssign_eq, inputAssign_eq]
  have : inputStep σ τ = inputStep σ' τ' := by funext acc l; exact inputStep_congr hσ hτ acc l
  rw [this]

theorem redCell_congr {σ σ' τ τ' : Assign} (hσ : SameGet σ σ') (hτ : SameGet τ τ') (v : List Dim) (s : List Nat) :
    redCell v s σ τ = redCell v s σ' τ' := by
  unfold redCell; rw [inputAssign_congr hσ hτ]

theorem redX_getInvariant (f : String) (v : List Dim) (s : List Nat) : GetInvariant (redX f v s) := by
  intro σ σ' h
  unfold redX redArgs
  have : redCell v s σ = redCell v s σ' := by funext τ; exact redCell_congr h (fun _ => rfl) v s
  rw [this]

/-! ### regrouping the input view -/

theorem redX_regroup_input (f : String) (pre mid post : List Dim) :
    redX f (pre ++ [Dim.flat mid] ++ post) (viewShape (pre ++ [Dim.flat mid] ++ post))
      = redX f (pre ++ mid ++ post) (viewShape (pre ++ mid ++ post)) := by
  funext σ
  have h1 : redCell (pre ++ [Dim.flat mid] ++ post) (viewShape (pre ++ [Dim.flat mid] ++ post)) σ
      = redCell (pre ++ mid ++ post) (viewShape (pre ++ mid ++ post)) σ := by
    funext τ
    simp only [redCell, leavesL_regroup, cellAt_regroup]
  simp only [redX, redArgs, markedAxes, leavesL_regroup, h1]

/-! ### permuting the input view together with the tensor -/

/-- Values that `inputAssign` can give are below the sizes of the leaves. -/
def ValsInRange (σ τ : Assign) (ls : List Leaf) : Prop := ∀ l ∈ ls, ∀ x, inVal σ τ l = some x → x < l.size

theorem redCell_permute_input {v v' : List Dim} {perm : List Nat} {plan : Plan} {σ τ : Assign}
    (hperm : isPermOf perm v.length = true) (hv' : permuteL perm v = some v')
    (hc : Dim.concatFreeL v = true) (hcons : Consistent (Dim.leavesL v)) (hms : MarkSep (Dim.leavesL v))
    (hplan : planInstr [viewShape v] (.transpose 0 perm) = .ok plan)
    (hr : ValsInRange σ τ (Dim.leavesL v)) :
    (redCell v' (viewShape v') σ τ).map (subst [⟨plan.shape, plan.cells⟩]) = redCell v (viewShape v) σ τ := by
  unfold redCell
  rcases inputAssign_perm (σ := σ) (leavesL_permute hperm hv') hms hcons (fun _ => rfl : SameGet τ τ) with
    ⟨h1, h2⟩ | ⟨a, a', h1, h2, hsg, hvals⟩
  · rw [h1, h2]; rfl
  · rw [h1, h2]
    have hb : BoundedOn a (Dim.leavesL v) := by
      intro l hl
      obtain ⟨hg, hne⟩ := hvals l hl
      cases hx : inVal σ τ l with
      | none => exact absurd hx hne
      | some x => exact ⟨x, by rw [hg, hx], hr l hl x hx⟩
    have := (cellAt_permute_input (shapes := [viewShape v]) (x := 0) hperm hv' hc (hb.sameGet hsg) rfl hplan).2
    simp only []
    rw [this, ← cellAt_sameGet hsg]

theorem valsInRange {v w : List Dim} {σ τ : Assign} {ls : List Leaf} (hm : ∀ l, l ∈ ls ↔ l ∈ Dim.leavesL v)
    (hcons : Consistent (Dim.leavesL v ++ Dim.leavesL w))
    (hσ : σ ∈ outAssignments w) (hτ : τ ∈ assignments (axesOf (ls.filter (·.marked)))) :
    ValsInRange σ τ (Dim.leavesL v) := by
  have hcv : Consistent (Dim.leavesL v) :=
    fun a ha b hb => hcons a (List.mem_append_left _ ha) b (List.mem_append_left _ hb)
  have hcf : Consistent (ls.filter (·.marked)) := fun a ha b hb =>
    hcv a ((hm a).mp (List.mem_filter.mp ha).1) b ((hm b).mp (List.mem_filter.mp hb).1)
  intro l hl x hx
  unfold inVal at hx
  by_cases hmk : l.marked = true
  · simp only [hmk, if_true] at hx
    obtain ⟨s, hs, hlt⟩ := assignments_get_some _ τ hτ l.name x hx
    obtain ⟨l', hl', hn, hsz⟩ := (mem_axesOf hcf _).mp hs
    have : l'.size = l.size := hcv l' ((hm l').mp (List.mem_filter.mp hl').1) l hl hn
    simp only at hsz
    omega
  · simp only [hmk, Bool.false_eq_true, if_false] at hx
    cases hg : σ.get l.name with
    | some y =>
      simp only [hg, Option.some.injEq] at hx
      subst hx
      exact outAssignments_inRange hcons hσ l hl y hg
    | none =>
      simp only [hg] at hx
      by_cases hs : (l.size == 1) = true
      · simp only [hs, if_true, Option.some.injEq] at hx
        have : l.size = 1 := by simpa using hs
        omega
      · simp [hs] at hx

/-- The reduced cells of the permuted operation, substituted, are a permutation of the original reduced cells. -/
theorem redArgs_permute_input {v v' w : List Dim} {perm : List Nat} {plan : Plan} {σ : Assign}
    (hperm : isPermOf perm v.length = true) (hv' : permuteL perm v = some v')
    (hc : Dim.concatFreeL v = true) (hcons : Consistent (Dim.leavesL v ++ Dim.leavesL w))
    (hms : MarkSep (Dim.leavesL v)) (hplan : planInstr [viewShape v] (.transpose 0 perm) = .ok plan)
    (hσ : σ ∈ outAssignments w) :
    (redArgs v' (viewShape v') σ = none ∧ redArgs v (viewShape v) σ = none) ∨
      ∃ r' r, redArgs v' (viewShape v') σ = some r' ∧ redArgs v (viewShape v) σ = some r ∧
        r'.map (subst [⟨plan.shape, plan.cells⟩]) ~ r := by
  have hcv : Consistent (Dim.leavesL v) :=
    fun a ha b hb => hcons a (List.mem_append_left _ ha) b (List.mem_append_left _ hb)
  have hm := leavesL_permute hperm hv'
  have hm' : ∀ l, l ∈ Dim.leavesL v' ↔ l ∈ Dim.leavesL v := fun l => (hm l).symm
  have hmf : ∀ l, l ∈ (Dim.leavesL v').filter (·.marked) ↔ l ∈ (Dim.leavesL v).filter (·.marked) := by
    intro l; simp only [List.mem_filter, hm' l]
  have hcf' : Consistent ((Dim.leavesL v').filter (·.marked)) := fun a ha b hb =>
    hcv a ((hm' a).mp (List.mem_filter.mp ha).1) b ((hm' b).mp (List.mem_filter.mp hb).1)
  have hperm_axes : markedAxes v' ~ markedAxes v := axesOf_perm hmf hcf'
  -- pointwise, on the permuted enumeration
  have hpt : (assignments (markedAxes v')).map (fun τ => (redCell v' (viewShape v') σ τ).map (subst [⟨plan.shape, plan.cells⟩]))
      = (assignments (markedAxes v')).map (redCell v (viewShape v) σ) := by
    apply List.map_congr_left
    intro τ hτ
    exact redCell_permute_input hperm hv' hc hcv hms hplan (valsInRange hm' hcons hσ hτ)
  have hL : (assignments (markedAxes v')).map (redCell v (viewShape v) σ)
      ~ (assignments (markedAxes v)).map (redCell v (viewShape v) σ) :=
    assignments_map_perm hperm_axes _ (fun τ τ' h => redCell_congr (fun _ => rfl) h v _) (axesOf_nodup _)
  have h1 : mapOpt id ((assignments (markedAxes v')).map (redCell v (viewShape v) σ))
      = (redArgs v' (viewShape v') σ).map (List.map (subst [⟨plan.shape, plan.cells⟩])) := by
    rw [← hpt, ← mapOpt_eq_id_map, mapOpt_optmap]; rfl
  have h2 : mapOpt id ((assignments (markedAxes v)).map (redCell v (viewShape v) σ)) = redArgs v (viewShape v) σ := by
    rw [← mapOpt_eq_id_map]; rfl
  rcases mapOpt_id_perm hL with ⟨e1, e2⟩ | ⟨r1, r2, e1, e2, hp⟩
  · left
    rw [h1] at e1; rw [h2] at e2
    exact ⟨by cases h : redArgs v' (viewShape v') σ <;> simp_all, e2⟩
  · right
    rw [h1] at e1; rw [h2] at e2
    cases h : redArgs v' (viewShape v') σ with
    | none => simp [h] at e1
    | some r' =>
      simp only [h, Option.map_some, Option.some.injEq] at e1
      exact ⟨r', r2, rfl, e2, by rw [e1]; exact hp⟩

theorem resort_subst_mkRed (regs : List (Tensor Cell)) (f : String) {r' r : List Cell}
    (hp : r'.map (subst regs) ~ r) (hr : ∀ c ∈ r, Cell.resort c = c) :
    Cell.resort (subst regs (mkRed f r')) = mkRed f r := by
  match r', hp with
  | [], hp =>
    have : r = [] := by simpa using hp.symm.eq_nil
    subst this
    simp [mkRed, subst_app, Cell.resort, sortCells]
  | [c'], hp =>
    have : r = [subst regs c'] := by simpa using (List.perm_singleton.mp hp.symm)
    subst this
    simp only [mkRed]
    exact hr _ (by simp)
  | a :: b :: t, hp =>
    have hlen := hp.length_eq
    match r, hp, hlen with
    | x :: y :: t', hp, _ =>
      simp only [mkRed, subst_app, Cell.resort]
      congr 1
      exact sortCells_perm (((sortCells_perm_self (a :: b :: t)).map _).trans hp)

theorem redArgs_src {v : List Dim} {s : List Nat} {σ : Assign} {r : List Cell} (h : redArgs v s σ = some r) :
    ∀ c ∈ r, Cell.resort c = c := by
  intro c hc
  obtain ⟨τ, _, hτ⟩ := mapOpt_mem h hc
  unfold redCell at hτ
  cases ha : inputAssign σ τ (Dim.leavesL v) with
  | none => simp [ha] at hτ
  | some a =>
    simp only [ha, cellAt] at hτ
    cases hf : flatPos v s a with
    | none => simp [hf] at hτ
    | some k =>
      simp only [hf, Option.map_some, Option.some.injEq] at hτ
      subst hτ; rfl

theorem redX_permute_input {f : String} {v v' w : List Dim} {perm : List Nat} {plan : Plan} {σ : Assign}
    (hperm : isPermOf perm v.length = true) (hv' : permuteL perm v = some v')
    (hc : Dim.concatFreeL v = true) (hcons : Consistent (Dim.leavesL v ++ Dim.leavesL w))
    (hms : MarkSep (Dim.leavesL v)) (hplan : planInstr [viewShape v] (.transpose 0 perm) = .ok plan)
    (hσ : σ ∈ outAssignments w) :
    (redX f v' (viewShape v') σ).map (fun c => Cell.resort (subst [⟨plan.shape, plan.cells⟩] c))
      = redX f v (viewShape v) σ := by
  unfold redX
  rcases redArgs_permute_input hperm hv' hc hcons hms hplan hσ with ⟨e1, e2⟩ | ⟨r', r, e1, e2, hp⟩
  · rw [e1, e2]; rfl
  · rw [e1, e2]
    simp only [Option.map_some, Option.some.injEq]
    exact resort_subst_mkRed _ f hp (redArgs_src e2)

/-- **Permuting the root dimensions of the input view of a reduction -- bracketed or not -- together with the
tensor leaves the whole result unchanged** (after re-canonicalising the reduction cells). -/
theorem reduceCells_permute_input {f : String} {v v' w : List Dim} {sw perm : List Nat} {plan : Plan}
    (hperm : isPermOf perm v.length = true) (hv' : permuteL perm v = some v')
    (hc : Dim.concatFreeL v = true) (hcons : Consistent (Dim.leavesL v ++ Dim.leavesL w))
    (hms : MarkSep (Dim.leavesL v)) (hplan : planInstr [viewShape v] (.transpose 0 perm) = .ok plan) :
    (reduceCells f v' (viewShape v') w sw).map
        (List.map (fun c => Cell.resort (subst [⟨plan.shape, plan.cells⟩] c)))
      = reduceCells f v (viewShape v) w sw := by
  unfold reduceCells
  rw [← genCells_map]
  exact genCells_congr (fun σ hσ => redX_permute_input hperm hv' hc hcons hms hplan hσ)

/-! ### the same, semantically: any interpretation with permutation-invariant reductions -/

/-- The interpretation of every reduction symbol `red:g` is invariant under permutations of its arguments. -/
def RedInvariant {α : Type} (A : Alg α) : Prop :=
  ∀ (g : String) (xs ys : List α), xs ~ ys → A.app ("red:" ++ g) xs = A.app ("red:" ++ g) ys

theorem evalHom {α : Type} (A : Alg α) (xs : List (Tensor α)) : Hom symAlg A (evalCell A xs) where
  lit := fun i => by simp [symAlg, evalCell]
  app := fun f args => by simp [symAlg, evalCell, evalCells_eq_map]
  bad := by simp [symAlg, evalCell]

/-- Evaluating a substituted cell = evaluating the cell over the evaluated tensors. -/
theorem eval_subst {α : Type} (A : Alg α) (xs : List (Tensor α)) (ts : List (Tensor Cell)) (c : Cell) :
    evalCell A xs (subst ts c) = evalCell A (ts.map (Tensor.map (evalCell A xs))) c :=
  (evalCell_map (evalHom A xs) ts c).symm

theorem eval_mkRed_perm {α : Type} {A : Alg α} (hA : RedInvariant A) (f : String) (xs ys : List (Tensor α))
    {r' r : List Cell} (hp : r'.map (evalCell A xs) ~ r.map (evalCell A ys)) :
    evalCell A xs (mkRed f r') = evalCell A ys (mkRed f r) := by
  match r', hp with
  | [], hp =>
    have : r = [] := by simpa using hp.symm.eq_nil
    subst this; simp [mkRed, evalCell, evalCells, sortCells]
  | [c'], hp =>
    have hl := hp.length_eq
    match r, hp, hl with
    | [c], hp, _ =>
      have := List.perm_singleton.mp hp.symm
      simpa [mkRed] using this.symm
  | a :: b :: t, hp =>
    have hlen := hp.length_eq
    match r, hp, hlen with
    | x :: y :: t', hp, _ =>
      simp only [mkRed, evalCell, evalCells_eq_map]
      apply hA
      exact (((sortCells_perm_self (a :: b :: t)).map _).trans hp).trans ((sortCells_perm_self (x :: y :: t')).map _).symm

/-- **Input permutation law of reductions, semantically.**  For every element algebra whose reduction symbols are
permutation invariant and every concrete input tensor `x`: the permuted operation evaluated on the transposed tensor
(`runPlan A [x] plan`, `plan` the IR's transpose plan) gives the same values as the original operation on `x`. -/
theorem reduceCells_permute_input_sem {α : Type} {A : Alg α} (hA : RedInvariant A) (x : Tensor α)
    {f : String} {v v' w : List Dim} {sw perm : List Nat} {plan : Plan}
    (hperm : isPermOf perm v.length = true) (hv' : permuteL perm v = some v')
    (hc : Dim.concatFreeL v = true) (hcons : Consistent (Dim.leavesL v ++ Dim.leavesL w))
    (hms : MarkSep (Dim.leavesL v)) (hplan : planInstr [viewShape v] (.transpose 0 perm) = .ok plan) :
    (reduceCells f v' (viewShape v') w sw).map (List.map (evalCell A [runPlan A [x] plan]))
      = (reduceCells f v (viewShape v) w sw).map (List.map (evalCell A [x])) := by
  have hsyn := reduceCells_permute_input (f := f) (sw := sw) hperm hv' hc hcons hms hplan
  have hreg : [runPlan A [x] plan] = [(⟨plan.shape, plan.cells⟩ : Tensor Cell)].map (Tensor.map (evalCell A [x])) := by
    simp [runPlan, Tensor.map, evalCells_eq_map]
  cases hcs' : reduceCells f v' (viewShape v') w sw with
  | none => rw [hcs'] at hsyn; rw [← hsyn]; rfl
  | some cs' =>
    rw [hcs'] at hsyn
    rw [← hsyn]
    simp only [Option.map_some, Option.some.injEq, List.map_map]
    apply List.map_congr_left
    intro c' hc'
    obtain ⟨k, hk, hget⟩ := List.getElem_of_mem hc'
    obtain ⟨_, hlen, hall⟩ := genCells_spec hcs'
    obtain ⟨σ, hσ, _, hX⟩ := hall k (by rw [← hlen]; exact hk)
    rw [List.getElem?_eq_getElem hk, hget] at hX
    unfold redX at hX
    rcases redArgs_permute_input hperm hv' hc hcons hms hplan hσ with ⟨e1, _⟩ | ⟨r', r, e1, e2, hp⟩
    · rw [e1] at hX; simp at hX
    · rw [e1] at hX
      simp only [Option.map_some, Option.some.injEq] at hX
      subst hX
      simp only [Function.comp]
      rw [resort_subst_mkRed _ f hp (redArgs_src e2)]
      apply eval_mkRed_perm hA
      have := hp.map (evalCell A [x])
      rw [List.map_map] at this
      have hfun : (evalCell A [x] ∘ subst [⟨plan.shape, plan.cells⟩]) = evalCell A [runPlan A [x] plan] := by
        funext c; simp only [Function.comp, eval_subst, hreg]
      rw [hfun] at this
      exact this

end Einx.Denote
