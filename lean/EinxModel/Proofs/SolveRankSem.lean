import EinxModel.Proofs.SolveSemInput
import EinxModel.Props.C02
/-!
The rank system read semantically (for the shorthand theorems):
`sameName_holds` – the same-name equations say that every occurrence of a name has the depth and,
level by level, the counts of the first occurrence; `axesOf_occs` – every expanded axis comes from
an occurrence and its indices are below the counts of the enclosing ellipses;
`constraintValue_defined` – under the rank system a well-formed constraint array has a value for
every expanded axis of its name.
-/
namespace Einx.Solve

/-- same depth and, level by level, equal counts -/
def sameCounts (ρ : Var → Nat) : List Var → List Var → Prop
  | [], [] => True
  | a :: as, b :: bs => ρ a = ρ b ∧ sameCounts ρ as bs
  | _, _ => False

/-- indices below the counts -/
def bounded (ρ : Var → Nat) : List Nat → List Var → Prop
  | [], [] => True
  | i :: is, id :: ids => i < ρ id ∧ bounded ρ is ids
  | _, _ => False

/-- counts equal to the dimensions of an array -/
def matchShape (ρ : Var → Nat) : List Var → List Nat → Prop
  | [], [] => True
  | id :: ids, d :: ds => ρ id = d ∧ matchShape ρ ids ds
  | _, _ => False

def inRange : List Nat → List Nat → Prop
  | [], [] => True
  | i :: is, d :: ds => i < d ∧ inRange is ds
  | _, _ => False

theorem sameCounts_refl (ρ : Var → Nat) : ∀ st, sameCounts ρ st st
  | [] => trivial
  | _ :: st => ⟨rfl, sameCounts_refl ρ st⟩

theorem sameCounts_length {ρ : Var → Nat} : ∀ {a b : List Var}, sameCounts ρ a b → a.length = b.length
  | [], [], _ => rfl
  | _ :: as, _ :: bs, h => by simp [sameCounts_length h.2]
  | [], _ :: _, h => h.elim
  | _ :: _, [], h => h.elim

theorem bounded_length {ρ : Var → Nat} : ∀ {a : List Nat} {b : List Var}, bounded ρ a b → a.length = b.length
  | [], [], _ => rfl
  | _ :: as, _ :: bs, h => by simp [bounded_length h.2]
  | [], _ :: _, h => h.elim
  | _ :: _, [], h => h.elim

theorem sameCounts_drop {ρ : Var → Nat} : ∀ (n : Nat) {a b : List Var}, sameCounts ρ a b →
    sameCounts ρ (a.drop n) (b.drop n)
  | 0, _, _, h => by simpa using h
  | _ + 1, [], [], _ => by simp [sameCounts]
  | n + 1, _ :: as, _ :: bs, h => by simpa using sameCounts_drop n h.2
  | _ + 1, [], _ :: _, h => h.elim
  | _ + 1, _ :: _, [], h => h.elim

theorem bounded_drop {ρ : Var → Nat} : ∀ (n : Nat) {a : List Nat} {b : List Var}, bounded ρ a b →
    bounded ρ (a.drop n) (b.drop n)
  | 0, _, _, h => by simpa using h
  | _ + 1, [], [], _ => by simp [bounded]
  | n + 1, _ :: as, _ :: bs, h => by simpa using bounded_drop n h.2
  | _ + 1, [], _ :: _, h => h.elim
  | _ + 1, _ :: _, [], h => h.elim

theorem bounded_snoc {ρ : Var → Nat} : ∀ {a : List Nat} {b : List Var} {i : Nat} {id : Var},
    bounded ρ a b → i < ρ id → bounded ρ (a ++ [i]) (b ++ [id])
  | [], [], _, _, _, hi => ⟨hi, trivial⟩
  | _ :: as, _ :: bs, _, _, h, hi => ⟨h.1, bounded_snoc h.2 hi⟩
  | [], _ :: _, _, _, h, _ => h.elim
  | _ :: _, [], _, _, h, _ => h.elim

/-- indices below counts, counts equal to those of the reference occurrence, which equal the array
dimensions ⇒ the indices are inside the array -/
theorem inRange_of {ρ : Var → Nat} : ∀ {is : List Nat} {st st0 : List Var} {ds : List Nat},
    bounded ρ is st → sameCounts ρ st0 st → matchShape ρ st0 ds → inRange is ds
  | [], [], [], [], _, _, _ => trivial
  | i :: is, a :: st, b :: st0, d :: ds, hb, hs, hm => by
    refine ⟨?_, inRange_of hb.2 hs.2 hm.2⟩
    have := hb.1; rw [← hs.1, hm.1] at this; exact this
  | [], _ :: _, _, _, hb, _, _ => hb.elim
  | _ :: _, [], _, _, hb, _, _ => hb.elim
  | [], [], _ :: _, _, _, hs, _ => hs.elim
  | _ :: _, _ :: _, [], _, _, hs, _ => hs.elim
  | [], [], [], _ :: _, _, _, hm => hm.elim
  | _ :: _, _ :: _, _ :: _, [], _, _, hm => hm.elim

theorem ravel?_inRange : ∀ {ds is : List Nat}, inRange is ds →
    ∃ r, ravel? ds is = some r ∧ r < ds.foldr (· * ·) 1
  | [], [], _ => ⟨0, rfl, by simp⟩
  | d :: ds, i :: is, h => by
    obtain ⟨r, hr, hlt⟩ := ravel?_inRange h.2
    refine ⟨i * ds.foldr (· * ·) 1 + r, ?_, ?_⟩
    · simp only [ravel?, h.1, ↓reduceIte, hr, Option.map_some]
    · simp only [List.foldr_cons]
      have h1 := h.1
      calc i * ds.foldr (· * ·) 1 + r < i * ds.foldr (· * ·) 1 + ds.foldr (· * ·) 1 := by omega
        _ = (i + 1) * ds.foldr (· * ·) 1 := by rw [Nat.add_mul, Nat.one_mul]
        _ ≤ d * ds.foldr (· * ·) 1 := Nat.mul_le_mul_right _ h1
  | [], _ :: _, h => h.elim
  | _ :: _, [], h => h.elim

/-! ### Same-name equations -/

theorem lookup_cons_ne' {β : Type} {l : List (String × β)} {x y : String} {v : β} (h : y ≠ x) :
    List.lookup y ((x, v) :: l) = l.lookup y := by
  simp only [List.lookup]
  have : (y == x) = false := by simpa using h
  rw [this]

theorem lookup_cons_self' {β : Type} {l : List (String × β)} {x : String} {v : β} :
    List.lookup x ((x, v) :: l) = some v := by
  simp [List.lookup]

theorem holds_varEq (ρ : Var → Nat) (a b : Var) : holds ρ (varEq a b) ↔ ρ a = ρ b := by
  simp [holds, varEq, evalPoly, evalMono, prodVars]

theorem zipEqns_holds' (ρ : Var → Nat) : ∀ (as bs : List Var), as.length = bs.length →
    ((∀ q ∈ zipEqns as bs, holds ρ q) ↔ sameCounts ρ as bs)
  | [], [], _ => by simp [zipEqns, sameCounts]
  | a :: as, b :: bs, h => by
    have ih := zipEqns_holds' ρ as bs (by simpa using h)
    simp only [zipEqns, List.forall_mem_append, sameCounts]
    rw [ih]
    by_cases hab : a = b
    · subst hab; simp
    · simp only [hab, ↓reduceIte, List.forall_mem_cons, List.not_mem_nil, false_imp_iff, implies_true, and_true]
      rw [holds_varEq]
  | [], _ :: _, h => by simp at h
  | _ :: _, [], h => by simp at h

theorem sameName_holds (ρ : Var → Nat) : ∀ (l seen : List (String × List Var)),
    (∀ q ∈ sameNameEqns seen l, holds ρ q) ↔
      ∀ p ∈ l, ∀ st0, (seen ++ l).lookup p.1 = some st0 → sameCounts ρ st0 p.2
  | [], seen => by simp [sameNameEqns]
  | (n, st) :: rest, seen => by
    unfold sameNameEqns
    cases hs : seen.lookup n with
    | none =>
      simp only
      rw [sameName_holds ρ rest ((n, st) :: seen)]
      have key : ∀ m, (((n, st) :: seen) ++ rest).lookup m = (seen ++ (n, st) :: rest).lookup m := by
        intro m
        by_cases hm : m = n
        · subst hm
          simp [List.lookup_append, hs, lookup_cons_self']
        · rw [List.cons_append, lookup_cons_ne' hm, List.lookup_append, List.lookup_append, lookup_cons_ne' hm]
      simp only [key, List.forall_mem_cons]
      constructor
      · intro h
        refine ⟨?_, h⟩
        intro st0 h0
        rw [List.lookup_append, hs] at h0
        simp [List.lookup] at h0
        rw [← h0]; exact sameCounts_refl ρ st
      · intro h; exact h.2
    | some st0 =>
      simp only [List.forall_mem_append]
      rw [sameName_holds ρ rest seen]
      have key : ∀ m, (seen ++ (n, st) :: rest).lookup m = (seen ++ rest).lookup m := by
        intro m
        by_cases hm : m = n
        · subst hm
          rw [List.lookup_append, List.lookup_append, hs]; rfl
        · rw [List.lookup_append, List.lookup_append, lookup_cons_ne' hm]
      simp only [key, List.forall_mem_cons]
      have hl : (seen ++ rest).lookup n = some st0 := by rw [List.lookup_append, hs]; rfl
      apply and_congr_left'
      constructor
      · intro h st0' h0
        rw [hl] at h0; injection h0 with h0; subst h0
        by_cases hlen : st.length = st0.length
        · simp only [hlen, ↓reduceIte] at h
          exact (zipEqns_holds' ρ st0 st hlen.symm).mp h
        · simp only [hlen, ↓reduceIte, List.forall_mem_cons] at h
          exact absurd h.1 (not_holds_contra ρ)
      · intro h
        have hsc := h st0 hl
        have hlen := sameCounts_length hsc
        simp only [hlen, ↓reduceIte]
        exact (zipEqns_holds' ρ st0 st hlen).mpr hsc

/-! ### Expanded axes come from occurrences -/

theorem axesOfL_eq (ρ : Var → Nat) (idx : List Nat) : ∀ cs, axesOfL ρ idx cs = cs.flatMap (axesOf ρ idx)
  | [] => rfl
  | c :: cs => by simp only [axesOfL, List.flatMap_cons, axesOfL_eq ρ idx cs]

theorem occsL_eq (stack : List Var) : ∀ cs, occsL stack cs = cs.flatMap (occs stack)
  | [] => rfl
  | c :: cs => by simp only [occsL, List.flatMap_cons, occsL_eq stack cs]

mutual
theorem axesOf_occs (ρ : Var → Nat) : ∀ (e : Expr) (idx : List Nat) (stack : List Var), bounded ρ idx stack →
    ∀ a ∈ axesOf ρ idx e, ∃ st, (a.1, st) ∈ occs stack e ∧ bounded ρ a.2.1 st
  | .axis n, idx, stack, hb, a, ha => by
    simp only [axesOf, List.mem_singleton] at ha
    subst ha
    exact ⟨stack, by simp [occs], hb⟩
  | .num _, _, _, _, a, ha => by simp [axesOf] at ha
  | .brackets e, idx, stack, hb, a, ha => by
    simp only [axesOf] at ha; simp only [occs]; exact axesOf_occs ρ e idx stack hb a ha
  | .flat e, idx, stack, hb, a, ha => by
    simp only [axesOf] at ha; simp only [occs]; exact axesOf_occs ρ e idx stack hb a ha
  | .concat cs, idx, stack, hb, a, ha => by
    simp only [axesOf] at ha; simp only [occs]; exact axesOfL_occs ρ cs idx stack hb a ha
  | .ellipsis id e, idx, stack, hb, a, ha => by
    simp only [axesOf, List.mem_flatMap, List.mem_range] at ha
    obtain ⟨i, hi, ha⟩ := ha
    simp only [occs]
    exact axesOf_occs ρ e (idx ++ [i]) (stack ++ [id]) (bounded_snoc hb hi) a ha
  | .list cs, idx, stack, hb, a, ha => by
    simp only [axesOf] at ha; simp only [occs]; exact axesOfL_occs ρ cs idx stack hb a ha
theorem axesOfL_occs (ρ : Var → Nat) : ∀ (cs : List Expr) (idx : List Nat) (stack : List Var), bounded ρ idx stack →
    ∀ a ∈ axesOfL ρ idx cs, ∃ st, (a.1, st) ∈ occsL stack cs ∧ bounded ρ a.2.1 st
  | [], _, _, _, a, ha => by simp [axesOfL] at ha
  | c :: cs, idx, stack, hb, a, ha => by
    simp only [axesOfL, List.mem_append] at ha
    simp only [occsL, List.mem_append]
    rcases ha with ha | ha
    · obtain ⟨st, h1, h2⟩ := axesOf_occs ρ c idx stack hb a ha
      exact ⟨st, Or.inl h1, h2⟩
    · obtain ⟨st, h1, h2⟩ := axesOfL_occs ρ cs idx stack hb a ha
      exact ⟨st, Or.inr h1, h2⟩
end

theorem mem_of_lookup {l : List (String × List Var)} {n : String} {st : List Var}
    (h : l.lookup n = some st) : (n, st) ∈ l := by
  induction l with
  | nil => simp [List.lookup] at h
  | cons p l ih =>
    obtain ⟨m, s⟩ := p
    by_cases hm : n = m
    · subst hm
      rw [lookup_cons_self'] at h
      injection h with h; subst h; exact List.mem_cons_self
    · rw [lookup_cons_ne' hm] at h
      exact List.mem_cons_of_mem _ (ih h)

theorem lookup_isSome_of_mem {l : List (String × List Var)} {n : String} {st : List Var}
    (h : (n, st) ∈ l) : ∃ st0, l.lookup n = some st0 := by
  induction l with
  | nil => cases h
  | cons p l ih =>
    obtain ⟨m, s⟩ := p
    by_cases hm : n = m
    · subst hm; exact ⟨s, lookup_cons_self'⟩
    · rw [lookup_cons_ne' hm]
      cases h with
      | head => exact absurd rfl hm
      | tail _ h => exact ih h

/-! ### The rank system, unfolded -/

theorem sat_rankSystem_iff (inp : Input) (ρ : Var → Nat) :
    Sat (rankSystem true inp) ρ ↔
      (∀ t ∈ inp.tensors, ∀ q ∈ rankEqn t, holds ρ q) ∧
      (∀ q ∈ sameNameEqns [] inp.occs, holds ρ q) ∧
      (∀ c ∈ inp.constraints, ∀ q ∈ constraintRankEqns true inp.occs c, holds ρ q) := by
  unfold Sat rankSystem
  simp only [List.forall_mem_map, Nat.zero_le, implies_true, true_and, List.forall_mem_append,
    List.forall_mem_flatMap]
  constructor
  · rintro ⟨⟨h1, h2⟩, h3⟩; exact ⟨h1, h2, h3⟩
  · rintro ⟨h1, h2, h3⟩; exact ⟨⟨h1, h2⟩, h3⟩

theorem zipConst_holds (ρ : Var → Nat) : ∀ (ids : List Var) (ds : List Nat), ids.length = ds.length →
    ((∀ q ∈ (ids.zip ds).map (fun p => varConst p.1 p.2), holds ρ q) ↔ matchShape ρ ids ds)
  | [], [], _ => by simp [matchShape]
  | id :: ids, d :: ds, h => by
    have ih := zipConst_holds ρ ids ds (by simpa using h)
    simp only [List.zip_cons_cons, List.map_cons, List.forall_mem_cons, matchShape]
    rw [ih, holds_varConst]
  | [], _ :: _, h => by simp at h
  | _ :: _, [], h => by simp at h

/-- What the rank equations of a constraint array say. -/
theorem constraintRank_holds (ρ : Var → Nat) (occ : List (String × List Var)) (c : Constraint) (st : List Var)
    (hst : occ.lookup c.name = some st) :
    (∀ q ∈ constraintRankEqns true occ c, holds ρ q) ↔
      c.shape.length ≤ st.length ∧ matchShape ρ (st.drop (st.length - c.shape.length)) c.shape := by
  unfold constraintRankEqns
  simp only [hst]
  by_cases hlt : st.length < c.shape.length
  · simp only [hlt, ↓reduceIte, List.forall_mem_cons, List.not_mem_nil, false_imp_iff, implies_true, and_true]
    constructor
    · intro h; exact absurd h (not_holds_contra ρ)
    · intro h; omega
  · simp only [hlt, ↓reduceIte]
    have hlen : (st.drop (st.length - c.shape.length)).length = c.shape.length := by
      rw [List.length_drop]; omega
    rw [zipConst_holds ρ _ _ hlen]
    constructor
    · intro h; exact ⟨by omega, h⟩
    · intro h; exact h.2

/-- Under the rank system, a well-formed constraint array has a value for every expanded axis of its name. -/
theorem constraintValue_defined (inp : Input) (ρ : Var → Nat) (hρ : Sat (rankSystem true inp) ρ)
    (c : Constraint) (hc : c ∈ inp.constraints) (hwf : c.vals.length = c.shape.foldr (· * ·) 1)
    (t : Tensor) (ht : t ∈ inp.tensors) (a : String × List Nat × Var) (ha : a ∈ axesOf ρ [] t.expr)
    (hn : a.1 = c.name) : ∃ v, constraintValue c a.2.1 = some v := by
  rw [sat_rankSystem_iff] at hρ
  obtain ⟨_, hsame, hcr⟩ := hρ
  obtain ⟨st, hocc, hb⟩ := axesOf_occs ρ t.expr [] [] trivial a ha
  have hmem : (a.1, st) ∈ inp.occs := by
    unfold Input.occs
    exact List.mem_flatMap.mpr ⟨t, ht, hocc⟩
  obtain ⟨st0, hl⟩ := lookup_isSome_of_mem hmem
  have hsc : sameCounts ρ st0 st := by
    have := (sameName_holds ρ inp.occs []).mp hsame (a.1, st) hmem st0
    simpa using this hl
  rw [hn] at hl
  obtain ⟨hle, hms⟩ := (constraintRank_holds ρ inp.occs c st0 hl).mp (hcr c hc)
  have hlen0 := sameCounts_length hsc
  have hlen1 := bounded_length hb
  rw [hlen0] at hms hle
  have hr := inRange_of (bounded_drop (st.length - c.shape.length) hb)
    (sameCounts_drop (st.length - c.shape.length) hsc) hms
  obtain ⟨r, hr1, hr2⟩ := ravel?_inRange hr
  unfold constraintValue
  have hnlt : ¬ a.2.1.length < c.shape.length := by omega
  simp only [hnlt, ↓reduceIte]
  rw [hlen1, hr1]
  simp only
  have : r < c.vals.length := by omega
  exact ⟨c.vals[r], by simp [this]⟩

end Einx.Solve
