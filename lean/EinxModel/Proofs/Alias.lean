import EinxModel.Alias.Model
/-!
Helper lemmas for C09: the may-alias analysis over-approximates the root sharing of the store
semantics (`Inv`, preserved by every step), the written set only grows, and objects that no written
input denotes keep their contents (`execFrom_frame`).
-/
namespace Einx.Alias

/-! ### dedup -/

theorem mem_dedup {x : Nat} : ∀ {l : List Nat}, x ∈ dedup l ↔ x ∈ l
  | [] => by simp [dedup]
  | y :: ys => by
    have ih := @mem_dedup x ys
    by_cases h : x = y
    · subst h; simp [dedup]
    · simp [dedup, List.mem_filter, ih, h]

theorem dedup_nodup : ∀ (l : List Nat), (dedup l).Nodup
  | [] => by simp [dedup]
  | y :: ys => by
    have ih := dedup_nodup ys
    simp only [dedup, List.nodup_cons, List.mem_filter]
    refine ⟨by simp, ih.filter _⟩

/-! ### the written set only grows -/

theorem step_written_mono (a : Abs) (nd : Node) {x : Nat} (h : x ∈ a.written) : x ∈ (a.step nd).written := by
  cases nd <;> simp [Abs.step, h]

theorem analyseFrom_written_mono : ∀ (ns : List Node) (a : Abs) {x : Nat}, x ∈ a.written → x ∈ (analyseFrom ns a).written
  | [], _, _, h => h
  | nd :: rest, a, _, h => analyseFrom_written_mono rest (a.step nd) (step_written_mono a nd h)

theorem step_regs_length (a : Abs) (nd : Node) : (a.step nd).regs.length = a.regs.length + 1 := by
  cases nd <;> simp [Abs.step]

/-- Without in-place nodes nothing is ever added to the written set. -/
theorem analyseFrom_written_noInplace : ∀ (ns : List Node) (a : Abs), ns.all (fun nd => !nd.isInplace) = true →
    (analyseFrom ns a).written = a.written
  | [], _, _ => rfl
  | nd :: rest, a, h => by
    simp only [List.all_cons, Bool.and_eq_true] at h
    rw [analyseFrom, analyseFrom_written_noInplace rest _ h.2]
    cases nd <;> simp_all [Abs.step, Node.isInplace]

theorem analyseFrom_append (ns ms : List Node) (a : Abs) : analyseFrom (ns ++ ms) a = analyseFrom ms (analyseFrom ns a) := by
  induction ns generalizing a with
  | nil => rfl
  | cons nd rest ih => simp [analyseFrom, ih]

theorem analyseFrom_regs_length : ∀ (ns : List Node) (a : Abs), (analyseFrom ns a).regs.length = a.regs.length + ns.length
  | [], _ => rfl
  | nd :: rest, a => by
    rw [analyseFrom, analyseFrom_regs_length rest, step_regs_length]; simp; omega

/-- Registers keep their abstract value once defined. -/
theorem step_rootsOf_old (a : Abs) (nd : Node) {r : Nat} (h : r < a.regs.length) :
    rootsOf (a.step nd).regs r = rootsOf a.regs r := by
  cases nd <;> simp [Abs.step, rootsOf, List.getElem?_append_left h]

theorem analyseFrom_rootsOf_old : ∀ (ns : List Node) (a : Abs) {r : Nat}, r < a.regs.length →
    rootsOf (analyseFrom ns a).regs r = rootsOf a.regs r
  | [], _, _, _ => rfl
  | nd :: rest, a, r, h => by
    rw [analyseFrom, analyseFrom_rootsOf_old rest (a.step nd) (by rw [step_regs_length]; omega), step_rootsOf_old a nd h]

/-! ### the invariant -/

/-- The analysis over-approximates the store: registers and abstract registers are in step, the
initial objects `0 … N0-1` are still there, and whenever a register denotes an *initial* object `o`,
that object is the object of one of the inputs the analysis lists for the register. -/
def Inv {V} (N0 : Nat) (inObjs : List Nat) (st : State V) (a : Abs) : Prop :=
  st.regs.length = a.regs.length ∧ N0 ≤ st.objs.length ∧
    ∀ r o, st.regs[r]? = some o → o < N0 → ∃ i ∈ rootsOf a.regs r, inObjs[i]? = some o

theorem inv_init {V} (inObjs : List Nat) (objs : List V) :
    Inv objs.length inObjs ({ regs := inObjs, objs := objs } : State V) (Abs.init inObjs.length) := by
  refine ⟨by simp [Abs.init], Nat.le_refl _, ?_⟩
  intro r o hr _
  have hlt : r < inObjs.length := by
    rcases Nat.lt_or_ge r inObjs.length with h | h
    · exact h
    · simp [List.getElem?_eq_none h] at hr
  refine ⟨r, ?_, hr⟩
  simp [rootsOf, Abs.init, hlt]

/-- Extending both states by a register whose object is covered keeps the invariant. -/
theorem inv_push {V} {N0 : Nat} {inObjs : List Nat} {st : State V} {a : Abs} (h : Inv N0 inObjs st a)
    (o' : Nat) (roots : List Nat) (objs' : List V) (hlen : N0 ≤ objs'.length)
    (hcov : o' < N0 → ∃ i ∈ roots, inObjs[i]? = some o') :
    Inv N0 inObjs ({ regs := st.regs ++ [o'], objs := objs' } : State V) { regs := a.regs ++ [roots], written := a.written } := by
  obtain ⟨hl, _, hc⟩ := h
  refine ⟨by simp [hl], hlen, ?_⟩
  intro r o hr ho
  rcases Nat.lt_or_ge r st.regs.length with hlt | hge
  · rw [List.getElem?_append_left hlt] at hr
    obtain ⟨i, hi, hio⟩ := hc r o hr ho
    refine ⟨i, ?_, hio⟩
    simpa [rootsOf, List.getElem?_append_left (hl ▸ hlt)] using hi
  · rw [List.getElem?_append_right hge] at hr
    have hr0 : r = st.regs.length := by
      rcases Nat.eq_or_lt_of_le hge with h | h
      · exact h.symm
      · have : 1 ≤ r - st.regs.length := by omega
        simp [List.getElem?_eq_none (l := [o']) (by simpa using this)] at hr
    subst hr0
    simp at hr
    subst hr
    obtain ⟨i, hi, hio⟩ := hcov ho
    refine ⟨i, ?_, hio⟩
    simp [rootsOf, hl]
    exact hi

theorem inv_written_irrel {V} {N0 : Nat} {inObjs : List Nat} {st : State V} {a : Abs} (w : List Nat)
    (h : Inv N0 inObjs st a) : Inv N0 inObjs st { a with written := w } := h

theorem inv_alloc {V} {N0 : Nat} {inObjs : List Nat} {st : State V} {a : Abs} (h : Inv N0 inObjs st a)
    (b : Behav V) (n : Nat) (roots : List Nat) :
    Inv N0 inObjs (st.alloc b n) { regs := a.regs ++ [roots], written := a.written } := by
  apply inv_push h
  · simp; have := h.2.1; omega
  · intro hlt; have := h.2.1; omega

/-- Every step of the store semantics is matched by the step of the analysis. -/
theorem inv_step {V} {N0 : Nat} {inObjs : List Nat} {st : State V} {a : Abs} (h : Inv N0 inObjs st a)
    (b : Behav V) (n : Nat) (nd : Node) : Inv N0 inObjs (st.step b n nd) (a.step nd) := by
  cases nd with
  | fresh rd => exact inv_alloc h b n []
  | view srcs =>
    simp only [State.step, Abs.step]
    split
    · rename_i o heq
      apply inv_push h o _ st.objs h.2.1
      intro ho
      -- `o` is the object of one of the sources
      cases hc : b.choose n with
      | none => simp [hc] at heq
      | some k =>
        simp only [hc, Option.bind_some] at heq
        cases hs : srcs[k]? with
        | none => simp [hs] at heq
        | some s =>
          simp only [hs, Option.bind_some] at heq
          obtain ⟨i, hi, hio⟩ := h.2.2 s o heq ho
          refine ⟨i, ?_, hio⟩
          simp only [List.mem_flatMap]
          exact ⟨s, List.mem_of_getElem? hs, hi⟩
    · exact inv_alloc h b n _
  | same s =>
    simp only [State.step, Abs.step]
    split
    · rename_i o heq
      apply inv_push h o _ st.objs h.2.1
      intro ho
      exact h.2.2 s o heq ho
    · exact inv_alloc h b n _
  | inplace t rd =>
    simp only [State.step, Abs.step]
    split
    · rename_i o heq
      have := inv_push h o (rootsOf a.regs t) (st.objs.set o (b.newVal n st)) (by simp; exact h.2.1)
        (fun ho => h.2.2 t o heq ho)
      exact this
    · exact inv_written_irrel _ (inv_alloc h b n _)

theorem inv_execFrom {V} {N0 : Nat} {inObjs : List Nat} (b : Behav V) :
    ∀ (ns : List Node) (n : Nat) (st : State V) (a : Abs), Inv N0 inObjs st a →
      Inv N0 inObjs (execFrom b n ns st) (analyseFrom ns a)
  | [], _, _, _, h => h
  | nd :: rest, n, _, _, h => inv_execFrom b rest (n + 1) _ _ (inv_step h b n nd)

/-! ### well-formed graphs never take the dangling-register branch -/

theorem step_regs_length' {V} (b : Behav V) (n : Nat) (st : State V) (nd : Node) :
    (st.step b n nd).regs.length = st.regs.length + 1 := by
  cases nd <;> simp only [State.step] <;> (try split) <;> simp [State.alloc, State.bindTo]

theorem execFrom_regs_length {V} (b : Behav V) : ∀ (ns : List Node) (n : Nat) (st : State V),
    (execFrom b n ns st).regs.length = st.regs.length + ns.length
  | [], _, _ => rfl
  | nd :: rest, n, st => by
    rw [execFrom, execFrom_regs_length b rest, step_regs_length']; simp; omega

/-! ### the frame property -/

/-- One step leaves an initial object alone unless it is the object of an input that the step
records as written. -/
theorem step_frame {V} {N0 : Nat} {inObjs : List Nat} {st : State V} {a : Abs} (h : Inv N0 inObjs st a)
    (b : Behav V) (n : Nat) (nd : Node) (o : Nat) (ho : o < N0)
    (hw : ∀ i ∈ (a.step nd).written, inObjs[i]? ≠ some o) : (st.step b n nd).objs[o]? = st.objs[o]? := by
  have hlen : o < st.objs.length := Nat.lt_of_lt_of_le ho h.2.1
  have halloc : (st.alloc b n).objs[o]? = st.objs[o]? := by
    simp [State.alloc, List.getElem?_append_left hlen]
  cases nd with
  | fresh rd => exact halloc
  | view srcs =>
    simp only [State.step]
    split
    · rfl
    · exact halloc
  | same s =>
    simp only [State.step]
    split
    · rfl
    · exact halloc
  | inplace t rd =>
    simp only [State.step]
    split
    · rename_i ot heq
      have hne : ot ≠ o := by
        intro he
        subst he
        obtain ⟨i, hi, hio⟩ := h.2.2 t ot heq ho
        exact hw i (by simp [Abs.step, hi]) hio
      simp [List.getElem?_set_ne hne]
    · exact halloc

/-- Executing any node list leaves every initial object alone that is not the object of a may-written
input. -/
theorem execFrom_frame {V} {N0 : Nat} {inObjs : List Nat} (b : Behav V) (o : Nat) (ho : o < N0) :
    ∀ (ns : List Node) (n : Nat) (st : State V) (a : Abs), Inv N0 inObjs st a →
      (∀ i ∈ (analyseFrom ns a).written, inObjs[i]? ≠ some o) → (execFrom b n ns st).objs[o]? = st.objs[o]?
  | [], _, _, _, _, _ => rfl
  | nd :: rest, n, st, a, h, hw => by
    have h' := inv_step h b n nd
    rw [execFrom, execFrom_frame b o ho rest (n + 1) _ _ h' hw]
    apply step_frame h b n nd o ho
    intro i hi
    exact hw i (analyseFrom_written_mono rest _ hi)

end Einx.Alias
