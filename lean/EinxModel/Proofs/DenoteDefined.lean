import EinxModel.Proofs.Denote
import Mathlib.Data.List.Perm.Subperm
import Mathlib.Data.List.Nodup
/-!
Definedness of the output-permuted `id` denotation from definedness of the original one
(C08, `denote_permute_output_defined`): helper lemmas.

* `extend` depends on the assignment only through `Assign.get` (`extend_sameGet`);
* the iteration spaces of two views with the same leaves contain the same assignments up to `SameGet`
  (`outAssignments_sameGet`);
* a permutation of multi-indices is invertible (`exists_unpermute`);
* `gatherAll` succeeds iff every position is written (`gatherAll_isSome`).
-/
namespace Einx.Denote
open Einx Einx.IR
open Einx.Update (mapOpt mapOpt_eq_some_iff mapOpt_length mapOpt_getElem? mapOpt_congr mapOpt_some_of_forall)

theorem mapOpt_forall_of_some {α β : Type} {f : α → Option β} {l : List α} {r : List β} (h : mapOpt f l = some r) :
    ∀ a ∈ l, ∃ b ∈ r, f a = some b := by
  intro a ha
  have hm := (mapOpt_eq_some_iff _ _ _).mp h
  have : f a ∈ l.map f := List.mem_map_of_mem ha
  rw [hm] at this
  obtain ⟨b, hb, hfb⟩ := List.mem_map.mp this
  exact ⟨b, hb, hfb.symm⟩

/-! ### `extend` sees the assignment only through `get` -/

theorem SameGet.append {σ τ : Assign} (h : SameGet σ τ) (x : Assign) : SameGet (σ ++ x) (τ ++ x) := by
  intro n; rw [get_append, get_append, h n]

theorem extend_sameGet : ∀ (ls : List Leaf) (σ τ : Assign), SameGet σ τ →
    (extend σ ls = none ∧ extend τ ls = none) ∨
      ∃ σ1 τ1, extend σ ls = some σ1 ∧ extend τ ls = some τ1 ∧ SameGet σ1 τ1 := by
  intro ls
  induction ls with
  | nil => intro σ τ h; exact Or.inr ⟨σ, τ, rfl, rfl, h⟩
  | cons l ls ih =>
    intro σ τ h
    rw [extend_cons, extend_cons, ← h l.name]
    cases Assign.get σ l.name with
    | some y => exact ih σ τ h
    | none =>
      by_cases hs : (l.size == 1) = true
      · simp only [hs, if_true]; exact ih _ _ (h.append _)
      · simp [hs]

/-! ### membership in `assignments` -/

theorem mem_assignments_iff : ∀ (axes : List (String × Nat)) (σ : Assign),
    σ ∈ assignments axes ↔ List.Forall₂ (fun p q => p.1 = q.1 ∧ p.2 < q.2) σ axes := by
  intro axes
  induction axes with
  | nil =>
    intro σ
    simp only [assignments, List.mem_singleton]
    constructor
    · rintro rfl; exact List.Forall₂.nil
    · intro h; cases h; rfl
  | cons a rest ih =>
    obtain ⟨n, s⟩ := a
    intro σ
    simp only [assignments, List.mem_flatMap, List.mem_range, List.mem_map]
    constructor
    · rintro ⟨i, hi, σ', hσ', rfl⟩
      exact List.Forall₂.cons ⟨rfl, hi⟩ ((ih σ').mp hσ')
    · intro h
      cases h with
      | cons hp hrest =>
        rename_i p σ'
        obtain ⟨pn, pv⟩ := p
        simp only at hp
        obtain ⟨rfl, hlt⟩ := hp
        exact ⟨pv, hlt, σ', (ih σ').mpr hrest, rfl⟩

theorem get_map_axes (g : String → Nat) (axes : List (String × Nat)) (n : String) :
    Assign.get (axes.map (fun q => (q.1, g q.1))) n = if axes.any (·.1 == n) then some (g n) else none := by
  induction axes with
  | nil => rfl
  | cons q rest ih =>
    rw [List.map_cons, get_cons, List.any_cons]
    by_cases h : q.1 = n
    · simp [h]
    · have : (q.1 == n) = false := beq_eq_false_iff_ne.mpr h
      simp only [h, if_false, this, Bool.false_or]; exact ih

/-- The iteration spaces of two views with the same (consistent) leaves are the same up to `SameGet`. -/
theorem outAssignments_sameGet {w w' : List Dim} (hm : ∀ l, l ∈ Dim.leavesL w ↔ l ∈ Dim.leavesL w')
    (hcons : Consistent (Dim.leavesL w)) {σ' : Assign} (hσ' : σ' ∈ outAssignments w') :
    ∃ σ ∈ outAssignments w, SameGet σ σ' := by
  have hcons' : Consistent (Dim.leavesL w') := fun a ha b hb => hcons a ((hm a).mpr ha) b ((hm b).mpr hb)
  obtain ⟨_, h2, h3⟩ := axesFold_mem (Dim.leavesL w) []
  obtain ⟨_, h2', h3'⟩ := axesFold_mem (Dim.leavesL w') []
  have hb' : BoundedOn σ' (Dim.leavesL w') := outAssignments_bounded hcons' hσ'
  refine ⟨(axesOf (Dim.leavesL w)).map (fun q => (q.1, (Assign.get σ' q.1).getD 0)), ?_, ?_⟩
  · unfold outAssignments
    rw [mem_assignments_iff]
    rw [List.forall₂_map_left_iff]
    apply List.forall₂_same.mpr
    intro q hq
    refine ⟨rfl, ?_⟩
    rcases h3 q (by rw [axesOf_eq] at hq; exact hq) with h | ⟨l, hl, hn, hs⟩
    · simp at h
    · obtain ⟨x, hx, hlt⟩ := hb' l ((hm l).mp hl)
      simp only [← hn, hx, Option.getD_some, ← hs]
      exact hlt
  · intro n
    rw [get_map_axes (fun m => (Assign.get σ' m).getD 0)]
    by_cases hn : (axesOf (Dim.leavesL w)).any (·.1 == n) = true
    · simp only [hn, if_true]
      simp only [List.any_eq_true, beq_iff_eq] at hn
      obtain ⟨q, hq, rfl⟩ := hn
      rcases h3 q (by rw [axesOf_eq] at hq; exact hq) with h | ⟨l, hl, hn, _⟩
      · simp at h
      · obtain ⟨x, hx, _⟩ := hb' l ((hm l).mp hl)
        rw [← hn, hx]; rfl
    · simp only [hn, Bool.false_eq_true, if_false]
      cases hg : Assign.get σ' n with
      | none => rfl
      | some y =>
        exfalso
        obtain ⟨l, hl, hln⟩ := (outAssignments_dom hσ' n).mp (by rw [hg]; simp)
        obtain ⟨s, hs⟩ := h2 l ((hm l).mpr hl)
        apply hn
        simp only [List.any_eq_true, beq_iff_eq]
        exact ⟨(l.name, s), by rw [axesOf_eq]; exact hs, hln⟩

/-! ### permutations of multi-indices are invertible -/

theorem isPermOf_nodup {perm : List Nat} {n : Nat} (h : isPermOf perm n = true) : perm.Nodup := by
  obtain ⟨_, hlen, hall, _⟩ := isPermOf_spec h
  have hsub : List.range n ⊆ perm := fun a ha => hall a (List.mem_range.mp ha)
  have hsp : List.Subperm (List.range n) perm := List.subperm_of_subset List.nodup_range hsub
  have hp : List.Perm (List.range n) perm := hsp.perm_of_length_le (by simp [hlen])
  exact hp.nodup_iff.mp List.nodup_range

theorem valid_of_getD : ∀ (s p : List Nat), p.length = s.length → (∀ a, a < s.length → p.getD a 0 < s.getD a 0) →
    Valid s p := by
  intro s
  induction s with
  | nil => intro p hl _; cases p with
    | nil => exact Valid.nil
    | cons => simp at hl
  | cons s0 ss ih =>
    intro p hl h
    cases p with
    | nil => simp at hl
    | cons i is =>
      refine Valid.cons (by simpa using h 0 (by simp)) (ih is (by simpa using hl) ?_)
      intro a ha
      simpa using h (a + 1) (by simpa using ha)

/-- Every valid multi-index of the permuted shape is the permutation of a valid multi-index of the shape. -/
theorem exists_unpermute {perm sx sx' p' : List Nat} (hperm : isPermOf perm sx.length = true)
    (hs : permuteL perm sx = some sx') (hv : Valid sx' p') :
    ∃ p, Valid sx p ∧ permuteL perm p = some p' := by
  obtain ⟨_, hlen, hall, hlt⟩ := isPermOf_spec hperm
  have hnd := isPermOf_nodup hperm
  have hsx' : sx' = perm.map (fun a => sx.getD a 0) := by
    rw [permuteL_eq_map 0 perm sx hlt] at hs; exact (Option.some.inj hs).symm
  have hp'len : p'.length = perm.length := by rw [valid_length hv, hsx', List.length_map]
  let p := (List.range sx.length).map (fun a => p'.getD (perm.idxOf a) 0)
  have hplen : p.length = sx.length := by simp [p]
  have hidx : ∀ j (hj : j < perm.length), perm.idxOf perm[j] = j := fun j hj => hnd.idxOf_getElem j hj
  refine ⟨p, ?_, ?_⟩
  · apply valid_of_getD _ _ hplen
    intro a ha
    have hmem := hall a ha
    have hj : perm.idxOf a < perm.length := List.idxOf_lt_length_of_mem hmem
    have h1 : p.getD a 0 = p'.getD (perm.idxOf a) 0 := by
      simp [p, List.getD_eq_getElem?_getD, List.getElem?_map, List.getElem?_range ha]
    have h2 := valid_getD hv (perm.idxOf a) (by rw [hsx', List.length_map]; exact hj)
    rw [h1]
    have h3 : sx'.getD (perm.idxOf a) 0 = sx.getD a 0 := by
      rw [hsx']
      simp [List.getD_eq_getElem?_getD, List.getElem?_map, List.getElem?_eq_getElem hj, List.getElem_idxOf hj]
    rw [← h3]; exact h2
  · rw [permuteL_eq_map 0 perm p (by rw [hplen]; exact hlt)]
    congr 1
    apply List.ext_getElem
    · simp [hp'len]
    · intro j h1 h2
      have hj : j < perm.length := by simpa using h1
      have ha : perm[j] < sx.length := hlt _ (List.getElem_mem hj)
      simp only [List.getElem_map]
      have : p.getD perm[j] 0 = p'.getD (perm.idxOf perm[j]) 0 := by
        simp [p, List.getD_eq_getElem?_getD, List.getElem?_map, List.getElem?_range ha]
      rw [this, hidx j hj]
      simp [List.getD_eq_getElem?_getD, List.getElem?_eq_getElem h2]

/-! ### `gatherAll` succeeds when every position is written -/

theorem scatterFold_written (entries : List (Nat × Cell)) : ∀ (init : List (Option Cell)) (k : Nat), k < init.length →
    ((∃ c, init[k]? = some (some c)) ∨ ∃ e ∈ entries, e.1 = k) →
    ∃ c, (entries.foldl (fun acc e => acc.set e.1 (some e.2)) init)[k]? = some (some c) := by
  induction entries with
  | nil =>
    intro init k _ h
    rcases h with h | ⟨e, he, _⟩
    · exact h
    · simp at he
  | cons e es ih =>
    intro init k hk h
    simp only [List.foldl_cons]
    apply ih _ k (by simpa using hk)
    by_cases hek : e.1 = k
    · left; exact ⟨e.2, by rw [List.getElem?_set]; simp [hek, hk]⟩
    · rcases h with ⟨c, hc⟩ | ⟨e', he', h'⟩
      · left; exact ⟨c, by rw [List.getElem?_set]; simp [hek, hc]⟩
      · rcases List.mem_cons.mp he' with rfl | hmem
        · exact absurd h' hek
        · right; exact ⟨e', hmem, h'⟩

theorem gatherAll_isSome {n : Nat} {entries : List (Nat × Cell)} (h : ∀ k, k < n → ∃ e ∈ entries, e.1 = k) :
    ∃ cs, gatherAll n entries = some cs := by
  unfold gatherAll
  apply mapOpt_some_of_forall
  intro o ho
  obtain ⟨k, hk, hget⟩ := List.getElem_of_mem ho
  have hlen : (scatter n entries).length = n := by simp [scatter, scatterFold_length]
  obtain ⟨c, hc⟩ := scatterFold_written entries (List.replicate n none) k (by simpa [hlen] using hk)
    (Or.inr (h k (by simpa [hlen] using hk)))
  have : (scatter n entries)[k]? = some o := by rw [List.getElem?_eq_getElem hk, hget]
  unfold scatter at this
  rw [hc] at this
  exact ⟨c, by simp only [id]; exact (Option.some.inj this).symm⟩

/-! ### the output-permuted operation is defined -/

theorem idEntries_of_idCells {vi : List Dim} {si : List Nat} {i : Nat} {vo : List Dim} {so : List Nat} {cs : List Cell}
    (h : idCells vi si i vo so = some cs) : ∃ es, idEntries vi si i vo so = some es := by
  unfold idCells at h
  cases he : idEntries vi si i vo so with
  | none => simp [he] at h
  | some es => exact ⟨es, rfl⟩

/-- **Definedness of the output-permuted `id` denotation.**  If `id` towards the output view `w` is defined, it is
defined towards every permutation `w'` of the root dimensions of `w`. -/
theorem idCells_permute_output_defined {vi : List Dim} {si : List Nat} {i : Nat} {w w' : List Dim} {perm : List Nat}
    {cs : List Cell} (hperm : isPermOf perm w.length = true) (hw' : permuteL perm w = some w')
    (hc : Dim.concatFreeL w = true) (hcons : Consistent (Dim.leavesL w))
    (h : idCells vi si i w (viewShape w) = some cs) : ∃ cs', idCells vi si i w' (viewShape w') = some cs' := by
  obtain ⟨_, _, _, hlt⟩ := isPermOf_spec hperm
  have hm := leavesL_permute hperm hw'
  have hm' : ∀ l, l ∈ Dim.leavesL w' ↔ l ∈ Dim.leavesL w := fun l => (hm l).symm
  have hcons' : Consistent (Dim.leavesL w') := fun a ha b hb => hcons a ((hm a).mpr ha) b ((hm b).mpr hb)
  obtain ⟨es, hes⟩ := idEntries_of_idCells h
  obtain ⟨_, hall⟩ := idCells_spec h
  -- every assignment of the permuted iteration space has an entry
  have hentry : ∀ σ' ∈ outAssignments w', ∃ e, idEntry vi si i w' (viewShape w') σ' = some e := by
    intro σ' hσ'
    obtain ⟨σ, hσ, hsg⟩ := outAssignments_sameGet hm hcons hσ'
    obtain ⟨e, _, he⟩ := mapOpt_forall_of_some hes σ hσ
    unfold idEntry at he ⊢
    rcases extend_sameGet (Dim.leavesL vi) σ σ' hsg with ⟨h1, _⟩ | ⟨σ1, σ1', h1, h2, hsg1⟩
    · simp [h1] at he
    · simp only [h1] at he
      simp only [h2]
      cases hp : flatPos w (viewShape w) σ with
      | none => simp [hp] at he
      | some po =>
        cases hcell : cellAt vi si i σ1 with
        | none => simp [hp, hcell] at he
        | some c =>
          rw [← cellAt_sameGet hsg1, hcell]
          unfold flatPos at hp ⊢
          cases hpos : position w σ with
          | none => simp [hpos] at hp
          | some p =>
            have hpos' : position w σ' = some p := by rw [← position_sameGet hsg]; exact hpos
            have hplen : p.length = w.length := position_length hpos
            rw [position_permute hpos' hw', permuteL_eq_map 0 perm p (by rw [hplen]; exact hlt)]
            exact ⟨_, rfl⟩
  obtain ⟨es', hes'⟩ := mapOpt_some_of_forall hentry
  -- every position of the permuted output is written
  have hcover : ∀ k', k' < prod (viewShape w') → ∃ e ∈ es', e.1 = k' := by
    intro k' hk'
    have hv' := unravel_valid (viewShape w') k' hk'
    have hlen : (viewShape w).length = w.length := by simp [viewShape]
    obtain ⟨p, hvp, hpp⟩ := exists_unpermute (by rw [hlen]; exact hperm) (viewShape_permute hw') hv'
    obtain ⟨τ, hτ, _, _, hposτ, _⟩ := hall _ (ravel_lt hvp)
    have hbτ : BoundedOn τ (Dim.leavesL w) := outAssignments_bounded hcons hτ
    obtain ⟨q, hq, hvq⟩ := position_valid w hc hbτ
    have hqp : q = p := by
      simp only [flatPos, hq, Option.map_some, Option.some.injEq] at hposτ
      rw [← unravel_ravel hvq, hposτ, unravel_ravel hvp]
    subst hqp
    obtain ⟨τ', hτ', hsg⟩ := outAssignments_sameGet hm' hcons' hτ
    obtain ⟨e, hemem, he⟩ := mapOpt_forall_of_some hes' τ' hτ'
    refine ⟨e, hemem, ?_⟩
    unfold idEntry at he
    cases hx : extend τ' (Dim.leavesL vi) with
    | none => simp [hx] at he
    | some τ1 =>
      have hposτ' : position w' τ' = some (unravel (viewShape w') k') := by
        rw [position_permute (by rw [position_sameGet hsg]; exact hq) hw', hpp]
      simp only [hx, flatPos, hposτ', Option.map_some] at he
      cases hcell : cellAt vi si i τ1 with
      | none => simp [hcell] at he
      | some c =>
        simp only [hcell, Option.some.injEq] at he
        rw [← he]
        exact ravel_unravel _ _ hk'
  obtain ⟨cs', hcs'⟩ := gatherAll_isSome hcover
  exact ⟨cs', by unfold idCells idEntries; rw [hes']; exact hcs'⟩

end Einx.Denote
