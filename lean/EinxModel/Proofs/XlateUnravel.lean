import EinxModel.Proofs.PyPrelude
import EinxModel.Denote.Expr3
/-! Helper lemmas for `Props/C01Xlate.lean`: the loop of `_unravel` (item assignment into a list of `None`s,
walking `enumerate(ravel_shape)` backwards) computes `Denote.peel`.  Nothing here mentions `Extracted/*`. -/
namespace Einx.Denote
open Einx.Py

theorem enumFrom_append {α : Type} : ∀ (l : List α) (i : Nat) (s : α),
    enumFrom i (l ++ [s]) = enumFrom i l ++ [(i + l.length, s)]
  | [], i, s => by simp [enumFrom]
  | a :: l, i, s => by
    simp only [List.cons_append, enumFrom, enumFrom_append l (i + 1) s, List.length_cons]
    have : i + 1 + l.length = i + (l.length + 1) := by omega
    rw [this]

theorem enumerate_append {α : Type} (l : List α) (s : α) : enumerate (l ++ [s]) = enumerate l ++ [(l.length, s)] := by
  simp [enumerate, enumFrom_append]

theorem listSet_at_length {α : Type} (pre post : List α) (x v : α) :
    listSet (pre ++ x :: post) (Int.ofNat pre.length) v = .ok (pre ++ v :: post) := by
  unfold listSet
  have h0 : ¬ (Int.ofNat pre.length < 0) := by simp
  have e : (Int.ofNat pre.length).toNat = pre.length := rfl
  simp only [h0, if_false, e]
  have : pre.length < (pre ++ x :: post).length := by simp
  simp only [this, if_true]
  congr 1
  simp

theorem allSome_map_some {α : Type} : ∀ l : List α, allSome (l.map some) = .ok l
  | [] => rfl
  | a :: l => by simp [allSome, allSome_map_some l, Except.map]

/-- The coordinates of the block, last size peeled first, in axis order. -/
def revPeel (sizes : List Nat) (k : Nat) : List Nat := (peelRevNat sizes.reverse k).reverse

theorem revPeel_append (init : List Nat) (s k : Nat) : revPeel (init ++ [s]) k = revPeel init (k / s) ++ [k % s] := by
  simp [revPeel, peelRevNat]

/-- One iteration of the loop of `_unravel` on one element. -/
def unravelStep (p : Nat × List (Option Nat)) (q : Nat × Nat) : Except String (Nat × List (Option Nat)) := do
  let out ← listSet p.2 (Int.ofNat q.1) (some (p.1 % q.2))
  pure (p.1 / q.2, out)

theorem unravel_fold : ∀ (r : List Nat) (k : Nat) (tail : List (Option Nat)),
    ∃ q, (enumerate r.reverse).reverse.foldlM unravelStep (k, List.replicate r.reverse.length none ++ tail)
      = .ok (q, (revPeel r.reverse k).map some ++ tail)
  | [], k, tail => ⟨k, by simp [enumerate, enumFrom, revPeel, peelRevNat]; rfl⟩
  | s :: r, k, tail => by
    obtain ⟨q, hq⟩ := unravel_fold r (k / s) (some (k % s) :: tail)
    refine ⟨q, ?_⟩
    rw [List.reverse_cons, enumerate_append, List.reverse_append, revPeel_append]
    simp only [List.reverse_cons, List.reverse_nil, List.nil_append, List.singleton_append, List.foldlM_cons, List.length_append,
      List.length_cons, List.length_nil, List.replicate_succ']
    have hl : (List.replicate r.reverse.length (none : Option Nat)).length = r.reverse.length := by simp
    have := listSet_at_length (List.replicate r.reverse.length (none : Option Nat)) tail none (some (k % s))
    rw [hl] at this
    simp only [unravelStep, List.append_assoc, List.singleton_append, this, bind, Except.bind, pure, Except.pure]
    rw [hq]
    simp

end Einx.Denote
