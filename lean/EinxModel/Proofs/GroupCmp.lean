/-! The combinatorial core of the size-genericity of the decomposer's `reshape` no-op tests (C17).

`_decompose_single` reshapes a tensor whose dimensions are groups `(a b) () c …` to the list of the members, and
`_compose_next` reshapes the flat result to the grouped output; the numpy wrapper skips the call when
`tuple(x.shape) == shape`, i.e. when the list of the products of the groups *equals* the concatenation of the groups.
With empty groups `()` the two lists can have the same length although some group has several members
(`(a b) ()` → `a b`), so the test is a genuine comparison of products of lengths.

`groups_cmp_generic`: whether `Gs.map lprod = Gs.flatten` holds is nevertheless a function of which members are 1
(for all naturals, zero included).  Reason: position `j` of the left list is the product of the members of group `j`,
which lie at positions `[s_j, s_j + k_j)` of the right list; the map "member ↦ its group" is monotone, so its only cycles
are fixed points; a member that is not compared with its own group's product is forced to be 1 (`fwd_ones`), and then
every comparison reads `x * 1 * … * 1 = x` or `1 = x`. -/
namespace Einx.Generic

/-- Product of a list (structural; `1` for the empty list). -/
def lprod : List Nat → Nat
  | [] => 1
  | x :: xs => x * lprod xs

/-- Which entries are 1. -/
def pat1 (l : List Nat) : List Bool := l.map (fun x => x == 1)

theorem lprod_ones : ∀ {l : List Nat}, (∀ x ∈ l, x = 1) → lprod l = 1
  | [], _ => rfl
  | x :: xs, h => by
    have hx : x = 1 := h x (List.mem_cons_self ..)
    have := lprod_ones (l := xs) (fun y hy => h y (List.mem_cons_of_mem _ hy))
    simp [lprod, hx, this]

theorem lprod_eq_one : ∀ {l : List Nat}, lprod l = 1 → ∀ x ∈ l, x = 1
  | [], _, x, hx => by simp at hx
  | y :: ys, h, x, hx => by
    simp only [lprod] at h
    have h1 : y = 1 ∧ lprod ys = 1 := by
      have := Nat.eq_one_of_mul_eq_one_right h
      have h2 := Nat.eq_one_of_mul_eq_one_left h
      exact ⟨this, h2⟩
    rcases List.mem_cons.mp hx with rfl | hx'
    · exact h1.1
    · exact lprod_eq_one h1.2 x hx'

theorem lprod_append (a b : List Nat) : lprod (a ++ b) = lprod a * lprod b := by
  induction a with
  | nil => simp [lprod]
  | cons x a ih => simp [lprod, ih, Nat.mul_assoc]

theorem pat1_length {l l' : List Nat} (h : pat1 l = pat1 l') : l.length = l'.length := by
  have := congrArg List.length h
  simpa [pat1] using this

theorem pat1_ones : ∀ {l l' : List Nat}, pat1 l = pat1 l' → (∀ x ∈ l, x = 1) → ∀ x ∈ l', x = 1
  | [], [], _, _ => by simp
  | [], _ :: _, h, _ => by simp [pat1] at h
  | _ :: _, [], h, _ => by simp [pat1] at h
  | a :: l, b :: l', h, ha => by
    simp only [pat1, List.map_cons, List.cons.injEq] at h
    have h1 : a = 1 := ha a (List.mem_cons_self ..)
    have hb : b = 1 := by
      have := h.1
      rw [h1] at this
      simpa using this.symm
    intro x hx
    rcases List.mem_cons.mp hx with rfl | hx'
    · exact hb
    · exact pat1_ones (l := l) (l' := l') h.2 (fun y hy => ha y (List.mem_cons_of_mem _ hy)) x hx'

theorem pat1_ones_iff {l l' : List Nat} (h : pat1 l = pat1 l') : (∀ x ∈ l, x = 1) ↔ (∀ x ∈ l', x = 1) :=
  ⟨pat1_ones h, pat1_ones h.symm⟩

theorem pat1_append {a a' b b' : List Nat} (ha : pat1 a = pat1 a') (hb : pat1 b = pat1 b') :
    pat1 (a ++ b) = pat1 (a' ++ b') := by
  simp only [pat1, List.map_append] at *
  rw [ha, hb]

theorem pat1_cons {a a' : Nat} {l l' : List Nat} (h : pat1 (a :: l) = pat1 (a' :: l')) :
    (a = 1 ↔ a' = 1) ∧ pat1 l = pat1 l' := by
  simp only [pat1, List.map_cons, List.cons.injEq] at h
  refine ⟨?_, h.2⟩
  have := h.1
  constructor
  · intro e; rw [e] at this; simpa using this.symm
  · intro e; rw [e] at this; simpa using this

/-- A member that is compared with the product of a *later* group is 1: if the list of the products equals
`carry ++` the concatenation, every entry of `carry` is 1. -/
theorem fwd_ones : ∀ (Gs : List (List Nat)) (carry : List Nat),
    Gs.map lprod = carry ++ Gs.flatten → ∀ c ∈ carry, c = 1
  | [], carry, h => by
    have : carry = [] := by simpa using h.symm
    subst this; simp
  | G :: Gs, [], _ => by simp
  | G :: Gs, c :: cs, h => by
    simp only [List.map_cons, List.flatten_cons, List.cons_append, List.cons.injEq] at h
    have h2 : Gs.map lprod = (cs ++ G) ++ Gs.flatten := by rw [h.2]; simp
    have ih := fwd_ones Gs (cs ++ G) h2
    have hG : lprod G = 1 := lprod_ones (fun x hx => ih x (List.mem_append_right _ hx))
    intro x hx
    rcases List.mem_cons.mp hx with rfl | hx'
    · rw [← h.1, hG]
    · exact ih x (List.mem_append_left _ hx')

/-- The generalised comparison: `d` pending units on the left, `carry` pending members on the right. -/
def CmpU (d : Nat) (carry : List Nat) (Gs : List (List Nat)) : Prop :=
  List.replicate d 1 ++ Gs.map lprod = carry ++ Gs.flatten

theorem replicate_one_eq {d : Nat} {l : List Nat} : List.replicate d 1 = l ↔ l.length = d ∧ ∀ x ∈ l, x = 1 := by
  constructor
  · intro h; subst h; simp
  · intro h
    exact (List.eq_replicate_iff.mpr ⟨h.1, h.2⟩).symm

theorem cmpU_nil {d : Nat} {carry carry' : List Nat} (hc : pat1 carry = pat1 carry') :
    CmpU d carry [] ↔ CmpU d carry' [] := by
  simp only [CmpU, List.map_nil, List.append_nil, List.flatten_nil]
  rw [replicate_one_eq, replicate_one_eq, pat1_length hc, pat1_ones_iff hc]

/-- Step A: nothing pending on the right; the head group is consumed member by member. -/
theorem cmpU_headA {Gs Gs' : List (List Nat)}
    (ih : ∀ d carry carry', pat1 carry = pat1 carry' → (CmpU d carry Gs ↔ CmpU d carry' Gs')) :
    ∀ (G G' : List Nat), pat1 G = pat1 G' → ∀ d, CmpU d [] (G :: Gs) ↔ CmpU d [] (G' :: Gs')
  | [], [], _, d => by
    have e : ∀ (X : List (List Nat)), CmpU d [] ([] :: X) ↔ CmpU (d + 1) [] X := by
      intro X
      simp only [CmpU, List.map_cons, lprod, List.flatten_cons, List.nil_append]
      rw [List.replicate_succ', List.append_assoc]
      rfl
    rw [e, e]
    exact ih (d + 1) [] [] rfl
  | [], _ :: _, h, _ => by simp [pat1] at h
  | _ :: _, [], h, _ => by simp [pat1] at h
  | g :: gs, g' :: gs', h, 0 => by
    obtain ⟨_, hgs⟩ := pat1_cons h
    have e : ∀ (y : Nat) (ys : List Nat) (X : List (List Nat)), CmpU 0 [] ((y :: ys) :: X) ↔ CmpU 0 ys X := by
      intro y ys X
      simp only [CmpU, List.replicate_zero, List.nil_append, List.map_cons, lprod, List.flatten_cons, List.cons_append,
        List.cons.injEq]
      constructor
      · intro hh; exact hh.2
      · intro hh
        refine ⟨?_, hh⟩
        have := fwd_ones X ys (by simpa [CmpU] using hh)
        rw [lprod_ones this, Nat.mul_one]
    rw [e, e]
    exact ih 0 gs gs' hgs
  | g :: gs, g' :: gs', h, d + 1 => by
    obtain ⟨hg, hgs⟩ := pat1_cons h
    have e : ∀ (y : Nat) (ys : List Nat) (X : List (List Nat)),
        CmpU (d + 1) [] ((y :: ys) :: X) ↔ (y = 1 ∧ CmpU d [] (ys :: X)) := by
      intro y ys X
      simp only [CmpU, List.replicate_succ, List.nil_append, List.map_cons, lprod, List.flatten_cons, List.cons_append,
        List.cons.injEq]
      constructor
      · intro hh
        have hy : y = 1 := hh.1.symm
        refine ⟨hy, ?_⟩
        have := hh.2
        rw [hy, Nat.one_mul] at this
        exact this
      · intro hh
        refine ⟨hh.1.symm, ?_⟩
        rw [hh.1, Nat.one_mul]
        exact hh.2
    rw [e, e, hg, cmpU_headA ih gs gs' hgs d]

/-- Step B: members pending on the right are compared first. -/
theorem cmpU_headB {Gs Gs' : List (List Nat)}
    (ih : ∀ d carry carry', pat1 carry = pat1 carry' → (CmpU d carry Gs ↔ CmpU d carry' Gs'))
    (G G' : List Nat) (hG : pat1 G = pat1 G') :
    ∀ (carry carry' : List Nat), pat1 carry = pat1 carry' → ∀ d, CmpU d carry (G :: Gs) ↔ CmpU d carry' (G' :: Gs')
  | [], [], _, d => cmpU_headA ih G G' hG d
  | [], _ :: _, h, _ => by simp [pat1] at h
  | _ :: _, [], h, _ => by simp [pat1] at h
  | c :: cs, c' :: cs', h, 0 => by
    obtain ⟨hc, hcs⟩ := pat1_cons h
    have e : ∀ (y : Nat) (ys Y : List Nat) (X : List (List Nat)),
        CmpU 0 (y :: ys) (Y :: X) ↔ (y = 1 ∧ CmpU 0 (ys ++ Y) X) := by
      intro y ys Y X
      simp only [CmpU, List.replicate_zero, List.nil_append, List.map_cons, List.flatten_cons, List.cons_append,
        List.cons.injEq, List.append_assoc]
      constructor
      · intro hh
        have h1 := fwd_ones X (ys ++ Y) (by simpa using hh.2)
        have hY : lprod Y = 1 := lprod_ones (fun x hx => h1 x (List.mem_append_right _ hx))
        exact ⟨by rw [← hh.1, hY], hh.2⟩
      · intro hh
        have h1 := fwd_ones X (ys ++ Y) (by simpa using hh.2)
        have hY : lprod Y = 1 := lprod_ones (fun x hx => h1 x (List.mem_append_right _ hx))
        exact ⟨by rw [hY, hh.1], hh.2⟩
    rw [e, e, hc, ih 0 (cs ++ G) (cs' ++ G') (pat1_append hcs hG)]
  | c :: cs, c' :: cs', h, d + 1 => by
    obtain ⟨hc, hcs⟩ := pat1_cons h
    have e : ∀ (y : Nat) (ys : List Nat) (X : List (List Nat)),
        CmpU (d + 1) (y :: ys) X ↔ (y = 1 ∧ CmpU d ys X) := by
      intro y ys X
      simp only [CmpU, List.replicate_succ, List.cons_append, List.cons.injEq]
      constructor
      · intro hh; exact ⟨hh.1.symm, hh.2⟩
      · intro hh; exact ⟨hh.1.symm, hh.2⟩
    rw [e, e, hc, cmpU_headB ih G G' hG cs cs' hcs d]

theorem cmpU_generic : ∀ (Gs Gs' : List (List Nat)), Gs.map pat1 = Gs'.map pat1 →
    ∀ d carry carry', pat1 carry = pat1 carry' → (CmpU d carry Gs ↔ CmpU d carry' Gs')
  | [], [], _, _, _, _, hc => cmpU_nil hc
  | [], _ :: _, h, _, _, _, _ => by simp at h
  | _ :: _, [], h, _, _, _, _ => by simp at h
  | G :: Gs, G' :: Gs', h, d, carry, carry', hc => by
    simp only [List.map_cons, List.cons.injEq] at h
    exact cmpU_headB (cmpU_generic Gs Gs' h.2) G G' h.1 carry carry' hc d

/-- **The no-op test of a reshape between a grouped shape and its members depends only on which members are 1.** -/
theorem groups_cmp_generic (Gs Gs' : List (List Nat)) (h : Gs.map pat1 = Gs'.map pat1) :
    (Gs.map lprod == Gs.flatten) = (Gs'.map lprod == Gs'.flatten) := by
  have := cmpU_generic Gs Gs' h 0 [] [] rfl
  simp only [CmpU, List.replicate_zero, List.nil_append] at this
  rw [Bool.eq_iff_iff, beq_iff_eq, beq_iff_eq]
  exact this

theorem groups_cmp_generic_symm (Gs Gs' : List (List Nat)) (h : Gs.map pat1 = Gs'.map pat1) :
    (Gs.flatten == Gs.map lprod) = (Gs'.flatten == Gs'.map lprod) := by
  have := cmpU_generic Gs Gs' h 0 [] [] rfl
  simp only [CmpU, List.replicate_zero, List.nil_append] at this
  rw [Bool.eq_iff_iff, beq_iff_eq, beq_iff_eq]
  exact ⟨fun e => (this.mp e.symm).symm, fun e => (this.mpr e.symm).symm⟩

/-- A test (not a theorem): `(a b) () -> a b` is a no-op exactly when `b = 1`; `() (a b c) ()`; zero lengths. -/
example : ([[2, 1], []].map lprod == [[2, 1], []].flatten) = true
    ∧ ([[2, 3], []].map lprod == [[2, 3], []].flatten) = false
    ∧ ([[0, 1], []].map lprod == [[0, 1], []].flatten) = true
    ∧ ([[], [1, 5, 1], []].map lprod == [[], [1, 5, 1], []].flatten) = true := by decide

end Einx.Generic
