import EinxModel.Generic.LowerOpsDenote
import EinxModel.Proofs.Lower
/-! Helper lemmas for `lower_elementwise_correct` / `lower_reduce_correct` (Props/C01LowerOps.lean), run side:
the chains of `Generic/LowerOps.lean` (`prepInput`, `stbU`, `chainInput`), the traced numpy call (`ewiseCall`) and
the alignment loops, as statements about the registers the emitted program computes. -/
namespace Einx.Lower
open Einx Einx.IR Einx.Generic Einx.Denote

/-! ### tracing states without a current tensor -/

/-- The program of `s`, run on the initial registers, yields `regs`. -/
structure Tr (inps : List (Tensor Cell)) (s : St) (regs : List (Tensor Cell)) : Prop where
  ev : evalProg symAlg s.prog inps = .ok regs
  next : regs.length = s.next

theorem Run.tr {inps : List (Tensor Cell)} {s : St} {regs : List (Tensor Cell)} {T : Tensor Cell} (h : Run inps s regs T) :
    Tr inps s regs := ⟨h.ev, h.next⟩

theorem Tr.focus {inps : List (Tensor Cell)} {s : St} {regs : List (Tensor Cell)} (h : Tr inps s regs) {r : Nat} {T : Tensor Cell}
    (hr : regs[r]? = some T) (hl : T.data.length = prod T.shape) : Run inps (s.focus r T.shape) regs T :=
  ⟨h.ev, h.next, hr, rfl, hl⟩

/-- Registers are only appended: a register that holds `T` keeps holding it. -/
theorem getElem?_append_of_some {α : Type} {l : List α} {k : Nat} {x : α} (h : l[k]? = some x) (ext : List α) :
    (l ++ ext)[k]? = some x := by
  have hk : k < l.length := by
    apply Classical.byContradiction
    intro hn
    rw [List.getElem?_eq_none (by omega)] at h
    cases h
  rw [List.getElem?_append_left hk]; exact h

theorem ReadsC.mono {P P' : (String → Nat) → Prop} {c : (String → Nat) → Cell} {T : Tensor Cell} {L : List Ax}
    (h : ReadsC P c T L) (hp : ∀ val, P' val → P val) : ReadsC P' c T L :=
  ⟨h.1, fun val hv => h.2 val (hp val hv)⟩

theorem ReadsP.mono {P P' : (String → Nat) → Prop} {c : (String → Nat) → Cell} {T : Tensor Cell} {L : List Ax} {pre : Ax → Nat}
    (h : ReadsP P c T L pre) (hp : ∀ val, P' val → P val) : ReadsP P' c T L pre :=
  ⟨h.1, fun val hv => h.2 val (hp val hv)⟩

theorem ReadsP.congr {P : (String → Nat) → Prop} {c : (String → Nat) → Cell} {T : Tensor Cell} {L : List Ax} {pre pre' : Ax → Nat}
    (h : ReadsP P c T L pre) (he : ∀ a ∈ L, pre a = pre' a) : ReadsP P c T L pre' := by
  have e1 : L.map pre = L.map pre' := List.map_congr_left he
  have e2 : ∀ val : String → Nat, L.map (fun a => if pre a = 1 then 0 else val a.name)
      = L.map (fun a => if pre' a = 1 then 0 else val a.name) := by
    intro val
    apply List.map_congr_left
    intro a ha
    rw [he a ha]
  refine ⟨by rw [h.1, e1], ?_⟩
  intro val hv
  rw [← e1, ← e2]
  exact h.2 val hv

/-! ### `prepInput`: flattened axes and unit axes of one input -/

theorem names_nodup_filter {L : List Ax} (h : (names L).Nodup) (p : Ax → Bool) : (names (L.filter p)).Nodup := by
  simp only [names] at h ⊢
  exact List.Pairwise.sublist (List.Sublist.map _ List.filter_sublist) h

/-- The decomposer's preparation of input `i` (held in register `i`, the symbolic input of shape `gShape e`): the
result is a tensor over the squeezed flat expression that holds, at the index a valuation gives to it, the input
element at the index the valuation gives to the input's leaf axes. -/
theorem prep_run {inps : List (Tensor Cell)} {s s1 : St} {regs : List (Tensor Cell)} {marked : List String} {i : Nat}
    {e : List G} {sq : List Ax}
    (h : Tr inps s regs) (hi : regs[i]? = some (symInput i (gShape e)))
    (hp : prepInput marked s i e = .ok (sq, s1)) :
    (names (G.leavesL e)).Nodup ∧ sq = squeezedExpr marked e ∧
    ∃ ext T, Run inps s1 (regs ++ ext) T ∧
      ReadsC (fun val => Bnd val (G.leavesL e)) (fun val => .src i (ravel (lens (G.leavesL e)) (idx (G.leavesL e) val))) T sq := by
  have hnd : noDup (names (G.leavesL e)) = true := by
    by_cases hnd : noDup (names (G.leavesL e)) = true
    · exact hnd
    · unfold prepInput at hp
      simp [hnd, throw, throwThe, MonadExceptOf.throw, bind, Except.bind] at hp
  have hin := (noDup_iff _).mp hnd
  refine ⟨hin, ?_⟩
  have hrun0 : Run inps (s.focus i (gShape e)) regs (symInput i (gShape e)) :=
    h.focus (T := symInput i (gShape e)) hi (by simp [symInput])
  obtain ⟨regs1, T1, hrun1, hd1, hsh1, hl1⟩ := decompose_run (G.depthL e) _ e _ _ hrun0 rfl
  unfold prepInput at hp
  simp only [hnd, Bool.not_true, Bool.false_eq_true, if_false] at hp
  generalize decompose (G.depthL e) (s.focus i (gShape e)) e = d at *
  obtain ⟨s1', e1⟩ := d
  simp only [pure, Except.pure, Except.ok.injEq, Prod.mk.injEq] at hp hrun1 hsh1 hl1
  rw [hl1] at hp
  obtain ⟨hsqdef, hs1⟩ := hp
  rw [hsqdef] at hs1
  subst hs1
  refine ⟨hsqdef.symm, ?_⟩
  -- removal of the unit axes
  have hprod : prod s1'.shape = prod (lens sq) := by
    rw [hsh1, prod_gShape_leaves, hl1, ← hsqdef]
    exact prod_map_filter _ _ _ (fun a _ hp => by
      simp only [Bool.not_eq_eq_eq_not, Bool.not_false, Bool.and_eq_true, beq_iff_eq] at hp
      exact hp.1)
  obtain ⟨regs2, T2, hrun2, hsh2, hd2⟩ := reshapeW_run hrun1 (lens sq) hprod
  refine ⟨regs1 ++ regs2, T2, hrun2.assoc, hsh2, ?_⟩
  intro val hvi
  have hrv : ravel (lens sq) (idx sq val) = ravel (lens (G.leavesL e)) (idx (G.leavesL e) val) := by
    rw [← hsqdef]
    exact (ravel_map_filter _ _ _ _ (fun a ha hp => by
      simp only [Bool.not_eq_eq_eq_not, Bool.not_false, Bool.and_eq_true, beq_iff_eq] at hp
      have := hvi a ha
      exact ⟨hp.1, by omega⟩)).symm
  rw [hrv, hd2, hd1]
  have hlt := ravel_lt (valid_idx hvi)
  rw [← prod_gShape_leaves] at hlt
  simp [symInput, hlt]

/-! ### `_squeeze_transpose_broadcast(…, broadcast_to_unitary=True)` -/

/-- The shape function of an aligned operand: the length of an output axis that the operand has, 1 otherwise. -/
def presentPre (sq : List Ax) : Ax → Nat := fun a => if (names sq).contains a.name then a.len else 1

theorem stbU_run {inps : List (Tensor Cell)} {s r : St} {regs : List (Tensor Cell)} {T : Tensor Cell} {W sq e1 : List Ax}
    {P : (String → Nat) → Prop} {c : (String → Nat) → Cell} {tag : Nat}
    (h : Run inps s regs T) (hsq : (names sq).Nodup) (hW : (names W).Nodup) (hne : ∀ a ∈ sq, a.len ≠ 1)
    (hPsq : ∀ val, P val → Bnd val sq) (hPW : ∀ val, P val → Bnd val W)
    (hcons : ∀ a ∈ sq, ∀ b ∈ W, a.name = b.name → a.len = b.len)
    (hR : ReadsC P c T sq) (hstb : stbU tag s sq W = .ok (e1, r)) :
    (∀ n ∈ names sq, n ∈ names W) ∧ e1 = unitaryExpr tag sq W ∧
    ∃ ext T', Run inps r (regs ++ ext) T' ∧ ReadsP P c T' W (presentPre sq) := by
  unfold stbU at hstb
  rw [squeezeStep_none s sq W hne] at hstb
  cases ht : transposeStep s sq W with
  | error e => simp [ht, bind, Except.bind] at hstb
  | ok s2 =>
    simp only [ht, bind, Except.bind, pure, Except.pure, Except.ok.injEq, Prod.mk.injEq] at hstb
    obtain ⟨he1, hr⟩ := hstb
    subst hr
    obtain ⟨hsub, regs2, T2, hrun2, hR2⟩ := stbT_run h hsq hW hPsq hcons hR ht
    refine ⟨hsub, he1.symm, ?_⟩
    unfold broadcastStepU
    simp only []
    split
    · rename_i hbc
      have hbcc := bc_contains sq W
      generalize hbcdef : (names W).filter (fun n => !(names sq).contains n) = bc at hbc hbcc ⊢
      have hg1 : ∀ a ∈ W, (names sq).contains a.name = false →
          (if bc.contains a.name then 1 else a.len) = 1 := by
        intro a ha hp
        have : bc.contains a.name = true := by rw [hbcc a ha, hp]; rfl
        rw [if_pos this]
      have hg2 : ∀ a ∈ W.filter (fun b => (names sq).contains b.name),
          (if bc.contains a.name then 1 else a.len) = a.len := by
        intro a ha
        have hm := List.mem_filter.mp ha
        have : ¬ (bc.contains a.name = true) := by rw [hbcc a hm.1, hm.2]; simp
        rw [if_neg this]
      obtain ⟨regs3, T3, hrun3, hR3⟩ := unsqueeze_run (fun b => (names sq).contains b.name)
        (fun a => if bc.contains a.name then 1 else a.len) hrun2 hPW hg1 hg2 hR2
      refine ⟨regs2 ++ regs3, T3, hrun3.assoc, hR3.congr ?_⟩
      intro a ha
      simp only [presentPre]
      by_cases hp : (names sq).contains a.name = true
      · rw [if_pos hp]; exact hg2 a (List.mem_filter.mpr ⟨ha, hp⟩)
      · rw [if_neg hp]; exact hg1 a ha (by simpa using hp)
    · rename_i hbc
      have hall := filter_present_eq_self hbc
      rw [hall] at hR2
      refine ⟨regs2, T2, hrun2, ReadsP_of_ReadsC _ hPW ?_ hR2⟩
      intro a ha
      have : (names sq).contains a.name = true := by
        have h3 : a ∈ W.filter (fun b => (names sq).contains b.name) := by rw [hall]; exact ha
        exact (List.mem_filter.mp h3).2
      simp only [presentPre]
      rw [if_pos this]

/-- The chain of input `i`: preparation and alignment with the output expression `W` (whose axes all occur in some
input).  `P` is any condition on valuations that bounds them on the input's and on `W`'s axes. -/
theorem chain_run {inps : List (Tensor Cell)} {s r : St} {regs : List (Tensor Cell)} {i : Nat} {e : List G} {W e1 : List Ax}
    {P : (String → Nat) → Prop}
    (h : Tr inps s regs) (hi : regs[i]? = some (symInput i (gShape e)))
    (hW : (names W).Nodup) (hPe : ∀ val, P val → Bnd val (G.leavesL e)) (hPW : ∀ val, P val → Bnd val W)
    (hcons : ∀ a ∈ G.leavesL e, ∀ b ∈ W, a.name = b.name → a.len = b.len)
    (hc : chainInput W s i e = .ok (e1, r)) :
    (names (G.leavesL e)).Nodup ∧ (∀ n ∈ names (squeezedExpr [] e), n ∈ names W) ∧
    e1 = unitaryExpr i (squeezedExpr [] e) W ∧
    ∃ ext T', Run inps r (regs ++ ext) T' ∧
      ReadsP P (fun val => .src i (ravel (lens (G.leavesL e)) (idx (G.leavesL e) val))) T' W (presentPre (squeezedExpr [] e)) := by
  unfold chainInput at hc
  cases hp : prepInput [] s i e with
  | error er => simp [hp, bind, Except.bind] at hc
  | ok x =>
    obtain ⟨sq, s1⟩ := x
    simp only [hp, bind, Except.bind] at hc
    obtain ⟨hnd, hsq, regs1, T1, hrun1, hR1⟩ := prep_run h hi hp
    subst hsq
    have hmem : ∀ a ∈ squeezedExpr [] e, a ∈ G.leavesL e ∧ a.len ≠ 1 := by
      intro a ha
      have := List.mem_filter.mp ha
      refine ⟨this.1, ?_⟩
      have h2 := this.2
      simp only [List.contains_nil, Bool.not_false, Bool.and_true, Bool.not_eq_eq_eq_not, Bool.not_true, beq_eq_false_iff_ne] at h2
      exact h2
    obtain ⟨hsub, he1, regs2, T2, hrun2, hR2⟩ := stbU_run hrun1 (names_nodup_filter hnd _) hW (fun a ha => (hmem a ha).2)
      (fun val hv a ha => hPe val hv a (hmem a ha).1) hPW (fun a ha b hb hn => hcons a (hmem a ha).1 b hb hn)
      (hR1.mono hPe) hc
    exact ⟨hnd, hsub, he1, regs1 ++ regs2, T2, hrun2.assoc, hR2⟩
