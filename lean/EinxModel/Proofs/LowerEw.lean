import EinxModel.Generic.LowerOpsDenote
import EinxModel.Proofs.Lower
/-! Helper lemmas for `lower_elementwise_correct` / `lower_reduce_correct` (Props/C01LowerOps.lean), run side:
the chains of `Generic/LowerOps.lean` (`prepInput`, `stbU`, `chainInput`), the traced numpy call (`ewiseCall`) and
the alignment loops, as statements about the registers the emitted program computes. -/
namespace Einx.Lower
open Einx Einx.IR Einx.Generic Einx.Denote

/-! ### tracing states without a current tensor -/

/-- The program of `s`, run on the initial registers, yields `regs`. -/
structure Tr (inps : List (Tensor Cell)) (s : St) (regs : List (Tensor Cell)) : Prop where
  ev : evalProg symAlg s.prog inps = .ok regs
  next : regs.length = s.next

theorem Run.tr {inps : List (Tensor Cell)} {s : St} {regs : List (Tensor Cell)} {T : Tensor Cell} (h : Run inps s regs T) :
    Tr inps s regs := ⟨h.ev, h.next⟩

theorem Tr.focus {inps : List (Tensor Cell)} {s : St} {regs : List (Tensor Cell)} (h : Tr inps s regs) {r : Nat} {T : Tensor Cell}
    (hr : regs[r]? = some T) (hl : T.data.length = prod T.shape) : Run inps (s.focus r T.shape) regs T :=
  ⟨h.ev, h.next, hr, rfl, hl⟩

/-- Registers are only appended: a register that holds `T` keeps holding it. -/
theorem getElem?_append_of_some {α : Type} {l : List α} {k : Nat} {x : α} (h : l[k]? = some x) (ext : List α) :
    (l ++ ext)[k]? = some x := by
  have hk : k < l.length := by
    apply Classical.byContradiction
    intro hn
    rw [List.getElem?_eq_none (by omega)] at h
    cases h
  rw [List.getElem?_append_left hk]; exact h

theorem ReadsC.mono {P P' : (String → Nat) → Prop} {c : (String → Nat) → Cell} {T : Tensor Cell} {L : List Ax}
    (h : ReadsC P c T L) (hp : ∀ val, P' val → P val) : ReadsC P' c T L :=
  ⟨h.1, fun val hv => h.2 val (hp val hv)⟩

theorem ReadsP.mono {P P' : (String → Nat) → Prop} {c : (String → Nat) → Cell} {T : Tensor Cell} {L : List Ax} {pre : Ax → Nat}
    (h : ReadsP P c T L pre) (hp : ∀ val, P' val → P val) : ReadsP P' c T L pre :=
  ⟨h.1, fun val hv => h.2 val (hp val hv)⟩

theorem ReadsP.congr {P : (String → Nat) → Prop} {c : (String → Nat) → Cell} {T : Tensor Cell} {L : List Ax} {pre pre' : Ax → Nat}
    (h : ReadsP P c T L pre) (he : ∀ a ∈ L, pre a = pre' a) : ReadsP P c T L pre' := by
  have e1 : L.map pre = L.map pre' := List.map_congr_left he
  have e2 : ∀ val : String → Nat, L.map (fun a => if pre a = 1 then 0 else val a.name)
      = L.map (fun a => if pre' a = 1 then 0 else val a.name) := by
    intro val
    apply List.map_congr_left
    intro a ha
    rw [he a ha]
  refine ⟨by rw [h.1, e1], ?_⟩
  intro val hv
  rw [← e1, ← e2]
  exact h.2 val hv

/-! ### `prepInput`: flattened axes and unit axes of one input -/

theorem names_nodup_filter {L : List Ax} (h : (names L).Nodup) (p : Ax → Bool) : (names (L.filter p)).Nodup := by
  simp only [names] at h ⊢
  exact List.Pairwise.sublist (List.Sublist.map _ List.filter_sublist) h

/-- The decomposer's preparation of input `i` (held in register `i`, the symbolic input of shape `gShape e`): the
result is a tensor over the squeezed flat expression that holds, at the index a valuation gives to it, the input
element at the index the valuation gives to the input's leaf axes. -/
theorem prep_run {inps : List (Tensor Cell)} {s s1 : St} {regs : List (Tensor Cell)} {marked : List String} {i : Nat}
    {e : List G} {sq : List Ax}
    (h : Tr inps s regs) (hi : regs[i]? = some (symInput i (gShape e)))
    (hp : prepInput marked s i e = .ok (sq, s1)) :
    (names (G.leavesL e)).Nodup ∧ sq = squeezedExpr marked e ∧
    ∃ ext T, Run inps s1 (regs ++ ext) T ∧ T.data = (symInput i (gShape e)).data ∧
      ReadsC (fun val => Bnd val (G.leavesL e)) (fun val => .src i (ravel (lens (G.leavesL e)) (idx (G.leavesL e) val))) T sq := by
  have hnd : noDup (names (G.leavesL e)) = true := by
    by_cases hnd : noDup (names (G.leavesL e)) = true
    · exact hnd
    · unfold prepInput at hp
      simp [hnd, throw, throwThe, MonadExceptOf.throw, bind, Except.bind] at hp
  have hin := (noDup_iff _).mp hnd
  refine ⟨hin, ?_⟩
  have hrun0 : Run inps (s.focus i (gShape e)) regs (symInput i (gShape e)) :=
    h.focus (T := symInput i (gShape e)) hi (by simp [symInput])
  obtain ⟨regs1, T1, hrun1, hd1, hsh1, hl1⟩ := decompose_run (G.depthL e) _ e _ _ hrun0 rfl
  unfold prepInput at hp
  simp only [hnd, Bool.not_true, Bool.false_eq_true, if_false] at hp
  generalize decompose (G.depthL e) (s.focus i (gShape e)) e = d at *
  obtain ⟨s1', e1⟩ := d
  simp only [pure, Except.pure, Except.ok.injEq, Prod.mk.injEq] at hp hrun1 hsh1 hl1
  rw [hl1] at hp
  obtain ⟨hsqdef, hs1⟩ := hp
  rw [hsqdef] at hs1
  subst hs1
  refine ⟨hsqdef.symm, ?_⟩
  -- removal of the unit axes
  have hprod : prod s1'.shape = prod (lens sq) := by
    rw [hsh1, prod_gShape_leaves, hl1, ← hsqdef]
    exact prod_map_filter _ _ _ (fun a _ hp => by
      simp only [Bool.not_eq_eq_eq_not, Bool.not_false, Bool.and_eq_true, beq_iff_eq] at hp
      exact hp.1)
  obtain ⟨regs2, T2, hrun2, hsh2, hd2⟩ := reshapeW_run hrun1 (lens sq) hprod
  refine ⟨regs1 ++ regs2, T2, hrun2.assoc, by rw [hd2, hd1], hsh2, ?_⟩
  intro val hvi
  have hrv : ravel (lens sq) (idx sq val) = ravel (lens (G.leavesL e)) (idx (G.leavesL e) val) := by
    rw [← hsqdef]
    exact (ravel_map_filter _ _ _ _ (fun a ha hp => by
      simp only [Bool.not_eq_eq_eq_not, Bool.not_false, Bool.and_eq_true, beq_iff_eq] at hp
      have := hvi a ha
      exact ⟨hp.1, by omega⟩)).symm
  rw [hrv, hd2, hd1]
  have hlt := ravel_lt (valid_idx hvi)
  rw [← prod_gShape_leaves] at hlt
  simp [symInput, hlt]

/-! ### `_squeeze_transpose_broadcast(…, broadcast_to_unitary=True)` -/

/-- The shape function of an aligned operand: the length of an output axis that the operand has, 1 otherwise. -/
def presentPre (sq : List Ax) : Ax → Nat := fun a => if (names sq).contains a.name then a.len else 1

theorem stbU_run {inps : List (Tensor Cell)} {s r : St} {regs : List (Tensor Cell)} {T : Tensor Cell} {W sq e1 : List Ax}
    {P : (String → Nat) → Prop} {c : (String → Nat) → Cell} {tag : Nat}
    (h : Run inps s regs T) (hsq : (names sq).Nodup) (hW : (names W).Nodup) (hne : ∀ a ∈ sq, a.len ≠ 1)
    (hPsq : ∀ val, P val → Bnd val sq) (hPW : ∀ val, P val → Bnd val W)
    (hcons : ∀ a ∈ sq, ∀ b ∈ W, a.name = b.name → a.len = b.len)
    (hR : ReadsC P c T sq) (hstb : stbU tag s sq W = .ok (e1, r)) :
    (∀ n ∈ names sq, n ∈ names W) ∧ e1 = unitaryExpr tag sq W ∧
    ∃ ext T', Run inps r (regs ++ ext) T' ∧ ReadsP P c T' W (presentPre sq) := by
  unfold stbU at hstb
  rw [squeezeStep_none s sq W hne] at hstb
  cases ht : transposeStep s sq W with
  | error e => simp [ht, bind, Except.bind] at hstb
  | ok s2 =>
    simp only [ht, bind, Except.bind, pure, Except.pure, Except.ok.injEq, Prod.mk.injEq] at hstb
    obtain ⟨he1, hr⟩ := hstb
    subst hr
    obtain ⟨hsub, regs2, T2, hrun2, hR2⟩ := stbT_run h hsq hW hPsq hcons hR ht
    refine ⟨hsub, he1.symm, ?_⟩
    unfold broadcastStepU
    simp only []
    split
    · rename_i hbc
      have hbcc := bc_contains sq W
      generalize hbcdef : (names W).filter (fun n => !(names sq).contains n) = bc at hbc hbcc ⊢
      have hg1 : ∀ a ∈ W, (names sq).contains a.name = false →
          (if bc.contains a.name then 1 else a.len) = 1 := by
        intro a ha hp
        have : bc.contains a.name = true := by rw [hbcc a ha, hp]; rfl
        rw [if_pos this]
      have hg2 : ∀ a ∈ W.filter (fun b => (names sq).contains b.name),
          (if bc.contains a.name then 1 else a.len) = a.len := by
        intro a ha
        have hm := List.mem_filter.mp ha
        have : ¬ (bc.contains a.name = true) := by rw [hbcc a hm.1, hm.2]; simp
        rw [if_neg this]
      obtain ⟨regs3, T3, hrun3, hR3⟩ := unsqueeze_run (fun b => (names sq).contains b.name)
        (fun a => if bc.contains a.name then 1 else a.len) hrun2 hPW hg1 hg2 hR2
      refine ⟨regs2 ++ regs3, T3, hrun3.assoc, hR3.congr ?_⟩
      intro a ha
      simp only [presentPre]
      by_cases hp : (names sq).contains a.name = true
      · rw [if_pos hp]; exact hg2 a (List.mem_filter.mpr ⟨ha, hp⟩)
      · rw [if_neg hp]; exact hg1 a ha (by simpa using hp)
    · rename_i hbc
      have hall := filter_present_eq_self hbc
      rw [hall] at hR2
      refine ⟨regs2, T2, hrun2, ReadsP_of_ReadsC _ hPW ?_ hR2⟩
      intro a ha
      have : (names sq).contains a.name = true := by
        have h3 : a ∈ W.filter (fun b => (names sq).contains b.name) := by rw [hall]; exact ha
        exact (List.mem_filter.mp h3).2
      simp only [presentPre]
      rw [if_pos this]

/-- The chain of input `i`: preparation and alignment with the output expression `W` (whose axes all occur in some
input).  `P` is any condition on valuations that bounds them on the input's and on `W`'s axes. -/
theorem chain_run {inps : List (Tensor Cell)} {s r : St} {regs : List (Tensor Cell)} {i : Nat} {e : List G} {W e1 : List Ax}
    {P : (String → Nat) → Prop}
    (h : Tr inps s regs) (hi : regs[i]? = some (symInput i (gShape e)))
    (hW : (names W).Nodup) (hPe : ∀ val, P val → Bnd val (G.leavesL e)) (hPW : ∀ val, P val → Bnd val W)
    (hcons : ∀ a ∈ G.leavesL e, ∀ b ∈ W, a.name = b.name → a.len = b.len)
    (hc : chainInput W s i e = .ok (e1, r)) :
    (names (G.leavesL e)).Nodup ∧ (∀ n ∈ names (squeezedExpr [] e), n ∈ names W) ∧
    e1 = unitaryExpr i (squeezedExpr [] e) W ∧
    ∃ ext T', Run inps r (regs ++ ext) T' ∧
      ReadsP P (fun val => .src i (ravel (lens (G.leavesL e)) (idx (G.leavesL e) val))) T' W (presentPre (squeezedExpr [] e)) := by
  unfold chainInput at hc
  cases hp : prepInput [] s i e with
  | error er => simp [hp, bind, Except.bind] at hc
  | ok x =>
    obtain ⟨sq, s1⟩ := x
    simp only [hp, bind, Except.bind] at hc
    obtain ⟨hnd, hsq, regs1, T1, hrun1, _, hR1⟩ := prep_run h hi hp
    subst hsq
    have hmem : ∀ a ∈ squeezedExpr [] e, a ∈ G.leavesL e ∧ a.len ≠ 1 := by
      intro a ha
      have := List.mem_filter.mp ha
      refine ⟨this.1, ?_⟩
      have h2 := this.2
      simp only [List.contains_nil, Bool.not_false, Bool.and_true, Bool.not_eq_eq_eq_not, Bool.not_true, beq_eq_false_iff_ne] at h2
      exact h2
    obtain ⟨hsub, he1, regs2, T2, hrun2, hR2⟩ := stbU_run hrun1 (names_nodup_filter hnd _) hW (fun a ha => (hmem a ha).2)
      (fun val hv a ha => hPe val hv a (hmem a ha).1) hPW (fun a ha b hb hn => hcons a (hmem a ha).1 b hb hn)
      (hR1.mono hPe) hc
    exact ⟨hnd, hsub, he1, regs1 ++ regs2, T2, hrun2.assoc, hR2⟩

/-! ### numpy broadcasting of aligned operands -/

/-- The result of numpy's merge of two broadcast-compatible dimension lengths. -/
def mergeV (x y : Nat) : Nat := if x == y then x else if x == 1 then y else x

/-- The joint shape function of aligned operands (numpy folds from the right). -/
def joinAll : List (Ax → Nat) → Ax → Nat
  | [], _ => 1
  | p :: ps, a => mergeV (p a) (joinAll ps a)

/-- `p` gives every axis of `W` its length or 1. -/
def Mask (W : List Ax) (p : Ax → Nat) : Prop := ∀ a ∈ W, p a = a.len ∨ p a = 1

theorem mergeV_one (x : Nat) : mergeV x 1 = x := by
  unfold mergeV
  by_cases h : x = 1
  · simp [h]
  · simp [h]

theorem joinAll_mask {W : List Ax} : ∀ {ps : List (Ax → Nat)}, (∀ p ∈ ps, Mask W p) → Mask W (joinAll ps)
  | [], _ => fun _ _ => Or.inr rfl
  | p :: ps, h => by
    intro a ha
    have h1 := h p (List.mem_cons_self ..) a ha
    have h2 := joinAll_mask (ps := ps) (fun q hq => h q (List.mem_cons_of_mem _ hq)) a ha
    simp only [joinAll, mergeV]
    rcases h1 with h1 | h1 <;> rcases h2 with h2 | h2 <;> simp [h1, h2] <;> split <;> simp_all

theorem joinAll_ne_one {a : Ax} : ∀ {ps : List (Ax → Nat)} {p : Ax → Nat}, p ∈ ps → p a ≠ 1 →
    joinAll ps a ≠ 1
  | [], _, h, _ => by simp at h
  | q :: qs, p, h, hp => by
    simp only [joinAll, mergeV]
    rcases List.mem_cons.mp h with rfl | h'
    · by_cases e : (p a == joinAll qs a) = true
      · simp [e, hp]
      · simp [e, hp]
    · have ih := joinAll_ne_one (ps := qs) h' hp
      by_cases e : (q a == joinAll qs a) = true
      · have : q a = joinAll qs a := by simpa using e
        simp [e, this, ih]
      · by_cases e1 : (q a == 1) = true
        · simp [e, e1, ih]
        · simp only [e, e1, Bool.false_eq_true, if_false]
          simpa using e1

theorem mapM_zip_merge (g : Nat × Nat → IR.E Nat) (W : List Ax) (p q : Ax → Nat)
    (hg : ∀ a ∈ W, g (p a, q a) = pure (mergeV (p a) (q a))) :
    (List.zip (W.map p) (W.map q)).mapM g = pure (W.map (fun a => mergeV (p a) (q a))) := by
  induction W with
  | nil => rfl
  | cons a W ih =>
    simp only [List.map_cons, List.zip_cons_cons, List.mapM_cons, hg a (List.mem_cons_self ..),
      ih (fun b hb => hg b (List.mem_cons_of_mem _ hb)), pure_bind]

theorem replicate_eq_map_const {α : Type} (l : List α) : List.replicate l.length (1 : Nat) = l.map (fun _ => (1 : Nat)) := by
  induction l with
  | nil => rfl
  | cons a l ih => simp [List.replicate_succ, ih]

theorem broadcastShapes_rows (W : List Ax) : ∀ (ps : List (Ax → Nat)), ps ≠ [] → (∀ p ∈ ps, Mask W p) →
    broadcastShapes (ps.map (fun p => W.map p)) = .ok (W.map (joinAll ps))
  | [], h, _ => absurd rfl h
  | [p], _, _ => by
    simp only [List.map_cons, List.map_nil, broadcastShapes, pure_bind, List.length_map, List.length_nil, Nat.zero_le,
      Nat.max_eq_left, Nat.sub_self, List.replicate_zero, List.nil_append, Nat.sub_zero, List.append_nil]
    have hr : List.replicate W.length 1 = W.map (fun _ => 1) := replicate_eq_map_const W
    rw [hr, mapM_zip_merge _ W p (fun _ => 1)]
    · have : joinAll [p] = fun a => mergeV (p a) ((fun _ => 1) a) := by funext a; rfl
      rw [this]; rfl
    · intro a _
      simp only [mergeV_one]
      by_cases h : p a = 1
      · simp [h]
      · simp [h]
  | p :: q :: qs, _, hm => by
    have ih := broadcastShapes_rows W (q :: qs) (by simp) (fun r hr => hm r (List.mem_cons_of_mem _ hr))
    have hmq := joinAll_mask (W := W) (ps := q :: qs) (fun r hr => hm r (List.mem_cons_of_mem _ hr))
    have hmp := hm p (List.mem_cons_self ..)
    rw [List.map_cons, broadcastShapes, ih]
    simp only [ok_bind, List.length_map, Nat.max_self, Nat.sub_self, List.replicate_zero, List.nil_append]
    rw [mapM_zip_merge _ W p (joinAll (q :: qs))]
    · rfl
    · intro a ha
      simp only [mergeV]
      rcases hmp a ha with h1 | h1 <;> rcases hmq a ha with h2 | h2
      · simp [h1, h2]
      · by_cases e : a.len = 1
        · simp [h1, h2, e]
        · simp [h1, h2, e]
      · by_cases e : a.len = 1
        · simp [h1, h2, e]
        · have : ¬ (1 = a.len) := fun x => e x.symm
          simp [h1, h2, this]
      · simp [h1, h2]

/-! ### one traced numpy call -/

/-- An aligned operand: its register, its shape function on the output axes, and the cell it holds. -/
structure Od where
  reg : Nat
  pre : Ax → Nat
  c : (String → Nat) → Cell

theorem filterMapM_ods (g : Arg → IR.E (Option (List Nat))) (W : List Ax) : ∀ ods : List Od,
    (∀ d ∈ ods, g (.reg d.reg) = pure (some (W.map d.pre))) →
    (ods.map (fun d => Arg.reg d.reg)).filterMapM g = pure (ods.map (fun d => W.map d.pre))
  | [], _ => rfl
  | d :: ds, h => by
    rw [List.map_cons, List.filterMapM_cons, h d (List.mem_cons_self ..)]
    simp only [pure_bind]
    rw [filterMapM_ods g W ds (fun x hx => h x (List.mem_cons_of_mem _ hx))]
    rfl

theorem Tr.emit {inps : List (Tensor Cell)} {s : St} {regs : List (Tensor Cell)} (h : Tr inps s regs)
    (i : Instr) (pl : Plan) (hp : planInstr (regs.map (·.shape)) i = .ok pl) (hl : pl.cells.length = prod pl.shape) :
    Run inps (s.emit i pl.shape) (regs ++ [runPlan symAlg regs pl]) (runPlan symAlg regs pl) where
  ev := by
    simp only [St.emit, evalProg_append, h.ev, bind, Except.bind, evalProg, hp, pure, Except.pure]
  next := by simp [St.emit, h.next]
  reg := by
    simp only [St.emit, ← h.next]
    exact List.getElem?_concat_length
  shape := rfl
  len := by rw [runPlan_data]; simpa [runPlan] using hl

theorem mask_valid {W : List Ax} {J : Ax → Nat} {val : String → Nat} (hJ : Mask W J) (hb : Bnd val W) :
    Valid (W.map J) (W.map (fun a => if J a = 1 then 0 else val a.name)) := by
  induction W with
  | nil => exact Valid.nil
  | cons a W ih =>
    refine Valid.cons ?_ (ih (fun b hb' => hJ b (List.mem_cons_of_mem _ hb')) (fun b hb' => hb b (List.mem_cons_of_mem _ hb')))
    have hv := hb a (List.mem_cons_self ..)
    rcases hJ a (List.mem_cons_self ..) with h1 | h1
    · by_cases e : J a = 1
      · simp [e]
      · simp only [e, if_false]; rw [h1]; exact hv
    · simp [h1]

/-- One numpy call on aligned operands: the result is again an aligned tensor; its cell is the elementary
function applied to the operands' cells. -/
theorem ewise_run {inps : List (Tensor Cell)} {s s' : St} {regs : List (Tensor Cell)} {W : List Ax}
    {P : (String → Nat) → Prop} {f : String} (ods : List Od) (hne : ods ≠ []) (h : Tr inps s regs)
    (hops : ∀ d ∈ ods, ∃ T, regs[d.reg]? = some T ∧ ReadsP P d.c T W d.pre)
    (hmask : ∀ d ∈ ods, Mask W d.pre) (hPW : ∀ val, P val → Bnd val W)
    (ops : List Opnd) (hreg : ops.map (·.reg) = ods.map (·.reg))
    (hshape : ops.map (·.shape) = ods.map (fun d => W.map d.pre))
    (hcall : ewiseCall f s ops = .ok s') :
    ∃ T', Run inps s' (regs ++ [T']) T' ∧
      ReadsP P (fun val => .app f (ods.map (fun d => d.c val))) T' W (joinAll (ods.map (·.pre))) := by
  have hJ : Mask W (joinAll (ods.map (·.pre))) := joinAll_mask (by
    intro p hp
    obtain ⟨d, hd, rfl⟩ := List.mem_map.mp hp
    exact hmask d hd)
  have hbs : broadcastShapes (ops.map (·.shape)) = .ok (W.map (joinAll (ods.map (·.pre)))) := by
    rw [hshape]
    have := broadcastShapes_rows W (ods.map (·.pre)) (by simpa using hne) (by
      intro p hp
      obtain ⟨d, hd, rfl⟩ := List.mem_map.mp hp
      exact hmask d hd)
    simpa [List.map_map, Function.comp_def] using this
  have hopsne : ops.isEmpty = false := by
    cases ops with
    | nil =>
      cases ods with
      | nil => exact absurd rfl hne
      | cons d ds => simp at hreg
    | cons o os => rfl
  unfold ewiseCall at hcall
  simp only [hopsne, Bool.false_eq_true, if_false, hbs, bind, Except.bind, pure, Except.pure, Except.ok.injEq] at hcall
  subst hcall
  have hargs : ops.map (fun o => Arg.reg o.reg) = ods.map (fun d => Arg.reg d.reg) := by
    have h1 : ops.map (fun o => Arg.reg o.reg) = (ops.map (·.reg)).map Arg.reg := by simp [List.map_map]
    rw [h1, hreg]; simp [List.map_map]
  rw [hargs]
  have hshapes : ∀ d ∈ ods, (regs.map (·.shape))[d.reg]? = some (W.map d.pre) := by
    intro d hd
    obtain ⟨T, hT, hR⟩ := hops d hd
    rw [shapes_getElem? hT, hR.1]
  have hpl : planInstr (regs.map (·.shape)) (.ewise f (ods.map (fun d => Arg.reg d.reg)))
      = .ok (tabulate (W.map (joinAll (ods.map (·.pre)))) (fun o =>
          .app f ((ods.map (fun d => Arg.reg d.reg)).map (fun a => match a with
            | .reg r =>
              let s := ((regs.map (·.shape))[r]?).getD []
              .src r (ravel s (broadcastIndex s (W.map (joinAll (ods.map (·.pre)))) o))
            | .lit i => .lit i)))) := by
    have hemp : (ods.map (fun d => W.map d.pre)).isEmpty = false := by
      cases ods with
      | nil => exact absurd rfl hne
      | cons d ds => rfl
    rw [hshape] at hbs
    simp only [planInstr]
    rw [filterMapM_ods _ W ods (by
      intro d hd
      simp only [getShape, hshapes d hd]
      rfl)]
    simp only [pure_bind, hemp, Bool.false_eq_true, if_false, hbs, ok_bind]
    rfl
  have hr := h.emit _ _ hpl (tabulate_length _ _)
  refine ⟨_, hr, rfl, ?_⟩
  intro val hv
  have hvalid := mask_valid hJ (hPW val hv)
  rw [runPlan_data, List.getElem?_map, tabulate_getElem? _ _ _ hvalid]
  simp only [Option.map_some, evalCell, evalCells_eq_map, List.map_map, symAlg, Option.some.injEq, Cell.app.injEq, true_and]
  apply List.map_congr_left
  intro d hd
  obtain ⟨T, hT, hR⟩ := hops d hd
  simp only [Function.comp, hshapes d hd, Option.getD_some]
  have hbi : broadcastIndex (W.map d.pre) (W.map (joinAll (ods.map (·.pre))))
      (W.map (fun a => if joinAll (ods.map (·.pre)) a = 1 then 0 else val a.name))
      = W.map (fun a => if d.pre a = 1 then 0 else val a.name) := by
    simp only [broadcastIndex, List.length_map, Nat.sub_self, List.drop_zero, List.zip_map', List.map_map]
    apply List.map_congr_left
    intro a _
    simp only [Function.comp]
    by_cases e : d.pre a = 1
    · simp [e]
    · have := joinAll_ne_one (a := a) (List.mem_map.mpr ⟨d, hd, rfl⟩) e
      simp [e, this]
  rw [hbi]
  have := hR.2 val hv
  have e2 := evalCell_src hT (ravel (W.map d.pre) (W.map (fun a => if d.pre a = 1 then 0 else val a.name)))
  simp only [symAlg] at e2
  rw [e2, this]
  rfl

/-! ### the alignment loops -/

/-- The cell of input `i` with expression `e` under a valuation. -/
def cOf (i : Nat) (e : List G) : (String → Nat) → Cell :=
  fun val => .src i (ravel (lens (G.leavesL e)) (idx (G.leavesL e) val))

/-- What the chains need to know about the inputs `es` (input `i + k` is `es[k]`). -/
structure InsOK (W : List Ax) (P : (String → Nat) → Prop) (es : List (List G)) : Prop where
  bnd : ∀ e ∈ es, ∀ val, P val → Bnd val (G.leavesL e)
  cons : ∀ e ∈ es, ∀ a ∈ G.leavesL e, ∀ b ∈ W, a.name = b.name → a.len = b.len

theorem InsOK.tail {W : List Ax} {P : (String → Nat) → Prop} {e : List G} {es : List (List G)} (h : InsOK W P (e :: es)) :
    InsOK W P es :=
  ⟨fun x hx => h.bnd x (List.mem_cons_of_mem _ hx), fun x hx => h.cons x (List.mem_cons_of_mem _ hx)⟩

theorem presentPre_mask (W sq : List Ax) : Mask W (presentPre sq) := by
  intro a _
  simp only [presentPre]
  by_cases h : (names sq).contains a.name = true
  · left; rw [if_pos h]
  · right; rw [if_neg h]

theorem alignAll_run {inps : List (Tensor Cell)} {W : List Ax} {P : (String → Nat) → Prop}
    (hW : (names W).Nodup) (hPW : ∀ val, P val → Bnd val W) :
    ∀ (es : List (List G)) (i : Nat) (s s' : St) (regs : List (Tensor Cell)) (xs : List (List Ax)) (os' : List Opnd),
    Tr inps s regs → (∀ k e, es[k]? = some e → regs[i + k]? = some (symInput (i + k) (gShape e))) →
    InsOK W P es → alignAll W i s es = .ok (xs, os', s') →
    (∀ e ∈ es, (names (G.leavesL e)).Nodup ∧ ∀ n ∈ names (squeezedExpr [] e), n ∈ names W) ∧
    xs = (es.zipIdx i).map (fun x => unitaryExpr x.2 (squeezedExpr [] x.1) W) ∧
    ∃ (ext : List (Tensor Cell)) (ods : List Od), Tr inps s' (regs ++ ext) ∧
      os'.map (·.reg) = ods.map (·.reg) ∧ os'.map (·.shape) = ods.map (fun d => W.map d.pre) ∧
      ods.map (·.pre) = es.map (fun e => presentPre (squeezedExpr [] e)) ∧
      ods.map (·.c) = (es.zipIdx i).map (fun x => cOf x.2 x.1) ∧
      ∀ d ∈ ods, ∃ T, (regs ++ ext)[d.reg]? = some T ∧ ReadsP P d.c T W d.pre
  | [], i, s, s', regs, xs, os', h, _, _, ha => by
    simp only [alignAll, pure, Except.pure, Except.ok.injEq, Prod.mk.injEq] at ha
    obtain ⟨rfl, rfl, rfl⟩ := ha
    exact ⟨by simp, rfl, [], [], by simpa using h, rfl, rfl, rfl, rfl, by simp⟩
  | e :: es, i, s, s', regs, xs, os', h, hin, hok, ha => by
    unfold alignAll at ha
    cases hc : chainInput W s i e with
    | error er => simp [hc, bind, Except.bind] at ha
    | ok x =>
      obtain ⟨e1, s1⟩ := x
      simp only [hc, bind, Except.bind] at ha
      cases hr : alignAll W (i + 1) s1 es with
      | error er => simp [hr] at ha
      | ok y =>
        obtain ⟨xs', os'', s2⟩ := y
        simp only [hr, pure, Except.pure, Except.ok.injEq, Prod.mk.injEq] at ha
        obtain ⟨rfl, rfl, rfl⟩ := ha
        have hi0 : regs[i]? = some (symInput i (gShape e)) := by simpa using hin 0 e rfl
        obtain ⟨hnd, hsub, he1, ext1, T1, hrun1, hR1⟩ := chain_run h hi0 hW (hok.bnd e (List.mem_cons_self ..)) hPW
          (hok.cons e (List.mem_cons_self ..)) hc
        have hin' : ∀ k e', es[k]? = some e' → (regs ++ ext1)[i + 1 + k]? = some (symInput (i + 1 + k) (gShape e')) := by
          intro k e' hk
          have := hin (k + 1) e' (by simpa using hk)
          have e3 : i + (k + 1) = i + 1 + k := by omega
          rw [e3] at this
          exact getElem?_append_of_some this ext1
        obtain ⟨hall, hxs, ext2, ods, htr, hreg, hshape, hpre, hcs, hread⟩ :=
          alignAll_run hW hPW es (i + 1) s1 s2 (regs ++ ext1) xs' os'' hrun1.tr hin' hok.tail hr
        refine ⟨?_, ?_, ext1 ++ ext2, ⟨s1.reg, presentPre (squeezedExpr [] e), cOf i e⟩ :: ods, ?_, ?_, ?_, ?_, ?_, ?_⟩
        · intro x hx
          rcases List.mem_cons.mp hx with rfl | hx'
          · exact ⟨hnd, hsub⟩
          · exact hall x hx'
        · simp only [List.zipIdx_cons, List.map_cons, he1, hxs]
        · rw [← List.append_assoc]; exact htr
        · simp only [List.map_cons, hreg]
        · simp only [List.map_cons, hshape, ← hrun1.shape, hR1.1]
        · simp only [List.map_cons, hpre]
        · simp only [List.zipIdx_cons, List.map_cons, hcs]
        · intro d hd
          rcases List.mem_cons.mp hd with rfl | hd'
          · refine ⟨T1, ?_, hR1⟩
            rw [← List.append_assoc]
            exact getElem?_append_of_some hrun1.reg ext2
          · obtain ⟨T, hT, hR⟩ := hread d hd'
            exact ⟨T, by rw [← List.append_assoc]; exact hT, hR⟩

theorem alignFold_run {inps : List (Tensor Cell)} {W : List Ax} {P : (String → Nat) → Prop} {f : String}
    (hW : (names W).Nodup) (hPW : ∀ val, P val → Bnd val W) :
    ∀ (es : List (List G)) (i : Nat) (s s' : St) (regs : List (Tensor Cell)) (xs : List (List Ax)) (Tacc : Tensor Cell)
      (preA : Ax → Nat) (cA : (String → Nat) → Cell),
    Run inps s regs Tacc → ReadsP P cA Tacc W preA → Mask W preA →
    (∀ k e, es[k]? = some e → regs[i + k]? = some (symInput (i + k) (gShape e))) →
    InsOK W P es → alignFold f W i s es = .ok (xs, s') →
    (∀ e ∈ es, (names (G.leavesL e)).Nodup ∧ ∀ n ∈ names (squeezedExpr [] e), n ∈ names W) ∧
    xs = (es.zipIdx i).map (fun x => unitaryExpr x.2 (squeezedExpr [] x.1) W) ∧
    ∃ (ext : List (Tensor Cell)) (T' : Tensor Cell) (preF : Ax → Nat), Run inps s' (regs ++ ext) T' ∧
      ReadsP P (fun val => ((es.zipIdx i).map (fun x => cOf x.2 x.1 val)).foldl (fun a d => .app f [a, d]) (cA val)) T' W preF ∧
      Mask W preF ∧ (∀ a, preA a ≠ 1 → preF a ≠ 1) ∧
      (∀ e ∈ es, ∀ a, presentPre (squeezedExpr [] e) a ≠ 1 → preF a ≠ 1)
  | [], i, s, s', regs, xs, Tacc, preA, cA, h, hR, hm, _, _, ha => by
    simp only [alignFold, pure, Except.pure, Except.ok.injEq, Prod.mk.injEq] at ha
    obtain ⟨rfl, rfl⟩ := ha
    exact ⟨by simp, rfl, [], Tacc, preA, by simpa using h, by simpa using hR, hm, fun _ h => h, by simp⟩
  | e :: es, i, s, s', regs, xs, Tacc, preA, cA, h, hR, hm, hin, hok, ha => by
    unfold alignFold at ha
    cases hc : chainInput W s i e with
    | error er => simp [hc, bind, Except.bind] at ha
    | ok x =>
      obtain ⟨e1, s1⟩ := x
      simp only [hc, bind, Except.bind] at ha
      cases hcall : ewiseCall f s1 [⟨[], s.reg, s.shape⟩, ⟨e1, s1.reg, s1.shape⟩] with
      | error er => simp [hcall] at ha
      | ok s2 =>
        simp only [hcall] at ha
        cases hr : alignFold f W (i + 1) s2 es with
        | error er => simp [hr] at ha
        | ok y =>
          obtain ⟨xs', s3⟩ := y
          simp only [hr, pure, Except.pure, Except.ok.injEq, Prod.mk.injEq] at ha
          obtain ⟨rfl, rfl⟩ := ha
          have hi0 : regs[i]? = some (symInput i (gShape e)) := by simpa using hin 0 e rfl
          obtain ⟨hnd, hsub, he1, ext1, T1, hrun1, hR1⟩ := chain_run h.tr hi0 hW (hok.bnd e (List.mem_cons_self ..)) hPW
            (hok.cons e (List.mem_cons_self ..)) hc
          -- the binary call
          obtain ⟨T2, hrun2, hR2⟩ := ewise_run (W := W) (P := P) (f := f)
            [⟨s.reg, preA, cA⟩, ⟨s1.reg, presentPre (squeezedExpr [] e), cOf i e⟩] (by simp) hrun1.tr
            (by
              intro d hd
              simp only [List.mem_cons, List.not_mem_nil, or_false] at hd
              rcases hd with rfl | rfl
              · exact ⟨Tacc, getElem?_append_of_some h.reg ext1, hR⟩
              · exact ⟨T1, hrun1.reg, hR1⟩)
            (by
              intro d hd
              simp only [List.mem_cons, List.not_mem_nil, or_false] at hd
              rcases hd with rfl | rfl
              · exact hm
              · exact presentPre_mask W _)
            hPW _ rfl (by simp only [List.map_cons, List.map_nil, ← h.shape, hR.1, ← hrun1.shape, hR1.1]) hcall
          have hm2 : Mask W (joinAll [preA, presentPre (squeezedExpr [] e)]) := joinAll_mask (by
            intro p hp
            simp only [List.mem_cons, List.not_mem_nil, or_false] at hp
            rcases hp with rfl | rfl
            · exact hm
            · exact presentPre_mask W _)
          have hin' : ∀ k e', es[k]? = some e' →
              (regs ++ ext1 ++ [T2])[i + 1 + k]? = some (symInput (i + 1 + k) (gShape e')) := by
            intro k e' hk
            have := hin (k + 1) e' (by simpa using hk)
            have e3 : i + (k + 1) = i + 1 + k := by omega
            rw [e3] at this
            exact getElem?_append_of_some (getElem?_append_of_some this ext1) [T2]
          obtain ⟨hall, hxs, ext3, T3, preF, hrun3, hR3, hmF, hA, hE⟩ :=
            alignFold_run hW hPW es (i + 1) s2 s3 (regs ++ ext1 ++ [T2]) xs' T2 _ _ hrun2 hR2 hm2 hin' hok.tail hr
          refine ⟨?_, ?_, ext1 ++ [T2] ++ ext3, T3, preF, ?_, ?_, hmF, ?_, ?_⟩
          · intro x hx
            rcases List.mem_cons.mp hx with rfl | hx'
            · exact ⟨hnd, hsub⟩
            · exact hall x hx'
          · simp only [List.zipIdx_cons, List.map_cons, he1, hxs]
          · have e4 : regs ++ (ext1 ++ [T2] ++ ext3) = regs ++ ext1 ++ [T2] ++ ext3 := by simp [List.append_assoc]
            rw [e4]; exact hrun3
          · simpa only [List.zipIdx_cons, List.map_cons, List.foldl_cons, List.map_nil] using hR3
          · intro a ha
            apply hA
            exact joinAll_ne_one (ps := [preA, presentPre (squeezedExpr [] e)]) (List.mem_cons_self ..) ha
          · intro x hx a ha
            rcases List.mem_cons.mp hx with rfl | hx'
            · apply hA
              exact joinAll_ne_one (ps := [preA, presentPre (squeezedExpr [] x)]) (by simp) ha
            · exact hE x hx' a ha

/-! ### the expression chosen by `elementwise` -/

theorem pickAxis_mem : ∀ {l : List Ax} {a : Ax}, pickAxis l = some a → a ∈ l
  | [], _, h => by simp [pickAxis] at h
  | x :: xs, a, h => by
    unfold pickAxis at h
    cases hp : pickAxis xs with
    | none =>
      simp only [hp, Option.some.injEq] at h
      subst h; exact List.mem_cons_self ..
    | some b =>
      simp only [hp] at h
      by_cases hb : b.len > x.len
      · simp only [hb, if_true, Option.some.injEq] at h
        subst h
        exact List.mem_cons_of_mem _ (pickAxis_mem hp)
      · simp only [hb, if_false, Option.some.injEq] at h
        subst h; exact List.mem_cons_self ..

theorem pickAxis_some : ∀ {l : List Ax}, l ≠ [] → ∃ a, pickAxis l = some a
  | [], h => absurd rfl h
  | x :: xs, _ => by
    unfold pickAxis
    cases pickAxis xs with
    | none => exact ⟨x, rfl⟩
    | some b =>
      by_cases hb : b.len > x.len
      · exact ⟨b, by simp [hb]⟩
      · exact ⟨x, by simp [hb]⟩

/-- If the static shape of the numpy result is that of the output expression without broadcast axes (none of which
has length 1), the axes chosen by `np.argmax` are exactly those of that expression. -/
theorem pickCols_eq {ρ : Type} (R : List ρ) (hR : R ≠ []) (tag : ρ → Nat) (nm : ρ → List String) :
    ∀ (W : List Ax) (k : Nat), (∀ b ∈ W, b.len ≠ 1) →
    lens (pickCols W.length (R.map (fun x => unitaryExprAux (tag x) (nm x) k W))) = lens W →
    pickCols W.length (R.map (fun x => unitaryExprAux (tag x) (nm x) k W)) = W
  | [], _, _, _ => rfl
  | b :: W, k, hne, hl => by
    have hheads : heads (R.map (fun x => unitaryExprAux (tag x) (nm x) k (b :: W)))
        = R.map (fun x => if (nm x).contains b.name then b else ⟨unnamedName (tag x) k, 1⟩) := by
      simp only [heads, unitaryExprAux, List.filterMap_map, Function.comp_def, List.head?_cons]
      induction R with
      | nil => rfl
      | cons r R' _ => simp [List.filterMap_cons]
    have htails : tails (R.map (fun x => unitaryExprAux (tag x) (nm x) k (b :: W)))
        = R.map (fun x => unitaryExprAux (tag x) (nm x) (k + 1) W) := by
      simp only [tails, unitaryExprAux, List.map_map, Function.comp_def, List.tail_cons]
    have hne' : R.map (fun x => if (nm x).contains b.name then b else (⟨unnamedName (tag x) k, 1⟩ : Ax)) ≠ [] := by
      cases R with
      | nil => exact absurd rfl hR
      | cons r R' => simp
    obtain ⟨a, ha⟩ := pickAxis_some hne'
    have hmem := pickAxis_mem ha
    simp only [List.length_cons, pickCols, hheads, htails, ha] at hl ⊢
    simp only [List.singleton_append, lens, List.map_cons, List.cons.injEq] at hl
    have hab : a = b := by
      obtain ⟨x, _, hx⟩ := List.mem_map.mp hmem
      by_cases hc : (nm x).contains b.name = true
      · rw [if_pos hc] at hx; exact hx.symm
      · rw [if_neg hc] at hx
        have : a.len = 1 := by rw [← hx]
        exact absurd (hl.1 ▸ this) (hne b (List.mem_cons_self ..))
    rw [hab, pickCols_eq R hR tag nm W (k + 1) (fun c hc => hne c (List.mem_cons_of_mem _ hc)) hl.2]
    rfl

theorem ReadsC_of_ReadsP {T : Tensor Cell} {Lo : List Ax} {P : (String → Nat) → Prop} {c : (String → Nat) → Cell}
    (pre : Ax → Nat) (hPLo : ∀ val, P val → Bnd val Lo) (hpre : ∀ a ∈ Lo, pre a = a.len) (hR : ReadsP P c T Lo pre) :
    ReadsC P c T Lo := by
  have e1 : Lo.map pre = lens Lo := List.map_congr_left hpre
  refine ⟨by rw [hR.1, e1], ?_⟩
  intro val hP
  have e2 : Lo.map (fun a => if pre a = 1 then 0 else val a.name) = idx Lo val := by
    apply List.map_congr_left
    intro a ha
    rw [hpre a ha]
    have := hPLo val hP a ha
    by_cases h1 : a.len = 1
    · simp [h1]; omega
    · simp [h1]
  have := hR.2 val hP
  rw [e1, e2] at this
  exact this

/-! ### `elementwise.inner` -/

/-- The cell an elementwise operation computes from the cells of its operands. -/
def ewCell (f : String) : EwKind → List Cell → Cell
  | .nary, cs => foldCells f cs
  | .fixed _, cs => .app f cs

/-- The hypotheses about the output expression without broadcast axes. -/
structure WOK (W : List Ax) (P : (String → Nat) → Prop) (ins : List (List G)) : Prop where
  nodup : (names W).Nodup
  bnd : ∀ val, P val → Bnd val W
  ne1 : ∀ b ∈ W, b.len ≠ 1
  cover : ∀ b ∈ W, ∃ e ∈ ins, b.name ∈ names (squeezedExpr [] e)

theorem cover_len {W : List Ax} {P : (String → Nat) → Prop} {ins : List (List G)} (hw : WOK W P ins) {preF : Ax → Nat}
    (hm : Mask W preF) (hE : ∀ e ∈ ins, ∀ a, presentPre (squeezedExpr [] e) a ≠ 1 → preF a ≠ 1) :
    ∀ b ∈ W, preF b = b.len := by
  intro b hb
  obtain ⟨e, he, hn⟩ := hw.cover b hb
  have h1 : presentPre (squeezedExpr [] e) b = b.len := by
    simp only [presentPre]
    rw [if_pos (List.contains_iff_mem.mpr hn)]
  have := hE e he b (by rw [h1]; exact hw.ne1 b hb)
  rcases hm b hb with h2 | h2
  · exact h2
  · exact absurd h2 this

theorem ewInner_run {inps : List (Tensor Cell)} {W : List Ax} {P : (String → Nat) → Prop} {f : String} {kind : EwKind}
    {ins : List (List G)} {s s2 : St} {regs : List (Tensor Cell)} {exprRes : List Ax}
    (hk : ewKindOf f = some kind) (hw : WOK W P ins) (hok : InsOK W P ins) (h : Tr inps s regs)
    (hin : ∀ k e, ins[k]? = some e → regs[k]? = some (symInput k (gShape e)))
    (he : Generic.ewInner f s ins W = .ok (exprRes, s2)) :
    exprRes = W ∧ (∀ e ∈ ins, (names (G.leavesL e)).Nodup ∧ ∀ n ∈ names (squeezedExpr [] e), n ∈ names W) ∧
    ∃ (ext : List (Tensor Cell)) (T : Tensor Cell), Run inps s2 (regs ++ ext) T ∧
      ReadsC P (fun val => ewCell f kind ((ins.zipIdx 0).map (fun x => cOf x.2 x.1 val))) T W := by
  have hin0 : ∀ k e, ins[k]? = some e → regs[0 + k]? = some (symInput (0 + k) (gShape e)) := by
    intro k e hke; simpa using hin k e hke
  unfold Generic.ewInner at he
  simp only [hk, pure_bind] at he
  cases ins with
  | nil => cases kind <;> simp [throw, throwThe, MonadExceptOf.throw] at he
  | cons e es =>
    have hRne : ((e :: es).zipIdx 0) ≠ [] := by simp
    cases kind with
    | fixed n =>
      simp only [] at he
      cases ha : alignAll W 0 s (e :: es) with
      | error er => simp [ha, bind, Except.bind] at he
      | ok y =>
        obtain ⟨xs, os', s1⟩ := y
        simp only [ha, bind, Except.bind] at he
        obtain ⟨hall, hxs, ext1, ods, htr, hreg, hshape, hpre, hcs, hread⟩ :=
          alignAll_run hw.nodup hw.bnd (e :: es) 0 s s1 regs xs os' h hin0 hok ha
        by_cases hn : os'.length = n
        · simp only [hn, bne_self_eq_false, Bool.false_eq_true, if_false, pure, Except.pure] at he
          cases hcall : ewiseCall f s1 os' with
          | error er => simp [hcall] at he
          | ok s2' =>
            simp only [hcall] at he
            have hodsne : ods ≠ [] := by
              intro hnil
              rw [hnil] at hpre
              simp at hpre
            obtain ⟨T2, hrun2, hR2⟩ := ewise_run ods hodsne htr hread
              (by
                intro d hd p
                have : d.pre ∈ ods.map (·.pre) := List.mem_map.mpr ⟨d, hd, rfl⟩
                rw [hpre] at this
                obtain ⟨e', _, he'⟩ := List.mem_map.mp this
                rw [← he']
                exact presentPre_mask W _ p)
              hw.bnd os' hreg hshape hcall
            have hJm : Mask W (joinAll (ods.map (·.pre))) := by
              rw [hpre]
              exact joinAll_mask (by
                intro p hp
                obtain ⟨e', _, rfl⟩ := List.mem_map.mp hp
                exact presentPre_mask W _)
            have hlen := cover_len hw hJm (by
              intro e' he' a ha'
              rw [hpre]
              exact joinAll_ne_one (List.mem_map.mpr ⟨e', he', rfl⟩) ha')
            by_cases hsh : s2'.shape = lens (pickCols W.length xs)
            · simp only [hsh, bne_self_eq_false, Bool.false_eq_true, if_false, Except.ok.injEq, Prod.mk.injEq] at he
              obtain ⟨he1, he2⟩ := he
              subst he2
              have hlw : lens (pickCols W.length xs) = lens W := by
                rw [← hsh, ← hrun2.shape, hR2.1]
                exact List.map_congr_left hlen
              have hpick : pickCols W.length xs = W := by
                rw [hxs] at hlw ⊢
                exact pickCols_eq _ hRne (fun x => x.2) (fun x => names (squeezedExpr [] x.1)) W 0 hw.ne1 hlw
              refine ⟨by rw [← he1, hpick], hall, ext1 ++ [T2], T2, by rw [← List.append_assoc]; exact hrun2, ?_⟩
              have hR3 := ReadsC_of_ReadsP _ hw.bnd hlen hR2
              have hcells : ∀ val : String → Nat, ods.map (fun d => d.c val)
                  = ((e :: es).zipIdx 0).map (fun x => cOf x.2 x.1 val) := by
                intro val
                have h1 : ods.map (fun d => d.c val) = (ods.map (·.c)).map (fun c => c val) := by simp [List.map_map]
                rw [h1, hcs]; simp [List.map_map]
              refine ⟨hR3.1, ?_⟩
              intro val hv
              have := hR3.2 val hv
              dsimp only at this
              rw [hcells val] at this
              exact this
            · have : (s2'.shape != lens (pickCols W.length xs)) = true := by simpa using hsh
              simp [this, throw, throwThe, MonadExceptOf.throw] at he
        · have : (os'.length != n) = true := by simpa using hn
          simp [this, throw, throwThe, MonadExceptOf.throw, pure, Except.pure] at he
    | nary =>
      simp only [] at he
      cases hc : chainInput W s 0 e with
      | error er => simp [hc, bind, Except.bind] at he
      | ok x =>
        obtain ⟨e0, s0⟩ := x
        simp only [hc, bind, Except.bind] at he
        cases hf : alignFold f W 1 s0 es with
        | error er => simp [hf] at he
        | ok y =>
          obtain ⟨xs, s1⟩ := y
          simp only [hf] at he
          have hi0 : regs[0]? = some (symInput 0 (gShape e)) := by simpa using hin 0 e rfl
          obtain ⟨hnd, hsub, he0, ext1, T1, hrun1, hR1⟩ := chain_run h hi0 hw.nodup (hok.bnd e (List.mem_cons_self ..)) hw.bnd
            (hok.cons e (List.mem_cons_self ..)) hc
          have hin' : ∀ k e', es[k]? = some e' → (regs ++ ext1)[1 + k]? = some (symInput (1 + k) (gShape e')) := by
            intro k e' hke
            have := hin (k + 1) e' (by simpa using hke)
            have e3 : k + 1 = 1 + k := by omega
            rw [e3] at this
            exact getElem?_append_of_some this ext1
          obtain ⟨hall, hxs, ext2, T2, preF, hrun2, hR2, hmF, hA, hE⟩ :=
            alignFold_run (f := f) hw.nodup hw.bnd es 1 s0 s1 (regs ++ ext1) xs T1 _ _ hrun1 hR1 (presentPre_mask W _) hin' hok.tail hf
          have hlen := cover_len hw hmF (by
            intro e' he' a ha'
            rcases List.mem_cons.mp he' with rfl | he''
            · exact hA a ha'
            · exact hE e' he'' a ha')
          by_cases hsh : s1.shape = lens (pickCols W.length (e0 :: xs))
          · simp only [hsh, bne_self_eq_false, Bool.false_eq_true, if_false, pure, Except.pure, Except.ok.injEq,
              Prod.mk.injEq] at he
            obtain ⟨he1, he2⟩ := he
            subst he2
            have hrows : e0 :: xs = ((e :: es).zipIdx 0).map (fun x => unitaryExpr x.2 (squeezedExpr [] x.1) W) := by
              simp only [List.zipIdx_cons, List.map_cons, he0, hxs, Nat.zero_add]
            have hlw : lens (pickCols W.length (e0 :: xs)) = lens W := by
              rw [← hsh, ← hrun2.shape, hR2.1]
              exact List.map_congr_left hlen
            have hpick : pickCols W.length (e0 :: xs) = W := by
              rw [hrows] at hlw ⊢
              exact pickCols_eq _ hRne (fun x => x.2) (fun x => names (squeezedExpr [] x.1)) W 0 hw.ne1 hlw
            refine ⟨by rw [← he1, hpick], ?_, ext1 ++ ext2, T2, by rw [← List.append_assoc]; exact hrun2, ?_⟩
            · intro x hx
              rcases List.mem_cons.mp hx with rfl | hx'
              · exact ⟨hnd, hsub⟩
              · exact hall x hx'
            · have hR3 := ReadsC_of_ReadsP _ hw.bnd hlen hR2
              refine ⟨hR3.1, ?_⟩
              intro val hv
              have := hR3.2 val hv
              simpa only [ewCell, foldCells, List.zipIdx_cons, List.map_cons, Nat.zero_add, cOf] using this
          · have : (s1.shape != lens (pickCols W.length (e0 :: xs))) = true := by simpa using hsh
            simp [this, throw, throwThe, MonadExceptOf.throw, pure, Except.pure] at he

/-! ### the whole elementwise pipeline -/

theorem eq_of_name_eq : ∀ {L : List Ax} {a b : Ax}, (names L).Nodup → a ∈ L → b ∈ L → a.name = b.name → a = b
  | [], _, _, _, ha, _, _ => by simp at ha
  | x :: L, a, b, h, ha, hb, hn => by
    simp only [names, List.map_cons, List.nodup_cons] at h
    rcases List.mem_cons.mp ha with rfl | ha' <;> rcases List.mem_cons.mp hb with rfl | hb'
    · rfl
    · exact absurd (List.mem_map.mpr ⟨b, hb', hn.symm⟩) h.1
    · exact absurd (List.mem_map.mpr ⟨a, ha', hn⟩) h.1
    · exact eq_of_name_eq (L := L) h.2 ha' hb' hn

theorem symInputs_length (shapes : List (List Nat)) : (symInputs shapes).length = shapes.length := by
  simp [symInputs]

theorem symInputs_getElem? (ins : List (List G)) (k : Nat) (e : List G) (h : ins[k]? = some e) :
    (symInputs (ins.map gShape))[k]? = some (symInput k (gShape e)) := by
  simp [symInputs, List.getElem?_map, List.getElem?_zipIdx, h]

theorem mem_squeezedExpr_nil {e : List G} {a : Ax} : a ∈ squeezedExpr [] e ↔ a ∈ G.leavesL e ∧ a.len ≠ 1 := by
  simp [squeezedExpr]

/-- **The lowering side of elementwise operations.**  If `lowerElementwise` succeeds (output names without
repetition, lengths consistent between every input and the output), its program runs on the symbolic inputs, and
the result register holds, at the flat position that a valuation of the axis names addresses through the output's
leaf axes, the elementary function applied to the input elements that the valuation addresses through the inputs'
leaf axes. -/
theorem lowerElementwise_run {f : String} {kind : EwKind} {ins : List (List G)} {eout : List G} {s : St}
    (hk : ewKindOf f = some kind)
    (hout : (names (G.leavesL eout)).Nodup)
    (hcons : ∀ e ∈ ins, ∀ a ∈ G.leavesL e, ∀ b ∈ G.leavesL eout, a.name = b.name → a.len = b.len)
    (h : lowerElementwise f ins eout = .ok s) :
    (∀ e ∈ ins, (names (G.leavesL e)).Nodup ∧ ∀ a ∈ G.leavesL e, a.len ≠ 1 → a.name ∈ names (G.leavesL eout)) ∧
    ∃ regs T, evalProg symAlg s.prog (symInputs (ins.map gShape)) = .ok regs ∧ regs[s.reg]? = some T ∧
      T.shape = gShape eout ∧ T.data.length = prod (gShape eout) ∧
      ∀ val, (∀ e ∈ ins, Bnd val (G.leavesL e)) → Bnd val (G.leavesL eout) →
        T.data[ravel (lens (G.leavesL eout)) (idx (G.leavesL eout) val)]?
          = some (ewCell f kind ((ins.zipIdx 0).map (fun x => cOf x.2 x.1 val))) := by
  generalize hLo : G.leavesL eout = Lo at *
  generalize hPdef : (fun val : String → Nat => (∀ e ∈ ins, Bnd val (G.leavesL e)) ∧ Bnd val Lo) = P
  generalize hWdef : withoutBroadcast (ins.flatMap (fun e => names (squeezedExpr [] e))) Lo = W at *
  have hWmem : ∀ b, b ∈ W ↔ b ∈ Lo ∧ ∃ e ∈ ins, b.name ∈ names (squeezedExpr [] e) := by
    intro b
    rw [← hWdef]
    simp only [withoutBroadcast, List.mem_filter, List.contains_iff_mem, List.mem_flatMap]
  have hw : WOK W P ins := by
    refine ⟨?_, ?_, ?_, ?_⟩
    · rw [← hWdef]; exact names_nodup_filter hout _
    · intro val hv b hb
      rw [← hPdef] at hv
      exact hv.2 b ((hWmem b).mp hb).1
    · intro b hb
      obtain ⟨hbLo, e, he, hn⟩ := (hWmem b).mp hb
      obtain ⟨a, ha, han⟩ := List.mem_map.mp hn
      have := mem_squeezedExpr_nil.mp ha
      rw [← hcons e he a this.1 b hbLo han]
      exact this.2
    · intro b hb
      exact ((hWmem b).mp hb).2
  have hok : InsOK W P ins := by
    refine ⟨?_, ?_⟩
    · intro e he val hv
      rw [← hPdef] at hv
      exact hv.1 e he
    · intro e he a ha b hb hn
      exact hcons e he a ha b ((hWmem b).mp hb).1 hn
  unfold lowerElementwise at h
  simp only [hLo, hWdef] at h
  cases hi : Generic.ewInner f { reg := 0, shape := [], prog := [], next := ins.length } ins W with
  | error er => simp [hi, bind, Except.bind] at h
  | ok x =>
    obtain ⟨exprRes, s2⟩ := x
    simp only [hi, bind, Except.bind] at h
    cases hstb : stb s2 exprRes Lo with
    | error er => simp [hstb] at h
    | ok s3 =>
      simp only [hstb, pure, Except.pure, Except.ok.injEq] at h
      subst h
      have htr0 : Tr (symInputs (ins.map gShape)) { reg := 0, shape := [], prog := [], next := ins.length }
          (symInputs (ins.map gShape)) := ⟨rfl, by simp [symInputs_length]⟩
      obtain ⟨hres, hall, ext2, T2, hrun2, hR2⟩ := ewInner_run hk hw hok htr0 (symInputs_getElem? ins) hi
      subst hres
      obtain ⟨_, ext3, T3, hrun3, hR3⟩ := stb_run hrun2 hw.nodup hout hw.ne1 hw.bnd
        (by intro val hv; rw [← hPdef] at hv; exact hv.2)
        (by
          intro a ha b hb hn
          rw [eq_of_name_eq hout ((hWmem a).mp ha).1 hb hn])
        hR2 hstb
      obtain ⟨ext4, T4, hrun4, hsh4, hd4⟩ := reshapeW_run hrun3 (gShape eout)
        (by rw [← hrun3.shape, hR3.1, prod_gShape_leaves, hLo])
      refine ⟨?_, _, T4, hrun4.ev, hrun4.reg, hsh4, by rw [hrun4.len, hsh4], ?_⟩
      · intro e he
        refine ⟨(hall e he).1, ?_⟩
        intro a ha hne
        have := (hall e he).2 a.name (List.mem_map.mpr ⟨a, mem_squeezedExpr_nil.mpr ⟨ha, hne⟩, rfl⟩)
        obtain ⟨b, hb, hbn⟩ := List.mem_map.mp this
        exact List.mem_map.mpr ⟨b, ((hWmem b).mp hb).1, hbn⟩
      · intro val hvi hvo
        rw [hd4]
        exact hR3.2 val (by rw [← hPdef]; exact ⟨hvi, hvo⟩)
