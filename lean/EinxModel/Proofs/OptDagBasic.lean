import EinxModel.Optimize.DagSem
/-!
Helper lemmas for `Props/C05Dag.lean`: the DAG evaluator (`evalToks`, `evalApp`, `evalNodes`) -- inversion,
monotonicity under extension of the environment, and the predicate form `EnvOK` of "this environment is the
evaluation of these nodes".
-/
namespace Einx.OptDag
variable {V : Type}

theorem bind_ok {ε α β : Type} {m : Except ε α} {f : α → Except ε β} {b : β} :
    (m >>= f) = .ok b ↔ ∃ a, m = .ok a ∧ f a = .ok b := by
  cases m with
  | error e => simp [bind, Except.bind]
  | ok a => simp [bind, Except.bind]

theorem map_ok {ε α β : Type} {m : Except ε α} {f : α → β} {b : β} :
    (f <$> m) = .ok b ↔ ∃ a, m = .ok a ∧ f a = b := by
  cases m with
  | error e => simp [Functor.map, Except.map]
  | ok a => simp [Functor.map, Except.map]

/-! ### Tokens -/

theorem evalTok_mono (env ext : List V) (t : Tok) (r : RTok V) (h : evalTok env t = .ok r) :
    evalTok (env ++ ext) t = .ok r := by
  cases t with
  | ref i =>
    simp only [evalTok] at h ⊢
    cases hi : env[i]? with
    | none => simp [hi, throw, throwThe, MonadExceptOf.throw] at h
    | some v =>
      have : (env ++ ext)[i]? = some v := by
        rw [List.getElem?_append_left (by
          have := List.getElem?_eq_some_iff.1 hi
          exact this.1)]
        exact hi
      simpa [hi, this] using h
  | gref k => simpa [evalTok] using h
  | atom a => simpa [evalTok] using h
  | open_ c n => simpa [evalTok] using h

theorem evalToks_nil (env : List V) : evalToks env [] = .ok [] := rfl

theorem evalToks_cons (env : List V) (t : Tok) (ts : List Tok) (rs : List (RTok V)) :
    evalToks env (t :: ts) = .ok rs ↔ ∃ r rs', evalTok env t = .ok r ∧ evalToks env ts = .ok rs' ∧ rs = r :: rs' := by
  simp only [evalToks, List.mapM_cons]
  constructor
  · intro h
    obtain ⟨r, hr, h⟩ := bind_ok.1 h
    obtain ⟨rs', hrs, h⟩ := bind_ok.1 h
    exact ⟨r, rs', hr, hrs, by simpa [pure, Except.pure] using h.symm⟩
  · rintro ⟨r, rs', hr, hrs, rfl⟩
    simp [hr, hrs, bind, Except.bind, pure, Except.pure]

theorem evalToks_single (env : List V) (t : Tok) (r : RTok V) : evalToks env [t] = .ok [r] ↔ evalTok env t = .ok r := by
  rw [evalToks_cons]
  constructor
  · rintro ⟨r', rs', h1, h2, h3⟩
    rw [evalToks_nil] at h2
    cases h2
    cases h3
    exact h1
  · intro h
    exact ⟨r, [], h, evalToks_nil env, rfl⟩

theorem evalToks_mono (env ext : List V) : ∀ (v : List Tok) (rs : List (RTok V)), evalToks env v = .ok rs → evalToks (env ++ ext) v = .ok rs
  | [], rs, h => by rw [evalToks_nil] at h ⊢; exact h
  | t :: ts, rs, h => by
    obtain ⟨r, rs', h1, h2, rfl⟩ := (evalToks_cons env t ts rs).1 h
    exact (evalToks_cons _ t ts _).2 ⟨r, rs', evalTok_mono env ext t r h1, evalToks_mono env ext ts rs' h2, rfl⟩

theorem evalToks_append (env : List V) : ∀ (a b : List Tok) (ra rb : List (RTok V)), evalToks env a = .ok ra → evalToks env b = .ok rb →
    evalToks env (a ++ b) = .ok (ra ++ rb)
  | [], b, ra, rb, ha, hb => by rw [evalToks_nil] at ha; cases ha; simpa using hb
  | t :: ts, b, ra, rb, ha, hb => by
    obtain ⟨r, rs', h1, h2, rfl⟩ := (evalToks_cons env t ts ra).1 ha
    exact (evalToks_cons _ t (ts ++ b) _).2 ⟨r, rs' ++ rb, h1, evalToks_append env ts b rs' rb h2 hb, rfl⟩

/-- Tokens without tracer / graph references evaluate to themselves. -/
theorem evalToks_lits (env : List V) : ∀ (v : List Tok), refFree v = true → evalToks env v = .ok (lits v)
  | [], _ => rfl
  | t :: ts, h => by
    have h1 : refFree ts = true := by
      simp only [refFree, List.any_cons, Bool.not_or, Bool.and_eq_true] at h ⊢
      exact h.2
    refine (evalToks_cons env t ts _).2 ⟨.lit t, lits ts, ?_, evalToks_lits env ts h1, rfl⟩
    cases t with
    | ref i => simp [refFree] at h
    | gref k => simp [refFree] at h
    | atom a => rfl
    | open_ c n => rfl

theorem seqNats_refFree (v : List Tok) (s : List Nat) (h : seqNats v = some s) : refFree v = true := by
  have key : ∀ (rest : List Tok) (s : List Nat),
      rest.mapM (fun t => match t with | Tok.atom (.int v) => if 0 ≤ v then some v.toNat else none | _ => none) = some s →
      refFree rest = true := by
    intro rest
    induction rest with
    | nil => intro _ _; rfl
    | cons t ts ih =>
      intro s hs
      simp only [List.mapM_cons] at hs
      cases t with
      | atom a =>
        cases a with
        | int v =>
          by_cases hv : 0 ≤ v
          · simp only [hv, if_true] at hs
            cases hm : ts.mapM (fun t => match t with | Tok.atom (.int v) => if 0 ≤ v then some v.toNat else none | _ => none) with
            | none => simp [hm] at hs
            | some s' =>
              have := ih s' hm
              simp only [refFree, List.any_cons, Bool.not_or, Bool.and_eq_true] at this ⊢
              exact ⟨by rfl, this⟩
          · simp [hv] at hs
        | _ => simp at hs
      | _ => simp at hs
  unfold seqNats at h
  split at h
  · rename_i n rest
    split at h
    · have := key rest s h
      simp only [refFree, List.any_cons, Bool.not_or, Bool.and_eq_true] at this ⊢
      exact ⟨by rfl, this⟩
    · cases h
  · rename_i n rest
    split at h
    · have := key rest s h
      simp only [refFree, List.any_cons, Bool.not_or, Bool.and_eq_true] at this ⊢
      exact ⟨by rfl, this⟩
    · cases h
  · cases h

theorem natsToks_refFree (p : List Nat) : refFree (natsToks p) = true := by
  simp only [natsToks, refFree, List.any_cons, Bool.not_or, Bool.and_eq_true]
  refine ⟨by rfl, ?_⟩
  induction p with
  | nil => rfl
  | cons a as ih => simpa [List.any_cons] using ih

/-! ### Operand lists -/

theorem evalOperands_nil (env : List V) : evalOperands env [] = .ok [] := rfl

theorem evalOperands_cons (env : List V) (v : List Tok) (vs : List (List Tok)) (rss : List (List (RTok V))) :
    evalOperands env (v :: vs) = .ok rss ↔ ∃ rs rss', evalToks env v = .ok rs ∧ evalOperands env vs = .ok rss' ∧ rss = rs :: rss' := by
  simp only [evalOperands, List.mapM_cons]
  constructor
  · intro h
    obtain ⟨r, hr, h⟩ := bind_ok.1 h
    obtain ⟨rs', hrs, h⟩ := bind_ok.1 h
    exact ⟨r, rs', hr, hrs, by simpa [pure, Except.pure] using h.symm⟩
  · rintro ⟨r, rs', hr, hrs, rfl⟩
    simp [hr, hrs, bind, Except.bind, pure, Except.pure]

theorem evalOperands_mono (env ext : List V) : ∀ (vs : List (List Tok)) (rss : List (List (RTok V))),
    evalOperands env vs = .ok rss → evalOperands (env ++ ext) vs = .ok rss
  | [], rss, h => by rw [evalOperands_nil] at h ⊢; exact h
  | v :: vs, rss, h => by
    obtain ⟨r, rs', h1, h2, rfl⟩ := (evalOperands_cons env v vs rss).1 h
    exact (evalOperands_cons _ v vs _).2 ⟨r, rs', evalToks_mono env ext v r h1, evalOperands_mono env ext vs rs' h2, rfl⟩

theorem evalOperands_getElem (env : List V) : ∀ (vs : List (List Tok)) (rss : List (List (RTok V))) (k : Nat) (v : List Tok),
    evalOperands env vs = .ok rss → vs[k]? = some v → ∃ rs, rss[k]? = some rs ∧ evalToks env v = .ok rs
  | [], _, k, v, _, hk => by simp at hk
  | w :: ws, rss, k, v, h, hk => by
    obtain ⟨r, rs', h1, h2, rfl⟩ := (evalOperands_cons env w ws rss).1 h
    cases k with
    | zero => simp at hk; subst hk; exact ⟨r, rfl, h1⟩
    | succ k =>
      simp at hk
      obtain ⟨rs, e1, e2⟩ := evalOperands_getElem env ws rs' k v h2 hk
      exact ⟨rs, by simpa using e1, e2⟩

theorem evalKwargs_cons (env : List V) (k : String) (v : List Tok) (rest : List (String × List Tok)) (r : List (String × List (RTok V))) :
    evalKwargs env ((k, v) :: rest) = .ok r ↔ ∃ v' rest', evalToks env v = .ok v' ∧ evalKwargs env rest = .ok rest' ∧ r = (k, v') :: rest' := by
  simp only [evalKwargs]
  constructor
  · intro h
    obtain ⟨r, hr, h⟩ := bind_ok.1 h
    obtain ⟨rs', hrs, h⟩ := bind_ok.1 h
    exact ⟨r, rs', hr, hrs, by simpa [pure, Except.pure] using h.symm⟩
  · rintro ⟨r, rs', hr, hrs, rfl⟩
    simp [hr, hrs, bind, Except.bind, pure, Except.pure]

theorem evalKwargs_mono (env ext : List V) : ∀ (kws : List (String × List Tok)) (r : List (String × List (RTok V))),
    evalKwargs env kws = .ok r → evalKwargs (env ++ ext) kws = .ok r
  | [], r, h => by simpa [evalKwargs] using h
  | (k, v) :: rest, r, h => by
    obtain ⟨v', rest', h1, h2, rfl⟩ := (evalKwargs_cons env k v rest r).1 h
    exact (evalKwargs_cons _ k v rest _).2 ⟨v', rest', evalToks_mono env ext v v' h1, evalKwargs_mono env ext rest rest' h2, rfl⟩

theorem evalKwargs_isEmpty (env : List V) (kws : List (String × List Tok)) (r : List (String × List (RTok V)))
    (h : evalKwargs env kws = .ok r) (he : kws = []) : r = [] := by
  subst he
  simpa [evalKwargs, pure, Except.pure] using h.symm

/-! ### Applications -/

theorem evalApp_ok (env : List V) (a : App) (ea : EApp V) :
    evalApp env a = .ok ea ↔ ∃ pre args kwargs deps, evalOperands env a.pre = .ok pre ∧ evalOperands env a.args = .ok args ∧
      evalKwargs env a.kwargs = .ok kwargs ∧ evalOperands env a.deps = .ok deps ∧ ea = ⟨a.head, pre, args, kwargs, a.out⟩ := by
  simp only [evalApp]
  constructor
  · intro h
    obtain ⟨pre, h1, h⟩ := bind_ok.1 h
    obtain ⟨args, h2, h⟩ := bind_ok.1 h
    obtain ⟨kwargs, h3, h⟩ := bind_ok.1 h
    obtain ⟨deps, h4, h⟩ := bind_ok.1 h
    exact ⟨pre, args, kwargs, deps, h1, h2, h3, h4, by simpa [pure, Except.pure] using h.symm⟩
  · rintro ⟨pre, args, kwargs, deps, h1, h2, h3, h4, rfl⟩
    simp [h1, h2, h3, h4, bind, Except.bind, pure, Except.pure]

theorem evalApp_mono (env ext : List V) (a : App) (ea : EApp V) (h : evalApp env a = .ok ea) : evalApp (env ++ ext) a = .ok ea := by
  obtain ⟨pre, args, kwargs, deps, h1, h2, h3, h4, rfl⟩ := (evalApp_ok env a ea).1 h
  exact (evalApp_ok _ a _).2 ⟨pre, args, kwargs, deps, evalOperands_mono env ext _ _ h1, evalOperands_mono env ext _ _ h2,
    evalKwargs_mono env ext _ _ h3, evalOperands_mono env ext _ _ h4, rfl⟩

/-! ### Nodes and environments -/

/-- `env` is the evaluation of `nodes`: node `i` evaluates to `env[i]` on the values before it. -/
def EnvOK (Sm : Sem V) (nodes : List Node) (bnd : List (Nat × V)) (env : List V) : Prop :=
  env.length = nodes.length ∧ ∀ i n, nodes[i]? = some n → ∃ v, env[i]? = some v ∧ evalNode Sm bnd (env.take i) n = .ok v

theorem evalNodes_spec (Sm : Sem V) (bnd : List (Nat × V)) : ∀ (ns : List Node) (pre env : List V), evalNodes Sm bnd ns pre = .ok env →
    ∃ suf, env = pre ++ suf ∧ suf.length = ns.length ∧
      ∀ i n, ns[i]? = some n → ∃ v, suf[i]? = some v ∧ evalNode Sm bnd (pre ++ suf.take i) n = .ok v
  | [], pre, env, h => by
    simp only [evalNodes, pure, Except.pure, Except.ok.injEq] at h
    exact ⟨[], by simp [h], rfl, by intro i n hn; simp at hn⟩
  | n :: ns, pre, env, h => by
    simp only [evalNodes] at h
    obtain ⟨v, hv, h⟩ := bind_ok.1 h
    obtain ⟨suf, e1, e2, e3⟩ := evalNodes_spec Sm bnd ns (pre ++ [v]) env h
    refine ⟨v :: suf, by simp [e1], by simp [e2], ?_⟩
    intro i m hm
    cases i with
    | zero =>
      simp at hm; subst hm
      exact ⟨v, rfl, by simpa using hv⟩
    | succ i =>
      simp at hm
      obtain ⟨w, hw1, hw2⟩ := e3 i m hm
      exact ⟨w, by simpa using hw1, by simpa [List.append_assoc] using hw2⟩

theorem evalNodes_complete (Sm : Sem V) (bnd : List (Nat × V)) : ∀ (ns : List Node) (pre suf : List V), suf.length = ns.length →
    (∀ i n, ns[i]? = some n → ∃ v, suf[i]? = some v ∧ evalNode Sm bnd (pre ++ suf.take i) n = .ok v) →
    evalNodes Sm bnd ns pre = .ok (pre ++ suf)
  | [], pre, suf, hl, _ => by
    have : suf = [] := List.length_eq_zero_iff.1 (by simpa using hl)
    subst this
    simp [evalNodes, pure, Except.pure]
  | n :: ns, pre, suf, hl, h => by
    cases suf with
    | nil => simp at hl
    | cons v suf =>
      obtain ⟨w, hw1, hw2⟩ := h 0 n rfl
      simp at hw1; subst hw1
      simp only [evalNodes]
      have hw2' : evalNode Sm bnd pre n = .ok v := by simpa using hw2
      rw [hw2']
      simp only [Bind.bind, Except.bind]
      have := evalNodes_complete Sm bnd ns (pre ++ [v]) suf (by simpa using hl) (by
        intro i m hm
        obtain ⟨u, hu1, hu2⟩ := h (i + 1) m (by simpa using hm)
        exact ⟨u, by simpa using hu1, by simpa [List.append_assoc] using hu2⟩)
      simpa [List.append_assoc] using this

theorem envOK_of_evalNodes (Sm : Sem V) (bnd : List (Nat × V)) (nodes : List Node) (env : List V)
    (h : evalNodes Sm bnd nodes [] = .ok env) : EnvOK Sm nodes bnd env := by
  obtain ⟨suf, e1, e2, e3⟩ := evalNodes_spec Sm bnd nodes [] env h
  simp at e1; subst e1
  exact ⟨e2, by intro i n hn; simpa using e3 i n hn⟩

theorem evalNodes_of_envOK (Sm : Sem V) (bnd : List (Nat × V)) (nodes : List Node) (env : List V)
    (h : EnvOK Sm nodes bnd env) : evalNodes Sm bnd nodes [] = .ok env := by
  have := evalNodes_complete Sm bnd nodes [] env h.1 (by intro i n hn; simpa using h.2 i n hn)
  simpa using this

theorem EnvOK.snoc {Sm : Sem V} {nodes : List Node} {bnd : List (Nat × V)} {env : List V} (h : EnvOK Sm nodes bnd env)
    (n : Node) (v : V) (hv : evalNode Sm bnd env n = .ok v) : EnvOK Sm (nodes ++ [n]) bnd (env ++ [v]) := by
  refine ⟨by simp [h.1], ?_⟩
  intro i m hm
  by_cases hi : i < nodes.length
  · rw [List.getElem?_append_left hi] at hm
    obtain ⟨w, hw1, hw2⟩ := h.2 i m hm
    refine ⟨w, ?_, ?_⟩
    · rw [List.getElem?_append_left (by rw [h.1]; exact hi)]; exact hw1
    · rw [List.take_append_of_le_length (by rw [h.1]; omega)]; exact hw2
  · have hi' : i = nodes.length := by
      have := (List.getElem?_eq_some_iff.1 hm).1
      simp at this; omega
    subst hi'
    simp at hm; subst hm
    refine ⟨v, ?_, ?_⟩
    · rw [← h.1]; simp
    · rw [← h.1]; simpa using hv

end Einx.OptDag
