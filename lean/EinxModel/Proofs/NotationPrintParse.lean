import EinxModel.Proofs.NotationPrintDefs
import EinxModel.Proofs.NotationParseSim
import EinxModel.Proofs.NotationDigits
/-!
# M1 Notation — `parse` on the token tree of a printed expression (`parse_printed`)

All list reasoning happens on position-free token lists (`PTok`): `strip`, the operand split and `findOp` have mirrors
on `PTok` lists (`pstrip`, `psplit`, `pfindOp`) that commute with erasure.
-/
namespace Einx.Notation
namespace PrintParse

/-! ### Mirrors of the token-list functions on position-free tokens -/

def pIsText (s : Str) : PTok → Bool
  | .atom t => t == s
  | .group .. => false

def pIsSpace (p : PTok) : Bool := pIsText spaceLit p

def pDropTrail : List PTok → List PTok
  | [] => []
  | t :: ts =>
    match pDropTrail ts with
    | [] => if pIsSpace t then [] else [t]
    | r => t :: r

def pstrip (ps : List PTok) : List PTok := pDropTrail (ps.dropWhile pIsSpace)

def psegH (op : Str) : List PTok → List PTok
  | [] => []
  | p :: ps => if pIsText op p then [] else p :: psegH op ps

def psegT (op : Str) : List PTok → List (List PTok)
  | [] => []
  | p :: ps => if pIsText op p then psegH op ps :: psegT op ps else psegT op ps

def psplit (op : Str) (ps : List PTok) : List (List PTok) := psegH op ps :: psegT op ps

def pfindOp : List Str → List PTok → Option Str
  | [], _ => none
  | op :: ops, ps => if ps.any (pIsText op) then some op else pfindOp ops ps

/-- No top-level atom with text `op`. -/
def noT (op : Str) (ps : List PTok) : Prop := ps.any (pIsText op) = false

/-! ### Erasure -/

theorem isText_erase (s : Str) (t : Tok) : pIsText s t.erase = t.isText s := by
  cases t <;> simp only [Tok.erase, pIsText, Tok.isText]

theorem isSpace_erase (t : Tok) : pIsSpace t.erase = t.isSpace := isText_erase _ t

theorem eraseL_cons (t : Tok) (ts : List Tok) : eraseL (t :: ts) = t.erase :: eraseL ts := by
  simp only [eraseL]

theorem eraseL_nil : eraseL [] = [] := by simp only [eraseL]

theorem eraseL_eq_nil {T : List Tok} (h : eraseL T = []) : T = [] := by
  cases T with
  | nil => rfl
  | cons t ts => rw [eraseL_cons] at h; cases h

theorem erase_dropWhile : ∀ T : List Tok, eraseL (T.dropWhile Tok.isSpace) = (eraseL T).dropWhile pIsSpace
  | [] => by simp only [List.dropWhile, eraseL_nil]
  | t :: ts => by
    rw [eraseL_cons]
    simp only [List.dropWhile, isSpace_erase]
    cases t.isSpace with
    | true => exact erase_dropWhile ts
    | false => exact eraseL_cons t ts

/-- One step of `pDropTrail`. -/
def pdtCons (t : PTok) (r : List PTok) : List PTok :=
  match r with
  | [] => if pIsSpace t then [] else [t]
  | r => t :: r

theorem pDropTrail_cons_eq (t : PTok) (ts : List PTok) : pDropTrail (t :: ts) = pdtCons t (pDropTrail ts) := by
  simp only [pDropTrail, pdtCons]

theorem erase_dtCons (t : Tok) (r : List Tok) : eraseL (dtCons t r) = pdtCons t.erase (eraseL r) := by
  cases r with
  | nil =>
    simp only [dtCons, pdtCons, eraseL_nil, isSpace_erase]
    cases t.isSpace <;> simp [eraseL_nil, eraseL_cons]
  | cons a as => simp only [dtCons, pdtCons, eraseL_cons]

theorem erase_dropTrail : ∀ T : List Tok, eraseL (dropTrailSpaces T) = pDropTrail (eraseL T)
  | [] => by simp only [dropTrailSpaces, pDropTrail, eraseL_nil]
  | t :: ts => by
    rw [dropTrail_cons_eq, eraseL_cons, pDropTrail_cons_eq, erase_dtCons, erase_dropTrail ts]

theorem erase_strip (T : List Tok) : eraseL (strip T) = pstrip (eraseL T) := by
  simp only [strip, pstrip, erase_dropTrail, erase_dropWhile]

theorem erase_segH (op : Str) : ∀ T : List Tok, eraseL (segH op T) = psegH op (eraseL T)
  | [] => by simp only [segH_nil, eraseL_nil, psegH]
  | t :: ts => by
    rw [segH_cons, eraseL_cons]
    simp only [psegH, isText_erase]
    cases t.isText op with
    | true => simp [eraseL_nil]
    | false => simp [eraseL_cons, erase_segH op ts]

theorem erase_segT (op : Str) : ∀ T : List Tok, (segT op T).map eraseL = psegT op (eraseL T)
  | [] => by simp only [segT_nil, eraseL_nil, psegT, List.map_nil]
  | t :: ts => by
    rw [segT_cons, eraseL_cons]
    simp only [psegT, isText_erase]
    cases t.isText op with
    | true => simp [erase_segH, erase_segT op ts]
    | false => simp [erase_segT op ts]

theorem operands_erase (op : Str) (T : List Tok) :
    (operands op T).map (fun o => eraseL o.ts) = psplit op (eraseL T) := by
  have h := congrArg (List.map eraseL) (operands_ts op T)
  rw [List.map_map] at h
  rw [psplit, ← erase_segH, ← erase_segT, ← List.map_cons]
  exact h

theorem any_erase (s : Str) : ∀ T : List Tok, T.any (Tok.isText s) = (eraseL T).any (pIsText s)
  | [] => by simp only [eraseL_nil, List.any_nil]
  | t :: ts => by rw [eraseL_cons, List.any_cons, List.any_cons, isText_erase, any_erase s ts]

theorem findOp_erase : ∀ (ops : List Str) (T : List Tok), findOp ops T = pfindOp ops (eraseL T)
  | [], _ => rfl
  | op :: ops, T => by simp only [findOp, pfindOp, any_erase, findOp_erase ops T]

/-! ### Inversion of erasure -/

theorem erase_atom {t : Tok} {s : Str} (h : t.erase = .atom s) : ∃ tk, t = .atom tk ∧ tk.text = s := by
  cases t with
  | atom tk => simp only [Tok.erase, PTok.atom.injEq] at h; exact ⟨tk, rfl, h⟩
  | group o c i => simp only [Tok.erase] at h; cases h

theorem erase_group {t : Tok} {o c : Str} {I : List PTok} (h : t.erase = .group o c I) :
    ∃ ot ct inner, t = .group ot ct inner ∧ ot.text = o ∧ eraseL inner = I := by
  cases t with
  | atom tk => simp only [Tok.erase] at h; cases h
  | group ot ct i =>
    simp only [Tok.erase, PTok.group.injEq] at h
    exact ⟨ot, ct, i, rfl, h.1, h.2.2⟩

theorem eraseL_single {T : List Tok} {p : PTok} (h : eraseL T = [p]) : ∃ t, T = [t] ∧ t.erase = p := by
  cases T with
  | nil => rw [eraseL_nil] at h; cases h
  | cons t ts =>
    rw [eraseL_cons] at h
    simp only [List.cons.injEq] at h
    rw [eraseL_eq_nil h.2]
    exact ⟨t, rfl, h.1⟩

theorem eraseL_pair {T : List Tok} {p q : PTok} (h : eraseL T = [p, q]) :
    ∃ t u, T = [t, u] ∧ t.erase = p ∧ u.erase = q := by
  cases T with
  | nil => rw [eraseL_nil] at h; cases h
  | cons t ts =>
    rw [eraseL_cons] at h
    simp only [List.cons.injEq] at h
    obtain ⟨u, hu, hq⟩ := eraseL_single h.2
    rw [hu]
    exact ⟨t, u, rfl, h.1, hq⟩

/-! ### `noT` -/

theorem noT_nil (op : Str) : noT op [] := rfl

theorem noT_cons {op : Str} {p : PTok} {ps : List PTok} : noT op (p :: ps) ↔ pIsText op p = false ∧ noT op ps := by
  simp only [noT, List.any_cons, Bool.or_eq_false_iff]

theorem noT_append {op : Str} {A B : List PTok} : noT op (A ++ B) ↔ noT op A ∧ noT op B := by
  simp only [noT, List.any_append, Bool.or_eq_false_iff]

theorem noT_dropWhile {op : Str} (q : PTok → Bool) : ∀ {P : List PTok}, noT op P → noT op (P.dropWhile q)
  | [], _ => noT_nil op
  | p :: ps, h => by
    simp only [List.dropWhile]
    cases q p with
    | true => exact noT_dropWhile q (noT_cons.mp h).2
    | false => exact h

theorem noT_pDropTrail {op : Str} : ∀ {P : List PTok}, noT op P → noT op (pDropTrail P)
  | [], _ => noT_nil op
  | p :: ps, h => by
    have ih := noT_pDropTrail (noT_cons.mp h).2
    rw [pDropTrail_cons_eq]
    cases hD : pDropTrail ps with
    | nil =>
      simp only [pdtCons]
      split
      · exact noT_nil op
      · exact noT_cons.mpr ⟨(noT_cons.mp h).1, noT_nil op⟩
    | cons r rs =>
      rw [hD] at ih
      exact noT_cons.mpr ⟨(noT_cons.mp h).1, ih⟩

theorem noT_pstrip {op : Str} {P : List PTok} (h : noT op P) : noT op (pstrip P) :=
  noT_pDropTrail (noT_dropWhile _ h)

/-! ### `pstrip` -/

theorem pDropTrail_cons_nonspace {t : PTok} {ts : List PTok} (h : pIsSpace t = false) :
    pDropTrail (t :: ts) = t :: pDropTrail ts := by
  rw [pDropTrail_cons_eq]
  cases hr : pDropTrail ts with
  | nil => simp [pdtCons, h]
  | cons r rs => rfl

theorem pDropTrail_cons_ne {t : PTok} {ts : List PTok} (h : pDropTrail ts ≠ []) :
    pDropTrail (t :: ts) = t :: pDropTrail ts := by
  rw [pDropTrail_cons_eq]
  cases hr : pDropTrail ts with
  | nil => exact (h hr).elim
  | cons r rs => rfl

theorem pstrip_cons_space {sp : PTok} (h : pIsSpace sp = true) (ts : List PTok) : pstrip (sp :: ts) = pstrip ts := by
  simp [pstrip, List.dropWhile, h]

theorem pDropTrail_append_space {sp : PTok} (h : pIsSpace sp = true) : ∀ ts : List PTok,
    pDropTrail (ts ++ [sp]) = pDropTrail ts
  | [] => by simp [pDropTrail, h]
  | t :: ts => by
    rw [List.cons_append, pDropTrail_cons_eq, pDropTrail_cons_eq, pDropTrail_append_space h ts]

theorem pstrip_append_space {sp : PTok} (h : pIsSpace sp = true) : ∀ ts : List PTok, pstrip (ts ++ [sp]) = pstrip ts
  | [] => by simp [pstrip, List.dropWhile, h, pDropTrail]
  | t :: ts => by
    cases ht : pIsSpace t with
    | true => rw [List.cons_append, pstrip_cons_space ht, pstrip_cons_space ht, pstrip_append_space h ts]
    | false =>
      simp only [pstrip, List.cons_append, List.dropWhile, ht]
      exact pDropTrail_append_space h (t :: ts)

theorem dropWhile_pDropTrail : ∀ X : List PTok,
    (pDropTrail X).dropWhile pIsSpace = pDropTrail (X.dropWhile pIsSpace)
  | [] => rfl
  | x :: xs => by
    cases hx : pIsSpace x with
    | false =>
      rw [pDropTrail_cons_nonspace hx]
      simp only [List.dropWhile, hx]
      rw [pDropTrail_cons_nonspace hx]
    | true =>
      have ih := dropWhile_pDropTrail xs
      have h2 : (x :: xs).dropWhile pIsSpace = xs.dropWhile pIsSpace := by simp only [List.dropWhile, hx]
      rw [h2, ← ih, pDropTrail_cons_eq]
      cases hr : pDropTrail xs with
      | nil => simp [pdtCons, hx]
      | cons r rs => simp only [pdtCons, List.dropWhile, hx]

theorem pstrip_eq (X : List PTok) : pstrip X = (pDropTrail X).dropWhile pIsSpace :=
  (dropWhile_pDropTrail X).symm

theorem space_not_op {op : Str} (hop : op ≠ spaceLit) {p : PTok} (h : pIsSpace p = true) : pIsText op p = false := by
  cases p with
  | atom t =>
    simp only [pIsSpace, pIsText, beq_iff_eq] at h
    simp only [pIsText, h, beq_eq_false_iff_ne, ne_eq]
    exact fun h' => hop h'.symm
  | group _ _ _ => rfl

theorem op_not_space {op : Str} (hop : op ≠ spaceLit) {p : PTok} (h : pIsText op p = true) : pIsSpace p = false := by
  cases hs : pIsSpace p with
  | false => rfl
  | true => rw [space_not_op hop hs] at h; cases h

/-! ### The split of a stripped list (`op` is not the space) -/

theorem psegH_cons (op : Str) (p : PTok) (ps : List PTok) :
    psegH op (p :: ps) = if pIsText op p then [] else p :: psegH op ps := rfl

theorem psegT_cons (op : Str) (p : PTok) (ps : List PTok) :
    psegT op (p :: ps) = if pIsText op p then psegH op ps :: psegT op ps else psegT op ps := rfl

theorem pdtCons_eq_cons {p : PTok} {D : List PTok} (h : ¬ (D = [] ∧ pIsSpace p = true)) : pdtCons p D = p :: D := by
  cases D with
  | nil =>
    cases hp : pIsSpace p with
    | true => exact (h ⟨rfl, hp⟩).elim
    | false => simp [pdtCons, hp]
  | cons r rs => rfl

theorem seg_dropTrail {op : Str} (hop : op ≠ spaceLit) : ∀ P : List PTok,
    pDropTrail (psegH op (pDropTrail P)) = pDropTrail (psegH op P) ∧
      (psegT op (pDropTrail P)).map pstrip = (psegT op P).map pstrip
  | [] => ⟨rfl, rfl⟩
  | p :: ps => by
    have ih := seg_dropTrail hop ps
    rw [pDropTrail_cons_eq]
    by_cases hc : pDropTrail ps = [] ∧ pIsSpace p = true
    · obtain ⟨hD, hp⟩ := hc
      rw [hD] at ih
      have hpo := space_not_op hop hp
      rw [hD, psegH_cons, psegT_cons, hpo]
      simp only [pdtCons, hp, if_true, Bool.false_eq_true, if_false]
      refine ⟨?_, ih.2⟩
      rw [pDropTrail_cons_eq, ← ih.1]
      simp [psegH, pDropTrail, pdtCons, hp]
    · rw [pdtCons_eq_cons hc, psegH_cons, psegH_cons, psegT_cons, psegT_cons]
      cases ht : pIsText op p with
      | true =>
        simp only [if_true, List.map_cons, List.cons.injEq, true_and]
        refine ⟨?_, ih.2⟩
        rw [pstrip_eq, pstrip_eq, ih.1]
      | false =>
        simp only [Bool.false_eq_true, if_false]
        refine ⟨?_, ih.2⟩
        rw [pDropTrail_cons_eq, pDropTrail_cons_eq, ih.1]

theorem seg_dropWhile {op : Str} (hop : op ≠ spaceLit) : ∀ P : List PTok,
    (psegH op (P.dropWhile pIsSpace)).dropWhile pIsSpace = (psegH op P).dropWhile pIsSpace ∧
      psegT op (P.dropWhile pIsSpace) = psegT op P
  | [] => ⟨rfl, rfl⟩
  | p :: ps => by
    have ih := seg_dropWhile hop ps
    cases hp : pIsSpace p with
    | false => simp only [List.dropWhile, hp, and_self]
    | true =>
      have hpo := space_not_op hop hp
      have h2 : (p :: ps).dropWhile pIsSpace = ps.dropWhile pIsSpace := by simp only [List.dropWhile, hp]
      rw [h2, psegH_cons, psegT_cons, hpo]
      simp only [Bool.false_eq_true, if_false, List.dropWhile, hp]
      exact ih

/-- Stripping before the split only changes the operands by leading / trailing spaces. -/
theorem psplit_pstrip {op : Str} (hop : op ≠ spaceLit) (P : List PTok) :
    (psplit op (pstrip P)).map pstrip = (psplit op P).map pstrip := by
  have h1 := seg_dropTrail hop (P.dropWhile pIsSpace)
  have h2 := seg_dropWhile hop P
  simp only [psplit, List.map_cons, List.cons.injEq]
  constructor
  · show pstrip (psegH op (pDropTrail (P.dropWhile pIsSpace))) = _
    rw [pstrip_eq, h1.1, dropWhile_pDropTrail, h2.1]
    rfl
  · show (psegT op (pDropTrail (P.dropWhile pIsSpace))).map pstrip = _
    rw [h1.2, h2.2]

/-! ### The split of a joined list -/

theorem psplit_noT {op : Str} : ∀ {A : List PTok}, noT op A → psegH op A = A ∧ psegT op A = []
  | [], _ => ⟨rfl, rfl⟩
  | a :: as, h => by
    have ih := psplit_noT (noT_cons.mp h).2
    rw [psegH_cons, psegT_cons, (noT_cons.mp h).1]
    simp only [Bool.false_eq_true, if_false, ih.1, ih.2, and_self]

theorem psegH_append {op : Str} : ∀ {A : List PTok} (B : List PTok), noT op A → psegH op (A ++ B) = A ++ psegH op B
  | [], _, _ => rfl
  | a :: as, B, h => by
    rw [List.cons_append, psegH_cons, (noT_cons.mp h).1, psegH_append B (noT_cons.mp h).2]
    rfl

theorem psegT_append {op : Str} : ∀ {A : List PTok} (B : List PTok), noT op A → psegT op (A ++ B) = psegT op B
  | [], _, _ => rfl
  | a :: as, B, h => by
    rw [List.cons_append, psegT_cons, (noT_cons.mp h).1, psegT_append B (noT_cons.mp h).2]
    rfl

theorem any_of_psegT {op : Str} {P : List PTok} (h : psegT op P ≠ []) : P.any (pIsText op) = true := by
  cases ha : P.any (pIsText op) with
  | true => rfl
  | false => exact (h (psplit_noT ha).2).elim

/-- `sep.join` without the first element. -/
def jt (sep : List PTok) : List (List PTok) → List PTok
  | [] => []
  | Q :: r => sep ++ Q ++ jt sep r

theorem joinP_cons (sep : List PTok) : ∀ (Ps : List (List PTok)) (P : List PTok), joinP sep (P :: Ps) = P ++ jt sep Ps
  | [], P => by simp [joinP, jt]
  | Q :: r, P => by simp only [joinP, jt, joinP_cons sep r Q, List.append_assoc]

/-- The operands of `A ++ sep ++ Q1 ++ sep ++ Q2 …` for `sep = pre ++ [o] ++ post`. -/
def segs (pre post : List PTok) : List PTok → List (List PTok) → List (List PTok)
  | A, [] => [A]
  | A, Q :: r => (A ++ pre) :: segs pre post (post ++ Q) r

theorem psplit_jt {op : Str} {pre post : List PTok} {o : PTok} (ho : pIsText op o = true)
    (hpre : noT op pre) (hpost : noT op post) : ∀ (Ps : List (List PTok)) (A : List PTok),
    noT op A → (∀ Q ∈ Ps, noT op Q) → psplit op (A ++ jt (pre ++ o :: post) Ps) = segs pre post A Ps
  | [], A, hA, _ => by
    simp only [jt, List.append_nil, psplit, segs, (psplit_noT hA).1, (psplit_noT hA).2]
  | Q :: r, A, hA, hPs => by
    have hQ : noT op (post ++ Q) := noT_append.mpr ⟨hpost, hPs Q (by simp)⟩
    have ih := psplit_jt ho hpre hpost r (post ++ Q) hQ (fun Q' hQ' => hPs Q' (by simp [hQ']))
    have hAp : noT op (A ++ pre) := noT_append.mpr ⟨hA, hpre⟩
    have e : A ++ jt (pre ++ o :: post) (Q :: r) = (A ++ pre) ++ o :: ((post ++ Q) ++ jt (pre ++ o :: post) r) := by
      simp only [jt, List.append_assoc, List.cons_append]
    rw [e, psplit, psegH_append _ hAp, psegT_append _ hAp, psegH_cons, psegT_cons, ho]
    simp only [if_true, List.append_nil, segs]
    rw [psplit] at ih
    rw [ih]

theorem segs_strip {pre post : List PTok} (hpre : ∀ X, pstrip (X ++ pre) = pstrip X)
    (hpost : ∀ X, pstrip (post ++ X) = pstrip X) : ∀ (Ps : List (List PTok)) (A : List PTok),
    (segs pre post A Ps).map pstrip = pstrip A :: Ps.map pstrip
  | [], A => rfl
  | Q :: r, A => by
    simp only [segs, List.map_cons, hpre, segs_strip hpre hpost r (post ++ Q), hpost]

theorem segs_nil : ∀ (Ps : List (List PTok)) (A : List PTok), segs [] [] A Ps = A :: Ps
  | [], A => rfl
  | Q :: r, A => by simp only [segs, List.append_nil, List.nil_append, segs_nil r Q]

theorem noT_jt {op : Str} {sep : List PTok} (hsep : noT op sep) : ∀ {Ps : List (List PTok)},
    (∀ Q ∈ Ps, noT op Q) → noT op (jt sep Ps)
  | [], _ => noT_nil op
  | Q :: r, h => by
    simp only [jt]
    exact noT_append.mpr ⟨noT_append.mpr ⟨hsep, h Q (by simp)⟩, noT_jt hsep (fun Q' hQ' => h Q' (by simp [hQ']))⟩

theorem noT_joinP {op : Str} {sep : List PTok} (hsep : noT op sep) {Ps : List (List PTok)}
    (h : ∀ Q ∈ Ps, noT op Q) : noT op (joinP sep Ps) := by
  cases Ps with
  | nil => exact noT_nil op
  | cons P r =>
    rw [joinP_cons]
    exact noT_append.mpr ⟨h P (by simp), noT_jt hsep (fun Q' hQ' => h Q' (by simp [hQ']))⟩

/-! ### Shapes -/

theorem shape_isFlat (x : Expr) : x.shape.isFlat = x.isFlat := by
  cases x with
  | axis n v b e => cases v <;> rfl
  | _ => rfl

theorem shape_isConcat (x : Expr) : x.shape.isConcat = x.isConcat := by
  cases x with
  | axis n v b e => cases v <;> rfl
  | _ => rfl

theorem shape_isBrackets (x : Expr) : x.shape.isBrackets = x.isBrackets := by
  cases x with
  | axis n v b e => cases v <;> rfl
  | _ => rfl

theorem shape_isList (x : Expr) : x.shape.isList = x.isList := by
  cases x with
  | axis n v b e => cases v <;> rfl
  | _ => rfl

theorem shape_isAxisOrFlat (x : Expr) : isAxisOrFlat x.shape = isAxisOrFlat x := by
  cases x with
  | axis n v b e => cases v <;> rfl
  | _ => rfl

mutual
theorem shape_ndim : ∀ x : Expr, x.shape.ndim = x.ndim
  | .axis n v b e => by cases v <;> simp only [Expr.shape, Expr.ndim]
  | .flat i _ _ => by simp only [Expr.shape, Expr.ndim]
  | .brackets i _ _ => by simp only [Expr.shape, Expr.ndim, shape_ndim i]
  | .ellipsis i _ _ _ => by simp only [Expr.shape, Expr.ndim, shape_ndim i]
  | .concat cs _ _ => by simp only [Expr.shape, Expr.ndim]
  | .list cs _ _ => by simp only [Expr.shape, Expr.ndim, shapeL_ndimSum cs]
  | .args cs _ _ => by simp only [Expr.shape, Expr.ndim]
  | .op cs _ _ => by simp only [Expr.shape, Expr.ndim]
theorem shapeL_ndimSum : ∀ cs : List Expr, ndimSum (shapeL cs) = ndimSum cs
  | [] => by simp only [shapeL]
  | c :: cs => by simp only [shapeL, ndimSum, shape_ndim c, shapeL_ndimSum cs]
end

theorem isFlat_of_shape {x y : Expr} (h : x.shape = y.shape) : x.isFlat = y.isFlat := by
  rw [← shape_isFlat x, h, shape_isFlat]
theorem isConcat_of_shape {x y : Expr} (h : x.shape = y.shape) : x.isConcat = y.isConcat := by
  rw [← shape_isConcat x, h, shape_isConcat]
theorem isBrackets_of_shape {x y : Expr} (h : x.shape = y.shape) : x.isBrackets = y.isBrackets := by
  rw [← shape_isBrackets x, h, shape_isBrackets]
theorem isList_of_shape {x y : Expr} (h : x.shape = y.shape) : x.isList = y.isList := by
  rw [← shape_isList x, h, shape_isList]
theorem isAxisOrFlat_of_shape {x y : Expr} (h : x.shape = y.shape) : isAxisOrFlat x = isAxisOrFlat y := by
  rw [← shape_isAxisOrFlat x, h, shape_isAxisOrFlat]
theorem ndim_of_shape {x y : Expr} (h : x.shape = y.shape) : x.ndim = y.ndim := by
  rw [← shape_ndim x, h, shape_ndim]

theorem shapeL_cons (c : Expr) (cs : List Expr) : shapeL (c :: cs) = c.shape :: shapeL cs := by simp only [shapeL]

theorem shapeL_eq_map : ∀ cs : List Expr, shapeL cs = cs.map Expr.shape
  | [] => by simp only [shapeL, List.map_nil]
  | c :: cs => by rw [shapeL_cons, List.map_cons, shapeL_eq_map cs]

theorem ptreeL_eq_map : ∀ cs : List Expr, ptreeL cs = cs.map Expr.ptree
  | [] => by simp only [ptreeL, List.map_nil]
  | c :: cs => by simp only [ptreeL, List.map_cons, ptreeL_eq_map cs]

/-- A Boolean property that only depends on the shape holds for all elements of lists with equal shapes. -/
theorem all_of_shapeL {q : Expr → Bool} (hq : ∀ x y : Expr, x.shape = y.shape → q x = q y) :
    ∀ {xs ys : List Expr}, shapeL xs = shapeL ys → xs.all q = ys.all q
  | [], [], _ => rfl
  | [], _ :: _, h => by simp only [shapeL] at h; cases h
  | _ :: _, [], h => by simp only [shapeL] at h; cases h
  | x :: xs, y :: ys, h => by
    rw [shapeL_cons, shapeL_cons] at h
    simp only [List.cons.injEq] at h
    rw [List.all_cons, List.all_cons, hq x y h.1, all_of_shapeL hq h.2]

theorem length_of_shapeL {xs ys : List Expr} (h : shapeL xs = shapeL ys) : xs.length = ys.length := by
  have := congrArg List.length h
  rwa [shapeL_eq_map, shapeL_eq_map, List.length_map, List.length_map] at this

/-! ### The token lists of printable terms -/

def isOpText (s : Str) : Bool := s == lit "->" || s == lit "," || s == lit "+" || s == spaceLit

/-- Non-empty, no operator atom and no space at top level. -/
def CleanP (P : List PTok) : Prop :=
  P ≠ [] ∧ noT (lit "->") P ∧ noT (lit ",") P ∧ noT (lit "+") P ∧ noT spaceLit P

theorem clean_atom {s : Str} (h : isOpText s = false) : CleanP [.atom s] := by
  simp only [isOpText, Bool.or_eq_false_iff] at h
  refine ⟨by simp, ?_, ?_, ?_, ?_⟩ <;> simp only [noT, List.any_cons, List.any_nil, pIsText, Bool.or_false]
  · exact h.1.1.1
  · exact h.1.1.2
  · exact h.1.2
  · exact h.2

theorem clean_group (o c : Str) (I : List PTok) : CleanP [.group o c I] :=
  ⟨by simp, rfl, rfl, rfl, rfl⟩

theorem clean_append {A B : List PTok} (hA : CleanP A) (hB : CleanP B) : CleanP (A ++ B) :=
  ⟨by simp [hA.1], noT_append.mpr ⟨hA.2.1, hB.2.1⟩, noT_append.mpr ⟨hA.2.2.1, hB.2.2.1⟩,
    noT_append.mpr ⟨hA.2.2.2.1, hB.2.2.2.1⟩, noT_append.mpr ⟨hA.2.2.2.2, hB.2.2.2.2⟩⟩

theorem axisName_not_op {n : Str} (h : isAxisName n = true) : isOpText n = false := by
  cases hn : isOpText n with
  | false => rfl
  | true =>
    simp only [isOpText, Bool.or_eq_true, beq_iff_eq] at hn
    rcases hn with ((hn | hn) | hn) | hn <;> (subst hn; revert h; decide)

theorem axisName_not_ell {n : Str} (h : isAxisName n = true) : n ≠ ellipsisLit := by
  intro hn; subst hn; revert h; decide

theorem word_not_op {w : Str} (h : isWord w = true) : isOpText w = false := by
  cases hn : isOpText w with
  | false => rfl
  | true =>
    simp only [isOpText, Bool.or_eq_true, beq_iff_eq] at hn
    rcases hn with ((hn | hn) | hn) | hn <;> (subst hn; revert h; decide)

theorem word_not_ell {w : Str} (h : isWord w = true) : w ≠ ellipsisLit := by
  intro hn; subst hn; revert h; decide

theorem axisName_not_digit {n : Str} (h : isAxisName n = true) : isDigitStr n = false := by
  cases n with
  | nil => rfl
  | cons c cs =>
    simp only [isAxisName, Bool.and_eq_true] at h
    cases hd : isDigitChar c with
    | false => simp [isDigitStr, hd]
    | true =>
      have hr : 48 ≤ c.toNat ∧ c.toNat ≤ 57 := by
        simpa [isDigitChar, inRanges, Einx.Extracted.digitRanges] using hd
      rw [not_isNameStart_of_range hr] at h
      cases h.1

theorem anonNone_anon {i : Expr} (h : isAnonAxisNone i = true) : isAnonAxis i = true := by
  cases i with
  | axis n v b e =>
    cases v with
    | none => exact h
    | some k => simp [isAnonAxisNone] at h
  | _ => simp [isAnonAxisNone] at h

theorem clean_of_PT : ∀ (a : Expr) (inBr : Bool), PT inBr false a = true → CleanP a.ptree
  | .axis n none _ _, _, h => by
    simp only [PT] at h
    simp only [Expr.ptree]
    exact clean_atom (axisName_not_op h)
  | .axis n (some k) _ _, _, _ => by
    simp only [Expr.ptree]
    exact clean_atom (word_not_op (natStr_isWord k))
  | .flat .., _, _ => by simp only [Expr.ptree]; exact clean_group _ _ _
  | .brackets .., _, _ => by simp only [Expr.ptree]; exact clean_group _ _ _
  | .concat .., _, _ => by simp only [Expr.ptree]; exact clean_group _ _ _
  | .ellipsis i _ _ _, inBr, h => by
    simp only [Expr.ptree]
    split
    · exact clean_atom (by decide)
    · rename_i hna
      simp only [PT, Bool.or_eq_true, Bool.and_eq_true] at h
      rcases h with h | h
      · exact (hna (anonNone_anon h)).elim
      · exact clean_append (clean_of_PT i inBr h.2) (clean_atom (by decide))
  | .list .., _, h => by simp [PT] at h
  | .args .., _, h => by simp [PT] at h
  | .op .., _, h => by simp [PT] at h

theorem cleanL_of_PTL : ∀ (cs : List Expr) (inBr : Bool), PTL inBr cs = true → ∀ c ∈ cs, CleanP c.ptree
  | [], _, _ => by intro c hc; cases hc
  | c :: cs, inBr, h => by
    simp only [PTL, Bool.and_eq_true] at h
    intro c' hc'
    rcases List.mem_cons.mp hc' with rfl | hc'
    · exact clean_of_PT _ inBr h.1
    · exact cleanL_of_PTL cs inBr h.2 c' hc'

theorem notList_of_PT {a : Expr} {inBr : Bool} (h : PT inBr false a = true) : a.isList = false := by
  cases a with
  | list cs b e => simp [PT] at h
  | _ => rfl

theorem PT_notList {a : Expr} {inBr al : Bool} (h : PT inBr al a = true) (hl : a.isList = false) :
    PT inBr false a = true := by
  cases a with
  | list cs b e => cases hl
  | axis n v b e => simpa only [PT] using h
  | flat i b e => simpa only [PT] using h
  | brackets i b e => simpa only [PT] using h
  | ellipsis i d b e => simpa only [PT] using h
  | concat cs b e => simpa only [PT] using h
  | args cs b e => simp [PT] at h
  | op cs b e => simp [PT] at h

theorem noSpace_tight : ∀ {P : List PTok}, noT spaceLit P → P.dropWhile pIsSpace = P ∧ pDropTrail P = P
  | [], _ => ⟨rfl, rfl⟩
  | p :: ps, h => by
    have hp : pIsSpace p = false := (noT_cons.mp h).1
    have ih := noSpace_tight (noT_cons.mp h).2
    refine ⟨by simp only [List.dropWhile, hp], ?_⟩
    rw [pDropTrail_cons_nonspace hp, ih.2]

theorem clean_tight {P : List PTok} (h : CleanP P) : pstrip P = P := by
  have := noSpace_tight h.2.2.2.2
  rw [pstrip, this.1, this.2]

theorem pDropTrail_append_ne : ∀ (X : List PTok) {Y : List PTok}, pDropTrail Y ≠ [] →
    pDropTrail (X ++ Y) = X ++ pDropTrail Y
  | [], _, _ => rfl
  | x :: xs, Y, h => by
    have ih := pDropTrail_append_ne xs h
    rw [List.cons_append, pDropTrail_cons_ne (by rw [ih]; simp [h]), ih]
    rfl

theorem pDropTrail_jt : ∀ (r : List (List PTok)) (A : List PTok), A ≠ [] → noT spaceLit A →
    (∀ Q ∈ r, CleanP Q) → pDropTrail (A ++ jt sepList r) = A ++ jt sepList r
  | [], A, _, hA, _ => by simp only [jt, List.append_nil, (noSpace_tight hA).2]
  | Q :: r, A, _, _, hr => by
    have hQ := hr Q (by simp)
    have ih := pDropTrail_jt r Q hQ.1 hQ.2.2.2.2 (fun Q' hQ' => hr Q' (by simp [hQ']))
    have e : A ++ jt sepList (Q :: r) = (A ++ sepList) ++ (Q ++ jt sepList r) := by
      simp only [jt, List.append_assoc]
    rw [e, pDropTrail_append_ne _ (by rw [ih]; simp [hQ.1]), ih]

/-- Tokens of a printable term or list: no `->`, `,`, `+` at top level, no leading / trailing space. -/
def Lvl (P : List PTok) : Prop := noT (lit "->") P ∧ noT (lit ",") P ∧ noT (lit "+") P ∧ pstrip P = P

theorem lvl_of_clean {P : List PTok} (h : CleanP P) : Lvl P := ⟨h.2.1, h.2.2.1, h.2.2.2.1, clean_tight h⟩

theorem lvl_join {Ps : List (List PTok)} (h : ∀ Q ∈ Ps, CleanP Q) : Lvl (joinP sepList Ps) := by
  refine ⟨noT_joinP (op := lit "->") (sep := sepList) rfl (fun Q hQ => (h Q hQ).2.1),
    noT_joinP (op := lit ",") (sep := sepList) rfl (fun Q hQ => (h Q hQ).2.2.1),
    noT_joinP (op := lit "+") (sep := sepList) rfl (fun Q hQ => (h Q hQ).2.2.2.1), ?_⟩
  cases Ps with
  | nil => rfl
  | cons P r =>
    have hP := h P (by simp)
    rw [joinP_cons, pstrip]
    have hd : (P ++ jt sepList r).dropWhile pIsSpace = P ++ jt sepList r := by
      cases P with
      | nil => exact (hP.1 rfl).elim
      | cons a as =>
        have : pIsSpace a = false := (noT_cons.mp hP.2.2.2.2).1
        simp only [List.cons_append, List.dropWhile, this]
    rw [hd]
    exact pDropTrail_jt r P hP.1 hP.2.2.2.2 (fun Q' hQ' => h Q' (by simp [hQ']))

theorem lvl_of_PT {a : Expr} {inBr al : Bool} (h : PT inBr al a = true) : Lvl a.ptree := by
  cases hl : a.isList with
  | false => exact lvl_of_clean (clean_of_PT a inBr (PT_notList h hl))
  | true =>
    cases a with
    | list cs b e =>
      simp only [PT, Bool.and_eq_true] at h
      simp only [Expr.ptree]
      apply lvl_join
      intro Q hQ
      rw [ptreeL_eq_map] at hQ
      obtain ⟨c, hc, rfl⟩ := List.mem_map.mp hQ
      exact cleanL_of_PTL cs inBr h.2 c hc
    | _ => cases hl

theorem ellOperand_single {i : Expr} (h : ellOperand i = true) : ∃ p, i.ptree = [p] := by
  cases i with
  | axis n v b e => cases v <;> (simp only [Expr.ptree]; exact ⟨_, rfl⟩)
  | flat i b e => simp only [Expr.ptree]; exact ⟨_, rfl⟩
  | brackets i b e => simp only [Expr.ptree]; exact ⟨_, rfl⟩
  | concat cs b e => simp only [Expr.ptree]; exact ⟨_, rfl⟩
  | ellipsis j d b e =>
    have hj : isAnonAxisNone j = true := by
      simpa [ellOperand, Expr.isAxis, Expr.isFlat, Expr.isBrackets, Expr.isConcat, isEllAnon] using h
    simp only [Expr.ptree, anonNone_anon hj, if_true]
    exact ⟨_, rfl⟩
  | _ => simp [ellOperand, Expr.isAxis, Expr.isFlat, Expr.isBrackets, Expr.isConcat, isEllAnon] at h

theorem ellOperand_ndim {i : Expr} {inBr : Bool} (h : ellOperand i = true) (hp : PT inBr false i = true) :
    (i.ndim == some 0) = false := by
  cases i with
  | axis n v b e => simp [Expr.ndim]
  | flat i b e => simp [Expr.ndim]
  | brackets i b e =>
    simp only [PT, Bool.and_eq_true, bne_iff_ne, ne_eq] at hp
    simp only [Expr.ndim, beq_eq_false_iff_ne, ne_eq]
    exact hp.1.2
  | concat cs b e => simp [Expr.ndim]
  | ellipsis j d b e =>
    have hj : isAnonAxisNone j = true := by
      simpa [ellOperand, Expr.isAxis, Expr.isFlat, Expr.isBrackets, Expr.isConcat, isEllAnon] using h
    cases j with
    | axis n v bj ej => simp [Expr.ndim]
    | _ => simp [isAnonAxisNone] at hj
  | _ => simp [ellOperand, Expr.isAxis, Expr.isFlat, Expr.isBrackets, Expr.isConcat, isEllAnon] at h

/-! ### `findOp` on known token lists -/

theorem pfindOp_none {P : List PTok} (h1 : noT (lit "->") P) (h2 : noT (lit ",") P) (h3 : noT (lit "+") P)
    (h4 : noT spaceLit P) : pfindOp naryOps P = none := by
  unfold noT at h1 h2 h3 h4
  rw [naryOps_eq]
  simp only [pfindOp, h1, h2, h3, h4, Bool.false_eq_true, if_false]

theorem pfindOp_arrow {P : List PTok} (h : P.any (pIsText (lit "->")) = true) :
    pfindOp naryOps P = some (lit "->") := by
  rw [naryOps_eq]
  simp only [pfindOp, h, if_true]

theorem pfindOp_comma {P : List PTok} (h1 : noT (lit "->") P) (h : P.any (pIsText (lit ",")) = true) :
    pfindOp naryOps P = some (lit ",") := by
  unfold noT at h1
  rw [naryOps_eq]
  simp only [pfindOp, h1, h, Bool.false_eq_true, if_false, if_true]

theorem pfindOp_plus {P : List PTok} (h1 : noT (lit "->") P) (h2 : noT (lit ",") P)
    (h : P.any (pIsText (lit "+")) = true) : pfindOp naryOps P = some (lit "+") := by
  unfold noT at h1 h2
  rw [naryOps_eq]
  simp only [pfindOp, h1, h2, h, Bool.false_eq_true, if_false, if_true]

theorem pfindOp_space {P : List PTok} (h1 : noT (lit "->") P) (h2 : noT (lit ",") P) (h3 : noT (lit "+") P)
    (h : P.any (pIsText spaceLit) = true) : pfindOp naryOps P = some spaceLit := by
  unfold noT at h1 h2 h3
  rw [naryOps_eq]
  simp only [pfindOp, h1, h2, h3, h, Bool.false_eq_true, if_false, if_true]

theorem any_of_split {op : Str} {P : List PTok} {n : Nat} (h : (psplit op P).length = n) (hn : 2 ≤ n) :
    P.any (pIsText op) = true := by
  apply any_of_psegT
  intro h0
  simp only [psplit, h0, List.length_cons, List.length_nil] at h
  omega

theorem findOp_shape {ops : List Str} {S : List Tok} {op : Str} (h : findOp ops S = some op) :
    ∃ t0 rest, S = t0 :: rest ∧ NotGroup t0 rest := by
  have ha := findOp_any h
  cases S with
  | nil => simp at ha
  | cons t0 rest =>
    refine ⟨t0, rest, rfl, ?_⟩
    intro o c inner h1 h2
    subst h1 h2
    simp [Tok.isText] at ha

/-! ### `combine` -/

theorem combine_space (xs : List Expr) (b e : Nat) (ipc : Bool) (S : List Tok) :
    combine spaceLit xs b e ipc S = .ok (mkList xs b e) := by
  rw [combine, if_pos (by decide)]

theorem combine_arrow (xs : List Expr) (b e : Nat) (ipc : Bool) (S : List Tok) :
    combine (lit "->") xs b e ipc S = .ok (.op xs b e) := by
  rw [combine, if_neg (by decide), if_pos (by decide)]

theorem combine_comma (xs : List Expr) (b e : Nat) (ipc : Bool) (S : List Tok) :
    combine (lit ",") xs b e ipc S = .ok (.args xs b e) := by
  rw [combine, if_neg (by decide), if_neg (by decide), if_pos (by decide)]

theorem filter_not_nil {q : Expr → Bool} : ∀ {xs : List Expr}, xs.all q = true → xs.filter (fun o => !q o) = []
  | [], _ => rfl
  | x :: xs, h => by
    simp only [List.all_cons, Bool.and_eq_true] at h
    simp only [List.filter_cons, h.1, Bool.not_true, Bool.false_eq_true, if_false]
    exact filter_not_nil h.2

theorem combine_plus {xs : List Expr} (h : xs.all isAxisOrFlat = true) (b e : Nat) (S : List Tok) :
    combine (lit "+") xs b e true S = .ok (mkConcat xs b e) := by
  rw [combine, if_neg (by decide), if_neg (by decide), if_neg (by decide), if_pos (by decide)]
  simp only [filter_not_nil h, List.isEmpty_nil, Bool.not_true, Bool.false_eq_true, if_false]

/-! ### Parsing the operands -/

/-- Every token list whose stripped erasure is `Q` parses to a tree with the shape of `y`. -/
def Parses (Q : List PTok) (y : Expr) : Prop :=
  ∀ (T : List Tok) (b e : Nat) (ipc : Bool), pstrip (eraseL T) = Q →
    ∃ x, parse T b e ipc = .ok x ∧ x.shape = y.shape ∧ ValuedFresh x

theorem mapM_parse {f : Expr → List PTok} {g : Expr → Expr} : ∀ (ys : List Expr) (l : List TL),
    (∀ y ∈ ys, Parses (f y) (g y)) → l.map (fun o => pstrip (eraseL o.ts)) = ys.map f →
    ∃ xs, l.mapM (fun o => parse o.ts o.b o.e false) = .ok xs ∧ shapeL xs = shapeL (ys.map g) ∧ ValuedFreshL xs
  | [], l, _, hl => by
    have : l = [] := by simpa using hl
    subst this
    exact ⟨[], rfl, rfl, by simp only [ValuedFreshL]⟩
  | y :: ys, l, hg, hl => by
    cases l with
    | nil => simp at hl
    | cons o os =>
      simp only [List.map_cons, List.cons.injEq] at hl
      obtain ⟨x, hx, hsx, hvx⟩ := hg y (by simp) o.ts o.b o.e false hl.1
      obtain ⟨xs, hxs, hss, hvs⟩ := mapM_parse ys os (fun y' hy' => hg y' (by simp [hy'])) hl.2
      refine ⟨x :: xs, ?_, ?_, ?_⟩
      · simp only [List.mapM_cons, hx, hxs, bind, Except.bind, pure, Except.pure]
      · simp only [shapeL, List.map_cons, hsx, hss]
      · simp only [ValuedFreshL]
        exact ⟨hvx, hvs⟩

/-- The n-ary branch of `parse`, given the operator and the stripped operands on the erased side. -/
theorem nary_step {op : Str} {f : Expr → List PTok} {g : Expr → Expr} {ys : List Expr}
    (T : List Tok) (b e : Nat) (ipc : Bool)
    (hfind : pfindOp naryOps (pstrip (eraseL T)) = some op)
    (hsplit : (psplit op (pstrip (eraseL T))).map pstrip = ys.map f)
    (hkeep : op = spaceLit → ∀ Q ∈ psplit op (pstrip (eraseL T)), Q ≠ [])
    (hgood : ∀ y ∈ ys, Parses (f y) (g y)) :
    ∃ xs b' e' S, parse T b e ipc = combine op xs b' e' ipc S ∧ shapeL xs = shapeL (ys.map g) ∧ ValuedFreshL xs := by
  have hS := erase_strip T
  generalize hs : strip T = S at hS
  rw [← hS] at hfind hsplit hkeep
  have hf : findOp naryOps S = some op := by rw [findOp_erase]; exact hfind
  obtain ⟨t0, rest, rfl, hng⟩ := findOp_shape hf
  have hoe := operands_erase op (t0 :: rest)
  have hk : keepOperands op (operands op (t0 :: rest)) = operands op (t0 :: rest) := by
    by_cases hsp : op = spaceLit
    · unfold keepOperands
      rw [if_pos (by rw [hsp]; rfl), List.filter_eq_self]
      intro o ho
      have hm : eraseL o.ts ∈ psplit op (eraseL (t0 :: rest)) := by
        rw [← hoe]
        exact List.mem_map.mpr ⟨o, ho, rfl⟩
      have hne := hkeep hsp _ hm
      cases hts : o.ts with
      | nil => rw [hts, eraseL_nil] at hne; exact (hne rfl).elim
      | cons a as => rfl
    · exact keepOperands_ne hsp _
  have hops : (operands op (t0 :: rest)).map (fun o => pstrip (eraseL o.ts)) = ys.map f := by
    rw [← hsplit, ← hoe, List.map_map]
    rfl
  obtain ⟨xs, hxs, hss, hvs⟩ := mapM_parse ys _ hgood hops
  refine ⟨xs, t0.b, lastEnd (t0 :: rest) 0, t0 :: rest, ?_, hss, hvs⟩
  rw [parse_nary b e ipc hs hng hf, hk, hxs]

/-- The operands of a stripped joined list, stripped. -/
theorem split_join {op : Str} {pre post : List PTok} {o : PTok} (hop : op ≠ spaceLit) (ho : pIsText op o = true)
    (hpre : noT op pre) (hpost : noT op post) (hpre' : ∀ X, pstrip (X ++ pre) = pstrip X)
    (hpost' : ∀ X, pstrip (post ++ X) = pstrip X) {Ps : List (List PTok)} (hne : Ps ≠ [])
    (hPs : ∀ Q ∈ Ps, noT op Q) :
    (psplit op (pstrip (joinP (pre ++ o :: post) Ps))).map pstrip = Ps.map pstrip := by
  cases Ps with
  | nil => exact (hne rfl).elim
  | cons P r =>
    rw [psplit_pstrip hop, joinP_cons,
      psplit_jt ho hpre hpost r P (hPs P (by simp)) (fun Q hQ => hPs Q (by simp [hQ])),
      segs_strip hpre' hpost', List.map_cons]

theorem pstrip_append_sp (X : List PTok) : pstrip (X ++ [.atom (lit " ")]) = pstrip X :=
  pstrip_append_space rfl X

theorem pstrip_cons_sp (X : List PTok) : pstrip ([.atom (lit " ")] ++ X) = pstrip X :=
  pstrip_cons_space rfl X

theorem pstrip_append_nil (X : List PTok) : pstrip (X ++ []) = pstrip X := by rw [List.append_nil]

/-- The n-ary branch for `->`, `,`, `+` on a joined list. -/
theorem nary_join {op : Str} {pre post : List PTok} {o : PTok} {g : Expr → Expr} {ys : List Expr}
    (hop : op ≠ spaceLit) (ho : pIsText op o = true)
    (hpre : noT op pre) (hpost : noT op post) (hpre' : ∀ X, pstrip (X ++ pre) = pstrip X)
    (hpost' : ∀ X, pstrip (post ++ X) = pstrip X)
    (hlen : 2 ≤ ys.length) (hys : ∀ y ∈ ys, noT op y.ptree)
    (hgood : ∀ y ∈ ys, Parses (pstrip y.ptree) (g y))
    (hfind : ∀ P : List PTok, P = pstrip (joinP (pre ++ o :: post) (ptreeL ys)) → P.any (pIsText op) = true →
      pfindOp naryOps P = some op)
    (T : List Tok) (b e : Nat) (ipc : Bool)
    (hT : pstrip (eraseL T) = pstrip (joinP (pre ++ o :: post) (ptreeL ys))) :
    ∃ xs b' e' S, parse T b e ipc = combine op xs b' e' ipc S ∧ shapeL xs = shapeL (ys.map g) ∧ ValuedFreshL xs := by
  have hne : ptreeL ys ≠ [] := by
    rw [ptreeL_eq_map]
    cases ys with
    | nil => simp at hlen
    | cons y r => simp
  have hsplit : (psplit op (pstrip (eraseL T))).map pstrip = ys.map (fun y => pstrip y.ptree) := by
    rw [hT, split_join hop ho hpre hpost hpre' hpost' hne, ptreeL_eq_map, List.map_map]
    · rfl
    · intro Q hQ
      rw [ptreeL_eq_map] at hQ
      obtain ⟨y, hy, rfl⟩ := List.mem_map.mp hQ
      exact hys y hy
  have hany : (pstrip (eraseL T)).any (pIsText op) = true := by
    have hl := congrArg List.length hsplit
    rw [List.length_map, List.length_map] at hl
    exact any_of_split hl hlen
  exact nary_step T b e ipc (hfind _ hT hany) hsplit (fun h => (hop h).elim) hgood

/-! ### Single atoms and groups -/

theorem atom_parse {s : Str} (hop : isOpText s = false) (T : List Tok) (b e : Nat) (ipc : Bool)
    (hT : pstrip (eraseL T) = [.atom s]) :
    ∃ tk : Token, tk.text = s ∧ parse T b e ipc =
      if tk.text == ellipsisLit then .ok (mkEllipsis (.axis anonName none tk.b tk.b) tk.b tk.e tk.b)
      else parseAxis tk := by
  have hS := erase_strip T
  rw [hT] at hS
  obtain ⟨t, hs, ht⟩ := eraseL_single hS
  obtain ⟨tk, rfl, htk⟩ := erase_atom ht
  have hf : findOp naryOps [.atom tk] = none := by
    rw [findOp_erase, ← hs, hS]
    have hc := clean_atom hop
    exact pfindOp_none hc.2.1 hc.2.2.1 hc.2.2.2.1 hc.2.2.2.2
  exact ⟨tk, htk, parse_atom b e ipc hs hf⟩

theorem group_parse {o c : Str} {I : List PTok} (T : List Tok) (b e : Nat) (ipc : Bool)
    (hT : pstrip (eraseL T) = [.group o c I]) :
    ∃ (ot ct : Token) (inner : List Tok), ot.text = o ∧ eraseL inner = I ∧
      parse T b e ipc =
        match parse inner (firstInnerPos inner ct) (lastEnd inner (firstInnerPos inner ct)) (ot.text == lit "(") with
        | .error err => .error err
        | .ok x =>
          if ot.text == lit "(" then
            if x.isConcat then .ok x else .ok (mkFlat x ot.b ct.e)
          else if ot.text == lit "[" then .ok (mkBrackets x ot.b ct.e)
          else .error (.internal .assertDelimiter) := by
  have hS := erase_strip T
  rw [hT] at hS
  obtain ⟨t, hs, ht⟩ := eraseL_single hS
  obtain ⟨ot, ct, inner, rfl, hot, hin⟩ := erase_group ht
  exact ⟨ot, ct, inner, hot, hin, parse_group b e ipc hs⟩

/-! ### The cases of the induction on printable terms -/

theorem axis_named {n : Str} (h : isAxisName n = true) (b0 e0 : Int) : Parses [.atom n] (.axis n none b0 e0) := by
  intro T b e ipc hT
  obtain ⟨tk, htk, hp⟩ := atom_parse (axisName_not_op h) T b e ipc hT
  rw [htk, if_neg (by simpa using axisName_not_ell h)] at hp
  refine ⟨.axis n none tk.b tk.e, ?_, ?_, ?_⟩
  · rw [hp, parseAxis, htk, if_neg (by simp [axisName_not_digit h]), if_pos h]
  · simp only [Expr.shape]
  · simp only [ValuedFresh]
    intro h
    exact (h rfl).elim

theorem axis_num (k : Nat) (n0 : Str) (b0 e0 : Int) : Parses [.atom (natStr k)] (.axis n0 (some k) b0 e0) := by
  intro T b e ipc hT
  obtain ⟨tk, htk, hp⟩ := atom_parse (word_not_op (natStr_isWord k)) T b e ipc hT
  rw [htk, if_neg (by simpa using word_not_ell (natStr_isWord k))] at hp
  refine ⟨.axis (unnamedName tk.b) (some k) tk.b tk.e, ?_, ?_, ?_⟩
  · rw [hp, parseAxis, htk, if_pos (natStr_isDigitStr k), if_pos (natStr_all_decimal k), natStr_value]
  · simp only [Expr.shape]
  · simp only [ValuedFresh]
    intro _
    exact ⟨_, rfl⟩

theorem ell_anon {i : Expr} (h : isAnonAxisNone i = true) (d : Nat) (b0 e0 : Int) :
    Parses [.atom (lit "...")] (.ellipsis i d b0 e0) := by
  intro T b e ipc hT
  obtain ⟨tk, htk, hp⟩ := atom_parse (s := lit "...") (by decide) T b e ipc hT
  rw [htk, if_pos (by decide)] at hp
  refine ⟨.ellipsis (.axis anonName none tk.b tk.b) tk.b tk.b tk.e, ?_, ?_, ?_⟩
  · rw [hp]
    simp [mkEllipsis, Expr.ndim]
  · cases i with
    | axis n v b1 e1 =>
      cases v with
      | none =>
        simp only [isAnonAxisNone, beq_iff_eq] at h
        simp only [Expr.shape, h]
      | some k => simp [isAnonAxisNone] at h
    | _ => simp [isAnonAxisNone] at h
  · simp only [ValuedFresh]
    intro h
    exact (h rfl).elim

theorem flat_case {i : Expr} (hi : Parses i.ptree i) (ht : pstrip i.ptree = i.ptree) (hf : i.isFlat = false)
    (hc : i.isConcat = false) (b0 e0 : Int) : Parses [.group (lit "(") (lit ")") i.ptree] (.flat i b0 e0) := by
  intro T b e ipc hT
  obtain ⟨ot, ct, inner, hot, hin, hp⟩ := group_parse T b e ipc hT
  obtain ⟨x, hx, hsx, hvx⟩ := hi inner (firstInnerPos inner ct) (lastEnd inner (firstInnerPos inner ct))
    (ot.text == lit "(") (by rw [hin, ht])
  rw [hx] at hp
  have h1 : (ot.text == lit "(") = true := by rw [hot]; rfl
  have h2 : x.isConcat = false := by rw [isConcat_of_shape hsx]; exact hc
  have h3 : x.isFlat = false := by rw [isFlat_of_shape hsx]; exact hf
  refine ⟨.flat x ot.b ct.e, ?_, ?_, ?_⟩
  · rw [hp]
    simp only [h1, h2, if_true, mkFlat, h3, Bool.false_eq_true, if_false]
  · simp only [Expr.shape, hsx]
  · simp only [ValuedFresh]
    exact hvx

theorem brackets_case {i : Expr} (hi : Parses i.ptree i) (ht : pstrip i.ptree = i.ptree) (hb : i.isBrackets = false)
    (hn : (i.ndim == some 0) = false) (b0 e0 : Int) :
    Parses [.group (lit "[") (lit "]") i.ptree] (.brackets i b0 e0) := by
  intro T b e ipc hT
  obtain ⟨ot, ct, inner, hot, hin, hp⟩ := group_parse T b e ipc hT
  obtain ⟨x, hx, hsx, hvx⟩ := hi inner (firstInnerPos inner ct) (lastEnd inner (firstInnerPos inner ct))
    (ot.text == lit "(") (by rw [hin, ht])
  rw [hx] at hp
  have h1 : (ot.text == lit "(") = false := by rw [hot]; decide
  have h1' : (ot.text == lit "[") = true := by rw [hot]; rfl
  have h2 : x.isBrackets = false := by rw [isBrackets_of_shape hsx]; exact hb
  have h3 : (x.ndim == some 0) = false := by rw [ndim_of_shape hsx]; exact hn
  refine ⟨.brackets x ot.b ct.e, ?_, ?_, ?_⟩
  · rw [hp]
    simp only [h1, h1', if_true, mkBrackets, h2, h3, Bool.false_eq_true, if_false]
  · simp only [Expr.shape, hsx]
  · simp only [ValuedFresh]
    exact hvx

theorem ell_case {i : Expr} (hi : Parses i.ptree i) (hcl : CleanP i.ptree) (hsg : ∃ p, i.ptree = [p])
    (hn : (i.ndim == some 0) = false) (d : Nat) (b0 e0 : Int) :
    Parses (i.ptree ++ [.atom (lit "...")]) (.ellipsis i d b0 e0) := by
  intro T b e ipc hT
  obtain ⟨p, hp⟩ := hsg
  have hS := erase_strip T
  rw [hT, hp] at hS
  obtain ⟨X, U, hs, hX, hU⟩ := eraseL_pair hS
  obtain ⟨tk, rfl, htk⟩ := erase_atom hU
  have hf : findOp naryOps [X, .atom tk] = none := by
    rw [findOp_erase, ← hs, hS]
    have hc : CleanP ([p] ++ [.atom (lit "...")]) := clean_append (hp ▸ hcl) (clean_atom (by decide))
    exact pfindOp_none hc.2.1 hc.2.2.1 hc.2.2.2.1 hc.2.2.2.2
  have hXe : pstrip (eraseL [X]) = i.ptree := by
    rw [eraseL_cons, eraseL_nil, hX, ← hp, clean_tight hcl]
  obtain ⟨x, hx, hsx, hvx⟩ := hi [X] X.b X.e false hXe
  have h3 : (x.ndim == some 0) = false := by rw [ndim_of_shape hsx]; exact hn
  refine ⟨.ellipsis x tk.b X.b tk.e, ?_, ?_, ?_⟩
  · rw [parse_ell b e ipc hs hf, htk, if_pos (by decide), hx]
    simp only [mkEllipsis, h3, Bool.false_eq_true, if_false]
  · simp only [Expr.shape, hsx]
  · simp only [ValuedFresh]
    exact hvx

theorem concat_inner {cs : List Expr} (hgood : ∀ c ∈ cs, Parses c.ptree c) (hclean : ∀ c ∈ cs, CleanP c.ptree)
    (hlen : 2 ≤ cs.length) (hall : cs.all isAxisOrFlat = true) (T : List Tok) (b e : Nat)
    (hT : pstrip (eraseL T) = pstrip (joinP sepPlus (ptreeL cs))) :
    ∃ xs b' e', parse T b e true = .ok (.concat xs b' e') ∧ shapeL xs = shapeL cs ∧ ValuedFreshL xs := by
  have hJ1 : noT (lit "->") (joinP sepPlus (ptreeL cs)) := by
    apply noT_joinP (op := lit "->") (sep := sepPlus) rfl
    intro Q hQ
    rw [ptreeL_eq_map] at hQ
    obtain ⟨c, hc, rfl⟩ := List.mem_map.mp hQ
    exact (hclean c hc).2.1
  have hJ2 : noT (lit ",") (joinP sepPlus (ptreeL cs)) := by
    apply noT_joinP (op := lit ",") (sep := sepPlus) rfl
    intro Q hQ
    rw [ptreeL_eq_map] at hQ
    obtain ⟨c, hc, rfl⟩ := List.mem_map.mp hQ
    exact (hclean c hc).2.2.1
  obtain ⟨xs, b', e', S, hp, hss, hvs⟩ := nary_join (op := lit "+") (pre := [.atom (lit " ")])
    (post := [.atom (lit " ")]) (o := .atom (lit "+")) (g := id) (ys := cs)
    (by decide) rfl rfl rfl pstrip_append_sp pstrip_cons_sp hlen (fun y hy => (hclean y hy).2.2.2.1)
    (fun y hy => by rw [clean_tight (hclean y hy)]; exact hgood y hy)
    (fun P hP hany => pfindOp_plus (hP ▸ noT_pstrip hJ1) (hP ▸ noT_pstrip hJ2) hany) T b e true hT
  rw [List.map_id] at hss
  have hall' : xs.all isAxisOrFlat = true := by
    rw [all_of_shapeL (fun x y => isAxisOrFlat_of_shape) hss]; exact hall
  rw [combine_plus hall'] at hp
  have hl := length_of_shapeL hss
  have hm : mkConcat xs b' e' = .concat xs b' e' := by
    match xs, hl with
    | [], hl => simp at hl; omega
    | [_], hl => simp at hl; omega
    | _ :: _ :: _, _ => rfl
  exact ⟨xs, b', e', by rw [hp, hm], hss, hvs⟩

theorem concat_case {cs : List Expr} (hgood : ∀ c ∈ cs, Parses c.ptree c) (hclean : ∀ c ∈ cs, CleanP c.ptree)
    (hlen : 2 ≤ cs.length) (hall : cs.all isAxisOrFlat = true) (b0 e0 : Int) :
    Parses [.group (lit "(") (lit ")") (joinP sepPlus (ptreeL cs))] (.concat cs b0 e0) := by
  intro T b e ipc hT
  obtain ⟨ot, ct, inner, hot, hin, hp⟩ := group_parse T b e ipc hT
  have h1 : (ot.text == lit "(") = true := by rw [hot]; rfl
  rw [h1] at hp
  obtain ⟨xs, b', e', hx, hss, hvs⟩ := concat_inner hgood hclean hlen hall inner
    (firstInnerPos inner ct) (lastEnd inner (firstInnerPos inner ct)) (by rw [hin])
  rw [hx] at hp
  refine ⟨.concat xs b' e', ?_, ?_, ?_⟩
  · rw [hp]
    simp [Expr.isConcat]
  · simp only [Expr.shape, hss]
  · simp only [ValuedFresh]
    exact hvs

theorem flattenAll_noList : ∀ {xs : List Expr}, xs.all (fun x => !x.isList) = true → flattenAll xs = xs
  | [], _ => by simp only [flattenAll]
  | x :: xs, h => by
    simp only [List.all_cons, Bool.and_eq_true, Bool.not_eq_true'] at h
    have h1 : flattenOne x = [x] := by
      cases x with
      | list cs b e => cases h.1
      | _ => simp only [flattenOne]
    simp only [flattenAll, h1, flattenAll_noList h.2, List.singleton_append]

theorem list_nil (b0 e0 : Int) : Parses [] (.list [] b0 e0) := by
  intro T b e ipc hT
  have hS := erase_strip T
  rw [hT] at hS
  refine ⟨.list [] b e, ?_, ?_, ?_⟩
  · rw [parse_nil b e ipc (eraseL_eq_nil hS)]
    simp [mkList, flattenAll]
  · simp only [Expr.shape]
  · simp only [ValuedFresh, ValuedFreshL]

theorem list_case {cs : List Expr} (hgood : ∀ c ∈ cs, Parses c.ptree c) (hclean : ∀ c ∈ cs, CleanP c.ptree)
    (hlen : 2 ≤ cs.length) (hnl : cs.all (fun c => !c.isList) = true) (b0 e0 : Int) :
    Parses (joinP sepList (ptreeL cs)) (.list cs b0 e0) := by
  intro T b e ipc hT
  have hcl : ∀ Q ∈ ptreeL cs, CleanP Q := by
    intro Q hQ
    rw [ptreeL_eq_map] at hQ
    obtain ⟨c, hc, rfl⟩ := List.mem_map.mp hQ
    exact hclean c hc
  have hlv := lvl_join hcl
  have hsp : psplit spaceLit (joinP sepList (ptreeL cs)) = ptreeL cs := by
    cases hcs : ptreeL cs with
    | nil => rw [ptreeL_eq_map] at hcs; cases cs <;> simp at hcs hlen
    | cons P r =>
      rw [hcs] at hcl
      have := psplit_jt (op := spaceLit) (pre := []) (post := []) (o := .atom (lit " ")) rfl rfl rfl r P
        (hcl P (by simp)).2.2.2.2 (fun Q hQ => (hcl Q (by simp [hQ])).2.2.2.2)
      rw [segs_nil] at this
      rw [joinP_cons]
      exact this
  have hlen' : (psplit spaceLit (joinP sepList (ptreeL cs))).length = cs.length := by
    rw [hsp, ptreeL_eq_map, List.length_map]
  obtain ⟨xs, b', e', S, hp, hss, hvs⟩ := nary_step (op := spaceLit) (f := Expr.ptree) (g := id) (ys := cs) T b e ipc
    (by rw [hT]; exact pfindOp_space hlv.1 hlv.2.1 hlv.2.2.1 (any_of_split hlen' hlen))
    (by
      rw [hT, hsp, ptreeL_eq_map, List.map_map]
      apply List.map_congr_left
      intro c hc
      exact clean_tight (hclean c hc))
    (by
      intro _ Q hQ
      rw [hT, hsp] at hQ
      exact (hcl Q hQ).1)
    hgood
  rw [List.map_id] at hss
  rw [combine_space] at hp
  have hnl' : xs.all (fun c => !c.isList) = true := by
    rw [all_of_shapeL (q := fun c => !c.isList) (fun x y h => by simp only [isList_of_shape h]) hss]; exact hnl
  have hl := length_of_shapeL hss
  have hm : mkList xs b' e' = .list xs b' e' := by
    rw [mkList, flattenAll_noList hnl']
    match xs, hl with
    | [], _ => rfl
    | [_], hl => simp at hl; omega
    | _ :: _ :: _, _ => rfl
  refine ⟨.list xs b' e', by rw [hp, hm], ?_, ?_⟩
  · simp only [Expr.shape, hss]
  · simp only [ValuedFresh]
    exact hvs

theorem notListL_of_PTL : ∀ (cs : List Expr) (inBr : Bool), PTL inBr cs = true → cs.all (fun c => !c.isList) = true
  | [], _, _ => rfl
  | c :: cs, inBr, h => by
    simp only [PTL, Bool.and_eq_true] at h
    simp only [List.all_cons, Bool.and_eq_true, Bool.not_eq_true']
    exact ⟨notList_of_PT h.1, notListL_of_PTL cs inBr h.2⟩

/-! ### The induction on printable terms -/

mutual
theorem term_good : ∀ (a : Expr) (inBr al : Bool), PT inBr al a = true → Parses a.ptree a
  | .axis n none b0 e0, _, _, h => by
    simp only [PT] at h
    simp only [Expr.ptree]
    exact axis_named h b0 e0
  | .axis n (some k) b0 e0, _, _, _ => by
    simp only [Expr.ptree]
    exact axis_num k n b0 e0
  | .flat i b0 e0, inBr, _, h => by
    simp only [PT, Bool.and_eq_true, Bool.not_eq_true'] at h
    simp only [Expr.ptree]
    exact flat_case (term_good i inBr true h.2) (lvl_of_PT h.2).2.2.2 h.1.1 h.1.2 b0 e0
  | .brackets i b0 e0, inBr, _, h => by
    simp only [PT, Bool.and_eq_true, Bool.not_eq_true', bne_iff_ne, ne_eq] at h
    simp only [Expr.ptree]
    exact brackets_case (term_good i true true h.2) (lvl_of_PT h.2).2.2.2 h.1.1.2 (by simpa using h.1.2) b0 e0
  | .ellipsis i d b0 e0, inBr, _, h => by
    simp only [PT, Bool.or_eq_true, Bool.and_eq_true, Bool.not_eq_true'] at h
    simp only [Expr.ptree]
    rcases h with h | h
    · rw [if_pos (anonNone_anon h)]
      exact ell_anon h d b0 e0
    · rw [if_neg (by simp [h.1.1])]
      exact ell_case (term_good i inBr false h.2) (clean_of_PT i inBr h.2) (ellOperand_single h.1.2)
        (ellOperand_ndim h.1.2 h.2) d b0 e0
  | .concat cs b0 e0, inBr, _, h => by
    simp only [PT, Bool.and_eq_true, decide_eq_true_eq] at h
    simp only [Expr.ptree]
    exact concat_case (terms_good cs inBr h.2) (cleanL_of_PTL cs inBr h.2) h.1.1 h.1.2 b0 e0
  | .list cs b0 e0, inBr, _, h => by
    simp only [PT, Bool.and_eq_true, bne_iff_ne, ne_eq] at h
    simp only [Expr.ptree]
    have hg := terms_good cs inBr h.2
    have hc := cleanL_of_PTL cs inBr h.2
    have hn := notListL_of_PTL cs inBr h.2
    by_cases h0 : cs = []
    · rw [h0]
      exact list_nil b0 e0
    · have hlen : 2 ≤ cs.length := by
        cases cs with
        | nil => exact (h0 rfl).elim
        | cons c r =>
          cases r with
          | nil => exact (h.1.2 rfl).elim
          | cons _ _ => simp
      exact list_case hg hc hlen hn b0 e0
  | .args .., _, _, h => by simp [PT] at h
  | .op .., _, _, h => by simp [PT] at h
theorem terms_good : ∀ (cs : List Expr) (inBr : Bool), PTL inBr cs = true → ∀ c ∈ cs, Parses c.ptree c
  | [], _, _ => by intro c hc; cases hc
  | c :: cs, inBr, h => by
    simp only [PTL, Bool.and_eq_true] at h
    intro c' hc'
    rcases List.mem_cons.mp hc' with h1 | hc'
    · rw [h1]
      exact term_good c inBr false h.1
    · exact terms_good cs inBr h.2 c' hc'
end

/-! ### Sides of `->` -/

theorem side_noArrow {s : Expr} (h : PArgs s = true) : noT (lit "->") s.ptree := by
  cases s with
  | args as b0 e0 =>
    simp only [PArgs, Bool.and_eq_true, List.all_eq_true] at h
    simp only [Expr.ptree]
    apply noT_joinP (op := lit "->") (sep := sepArgs) rfl
    intro Q hQ
    rw [ptreeL_eq_map] at hQ
    obtain ⟨a, ha, rfl⟩ := List.mem_map.mp hQ
    exact (lvl_of_PT (h.2 a ha)).1
  | _ => simp [PArgs] at h

theorem side_good {s : Expr} (h : PArgs s = true) : Parses (pstrip s.ptree) (unwrapArgs s) := by
  have hna := side_noArrow h
  cases s with
  | args as b0 e0 =>
    simp only [PArgs, Bool.and_eq_true, List.all_eq_true] at h
    match as, h, hna with
    | [], h, _ => simp at h
    | [a], h, _ =>
      have ha := h.2 a (by simp)
      have e : (Expr.args [a] b0 e0).ptree = a.ptree := by simp only [Expr.ptree, ptreeL, joinP]
      rw [e, (lvl_of_PT ha).2.2.2]
      exact term_good a false true ha
    | a1 :: a2 :: r, h, hna =>
      intro T b e ipc hT
      simp only [Expr.ptree] at hT hna
      obtain ⟨xs, b', e', S, hp, hss, hvs⟩ := nary_join (op := lit ",") (pre := [])
        (post := [.atom (lit " ")]) (o := .atom (lit ",")) (g := id) (ys := a1 :: a2 :: r)
        (by decide) rfl rfl rfl pstrip_append_nil pstrip_cons_sp (by simp)
        (fun y hy => (lvl_of_PT (h.2 y hy)).2.1)
        (fun y hy => by rw [(lvl_of_PT (h.2 y hy)).2.2.2]; exact term_good y false true (h.2 y hy))
        (fun P hP hany => pfindOp_comma (hP ▸ noT_pstrip hna) hany) T b e ipc hT
      rw [List.map_id] at hss
      rw [combine_comma] at hp
      refine ⟨.args xs b' e', hp, ?_, ?_⟩
      · simp only [unwrapArgs, Expr.shape, hss]
      · simp only [ValuedFresh]
        exact hvs
  | _ => simp [PArgs] at h

end PrintParse

open PrintParse in
/-- `parse` on a token tree that erases to the token tree of the printed form of a printable `t` returns `preTree t`
    (sides with one argument not wrapped in `Args`, a single side not wrapped in `Op`) up to positions and fresh names. -/
theorem parse_printed (t : Expr) (h : PRoot t = true) (T : List Tok) (hT : eraseL T = t.ptree) :
    ∃ x, parse T 0 (lastEnd T 0) false = .ok x ∧ x.shape = (preTree t).shape ∧ ValuedFresh x := by
  cases t with
  | op cs b0 e0 =>
    simp only [PRoot, Bool.and_eq_true, List.all_eq_true] at h
    match cs, h with
    | [], h => simp at h
    | [s1], h =>
      have e : (Expr.op [s1] b0 e0).ptree = s1.ptree := by simp only [Expr.ptree, ptreeL, joinP]
      rw [e] at hT
      obtain ⟨x, hx, hsx, hvx⟩ := side_good (h.2 s1 (by simp)) T 0 (lastEnd T 0) false (by rw [hT])
      exact ⟨x, hx, by simpa only [preTree] using hsx, hvx⟩
    | [s1, s2], h =>
      simp only [Expr.ptree] at hT
      obtain ⟨xs, b', e', S, hp, hss, hvs⟩ := nary_join (op := lit "->") (pre := [.atom (lit " ")])
        (post := [.atom (lit " ")]) (o := .atom (lit "->")) (g := unwrapArgs) (ys := [s1, s2])
        (by decide) rfl rfl rfl pstrip_append_sp pstrip_cons_sp (by simp)
        (fun y hy => side_noArrow (h.2 y hy))
        (fun y hy => side_good (h.2 y hy))
        (fun P _ hany => pfindOp_arrow hany) T 0 (lastEnd T 0) false (by rw [hT]; rfl)
      rw [combine_arrow] at hp
      refine ⟨.op xs b' e', hp, ?_, ?_⟩
      · simp only [preTree, Expr.shape, hss]
      · simp only [ValuedFresh]
        exact hvs
    | _ :: _ :: _ :: _, h => simp at h
  | _ => simp [PRoot] at h

end Einx.Notation
