import EinxModel.Proofs.Errors
/-!
# C03 — the extra invariant `get_pos_for_ellipses` needs, derived from the parser model

`get_pos_for_ellipses` reports `range(end_pos - 3, end_pos)` for every `Ellipsis` node with `begin_pos >= 0`.  For that to
lie inside the string the node must end at least three characters into the string and inside it.  This is true of parser
output because the last token of every ellipsis node is the literal `...`; the proof carries "a token is as long as its
text" from the lexer through the delimiter stack, `parse`, both `move_up` passes and the redundant-bracket pass.
-/
namespace Einx.Errors
open Einx.Notation

/-- An ellipsis node is at the default position or ends ≥ 3 characters into a string of length `n`, inside it. -/
def EllR (n : Nat) (b e : Int) : Prop := b < 0 ∨ (3 ≤ e ∧ e ≤ n)

mutual
def EllP (n : Nat) : Expr → Prop
  | .axis .. => True
  | .flat i _ _ => EllP n i
  | .brackets i _ _ => EllP n i
  | .ellipsis i _ b e => EllR n b e ∧ EllP n i
  | .concat cs _ _ => EllPL n cs
  | .list cs _ _ => EllPL n cs
  | .args cs _ _ => EllPL n cs
  | .op cs _ _ => EllPL n cs
def EllPL (n : Nat) : List Expr → Prop
  | [] => True
  | c :: cs => EllP n c ∧ EllPL n cs
end

theorem ellPL_iff {n : Nat} {cs : List Expr} : EllPL n cs ↔ ∀ c ∈ cs, EllP n c := by
  induction cs with
  | nil => simp [EllPL]
  | cons c cs ih => simp [EllPL, ih]

/-- Result predicate: `P` on success, nothing on failure. -/
def ResE {α : Type} (P : α → Prop) : Res α → Prop
  | .ok r => P r
  | .error _ => True

theorem EllP.children {n : Nat} {x : Expr} (h : EllP n x) : ∀ c ∈ x.children, EllP n c := by
  cases x <;> simp only [EllP] at h <;> simp only [Expr.children]
  · simp
  · simpa using h
  · simpa using h
  · simpa using h.2
  · exact ellPL_iff.mp h
  · exact ellPL_iff.mp h
  · exact ellPL_iff.mp h
  · exact ellPL_iff.mp h

theorem emptyList_ell (n : Nat) : EllP n emptyList := by simp [emptyList, EllP, EllPL]

theorem mkFlat_ell {n : Nat} {i : Expr} {b e : Int} (hi : EllP n i) : EllP n (mkFlat i b e) := by
  unfold mkFlat
  split
  · exact hi
  · exact hi

theorem mkBrackets_ell {n : Nat} {i : Expr} {b e : Int} (hi : EllP n i) : EllP n (mkBrackets i b e) := by
  unfold mkBrackets
  split
  · exact hi
  · split
    · exact emptyList_ell n
    · exact hi

theorem mkEllipsis_ell {n : Nat} {i : Expr} {b e : Int} {id : Nat} (hi : EllP n i) (h : EllR n b e) :
    EllP n (mkEllipsis i b e id) := by
  unfold mkEllipsis
  split
  · exact emptyList_ell n
  · exact ⟨h, hi⟩

theorem mkConcat_ell {n : Nat} {cs : List Expr} {b e : Int} (hcs : ∀ c ∈ cs, EllP n c) : EllP n (mkConcat cs b e) := by
  unfold mkConcat
  split
  · exact hcs _ (by simp)
  · exact ellPL_iff.mpr hcs

mutual
theorem flattenOne_ell {n : Nat} : ∀ (x : Expr), EllP n x → ∀ c ∈ flattenOne x, EllP n c
  | .list cs _ _, h => by
    simp only [flattenOne]
    exact flattenAll_ell cs (by simpa only [EllP] using h)
  | .axis .., h => by simp only [flattenOne, List.mem_singleton]; intro c hc; subst hc; exact h
  | .flat .., h => by simp only [flattenOne, List.mem_singleton]; intro c hc; subst hc; exact h
  | .brackets .., h => by simp only [flattenOne, List.mem_singleton]; intro c hc; subst hc; exact h
  | .ellipsis .., h => by simp only [flattenOne, List.mem_singleton]; intro c hc; subst hc; exact h
  | .concat .., h => by simp only [flattenOne, List.mem_singleton]; intro c hc; subst hc; exact h
  | .args .., h => by simp only [flattenOne, List.mem_singleton]; intro c hc; subst hc; exact h
  | .op .., h => by simp only [flattenOne, List.mem_singleton]; intro c hc; subst hc; exact h
theorem flattenAll_ell {n : Nat} : ∀ (cs : List Expr), EllPL n cs → ∀ c ∈ flattenAll cs, EllP n c
  | [], _ => by simp [flattenAll]
  | x :: xs, h => by
    simp only [flattenAll, List.mem_append]
    simp only [EllPL] at h
    intro c hc
    rcases hc with hc | hc
    · exact flattenOne_ell x h.1 c hc
    · exact flattenAll_ell xs h.2 c hc
end

theorem mkList_ell {n : Nat} {cs : List Expr} {b e : Int} (hcs : ∀ c ∈ cs, EllP n c) : EllP n (mkList cs b e) := by
  have hf := flattenAll_ell (n := n) cs (ellPL_iff.mpr hcs)
  unfold mkList
  split
  · rename_i c hc
    exact hf c (by rw [hc]; simp)
  · exact ellPL_iff.mpr hf

/-! ### Tokens are as long as their text -/

def TokenL (n : Nat) (t : Token) : Prop := t.e = t.b + t.text.length ∧ t.e ≤ n

mutual
def TokL (n : Nat) : Tok → Prop
  | .atom t => TokenL n t
  | .group _ _ inner => TokLL n inner
def TokLL (n : Nat) : List Tok → Prop
  | [] => True
  | t :: ts => TokL n t ∧ TokLL n ts
end

theorem tokLL_iff {n : Nat} {ts : List Tok} : TokLL n ts ↔ ∀ t ∈ ts, TokL n t := by
  induction ts with
  | nil => simp [TokLL]
  | cons c cs ih => simp [TokLL, ih]

theorem tokLL_append {n : Nat} {xs ys : List Tok} (hx : TokLL n xs) (hy : TokLL n ys) : TokLL n (xs ++ ys) := by
  rw [tokLL_iff] at *
  intro t ht
  rcases List.mem_append.mp ht with h | h
  · exact hx t h
  · exact hy t h

theorem flush_len {cur : Str} {start pos : Nat} (h : start + cur.length = pos) :
    ∀ t ∈ flush cur start pos, t.e = t.b + t.text.length := by
  intro t ht
  unfold flush at ht
  split at ht
  · simp at ht
  · simp only [List.mem_singleton] at ht
    subst ht
    simp only
    omega

theorem segment_len (lits : List Str) (cs : Str) (pos start : Nat) (cur : Str) (h : start + cur.length = pos) :
    ∀ t ∈ segment lits cs pos start cur, t.e = t.b + t.text.length := by
  fun_induction segment lits cs pos start cur with
  | case1 pos start cur => exact flush_len h
  | case2 pos start cur c rest l hl ih =>
    intro t ht
    simp only [List.mem_append, List.mem_cons] at ht
    rcases ht with ht | ht | ht
    · exact flush_len h t ht
    · subst ht; rfl
    · exact ih (by simp) t ht
  | case3 pos start cur c rest hl ih =>
    refine ih ?_
    simp only [List.length_append, List.length_singleton]; omega

theorem lex_len (text : Str) (ts : List Token) (h : lex text = .ok ts) : ∀ t ∈ ts, TokenL text.length t := by
  have hok := segment_ok literals text 0 0 [] text.length (by simp) (by simp)
  have hlen := segment_len literals text 0 0 [] (by simp)
  unfold lex at h
  simp only at h
  split at h
  · cases h
  · cases h
    intro t ht
    exact ⟨hlen t ht, (hok t ht).2⟩

theorem buildTree_len (n : Nat) : ∀ (ts : List Token) (frames : List (Token × List Tok)) (base : List Tok),
    (∀ t ∈ ts, TokenL n t) → (∀ f ∈ frames, TokLL n f.2) → TokLL n base →
    ResE (TokLL n) (buildTree ts frames base) := by
  intro ts
  induction ts with
  | nil =>
    intro frames base _ _ hb
    cases frames with
    | nil => simpa [buildTree, ResE] using hb
    | cons f fs =>
      obtain ⟨o, items⟩ := f
      simp [buildTree, ResE]
  | cons t ts ih =>
    intro frames base hts hf hb
    have ht := hts t (by simp)
    have hts' : ∀ t ∈ ts, TokenL n t := fun x hx => hts x (List.mem_cons_of_mem _ hx)
    simp only [buildTree]
    split
    · apply ih _ _ hts' _ hb
      intro f hf'
      rcases List.mem_cons.mp hf' with h | h
      · subst h; simp [TokLL]
      · exact hf f h
    · split
      · cases frames with
        | nil => simp [ResE]
        | cons f fs =>
          obtain ⟨o, items⟩ := f
          have hfo := hf (o, items) (by simp)
          simp only
          split
          · simp [ResE]
          · have hg : TokL n (Tok.group o t items) := by
              simp only [TokL]; exact hfo
            cases fs with
            | nil =>
              simp only
              apply ih _ _ hts' (by simp) (tokLL_append hb (by simp [TokLL, hg]))
            | cons f2 fs2 =>
              obtain ⟨o2, items2⟩ := f2
              simp only
              apply ih _ _ hts' _ hb
              intro f hf'
              rcases List.mem_cons.mp hf' with h | h
              · subst h
                have := hf (o2, items2) (by simp)
                exact tokLL_append this (by simp [TokLL, hg])
              · exact hf f (by simp [h])
      · cases frames with
        | nil =>
          simp only
          apply ih _ _ hts' (by simp) (tokLL_append hb (by simp [TokLL, TokL, ht]))
        | cons f fs =>
          obtain ⟨o, items⟩ := f
          simp only
          apply ih _ _ hts' _ hb
          intro f hf'
          rcases List.mem_cons.mp hf' with h | h
          · subst h
            have := hf (o, items) (by simp)
            exact tokLL_append this (by simp [TokLL, TokL, ht])
          · exact hf f (by simp [h])

/-! ### `parse` -/

theorem splitOn_sub (op : Str) (d : Nat) : ∀ (ts : List Tok),
    ∀ o ∈ (splitOn op d ts).1 :: (splitOn op d ts).2, ∀ t ∈ o.1, t ∈ ts
  | [] => by
    simp only [splitOn, List.mem_singleton]
    intro o ho; subst ho; simp
  | t :: ts => by
    have ih := splitOn_sub op d ts
    simp only [splitOn]
    split
    · intro o ho
      rcases List.mem_cons.mp ho with ho | ho
      · subst ho; simp
      · intro x hx; exact List.mem_cons_of_mem _ (ih o ho x hx)
    · intro o ho
      rcases List.mem_cons.mp ho with ho | ho
      · subst ho
        intro x hx
        rcases List.mem_cons.mp hx with hx | hx
        · subst hx; simp
        · exact List.mem_cons_of_mem _ (ih (splitOn op d ts).1 (by simp) x hx)
      · intro x hx; exact List.mem_cons_of_mem _ (ih o (List.mem_cons_of_mem _ ho) x hx)

theorem operands_sub (op : Str) (ts : List Tok) : ∀ o ∈ operands op ts, ∀ t ∈ o.ts, t ∈ ts := by
  intro o ho
  simp only [operands, List.mem_map] at ho
  obtain ⟨p, hp, rfl⟩ := ho
  rw [mkTL_ts]
  exact splitOn_sub op (lastEnd ts 0) ts p (by simpa using hp)

theorem combine_ell {n : Nat} {op : Str} {xs : List Expr} {b e : Nat} {ipc : Bool} {ts : List Tok}
    (hxs : ∀ x ∈ xs, EllP n x) : ResE (EllP n) (combine op xs b e ipc ts) := by
  unfold combine
  split
  · exact mkList_ell hxs
  · split
    · exact ellPL_iff.mpr hxs
    · split
      · exact ellPL_iff.mpr hxs
      · split
        · dsimp only
          by_cases hinv : (!(xs.filter (fun o => !isAxisOrFlat o)).isEmpty) = true
          · rw [if_pos hinv]; simp [ResE]
          · rw [if_neg hinv]
            by_cases hipc : (!ipc) = true
            · rw [if_pos hipc]; simp [ResE]
            · rw [if_neg hipc]
              exact mkConcat_ell hxs
        · simp [ResE]

theorem parseAxis_ell {n : Nat} (t : Token) : ResE (EllP n) (parseAxis t) := by
  unfold parseAxis
  split
  · split <;> simp [ResE, EllP]
  · split <;> simp [ResE, EllP]

theorem ellipsisLit_length : ellipsisLit.length = 3 := by decide

theorem ellToken {n : Nat} {t : Token} (ht : TokenL n t) (htext : (t.text == ellipsisLit) = true) (b : Int) :
    EllR n b (Int.ofNat t.e) := by
  have : t.text = ellipsisLit := by simpa using htext
  have hl := ellipsisLit_length
  unfold TokenL at ht
  rw [this, hl] at ht
  right
  simp only [Int.ofNat_eq_natCast]
  omega

theorem parse_ell (n : Nat) (ts : List Tok) (b e : Nat) (ipc : Bool) :
    (∀ t ∈ ts, TokL n t) → ResE (EllP n) (parse ts b e ipc) := by
  fun_induction parse ts b e ipc with
  | case1 ts b e ipc hs =>
    intro _
    exact mkList_ell (by simp)
  | case2 ts b e ipc o c inner hs ib err heq ih => intro _; simp [ResE]
  | case3 ts b e ipc o c inner hs ib x heq _ _ ih =>
    intro hts
    have hg : TokL n (Tok.group o c inner) := hts _ (mem_strip (by rw [hs]; simp))
    have := ih (tokLL_iff.mp (by simpa only [TokL] using hg))
    rwa [heq] at this
  | case4 ts b e ipc o c inner hs ib x heq _ _ ih =>
    intro hts
    have hg : TokL n (Tok.group o c inner) := hts _ (mem_strip (by rw [hs]; simp))
    have := ih (tokLL_iff.mp (by simpa only [TokL] using hg))
    rw [heq] at this
    exact mkFlat_ell this
  | case5 ts b e ipc o c inner hs ib x heq _ _ ih =>
    intro hts
    have hg : TokL n (Tok.group o c inner) := hts _ (mem_strip (by rw [hs]; simp))
    have := ih (tokLL_iff.mp (by simpa only [TokL] using hg))
    rw [heq] at this
    exact mkBrackets_ell this
  | case6 => intro _; simp [ResE]
  | case7 ts b e ipc t0 rest _ hs ts1 op hop err heq ih => intro _; simp [ResE]
  | case8 ts b e ipc t0 rest _ hs ts1 b1 e1 op hop xs heq ih =>
    intro hts
    have hts1 : ∀ t ∈ ts1, TokL n t := fun t ht => hts t (mem_strip (by rw [hs]; exact ht))
    refine combine_ell ?_
    intro x hx
    obtain ⟨a, _, ha⟩ := mapM_ok_mem _ _ _ heq x hx
    have hsub := operands_sub op ts1 a.1 (mem_keepOperands a.2)
    have := ih a (fun t ht => hts1 t (hsub t ht))
    rwa [ha] at this
  | case9 ts b e ipc t hs _ _ _ _ =>
    intro hts
    have htext : (t.text == ellipsisLit) = true := by assumption
    have ht : TokL n (Tok.atom t) := hts (Tok.atom t) (mem_strip (by rw [hs]; simp))
    simp only [TokL] at ht
    exact mkEllipsis_ell (i := Expr.axis anonName none t.b t.b) (id := t.b) (by simp [EllP]) (ellToken ht htext _)
  | case10 ts b e ipc t hs _ _ _ _ =>
    intro _
    exact parseAxis_ell t
  | case11 ts b e ipc x t hs _ err heq _ _ _ _ ih => intro _; simp [ResE]
  | case12 ts b e ipc x t hs _ operand heq _ _ _ _ ih =>
    intro hts
    have htext : (t.text == ellipsisLit) = true := by assumption
    have hx : TokL n x := hts x (mem_strip (by rw [hs]; simp))
    have ht : TokL n (Tok.atom t) := hts (Tok.atom t) (mem_strip (by rw [hs]; simp))
    simp only [TokL] at ht
    have := ih (by simpa using hx)
    rw [heq] at this
    exact mkEllipsis_ell this (ellToken ht htext _)
  | case13 => intro _; simp [ResE]
  | case14 => intro _; simp [ResE]

/-! ### `move_up`, redundant brackets -/

theorem wrap_ell {n : Nat} (k : Lift) {cs : List Expr} {b e : Int} (hcs : ∀ c ∈ cs, EllP n c) : EllP n (k.wrap cs b e) := by
  cases k <;> exact ellPL_iff.mpr hcs

theorem pick_ell {n : Nat} (idx : Nat) {x : Expr} (h : EllP n x) : EllP n (pick idx x) := by
  have hc := h.children
  unfold pick
  split
  · rename_i c hx
    exact hc c (by rw [hx]; simp)
  · rw [List.getD_eq_getElem?_getD]
    cases hi : x.children[idx]? with
    | none => simpa using emptyList_ell n
    | some y => simpa using hc y (List.mem_of_getElem? hi)

theorem cls_create_ell {n : Nat} (cls : Cls) {cs : List Expr} {b e : Int} (hcs : ∀ c ∈ cs, EllP n c) :
    EllP n (cls.create cs b e) := by
  cases cls
  · exact mkList_ell hcs
  · exact mkConcat_ell hcs
  · exact ellPL_iff.mpr hcs

theorem distribute_ell {n : Nat} (k : Lift) (cls : Cls) {children : List Expr} {b e : Int} {arrows : List Int}
    (hcs : ∀ c ∈ children, EllP n c) : ResE (EllP n) (distribute k cls children b e arrows) := by
  unfold distribute
  dsimp only
  split
  · simp [ResE]
  · simp only [ResE]
    apply wrap_ell k
    intro c hc
    obtain ⟨idx, _, rfl⟩ := List.mem_map.mp hc
    apply cls_create_ell cls
    intro y hy
    obtain ⟨x, hx, rfl⟩ := List.mem_map.mp hy
    exact pick_ell idx (hcs x hx)

theorem flatMap_children_ell {n : Nat} {ch : List Expr} (h : ∀ c ∈ ch, EllP n c) :
    ∀ c ∈ ch.flatMap Expr.children, EllP n c := by
  intro c hc
  obtain ⟨x, hx, hcx⟩ := List.mem_flatMap.mp hc
  exact (h x hx).children c hcx

mutual
theorem moveUp_ell {n : Nat} (k : Lift) (arrows : List Int) :
    ∀ (x : Expr), EllP n x → ResE (EllP n) (moveUp k arrows x)
  | .axis nm v b e, h => by
    simp only [moveUp, ResE]
    exact wrap_ell k (by simp [EllP])
  | .flat i b e, h => by
    simp only [EllP] at h
    have ih := moveUp_ell k arrows i h
    simp only [moveUp]
    cases hm : moveUp k arrows i with
    | error err => simp [ResE]
    | ok o =>
      rw [hm] at ih
      simp only [ResE] at ih ⊢
      apply wrap_ell k
      intro c hc
      obtain ⟨a, ha', rfl⟩ := List.mem_map.mp hc
      exact mkFlat_ell (ih.children a ha')
  | .brackets i b e, h => by
    simp only [EllP] at h
    have ih := moveUp_ell k arrows i h
    simp only [moveUp]
    cases hm : moveUp k arrows i with
    | error err => simp [ResE]
    | ok o =>
      rw [hm] at ih
      simp only [ResE] at ih ⊢
      apply wrap_ell k
      intro c hc
      obtain ⟨a, ha', rfl⟩ := List.mem_map.mp hc
      exact mkBrackets_ell (ih.children a ha')
  | .ellipsis i id b e, h => by
    simp only [EllP] at h
    have ih := moveUp_ell k arrows i h.2
    simp only [moveUp]
    cases hm : moveUp k arrows i with
    | error err => simp [ResE]
    | ok o =>
      rw [hm] at ih
      simp only [ResE] at ih ⊢
      apply wrap_ell k
      intro c hc
      obtain ⟨a, ha', rfl⟩ := List.mem_map.mp hc
      exact mkEllipsis_ell (ih.children a ha') h.1
  | .list cs b e, h => by
    simp only [EllP] at h
    have ih := moveUpL_ell k arrows cs h
    simp only [moveUp]
    cases hm : moveUpL k arrows cs with
    | error err => simp [ResE]
    | ok ch => rw [hm] at ih; exact distribute_ell k .list ih
  | .concat cs b e, h => by
    simp only [EllP] at h
    have ih := moveUpL_ell k arrows cs h
    simp only [moveUp]
    cases hm : moveUpL k arrows cs with
    | error err => simp [ResE]
    | ok ch => rw [hm] at ih; exact distribute_ell k .concat ih
  | .args cs b e, h => by
    simp only [EllP] at h
    have ih := moveUpL_ell k arrows cs h
    simp only [moveUp]
    cases hm : moveUpL k arrows cs with
    | error err => simp [ResE]
    | ok ch =>
      rw [hm] at ih
      cases k with
      | op => exact distribute_ell .op .args ih
      | args => exact ellPL_iff.mpr (flatMap_children_ell ih)
  | .op cs b e, h => by
    simp only [EllP] at h
    cases k with
    | args => simp [moveUp, ResE]
    | op =>
      have ih := moveUpL_ell .op arrows cs h
      simp only [moveUp]
      cases hm : moveUpL .op arrows cs with
      | error err => simp [ResE]
      | ok ch =>
        rw [hm] at ih
        exact ellPL_iff.mpr (flatMap_children_ell ih)
theorem moveUpL_ell {n : Nat} (k : Lift) (arrows : List Int) :
    ∀ (cs : List Expr), EllPL n cs → ResE (fun r => ∀ c ∈ r, EllP n c) (moveUpL k arrows cs)
  | [], _ => by simp [moveUpL, ResE]
  | c :: cs, h => by
    simp only [EllPL] at h
    have ih1 := moveUp_ell k arrows c h.1
    have ih2 := moveUpL_ell k arrows cs h.2
    simp only [moveUpL]
    cases hm : moveUp k arrows c with
    | error err => simp [ResE]
    | ok x =>
      rw [hm] at ih1
      cases hl : moveUpL k arrows cs with
      | error err => simp [ResE]
      | ok xs =>
        rw [hl] at ih2
        simp only [ResE] at ih1 ih2 ⊢
        intro y hy
        rcases List.mem_cons.mp hy with hy | hy
        · subst hy; exact ih1
        · exact ih2 y hy
end

mutual
theorem traverse_ell {n : Nat} (inBr : Bool) : ∀ (x : Expr), EllP n x → EllP n (traverse inBr x)
  | .axis .., h => by simp [traverse, EllP]
  | .flat i b e, h => by
    simp only [EllP] at h
    simp only [traverse]
    exact mkFlat_ell (traverse_ell inBr i h)
  | .list cs b e, h => by
    simp only [EllP] at h
    simp only [traverse]
    exact mkList_ell (traverseL_ell inBr cs h)
  | .concat cs b e, h => by
    simp only [EllP] at h
    simp only [traverse]
    exact mkConcat_ell (traverseL_ell inBr cs h)
  | .brackets i b e, h => by
    simp only [EllP] at h
    simp only [traverse]
    split
    · exact traverse_ell true i h
    · exact mkBrackets_ell (traverse_ell true i h)
  | .ellipsis i id b e, h => by
    simp only [EllP] at h
    simp only [traverse]
    exact mkEllipsis_ell (traverse_ell inBr i h.2) h.1
  | .op cs b e, h => by
    simp only [EllP] at h
    simp only [traverse, EllP]
    exact ellPL_iff.mpr (traverseL_ell inBr cs h)
  | .args cs b e, h => by
    simp only [EllP] at h
    simp only [traverse, EllP]
    exact ellPL_iff.mpr (traverseL_ell inBr cs h)
theorem traverseL_ell {n : Nat} (inBr : Bool) : ∀ (cs : List Expr), EllPL n cs → ∀ c ∈ traverseL inBr cs, EllP n c
  | [], _ => by simp [traverseL]
  | x :: xs, h => by
    simp only [EllPL] at h
    simp only [traverseL, List.mem_cons]
    intro c hc
    rcases hc with hc | hc
    · subst hc; exact traverse_ell inBr x h.1
    · exact traverseL_ell inBr xs h.2 c hc
end

theorem checkBrackets_ell {n : Nat} {x : Expr} (h : EllP n x) : ResE (EllP n) (checkBrackets x) := by
  unfold checkBrackets
  dsimp only
  split
  · exact h
  · simp [ResE]

/-- Every ellipsis node of a tree returned by `parse_op` is at the default position or ends with a `...` inside the string. -/
theorem parseOp_ell (text : Str) : ResE (EllP text.length) (parseOp text) := by
  unfold parseOp
  cases hl : lex text with
  | error err => simp [ResE]
  | ok toks =>
    have hlex := lex_len text toks hl
    have hbt := buildTree_len text.length (dedupSpaces toks false) [] []
      (fun t ht => hlex t (mem_dedupSpaces ht)) (by simp) (by simp [TokLL])
    simp only
    cases hb : buildTree (dedupSpaces toks false) [] [] with
    | error err => simp [ResE]
    | ok tree =>
      rw [hb] at hbt
      simp only [ResE] at hbt
      have hp := parse_ell text.length tree 0 (lastEnd tree 0) false (tokLL_iff.mp hbt)
      simp only
      cases hpa : parse tree 0 (lastEnd tree 0) false with
      | error err => simp [ResE]
      | ok x =>
        rw [hpa] at hp
        simp only [ResE] at hp
        have hm := moveUp_ell (n := text.length) .op (posForLiteral (lit "->") text 0) x hp
        simp only
        cases hmu : moveUp .op (posForLiteral (lit "->") text 0) x with
        | error err => simp [ResE]
        | ok x1 =>
          rw [hmu] at hm
          simp only [ResE] at hm
          simp only
          cases x1 with
          | op cs b e =>
            simp only [EllP] at hm
            have hm2 := moveUpL_ell (n := text.length) .args (posForLiteral (lit "->") text 0) cs hm
            simp only
            cases hmu2 : moveUpL .args (posForLiteral (lit "->") text 0) cs with
            | error err => simp [ResE]
            | ok cs2 =>
              rw [hmu2] at hm2
              simp only [ResE] at hm2
              have ht := traverse_ell (n := text.length) false (.op cs2 b e) (by simpa only [EllP] using ellPL_iff.mpr hm2)
              simp only
              split
              · simp [ResE]
              · exact checkBrackets_ell ht
          | _ => simp [ResE]

/-! ### From the invariant to the decidable hypothesis of `indicator_ellipses_in_range_partial` -/

mutual
theorem ellNodes_of_EllP {n : Nat} : ∀ (x : Expr), EllP n x → ∀ y ∈ nodes x, ellNodeOK n y = true
  | .axis .., _ => by simp [nodes, ellNodeOK]
  | .flat i _ _, h => by
    simp only [EllP] at h
    simp only [nodes, List.mem_cons]
    intro y hy
    rcases hy with hy | hy
    · subst hy; simp [ellNodeOK]
    · exact ellNodes_of_EllP i h y hy
  | .brackets i _ _, h => by
    simp only [EllP] at h
    simp only [nodes, List.mem_cons]
    intro y hy
    rcases hy with hy | hy
    · subst hy; simp [ellNodeOK]
    · exact ellNodes_of_EllP i h y hy
  | .ellipsis i _ b e, h => by
    simp only [EllP] at h
    simp only [nodes, List.mem_cons]
    intro y hy
    rcases hy with hy | hy
    · subst hy
      simp only [ellNodeOK, Bool.or_eq_true, Bool.and_eq_true, decide_eq_true_eq]
      exact h.1
    · exact ellNodes_of_EllP i h.2 y hy
  | .concat cs _ _, h => by
    simp only [EllP] at h
    simp only [nodes, List.mem_cons]
    intro y hy
    rcases hy with hy | hy
    · subst hy; simp [ellNodeOK]
    · exact ellNodesL_of_EllPL cs h y hy
  | .list cs _ _, h => by
    simp only [EllP] at h
    simp only [nodes, List.mem_cons]
    intro y hy
    rcases hy with hy | hy
    · subst hy; simp [ellNodeOK]
    · exact ellNodesL_of_EllPL cs h y hy
  | .args cs _ _, h => by
    simp only [EllP] at h
    simp only [nodes, List.mem_cons]
    intro y hy
    rcases hy with hy | hy
    · subst hy; simp [ellNodeOK]
    · exact ellNodesL_of_EllPL cs h y hy
  | .op cs _ _, h => by
    simp only [EllP] at h
    simp only [nodes, List.mem_cons]
    intro y hy
    rcases hy with hy | hy
    · subst hy; simp [ellNodeOK]
    · exact ellNodesL_of_EllPL cs h y hy
theorem ellNodesL_of_EllPL {n : Nat} : ∀ (cs : List Expr), EllPL n cs → ∀ y ∈ nodesL cs, ellNodeOK n y = true
  | [], _ => by simp [nodesL]
  | c :: cs, h => by
    simp only [EllPL] at h
    simp only [nodesL, List.mem_append]
    intro y hy
    rcases hy with hy | hy
    · exact ellNodes_of_EllP c h.1 y hy
    · exact ellNodesL_of_EllPL cs h.2 y hy
end

theorem ellOK_of_EllP {n : Nat} {x : Expr} (h : EllP n x) : ellOK n x = true := by
  simp only [ellOK, List.all_eq_true]
  exact ellNodes_of_EllP x h

/-! ### Sub-expressions and `_parse_op`'s rewrites keep the invariant -/

mutual
theorem nodes_ell {n : Nat} : ∀ (x : Expr), EllP n x → ∀ y ∈ nodes x, EllP n y
  | .axis .., h => by simp only [nodes, List.mem_singleton]; intro y hy; subst hy; exact h
  | .flat i b e, h => by
    simp only [nodes, List.mem_cons]
    intro y hy
    rcases hy with hy | hy
    · subst hy; exact h
    · exact nodes_ell i (by simpa only [EllP] using h) y hy
  | .brackets i b e, h => by
    simp only [nodes, List.mem_cons]
    intro y hy
    rcases hy with hy | hy
    · subst hy; exact h
    · exact nodes_ell i (by simpa only [EllP] using h) y hy
  | .ellipsis i id b e, h => by
    simp only [nodes, List.mem_cons]
    intro y hy
    rcases hy with hy | hy
    · subst hy; exact h
    · exact nodes_ell i (by simp only [EllP] at h; exact h.2) y hy
  | .concat cs b e, h => by
    simp only [nodes, List.mem_cons]
    intro y hy
    rcases hy with hy | hy
    · subst hy; exact h
    · exact nodesL_ell cs (by simpa only [EllP] using h) y hy
  | .list cs b e, h => by
    simp only [nodes, List.mem_cons]
    intro y hy
    rcases hy with hy | hy
    · subst hy; exact h
    · exact nodesL_ell cs (by simpa only [EllP] using h) y hy
  | .args cs b e, h => by
    simp only [nodes, List.mem_cons]
    intro y hy
    rcases hy with hy | hy
    · subst hy; exact h
    · exact nodesL_ell cs (by simpa only [EllP] using h) y hy
  | .op cs b e, h => by
    simp only [nodes, List.mem_cons]
    intro y hy
    rcases hy with hy | hy
    · subst hy; exact h
    · exact nodesL_ell cs (by simpa only [EllP] using h) y hy
theorem nodesL_ell {n : Nat} : ∀ (cs : List Expr), EllPL n cs → ∀ y ∈ nodesL cs, EllP n y
  | [], _ => by simp [nodesL]
  | c :: cs, h => by
    simp only [nodesL, List.mem_append]
    simp only [EllPL] at h
    intro y hy
    rcases hy with hy | hy
    · exact nodes_ell c h.1 y hy
    · exact nodesL_ell cs h.2 y hy
end

mutual
theorem mapExpr_ell {n : Nat} (f : Expr → Option Expr) (hf : ∀ y z, f y = some z → EllP n z) :
    ∀ (x : Expr), EllP n x → EllP n (mapExpr f x)
  | .axis nm v b e, h => by
    simp only [mapExpr]
    split
    · rename_i y hy; exact hf _ y hy
    · exact h
  | .flat i b e, h => by
    simp only [mapExpr]
    split
    · rename_i y hy; exact hf _ y hy
    · exact mkFlat_ell (mapExpr_ell f hf i (by simpa only [EllP] using h))
  | .brackets i b e, h => by
    simp only [mapExpr]
    split
    · rename_i y hy; exact hf _ y hy
    · exact mkBrackets_ell (mapExpr_ell f hf i (by simpa only [EllP] using h))
  | .ellipsis i id b e, h => by
    simp only [mapExpr]
    split
    · rename_i y hy; exact hf _ y hy
    · simp only [EllP] at h
      exact mkEllipsis_ell (mapExpr_ell f hf i h.2) h.1
  | .concat cs b e, h => by
    simp only [mapExpr]
    split
    · rename_i y hy; exact hf _ y hy
    · exact mkConcat_ell (mapExprL_ell f hf cs (by simpa only [EllP] using h))
  | .list cs b e, h => by
    simp only [mapExpr]
    split
    · rename_i y hy; exact hf _ y hy
    · exact mkList_ell (mapExprL_ell f hf cs (by simpa only [EllP] using h))
  | .args cs b e, h => by
    simp only [mapExpr]
    split
    · rename_i y hy; exact hf _ y hy
    · simp only [EllP]
      exact ellPL_iff.mpr (mapExprL_ell f hf cs (by simpa only [EllP] using h))
  | .op cs b e, h => by
    simp only [mapExpr]
    split
    · rename_i y hy; exact hf _ y hy
    · simp only [EllP]
      exact ellPL_iff.mpr (mapExprL_ell f hf cs (by simpa only [EllP] using h))
theorem mapExprL_ell {n : Nat} (f : Expr → Option Expr) (hf : ∀ y z, f y = some z → EllP n z) :
    ∀ (cs : List Expr), EllPL n cs → ∀ c ∈ mapExprL f cs, EllP n c
  | [], _ => by simp [mapExprL]
  | x :: xs, h => by
    simp only [mapExprL, List.mem_cons]
    simp only [EllPL] at h
    intro c hc
    rcases hc with hc | hc
    · subst hc; exact mapExpr_ell f hf x h.1
    · exact mapExprL_ell f hf xs h.2 c hc
end

theorem removeBrackets_ell {n : Nat} {x : Expr} (h : EllP n x) : EllP n (removeBrackets x) := by
  apply mapExpr_ell _ _ x h
  intro y z hyz
  cases y <;> simp at hyz
  subst hyz
  exact emptyList_ell n

theorem toOutput_ell {n : Nat} {x : Expr} (h : EllP n x) : EllP n (toOutput x) := by
  apply mapExpr_ell _ _ x h
  intro y z hyz
  cases y <;> simp at hyz
  subst hyz
  exact mkBrackets_ell (by simp [EllP])

theorem markAxes_ell {n : Nat} (outNames : List Str) {x : Expr} (h : EllP n x) : EllP n (markAxes outNames x) := by
  apply mapExpr_ell _ _ x h
  intro y z hyz
  cases y <;> simp at hyz
  obtain ⟨_, hyz⟩ := hyz
  subst hyz
  simp [EllP]

end Einx.Errors
