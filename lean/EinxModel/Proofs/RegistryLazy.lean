import EinxModel.Proofs.RegistryOrder
/-!
Helper lemmas for the lazy-registration part of C11: `_check_new_imports`, the effective state `flush`,
well-formedness of reachable worlds, and a lookup in a state with waiting factories.
-/
namespace Einx.Registry

/-! ### `_check_new_imports` -/

theorem checkNewImports_true (cfg : Cfg) (s : State) (mods : List String) :
    s.checkNewImports cfg mods true = (s, false, true) := rfl

theorem checkNewImports_unchanged (cfg : Cfg) (s : State) (mods : List String) (ch : Bool)
    (h : (s.checkNewImports cfg mods ch).2.1 = false) : (s.checkNewImports cfg mods ch).1 = s := by
  unfold State.checkNewImports at h ⊢
  cases ch with
  | true => rfl
  | false =>
    by_cases hnew : (mods.filter (fun m => !s.seen.contains m)).isEmpty = true
    · simp only [Bool.false_eq_true, ↓reduceIte, hnew]
    · simp only [Bool.false_eq_true, ↓reduceIte, hnew] at h
      exact absurd h (by simp)

theorem checkNewImports_checked (cfg : Cfg) (s : State) (mods : List String) (ch : Bool) :
    (s.checkNewImports cfg mods ch).2.2 = true := by
  unfold State.checkNewImports
  split
  · rfl
  · dsimp only; split <;> rfl

theorem dictGet_filter_ne {β} (m k : String) : ∀ (d : List (String × β)),
    dictGet (d.filter (·.1 != m)) k = if k = m then none else dictGet d k
  | [] => by simp [dictGet_nil]
  | kv :: d => by
    have ih := dictGet_filter_ne m k d
    by_cases h1 : kv.1 = m
    · have : (kv.1 != m) = false := by simp [h1]
      rw [List.filter_cons, this, dictGet_cons]
      simp only [Bool.false_eq_true, ↓reduceIte]
      rw [ih]
      by_cases h2 : k = m
      · simp [h2]
      · have : ¬ kv.1 = k := fun e => h2 (e.symm.trans h1)
        simp [h2, this]
    · have : (kv.1 != m) = true := by simp [h1]
      rw [List.filter_cons, this, dictGet_cons]
      simp only [↓reduceIte]
      rw [dictGet_cons, ih]
      by_cases h3 : kv.1 = k
      · have : ¬ k = m := fun e => h1 (h3.trans e)
        simp [h3, this]
      · simp [h3]

theorem foldl_runFactory_fields (cfg : Cfg) : ∀ (fs : List Factory) (s : State),
    (fs.foldl (fun s f => s.runFactory cfg f) s).uninit = s.uninit ∧
    (fs.foldl (fun s f => s.runFactory cfg f) s).stack = s.stack ∧
    (fs.foldl (fun s f => s.runFactory cfg f) s).seen = s.seen
  | [], _ => ⟨rfl, rfl, rfl⟩
  | f :: fs, s => by
    obtain ⟨h1, h2, h3⟩ := foldl_runFactory_fields cfg fs (s.runFactory cfg f)
    exact ⟨h1, h2, h3⟩

theorem seeModule_fields (cfg : Cfg) (s : State) (m : String) :
    (s.seeModule cfg m).stack = s.stack ∧ (s.seeModule cfg m).seen = s.seen ++ [m] ∧
    ∀ k, dictGet (s.seeModule cfg m).uninit k = if k = m then none else dictGet s.uninit k := by
  unfold State.seeModule
  dsimp only
  cases hd : dictGet s.uninit m with
  | none =>
    refine ⟨rfl, rfl, fun k => ?_⟩
    by_cases h : k = m
    · simp [h, hd]
    · simp [h]
  | some fs =>
    obtain ⟨h1, h2, h3⟩ := foldl_runFactory_fields cfg fs { s with seen := s.seen ++ [m] }
    refine ⟨h2, h3, fun k => ?_⟩
    simp only [dictGet_filter_ne, h1]

theorem foldl_seeModule_fields (cfg : Cfg) : ∀ (ms : List String) (s : State),
    (ms.foldl (fun s m => s.seeModule cfg m) s).stack = s.stack ∧
    (ms.foldl (fun s m => s.seeModule cfg m) s).seen = s.seen ++ ms ∧
    ∀ k, dictGet (ms.foldl (fun s m => s.seeModule cfg m) s).uninit k = if k ∈ ms then none else dictGet s.uninit k
  | [], s => by simp
  | m :: ms, s => by
    obtain ⟨h1, h2, h3⟩ := foldl_seeModule_fields cfg ms (s.seeModule cfg m)
    obtain ⟨g1, g2, g3⟩ := seeModule_fields cfg s m
    refine ⟨by rw [List.foldl_cons, h1, g1], by rw [List.foldl_cons, h2, g2]; simp, fun k => ?_⟩
    rw [List.foldl_cons, h3, g3]
    by_cases hk : k = m
    · simp [hk]
    · by_cases hk' : k ∈ ms <;> simp [hk, hk']

/-! ### the effective state -/

theorem flush_stack (cfg : Cfg) (s : State) (mods : List String) : (s.flush cfg mods).stack = s.stack := by
  unfold State.flush State.checkNewImports
  simp only [Bool.false_eq_true, ↓reduceIte]
  split
  · rfl
  · exact (foldl_seeModule_fields cfg _ s).1

/-- After the import check every imported module is seen and has no waiting factory. -/
theorem flush_quiet (cfg : Cfg) (s : State) (mods : List String)
    (wf : ∀ m ∈ s.seen, dictGet s.uninit m = none) : Quiet (s.flush cfg mods) mods := by
  intro m hm
  unfold State.flush State.checkNewImports
  simp only [Bool.false_eq_true, ↓reduceIte]
  split
  · rename_i hnew
    apply wf
    have : ∀ x ∈ mods, s.seen.contains x = true := by simpa [List.filter_eq_nil_iff] using hnew
    simpa using this m hm
  · rw [(foldl_seeModule_fields cfg _ s).2.2 m]
    by_cases hs : m ∈ s.seen
    · split
      · rfl
      · exact wf m hs
    · have : m ∈ (mods.filter (fun m => !s.seen.contains m)).eraseDups := by
        rw [List.mem_eraseDups, List.mem_filter]; exact ⟨hm, by simpa using hs⟩
      rw [if_pos this]

theorem flush_of_quiet (cfg : Cfg) (s : State) (mods : List String) (q : Quiet s mods) :
    Same s (s.flush cfg mods) ∧ (s.flush cfg mods).memo = s.memo := checkNewImports_quiet cfg s mods false q

/-! ### a lookup in a state with waiting factories -/

theorem getByName_pending (cfg : Cfg) (s : State) (mods : List String) (n : String)
    (hstab : ∀ b, dictGet s.names n = some b → dictGet (s.flush cfg mods).names n = some b) :
    match s.getByName cfg mods false n with
    | .ok (_, b, _) => dictGet (s.flush cfg mods).names n = some b
    | .error e => e = .value ∧ dictGet (s.flush cfg mods).names n = none := by
  unfold State.getByName
  cases hd : dictGet s.names n with
  | some b => exact hstab b hd
  | none =>
    have hun := checkNewImports_unchanged cfg s mods false
    have he : s.flush cfg mods = (s.checkNewImports cfg mods false).1 := rfl
    generalize s.checkNewImports cfg mods false = r at hun he
    obtain ⟨s', changed, ch'⟩ := r
    simp only at hun he ⊢
    rw [he]
    cases changed with
    | false =>
      simp only [Bool.not_false, ↓reduceIte, true_and]
      rw [hun rfl]; exact hd
    | true =>
      simp only [Bool.not_true, Bool.false_eq_true, ↓reduceIte]
      cases hd' : dictGet s'.names n with
      | some b => rfl
      | none => exact ⟨rfl, rfl⟩

/-- Where the candidate loop of `_get_by_tensors` can be: still in the original state (no import check yet),
or in the effective state (import check done). -/
def LoopAt (cfg : Cfg) (s : State) (mods : List String) (cur : State) (ch : Bool) : Prop :=
  (cur = s ∧ ch = false) ∨ (cur = s.flush cfg mods ∧ ch = true)

theorem getByTensor_pending (cfg : Cfg) (s : State) (mods : List String) (ty : Nat)
    (hty : supporting s.backends ty ≠ [] → supporting (s.flush cfg mods).backends ty = supporting s.backends ty)
    (cur : State) (ch : Bool) (at_ : LoopAt cfg s mods cur ch) :
    LoopAt cfg s mods (cur.getByTensor cfg mods ch ty).1 (cur.getByTensor cfg mods ch ty).2.2 ∧
      (cur.getByTensor cfg mods ch ty).2.1 = supporting (s.flush cfg mods).backends ty := by
  rcases at_ with ⟨rfl, rfl⟩ | ⟨rfl, rfl⟩
  · unfold State.getByTensor
    by_cases hb : (supporting cur.backends ty).isEmpty = true
    · have hnil : supporting cur.backends ty = [] := by simpa using hb
      have hun := checkNewImports_unchanged cfg cur mods false
      have hck := checkNewImports_checked cfg cur mods false
      have he : cur.flush cfg mods = (cur.checkNewImports cfg mods false).1 := rfl
      simp only [hb, Bool.not_true, Bool.false_eq_true, ↓reduceIte]
      generalize cur.checkNewImports cfg mods false = r at hun hck he
      obtain ⟨s', changed, ch'⟩ := r
      simp only at hun hck he ⊢
      subst hck
      cases changed with
      | true => simp only [↓reduceIte]; exact ⟨Or.inr ⟨he.symm, rfl⟩, by rw [he]⟩
      | false =>
        simp only [Bool.false_eq_true, ↓reduceIte]
        refine ⟨Or.inr ⟨he.symm, rfl⟩, ?_⟩
        rw [he, hun rfl, hnil]
    · have hne : supporting cur.backends ty ≠ [] := by simpa using hb
      simp only [hb, Bool.not_false, ↓reduceIte]
      exact ⟨Or.inl ⟨rfl, rfl⟩, (hty hne).symm⟩
  · unfold State.getByTensor
    by_cases hb : (supporting (s.flush cfg mods).backends ty).isEmpty = true
    · have hnil : supporting (s.flush cfg mods).backends ty = [] := by simpa using hb
      simp only [hb, Bool.not_true, Bool.false_eq_true, ↓reduceIte, checkNewImports_true]
      exact ⟨Or.inr ⟨rfl, rfl⟩, hnil.symm⟩
    · simp only [hb, Bool.not_false, ↓reduceIte]
      exact ⟨Or.inr ⟨rfl, rfl⟩, trivial⟩

theorem fold_pending (cfg : Cfg) (s : State) (mods : List String) :
    ∀ (tys : List Nat),
      (∀ ty ∈ tys, supporting s.backends ty ≠ [] →
        supporting (s.flush cfg mods).backends ty = supporting s.backends ty) →
      ∀ (cur : State) (acc : List Backend) (ch : Bool), LoopAt cfg s mods cur ch →
      let r := tys.foldl
        (fun (a : State × List Backend × Bool) ty =>
          let (s, cs, ch) := a
          let (s', bs, ch') := s.getByTensor cfg mods ch ty
          (s', unionByUid cs bs, ch')) (cur, acc, ch)
      LoopAt cfg s mods r.1 r.2.2 ∧
        r.2.1 = tys.foldl (fun acc ty => unionByUid acc (supporting (s.flush cfg mods).backends ty)) acc
  | [], _, _, _, _, at_ => ⟨at_, rfl⟩
  | ty :: tys, hty, cur, acc, ch, at_ => by
    simp only [List.foldl_cons]
    have h1 := getByTensor_pending cfg s mods ty (hty ty (List.mem_cons_self ..)) cur ch at_
    generalize cur.getByTensor cfg mods ch ty = r at h1
    obtain ⟨s', bs, ch'⟩ := r
    simp only at h1 ⊢
    obtain ⟨h1a, h1b⟩ := h1
    subst h1b
    exact fold_pending cfg s mods tys (fun t ht => hty t (List.mem_cons_of_mem _ ht)) s' _ ch' h1a

theorem getByName_loopAt (cfg : Cfg) (s : State) (mods : List String) (n : String)
    (wf : ∀ m ∈ s.seen, dictGet s.uninit m = none)
    (hstab : ∀ b, dictGet s.names n = some b → dictGet (s.flush cfg mods).names n = some b)
    (cur : State) (ch : Bool) (at_ : LoopAt cfg s mods cur ch) :
    match cur.getByName cfg mods false n with
    | .ok (_, b, _) => dictGet (s.flush cfg mods).names n = some b
    | .error e => e = .value ∧ dictGet (s.flush cfg mods).names n = none := by
  rcases at_ with ⟨rfl, rfl⟩ | ⟨rfl, rfl⟩
  · exact getByName_pending cfg cur mods n hstab
  · have hq := getByName_quiet cfg (s.flush cfg mods) mods false n (flush_quiet cfg s mods wf)
    cases hd : dictGet (s.flush cfg mods).names n with
    | some b => rw [hq.1 b hd]
    | none => rw [hq.2 hd]; exact ⟨rfl, rfl⟩

theorem exists_key_of_dictGet {β} (k : String) (v : β) : ∀ (d : List (String × β)), dictGet d k = some v → ∃ kv ∈ d, kv.1 = k
  | [], h => by simp [dictGet_nil] at h
  | kv :: d, h => by
    rw [dictGet_cons] at h
    by_cases h1 : kv.1 = k
    · exact ⟨kv, List.mem_cons_self .., h1⟩
    · rw [if_neg h1] at h
      obtain ⟨kv', hm, hk⟩ := exists_key_of_dictGet k v d h
      exact ⟨kv', List.mem_cons_of_mem _ hm, hk⟩

theorem LazyDiscipline.names' {cfg : Cfg} {s : State} {mods : List String} {tys : List Nat}
    (d : LazyDiscipline cfg s mods tys) (n : String) (b : Backend) (h : dictGet s.names n = some b) :
    dictGet (s.flush cfg mods).names n = some b := by
  obtain ⟨kv, hm, rfl⟩ := exists_key_of_dictGet n b s.names h
  rw [d.names kv hm, h]

/-- `_get_by_tensors` under the discipline: the candidates are those of the effective state. -/
theorem getByTensors_pending (cfg : Cfg) (s : State) (mods : List String) (tys : List Nat)
    (wf : ∀ m ∈ s.seen, dictGet s.uninit m = none) (d : LazyDiscipline cfg s mods tys) :
    match s.getByTensors cfg mods false tys with
    | .ok (_, l) => l = select (s.flush cfg mods) tys ∧
        ¬ (tys.all isScalarTy = true ∧ dictGet (s.flush cfg mods).names "numpy" = none)
    | .error err => err = .value ∧ tys.all isScalarTy = true ∧ dictGet (s.flush cfg mods).names "numpy" = none := by
  unfold State.getByTensors
  cases hfind : s.memo.find? (·.1 == tys) with
  | some en =>
    obtain ⟨tys', b⟩ := en
    have hm := find_memo hfind
    have hsel := d.memo _ hm.1 hm.2
    simp only at hsel ⊢
    refine ⟨hsel.symm, fun h => ?_⟩
    simp [select, candidates, h.1, h.2, keepMax] at hsel
  | none =>
    have hf := fold_pending cfg s mods tys d.types s [] false (Or.inl ⟨rfl, rfl⟩)
    generalize tys.foldl
      (fun (a : State × List Backend × Bool) ty =>
        let (s, cs, ch) := a
        let (s', bs, ch') := s.getByTensor cfg mods ch ty
        (s', unionByUid cs bs, ch')) (s, [], false) = r at hf
    obtain ⟨s1, cands, ch1⟩ := r
    simp only at hf ⊢
    by_cases hsc : tys.all isScalarTy = true
    · have hn := getByName_loopAt cfg s mods "numpy" wf (d.names' "numpy") s1 ch1 hf.1
      simp only [hsc, ↓reduceIte]
      cases hg : s1.getByName cfg mods false "numpy" with
      | error e =>
        rw [hg] at hn
        exact ⟨hn.1, trivial, hn.2⟩
      | ok r =>
        obtain ⟨s2, b, ch2⟩ := r
        rw [hg] at hn
        simp only at hn
        have hsel : select (s.flush cfg mods) tys = [b] := by simp [select, candidates, hsc, hn, keepMax]
        have hk : keepMax [b] = [b] := by simp [keepMax]
        simp only [hk]
        exact ⟨hsel.symm, fun h => by rw [h.2] at hn; cases hn⟩
    · have hsel : select (s.flush cfg mods) tys = keepMax cands := by
        simp [select, candidates, hsc, hf.2]
      simp only [hsc, Bool.false_eq_true, ↓reduceIte]
      rw [← hsel]
      cases hk : select (s.flush cfg mods) tys with
      | nil => exact ⟨rfl, fun h => h.1⟩
      | cons b rest =>
        cases rest with
        | nil => exact ⟨rfl, fun h => h.1⟩
        | cons c rest' => exact ⟨rfl, fun h => h.1⟩

/-- `_get` under the discipline returns what the specification says about the effective state. -/
theorem get_pending (cfg : Cfg) (s : State) (mods : List String) (arg : BackendArg) (tys : List Nat)
    (wf : ∀ m ∈ s.seen, dictGet s.uninit m = none) (d : LazyDiscipline cfg s mods tys) :
    (s.get cfg mods arg tys).map (·.2) = specGet (s.flush cfg mods) arg tys := by
  cases arg with
  | obj b => rfl
  | name n =>
    have hn := getByName_pending cfg s mods n (d.names' n)
    simp only [State.get, specGet]
    cases hg : s.getByName cfg mods false n with
    | error e => rw [hg] at hn; simp [Except.map, hn.1, hn.2]
    | ok r => obtain ⟨s', b, ch⟩ := r; rw [hg] at hn; simp only at hn; simp [Except.map, hn]
  | other =>
    simp only [State.get, specGet, flush_stack]
    cases s.stack.getLast? <;> simp [Except.map]
  | none =>
    simp only [State.get, specGet, flush_stack]
    cases s.stack.getLast? with
    | some b => simp [Except.map]
    | none =>
      have hg := getByTensors_pending cfg s mods tys wf d
      simp only [bne_self_eq_false, Bool.false_eq_true, ↓reduceIte]
      cases hr : s.getByTensors cfg mods false tys with
      | error e =>
        rw [hr] at hg
        simp [Except.map, hg.1, hg.2.1, hg.2.2]
      | ok r =>
        obtain ⟨s', l⟩ := r
        rw [hr] at hg
        simp only at hg
        have hcond : (tys.all isScalarTy && (dictGet (s.flush cfg mods).names "numpy").isNone) = false := by
          cases h1 : tys.all isScalarTy with
          | false => rfl
          | true =>
            cases h2 : dictGet (s.flush cfg mods).names "numpy" with
            | some _ => rfl
            | none => exact absurd ⟨h1, h2⟩ hg.2
        rw [hcond, ← hg.1]
        match l with
        | [] => rfl
        | [b] => rfl
        | _ :: _ :: _ => rfl

/-! ### well-formedness of reachable worlds -/

/-- Seen modules are imported and have no waiting factory. -/
def WFs (s : State) (mods : List String) : Prop :=
  (∀ m ∈ s.seen, m ∈ mods) ∧ ∀ m ∈ s.seen, dictGet s.uninit m = none

theorem wfs_congr {s t : State} {mods : List String} (h1 : t.seen = s.seen) (h2 : t.uninit = s.uninit)
    (h : WFs s mods) : WFs t mods := by
  unfold WFs; rw [h1, h2]; exact h

theorem wfs_seeModule (cfg : Cfg) {s : State} {mods : List String} (m : String) (hm : m ∈ mods)
    (h : WFs s mods) : WFs (s.seeModule cfg m) mods := by
  obtain ⟨_, g2, g3⟩ := seeModule_fields cfg s m
  unfold WFs
  rw [g2]
  refine ⟨fun k hk => ?_, fun k hk => ?_⟩
  · rcases List.mem_append.1 hk with hk | hk
    · exact h.1 k hk
    · rw [List.mem_singleton.1 hk]; exact hm
  · rw [g3]
    by_cases hkm : k = m
    · rw [if_pos hkm]
    · rw [if_neg hkm]
      rcases List.mem_append.1 hk with hk | hk
      · exact h.2 k hk
      · exact absurd (List.mem_singleton.1 hk) hkm

theorem wfs_foldl_seeModule (cfg : Cfg) {mods : List String} : ∀ (ms : List String) (s : State),
    (∀ m ∈ ms, m ∈ mods) → WFs s mods → WFs (ms.foldl (fun s m => s.seeModule cfg m) s) mods
  | [], _, _, h => h
  | m :: ms, s, hms, h => by
    rw [List.foldl_cons]
    exact wfs_foldl_seeModule cfg ms _ (fun k hk => hms k (List.mem_cons_of_mem _ hk))
      (wfs_seeModule cfg m (hms m (List.mem_cons_self ..)) h)

theorem wfs_checkNewImports (cfg : Cfg) {s : State} {mods : List String} (ch : Bool) (h : WFs s mods) :
    WFs (s.checkNewImports cfg mods ch).1 mods := by
  unfold State.checkNewImports
  split
  · exact h
  · dsimp only
    split
    · exact h
    · apply wfs_foldl_seeModule cfg _ _ _ h
      intro m hm
      exact (List.mem_filter.1 (List.mem_eraseDups.1 hm)).1

theorem wfs_getByTensor (cfg : Cfg) {s : State} {mods : List String} (ch : Bool) (ty : Nat) (h : WFs s mods) :
    WFs (s.getByTensor cfg mods ch ty).1 mods := by
  have hc := wfs_checkNewImports cfg ch h
  unfold State.getByTensor
  dsimp only
  split
  · exact h
  · generalize s.checkNewImports cfg mods ch = r at hc
    obtain ⟨s', changed, ch'⟩ := r
    dsimp only at hc ⊢
    split <;> exact hc

theorem wfs_getByName (cfg : Cfg) {s : State} {mods : List String} (ch : Bool) (n : String) (h : WFs s mods)
    {s' : State} {b : Backend} {ch' : Bool} (hg : s.getByName cfg mods ch n = .ok (s', b, ch')) : WFs s' mods := by
  have hc := wfs_checkNewImports cfg ch h
  unfold State.getByName at hg
  cases hd : dictGet s.names n with
  | some b0 =>
    simp only [hd, Except.ok.injEq, Prod.mk.injEq] at hg
    rw [← hg.1]; exact h
  | none =>
    simp only [hd] at hg
    generalize s.checkNewImports cfg mods ch = r at hc hg
    obtain ⟨s1, changed, ch1⟩ := r
    dsimp only at hc hg
    cases changed with
    | false => simp at hg
    | true =>
      simp only [Bool.not_true, Bool.false_eq_true, ↓reduceIte] at hg
      cases hd1 : dictGet s1.names n with
      | none => simp [hd1] at hg
      | some b1 =>
        simp only [hd1, Except.ok.injEq, Prod.mk.injEq] at hg
        rw [← hg.1]; exact hc

theorem wfs_fold (cfg : Cfg) {mods : List String} : ∀ (tys : List Nat) (s : State) (acc : List Backend) (ch : Bool),
    WFs s mods →
    WFs (tys.foldl
      (fun (a : State × List Backend × Bool) ty =>
        let (s, cs, ch) := a
        let (s', bs, ch') := s.getByTensor cfg mods ch ty
        (s', unionByUid cs bs, ch')) (s, acc, ch)).1 mods
  | [], _, _, _, h => h
  | ty :: tys, s, acc, ch, h => by
    simp only [List.foldl_cons]
    have h1 := wfs_getByTensor cfg ch ty h
    generalize s.getByTensor cfg mods ch ty = r at h1
    obtain ⟨s', bs, ch'⟩ := r
    exact wfs_fold cfg tys s' _ ch' h1

theorem wfs_getByTensors (cfg : Cfg) {s : State} {mods : List String} (tys : List Nat) (h : WFs s mods)
    {s' : State} {l : List Backend} (hg : s.getByTensors cfg mods false tys = .ok (s', l)) : WFs s' mods := by
  unfold State.getByTensors at hg
  cases hfind : s.memo.find? (·.1 == tys) with
  | some en =>
    obtain ⟨tys', b⟩ := en
    simp only [hfind, Except.ok.injEq, Prod.mk.injEq] at hg
    rw [← hg.1]; exact h
  | none =>
    simp only [hfind] at hg
    have hf := wfs_fold cfg tys s [] false h
    generalize tys.foldl
      (fun (a : State × List Backend × Bool) ty =>
        let (s, cs, ch) := a
        let (s', bs, ch') := s.getByTensor cfg mods ch ty
        (s', unionByUid cs bs, ch')) (s, [], false) = r at hf hg
    obtain ⟨s1, cands, ch1⟩ := r
    dsimp only at hf hg
    by_cases hsc : tys.all isScalarTy = true
    · simp only [hsc, ↓reduceIte] at hg
      cases hn : s1.getByName cfg mods false "numpy" with
      | error e => simp [hn] at hg
      | ok r =>
        obtain ⟨s2, b, ch2⟩ := r
        have h2 := wfs_getByName cfg false "numpy" hf hn
        have hk : keepMax [b] = [b] := by simp [keepMax]
        simp only [hn, hk, Except.ok.injEq, Prod.mk.injEq] at hg
        rw [← hg.1]; exact wfs_congr rfl rfl h2
    · simp only [hsc, Bool.false_eq_true, ↓reduceIte] at hg
      split at hg
      · simp only [Except.ok.injEq, Prod.mk.injEq] at hg
        rw [← hg.1]; exact wfs_congr rfl rfl hf
      · simp only [Except.ok.injEq, Prod.mk.injEq] at hg
        rw [← hg.1]; exact hf

theorem wfs_get (cfg : Cfg) {s : State} {mods : List String} (arg : BackendArg) (tys : List Nat) (h : WFs s mods)
    {s' : State} {b : Backend} (hg : s.get cfg mods arg tys = .ok (s', b)) : WFs s' mods := by
  cases arg with
  | obj b0 => simp only [State.get, Except.ok.injEq, Prod.mk.injEq] at hg; rw [← hg.1]; exact h
  | name n =>
    simp only [State.get] at hg
    cases hn : s.getByName cfg mods false n with
    | error e => simp [hn] at hg
    | ok r =>
      obtain ⟨s2, b2, ch2⟩ := r
      simp only [hn, Except.ok.injEq, Prod.mk.injEq] at hg
      rw [← hg.1]; exact wfs_getByName cfg false n h hn
  | other =>
    simp only [State.get] at hg
    cases hs : s.stack.getLast? with
    | some t => simp only [hs, Except.ok.injEq, Prod.mk.injEq] at hg; rw [← hg.1]; exact h
    | none => simp [hs] at hg
  | none =>
    simp only [State.get] at hg
    cases hs : s.stack.getLast? with
    | some t => simp only [hs, Except.ok.injEq, Prod.mk.injEq] at hg; rw [← hg.1]; exact h
    | none =>
      simp only [hs, bne_self_eq_false, Bool.false_eq_true, ↓reduceIte] at hg
      cases ht : s.getByTensors cfg mods false tys with
      | error e => simp [ht] at hg
      | ok r =>
        obtain ⟨s2, l⟩ := r
        have h2 := wfs_getByTensors cfg tys h ht
        rw [ht] at hg
        match l, hg with
        | [], hg => simp at hg
        | [c], hg => simp only [Except.ok.injEq, Prod.mk.injEq] at hg; rw [← hg.1]; exact h2
        | _ :: _ :: _, hg => simp at hg

theorem wfs_step (cfg : Cfg) (w : World) (op : Op) (h : WFs w.st w.mods) :
    WFs (step cfg w op).1.st (step cfg w op).1.mods := by
  cases op with
  | register b => exact wfs_congr rfl rfl h
  | registerOnImport m f =>
    simp only [step, State.registerOnImport]
    by_cases hm : w.mods.contains m = true
    · rw [if_pos hm]; exact wfs_congr rfl rfl h
    · rw [if_neg hm]
      have hne : ∀ k ∈ w.st.seen, ¬ k = m := fun k hk e => hm (by simpa using e ▸ h.1 k hk)
      cases hd : dictGet w.st.uninit m with
      | some fs =>
        refine ⟨h.1, fun k hk => ?_⟩
        show dictGet (dictSet w.st.uninit m (fs ++ [f])) k = none
        rw [dictGet_dictSet, if_neg (hne k hk)]; exact h.2 k hk
      | none =>
        refine ⟨h.1, fun k hk => ?_⟩
        show dictGet (w.st.uninit ++ [(m, [f])]) k = none
        rw [dictGet_append_singleton, h.2 k hk]
        have : ¬ m = k := fun e => hne k hk e.symm
        simp [this]
  | importModule m =>
    refine ⟨fun k hk => ?_, h.2⟩
    show k ∈ (if w.mods.contains m then w.mods else w.mods ++ [m])
    split
    · exact h.1 k hk
    · exact List.mem_append_left _ (h.1 k hk)
  | get arg tys =>
    simp only [step]
    cases hg : w.st.get cfg w.mods arg tys with
    | error e => exact h
    | ok r => obtain ⟨s', b⟩ := r; exact wfs_get cfg arg tys h hg
  | getByName n =>
    simp only [step]
    cases hg : w.st.getByName cfg w.mods false n with
    | error e => exact h
    | ok r => obtain ⟨s', b, ch⟩ := r; exact wfs_getByName cfg false n h hg
  | enter b => exact wfs_congr rfl rfl h
  | exit b =>
    simp only [step, State.exit]
    cases w.st.stack.getLast? with
    | none => exact h
    | some t =>
      by_cases hu : (t.uid == b.uid) = true
      · simp only [hu, ↓reduceIte]; exact wfs_congr rfl rfl h
      · simp only [hu]; exact h

theorem wfs_runOps (cfg : Cfg) : ∀ (ops : List Op) (w : World), WFs w.st w.mods →
    WFs (runOps cfg w ops).1.st (runOps cfg w ops).1.mods
  | [], _, h => h
  | op :: ops, w, h => by
    rw [runOps_cons_fst]
    exact wfs_runOps cfg ops _ (wfs_step cfg w op h)

/-- In a quiet state the discipline is just the soundness of the memo. -/
theorem lazyDiscipline_of_quiet (cfg : Cfg) (s : State) (mods : List String) (tys : List Nat)
    (q : Quiet s mods) (ok : MemoOK s) : LazyDiscipline cfg s mods tys := by
  have hs := (flush_of_quiet cfg s mods q).1
  refine ⟨fun en hen he => ?_, fun ty _ _ => by rw [← hs.backends], fun kv _ => by rw [← hs.names]⟩
  rw [← select_congr hs, ← he]; exact ok en hen

/-! ### what the import check registers -/

/-- The factories `_check_new_imports` runs when it sees the modules `ms` in this order. -/
def pendingOf (uninit : List (String × List Factory)) : List String → List Factory
  | [] => []
  | m :: ms => (dictGet uninit m).getD [] ++ pendingOf (uninit.filter (·.1 != m)) ms

theorem supporting_eq_filter (bs : List Backend) (ty : Nat) : supporting bs ty = bs.filter (accepts · ty) := rfl

theorem supporting_append (a b : List Backend) (ty : Nat) :
    supporting (a ++ b) ty = supporting a ty ++ supporting b ty := by
  simp [supporting, List.filter_append]

theorem supporting_eq_nil {bs : List Backend} {ty : Nat} (h : ∀ x ∈ bs, accepts x ty = false) :
    supporting bs ty = [] := by
  rw [supporting_eq_filter, List.filter_eq_nil_iff]
  intro x hx; rw [h x hx]; simp

theorem exists_accepts_of_supporting {bs : List Backend} {ty : Nat} (h : supporting bs ty ≠ []) :
    ∃ x ∈ bs, accepts x ty = true := by
  cases hs : supporting bs ty with
  | nil => exact absurd hs h
  | cons x rest =>
    have : x ∈ supporting bs ty := by rw [hs]; exact List.mem_cons_self ..
    rw [supporting_eq_filter, List.mem_filter] at this
    exact ⟨x, this.1, this.2⟩

theorem filter_ne_of_dictGet_none {β} (m : String) : ∀ (d : List (String × β)), dictGet d m = none →
    d.filter (·.1 != m) = d
  | [], _ => rfl
  | kv :: d, h => by
    rw [dictGet_cons] at h
    by_cases h1 : kv.1 = m
    · rw [if_pos h1] at h; cases h
    · rw [if_neg h1] at h
      have : (kv.1 != m) = true := by simp [h1]
      rw [List.filter_cons, this, if_pos rfl, filter_ne_of_dictGet_none m d h]

/-- Names after running a list of factories. -/
def namesAfter (names : List (String × Backend)) (fs : List Factory) : List (String × Backend) :=
  fs.foldl (fun d f => dictSet d f.produces.name f.produces) names

theorem namesAfter_append (names : List (String × Backend)) (a b : List Factory) :
    namesAfter names (a ++ b) = namesAfter (namesAfter names a) b := by
  simp [namesAfter, List.foldl_append]

theorem dictGet_namesAfter_other (n : String) : ∀ (fs : List Factory) (names : List (String × Backend)),
    (∀ f ∈ fs, f.produces.name ≠ n) → dictGet (namesAfter names fs) n = dictGet names n
  | [], _, _ => rfl
  | f :: fs, names, h => by
    show dictGet (namesAfter (dictSet names f.produces.name f.produces) fs) n = _
    rw [dictGet_namesAfter_other n fs _ (fun g hg => h g (List.mem_cons_of_mem _ hg)), dictGet_dictSet]
    have : ¬ n = f.produces.name := fun e => h f (List.mem_cons_self ..) e.symm
    rw [if_neg this]

theorem foldl_runFactory_state (cfg : Cfg) : ∀ (fs : List Factory) (s : State),
    (fs.foldl (fun s f => s.runFactory cfg f) s).backends = s.backends ++ fs.map (·.produces) ∧
    (fs.foldl (fun s f => s.runFactory cfg f) s).names = namesAfter s.names fs ∧
    ∀ en ∈ (fs.foldl (fun s f => s.runFactory cfg f) s).memo, en ∈ s.memo
  | [], s => by simp [namesAfter]
  | f :: fs, s => by
    obtain ⟨h1, h2, h3⟩ := foldl_runFactory_state cfg fs (s.runFactory cfg f)
    refine ⟨by rw [List.foldl_cons, h1]; simp [State.runFactory, State.register], by rw [List.foldl_cons, h2]; rfl, ?_⟩
    intro en hen
    have := h3 en hen
    simp only [State.runFactory, State.register] at this
    split at this
    · cases this
    · exact this

theorem seeModule_state (cfg : Cfg) (s : State) (m : String) :
    (s.seeModule cfg m).backends = s.backends ++ ((dictGet s.uninit m).getD []).map (·.produces) ∧
    (s.seeModule cfg m).names = namesAfter s.names ((dictGet s.uninit m).getD []) ∧
    (∀ en ∈ (s.seeModule cfg m).memo, en ∈ s.memo) ∧
    (s.seeModule cfg m).uninit = s.uninit.filter (·.1 != m) := by
  unfold State.seeModule
  dsimp only
  cases hd : dictGet s.uninit m with
  | none => simp [namesAfter, filter_ne_of_dictGet_none m s.uninit hd]
  | some fs =>
    obtain ⟨h1, h2, h3⟩ := foldl_runFactory_state cfg fs { s with seen := s.seen ++ [m] }
    obtain ⟨g1, _, _⟩ := foldl_runFactory_fields cfg fs { s with seen := s.seen ++ [m] }
    exact ⟨h1, h2, h3, by simp only [g1]⟩

theorem foldl_seeModule_state (cfg : Cfg) : ∀ (ms : List String) (s : State),
    (ms.foldl (fun s m => s.seeModule cfg m) s).backends = s.backends ++ (pendingOf s.uninit ms).map (·.produces) ∧
    (ms.foldl (fun s m => s.seeModule cfg m) s).names = namesAfter s.names (pendingOf s.uninit ms) ∧
    ∀ en ∈ (ms.foldl (fun s m => s.seeModule cfg m) s).memo, en ∈ s.memo
  | [], s => by simp [pendingOf, namesAfter]
  | m :: ms, s => by
    obtain ⟨h1, h2, h3⟩ := foldl_seeModule_state cfg ms (s.seeModule cfg m)
    obtain ⟨g1, g2, g3, g4⟩ := seeModule_state cfg s m
    rw [List.foldl_cons]
    refine ⟨?_, ?_, fun en hen => g3 en (h3 en hen)⟩
    · rw [h1, g1, g4]; simp [pendingOf]
    · rw [h2, g2, g4, pendingOf, namesAfter_append]

theorem mem_pendingOf {f : Factory} : ∀ (ms : List String) (d : List (String × List Factory)),
    f ∈ pendingOf d ms → ∃ m ∈ ms, ∃ fs, dictGet d m = some fs ∧ f ∈ fs
  | [], _, h => by cases h
  | m :: ms, d, h => by
    rw [pendingOf, List.mem_append] at h
    rcases h with h | h
    · cases hd : dictGet d m with
      | none => rw [hd] at h; cases h
      | some fs => rw [hd] at h; exact ⟨m, List.mem_cons_self .., fs, hd, h⟩
    · obtain ⟨m', hm', fs, hfs, hf⟩ := mem_pendingOf ms _ h
      rw [dictGet_filter_ne] at hfs
      by_cases hmm : m' = m
      · rw [if_pos hmm] at hfs; cases hfs
      · rw [if_neg hmm] at hfs
        exact ⟨m', List.mem_cons_of_mem _ hm', fs, hfs, hf⟩

theorem mem_pendingOf_of {f : Factory} {m : String} {fs : List Factory} : ∀ (ms : List String) (d : List (String × List Factory)),
    m ∈ ms → dictGet d m = some fs → f ∈ fs → f ∈ pendingOf d ms
  | [], _, h, _, _ => by cases h
  | m' :: ms, d, h, hd, hf => by
    rw [pendingOf, List.mem_append]
    by_cases hmm : m = m'
    · subst hmm; rw [hd]; exact Or.inl hf
    · rcases List.mem_cons.1 h with h | h
      · exact absurd h hmm
      · refine Or.inr (mem_pendingOf_of ms _ h ?_ hf)
        rw [dictGet_filter_ne, if_neg hmm]; exact hd

/-- **The effective state**, explicitly: the backends of the state followed by the products of factories that
wait for an imported, not yet seen module; names updated accordingly; no new memo entries. -/
theorem flush_state (cfg : Cfg) (s : State) (mods : List String) :
    ∃ L : List Factory,
      (s.flush cfg mods).backends = s.backends ++ L.map (·.produces) ∧
      (s.flush cfg mods).names = namesAfter s.names L ∧
      (∀ f ∈ L, ∃ m ∈ mods, m ∉ s.seen ∧ ∃ fs, dictGet s.uninit m = some fs ∧ f ∈ fs) ∧
      (∀ en ∈ (s.flush cfg mods).memo, en ∈ s.memo) ∧
      (∀ k, dictGet (s.flush cfg mods).uninit k = if k ∈ mods ∧ k ∉ s.seen then none else dictGet s.uninit k) ∧
      (∀ k, k ∈ (s.flush cfg mods).seen ↔ k ∈ s.seen ∨ k ∈ mods) ∧
      (∀ m ∈ mods, m ∉ s.seen → ∀ fs, dictGet s.uninit m = some fs → ∀ f ∈ fs, f ∈ L) := by
  unfold State.flush State.checkNewImports
  simp only [Bool.false_eq_true, ↓reduceIte]
  split
  · rename_i hnew
    have hall : ∀ x ∈ mods, x ∈ s.seen := by
      have : ∀ x ∈ mods, s.seen.contains x = true := by simpa [List.filter_eq_nil_iff] using hnew
      intro x hx; simpa using this x hx
    refine ⟨[], (by simp), rfl, fun f hf => (by cases hf), fun en hen => hen, fun k => ?_, fun k => ?_,
      fun m hm hns => absurd (hall m hm) hns⟩
    · by_cases hk : k ∈ mods ∧ k ∉ s.seen
      · exact absurd (hall k hk.1) hk.2
      · rw [if_neg hk]
    · exact ⟨Or.inl, fun h => h.elim id (hall k)⟩
  · obtain ⟨h1, h2, h3⟩ := foldl_seeModule_state cfg (mods.filter (fun m => !s.seen.contains m)).eraseDups s
    obtain ⟨_, g2, g3⟩ := foldl_seeModule_fields cfg (mods.filter (fun m => !s.seen.contains m)).eraseDups s
    have hmem : ∀ k, k ∈ (mods.filter (fun m => !s.seen.contains m)).eraseDups ↔ k ∈ mods ∧ k ∉ s.seen := by
      intro k; rw [List.mem_eraseDups, List.mem_filter]; simp
    refine ⟨_, h1, h2, fun f hf => ?_, h3, fun k => ?_, fun k => ?_,
      fun m hm hns fs hd f hf => mem_pendingOf_of _ _ ((hmem m).2 ⟨hm, hns⟩) hd hf⟩
    · obtain ⟨m, hm, fs, hfs, hff⟩ := mem_pendingOf _ _ hf
      exact ⟨m, ((hmem m).1 hm).1, ((hmem m).1 hm).2, fs, hfs, hff⟩
    · rw [g3 k]
      by_cases hk : k ∈ mods ∧ k ∉ s.seen
      · rw [if_pos ((hmem k).2 hk), if_pos hk]
      · rw [if_neg (fun h => hk ((hmem k).1 h)), if_neg hk]
    · rw [g2, List.mem_append, hmem]
      constructor
      · rintro (h | h)
        · exact Or.inl h
        · exact Or.inr h.1
      · rintro (h | h)
        · exact Or.inl h
        · by_cases hs : k ∈ s.seen
          · exact Or.inl hs
          · exact Or.inr ⟨h, hs⟩

end Einx.Registry
