import EinxModel.Proofs.ExecSemAdapt
import EinxModel.Proofs.Factory
import Std.Data.String.ToNat
/-! Helper lemmas for `Props/C13Exec.lean`: the instance of `tracked_call_once` for the object of a graph input (`isInAtom t`)
and the tracers that are casts of that input (`Factory.root fg y = t`). -/
namespace Einx.Exec
open Einx.Compile Einx.Factory

theorem inAtom_inj (t t' : Nat) (h : inAtom t' = inAtom t) : t' = t := by
  simp only [inAtom, atom, E.mk, E.ofList, E.node.injEq, E.cons.injEq, E.lit.injEq, true_and, and_true] at h
  exact Nat.repr_inj.1 h

theorem isInAtom_iff (t : Nat) (e : E) : isInAtom t e = true ↔ e = inAtom t := by simp [isInAtom]

theorem isInAtom_qok (t : Nat) : QOK (isInAtom t) where
  node := by
    intro e h
    rw [isInAtom_iff] at h
    exact ⟨_, _, h⟩
  res := by intro n; simp [isInAtom, resAtom, inAtom, atom, E.mk]
  mod := by intro f i; simp [isInAtom, modAtom, inAtom, atom, E.mk, E.ofList]
  clos := by intro k; simp [isInAtom, closAtom, inAtom, atom, E.mk]

theorem isInAtom_const (t n : Nat) : isInAtom t (constAtom n) = false := by
  simp [isInAtom, constAtom, inAtom, atom, E.mk]

/-! ### `root` -/

theorem rootF_of_none (fg : Factory.Graph) (x : Nat) (h : castSource fg x = none) : ∀ n, rootF fg n x = x := by
  intro n
  cases n with
  | zero => rfl
  | succ n => simp [rootF, h]

theorem rootF_succ_cast (fg : Factory.Graph) (x y n : Nat) (h : castSource fg y = some x) : rootF fg (n + 1) y = rootF fg n x := by
  simp [rootF, h]

/-- More fuel does not change a root that was reached. -/
theorem rootF_stable_up (fg : Factory.Graph) : ∀ (n x r : Nat), rootF fg n x = r → castSource fg r = none → rootF fg (n + 1) x = r := by
  intro n
  induction n with
  | zero =>
    intro x r h hr
    simp only [rootF] at h
    subst h
    exact rootF_of_none fg x hr 1
  | succ n ih =>
    intro x r h hr
    cases hc : castSource fg x with
    | none =>
      rw [rootF_of_none fg x hc] at h ⊢
      exact h
    | some j =>
      rw [rootF_succ_cast fg j x n hc] at h
      rw [rootF_succ_cast fg j x (n + 1) hc]
      exact ih j r h hr

theorem castSource_of_cast (fg : Factory.Graph) (x y j : Nat) (ti : TInfo) (ht : fg.tracers[y]? = some ti)
    (ho : ti.origin = some j) (ha : fg.apps[j]? = some ⟨.cast (.ref x), .ref y⟩) : castSource fg y = some x := by
  simp [castSource, ht, ho, ha]

theorem castSource_inv (fg : Factory.Graph) (x y : Nat) (h : castSource fg y = some x) :
    ∃ ti j, fg.tracers[y]? = some ti ∧ ti.origin = some j ∧ fg.apps[j]? = some ⟨.cast (.ref x), .ref y⟩ := by
  unfold castSource at h
  split at h
  · rename_i ti hti
    split at h
    · rename_i o ho
      split at h
      · rename_i j' k' hap
        split at h
        · rename_i hk
          simp only [Option.some.injEq] at h
          subst h
          simp only [beq_iff_eq] at hk
          subst hk
          exact ⟨ti, o, hti, ho, hap⟩
        · cases h
      · cases h
    · cases h
  · cases h

theorem castSource_input (fg : Factory.Graph) (hfwf : Factory.wf fg = true) (t : Nat) (ht : t ∈ fg.inputs) : castSource fg t = none := by
  obtain ⟨ti, h1, h2⟩ := wf_input hfwf t ht
  simp [castSource, h1, h2]

theorem toGApp_cast_inv (a : App) (x y : Nat) (h : toGApp a = ⟨.cast (.ref x), .ref y⟩) : a = .cast (.var x) (.var y) := by
  cases a with
  | cast input out =>
    simp only [toGApp, toNode, App.out, Factory.GApp.mk.injEq, Factory.GNode.cast.injEq] at h
    rw [toV_ref_inv input x h.1, toV_ref_inv out y h.2]
  | _ => simp [toGApp, toNode] at h

theorem tracers_lt (fg : Factory.Graph) (y : Nat) (ti : TInfo) (h : fg.tracers[y]? = some ti) : y < fg.tracers.length :=
  (List.getElem?_eq_some_iff.1 h).1

theorem rootStable_spec (fg : Factory.Graph) (h : rootStable fg = true) (x : Nat) (hx : x < fg.tracers.length) :
    rootF fg (fg.tracers.length - 1) x = rootF fg fg.tracers.length x := by
  simp only [rootStable, List.all_eq_true, List.mem_range, beq_iff_eq] at h
  exact h x hx

theorem castsPlain_spec (g : Compile.Graph) (fg : Factory.Graph) (t : Nat) (h : castsPlain g fg t = true) (j x : Nat) (out : E)
    (ha : g.apps[j]? = some (App.cast (.var x) out)) (hrx : root fg x = t) : ∃ y, out = .var y := by
  simp only [castsPlain, List.all_eq_true] at h
  have := h _ (List.mem_of_getElem? ha)
  simp only [hrx, bne_self_eq_false, Bool.false_or] at this
  cases out with
  | var y => exact ⟨y, rfl⟩
  | _ => simp at this

/-- **The tracking hypotheses for a factory input**: for a supported graph whose factory input `t` has application `i` — a call —
as its only consumer (`classUsers fg t = [i]`, part of `factoryOK`), the only tracers that hold the object of input `t` are the
casts of `t`. -/
theorem track_input (g : Compile.Graph) (aux : List TAux) (fg : Factory.Graph) (hwf : g.WF = true) (hsup : Supported g = true)
    (hfg : toFactory g aux = some fg) (hfwf : Factory.wf fg = true) (hstable : rootStable fg = true)
    (t : Nat) (hplain : castsPlain g fg t = true) (ht : t ∈ fg.inputs) (i : Nat) (hcu : classUsers fg t = [i])
    (fn : V) (args : List V) (kwargs : List (String × V)) (deps : List V) (out : V)
    (hnode : fg.apps[i]? = some ⟨.call fn args kwargs deps, out⟩) :
    Track g (isInAtom t) (fun y => root fg y = t) (fun k' => g.top = .gref k') := by
  obtain ⟨S, k0, sg, htop, hsg, hins, hout⟩ := supported_setup g aux fg hwf hsup hfg
  have hct : castSource fg t = none := castSource_input fg hfwf t ht
  -- a non-cast application that consumes a cast of `t` is application `i`
  have huser : ∀ (j : Nat) (a : App) (x : Nat), g.apps[j]? = some a → (toNode a).isCast = false →
      x ∈ refsL (toNode a).operands → root fg x = t → j = i := by
    intro j a x hj hnc hx hrx
    have hfa := S.app j a hj
    have : j ∈ classUsers fg t := by
      simp only [classUsers, List.mem_filter, List.mem_range, usesAt, hfa, usesClass, toGApp, hnc, Bool.not_false, Bool.true_and,
        List.any_eq_true, beq_iff_eq]
      exact ⟨(List.getElem?_eq_some_iff.1 hfa).1, x, hx, hrx⟩
    rw [hcu] at this
    simpa using this
  refine ⟨?_, ?_, ?_, ?_⟩
  · -- inputs
    intro k' sg' t' hk' hsg' ht'
    rw [htop] at hk'
    simp only [E.gref.injEq] at hk'
    subst hk'
    rw [hsg] at hsg'
    cases hsg'
    have ht'in : t' ∈ fg.inputs := by rw [hins]; exact ht'
    have hroot : root fg t' = t' := rootF_of_none fg t' (castSource_input fg hfwf t' ht'in) _
    rw [isInAtom_iff, hroot]
    exact ⟨inAtom_inj t t', fun h => by rw [h]⟩
  · -- constants
    intro j str o hj n
    rw [isInAtom_const]
    constructor
    · intro h; cases h
    · intro hro
      exfalso
      have hfa := S.app j _ hj
      obtain ⟨ti, h1, h2⟩ := wf_out hfwf j _ hfa o (by simp [toGApp, App.out, refs_var])
      have hco : castSource fg o = none := by
        simp [castSource, h1, h2, hfa, toGApp, toNode]
      rw [show root fg o = o from rootF_of_none fg o hco _] at hro
      subst hro
      exact wf_input_not_out hfwf o ht j _ hfa (by simp [toGApp, App.out, refs_var])
  · -- aliases
    intro j a x hj hal hrx
    have hfa := S.app j a hj
    cases a with
    | cast input out =>
      simp only [aliasOperand, Option.some.injEq] at hal
      subst hal
      obtain ⟨y, rfl⟩ := castsPlain_spec g fg t hplain j x out hj hrx
      refine ⟨y, rfl, ?_⟩
      obtain ⟨ti, h1, h2⟩ := wf_out hfwf j _ hfa y (by simp [toGApp, App.out, refs_var])
      have hcs : castSource fg y = some x := by
        apply castSource_of_cast fg x y j ti h1 h2
        rw [hfa]; simp [toGApp, toNode, App.out, toV]
      obtain ⟨tx, hx1, _⟩ := wf_operand hfwf j _ hfa x (by simp [toGApp, toNode, GNode.operands, refsL, refs_var])
      have hyl := tracers_lt fg y ti h1
      have hxl := tracers_lt fg x tx hx1
      show rootF fg fg.tracers.length y = t
      obtain ⟨L, hL⟩ : ∃ L, fg.tracers.length = L + 1 := ⟨fg.tracers.length - 1, by omega⟩
      have hst := rootStable_spec fg hstable x hxl
      rw [hL] at hst ⊢
      rw [rootF_succ_cast fg x y L hcs]
      simp only [Nat.add_sub_cancel] at hst
      rw [hst, ← hL]
      exact hrx
    | assert_ xs cond msg out =>
      simp only [aliasOperand, Option.some.injEq] at hal
      subst hal
      have := huser j _ x hj rfl (by simp [toNode, GNode.operands, refsL, refs_var]) hrx
      subst this
      rw [hfa] at hnode
      simp [toGApp, toNode] at hnode
    | callInplace xs fn' args' kwargs' deps' out' =>
      simp only [aliasOperand, Option.some.injEq] at hal
      subst hal
      have := huser j _ x hj rfl (by simp [toNode, GNode.operands, refsL, refs_var]) hrx
      subst this
      rw [hfa] at hnode
      simp [toGApp, toNode] at hnode
    | updateitem obj key value op out' =>
      simp only [aliasOperand, Option.some.injEq] at hal
      subst hal
      have := huser j _ x hj rfl (by simp [toNode, GNode.operands, refsL, refs_var]) hrx
      subst this
      rw [hfa] at hnode
      simp [toGApp, toNode] at hnode
    | _ => simp [aliasOperand] at hal
  · -- producers
    intro j a y hj hy hry
    have hfa := S.app j a hj
    have hvt := S.varOuts a (List.mem_of_getElem? hj)
    have hyo : y ∈ (toGApp a).out.refs := (varTree_regKeys_iff a.out hvt y).1 hy
    obtain ⟨ti, h1, h2⟩ := wf_out hfwf j _ hfa y hyo
    cases hcs : castSource fg y with
    | none =>
      exfalso
      rw [show root fg y = y from rootF_of_none fg y hcs _] at hry
      subst hry
      exact wf_input_not_out hfwf y ht j _ hfa hyo
    | some x =>
      obtain ⟨ti', j', h1', h2', h3'⟩ := castSource_inv fg x y hcs
      rw [h1] at h1'
      cases h1'
      rw [h2] at h2'
      cases h2'
      rw [hfa] at h3'
      have ha := toGApp_cast_inv a x y (Option.some.inj h3')
      subst ha
      refine ⟨rfl, Or.inr ⟨x, rfl, ?_⟩⟩
      have hyl := tracers_lt fg y ti h1
      obtain ⟨L, hL⟩ : ∃ L, fg.tracers.length = L + 1 := ⟨fg.tracers.length - 1, by omega⟩
      have hry' : rootF fg (L + 1) y = t := by rw [← hL]; exact hry
      rw [rootF_succ_cast fg x y L hcs] at hry'
      show rootF fg fg.tracers.length x = t
      rw [hL]
      exact rootF_stable_up fg L x t hry' hct

end Einx.Exec
