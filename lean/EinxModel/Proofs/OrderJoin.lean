import EinxModel.Order.Join
/-! Helper lemmas for the `_join_exprs` model (C16). -/
namespace Einx.Order.Join

theorem argmaxFirst_lt (l : List Nat) (h : l ≠ []) : ∃ i, argmaxFirst l = some i ∧ i < l.length := by
  induction l with
  | nil => exact absurd rfl h
  | cons c cs ih =>
    simp only [argmaxFirst]
    cases hc : argmaxFirst cs with
    | none => exact ⟨0, rfl, by simp⟩
    | some k =>
      have hk : k < cs.length := by
        by_cases hcs : cs = []
        · subst hcs; simp [argmaxFirst] at hc
        · obtain ⟨i, hi, hl⟩ := ih hcs
          rw [hc] at hi; cases hi; exact hl
      by_cases hgt : cs.getD k 0 > c
      · exact ⟨k + 1, by simp only [if_pos hgt], by simp only [List.length_cons]; omega⟩
      · exact ⟨0, by simp only [if_neg hgt], by simp⟩

theorem mem_firsts_flatten {axes : List (List String)} {n : String} (h : n ∈ firsts axes) : n ∈ axes.flatten := by
  simp only [firsts, List.mem_filterMap] at h
  obtain ⟨l, hl, hh⟩ := h
  simp only [List.mem_flatten]
  exact ⟨l, hl, List.mem_of_mem_head? hh⟩

theorem any_nonempty_iff (axes : List (List String)) :
    axes.any (fun l => !l.isEmpty) = true ↔ axes.flatten ≠ [] := by
  induction axes with
  | nil => simp
  | cons l ls ih =>
    cases l with
    | nil => simpa using ih
    | cons a as => simp

theorem firsts_ne_nil {axes : List (List String)} (h : axes.flatten ≠ []) : firsts axes ≠ [] := by
  induction axes with
  | nil => simp at h
  | cons l ls ih =>
    cases l with
    | nil => simpa [firsts] using ih (by simpa using h)
    | cons a as => simp [firsts]

theorem takeOne_mem (enum : List String → List String) (h : EnumOK enum) (axes : List (List String))
    (hne : axes.flatten ≠ []) : ∃ n, takeOne enum axes = some n ∧ n ∈ axes.flatten := by
  have hf := firsts_ne_nil hne
  obtain ⟨x, hx⟩ := List.exists_mem_of_ne_nil _ hf
  have hnames : enum (firsts axes) ≠ [] := by
    intro he
    have := ((h (firsts axes)).2 x).2 hx
    rw [he] at this; simp at this
  obtain ⟨i, hi, hlt⟩ := argmaxFirst_lt ((enum (firsts axes)).map (getCount axes)) (by simpa using hnames)
  simp only [List.length_map] at hlt
  refine ⟨(enum (firsts axes))[i], ?_, ?_⟩
  · simp only [takeOne, hi]
    exact List.getElem?_eq_getElem hlt
  · exact mem_firsts_flatten (((h (firsts axes)).2 _).1 (List.getElem_mem hlt))

theorem flatten_removeName (axes : List (List String)) (n : String) :
    (removeName axes n).flatten = axes.flatten.filter (fun x => x != n) := by
  induction axes with
  | nil => rfl
  | cons l ls ih => simp only [removeName, List.map_cons, List.flatten_cons, List.filter_append] at ih ⊢; rw [ih]

theorem length_filter_lt {α : Type} (p : α → Bool) : ∀ (l : List α) (x : α), x ∈ l → p x = false → (l.filter p).length < l.length
  | a :: as, x, hx, hp => by
    have hle := List.length_filter_le p as
    by_cases hpa : p a = true
    · rw [List.filter_cons_of_pos hpa]
      rcases List.mem_cons.mp hx with rfl | hx'
      · rw [hp] at hpa; cases hpa
      · have ih := length_filter_lt p as x hx' hp
        simp only [List.length_cons]; omega
    · rw [List.filter_cons_of_neg hpa]
      simp only [List.length_cons]; omega

theorem total_removeName_lt (axes : List (List String)) (n : String) (h : n ∈ axes.flatten) :
    total (removeName axes n) < total axes := by
  simp only [total, flatten_removeName]
  exact length_filter_lt _ _ n h (by simp)

/-- The loop invariant: the result is duplicate free and consists of what was already placed plus every name that is
still waiting; in particular the loop never raises and `total axes` iterations suffice. -/
theorem joinLoop_spec (enum : List String → List String) (h : EnumOK enum) :
    ∀ (fuel : Nat) (axes : List (List String)) (acc : List String), total axes ≤ fuel → acc.Nodup →
      (∀ x ∈ acc, x ∉ axes.flatten) →
      ∃ r, joinLoop enum fuel axes acc = some r ∧ r.Nodup ∧ ∀ x, x ∈ r ↔ x ∈ acc ∨ x ∈ axes.flatten := by
  intro fuel
  induction fuel with
  | zero =>
    intro axes acc hf hnd _
    have hnil : axes.flatten = [] := List.eq_nil_of_length_eq_zero (by simp only [total] at hf; omega)
    have : ¬ (axes.any (fun l => !l.isEmpty) = true) := by rw [any_nonempty_iff]; simp [hnil]
    exact ⟨acc, by simp [joinLoop, this], hnd, by simp [hnil]⟩
  | succ fuel ih =>
    intro axes acc hf hnd hdis
    by_cases hany : axes.any (fun l => !l.isEmpty) = true
    · have hne := (any_nonempty_iff axes).1 hany
      obtain ⟨n, hn, hmem⟩ := takeOne_mem enum h axes hne
      have hlt := total_removeName_lt axes n hmem
      have hnacc : n ∉ acc := fun hc => hdis n hc hmem
      obtain ⟨r, hr, hrnd, hrmem⟩ := ih (removeName axes n) (acc ++ [n]) (by omega)
        (by
          rw [List.nodup_append]
          refine ⟨hnd, by simp, ?_⟩
          intro a ha b hb
          simp only [List.mem_singleton] at hb
          subst hb
          exact fun hab => hnacc (hab ▸ ha))
        (by
          intro x hx
          rw [flatten_removeName]
          simp only [List.mem_filter, bne_iff_ne, ne_eq, not_and, Decidable.not_not]
          rcases List.mem_append.mp hx with hx | hx
          · exact fun hc => absurd hc (hdis x hx)
          · simp only [List.mem_singleton] at hx; exact fun _ => hx)
      refine ⟨r, by simp [joinLoop, hany, hn, hr], hrnd, ?_⟩
      intro x
      rw [hrmem x, flatten_removeName]
      simp only [List.mem_append, List.mem_singleton, List.mem_filter, bne_iff_ne, ne_eq]
      constructor
      · rintro ((hx | rfl) | ⟨hx, _⟩)
        · exact Or.inl hx
        · exact Or.inr hmem
        · exact Or.inr hx
      · rintro (hx | hx)
        · exact Or.inl (Or.inl hx)
        · by_cases hxn : x = n
          · exact Or.inl (Or.inr hxn)
          · exact Or.inr ⟨hx, hxn⟩
    · have hnil : axes.flatten = [] := by
        by_cases hc : axes.flatten = []
        · exact hc
        · exact absurd ((any_nonempty_iff axes).2 hc) hany
      exact ⟨acc, by simp [joinLoop, hany], hnd, by simp [hnil]⟩

/-- `joined_axisnames` for an admissible enumeration: defined, duplicate free, and exactly the names of the axes with
`value != 1`. -/
theorem joinNames_spec (enum : List String → List String) (h : EnumOK enum) (exprs : List (List Ax)) :
    ∃ r, joinNames enum exprs = some r ∧ r.Nodup ∧ ∀ x, x ∈ r ↔ x ∈ (nonUnit exprs).flatten := by
  obtain ⟨r, hr, hnd, hm⟩ := joinLoop_spec enum h (total (nonUnit exprs)) (nonUnit exprs) [] (Nat.le_refl _)
    List.nodup_nil (by simp)
  exact ⟨r, hr, hnd, by simpa using hm⟩

theorem mem_nonUnit_flatten {exprs : List (List Ax)} {x : String} (h : x ∈ (nonUnit exprs).flatten) :
    ∃ a ∈ exprs.flatten, a.1 = x ∧ a.2 ≠ 1 := by
  simp only [nonUnit, List.mem_flatten, List.mem_map] at h
  obtain ⟨l, ⟨e, he, rfl⟩, hx⟩ := h
  simp only [List.mem_map, List.mem_filter, bne_iff_ne, ne_eq] at hx
  obtain ⟨a, ⟨ha, hv⟩, rfl⟩ := hx
  exact ⟨a, List.mem_flatten.2 ⟨e, he, ha⟩, rfl, hv⟩

theorem valueOf_isSome {exprs : List (List Ax)} {x : String} (h : ∃ a ∈ exprs.flatten, a.1 = x) :
    ∃ v, valueOf exprs x = some v := by
  obtain ⟨a, ha, hx⟩ := h
  cases hf : exprs.flatten.reverse.find? (fun a => a.1 == x) with
  | some b => exact ⟨b.2, by simp [valueOf, hf]⟩
  | none =>
    rw [List.find?_eq_none] at hf
    exact absurd (by simp [hx]) (hf a (List.mem_reverse.2 ha))

theorem allSome_map {α β : Type} (f : α → Option β) (g : α → β) :
    ∀ (l : List α), (∀ x ∈ l, f x = some (g x)) → allSome (l.map f) = some (l.map g)
  | [], _ => rfl
  | a :: as, h => by
    have h1 := h a (by simp)
    have h2 := allSome_map f g as (fun x hx => h x (by simp [hx]))
    simp [allSome, h1, h2]

theorem nodup_eraseDups : ∀ (n : Nat) (l : List String), l.length ≤ n → l.eraseDups.Nodup
  | _, [], _ => by simp
  | 0, a :: as, h => by simp at h
  | n + 1, a :: as, h => by
    rw [List.eraseDups_cons, List.nodup_cons]
    refine ⟨?_, nodup_eraseDups n _ ?_⟩
    · rw [List.mem_eraseDups]; simp
    · have := List.length_filter_le (fun b => !b == a) as
      simp only [List.length_cons] at h
      omega

theorem enumFirst_ok : EnumOK enumFirst :=
  fun l => ⟨nodup_eraseDups l.length l (Nat.le_refl _), fun _ => List.mem_eraseDups⟩

theorem enumLast_ok : EnumOK enumLast :=
  fun l => ⟨((List.reverse_perm _).nodup_iff).2 (nodup_eraseDups l.length l (Nat.le_refl _)),
    fun x => by simp [enumLast, List.mem_eraseDups]⟩

/-- The enumeration the driver uses to replay an observed set order is admissible, whatever priority list it is given. -/
theorem enumBy_ok (prio : List String) : EnumOK (enumBy prio) := by
  intro l
  have hd := nodup_eraseDups l.length l (Nat.le_refl _)
  have hp := nodup_eraseDups prio.length prio (Nat.le_refl _)
  constructor
  · simp only [enumBy]
    rw [List.nodup_append]
    refine ⟨hp.filter _, hd.filter _, ?_⟩
    intro a ha b hb hab
    subst hab
    simp only [List.mem_filter, List.mem_eraseDups, List.contains_eq_mem, decide_eq_true_eq, Bool.not_eq_eq_eq_not,
      Bool.not_true, decide_eq_false_iff_not] at ha hb
    exact hb.2 ha.1
  · intro x
    simp only [enumBy, List.mem_append, List.mem_filter, List.mem_eraseDups, List.contains_eq_mem, decide_eq_true_eq,
      Bool.not_eq_eq_eq_not, Bool.not_true, decide_eq_false_iff_not]
    constructor
    · rintro (⟨_, h⟩ | ⟨h, _⟩) <;> exact h
    · intro h
      by_cases hx : x ∈ prio
      · exact Or.inl ⟨hx, h⟩
      · exact Or.inr ⟨h, hx⟩

end Einx.Order.Join
