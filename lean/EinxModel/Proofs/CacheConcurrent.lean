import EinxModel.Cache.Concurrent
/-! Invariant of the interleaving model of the compiled-function cache and its preservation (property theorems are
in `Props/C10Cache.lean`). -/
namespace Einx.Cache.Conc
open Einx.Cache

variable {K V : Type} [DecidableEq K]

/-! ### The dictionary -/

theorem Store.mem_put : ∀ (m : Store K V) (k : K) (v : V) (e : K × V), e ∈ m.put k v → e = (k, v) ∨ e ∈ m
  | [], k, v, e, h => by simp [Store.put] at h; exact .inl h
  | (k', v') :: r, k, v, e, h => by
    simp only [Store.put] at h
    split at h
    · rename_i hk
      rcases List.mem_cons.mp h with h | h
      · exact .inl (by rw [h, hk])
      · exact .inr (List.mem_cons_of_mem _ h)
    · rcases List.mem_cons.mp h with h | h
      · exact .inr (by rw [h]; exact List.mem_cons_self ..)
      · rcases Store.mem_put r k v e h with h | h
        · exact .inl h
        · exact .inr (List.mem_cons_of_mem _ h)

theorem Store.get_put_self : ∀ (m : Store K V) (k : K) (v : V), (m.put k v).get k = some v
  | [], k, v => by simp [Store.put, Store.get]
  | (k', v') :: r, k, v => by
    simp only [Store.put]
    split
    · rename_i hk; simp [Store.get, hk]
    · rename_i hk; simp [Store.get, hk, Store.get_put_self r k v]

theorem Store.get_put_other : ∀ (m : Store K V) (k k' : K) (v : V), k' ≠ k → (m.put k v).get k' = m.get k'
  | [], k, k', v, h => by
    have : ¬ k = k' := fun e => h e.symm
    simp [Store.put, Store.get, this]
  | (k0, v0) :: r, k, k', v, h => by
    simp only [Store.put]
    split
    · rename_i hk
      subst hk
      have : ¬ k0 = k' := fun e => h e.symm
      simp [Store.get, this]
    · simp only [Store.get]
      split
      · rfl
      · exact Store.get_put_other r k k' v h

theorem Store.get_some_mem : ∀ (m : Store K V) (k : K) (v : V), m.get k = some v → (k, v) ∈ m
  | [], _, _, h => by simp [Store.get] at h
  | (k', v') :: r, k, v, h => by
    simp only [Store.get] at h
    split at h
    · rename_i hk
      cases h
      rw [hk]; exact List.mem_cons_self ..
    · exact List.mem_cons_of_mem _ (Store.get_some_mem r k v h)

theorem Store.mem_get : ∀ (m : Store K V) (k : K) (v : V), (k, v) ∈ m → ∃ v', m.get k = some v'
  | [], _, _, h => by cases h
  | (k', v') :: r, k, v, h => by
    simp only [Store.get]
    split
    · exact ⟨v', rfl⟩
    · rename_i hk
      rcases List.mem_cons.mp h with h | h
      · cases h; exact absurd rfl hk
      · exact Store.mem_get r k v h

theorem Store.keys_put_nodup : ∀ (m : Store K V) (k : K) (v : V), m.keys.Nodup → (m.put k v).keys.Nodup
  | [], k, v, _ => by simp [Store.put, Store.keys]
  | (k', v') :: r, k, v, h => by
    simp only [Store.put]
    split
    · simpa [Store.keys] using h
    · rename_i hk
      simp only [Store.keys, List.map_cons, List.nodup_cons] at h ⊢
      refine ⟨?_, Store.keys_put_nodup r k v h.2⟩
      intro hm
      obtain ⟨e, he, hek⟩ := List.mem_map.mp hm
      rcases Store.mem_put r k v e he with h' | h'
      · rw [h'] at hek; exact hk hek.symm
      · exact h.1 (List.mem_map.mpr ⟨e, h', hek⟩)

/-! ### Threads -/

theorem getElem?_set_cases {α} (l : List α) (i j : Nat) (x y : α) (h : (l.set i x)[j]? = some y) :
    (j = i ∧ y = x) ∨ (j ≠ i ∧ l[j]? = some y) := by
  rw [List.getElem?_set] at h
  by_cases hij : i = j
  · subst hij
    simp only [↓reduceIte] at h
    split at h <;> simp_all
  · simp only [hij, ↓reduceIte] at h
    exact .inr ⟨fun e => hij e.symm, h⟩

theorem lt_of_getElem?_some {α} {l : List α} {i : Nat} {x : α} (h : l[i]? = some x) : i < l.length := by
  rcases Nat.lt_or_ge i l.length with h' | h'
  · exact h'
  · rw [List.getElem?_eq_none h'] at h; cases h

theorem run_append (comp : Comp K V) (trim : Store K V → Store K V) (c : Conf K V) (a b : List Nat) :
    run comp trim c (a ++ b) = run comp trim (run comp trim c a) b := by
  simp [run, List.foldl_append]

/-! ### The invariant -/

/-- What holds of thread `i` at any time. -/
structure ThreadInv (f : K → Outcome V) (progs : List (List K)) (i : Nat) (th : Thread K V) : Prop where
  /-- finished calls followed by the remaining ones are the thread's program -/
  prog : progs[i]? = some (th.served ++ th.prog)
  /-- every finished call returned what the function returns for its key -/
  outs : th.outs = th.served.map f
  /-- a value waiting to be stored is the function's value for the key of the call in progress -/
  pend : ∀ v, th.pc = .computed v → ∃ k rest, th.prog = k :: rest ∧ f k = .ok v

structure Inv (f : K → Outcome V) (progs : List (List K)) (c : Conf K V) : Prop where
  len : c.threads.length = progs.length
  /-- every stored value is the function's value for its key -/
  sound : ∀ k v, (k, v) ∈ c.cache → f k = .ok v
  /-- only requested keys are stored -/
  req : ∀ k v, (k, v) ∈ c.cache → k ∈ progs.flatten
  thr : ∀ i th, c.threads[i]? = some th → ThreadInv f progs i th

/-- Without eviction: the value of every finished successful call is (still) stored, and the keys are pairwise different. -/
structure Complete (f : K → Outcome V) (c : Conf K V) : Prop where
  stored : ∀ (i : Nat) (th : Thread K V), c.threads[i]? = some th → ∀ k ∈ th.served, ∀ v, f k = .ok v → c.cache.get k = some v
  nodup : c.cache.keys.Nodup

theorem inv_init (f : K → Outcome V) (progs : List (List K)) : Inv f progs (init progs : Conf K V) := by
  refine ⟨by simp [init], by simp [init], by simp [init], ?_⟩
  intro i th h
  simp only [init, List.getElem?_map, Option.map_eq_some_iff] at h
  obtain ⟨p, hp, rfl⟩ := h
  exact ⟨by simp [hp], by simp, by simp⟩

theorem complete_init (f : K → Outcome V) (progs : List (List K)) : Complete f (init progs : Conf K V) := by
  refine ⟨?_, by simp [init, Store.keys]⟩
  intro i th h
  simp only [init, List.getElem?_map, Option.map_eq_some_iff] at h
  obtain ⟨p, _, rfl⟩ := h
  simp

theorem mem_flatten_of_prog {progs : List (List K)} {i : Nat} {a : List K} {k : K} {rest : List K}
    (h : progs[i]? = some (a ++ k :: rest)) : k ∈ progs.flatten := by
  have hlt := lt_of_getElem?_some h
  rw [List.getElem?_eq_getElem hlt] at h
  exact List.mem_flatten.mpr ⟨_, List.getElem_mem hlt, by rw [Option.some.inj h]; simp⟩

/-- Finishing the call in progress with the function's value keeps the thread invariant. -/
theorem threadInv_finish {f : K → Outcome V} {progs : List (List K)} {i : Nat} {th : Thread K V} (t : ThreadInv f progs i th)
    (k : K) (rest : List K) (hp : th.prog = k :: rest) (o : Outcome V) (ho : f k = o) :
    ThreadInv f progs i { pc := .idle, prog := rest, outs := th.outs ++ [o], served := th.served ++ [k] } := by
  refine ⟨?_, ?_, by simp⟩
  · have := t.prog
    rw [hp] at this
    simpa using this
  · simp [t.outs, ho]

theorem inv_step {comp : Comp K V} {f : K → Outcome V} (hdet : Deterministic comp f)
    {trim : Store K V → Store K V} (htrim : ∀ m e, e ∈ trim m → e ∈ m)
    {progs : List (List K)} {c c' : Conf K V} (h : Inv f progs c) (i : Nat) (hs : stepThread comp trim c i = some c') :
    Inv f progs c' := by
  unfold stepThread at hs
  cases hi : c.threads[i]? with
  | none => simp [hi] at hs
  | some th =>
    simp only [hi] at hs
    have t := h.thr i th hi
    cases hp : th.prog with
    | nil => simp [hp] at hs
    | cons k rest =>
      simp only [hp] at hs
      cases hpc : th.pc with
      | idle =>
        simp only [hpc] at hs
        cases hg : c.cache.get k with
        | some v =>
          simp only [hg, Option.some.injEq] at hs
          subst hs
          have hv : f k = .ok v := h.sound k v (Store.get_some_mem _ _ _ hg)
          refine ⟨by simpa using h.len, h.sound, h.req, ?_⟩
          intro j thj hj
          rcases getElem?_set_cases _ _ _ _ _ hj with ⟨rfl, rfl⟩ | ⟨_, hj'⟩
          · exact threadInv_finish t k rest hp _ hv
          · exact h.thr j thj hj'
        | none =>
          simp only [hg, Option.some.injEq] at hs
          subst hs
          refine ⟨by simpa using h.len, h.sound, h.req, ?_⟩
          intro j thj hj
          rcases getElem?_set_cases _ _ _ _ _ hj with ⟨rfl, rfl⟩ | ⟨_, hj'⟩
          · exact ⟨by have := t.prog; rw [hp] at this; exact this, t.outs, by simp⟩
          · exact h.thr j thj hj'
      | missed =>
        simp only [hpc, hdet i c.clock c.cache k] at hs
        cases hf : f k with
        | ok v =>
          simp only [hf, Option.some.injEq] at hs
          subst hs
          refine ⟨by simpa using h.len, h.sound, h.req, ?_⟩
          intro j thj hj
          rcases getElem?_set_cases _ _ _ _ _ hj with ⟨rfl, rfl⟩ | ⟨_, hj'⟩
          · refine ⟨by have := t.prog; rw [hp] at this; exact this, t.outs, ?_⟩
            intro v' hv'
            simp only [PC.computed.injEq] at hv'
            subst hv'
            exact ⟨k, rest, rfl, hf⟩
          · exact h.thr j thj hj'
        | raised e =>
          simp only [hf, Option.some.injEq] at hs
          subst hs
          refine ⟨by simpa using h.len, h.sound, h.req, ?_⟩
          intro j thj hj
          rcases getElem?_set_cases _ _ _ _ _ hj with ⟨rfl, rfl⟩ | ⟨_, hj'⟩
          · exact threadInv_finish t k rest hp _ hf
          · exact h.thr j thj hj'
      | computed v =>
        simp only [hpc, Option.some.injEq] at hs
        subst hs
        obtain ⟨k', rest', hp', hv⟩ := t.pend v hpc
        rw [hp] at hp'
        obtain ⟨rfl, rfl⟩ := List.cons.inj hp'
        have hprog := t.prog
        rw [hp] at hprog
        refine ⟨by simpa using h.len, ?_, ?_, ?_⟩
        · intro k0 v0 hm
          rcases Store.mem_put _ _ _ _ (htrim _ _ hm) with e | e
          · cases e; exact hv
          · exact h.sound k0 v0 e
        · intro k0 v0 hm
          rcases Store.mem_put _ _ _ _ (htrim _ _ hm) with e | e
          · cases e; exact mem_flatten_of_prog hprog
          · exact h.req k0 v0 e
        · intro j thj hj
          rcases getElem?_set_cases _ _ _ _ _ hj with ⟨rfl, rfl⟩ | ⟨_, hj'⟩
          · exact threadInv_finish t k rest hp _ hv
          · exact h.thr j thj hj'

theorem inv_run {comp : Comp K V} {f : K → Outcome V} (hdet : Deterministic comp f)
    {trim : Store K V → Store K V} (htrim : ∀ m e, e ∈ trim m → e ∈ m)
    {progs : List (List K)} (sched : List Nat) : ∀ {c : Conf K V}, Inv f progs c → Inv f progs (run comp trim c sched) := by
  induction sched with
  | nil => intro c h; exact h
  | cons i rest ih =>
    intro c h
    simp only [run, List.foldl_cons]
    cases hs : stepThread comp trim c i with
    | none => exact ih h
    | some c' => exact ih (inv_step hdet htrim h i hs)

/-- Without eviction the stored values of finished calls stay. -/
theorem complete_step {comp : Comp K V} {f : K → Outcome V} (hdet : Deterministic comp f)
    {progs : List (List K)} {c c' : Conf K V} (h : Inv f progs c) (hc : Complete f c) (i : Nat)
    (hs : stepThread comp id c i = some c') : Complete f c' := by
  unfold stepThread at hs
  cases hi : c.threads[i]? with
  | none => simp [hi] at hs
  | some th =>
    simp only [hi] at hs
    have t := h.thr i th hi
    cases hp : th.prog with
    | nil => simp [hp] at hs
    | cons k rest =>
      simp only [hp] at hs
      cases hpc : th.pc with
      | idle =>
        simp only [hpc] at hs
        cases hg : c.cache.get k with
        | some v =>
          simp only [hg, Option.some.injEq] at hs
          subst hs
          have hv : f k = .ok v := h.sound k v (Store.get_some_mem _ _ _ hg)
          refine ⟨?_, hc.nodup⟩
          intro j thj hj k0 hk0 v0 hv0
          rcases getElem?_set_cases _ _ _ _ _ hj with ⟨rfl, rfl⟩ | ⟨_, hj'⟩
          · rcases List.mem_append.mp hk0 with hm | hm
            · exact hc.stored j th hi k0 hm v0 hv0
            · have : k0 = k := by simpa using hm
              subst this
              rw [hv] at hv0; cases hv0; exact hg
          · exact hc.stored j thj hj' k0 hk0 v0 hv0
        | none =>
          simp only [hg, Option.some.injEq] at hs
          subst hs
          refine ⟨?_, hc.nodup⟩
          intro j thj hj k0 hk0 v0 hv0
          rcases getElem?_set_cases _ _ _ _ _ hj with ⟨rfl, rfl⟩ | ⟨_, hj'⟩
          · exact hc.stored j th hi k0 hk0 v0 hv0
          · exact hc.stored j thj hj' k0 hk0 v0 hv0
      | missed =>
        simp only [hpc, hdet i c.clock c.cache k] at hs
        cases hf : f k with
        | ok v =>
          simp only [hf, Option.some.injEq] at hs
          subst hs
          refine ⟨?_, hc.nodup⟩
          intro j thj hj k0 hk0 v0 hv0
          rcases getElem?_set_cases _ _ _ _ _ hj with ⟨rfl, rfl⟩ | ⟨_, hj'⟩
          · exact hc.stored j th hi k0 hk0 v0 hv0
          · exact hc.stored j thj hj' k0 hk0 v0 hv0
        | raised e =>
          simp only [hf, Option.some.injEq] at hs
          subst hs
          refine ⟨?_, hc.nodup⟩
          intro j thj hj k0 hk0 v0 hv0
          rcases getElem?_set_cases _ _ _ _ _ hj with ⟨rfl, rfl⟩ | ⟨_, hj'⟩
          · rcases List.mem_append.mp hk0 with hm | hm
            · exact hc.stored j th hi k0 hm v0 hv0
            · have : k0 = k := by simpa using hm
              subst this
              rw [hf] at hv0; cases hv0
          · exact hc.stored j thj hj' k0 hk0 v0 hv0
      | computed v =>
        simp only [hpc, Option.some.injEq, id] at hs
        subst hs
        obtain ⟨k', rest', hp', hv⟩ := t.pend v hpc
        rw [hp] at hp'
        obtain ⟨rfl, rfl⟩ := List.cons.inj hp'
        -- a stored value for a key can only be overwritten by the same value
        have keep : ∀ k0 v0, f k0 = .ok v0 → c.cache.get k0 = some v0 → (c.cache.put k v).get k0 = some v0 := by
          intro k0 v0 hv0 hg
          by_cases hk : k0 = k
          · subst hk
            rw [hv] at hv0; cases hv0
            exact Store.get_put_self _ _ _
          · rw [Store.get_put_other _ _ _ _ hk]; exact hg
        refine ⟨?_, Store.keys_put_nodup _ _ _ hc.nodup⟩
        intro j thj hj k0 hk0 v0 hv0
        rcases getElem?_set_cases _ _ _ _ _ hj with ⟨rfl, rfl⟩ | ⟨_, hj'⟩
        · rcases List.mem_append.mp hk0 with hm | hm
          · exact keep k0 v0 hv0 (hc.stored j th hi k0 hm v0 hv0)
          · have : k0 = k := by simpa using hm
            subst this
            rw [hv] at hv0; cases hv0
            exact Store.get_put_self _ _ _
        · exact keep k0 v0 hv0 (hc.stored j thj hj' k0 hk0 v0 hv0)

theorem complete_run {comp : Comp K V} {f : K → Outcome V} (hdet : Deterministic comp f)
    {progs : List (List K)} (sched : List Nat) :
    ∀ {c : Conf K V}, Inv f progs c → Complete f c → Complete f (run comp id c sched) := by
  induction sched with
  | nil => intro c _ hc; exact hc
  | cons i rest ih =>
    intro c h hc
    simp only [run, List.foldl_cons]
    cases hs : stepThread comp id c i with
    | none => exact ih h hc
    | some c' => exact ih (inv_step hdet (fun _ _ he => he) h i hs) (complete_step hdet h hc i hs)

/-! ### Progress -/

theorem sum_set_lt (l : List Nat) (i : Nat) (x y : Nat) (hi : l[i]? = some x) (hxy : y < x) : (l.set i y).sum < l.sum := by
  induction l generalizing i with
  | nil => simp at hi
  | cons a r ih =>
    cases i with
    | zero => simp at hi; subst hi; simp; omega
    | succ n =>
      simp only [List.getElem?_cons_succ] at hi
      have := ih n hi
      simp only [List.set_cons_succ, List.sum_cons]
      omega

theorem measure_set (c : Conf K V) (i : Nat) (th th' : Thread K V) (hi : c.threads[i]? = some th) (hlt : th'.measure < th.measure) :
    ((c.threads.set i th').map Thread.measure).sum < (c.threads.map Thread.measure).sum := by
  rw [List.map_set]
  exact sum_set_lt _ i _ _ (by simp [hi]) hlt

/-- Every step strictly decreases the measure. -/
theorem step_measure_lt {comp : Comp K V} {trim : Store K V → Store K V} {c c' : Conf K V} (i : Nat)
    (hs : stepThread comp trim c i = some c') : c'.measure < c.measure := by
  unfold stepThread at hs
  cases hi : c.threads[i]? with
  | none => simp [hi] at hs
  | some th =>
    simp only [hi] at hs
    cases hp : th.prog with
    | nil => simp [hp] at hs
    | cons k rest =>
      simp only [hp] at hs
      cases hpc : th.pc with
      | idle =>
        simp only [hpc] at hs
        cases hg : c.cache.get k with
        | some v =>
          simp only [hg, Option.some.injEq] at hs
          subst hs
          exact measure_set c i th _ hi (by simp [Thread.measure, hp, hpc] <;> omega)
        | none =>
          simp only [hg, Option.some.injEq] at hs
          subst hs
          exact measure_set c i th _ hi (by simp [Thread.measure, hp, hpc] <;> omega)
      | missed =>
        simp only [hpc] at hs
        cases hf : comp i c.clock c.cache k with
        | ok v =>
          simp only [hf, Option.some.injEq] at hs
          subst hs
          exact measure_set c i th _ hi (by simp [Thread.measure, hp, hpc] <;> omega)
        | raised e =>
          simp only [hf, Option.some.injEq] at hs
          subst hs
          exact measure_set c i th _ hi (by simp [Thread.measure, hp, hpc] <;> omega)
      | computed v =>
        simp only [hpc, Option.some.injEq] at hs
        subst hs
        exact measure_set c i th _ hi (by simp [Thread.measure, hp, hpc] <;> omega)

/-- A thread with calls left is enabled (there is no lock to wait for). -/
theorem enabled_of_prog {comp : Comp K V} {trim : Store K V → Store K V} {c : Conf K V} {i : Nat} {th : Thread K V}
    (hi : c.threads[i]? = some th) (hp : th.prog ≠ []) : (stepThread comp trim c i).isSome = true := by
  unfold stepThread
  simp only [hi]
  cases hprog : th.prog with
  | nil => exact absurd hprog hp
  | cons k rest =>
    simp only
    cases th.pc with
    | idle => simp only; cases c.cache.get k <;> simp
    | missed => simp only; cases comp i c.clock c.cache k <;> simp
    | computed v => simp

theorem zip_filter_map {α β : Type} (g : α → β) (q : α → Bool) : ∀ l : List α,
    ((l.zip (l.map g)).filter (fun e => q e.1)).map (·.2) = (l.filter q).map g
  | [] => rfl
  | a :: l => by
    simp only [List.map_cons, List.zip_cons_cons, List.filter_cons]
    cases q a <;> simp [zip_filter_map g q l]

end Einx.Cache.Conc
