import EinxModel.Solve.Cse
import EinxModel.Solve.Tree
/-!
Helper lemmas for the CSE part of C02 (`Solve/Cse.lean`):

* arithmetic of the sum rule and the product rule of `_value_range` on lists of child ranges
  (`OkTs rs ts`: the targets `ts` are admissible values of children with ranges `rs`);
* congruence of `evalV` / `Admissible` in the unknown axes;
* `valueRange_spec_aux`: lower bound and *surjectivity* of the value of an expression onto its
  range, by mutual structural induction (the assignment is exhibited child by child; children
  have disjoint axes because no name repeats);
* evaluation of `mulPoly`, `polyOf`, `substPoly`.
-/
namespace Einx.Solve

/-! ### Targets admissible for a range -/

/-- `t` is a value a child with range `r` may take: `>= minimum` if unbounded, `= minimum` else. -/
def okT (r : Nat × Bool) (t : Nat) : Prop := if r.2 = true then r.1 ≤ t else t = r.1

def OkTs : List (Nat × Bool) → List Nat → Prop
  | [], [] => True
  | r :: rs, t :: ts => okT r t ∧ OkTs rs ts
  | _, _ => False

theorem unb_cons_true (m : Nat) (rs : List (Nat × Bool)) :
    unboundedMins ((m, true) :: rs) = m :: unboundedMins rs := by simp [unboundedMins]
theorem unb_cons_false (m : Nat) (rs : List (Nat × Bool)) :
    unboundedMins ((m, false) :: rs) = unboundedMins rs := by simp [unboundedMins]
theorem fix_cons_true (m : Nat) (rs : List (Nat × Bool)) :
    fixedMins ((m, true) :: rs) = fixedMins rs := by simp [fixedMins]
theorem fix_cons_false (m : Nat) (rs : List (Nat × Bool)) :
    fixedMins ((m, false) :: rs) = m :: fixedMins rs := by simp [fixedMins]

/-- the minimal targets -/
theorem okTs_mins (rs : List (Nat × Bool)) : OkTs rs (rs.map (·.1)) := by
  induction rs with
  | nil => simp [OkTs]
  | cons r rs ih =>
    refine ⟨?_, ih⟩
    unfold okT; split <;> simp

/-! #### Sum rule -/

theorem sum_lower {rs : List (Nat × Bool)} {ts : List Nat} (h : OkTs rs ts) :
    (unboundedMins rs).sum + (fixedMins rs).sum ≤ ts.sum := by
  induction rs generalizing ts with
  | nil => cases ts <;> simp [unboundedMins, fixedMins]
  | cons r rs ih =>
    cases ts with
    | nil => simp [OkTs] at h
    | cons t ts =>
      obtain ⟨h1, h2⟩ := h
      have := ih h2
      obtain ⟨m, b⟩ := r
      cases b with
      | true =>
        simp only [okT] at h1; simp at h1
        rw [unb_cons_true, fix_cons_true]; simp only [List.sum_cons]; omega
      | false =>
        simp only [okT] at h1; simp at h1
        rw [unb_cons_false, fix_cons_false]; simp only [List.sum_cons]; omega

theorem sum_fixed {rs : List (Nat × Bool)} {ts : List Nat} (h : OkTs rs ts)
    (hu : (unboundedMins rs).length = 0) : ts.sum = (unboundedMins rs).sum + (fixedMins rs).sum := by
  induction rs generalizing ts with
  | nil => cases ts <;> simp [OkTs, unboundedMins, fixedMins] at h ⊢
  | cons r rs ih =>
    cases ts with
    | nil => simp [OkTs] at h
    | cons t ts =>
      obtain ⟨h1, h2⟩ := h
      obtain ⟨m, b⟩ := r
      cases b with
      | true => rw [unb_cons_true] at hu; simp at hu
      | false =>
        rw [unb_cons_false] at hu
        have := ih h2 hu
        simp only [okT] at h1; simp at h1
        rw [unb_cons_false, fix_cons_false]; simp only [List.sum_cons]; omega

theorem sum_min_exists (rs : List (Nat × Bool)) :
    ∃ ts, OkTs rs ts ∧ ts.sum = (unboundedMins rs).sum + (fixedMins rs).sum := by
  induction rs with
  | nil => exact ⟨[], by simp [OkTs], by simp [unboundedMins, fixedMins]⟩
  | cons r rs ih =>
    obtain ⟨ts, h1, h2⟩ := ih
    obtain ⟨m, b⟩ := r
    refine ⟨m :: ts, ⟨?_, h1⟩, ?_⟩
    · unfold okT; split <;> simp
    · cases b with
      | true => rw [unb_cons_true, fix_cons_true]; simp only [List.sum_cons]; omega
      | false => rw [unb_cons_false, fix_cons_false]; simp only [List.sum_cons]; omega

/-- **Surjectivity of the sum rule**: with an unbounded child every `n >= total` is reached. -/
theorem sum_exists {rs : List (Nat × Bool)} (hu : 0 < (unboundedMins rs).length) (n : Nat)
    (hn : (unboundedMins rs).sum + (fixedMins rs).sum ≤ n) : ∃ ts, OkTs rs ts ∧ ts.sum = n := by
  induction rs generalizing n with
  | nil => simp [unboundedMins] at hu
  | cons r rs ih =>
    obtain ⟨m, b⟩ := r
    cases b with
    | true =>
      obtain ⟨ts, h1, h2⟩ := sum_min_exists rs
      rw [unb_cons_true, fix_cons_true] at hn; simp only [List.sum_cons] at hn
      refine ⟨(n - ts.sum) :: ts, ⟨?_, h1⟩, ?_⟩
      · simp only [okT]; simp; omega
      · simp only [List.sum_cons]; omega
    | false =>
      rw [unb_cons_false] at hu
      rw [unb_cons_false, fix_cons_false] at hn; simp only [List.sum_cons] at hn
      obtain ⟨ts, h1, h2⟩ := ih hu (n - m) (by omega)
      refine ⟨m :: ts, ⟨?_, h1⟩, ?_⟩
      · simp [okT]
      · simp only [List.sum_cons]; omega

/-! #### Product rule -/

theorem prod_fixed {rs : List (Nat × Bool)} {ts : List Nat} (h : OkTs rs ts)
    (hu : (unboundedMins rs).length = 0) : natProd ts = natProd (fixedMins rs) := by
  induction rs generalizing ts with
  | nil => cases ts <;> simp [OkTs, fixedMins, natProd] at h ⊢
  | cons r rs ih =>
    cases ts with
    | nil => simp [OkTs] at h
    | cons t ts =>
      obtain ⟨h1, h2⟩ := h
      obtain ⟨m, b⟩ := r
      cases b with
      | true => rw [unb_cons_true] at hu; simp at hu
      | false =>
        rw [unb_cons_false] at hu
        simp only [okT] at h1; simp at h1
        rw [fix_cons_false]; simp only [natProd]; rw [ih h2 hu, h1]

theorem listMax_le_of_forall {l : List Nat} {b : Nat} (h : ∀ x ∈ l, x ≤ b) : listMax l ≤ b := by
  induction l with
  | nil => simp [listMax]
  | cons x xs ih =>
    simp only [listMax]
    have h1 := h x List.mem_cons_self
    have h2 := ih (fun y hy => h y (List.mem_cons_of_mem _ hy))
    omega

theorem le_listMax {l : List Nat} {x : Nat} (h : x ∈ l) : x ≤ listMax l := by
  induction l with
  | nil => cases h
  | cons y ys ih =>
    simp only [listMax]
    cases h with
    | head => omega
    | tail _ h' => have := ih h'; omega

/-- **Lower bound of the product rule.** -/
theorem prod_lower {rs : List (Nat × Bool)} {ts : List Nat} (h : OkTs rs ts)
    (hf : ∀ v ∈ fixedMins rs, v = 1) (hpos : ∀ m ∈ unboundedMins rs, 1 ≤ m) :
    1 ≤ natProd ts ∧ listMax (unboundedMins rs) ≤ natProd ts := by
  induction rs generalizing ts with
  | nil => cases ts <;> simp [OkTs, natProd, unboundedMins, listMax] at h ⊢
  | cons r rs ih =>
    cases ts with
    | nil => simp [OkTs] at h
    | cons t ts =>
      obtain ⟨h1, h2⟩ := h
      obtain ⟨m, b⟩ := r
      cases b with
      | true =>
        rw [unb_cons_true] at hpos ⊢; rw [fix_cons_true] at hf
        simp only [okT] at h1; simp at h1
        obtain ⟨i1, i2⟩ := ih h2 hf (fun m' hm' => hpos m' (List.mem_cons_of_mem _ hm'))
        have hm := hpos m List.mem_cons_self
        simp only [natProd, listMax]
        have ht : 1 ≤ t := by omega
        have e1 : t ≤ t * natProd ts := Nat.le_mul_of_pos_right t i1
        have e2 : natProd ts ≤ t * natProd ts := Nat.le_mul_of_pos_left (natProd ts) ht
        refine ⟨by omega, by omega⟩
      | false =>
        rw [unb_cons_false] at hpos ⊢; rw [fix_cons_false] at hf
        simp only [okT] at h1; simp at h1
        obtain ⟨i1, i2⟩ := ih h2 (fun v hv => hf v (List.mem_cons_of_mem _ hv)) hpos
        have hm := hf m List.mem_cons_self
        subst h1; subst hm
        simp only [natProd, Nat.one_mul]
        exact ⟨i1, i2⟩

/-- every child can take the value 1 when no minimum exceeds 1 -/
theorem prod_ones {rs : List (Nat × Bool)} (hf : ∀ v ∈ fixedMins rs, v = 1)
    (hc : ((unboundedMins rs).filter (fun v => decide (v > 1))).length = 0) :
    ∃ ts, OkTs rs ts ∧ natProd ts = 1 := by
  induction rs with
  | nil => exact ⟨[], by simp [OkTs], by simp [natProd]⟩
  | cons r rs ih =>
    obtain ⟨m, b⟩ := r
    cases b with
    | true =>
      rw [fix_cons_true] at hf; rw [unb_cons_true] at hc
      by_cases hm : m > 1
      · simp [hm] at hc
      · have hc' : ((unboundedMins rs).filter (fun v => decide (v > 1))).length = 0 := by
          simpa [List.filter_cons, hm] using hc
        obtain ⟨ts, h1, h2⟩ := ih hf hc'
        refine ⟨1 :: ts, ⟨?_, h1⟩, by simp [natProd, h2]⟩
        simp only [okT]; simp; omega
    | false =>
      rw [fix_cons_false] at hf; rw [unb_cons_false] at hc
      obtain ⟨ts, h1, h2⟩ := ih (fun v hv => hf v (List.mem_cons_of_mem _ hv)) hc
      have hm := hf m List.mem_cons_self
      exact ⟨1 :: ts, ⟨by simp [okT, hm], h1⟩, by simp [natProd, h2]⟩

/-- **Surjectivity of the product rule**: all constants are 1, at most one unbounded child has a
minimum above 1 — give `n` to that child (or to the first unbounded one) and 1 to the others. -/
theorem prod_exists {rs : List (Nat × Bool)} (hf : ∀ v ∈ fixedMins rs, v = 1)
    (hc : ((unboundedMins rs).filter (fun v => decide (v > 1))).length ≤ 1)
    (hpos : ∀ m ∈ unboundedMins rs, 1 ≤ m) (hu : 0 < (unboundedMins rs).length) (n : Nat)
    (hn : listMax (unboundedMins rs) ≤ n) : ∃ ts, OkTs rs ts ∧ natProd ts = n := by
  induction rs with
  | nil => simp [unboundedMins] at hu
  | cons r rs ih =>
    obtain ⟨m, b⟩ := r
    cases b with
    | true =>
      rw [fix_cons_true] at hf; rw [unb_cons_true] at hc hpos hn
      simp only [listMax] at hn
      by_cases h0 : ((unboundedMins rs).filter (fun v => decide (v > 1))).length = 0
      · -- the rest can be all ones; this child takes n
        obtain ⟨ts, h1, h2⟩ := prod_ones hf h0
        refine ⟨n :: ts, ⟨?_, h1⟩, by simp [natProd, h2]⟩
        simp only [okT]; simp; omega
      · -- another child has a minimum above 1, so this one has minimum 1 and takes 1
        have hm1 : ¬ m > 1 := by
          intro hm
          have e : ((m :: unboundedMins rs).filter (fun v => decide (v > 1))).length =
              ((unboundedMins rs).filter (fun v => decide (v > 1))).length + 1 := by
            simp [hm]
          omega
        have hc' : ((unboundedMins rs).filter (fun v => decide (v > 1))).length ≤ 1 := by
          simpa [List.filter_cons, hm1] using hc
        have hu' : 0 < (unboundedMins rs).length := by
          cases hl : unboundedMins rs with
          | nil => rw [hl] at h0; simp at h0
          | cons _ _ => simp
        obtain ⟨ts, h1, h2⟩ := ih hf hc' (fun m' hm' => hpos m' (List.mem_cons_of_mem _ hm')) hu' (by omega)
        have := hpos m List.mem_cons_self
        refine ⟨1 :: ts, ⟨?_, h1⟩, by simp [natProd, h2]⟩
        simp only [okT]; simp; omega
    | false =>
      rw [fix_cons_false] at hf; rw [unb_cons_false] at hc hpos hn hu
      obtain ⟨ts, h1, h2⟩ := ih (fun v hv => hf v (List.mem_cons_of_mem _ hv)) hc hpos hu hn
      have hm := hf m List.mem_cons_self
      exact ⟨1 :: ts, ⟨by simp [okT, hm], h1⟩, by simp [natProd, h2]⟩

/-! ### Unpacking `combineRanges` -/

theorem ranges_all_some {ranges : List (Option (Nat × Bool))}
    (h : ranges.any (fun r => r.isNone) = false) :
    ∃ rs : List (Nat × Bool), ranges = rs.map some ∧ ranges.filterMap id = rs := by
  induction ranges with
  | nil => exact ⟨[], rfl, rfl⟩
  | cons r ranges ih =>
    simp only [List.any_cons, Bool.or_eq_false_iff] at h
    obtain ⟨rs, e1, e2⟩ := ih h.2
    cases r with
    | none => simp at h
    | some v => exact ⟨v :: rs, by simp [e1], by simp [e2]⟩

theorem combine_some {isConcat : Bool} {ranges : List (Option (Nat × Bool))} {m : Nat} {ub : Bool}
    (h : combineRanges isConcat ranges = some (m, ub)) :
    ∃ rs : List (Nat × Bool), ranges = rs.map some ∧
      (if isConcat then
        (m, ub) = ((unboundedMins rs).sum + (fixedMins rs).sum, decide ((unboundedMins rs).length > 0))
       else if (unboundedMins rs).length = 0 then (m, ub) = (natProd (fixedMins rs), false)
       else (m, ub) = (listMax (unboundedMins rs), true) ∧ (∀ v ∈ fixedMins rs, v = 1) ∧
            ((unboundedMins rs).filter (fun v => decide (v > 1))).length ≤ 1) := by
  unfold combineRanges at h
  split at h
  · cases h
  · rename_i hany
    have hany' : ranges.any (fun r => r.isNone) = false := (Bool.not_eq_true _).mp hany
    obtain ⟨rs, e1, e2⟩ := ranges_all_some hany'
    refine ⟨rs, e1, ?_⟩
    simp only [e2] at h
    split at h
    · rename_i hc; simp only [hc, if_true]; injection h with h; exact h.symm
    · rename_i hc
      simp only [hc]
      split at h
      · rename_i hu; simp only [hu, if_true]; injection h with h; exact h.symm
      · rename_i hu
        simp only [hu, if_false]
        split at h
        · rename_i hcond
          simp only [Bool.and_eq_true, List.all_eq_true, beq_iff_eq, decide_eq_true_eq] at hcond
          injection h with h
          exact ⟨h.symm, hcond.1, hcond.2⟩
        · cases h

/-! ### Structural lemmas on expressions -/

mutual
theorem evalV_congr (σ τ : Var → Nat) : ∀ e : VExpr, (∀ p ∈ freeAxes e, σ p.1 = τ p.1) → evalV σ e = evalV τ e
  | .axis n none m => by intro h; simpa [evalV, freeAxes] using h
  | .axis _ (some v) _ => by intro _; simp [evalV]
  | .flat e => by intro h; simp only [evalV]; exact evalV_congr σ τ e (by simpa [freeAxes] using h)
  | .brackets e => by intro h; simp only [evalV]; exact evalV_congr σ τ e (by simpa [freeAxes] using h)
  | .list cs => by intro h; simp only [evalV]; rw [evalVL_congr σ τ cs (by simpa [freeAxes] using h)]
  | .concat cs => by intro h; simp only [evalV]; rw [evalVL_congr σ τ cs (by simpa [freeAxes] using h)]
theorem evalVL_congr (σ τ : Var → Nat) : ∀ cs : List VExpr, (∀ p ∈ freeAxesL cs, σ p.1 = τ p.1) → evalVL σ cs = evalVL τ cs
  | [] => by intro _; simp [evalVL]
  | c :: cs => by
    intro h
    simp only [evalVL]
    rw [evalV_congr σ τ c (fun p hp => h p (by simp [freeAxesL, hp])),
        evalVL_congr σ τ cs (fun p hp => h p (by simp [freeAxesL, hp]))]
end

mutual
theorem freeAxes_names : ∀ e : VExpr, ∀ p ∈ freeAxes e, p.1 ∈ axisNames e
  | .axis n none m => by intro p hp; simp [freeAxes] at hp; simp [axisNames, hp]
  | .axis _ (some v) _ => by intro p hp; simp [freeAxes] at hp
  | .flat e => by intro p hp; simp only [freeAxes] at hp; simp only [axisNames]; exact freeAxes_names e p hp
  | .brackets e => by intro p hp; simp only [freeAxes] at hp; simp only [axisNames]; exact freeAxes_names e p hp
  | .list cs => by intro p hp; simp only [freeAxes] at hp; simp only [axisNames]; exact freeAxesL_names cs p hp
  | .concat cs => by intro p hp; simp only [freeAxes] at hp; simp only [axisNames]; exact freeAxesL_names cs p hp
theorem freeAxesL_names : ∀ cs : List VExpr, ∀ p ∈ freeAxesL cs, p.1 ∈ axisNamesL cs
  | [] => by intro p hp; simp [freeAxesL] at hp
  | c :: cs => by
    intro p hp
    simp only [freeAxesL, List.mem_append] at hp
    simp only [axisNamesL, List.mem_append]
    cases hp with
    | inl h => exact Or.inl (freeAxes_names c p h)
    | inr h => exact Or.inr (freeAxesL_names cs p h)
end

/-- names of the unknown axes -/
def freeNames (e : VExpr) : List Var := (freeAxes e).map (·.1)

theorem mem_freeNames {e : VExpr} {p : Var × Nat} (h : p ∈ freeAxes e) : p.1 ∈ freeNames e :=
  List.mem_map_of_mem h

/-! ### The specification of `valueRange`, by mutual induction -/

mutual
theorem valueRange_spec_aux : ∀ (e : VExpr) (m : Nat) (ub : Bool), valueRange e = some (m, ub) →
    (axisNames e).Nodup → (∀ p ∈ freeAxes e, 1 ≤ p.2) →
    (ub = true → 1 ≤ m) ∧
    (∀ σ : Var → Nat, (∀ p ∈ freeAxes e, p.2 ≤ σ p.1) → okT (m, ub) (evalV σ e)) ∧
    (∀ (σ₀ : Var → Nat) (t : Nat), okT (m, ub) t →
      ∃ σ : Var → Nat, (∀ x, x ∉ (freeAxes e).map (·.1) → σ x = σ₀ x) ∧
        (∀ p ∈ freeAxes e, p.2 ≤ σ p.1) ∧ evalV σ e = t)
  | .axis n none mn, m, ub => by
    intro h _ hpos
    simp only [valueRange, Option.some.injEq, Prod.mk.injEq] at h
    obtain ⟨rfl, rfl⟩ := h
    refine ⟨fun _ => hpos (n, mn) (by simp [freeAxes]), ?_, ?_⟩
    · intro σ hσ
      have := hσ (n, mn) (by simp [freeAxes])
      simpa [okT, evalV] using this
    · intro σ₀ t ht
      simp only [okT] at ht; simp at ht
      refine ⟨update σ₀ n t, ?_, ?_, ?_⟩
      · intro x hx
        simp only [freeAxes, List.map_cons, List.map_nil, List.mem_singleton] at hx
        simp [update, hx]
      · intro p hp
        simp only [freeAxes, List.mem_singleton] at hp
        subst hp
        simpa [update] using ht
      · simp [evalV, update]
  | .axis _ (some v) _, m, ub => by
    intro h _ _
    simp only [valueRange, Option.some.injEq, Prod.mk.injEq] at h
    obtain ⟨rfl, rfl⟩ := h
    refine ⟨by simp, ?_, ?_⟩
    · intro σ _; simp [okT, evalV]
    · intro σ₀ t ht
      simp only [okT] at ht; simp at ht
      exact ⟨σ₀, fun _ _ => rfl, by simp [freeAxes], by simp [evalV, ht]⟩
  | .flat e, m, ub => by
    intro h hnd hpos
    simp only [valueRange] at h
    simp only [axisNames] at hnd
    simp only [freeAxes, evalV] at hpos ⊢
    exact valueRange_spec_aux e m ub h hnd hpos
  | .brackets e, m, ub => by
    intro h hnd hpos
    simp only [valueRange] at h
    simp only [axisNames] at hnd
    simp only [freeAxes, evalV] at hpos ⊢
    exact valueRange_spec_aux e m ub h hnd hpos
  | .list cs, m, ub => by
    intro h hnd hpos
    simp only [valueRange] at h
    simp only [axisNames] at hnd
    simp only [freeAxes, evalV] at hpos ⊢
    obtain ⟨rs, hrs, hcase⟩ := combine_some h
    obtain ⟨hge, hlow, hex⟩ := valueRangeL_spec_aux cs rs hrs hnd hpos
    simp only [Bool.false_eq_true, if_false] at hcase
    have hposU : ∀ m' ∈ unboundedMins rs, 1 ≤ m' := by
      intro m' hm'
      simp only [unboundedMins, List.mem_map, List.mem_filter] at hm'
      obtain ⟨r, ⟨hr, hr2⟩, rfl⟩ := hm'
      exact hge r hr hr2
    by_cases hu : (unboundedMins rs).length = 0
    · simp only [hu, if_true, Prod.mk.injEq] at hcase
      obtain ⟨rfl, rfl⟩ := hcase
      refine ⟨by simp, ?_, ?_⟩
      · intro σ hσ
        simp only [okT]; simp
        exact prod_fixed (hlow σ hσ) hu
      · intro σ₀ t ht
        simp only [okT] at ht; simp at ht
        obtain ⟨σ, h1, h2, h3⟩ := hex σ₀ _ (okTs_mins rs)
        refine ⟨σ, h1, h2, ?_⟩
        rw [h3, ht]; exact prod_fixed (okTs_mins rs) hu
    · simp only [hu, if_false, Prod.mk.injEq] at hcase
      obtain ⟨⟨rfl, rfl⟩, hf, hc⟩ := hcase
      have hu' : 0 < (unboundedMins rs).length := by omega
      refine ⟨fun _ => ?_, ?_, ?_⟩
      · cases hl : unboundedMins rs with
        | nil => rw [hl] at hu; simp at hu
        | cons x xs =>
          have := hposU x (by rw [hl]; exact List.mem_cons_self)
          simp only [listMax]; omega
      · intro σ hσ
        simp only [okT]; simp
        exact (prod_lower (hlow σ hσ) hf hposU).2
      · intro σ₀ t ht
        simp only [okT] at ht; simp at ht
        obtain ⟨ts, ho, hp⟩ := prod_exists hf hc hposU hu' t ht
        obtain ⟨σ, h1, h2, h3⟩ := hex σ₀ ts ho
        exact ⟨σ, h1, h2, by rw [h3, hp]⟩
  | .concat cs, m, ub => by
    intro h hnd hpos
    simp only [valueRange] at h
    simp only [axisNames] at hnd
    simp only [freeAxes, evalV] at hpos ⊢
    obtain ⟨rs, hrs, hcase⟩ := combine_some h
    obtain ⟨hge, hlow, hex⟩ := valueRangeL_spec_aux cs rs hrs hnd hpos
    simp only [if_true, Prod.mk.injEq] at hcase
    obtain ⟨rfl, rfl⟩ := hcase
    have hposU : ∀ m' ∈ unboundedMins rs, 1 ≤ m' := by
      intro m' hm'
      simp only [unboundedMins, List.mem_map, List.mem_filter] at hm'
      obtain ⟨r, ⟨hr, hr2⟩, rfl⟩ := hm'
      exact hge r hr hr2
    by_cases hu : (unboundedMins rs).length = 0
    · have hd : decide ((unboundedMins rs).length > 0) = false := by simp [hu]
      rw [hd]
      refine ⟨by simp, ?_, ?_⟩
      · intro σ hσ
        simp only [okT]; simp
        exact sum_fixed (hlow σ hσ) hu
      · intro σ₀ t ht
        simp only [okT] at ht; simp at ht
        obtain ⟨σ, h1, h2, h3⟩ := hex σ₀ _ (okTs_mins rs)
        refine ⟨σ, h1, h2, ?_⟩
        rw [h3, ht]; exact sum_fixed (okTs_mins rs) hu
    · have hu' : 0 < (unboundedMins rs).length := by omega
      have hd : decide ((unboundedMins rs).length > 0) = true := by simp [hu']
      rw [hd]
      refine ⟨fun _ => ?_, ?_, ?_⟩
      · cases hl : unboundedMins rs with
        | nil => rw [hl] at hu; simp at hu
        | cons x xs =>
          have := hposU x (by rw [hl]; exact List.mem_cons_self)
          simp only [List.sum_cons]; omega
      · intro σ hσ
        simp only [okT]; simp
        exact sum_lower (hlow σ hσ)
      · intro σ₀ t ht
        simp only [okT] at ht; simp at ht
        obtain ⟨ts, ho, hp⟩ := sum_exists hu' t ht
        obtain ⟨σ, h1, h2, h3⟩ := hex σ₀ ts ho
        exact ⟨σ, h1, h2, by rw [h3, hp]⟩
theorem valueRangeL_spec_aux : ∀ (cs : List VExpr) (rs : List (Nat × Bool)), valueRanges cs = rs.map some →
    (axisNamesL cs).Nodup → (∀ p ∈ freeAxesL cs, 1 ≤ p.2) →
    (∀ r ∈ rs, r.2 = true → 1 ≤ r.1) ∧
    (∀ σ : Var → Nat, (∀ p ∈ freeAxesL cs, p.2 ≤ σ p.1) → OkTs rs (evalVL σ cs)) ∧
    (∀ (σ₀ : Var → Nat) (ts : List Nat), OkTs rs ts →
      ∃ σ : Var → Nat, (∀ x, x ∉ (freeAxesL cs).map (·.1) → σ x = σ₀ x) ∧
        (∀ p ∈ freeAxesL cs, p.2 ≤ σ p.1) ∧ evalVL σ cs = ts)
  | [], rs => by
    intro h _ _
    simp only [valueRanges] at h
    have : rs = [] := by cases rs <;> simp at h ⊢
    subst this
    refine ⟨by simp, fun _ _ => by simp [OkTs, evalVL], ?_⟩
    intro σ₀ ts ht
    cases ts with
    | nil => exact ⟨σ₀, fun _ _ => rfl, by simp [freeAxesL], by simp [evalVL]⟩
    | cons _ _ => simp [OkTs] at ht
  | c :: cs, rs => by
    intro h hnd hpos
    simp only [valueRanges] at h
    cases rs with
    | nil => simp at h
    | cons r rs =>
      simp only [List.map_cons, List.cons.injEq] at h
      obtain ⟨hc, hcs⟩ := h
      simp only [axisNamesL] at hnd
      have hnd' := List.nodup_append.mp hnd
      obtain ⟨hnd1, hnd2, hdisj⟩ := hnd'
      simp only [freeAxesL, List.mem_append] at hpos
      obtain ⟨g1, l1, x1⟩ := valueRange_spec_aux c r.1 r.2 hc hnd1 (fun p hp => hpos p (Or.inl hp))
      obtain ⟨g2, l2, x2⟩ := valueRangeL_spec_aux cs rs hcs hnd2 (fun p hp => hpos p (Or.inr hp))
      refine ⟨?_, ?_, ?_⟩
      · intro r' hr'
        cases hr' with
        | head => exact g1
        | tail _ h' => exact g2 r' h'
      · intro σ hσ
        simp only [freeAxesL, List.mem_append] at hσ
        exact ⟨l1 σ (fun p hp => hσ p (Or.inl hp)), l2 σ (fun p hp => hσ p (Or.inr hp))⟩
      · intro σ₀ ts ht
        cases ts with
        | nil => simp [OkTs] at ht
        | cons t ts =>
          obtain ⟨ht1, ht2⟩ := ht
          -- first the tail, then the head on top of it; the head's axes do not occur in the tail
          obtain ⟨σ₁, a1, b1, c1⟩ := x2 σ₀ ts ht2
          obtain ⟨σ, a2, b2, c2⟩ := x1 σ₁ t ht1
          have hkeep : ∀ p ∈ freeAxesL cs, σ p.1 = σ₁ p.1 := by
            intro p hp
            apply a2
            intro hmem
            simp only [List.mem_map] at hmem
            obtain ⟨q, hq, hqe⟩ := hmem
            have n1 := freeAxes_names c q hq
            have n2 := freeAxesL_names cs p hp
            exact hdisj _ n1 _ n2 hqe
          refine ⟨σ, ?_, ?_, ?_⟩
          · intro x hx
            simp only [freeAxesL, List.map_append, List.mem_append, not_or] at hx
            rw [a2 x hx.1, a1 x hx.2]
          · intro p hp
            simp only [freeAxesL, List.mem_append] at hp
            cases hp with
            | inl hp => exact b2 p hp
            | inr hp => rw [hkeep p hp]; exact b1 p hp
          · simp only [evalVL, c2]
            rw [evalVL_congr σ σ₁ cs hkeep, c1]
end

/-! ### Repeated names -/

theorem hasDup_false_iff (l : List String) : hasDup l = false ↔ l.Nodup := by
  induction l with
  | nil => simp [hasDup]
  | cons x xs ih =>
    simp only [hasDup, Bool.or_eq_false_iff, List.nodup_cons, ih]
    simp

/-! ### Polynomials -/

theorem evalPoly_append' (σ : Var → Nat) (p q : Poly) :
    evalPoly σ (p ++ q) = evalPoly σ p + evalPoly σ q := by
  induction p with
  | nil => simp [evalPoly]
  | cons m ms ih => simp [evalPoly, ih, Nat.add_assoc]

theorem prodVars_append (σ : Var → Nat) (xs ys : List Var) :
    prodVars σ (xs ++ ys) = prodVars σ xs * prodVars σ ys := by
  induction xs with
  | nil => simp [prodVars]
  | cons x xs ih => simp [prodVars, ih, Nat.mul_assoc]

theorem evalMono_mul (σ : Var → Nat) (a b : Mono) :
    evalMono σ (mulMono a b) = evalMono σ a * evalMono σ b := by
  simp only [evalMono, mulMono, prodVars_append]
  rw [Nat.mul_mul_mul_comm]

theorem evalPoly_mapMul (σ : Var → Nat) (a : Mono) (q : Poly) :
    evalPoly σ (q.map (mulMono a)) = evalMono σ a * evalPoly σ q := by
  induction q with
  | nil => simp [evalPoly]
  | cons b bs ih => simp [evalPoly, evalMono_mul, ih, Nat.mul_add]

theorem evalPoly_mulPoly (σ : Var → Nat) (p q : Poly) :
    evalPoly σ (mulPoly p q) = evalPoly σ p * evalPoly σ q := by
  induction p with
  | nil => simp [mulPoly, evalPoly]
  | cons a as ih =>
    have : mulPoly (a :: as) q = q.map (mulMono a) ++ mulPoly as q := by simp [mulPoly]
    rw [this, evalPoly_append', evalPoly_mapMul, ih]
    simp [evalPoly, Nat.add_mul]

mutual
theorem evalPoly_polyOf (σ : Var → Nat) : ∀ e : VExpr, evalPoly σ (polyOf e) = evalV σ e
  | .axis n none _ => by simp [polyOf, evalV, evalPoly, evalMono, prodVars]
  | .axis _ (some v) _ => by simp [polyOf, evalV, evalPoly, evalMono, prodVars]
  | .flat e => by simp only [polyOf, evalV]; exact evalPoly_polyOf σ e
  | .brackets e => by simp only [polyOf, evalV]; exact evalPoly_polyOf σ e
  | .list cs => by simp only [polyOf, evalV]; exact evalPoly_polyProdL σ cs
  | .concat cs => by simp only [polyOf, evalV]; exact evalPoly_polySumL σ cs
theorem evalPoly_polyProdL (σ : Var → Nat) : ∀ cs : List VExpr, evalPoly σ (polyProdL cs) = natProd (evalVL σ cs)
  | [] => by simp [polyProdL, evalVL, natProd, evalPoly, evalMono, prodVars]
  | c :: cs => by
    simp only [polyProdL, evalVL, natProd, evalPoly_mulPoly]
    rw [evalPoly_polyOf σ c, evalPoly_polyProdL σ cs]
theorem evalPoly_polySumL (σ : Var → Nat) : ∀ cs : List VExpr, evalPoly σ (polySumL cs) = (evalVL σ cs).sum
  | [] => by simp [polySumL, evalVL, evalPoly]
  | c :: cs => by
    simp only [polySumL, evalVL, List.sum_cons, evalPoly_append']
    rw [evalPoly_polyOf σ c, evalPoly_polySumL σ cs]
end

/-- Substitution lemma for a product of variables. -/
theorem evalPoly_substVars (σ : Var → Nat) (c : Var) (q : Poly) (xs : List Var) :
    evalPoly σ (substVars c q xs) = prodVars (update σ c (evalPoly σ q)) xs := by
  induction xs with
  | nil => simp [substVars, prodVars, evalPoly, evalMono]
  | cons x xs ih =>
    simp only [substVars, prodVars, evalPoly_mulPoly, ih]
    by_cases hx : x = c
    · simp [hx, update]
    · simp [hx, update, evalPoly, evalMono, prodVars]

/-- **Substitution lemma**: evaluating the instantiated polynomial is evaluating the original one
with `c := value of q`. -/
theorem evalPoly_substPoly (σ : Var → Nat) (c : Var) (q : Poly) (p : Poly) :
    evalPoly σ (substPoly c q p) = evalPoly (update σ c (evalPoly σ q)) p := by
  induction p with
  | nil => simp [substPoly, evalPoly]
  | cons m ms ih =>
    have : substPoly c q (m :: ms) = substMono c q m ++ substPoly c q ms := by simp [substPoly]
    rw [this, evalPoly_append', ih]
    simp only [evalPoly, substMono, evalPoly_mulPoly, evalPoly_substVars, evalMono, prodVars]
    simp

theorem prodVars_congr {σ τ : Var → Nat} {xs : List Var} (h : ∀ x ∈ xs, σ x = τ x) :
    prodVars σ xs = prodVars τ xs := by
  induction xs with
  | nil => rfl
  | cons x xs ih =>
    simp only [prodVars]
    rw [h x List.mem_cons_self, ih (fun y hy => h y (List.mem_cons_of_mem _ hy))]

theorem evalPoly_congr {σ τ : Var → Nat} {p : Poly} (h : ∀ x ∈ polyVars p, σ x = τ x) :
    evalPoly σ p = evalPoly τ p := by
  induction p with
  | nil => rfl
  | cons m ms ih =>
    simp only [polyVars, List.mem_append] at h
    simp only [evalPoly, evalMono]
    rw [prodVars_congr (fun x hx => h x (Or.inl hx)), ih (fun x hx => h x (Or.inr hx))]

/-! ### The situation of one CSE replacement -/

/-- `sys'` is a value system *after* CSE replaced the sub-expression `e` by the axis `c`:
* `e` passed the filter of `cse` (`_value_range(e) = (m, ub)`, no repeated axis) and its lower
  bounds are positive;
* the replacement axis `c` is declared with lower bound `m` (`min_value=_value_range(e)[0]`,
  enforced by stage3/solve.py), and, if `e` has a single value, `c` carries that value
  (`Axis(f"cse.{idx}", expr.value, …)` — stage 3 then states `c = m`);
* the unknown axes of `e` occur nowhere in `sys'` (`axes_used_only_in_this_subexpression`: every
  occurrence of these axes was inside an occurrence of `e`, and all of those were replaced).
The system *before* CSE is `instantiate sys' c e`. -/
structure CseStep (sys' : System) (c : Var) (e : VExpr) (m : Nat) (ub : Bool) : Prop where
  range : valueRange e = some (m, ub)
  norep : hasRepeatedAxis e = false
  minpos : MinPos e
  decl : (c, m) ∈ sys'.vars
  only : ∀ p ∈ sys'.vars, p.1 = c → p.2 ≤ m
  fixed : ub = false → varConst c m ∈ sys'.eqns
  outside : ∀ x ∈ freeNames e, x ∉ sys'.allVars

theorem mem_polyVars_allVars {sys : System} {e : Eqn} (he : e ∈ sys.eqns) {x : Var}
    (hx : x ∈ polyVars e.lhs ∨ x ∈ polyVars e.rhs) : x ∈ sys.allVars := by
  unfold System.allVars
  apply List.mem_append_right
  apply mem_eqnsVars he
  unfold eqnVars
  exact List.mem_append.mpr hx

end Einx.Solve
