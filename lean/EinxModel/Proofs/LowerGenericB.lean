import EinxModel.Proofs.LowerGenericA
import EinxModel.Proofs.LowerRedRun
/-! Size-genericity of the decomposer's lowering (C17), part B: the elementwise inner function on two related
assignments, the pieces of a successful `lowerElementwise` / `lowerReduce` (which expression reaches
`_squeeze_transpose_broadcast`, the traced shapes), and the two whole pipelines. -/
namespace Einx.Lower
open Einx Einx.IR Einx.Generic Einx.Denote

/-! ### the traced numpy call and the alignment loops -/

theorem ewiseCall_rel {f : String} {s s' : St} {ops ops' : List Opnd} (hs : Rel s s')
    (hr : ops.map (·.reg) = ops'.map (·.reg)) {r r' : St}
    (h : ewiseCall f s ops = .ok r) (h' : ewiseCall f s' ops' = .ok r') : Rel r r' := by
  unfold ewiseCall at h h'
  by_cases he : ops.isEmpty = true
  · simp [he, throw, throwThe, MonadExceptOf.throw, bind, Except.bind] at h
  by_cases he' : ops'.isEmpty = true
  · simp [he', throw, throwThe, MonadExceptOf.throw, bind, Except.bind] at h'
  simp only [he, he', Bool.false_eq_true, if_false, pure_bind] at h h'
  cases hb : broadcastShapes (ops.map (·.shape)) with
  | error er => simp [hb, bind, Except.bind] at h
  | ok so =>
    cases hb' : broadcastShapes (ops'.map (·.shape)) with
    | error er => simp [hb', bind, Except.bind] at h'
    | ok so' =>
      simp only [hb, hb', bind, Except.bind, pure, Except.pure, Except.ok.injEq] at h h'
      subst h h'
      have e1 : ∀ l : List Opnd, l.map (fun o => Arg.reg o.reg) = (l.map (·.reg)).map Arg.reg := by
        intro l; simp [List.map_map]
      exact hs.emit _ _ (by simp only [instrSkeleton]; rw [e1 ops, e1 ops', hr]) _ _

theorem alignAll_rel {W W' : List Ax} (hW : Sim W W') : ∀ (es es' : List (List G)), gsimLL es es' = true →
    ∀ (i : Nat) (s s' : St), Rel s s' → ∀ (xs xs' : List (List Ax)) (os os' : List Opnd) (t t' : St),
    alignAll W i s es = .ok (xs, os, t) → alignAll W' i s' es' = .ok (xs', os', t') →
    Rel t t' ∧ os.map (·.reg) = os'.map (·.reg)
  | [], [], _, i, s, s', hs, xs, xs', os, os', t, t', h, h' => by
    simp only [alignAll, pure, Except.pure, Except.ok.injEq, Prod.mk.injEq] at h h'
    obtain ⟨_, h2, h3⟩ := h
    obtain ⟨_, h2', h3'⟩ := h'
    subst h2 h3 h2' h3'
    exact ⟨hs, rfl⟩
  | [], _ :: _, hg, _, _, _, _, _, _, _, _, _, _, _, _ => by simp [gsimLL] at hg
  | _ :: _, [], hg, _, _, _, _, _, _, _, _, _, _, _, _ => by simp [gsimLL] at hg
  | e :: es, e' :: es', hg, i, s, s', hs, xs, xs', os, os', t, t', h, h' => by
    simp only [gsimLL, Bool.and_eq_true] at hg
    simp only [alignAll] at h h'
    cases hc : chainInput W s i e with
    | error er => simp [hc, bind, Except.bind] at h
    | ok x =>
      cases hc' : chainInput W' s' i e' with
      | error er => simp [hc', bind, Except.bind] at h'
      | ok x' =>
        obtain ⟨e1, s1⟩ := x
        obtain ⟨e1', s1'⟩ := x'
        simp only [hc, hc', bind, Except.bind] at h h'
        obtain ⟨_, hr1⟩ := chainInput_rel hs hW hg.1 hc hc'
        cases ha : alignAll W (i + 1) s1 es with
        | error er => simp [ha] at h
        | ok y =>
          cases ha' : alignAll W' (i + 1) s1' es' with
          | error er => simp [ha'] at h'
          | ok y' =>
            obtain ⟨ys, ps, u⟩ := y
            obtain ⟨ys', ps', u'⟩ := y'
            simp only [ha, ha', pure, Except.pure, Except.ok.injEq, Prod.mk.injEq] at h h'
            obtain ⟨ih1, ih2⟩ := alignAll_rel hW es es' hg.2 (i + 1) s1 s1' hr1 ys ys' ps ps' u u' ha ha'
            obtain ⟨_, h2, h3⟩ := h
            obtain ⟨_, h2', h3'⟩ := h'
            subst h2 h3 h2' h3'
            refine ⟨ih1, ?_⟩
            simp only [List.map_cons, hr1.reg, ih2]

theorem alignFold_rel {f : String} {W W' : List Ax} (hW : Sim W W') : ∀ (es es' : List (List G)), gsimLL es es' = true →
    ∀ (i : Nat) (s s' : St), Rel s s' → ∀ (xs xs' : List (List Ax)) (t t' : St),
    alignFold f W i s es = .ok (xs, t) → alignFold f W' i s' es' = .ok (xs', t') → Rel t t'
  | [], [], _, i, s, s', hs, xs, xs', t, t', h, h' => by
    simp only [alignFold, pure, Except.pure, Except.ok.injEq, Prod.mk.injEq] at h h'
    obtain ⟨_, h2⟩ := h
    obtain ⟨_, h2'⟩ := h'
    subst h2 h2'
    exact hs
  | [], _ :: _, hg, _, _, _, _, _, _, _, _, _, _ => by simp [gsimLL] at hg
  | _ :: _, [], hg, _, _, _, _, _, _, _, _, _, _ => by simp [gsimLL] at hg
  | e :: es, e' :: es', hg, i, s, s', hs, xs, xs', t, t', h, h' => by
    simp only [gsimLL, Bool.and_eq_true] at hg
    simp only [alignFold] at h h'
    cases hc : chainInput W s i e with
    | error er => simp [hc, bind, Except.bind] at h
    | ok x =>
      cases hc' : chainInput W' s' i e' with
      | error er => simp [hc', bind, Except.bind] at h'
      | ok x' =>
        obtain ⟨e1, s1⟩ := x
        obtain ⟨e1', s1'⟩ := x'
        simp only [hc, hc', bind, Except.bind] at h h'
        obtain ⟨_, hr1⟩ := chainInput_rel hs hW hg.1 hc hc'
        cases hw : ewiseCall f s1 [⟨[], s.reg, s.shape⟩, ⟨e1, s1.reg, s1.shape⟩] with
        | error er => simp [hw] at h
        | ok s2 =>
          cases hw' : ewiseCall f s1' [⟨[], s'.reg, s'.shape⟩, ⟨e1', s1'.reg, s1'.shape⟩] with
          | error er => simp [hw'] at h'
          | ok s2' =>
            simp only [hw, hw'] at h h'
            have hr2 := ewiseCall_rel hr1 (by simp [hs.reg, hr1.reg]) hw hw'
            cases ha : alignFold f W (i + 1) s2 es with
            | error er => simp [ha] at h
            | ok y =>
              cases ha' : alignFold f W' (i + 1) s2' es' with
              | error er => simp [ha'] at h'
              | ok y' =>
                obtain ⟨ys, u⟩ := y
                obtain ⟨ys', u'⟩ := y'
                simp only [ha, ha', pure, Except.pure, Except.ok.injEq, Prod.mk.injEq] at h h'
                have ih := alignFold_rel hW es es' hg.2 (i + 1) s2 s2' hr2 ys ys' u u' ha ha'
                obtain ⟨_, h2⟩ := h
                obtain ⟨_, h2'⟩ := h'
                subst h2 h2'
                exact ih

/-- `elementwise(op, classical).inner` on two related assignments: the states differ only in shapes. -/
theorem ewInner_rel {f : String} {W W' : List Ax} (hW : Sim W W') {ins ins' : List (List G)}
    (hg : gsimLL ins ins' = true) {s s' : St} (hs : Rel s s') {x x' : List Ax} {t t' : St}
    (h : Generic.ewInner f s ins W = .ok (x, t)) (h' : Generic.ewInner f s' ins' W' = .ok (x', t')) : Rel t t' := by
  unfold Generic.ewInner at h h'
  cases hk : ewKindOf f with
  | none => simp [hk, bind, Except.bind, throw, throwThe, MonadExceptOf.throw] at h
  | some kind =>
    simp only [hk, pure_bind] at h h'
    cases ins with
    | nil => cases kind <;> simp [throw, throwThe, MonadExceptOf.throw] at h
    | cons e es =>
      cases ins' with
      | nil => simp [gsimLL] at hg
      | cons e' es' =>
        cases kind with
        | fixed n =>
          simp only [] at h h'
          cases ha : alignAll W 0 s (e :: es) with
          | error er => simp [ha, bind, Except.bind] at h
          | ok y =>
            cases ha' : alignAll W' 0 s' (e' :: es') with
            | error er => simp [ha', bind, Except.bind] at h'
            | ok y' =>
              obtain ⟨xs, os, s1⟩ := y
              obtain ⟨xs', os', s1'⟩ := y'
              simp only [ha, ha', bind, Except.bind] at h h'
              obtain ⟨hr1, hregs⟩ := alignAll_rel hW _ _ hg 0 s s' hs xs xs' os os' s1 s1' ha ha'
              by_cases hn : os.length = n
              · by_cases hn' : os'.length = n
                · simp only [hn, hn', bne_self_eq_false, Bool.false_eq_true, if_false, pure, Except.pure] at h h'
                  cases hcall : ewiseCall f s1 os with
                  | error er => simp [hcall] at h
                  | ok s2 =>
                    cases hcall' : ewiseCall f s1' os' with
                    | error er => simp [hcall'] at h'
                    | ok s2' =>
                      simp only [hcall, hcall'] at h h'
                      have hr2 := ewiseCall_rel hr1 hregs hcall hcall'
                      by_cases hsh : s2.shape = lens (pickCols W.length xs)
                      · by_cases hsh' : s2'.shape = lens (pickCols W'.length xs')
                        · simp only [hsh, hsh', bne_self_eq_false, Bool.false_eq_true, if_false, Except.ok.injEq,
                            Prod.mk.injEq] at h h'
                          rw [← h.2, ← h'.2]
                          exact hr2
                        · have : (s2'.shape != lens (pickCols W'.length xs')) = true := by simpa using hsh'
                          simp [this, throw, throwThe, MonadExceptOf.throw] at h'
                      · have : (s2.shape != lens (pickCols W.length xs)) = true := by simpa using hsh
                        simp [this, throw, throwThe, MonadExceptOf.throw] at h
                · have : (os'.length != n) = true := by simpa using hn'
                  simp [this, throw, throwThe, MonadExceptOf.throw, pure, Except.pure] at h'
              · have : (os.length != n) = true := by simpa using hn
                simp [this, throw, throwThe, MonadExceptOf.throw, pure, Except.pure] at h
        | nary =>
          simp only [gsimLL, Bool.and_eq_true] at hg
          simp only [] at h h'
          cases hc : chainInput W s 0 e with
          | error er => simp [hc, bind, Except.bind] at h
          | ok y =>
            cases hc' : chainInput W' s' 0 e' with
            | error er => simp [hc', bind, Except.bind] at h'
            | ok y' =>
              obtain ⟨e0, s0⟩ := y
              obtain ⟨e0', s0'⟩ := y'
              simp only [hc, hc', bind, Except.bind] at h h'
              obtain ⟨_, hr0⟩ := chainInput_rel hs hW hg.1 hc hc'
              cases hf : alignFold f W 1 s0 es with
              | error er => simp [hf] at h
              | ok z =>
                cases hf' : alignFold f W' 1 s0' es' with
                | error er => simp [hf'] at h'
                | ok z' =>
                  obtain ⟨xs, s1⟩ := z
                  obtain ⟨xs', s1'⟩ := z'
                  simp only [hf, hf'] at h h'
                  have hr1 := alignFold_rel hW es es' hg.2 1 s0 s0' hr0 xs xs' s1 s1' hf hf'
                  by_cases hsh : s1.shape = lens (pickCols W.length (e0 :: xs))
                  · by_cases hsh' : s1'.shape = lens (pickCols W'.length (e0' :: xs'))
                    · simp only [hsh, hsh', bne_self_eq_false, Bool.false_eq_true, if_false, pure, Except.pure,
                        Except.ok.injEq, Prod.mk.injEq] at h h'
                      rw [← h.2, ← h'.2]
                      exact hr1
                    · have : (s1'.shape != lens (pickCols W'.length (e0' :: xs'))) = true := by simpa using hsh'
                      simp [this, throw, throwThe, MonadExceptOf.throw, pure, Except.pure] at h'
                  · have : (s1.shape != lens (pickCols W.length (e0 :: xs))) = true := by simpa using hsh
                    simp [this, throw, throwThe, MonadExceptOf.throw, pure, Except.pure] at h

/-! ### the shape after `_squeeze_transpose_broadcast` -/

/-- The traced shape of the result of `_squeeze_transpose_broadcast` is the shape of the output expression (from
`stb_run`, with the vacuous reading condition). -/
theorem stb_shape_of_run {inps : List (Tensor Cell)} {s r : St} {regs : List (Tensor Cell)} {T : Tensor Cell} {Lo sq : List Ax}
    (h : Run inps s regs T) (hsq : (names sq).Nodup) (hLo : (names Lo).Nodup) (hne : ∀ a ∈ sq, a.len ≠ 1)
    (hcons : ∀ a ∈ sq, ∀ b ∈ Lo, a.name = b.name → a.len = b.len) (hsh : s.shape = lens sq)
    (hstb : stb s sq Lo = .ok r) : r.shape = lens Lo := by
  obtain ⟨_, ext, T', hrun, hR⟩ := stb_run (P := fun _ => False) (c := fun _ => Cell.bad) h hsq hLo hne
    (fun _ hf => hf.elim) (fun _ hf => hf.elim) hcons ⟨by rw [h.shape, hsh], fun _ hf => hf.elim⟩ hstb
  rw [← hrun.shape, hR.1]

/-- A run for a state that starts tracing afresh at register `r`. -/
theorem fab_run (r : Nat) (shape : List Nat) :
    ∃ (inps : List (Tensor Cell)) (T : Tensor Cell), Run inps { reg := r, shape := shape, prog := [], next := r + 1 } inps T := by
  refine ⟨List.replicate (r + 1) ⟨shape, List.replicate (prod shape) Cell.bad⟩, ⟨shape, List.replicate (prod shape) Cell.bad⟩,
    ⟨rfl, by simp, by simp [List.getElem?_replicate], rfl, by simp⟩⟩

/-! ### the pieces of a successful elementwise lowering -/

/-- The flat output without broadcast axes, as `lowerElementwise` computes it. -/
def ewW (ins : List (List G)) (eout : List G) : List Ax :=
  withoutBroadcast (ins.flatMap (fun e => names (squeezedExpr [] e))) (G.leavesL eout)

theorem lowerElementwise_parts {f : String} {ins : List (List G)} {eout : List G} {s : St}
    (hd : ewDomain ins eout = true) (h : lowerElementwise f ins eout = .ok s) :
    ∃ s2 s3, Generic.ewInner f { reg := 0, shape := [], prog := [], next := ins.length } ins (ewW ins eout) = .ok (ewW ins eout, s2) ∧
      s2.shape = lens (ewW ins eout) ∧ stb s2 (ewW ins eout) (G.leavesL eout) = .ok s3 ∧
      s3.shape = lens (G.leavesL eout) ∧ s = reshapeW s3 (gShape eout) := by
  simp only [ewDomain, Bool.and_eq_true, List.all_eq_true] at hd
  have hout := (noDup_iff _).mp hd.1
  have hcons : ∀ e ∈ ins, ∀ a ∈ G.leavesL e, ∀ b ∈ G.leavesL eout, a.name = b.name → a.len = b.len :=
    fun e he => consistentLens_spec (hd.2 e he)
  cases hk : ewKindOf f with
  | none =>
    unfold lowerElementwise Generic.ewInner at h
    simp [hk, bind, Except.bind, throw, throwThe, MonadExceptOf.throw] at h
  | some kind =>
  unfold ewW
  generalize hLo : G.leavesL eout = Lo at *
  generalize hPdef : (fun val : String → Nat => (∀ e ∈ ins, Bnd val (G.leavesL e)) ∧ Bnd val Lo) = P
  generalize hWdef : withoutBroadcast (ins.flatMap (fun e => names (squeezedExpr [] e))) Lo = W at *
  have hWmem : ∀ b, b ∈ W ↔ b ∈ Lo ∧ ∃ e ∈ ins, b.name ∈ names (squeezedExpr [] e) := by
    intro b
    rw [← hWdef]
    simp only [withoutBroadcast, List.mem_filter, List.contains_iff_mem, List.mem_flatMap]
  have hw : WOK W P ins := by
    refine ⟨?_, ?_, ?_, ?_⟩
    · rw [← hWdef]; exact names_nodup_filter hout _
    · intro val hv b hb
      rw [← hPdef] at hv
      exact hv.2 b ((hWmem b).mp hb).1
    · intro b hb
      obtain ⟨hbLo, e, he, hn⟩ := (hWmem b).mp hb
      obtain ⟨a, ha, han⟩ := List.mem_map.mp hn
      have := mem_squeezedExpr_nil.mp ha
      rw [← hcons e he a this.1 b hbLo han]
      exact this.2
    · intro b hb
      exact ((hWmem b).mp hb).2
  have hok : InsOK W P ins := by
    refine ⟨?_, ?_⟩
    · intro e he val hv
      rw [← hPdef] at hv
      exact hv.1 e he
    · intro e he a ha b hb hn
      exact hcons e he a ha b ((hWmem b).mp hb).1 hn
  unfold lowerElementwise at h
  simp only [hLo, hWdef] at h
  cases hi : Generic.ewInner f { reg := 0, shape := [], prog := [], next := ins.length } ins W with
  | error er => simp [hi, bind, Except.bind] at h
  | ok x =>
    obtain ⟨exprRes, s2⟩ := x
    simp only [hi, bind, Except.bind] at h
    cases hstb : stb s2 exprRes Lo with
    | error er => simp [hstb] at h
    | ok s3 =>
      simp only [hstb, pure, Except.pure, Except.ok.injEq] at h
      have htr0 : Tr (symInputs (ins.map gShape)) { reg := 0, shape := [], prog := [], next := ins.length }
          (symInputs (ins.map gShape)) := ⟨rfl, by simp [symInputs_length]⟩
      obtain ⟨hres, _, ext2, T2, hrun2, hR2⟩ := ewInner_run hk hw hok htr0 (symInputs_getElem? ins) hi
      subst hres
      have hsh2 : s2.shape = lens exprRes := by rw [← hrun2.shape, hR2.1]
      have hsh3 := stb_shape_of_run hrun2 hw.nodup hout hw.ne1
        (by
          intro a ha b hb hn
          rw [eq_of_name_eq hout ((hWmem a).mp ha).1 hb hn])
        hsh2 hstb
      exact ⟨s2, s3, rfl, hsh2, hstb, hsh3, h.symm⟩

theorem gsimLL_length : ∀ (a b : List (List G)), gsimLL a b = true → a.length = b.length
  | [], [], _ => rfl
  | _ :: es, _ :: es', h => by
    simp only [gsimLL, Bool.and_eq_true] at h
    simp [gsimLL_length es es' h.2]
  | [], _ :: _, h => by simp [gsimLL] at h
  | _ :: _, [], h => by simp [gsimLL] at h

theorem gsimL_squeezed_names {m : List String} {e e' : List G} (h : gsimL e e' = true) :
    names (squeezedExpr m e) = names (squeezedExpr m e') :=
  ((gsimL_leaves e e' h).filter _ _ (fun a b hn ho => by rw [hn, ho])).names_eq

theorem gsimLL_inNames : ∀ (a b : List (List G)), gsimLL a b = true →
    a.flatMap (fun e => names (squeezedExpr [] e)) = b.flatMap (fun e => names (squeezedExpr [] e))
  | [], [], _ => rfl
  | e :: es, e' :: es', h => by
    simp only [gsimLL, Bool.and_eq_true] at h
    simp only [List.flatMap_cons, gsimL_squeezed_names h.1, gsimLL_inNames es es' h.2]
  | [], _ :: _, h => by simp [gsimLL] at h
  | _ :: _, [], h => by simp [gsimLL] at h

theorem ewW_sim {ins ins' : List (List G)} {go go' : List G} (hi : gsimLL ins ins' = true) (ho : gsimL go go' = true) :
    Sim (ewW ins go) (ewW ins' go') := by
  unfold ewW withoutBroadcast
  rw [gsimLL_inNames ins ins' hi]
  exact (gsimL_leaves go go' ho).filter _ _ (fun a b hn _ => by rw [hn])

/-- **Size-genericity of the elementwise lowering** (both lowerings succeed). -/
theorem lowerElementwise_generic {f : String} {ins ins' : List (List G)} {go go' : List G} {s s' : St}
    (hd : ewDomain ins go = true) (hd' : ewDomain ins' go' = true)
    (hi : gsimLL ins ins' = true) (ho : gsimL go go' = true)
    (h : lowerElementwise f ins go = .ok s) (h' : lowerElementwise f ins' go' = .ok s') : Rel s s' := by
  obtain ⟨s2, s3, hin, hsh2, hstb, hsh3, hs⟩ := lowerElementwise_parts hd h
  obtain ⟨s2', s3', hin', hsh2', hstb', hsh3', hs'⟩ := lowerElementwise_parts hd' h'
  have hW := ewW_sim hi ho
  have hLo := gsimL_leaves go go' ho
  have hr0 : Rel { reg := 0, shape := [], prog := [], next := ins.length }
      { reg := 0, shape := [], prog := [], next := ins'.length } := ⟨rfl, gsimLL_length _ _ hi, rfl⟩
  have hr2 := ewInner_rel hW hi hr0 hin hin'
  have hr3 := stb_generic hr2 hsh2 hsh2' hW hLo
  rw [hstb, hstb'] at hr3
  rw [hs, hs']
  apply reshapeW_rel hr3
  · rw [hsh3, hsh3']; exact compose_test ho
  · simp only [gShape, List.length_map]; exact gsimL_length _ _ ho

/-! ### reductions -/

/-- The pieces of a successful `lowerReduce`. -/
theorem lowerReduce_parts {f : String} {m : List String} {ein eout : List G} {l : LX}
    (hd : redDomain m ein eout = true) (h : lowerReduce f m ein eout = .ok l) :
    ∃ sq s1 s3, prepInput m { reg := 0, shape := gShape ein, prog := [], next := 1 } 0 ein = .ok (sq, s1) ∧
      stb { reg := s1.next, shape := lens (sq.filter (fun a => !m.contains a.name)), prog := [], next := s1.next + 1 }
        (sq.filter (fun a => !m.contains a.name)) (G.leavesL eout) = .ok s3 ∧
      s3.shape = lens (G.leavesL eout) ∧
      l = ⟨s1.prog.map .base ++ [.reduce f s1.reg (exprToAxis m sq) false] ++ (reshapeW s3 (gShape eout)).prog.map .base,
        (reshapeW s3 (gShape eout)).reg⟩ := by
  simp only [redDomain, Bool.and_eq_true] at hd
  have hout := (noDup_iff _).mp hd.1.1
  have hcons := consistentLens_spec hd.1.2
  unfold lowerReduce at h
  by_cases hop : redOps.contains f = true
  · simp only [hop, Bool.not_true, Bool.false_eq_true, if_false, pure_bind] at h
    cases hp : prepInput m { reg := 0, shape := gShape ein, prog := [], next := 1 } 0 ein with
    | error er => simp [hp, bind, Except.bind] at h
    | ok x0 =>
      obtain ⟨sq, s1⟩ := x0
      simp only [hp, bind, Except.bind] at h
      have htr0 : Tr [symInput 0 (gShape ein)] { reg := 0, shape := gShape ein, prog := [], next := 1 }
          [symInput 0 (gShape ein)] := ⟨rfl, rfl⟩
      obtain ⟨hnd, hsq, _⟩ := prep_run htr0 rfl hp
      have hsqnd : (names sq).Nodup := by rw [hsq]; exact names_nodup_filter hnd _
      have hexmem : ∀ a ∈ sq.filter (fun a => !m.contains a.name), a ∈ G.leavesL ein ∧ a.len ≠ 1 := by
        intro a ha
        have h1 := List.mem_filter.mp ha
        have h3 : m.contains a.name = false := by simpa using h1.2
        have h2 := h1.1
        rw [hsq] at h2
        have h4 := List.mem_filter.mp h2
        refine ⟨h4.1, ?_⟩
        intro e1
        have h5 := h4.2
        rw [e1, h3] at h5
        simp at h5
      by_cases hcheck : reducedShape s1.shape (exprToAxis m sq) = lens (sq.filter (fun a => !m.contains a.name))
      · simp only [hcheck, bne_self_eq_false, Bool.false_eq_true, if_false, pure, Except.pure] at h
        cases hstb : stb { reg := s1.next, shape := lens (sq.filter (fun a => !m.contains a.name)), prog := [], next := s1.next + 1 }
            (sq.filter (fun a => !m.contains a.name)) (G.leavesL eout) with
        | error er => rw [hstb] at h; cases h
        | ok s3 =>
          simp only [hstb, Except.ok.injEq] at h
          obtain ⟨inps, T, hrun⟩ := fab_run s1.next (lens (sq.filter (fun a => !m.contains a.name)))
          have hsh3 := stb_shape_of_run hrun (names_nodup_filter hsqnd _) hout (fun a ha => (hexmem a ha).2)
            (fun a ha b hb hn => hcons a (hexmem a ha).1 b hb hn) rfl hstb
          exact ⟨sq, s1, s3, rfl, hstb, hsh3, h.symm⟩
      · have : (reducedShape s1.shape (exprToAxis m sq) != lens (sq.filter (fun a => !m.contains a.name))) = true := by
          simpa using hcheck
        simp only [this, if_true, throw, throwThe, MonadExceptOf.throw] at h
        cases h
  · have hop' : redOps.contains f = false := by
      cases hc : redOps.contains f with
      | true => exact absurd hc hop
      | false => rfl
    simp only [hop', Bool.not_false, if_true, throw, throwThe, MonadExceptOf.throw, bind, Except.bind] at h
    cases h

theorem progSkeletonX_base (p : List Instr) : progSkeletonX (p.map .base) = (progSkeleton p).map .base := by
  simp [progSkeletonX, progSkeleton, List.map_map, Function.comp_def, instrSkeletonX]

/-- **Size-genericity of the lowering of reductions** (both lowerings succeed). -/
theorem lowerReduce_generic {f : String} {m : List String} {gi gi' go go' : List G} {l l' : LX}
    (hd : redDomain m gi go = true) (hd' : redDomain m gi' go' = true)
    (hi : gsimL gi gi' = true) (ho : gsimL go go' = true)
    (h : lowerReduce f m gi go = .ok l) (h' : lowerReduce f m gi' go' = .ok l') :
    progSkeletonX l.prog = progSkeletonX l'.prog ∧ l.reg = l'.reg := by
  obtain ⟨sq, s1, s3, hp, hstb, hsh3, hl⟩ := lowerReduce_parts hd h
  obtain ⟨sq', s1', s3', hp', hstb', hsh3', hl'⟩ := lowerReduce_parts hd' h'
  have hr0 : Rel { reg := 0, shape := gShape gi, prog := [], next := 1 } { reg := 0, shape := gShape gi', prog := [], next := 1 } :=
    ⟨rfl, rfl, rfl⟩
  obtain ⟨hsim, hr1, _, _⟩ := prepInput_rel hr0 hi hp hp'
  have hsimE : Sim (sq.filter (fun a => !m.contains a.name)) (sq'.filter (fun a => !m.contains a.name)) :=
    hsim.filter _ _ (fun a b hn _ => by rw [hn])
  have hLo := gsimL_leaves go go' ho
  have hr2 : Rel { reg := s1.next, shape := lens (sq.filter (fun a => !m.contains a.name)), prog := [], next := s1.next + 1 }
      { reg := s1'.next, shape := lens (sq'.filter (fun a => !m.contains a.name)), prog := [], next := s1'.next + 1 } :=
    ⟨hr1.next, by simp [hr1.next], rfl⟩
  have hr3 := stb_generic hr2 rfl rfl hsimE hLo
  rw [hstb, hstb'] at hr3
  have hr4 : Rel (reshapeW s3 (gShape go)) (reshapeW s3' (gShape go')) := by
    apply reshapeW_rel hr3
    · rw [hsh3, hsh3']; exact compose_test ho
    · simp only [gShape, List.length_map]; exact gsimL_length _ _ ho
  rw [hl, hl']
  refine ⟨?_, hr4.reg⟩
  simp only [progSkeletonX, List.map_append, List.map_cons, List.map_nil]
  have e1 := progSkeletonX_base s1.prog
  have e2 := progSkeletonX_base s1'.prog
  have e3 := progSkeletonX_base (reshapeW s3 (gShape go)).prog
  have e4 := progSkeletonX_base (reshapeW s3' (gShape go')).prog
  simp only [progSkeletonX] at e1 e2 e3 e4
  rw [e1, e2, e3, e4, hr1.prog, hr4.prog, hr1.reg, exprToAxis_sim m hsim]

end Einx.Lower
