import EinxModel.Proofs.NotationPrintDefs
/-!
# M1 Notation — the delimiter stack on the token texts of a position-free token tree (`buildTree_texts`)
-/
namespace Einx.Notation

namespace StackP

/-- Frames after appending the items `T` to the innermost open frame (unchanged if no frame is open). -/
def pushF (T : List Tok) : List (Token × List Tok) → List (Token × List Tok)
  | [] => []
  | (o, items) :: rest => (o, items ++ T) :: rest

/-- Root items after appending the items `T` to the innermost open frame (`base ++ T` if no frame is open). -/
def pushB (T : List Tok) : List (Token × List Tok) → List Tok → List Tok
  | [], base => base ++ T
  | _ :: _, base => base

theorem pushF_nil (frames : List (Token × List Tok)) : pushF [] frames = frames := by
  cases frames with
  | nil => rfl
  | cons f fs => obtain ⟨o, items⟩ := f; simp [pushF]

theorem pushB_nil (frames : List (Token × List Tok)) (base : List Tok) : pushB [] frames base = base := by
  cases frames with
  | nil => simp [pushB]
  | cons f fs => rfl

theorem pushF_append (T1 T2 : List Tok) (frames : List (Token × List Tok)) :
    pushF T2 (pushF T1 frames) = pushF (T1 ++ T2) frames := by
  cases frames with
  | nil => rfl
  | cons f fs => obtain ⟨o, items⟩ := f; simp [pushF]

theorem pushB_append (T1 T2 : List Tok) (frames : List (Token × List Tok)) (base : List Tok) :
    pushB T2 (pushF T1 frames) (pushB T1 frames base) = pushB (T1 ++ T2) frames base := by
  cases frames with
  | nil => simp [pushF, pushB]
  | cons f fs => obtain ⟨o, items⟩ := f; simp [pushF, pushB]

theorem eraseL_append (xs ys : List Tok) : eraseL (xs ++ ys) = eraseL xs ++ eraseL ys := by
  induction xs with
  | nil => simp [eraseL]
  | cons x xs ih => simp [eraseL, ih]

theorem delimsFront_eq : delimsFront = [['('], ['[']] := by decide

/-- The closing delimiter of an opening delimiter is a closing and not an opening delimiter. -/
theorem closing_back {o c : Str} (ho : delimsFront.contains o = true) (hc : closingOf o = some c) :
    delimsFront.contains c = false ∧ delimsBack.contains c = true := by
  have hm : o ∈ delimsFront := List.contains_iff_mem.mp ho
  rw [delimsFront_eq] at hm
  simp only [List.mem_cons, List.mem_nil_iff, or_false] at hm
  rcases hm with hm | hm
  · subst hm
    have : closingOf ['('] = some [')'] := by decide
    rw [this] at hc
    cases hc
    decide
  · subst hm
    have : closingOf ['['] = some [']'] := by decide
    rw [this] at hc
    cases hc
    decide

/-- An opening delimiter opens a frame. -/
theorem step_open (t : Token) (rest : List Token) (frames : List (Token × List Tok)) (base : List Tok)
    (h : delimsFront.contains t.text = true) :
    buildTree (t :: rest) frames base = buildTree rest ((t, []) :: frames) base := by
  simp only [buildTree, h, if_true]

/-- A token that is not a delimiter is appended to the innermost open frame. -/
theorem step_atom (t : Token) (rest : List Token) (frames : List (Token × List Tok)) (base : List Tok)
    (h1 : delimsFront.contains t.text = false) (h2 : delimsBack.contains t.text = false) :
    buildTree (t :: rest) frames base = buildTree rest (pushF [.atom t] frames) (pushB [.atom t] frames base) := by
  cases frames with
  | nil => simp only [buildTree, h1, h2, pushF, pushB, Bool.false_eq_true, if_false]
  | cons f fs => obtain ⟨o, items⟩ := f; simp only [buildTree, h1, h2, pushF, pushB, Bool.false_eq_true, if_false]

/-- A matching closing delimiter closes the innermost frame and appends the group to its parent. -/
theorem step_close (o t : Token) (items : List Tok) (rest : List Token) (frames : List (Token × List Tok)) (base : List Tok)
    (h1 : delimsFront.contains t.text = false) (h2 : delimsBack.contains t.text = true)
    (h3 : closingOf o.text = some t.text) :
    buildTree (t :: rest) ((o, items) :: frames) base
      = buildTree rest (pushF [.group o t items] frames) (pushB [.group o t items] frames base) := by
  cases frames with
  | nil => simp only [buildTree, h1, h2, h3, pushF, pushB, Bool.false_eq_true, if_false, if_true, bne_self_eq_false]
  | cons f fs => obtain ⟨o2, items2⟩ := f; simp only [buildTree, h1, h2, h3, pushF, pushB, Bool.false_eq_true, if_false, if_true, bne_self_eq_false]

mutual
/-- The stack on the tokens of one well-formed tree: its tree is appended to the innermost open frame. -/
theorem run_one : ∀ (p : PTok), p.wf = true → ∀ (toks : List Token), toks.map (·.text) = p.texts →
    ∀ (rest : List Token) (frames : List (Token × List Tok)) (base : List Tok),
    ∃ T, eraseL T = [p] ∧
      buildTree (toks ++ rest) frames base = buildTree rest (pushF T frames) (pushB T frames base)
  | .atom s, h, toks, ht, rest, frames, base => by
    simp only [PTok.texts] at ht
    obtain ⟨t, hts, hs⟩ : ∃ t, toks = [t] ∧ t.text = s := by
      match toks, ht with
      | [t], ht => simp only [List.map_cons, List.map_nil, List.cons.injEq, and_true] at ht; exact ⟨t, rfl, ht⟩
    subst hts
    subst hs
    simp only [PTok.wf, Bool.and_eq_true, Bool.not_eq_true'] at h
    refine ⟨[.atom t], by simp [eraseL, Tok.erase], ?_⟩
    simpa using step_atom t rest frames base h.1 h.2
  | .group o c inner, h, toks, ht, rest, frames, base => by
    simp only [PTok.texts] at ht
    simp only [PTok.wf, Bool.and_eq_true, beq_iff_eq] at h
    obtain ⟨⟨ho, hoc⟩, hin⟩ := h
    obtain ⟨to, toks', htoks, hto, ht'⟩ := List.map_eq_cons_iff.mp ht
    obtain ⟨ti, tl, htoks', hti, htl⟩ := List.map_eq_append_iff.mp ht'
    obtain ⟨tc, htl', htc⟩ : ∃ tc, tl = [tc] ∧ tc.text = c := by
      match tl, htl with
      | [t], htl => simp only [List.map_cons, List.map_nil, List.cons.injEq, and_true] at htl; exact ⟨t, rfl, htl⟩
    subst htoks htoks' htl'
    have hto' : to.text = o := hto
    obtain ⟨Ti, hTi, hrun⟩ := run_list inner hin ti hti (tc :: rest) ((to, []) :: frames) base
    have hcl := closing_back ho hoc
    refine ⟨[.group to tc Ti], by simp [eraseL, Tok.erase, hTi, hto', htc], ?_⟩
    have e1 : (to :: (ti ++ [tc])) ++ rest = to :: (ti ++ (tc :: rest)) := by simp
    rw [e1, step_open to _ frames base (by rw [hto']; exact ho), hrun]
    simp only [pushF, pushB, List.nil_append]
    exact step_close to tc Ti rest frames base (by rw [htc]; exact hcl.1) (by rw [htc]; exact hcl.2)
      (by rw [hto', htc]; exact hoc)
/-- The stack on the tokens of a well-formed list of trees: the trees are appended to the innermost open frame. -/
theorem run_list : ∀ (P : List PTok), wfL P = true → ∀ (toks : List Token), toks.map (·.text) = textsL P →
    ∀ (rest : List Token) (frames : List (Token × List Tok)) (base : List Tok),
    ∃ T, eraseL T = P ∧
      buildTree (toks ++ rest) frames base = buildTree rest (pushF T frames) (pushB T frames base)
  | [], _, toks, ht, rest, frames, base => by
    simp only [textsL, List.map_eq_nil_iff] at ht
    subst ht
    exact ⟨[], by simp [eraseL], by simp [pushF_nil, pushB_nil]⟩
  | p :: ps, h, toks, ht, rest, frames, base => by
    simp only [textsL] at ht
    simp only [wfL, Bool.and_eq_true] at h
    obtain ⟨t1, t2, htoks, ht1, ht2⟩ := List.map_eq_append_iff.mp ht
    subst htoks
    obtain ⟨T1, hT1, hr1⟩ := run_one p h.1 t1 ht1 (t2 ++ rest) frames base
    obtain ⟨T2, hT2, hr2⟩ := run_list ps h.2 t2 ht2 rest (pushF T1 frames) (pushB T1 frames base)
    refine ⟨T1 ++ T2, by rw [eraseL_append, hT1, hT2]; rfl, ?_⟩
    rw [List.append_assoc, hr1, hr2, pushF_append, pushB_append]
end

end StackP

/-- A token list whose texts are the texts of a well-formed position-free token tree `P` is turned by the delimiter stack
    into a token tree that erases to `P`. -/
theorem buildTree_texts (P : List PTok) (h : wfL P = true) (toks : List Token) (ht : toks.map (·.text) = textsL P) :
    ∃ T, buildTree toks [] [] = .ok T ∧ eraseL T = P := by
  obtain ⟨T, hT, hrun⟩ := StackP.run_list P h toks ht [] [] []
  refine ⟨T, ?_, hT⟩
  simpa [StackP.pushF, StackP.pushB, buildTree] using hrun

end Einx.Notation
