import EinxModel.Cache.NumHash
import Mathlib.Tactic.Ring
import Mathlib.Data.Nat.ModEq
/-!
Lemmas for `Props/C06Num.lean`: the 61-bit rotation is multiplication by a power of two modulo `2^61 - 1`; the digit loop
of `long_hash` and the mantissa loop of `_Py_HashDouble` compute the residue of the value.
-/
namespace Einx.Cache.NumHash
open Einx.Cache

theorem P_val : P = 2305843009213693951 := by decide

theorem P_pos : 0 < P := by rw [P_val]; omega

/-- The rotation written with arithmetic instead of bit operations. -/
theorem rotl_eq (x k : Nat) (hx : x < P) (hk : k ≤ 61) :
    rotl x k = (x % 2 ^ (61 - k)) * 2 ^ k + x / 2 ^ (61 - k) := by
  have h61 : 2 ^ 61 = 2 ^ (61 - k) * 2 ^ k := by rw [← Nat.pow_add]; congr 1; omega
  have hq : x / 2 ^ (61 - k) < 2 ^ k := by
    apply Nat.div_lt_of_lt_mul
    rw [← h61]
    have : P < 2 ^ 61 := by rw [P_val]; omega
    omega
  unfold rotl P
  rw [Nat.and_two_pow_sub_one_eq_mod, Nat.shiftLeft_eq, Nat.shiftRight_eq_div_pow, h61, Nat.mul_mod_mul_right,
    Nat.mul_comm (x % _) (2 ^ k)]
  exact (Nat.two_pow_add_eq_or_of_lt hq _).symm

/-- **Rotation by `k` inside 61 bits is multiplication by `2^k` modulo `2^61 - 1`** (on reduced values). -/
theorem rotl_spec (x k : Nat) (hx : x < P) (hk : k ≤ 61) : rotl x k < P ∧ rotl x k = (x * 2 ^ k) % P := by
  rw [rotl_eq x k hx hk]
  have hAB : 2 ^ (61 - k) * 2 ^ k = P + 1 := by
    rw [← Nat.pow_add, P_val]
    have : 61 - k + k = 61 := by omega
    rw [this]
  have hBpos : 0 < 2 ^ (61 - k) := Nat.two_pow_pos _
  have hApos : 0 < 2 ^ k := Nat.two_pow_pos _
  generalize 2 ^ (61 - k) = B at *
  generalize 2 ^ k = A at *
  have hx' : B * (x / B) + x % B = x := Nat.div_add_mod x B
  have hr : x % B < B := Nat.mod_lt _ hBpos
  have hq : x / B < A := by
    apply Nat.div_lt_of_lt_mul
    omega
  generalize x / B = q at *
  generalize x % B = r at *
  have h1 : (r + 1) * A ≤ B * A := Nat.mul_le_mul_right A hr
  have h1' : (r + 1) * A = r * A + A := by ring
  have h2 : B * (q + 1) = B * q + B := by ring
  have hlt : r * A + q < P := by
    by_contra hge
    have hge' : P ≤ r * A + q := Nat.le_of_not_lt hge
    have hqA : q + 1 = A := by omega
    have h3 : B * A ≤ (r + 1) * A := by omega
    have h4 : B ≤ r + 1 := Nat.le_of_mul_le_mul_right h3 hApos
    have h5 : B * (q + 1) = P + 1 := by rw [hqA]; exact hAB
    omega
  refine ⟨hlt, ?_⟩
  have hxa : x * A = (r * A + q) + P * q := by
    rw [← hx']
    calc (B * q + r) * A = (B * A) * q + r * A := by ring
      _ = (P + 1) * q + r * A := by rw [hAB]
      _ = _ := by ring
  rw [hxa, Nat.add_mul_mod_self_left, Nat.mod_eq_of_lt hlt]

/-- One step of either loop: `x ↦ (x · 2^k + y) mod P`. -/
theorem accum_spec (k x y : Nat) (hx : x < P) (hk : k ≤ 61) (hy : y < P) :
    accum k x y < P ∧ accum k x y = (x * 2 ^ k + y) % P := by
  obtain ⟨hlt, heq⟩ := rotl_spec x k hx hk
  have hmod : (x * 2 ^ k + y) % P = (rotl x k + y) % P := by rw [heq, Nat.mod_add_mod]
  unfold accum
  simp only
  rw [hmod]
  by_cases hge : rotl x k + y ≥ P
  · rw [if_pos hge]
    have h2 : rotl x k + y - P < P := by omega
    refine ⟨h2, ?_⟩
    rw [Nat.mod_eq_sub_mod hge, Nat.mod_eq_of_lt h2]
  · rw [if_neg hge]
    have h2 : rotl x k + y < P := by omega
    exact ⟨h2, (Nat.mod_eq_of_lt h2).symm⟩

theorem mod_mul_add_mod (a c d : Nat) : ((a % P) * c + d) % P = (a * c + d) % P := by
  rw [Nat.add_mod, Nat.mod_mul_mod, ← Nat.add_mod]

/-- **The digit loop of `long_hash` computes `|n| mod (2^61 - 1)`.** -/
theorem longLoop_digits (n : Nat) : longLoop (digits30 n) < P ∧ longLoop (digits30 n) = n % P := by
  induction n using Nat.strongRecOn with
  | _ n ih =>
    rw [digits30]
    by_cases h : n = 0
    · subst h
      simp [longLoop, P_pos]
    · rw [dif_neg h]
      have hlt : n / 2 ^ 30 < n := Nat.div_lt_self (Nat.pos_of_ne_zero h) (by decide)
      obtain ⟨h1, h2⟩ := ih _ hlt
      have hd : n % 2 ^ 30 < P := by rw [P_val]; omega
      have := accum_spec 30 (longLoop (digits30 (n / 2 ^ 30))) (n % 2 ^ 30) h1 (by omega) hd
      show accum 30 (longLoop (digits30 (n / 2 ^ 30))) (n % 2 ^ 30) < P ∧ accum 30 (longLoop (digits30 (n / 2 ^ 30))) (n % 2 ^ 30) = n % P
      refine ⟨this.1, ?_⟩
      rw [this.2, h2, mod_mul_add_mod, Nat.div_add_mod' n (2 ^ 30)]

end Einx.Cache.NumHash
