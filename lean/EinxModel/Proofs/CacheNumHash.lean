import EinxModel.Cache.NumHash
import Mathlib.Tactic.Ring
import Mathlib.Data.Nat.ModEq
/-!
Lemmas for `Props/C06Num.lean`: the 61-bit rotation is multiplication by a power of two modulo `2^61 - 1`; the digit loop
of `long_hash` and the mantissa loop of `_Py_HashDouble` compute the residue of the value.
-/
namespace Einx.Cache.NumHash
open Einx.Cache

theorem P_val : P = 2305843009213693951 := by decide

theorem P_pos : 0 < P := by rw [P_val]; omega

/-- The rotation written with arithmetic instead of bit operations. -/
theorem rotl_eq (x k : Nat) (hx : x < P) (hk : k ≤ 61) :
    rotl x k = (x % 2 ^ (61 - k)) * 2 ^ k + x / 2 ^ (61 - k) := by
  have h61 : 2 ^ 61 = 2 ^ (61 - k) * 2 ^ k := by rw [← Nat.pow_add]; congr 1; omega
  have hq : x / 2 ^ (61 - k) < 2 ^ k := by
    apply Nat.div_lt_of_lt_mul
    rw [← h61]
    have : P < 2 ^ 61 := by rw [P_val]; omega
    omega
  unfold rotl P
  rw [Nat.and_two_pow_sub_one_eq_mod, Nat.shiftLeft_eq, Nat.shiftRight_eq_div_pow, h61, Nat.mul_mod_mul_right,
    Nat.mul_comm (x % _) (2 ^ k)]
  exact (Nat.two_pow_add_eq_or_of_lt hq _).symm

/-- **Rotation by `k` inside 61 bits is multiplication by `2^k` modulo `2^61 - 1`** (on reduced values). -/
theorem rotl_spec (x k : Nat) (hx : x < P) (hk : k ≤ 61) : rotl x k < P ∧ rotl x k = (x * 2 ^ k) % P := by
  rw [rotl_eq x k hx hk]
  have hAB : 2 ^ (61 - k) * 2 ^ k = P + 1 := by
    rw [← Nat.pow_add, P_val]
    have : 61 - k + k = 61 := by omega
    rw [this]
  have hBpos : 0 < 2 ^ (61 - k) := Nat.two_pow_pos _
  have hApos : 0 < 2 ^ k := Nat.two_pow_pos _
  generalize 2 ^ (61 - k) = B at *
  generalize 2 ^ k = A at *
  have hx' : B * (x / B) + x % B = x := Nat.div_add_mod x B
  have hr : x % B < B := Nat.mod_lt _ hBpos
  have hq : x / B < A := by
    apply Nat.div_lt_of_lt_mul
    omega
  generalize x / B = q at *
  generalize x % B = r at *
  have h1 : (r + 1) * A ≤ B * A := Nat.mul_le_mul_right A hr
  have h1' : (r + 1) * A = r * A + A := by ring
  have h2 : B * (q + 1) = B * q + B := by ring
  have hlt : r * A + q < P := by
    by_contra hge
    have hge' : P ≤ r * A + q := Nat.le_of_not_lt hge
    have hqA : q + 1 = A := by omega
    have h3 : B * A ≤ (r + 1) * A := by omega
    have h4 : B ≤ r + 1 := Nat.le_of_mul_le_mul_right h3 hApos
    have h5 : B * (q + 1) = P + 1 := by rw [hqA]; exact hAB
    omega
  refine ⟨hlt, ?_⟩
  have hxa : x * A = (r * A + q) + P * q := by
    rw [← hx']
    calc (B * q + r) * A = (B * A) * q + r * A := by ring
      _ = (P + 1) * q + r * A := by rw [hAB]
      _ = _ := by ring
  rw [hxa, Nat.add_mul_mod_self_left, Nat.mod_eq_of_lt hlt]

/-- One step of either loop: `x ↦ (x · 2^k + y) mod P`. -/
theorem accum_spec (k x y : Nat) (hx : x < P) (hk : k ≤ 61) (hy : y < P) :
    accum k x y < P ∧ accum k x y = (x * 2 ^ k + y) % P := by
  obtain ⟨hlt, heq⟩ := rotl_spec x k hx hk
  have hmod : (x * 2 ^ k + y) % P = (rotl x k + y) % P := by rw [heq, Nat.mod_add_mod]
  unfold accum
  simp only
  rw [hmod]
  by_cases hge : rotl x k + y ≥ P
  · rw [if_pos hge]
    have h2 : rotl x k + y - P < P := by omega
    refine ⟨h2, ?_⟩
    rw [Nat.mod_eq_sub_mod hge, Nat.mod_eq_of_lt h2]
  · rw [if_neg hge]
    have h2 : rotl x k + y < P := by omega
    exact ⟨h2, (Nat.mod_eq_of_lt h2).symm⟩

theorem mod_mul_add_mod (a c d : Nat) : ((a % P) * c + d) % P = (a * c + d) % P := by
  rw [Nat.add_mod, Nat.mod_mul_mod, ← Nat.add_mod]

/-- **The digit loop of `long_hash` computes `|n| mod (2^61 - 1)`.** -/
theorem longLoop_digits (n : Nat) : longLoop (digits30 n) < P ∧ longLoop (digits30 n) = n % P := by
  induction n using Nat.strongRecOn with
  | _ n ih =>
    rw [digits30]
    by_cases h : n = 0
    · subst h
      simp [longLoop, P_pos]
    · rw [dif_neg h]
      have hlt : n / 2 ^ 30 < n := Nat.div_lt_self (Nat.pos_of_ne_zero h) (by decide)
      obtain ⟨h1, h2⟩ := ih _ hlt
      have hd : n % 2 ^ 30 < P := by rw [P_val]; omega
      have := accum_spec 30 (longLoop (digits30 (n / 2 ^ 30))) (n % 2 ^ 30) h1 (by omega) hd
      show accum 30 (longLoop (digits30 (n / 2 ^ 30))) (n % 2 ^ 30) < P ∧ accum 30 (longLoop (digits30 (n / 2 ^ 30))) (n % 2 ^ 30) = n % P
      refine ⟨this.1, ?_⟩
      rw [this.2, h2, mod_mul_add_mod, Nat.div_add_mod' n (2 ^ 30)]

/-! ### The mantissa loop of `_Py_HashDouble` -/

/-- `2^z mod P` for an integer exponent: `2` has order 61 modulo `2^61 - 1`. -/
def pw (z : Int) : Nat := 2 ^ (z % 61).toNat

theorem two_pow_61 : 2 ^ 61 ≡ 1 [MOD P] := by
  unfold Nat.ModEq
  rw [P_val]
  decide

theorem two_pow_mod (n : Nat) : 2 ^ n ≡ 2 ^ (n % 61) [MOD P] := by
  have h : 2 ^ n = (2 ^ 61) ^ (n / 61) * 2 ^ (n % 61) := by
    rw [← Nat.pow_mul, ← Nat.pow_add, Nat.div_add_mod]
  calc 2 ^ n = (2 ^ 61) ^ (n / 61) * 2 ^ (n % 61) := h
    _ ≡ 1 ^ (n / 61) * 2 ^ (n % 61) [MOD P] := Nat.ModEq.mul_right _ (Nat.ModEq.pow _ two_pow_61)
    _ = 2 ^ (n % 61) := by rw [Nat.one_pow, Nat.one_mul]

theorem pw_nat (n : Nat) : pw (n : Int) ≡ 2 ^ n [MOD P] := by
  have h : ((n : Int) % 61).toNat = n % 61 := by omega
  unfold pw
  rw [h]
  exact (two_pow_mod n).symm

theorem pw_add (u v : Int) : pw (u + v) ≡ pw u * pw v [MOD P] := by
  have h : ((u + v) % 61).toNat = ((u % 61).toNat + (v % 61).toNat) % 61 := by omega
  unfold pw
  rw [h, ← Nat.pow_add]
  exact (two_pow_mod _).symm

theorem two_pow_mul_pw (n : Nat) (z : Int) : 2 ^ n * pw z ≡ pw ((n : Int) + z) [MOD P] :=
  ((pw_nat n).symm.mul_right _).trans (pw_add n z).symm

theorem lt_two_pow_bitLen (a : Nat) : a < 2 ^ bitLen a := by
  induction a using Nat.strongRecOn with
  | _ a ih =>
    rw [bitLen]
    by_cases h : a = 0
    · subst h; simp
    · rw [dif_neg h]
      have := ih (a / 2) (Nat.div_lt_self (Nat.pos_of_ne_zero h) (by decide))
      rw [Nat.pow_succ]
      omega

theorem lt_P_of_lt_two_pow_28 {y : Nat} (h : y < 2 ^ 28) : y < P := by rw [P_val]; omega

/-- **Invariant of the mantissa loop**: with `m = a / 2^L`, the quantity `x · 2^e + m · 2^e` (modulo `2^61 - 1`, the
exponent read modulo 61) is preserved; at the end the mantissa is used up. -/
theorem dblLoop_spec (L : Nat) : ∀ (a x : Nat) (e : Int), a < 2 ^ L → x < P →
    (dblLoop a L x e).1 < P ∧ (dblLoop a L x e).1 * pw (dblLoop a L x e).2 ≡ x * pw e + a * pw (e - L) [MOD P] := by
  induction L using Nat.strongRecOn with
  | _ L ih =>
    intro a x e ha hx
    rw [dblLoop]
    by_cases h0 : a = 0
    · subst h0
      simp only [if_true]
      refine ⟨hx, ?_⟩
      rw [Nat.zero_mul, Nat.add_zero]
    · rw [if_neg h0]
      by_cases hL : L ≤ 28
      · rw [if_pos hL]
        have hy : a <<< (28 - L) < 2 ^ 28 := by
          rw [Nat.shiftLeft_eq]
          have h2 : 2 ^ 28 = 2 ^ L * 2 ^ (28 - L) := by rw [← Nat.pow_add]; congr 1; omega
          rw [h2]
          exact Nat.mul_lt_mul_of_lt_of_le ha (Nat.le_refl _) (Nat.two_pow_pos _)
        obtain ⟨h1, h2⟩ := accum_spec 28 x (a <<< (28 - L)) hx (by omega) (lt_P_of_lt_two_pow_28 hy)
        refine ⟨h1, ?_⟩
        show accum 28 x (a <<< (28 - L)) * pw (e - 28) ≡ _ [MOD P]
        rw [h2, Nat.shiftLeft_eq]
        have e1 : ((28 : Nat) : Int) + (e - 28) = e := by omega
        have e2 : ((28 - L : Nat) : Int) + (e - 28) = e - L := by omega
        have c1 := two_pow_mul_pw 28 (e - 28)
        have c2 := two_pow_mul_pw (28 - L) (e - 28)
        rw [e1] at c1
        rw [e2] at c2
        calc (x * 2 ^ 28 + a * 2 ^ (28 - L)) % P * pw (e - 28)
            ≡ (x * 2 ^ 28 + a * 2 ^ (28 - L)) * pw (e - 28) [MOD P] := (Nat.mod_modEq _ _).mul_right _
          _ = x * (2 ^ 28 * pw (e - 28)) + a * (2 ^ (28 - L) * pw (e - 28)) := by ring
          _ ≡ x * pw e + a * pw (e - L) [MOD P] := (c1.mul_left x).add (c2.mul_left a)
      · rw [if_neg hL]
        have hL' : 28 < L := Nat.lt_of_not_le hL
        have h2L : 2 ^ L = 2 ^ (L - 28) * 2 ^ 28 := by rw [← Nat.pow_add]; congr 1; omega
        have hy : a >>> (L - 28) < 2 ^ 28 := by
          rw [Nat.shiftRight_eq_div_pow]
          apply Nat.div_lt_of_lt_mul
          rw [← h2L]; exact ha
        have ha' : a % 2 ^ (L - 28) < 2 ^ (L - 28) := Nat.mod_lt _ (Nat.two_pow_pos _)
        obtain ⟨h1, h2⟩ := accum_spec 28 x (a >>> (L - 28)) hx (by omega) (lt_P_of_lt_two_pow_28 hy)
        obtain ⟨i1, i2⟩ := ih (L - 28) (by omega) (a % 2 ^ (L - 28)) (accum 28 x (a >>> (L - 28))) (e - 28) ha' h1
        refine ⟨i1, i2.trans ?_⟩
        rw [h2, Nat.shiftRight_eq_div_pow]
        have e1 : ((28 : Nat) : Int) + (e - 28) = e := by omega
        have e2 : ((L - 28 : Nat) : Int) + (e - L) = e - 28 := by omega
        have e3 : e - 28 - ((L - 28 : Nat) : Int) = e - L := by omega
        have c1 := two_pow_mul_pw 28 (e - 28)
        have c2 := two_pow_mul_pw (L - 28) (e - L)
        rw [e1] at c1
        rw [e2] at c2
        rw [e3]
        have hdiv : 2 ^ (L - 28) * (a / 2 ^ (L - 28)) + a % 2 ^ (L - 28) = a := Nat.div_add_mod a _
        generalize a / 2 ^ (L - 28) = y at *
        generalize a % 2 ^ (L - 28) = a' at *
        calc (x * 2 ^ 28 + y) % P * pw (e - 28) + a' * pw (e - L)
            ≡ (x * 2 ^ 28 + y) * pw (e - 28) + a' * pw (e - L) [MOD P] := ((Nat.mod_modEq _ _).mul_right _).add_right _
          _ = x * (2 ^ 28 * pw (e - 28)) + (y * pw (e - 28) + a' * pw (e - L)) := by ring
          _ ≡ x * pw e + (y * (2 ^ (L - 28) * pw (e - L)) + a' * pw (e - L)) [MOD P] :=
              (c1.mul_left x).add (((c2.mul_left y).symm).add_right _)
          _ = x * pw e + (2 ^ (L - 28) * y + a') * pw (e - L) := by ring
          _ = x * pw e + a * pw (e - L) := by rw [hdiv]

theorem finalShift_eq (e : Int) : finalShift e = (e % 61).toNat := by
  unfold finalShift
  split <;> omega

end Einx.Cache.NumHash
