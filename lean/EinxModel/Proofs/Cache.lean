import EinxModel.Cache.Value
import EinxModel.Cache.Freeze
import EinxModel.Cache.Hash
import EinxModel.Cache.Memo
import EinxModel.Cache.Stack
/-! Helper lemmas for C06 (memo machine invariant, `with` protocol, freezing and typed observation). -/
namespace Einx.Cache

/-! ### Memo machine -/

section Memo
variable {C K F : Type} (key : C → K) (hit : K → K → Bool) (trim : Memo K F → Memo K F) (compute : C → Outcome F)
  (P : C → Prop)

/-- Every stored entry is the successful result of the computation for some (admissible) call with that key. -/
def MemoInv (m : Memo K F) : Prop := ∀ e ∈ m, ∃ a : C, P a ∧ e.1 = key a ∧ compute a = .ok e.2

theorem step_spec
    (htrim : ∀ m e, e ∈ trim m → e ∈ m)
    (hcomp : ∀ a b, P a → P b → hit (key a) (key b) = true → compute a = compute b)
    (m : Memo K F) (inv : MemoInv key compute P m) (c : C) (hP : P c) :
    (step key hit trim compute m c).2 = compute c ∧ MemoInv key compute P (step key hit trim compute m c).1 := by
  unfold step
  cases hf : m.find? (fun e => hit (key c) e.1) with
  | some e =>
    have hm : e ∈ m := List.mem_of_find?_eq_some hf
    have hh : hit (key c) e.1 = true := by simpa using List.find?_some hf
    obtain ⟨a, hPa, ha, hc⟩ := inv e hm
    rw [ha] at hh
    exact ⟨by simp [hcomp c a hP hPa hh, hc], inv⟩
  | none =>
    cases hc : compute c with
    | ok f =>
      refine ⟨rfl, ?_⟩
      intro e he
      have := htrim _ _ he
      rcases List.mem_cons.mp this with h | h
      · exact ⟨c, hP, by simp [h], by simp [h, hc]⟩
      · exact inv e h
    | raised e => exact ⟨rfl, inv⟩

theorem run_spec
    (htrim : ∀ m e, e ∈ trim m → e ∈ m)
    (hcomp : ∀ a b, P a → P b → hit (key a) (key b) = true → compute a = compute b)
    (h : List C) : ∀ (m : Memo K F), MemoInv key compute P m → (∀ c ∈ h, P c) →
      (run key hit trim compute m h).2 = h.map compute ∧ MemoInv key compute P (run key hit trim compute m h).1 := by
  induction h with
  | nil => intro m inv _; exact ⟨rfl, inv⟩
  | cons c cs ih =>
    intro m inv hall
    have hs := step_spec key hit trim compute P htrim hcomp m inv c (hall c (List.mem_cons_self ..))
    have hr := ih _ hs.2 (fun x hx => hall x (List.mem_cons_of_mem _ hx))
    simp only [run, List.map_cons]
    exact ⟨by rw [hs.1, hr.1], hr.2⟩

end Memo

/-! ### `with` protocol -/

theorem exitUse_push (b : Nat) (s : Stacks) : exitUse b { s with use := s.use ++ [b] } = some s := by
  simp [exitUse]

theorem exitDep_push (d : List Nat) (s : Stacks) : exitDep { s with dep := s.dep ++ [d] } = some s := by
  unfold exitDep
  cases h : s.dep ++ [d] with
  | nil => simp at h
  | cons x xs => simp [← h]

theorem exec_restores (cfg : StackCfg) (hc : cfg.ok = true) (p : Prog) :
    ∀ s, (exec cfg p s).1 = s ∧ (exec cfg p s).2 ≠ .corrupt := by
  simp only [StackCfg.ok, Bool.and_eq_true] at hc
  obtain ⟨⟨⟨⟨h1, h2⟩, h3⟩, h4⟩, _⟩ := hc
  induction p with
  | prim r => intro s; cases r <;> simp [exec]
  | seq p q ihp ihq =>
    intro s
    have hp := ihp s
    simp only [exec]
    generalize exec cfg p s = r at hp
    obtain ⟨s1, st⟩ := r
    cases st with
    | normal => simp only at hp ⊢; rw [hp.1]; exact ihq s
    | raised => simpa using hp.1
    | corrupt => exact absurd rfl hp.2
  | withBackend b body ih =>
    intro s
    have hb := ih { s with use := s.use ++ [b] }
    simp only [exec]
    generalize exec cfg body { s with use := s.use ++ [b] } = r at hb
    obtain ⟨s1, st⟩ := r
    simp only at hb
    obtain ⟨rfl, hne⟩ := hb
    cases st with
    | normal => simp [exitUse_push]
    | raised => simp [exitUse_push, h1, h3]
    | corrupt => exact absurd rfl hne
  | withDeps d body ih =>
    intro s
    have hb := ih { s with dep := s.dep ++ [d] }
    simp only [exec]
    generalize exec cfg body { s with dep := s.dep ++ [d] } = r at hb
    obtain ⟨s1, st⟩ := r
    simp only at hb
    obtain ⟨rfl, hne⟩ := hb
    cases st with
    | normal => simp [exitDep_push]
    | raised => simp [exitDep_push, h2, h4]
    | corrupt => exact absurd rfl hne
  | tryExcept body ih =>
    intro s
    have hb := ih s
    simp only [exec]
    generalize exec cfg body s = r at hb
    obtain ⟨s1, st⟩ := r
    cases st <;> simp_all

/-! ### Freezing depends on the table only through `Table.act` -/

mutual
theorem freeze_congr (T T' : Table) (h : ∀ s, T.act s = T'.act s) : ∀ v, freeze T v = freeze T' v
  | .num k d => by simp [freeze, freezeLeaf, h]
  | .str _ | .none | .cls _ | .obj _ | .tensor _ | .conv _ _ => by simp [freeze, freezeLeaf]
  | .tuple xs => by simp [freeze, h, freezeList_congr T T' h xs]
  | .list xs => by simp [freeze, h, freezeList_congr T T' h xs]
  | .ndarray d x => by simp [freeze, h, freeze_congr T T' h x]
  | .dict kvs => by simp [freeze, h, freezeKVs_congr T T' h kvs]
  | .ns kvs => by simp [freeze, h, freezeKVs_congr T T' h kvs]
  | .param n d a k => by simp [freeze, freezeLeaf, h, freeze_congr T T' h d, freeze_congr T T' h a]
theorem freezeList_congr (T T' : Table) (h : ∀ s, T.act s = T'.act s) : ∀ xs, freezeList T xs = freezeList T' xs
  | [] => by simp [freezeList]
  | x :: xs => by simp [freezeList, freeze_congr T T' h x, freezeList_congr T T' h xs]
theorem freezeKVs_congr (T T' : Table) (h : ∀ s, T.act s = T'.act s) : ∀ kvs, freezeKVs T kvs = freezeKVs T' kvs
  | [] => by simp [freezeKVs]
  | (k, v) :: r => by simp [freezeKVs, freeze_congr T T' h v, freezeKVs_congr T T' h r]
end

/-- Container and leaf branches of a table that `respects` the pinned treatment. -/
structure Respects (T : Table) : Prop where
  tuple : T.act .tuple = .mapTuple
  list : T.act .list = .mapTuple
  ndarray : T.act .ndarray = .tolist
  dict : T.act .dict = .mapDict
  ns : T.act .ns = .vars
  param : T.act .param = .fields
  str : T.act .str = .ident
  none : T.act .none = .ident
  cls : T.act .cls = .ident
  obj : T.act .obj = .ident
  tensor : T.act .tensor = .ident
  conv : T.act .conv = .ident

theorem respects_of {T : Table} (h : T.respects = true) : Respects T := by
  simp only [Table.respects, containerShapes, leafShapes, List.all_cons, List.all_nil, Bool.and_true,
    Bool.and_eq_true, beq_iff_eq] at h
  obtain ⟨⟨a, b, c, d, e, f⟩, g, i, j, k, l, m⟩ := h
  exact ⟨by rw [a]; rfl, by rw [b]; rfl, by rw [c]; rfl, by rw [d]; rfl, by rw [e]; rfl, by rw [f]; rfl, g, i, j, k, l, m⟩

theorem pinned_respects : Respects pinnedTable := respects_of (by decide)

theorem tagsAll_of {T : Table} (h : T.tagsAll = true) (k : NumKind) : T.act (.num k) = .tagType := by
  simp only [Table.tagsAll, NumKind.all, List.all_cons, List.all_nil, Bool.and_true, Bool.and_eq_true, beq_iff_eq] at h
  cases k <;> simp [h]

theorem tagsNone_of {T : Table} (h : T.tagsNone = true) (k : NumKind) : T.act (.num k) = .ident := by
  simp only [Table.tagsNone, NumKind.all, List.all_cons, List.all_nil, Bool.and_true, Bool.and_eq_true, beq_iff_eq] at h
  cases k <;> simp [h]

theorem pinned_num (k : NumKind) : pinnedTable.act (.num k) = .ident := tagsNone_of (by decide) k

/-- A table that treats containers as the pinned one and leaves scalars alone freezes like the pinned one. -/
theorem freeze_untagged {T : Table} (hr : T.respects = true) (hn : T.tagsNone = true) (v : PyVal) :
    freeze T v = freeze pinnedTable v := by
  apply freeze_congr
  intro s
  have r := respects_of hr
  have p := pinned_respects
  cases s with
  | num k => rw [tagsNone_of hn k, pinned_num k]
  | str => rw [r.str, p.str]
  | none => rw [r.none, p.none]
  | cls => rw [r.cls, p.cls]
  | obj => rw [r.obj, p.obj]
  | tuple => rw [r.tuple, p.tuple]
  | list => rw [r.list, p.list]
  | ndarray => rw [r.ndarray, p.ndarray]
  | dict => rw [r.dict, p.dict]
  | ns => rw [r.ns, p.ns]
  | param => rw [r.param, p.param]
  | tensor => rw [r.tensor, p.tensor]
  | conv => rw [r.conv, p.conv]

mutual
/-- With every scalar tagged, freezing is the pinned freezing followed by tagging every number. -/
theorem freeze_factor (T : Table) (r : Respects T) (t : ∀ k, T.act (.num k) = .tagType) :
    ∀ v, freeze T v = tagNums (freeze pinnedTable v)
  | .num k d => by simp [freeze, freezeLeaf, t, pinned_num, tagNums]
  | .str _ | .none | .cls _ | .obj _ | .tensor _ | .conv _ _ => by simp [freeze, freezeLeaf, tagNums]
  | .tuple xs => by
      simp [freeze, r.tuple, pinned_respects.tuple, finishSeq, tagNums, freezeList_factor T r t xs]
  | .list xs => by
      simp [freeze, r.list, pinned_respects.list, finishSeq, tagNums, freezeList_factor T r t xs]
  | .ndarray d x => by simp [freeze, r.ndarray, pinned_respects.ndarray, freeze_factor T r t x]
  | .dict kvs => by
      simp [freeze, r.dict, pinned_respects.dict, finishDict, tagNums, freezeKVs_factor T r t kvs]
  | .ns kvs => by
      simp [freeze, r.ns, r.dict, pinned_respects.ns, pinned_respects.dict, finishDict, tagNums, freezeKVs_factor T r t kvs]
  | .param n d a k => by
      simp [freeze, freezeLeaf, r.param, r.tuple, pinned_respects.param, pinned_respects.tuple, finishSeq, tagNums,
        tagNumsList, freeze_factor T r t d, freeze_factor T r t a, t .paramKind, pinned_num .paramKind]
theorem freezeList_factor (T : Table) (r : Respects T) (t : ∀ k, T.act (.num k) = .tagType) :
    ∀ xs, freezeList T xs = tagNumsList (freezeList pinnedTable xs)
  | [] => by simp [freezeList, tagNumsList]
  | x :: xs => by simp [freezeList, tagNumsList, freeze_factor T r t x, freezeList_factor T r t xs]
theorem freezeKVs_factor (T : Table) (r : Respects T) (t : ∀ k, T.act (.num k) = .tagType) :
    ∀ kvs, freezeKVs T kvs = tagNumsKVs (freezeKVs pinnedTable kvs)
  | [] => by simp [freezeKVs, tagNumsKVs]
  | (k, v) :: rest => by simp [freezeKVs, tagNumsKVs, freeze_factor T r t v, freezeKVs_factor T r t rest]
end

/-! ### Tagged keys determine the typed observation -/

theorem typeName_inj {k k' : NumKind} (h : k.typeName = k'.typeName) : k = k' := by
  cases k <;> cases k' <;> first | rfl | (exact absurd h (by decide))

theorem pyEq_num_tagNums (k : NumKind) (v : Dy) (y : PyVal) : pyEq (.num k v) (tagNums y) = false := by
  cases y <;> simp [tagNums, tagged, pyEq]

theorem pyEq_tagNums_num (k : NumKind) (v : Dy) (x : PyVal) : pyEq (tagNums x) (.num k v) = false := by
  cases x <;> simp [tagNums, tagged, pyEq]

theorem tagNumsKVs_length : ∀ kvs : KVs, (tagNumsKVs kvs).length = kvs.length
  | [] => rfl
  | (_, _) :: r => by simp [tagNumsKVs, tagNumsKVs_length r]

theorem lookup_tagNumsKVs : ∀ (b : KVs) (q : String), lookupKV (tagNumsKVs b) q = (lookupKV b q).map tagNums
  | [], _ => rfl
  | (k, v) :: r, q => by
    simp only [tagNumsKVs, lookupKV]
    split <;> simp [lookup_tagNumsKVs r q]

mutual
theorem tag_typed : ∀ x y, pyEq (tagNums x) (tagNums y) = true → typedEq x y = true
  | .num k v, y => by
    intro h
    cases y with
    | num k' v' =>
      simp only [tagNums, tagged, pyEq, pyEqList, Bool.and_true, Bool.and_eq_true, beq_iff_eq] at h
      simp [typedEq, typeName_inj h.1, h.2]
    | tuple ys =>
      exfalso
      simp only [tagNums, tagged, pyEq] at h
      match ys, h with
      | [_, y2], h =>
        simp only [tagNumsList, pyEqList, Bool.and_true, Bool.and_eq_true] at h
        have := pyEq_num_tagNums k v y2
        simp [this] at h
      | [], h => simp [tagNumsList, pyEqList] at h
      | [_], h => simp [tagNumsList, pyEqList] at h
      | _ :: _ :: _ :: _, h => simp [tagNumsList, pyEqList] at h
    | _ => simp [tagNums, tagged, pyEq] at h
  | .tuple xs, y => by
    intro h
    cases y with
    | tuple ys => simp only [tagNums, pyEq] at h; simpa [typedEq] using tag_typedList xs ys h
    | num k v =>
      exfalso
      simp only [tagNums, tagged, pyEq] at h
      match xs, h with
      | [_, x2], h =>
        simp only [tagNumsList, pyEqList, Bool.and_true, Bool.and_eq_true] at h
        have := pyEq_tagNums_num k v x2
        simp [this] at h
      | [], h => simp [tagNumsList, pyEqList] at h
      | [_], h => simp [tagNumsList, pyEqList] at h
      | _ :: _ :: _ :: _, h => simp [tagNumsList, pyEqList] at h
    | _ => simp [tagNums, pyEq] at h
  | .list xs, y => by
    intro h
    cases y with
    | list ys => simp only [tagNums, pyEq] at h; simpa [typedEq] using tag_typedList xs ys h
    | _ => simp [tagNums, tagged, pyEq] at h
  | .dict a, y => by
    intro h
    cases y with
    | dict b =>
      simp only [tagNums, pyEq, tagNumsKVs_length, Bool.and_eq_true] at h
      simp [typedEq, h.1, tag_typedSub a b h.2]
    | _ => simp [tagNums, tagged, pyEq] at h
  | .ns a, y => by
    intro h
    cases y with
    | ns b =>
      simp only [tagNums, pyEq, tagNumsKVs_length, Bool.and_eq_true] at h
      simp [typedEq, h.1, tag_typedSub a b h.2]
    | _ => simp [tagNums, tagged, pyEq] at h
  | .param n d a k, y => by
    intro h
    cases y with
    | param n' d' a' k' =>
      simp only [tagNums, pyEq, Bool.and_eq_true] at h
      simp [typedEq, h.1.1.1, h.1.1.2, tag_typed d d' h.1.2, tag_typed a a' h.2]
    | _ => simp [tagNums, tagged, pyEq] at h
  | .ndarray _ _, y => by intro h; cases y <;> simp [tagNums, tagged, pyEq] at h
  | .str _, y => by intro h; cases y <;> simp_all [tagNums, tagged, pyEq, typedEq]
  | .none, y => by intro h; cases y <;> simp_all [tagNums, tagged, pyEq, typedEq]
  | .cls _, y => by intro h; cases y <;> simp_all [tagNums, tagged, pyEq, typedEq]
  | .obj _, y => by intro h; cases y <;> simp_all [tagNums, tagged, pyEq, typedEq]
  | .tensor _, y => by intro h; cases y <;> simp_all [tagNums, tagged, pyEq, typedEq]
  | .conv _ _, y => by intro h; cases y <;> simp_all [tagNums, tagged, pyEq, typedEq]
theorem tag_typedList : ∀ xs ys, pyEqList (tagNumsList xs) (tagNumsList ys) = true → typedEqList xs ys = true
  | [], [] => by simp [typedEqList]
  | [], _ :: _ => by simp [tagNumsList, pyEqList]
  | _ :: _, [] => by simp [tagNumsList, pyEqList]
  | x :: xs, y :: ys => by
    intro h
    simp only [tagNumsList, pyEqList, Bool.and_eq_true] at h
    simp [typedEqList, tag_typed x y h.1, tag_typedList xs ys h.2]
theorem tag_typedSub : ∀ a b, pyEqSub (tagNumsKVs a) (tagNumsKVs b) = true → typedEqSub a b = true
  | [], _ => by simp [typedEqSub]
  | (k, v) :: r, b => by
    intro h
    simp only [tagNumsKVs, pyEqSub, lookup_tagNumsKVs, Bool.and_eq_true] at h
    cases hl : lookupKV b k with
    | none => simp [hl] at h
    | some w =>
      simp only [hl, Option.map_some] at h
      simp [typedEqSub, hl, tag_typed v w h.1, tag_typedSub r b h.2]
end

theorem singleClass_lookup (c : NumClass) : ∀ (b : KVs) (k : String) (w : PyVal),
    singleClassKVs c b = true → lookupKV b k = some w → singleClass c w = true
  | [], _, _, _, h => by simp [lookupKV] at h
  | (k', v) :: r, k, w, hb, h => by
    simp only [singleClassKVs, Bool.and_eq_true] at hb
    simp only [lookupKV] at h
    split at h
    · cases h; exact hb.1
    · exact singleClass_lookup c r k w hb.2 h

/-! ### Without tags: keys determine the observation when all numbers have one class -/

mutual
theorem single_typed (c : NumClass) : ∀ x y, singleClass c x = true → singleClass c y = true → pyEq x y = true → typedEq x y = true
  | .num k v, y => by
    intro hx hy h
    cases y <;> simp_all [pyEq, typedEq, singleClass]
  | .tuple xs, y => by
    intro hx hy h
    cases y with
    | tuple ys => simp only [pyEq, singleClass] at *; simpa [typedEq] using single_typedList c xs ys hx hy h
    | _ => simp [pyEq] at h
  | .list xs, y => by
    intro hx hy h
    cases y with
    | list ys => simp only [pyEq, singleClass] at *; simpa [typedEq] using single_typedList c xs ys hx hy h
    | _ => simp [pyEq] at h
  | .dict a, y => by
    intro hx hy h
    cases y with
    | dict b =>
      simp only [pyEq, singleClass, Bool.and_eq_true] at *
      simp [typedEq, h.1, single_typedSub c a b hx hy h.2]
    | _ => simp [pyEq] at h
  | .ns a, y => by
    intro hx hy h
    cases y with
    | ns b =>
      simp only [pyEq, singleClass, Bool.and_eq_true] at *
      simp [typedEq, h.1, single_typedSub c a b hx hy h.2]
    | _ => simp [pyEq] at h
  | .param n d a k, y => by
    intro hx hy h
    cases y with
    | param n' d' a' k' =>
      simp only [pyEq, singleClass, Bool.and_eq_true] at *
      simp [typedEq, h.1.1.1, h.1.1.2, single_typed c d d' hx.1 hy.1 h.1.2, single_typed c a a' hx.2 hy.2 h.2]
    | _ => simp [pyEq] at h
  | .ndarray _ _, y => by intro _ _ h; cases y <;> simp [pyEq] at h
  | .str _, y => by intro _ _ h; cases y <;> simp_all [pyEq, typedEq]
  | .none, y => by intro _ _ h; cases y <;> simp_all [pyEq, typedEq]
  | .cls _, y => by intro _ _ h; cases y <;> simp_all [pyEq, typedEq]
  | .obj _, y => by intro _ _ h; cases y <;> simp_all [pyEq, typedEq]
  | .tensor _, y => by intro _ _ h; cases y <;> simp_all [pyEq, typedEq]
  | .conv _ _, y => by intro _ _ h; cases y <;> simp_all [pyEq, typedEq]
theorem single_typedList (c : NumClass) : ∀ xs ys, singleClassList c xs = true → singleClassList c ys = true →
    pyEqList xs ys = true → typedEqList xs ys = true
  | [], [] => by simp [typedEqList]
  | [], _ :: _ => by simp [pyEqList]
  | _ :: _, [] => by simp [pyEqList]
  | x :: xs, y :: ys => by
    intro hx hy h
    simp only [pyEqList, singleClassList, Bool.and_eq_true] at *
    simp [typedEqList, single_typed c x y hx.1 hy.1 h.1, single_typedList c xs ys hx.2 hy.2 h.2]
theorem single_typedSub (c : NumClass) : ∀ a b, singleClassKVs c a = true → singleClassKVs c b = true →
    pyEqSub a b = true → typedEqSub a b = true
  | [], _ => by simp [typedEqSub]
  | (k, v) :: r, b => by
    intro hx hy h
    simp only [pyEqSub, singleClassKVs, Bool.and_eq_true] at *
    cases hl : lookupKV b k with
    | none => simp [hl] at h
    | some w =>
      simp only [hl] at h
      have hw : singleClass c w = true := singleClass_lookup c b k w hy hl
      simp [typedEqSub, hl, single_typed c v w hx.1 hw h.1, single_typedSub c r b hx.2 hy h.2]
end

end Einx.Cache
