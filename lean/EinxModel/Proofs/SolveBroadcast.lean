import EinxModel.Proofs.SolveRankSem
/-!
A scalar (or lower-rank) constraint array against the same array repeated along a new leading
dimension (`Constraint.broadcast`): same value equations under the rank system, one more rank equation.
-/
namespace Einx.Solve

theorem flatten_replicate_getElem? (vals : List Nat) : ∀ (d i r : Nat), i < d → r < vals.length →
    (List.replicate d vals).flatten[i * vals.length + r]? = vals[r]?
  | 0, _, _, hi, _ => by omega
  | d + 1, 0, r, _, hr => by
    simp only [List.replicate_succ, List.flatten_cons, Nat.zero_mul, Nat.zero_add]
    rw [List.getElem?_append_left hr]
  | d + 1, j + 1, r, hi, hr => by
    simp only [List.replicate_succ, List.flatten_cons]
    rw [List.getElem?_append_right (by rw [Nat.succ_mul]; omega)]
    have : (j + 1) * vals.length + r - vals.length = j * vals.length + r := by rw [Nat.succ_mul]; omega
    rw [this]
    exact flatten_replicate_getElem? vals d j r (by omega) hr

theorem ravel?_lt : ∀ {ds is : List Nat} {r : Nat}, ravel? ds is = some r → r < ds.foldr (· * ·) 1
  | [], [], r, h => by simp [ravel?] at h; subst h; simp
  | d :: ds, i :: is, r, h => by
    simp only [ravel?] at h
    by_cases hi : i < d
    · simp only [hi, ↓reduceIte, Option.map_eq_some_iff] at h
      obtain ⟨r', hr', rfl⟩ := h
      have := ravel?_lt hr'
      simp only [List.foldr_cons]
      calc i * ds.foldr (· * ·) 1 + r' < i * ds.foldr (· * ·) 1 + ds.foldr (· * ·) 1 := by omega
        _ = (i + 1) * ds.foldr (· * ·) 1 := by rw [Nat.add_mul, Nat.one_mul]
        _ ≤ d * ds.foldr (· * ·) 1 := Nat.mul_le_mul_right _ hi
    · simp [hi] at h
  | [], _ :: _, _, h => by simp [ravel?] at h
  | _ :: _, [], _, h => by simp [ravel?] at h

/-- the repeated array read at `i :: is` is the array read at `is` -/
theorem constraintValue_broadcast (c : Constraint) (d : Nat) (hwf : c.vals.length = c.shape.foldr (· * ·) 1)
    (ipre isuf : List Nat) (i : Nat) (hi : i < d) (hs : isuf.length = c.shape.length) :
    constraintValue (c.broadcast d) (ipre ++ i :: isuf) = constraintValue c (ipre ++ i :: isuf) := by
  unfold constraintValue Constraint.broadcast
  have h1 : ¬ (ipre ++ i :: isuf).length < (d :: c.shape).length := by simp; omega
  have h2 : ¬ (ipre ++ i :: isuf).length < c.shape.length := by simp; omega
  simp only [h1, h2, ↓reduceIte]
  have e1 : (ipre ++ i :: isuf).drop ((ipre ++ i :: isuf).length - (d :: c.shape).length) = i :: isuf := by
    have : (ipre ++ i :: isuf).length - (d :: c.shape).length = ipre.length := by simp; omega
    rw [this]; simp
  have e2 : (ipre ++ i :: isuf).drop ((ipre ++ i :: isuf).length - c.shape.length) = isuf := by
    have : (ipre ++ i :: isuf).length - c.shape.length = ipre.length + 1 := by simp; omega
    rw [this, List.drop_append]; simp
  rw [e1, e2]
  simp only [ravel?, hi, ↓reduceIte]
  cases hr : ravel? c.shape isuf with
  | none => simp
  | some r =>
    have hlt := ravel?_lt hr
    simp only [Option.map_some]
    rw [← hwf] at hlt ⊢
    exact flatten_replicate_getElem? c.vals d i r hi hlt

theorem split_idx {ρ : Var → Nat} {id : Var} {suf : List Var} : ∀ (pre : List Var) (idx : List Nat) (st' : List Var),
    bounded ρ idx st' → sameCounts ρ (pre ++ id :: suf) st' →
    ∃ ipre i isuf, idx = ipre ++ i :: isuf ∧ isuf.length = suf.length ∧ i < ρ id
  | [], i :: is, b :: bs, hb, hs => by
    refine ⟨[], i, is, rfl, ?_, ?_⟩
    · rw [bounded_length hb.2, ← sameCounts_length hs.2]
    · have := hb.1; rw [← hs.1] at this; exact this
  | p :: pre, j :: js, b :: bs, hb, hs => by
    obtain ⟨ipre, i, isuf, he, h1, h2⟩ := split_idx pre js bs hb.2 hs.2
    exact ⟨j :: ipre, i, isuf, by rw [he]; rfl, h1, h2⟩
  | [], [], _ :: _, hb, _ => hb.elim
  | _ :: _, [], _ :: _, hb, _ => hb.elim
  | [], _, [], _, hs => hs.elim
  | _ :: _, _, [], _, hs => hs.elim

/-- Rank level: the repeated array adds the equation "count of the new level = d". -/
theorem broadcast_rank (ρ : Var → Nat) (occ : List (String × List Var)) (c : Constraint) (d : Nat)
    (pre suf : List Var) (id : Var) (hst : occ.lookup c.name = some (pre ++ id :: suf))
    (hsuf : suf.length = c.shape.length) :
    (∀ q ∈ constraintRankEqns true occ (c.broadcast d), holds ρ q) ↔
      (∀ q ∈ constraintRankEqns true occ c, holds ρ q) ∧ ρ id = d := by
  rw [constraintRank_holds ρ occ c _ hst,
    constraintRank_holds ρ occ (c.broadcast d) _ (by simpa [Constraint.broadcast] using hst)]
  have e1 : (pre ++ id :: suf).drop ((pre ++ id :: suf).length - (c.broadcast d).shape.length) = id :: suf := by
    have : (pre ++ id :: suf).length - (c.broadcast d).shape.length = pre.length := by
      simp [Constraint.broadcast]; omega
    rw [this]; simp
  have e2 : (pre ++ id :: suf).drop ((pre ++ id :: suf).length - c.shape.length) = suf := by
    have : (pre ++ id :: suf).length - c.shape.length = pre.length + 1 := by simp; omega
    rw [this, List.drop_append]; simp
  rw [e1, e2]
  simp only [Constraint.broadcast, matchShape, List.length_cons, List.length_append]
  constructor
  · rintro ⟨_, h1, h2⟩; exact ⟨⟨by omega, h2⟩, h1⟩
  · rintro ⟨⟨_, h2⟩, h1⟩; exact ⟨by omega, h1, h2⟩

/-- Value level: under the rank system (and the count of the new level being `d`) the repeated array
gives every expanded axis the value the original array gives. -/
theorem broadcast_value_eq (inp : Input) (ρ : Var → Nat) (hR : Sat (rankSystem true inp) ρ)
    (c : Constraint) (d : Nat) (hwf : c.vals.length = c.shape.foldr (· * ·) 1)
    (pre suf : List Var) (id : Var) (hst : inp.occs.lookup c.name = some (pre ++ id :: suf))
    (hsuf : suf.length = c.shape.length) (hd : ρ id = d) :
    ∀ a ∈ inp.axes ρ, a.1 = c.name → constraintValue (c.broadcast d) a.2.1 = constraintValue c a.2.1 := by
  intro a ha hn
  rw [sat_rankSystem_iff] at hR
  obtain ⟨_, hsame, _⟩ := hR
  obtain ⟨t, ht, hat⟩ := mem_inputAxes.mp ha
  obtain ⟨st', hocc, hb⟩ := axesOf_occs ρ t.expr [] [] trivial a hat
  have hmem : (a.1, st') ∈ inp.occs := by
    unfold Input.occs
    exact List.mem_flatMap.mpr ⟨t, ht, hocc⟩
  have hsc : sameCounts ρ (pre ++ id :: suf) st' := by
    have := (sameName_holds ρ inp.occs []).mp hsame (a.1, st') hmem (pre ++ id :: suf)
    rw [hn] at this
    simpa using this hst
  obtain ⟨ipre, i, isuf, he, h1, h2⟩ := split_idx pre a.2.1 st' hb hsc
  rw [he]
  exact constraintValue_broadcast c d hwf ipre isuf i (by omega) (by omega)

end Einx.Solve
