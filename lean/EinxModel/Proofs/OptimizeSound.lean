import EinxModel.Proofs.Optimize
/-
Helper lemmas for the whole-pass soundness theorems of C05 (`rewrite_sound`, `optimize_sound`,
`rebuild_preserves`): what `Term.eval` computes, node by node, in terms of `step` on a one- or two-register
file; the rule lemmas of `Proofs/Optimize.lean` restated for that register file.
-/
namespace Einx.Optimize
open Einx Einx.IR

/-! ### `Except` plumbing -/

theorem bind_ok {ε α β : Type} {m : Except ε α} {f : α → Except ε β} {b : β} :
    (m >>= f) = .ok b ↔ ∃ a, m = .ok a ∧ f a = .ok b := by
  cases m with
  | error e => simp [bind, Except.bind]
  | ok a => simp [bind, Except.bind]

/-! ### Inversion of `Term.eval` -/

theorem eval_input_ok {α : Type} (A : Alg α) (O : Op2 α) (inp : List (Tensor α)) (i : Nat) (s : List Nat) (v : Tensor α) :
    (Term.input i s).evalWith A O inp = .ok v ↔ inp[i]? = some v ∧ v.shape = s := by
  simp only [Term.evalWith]
  cases h : inp[i]? with
  | none => simp [throw, throwThe, MonadExceptOf.throw]
  | some t =>
    by_cases hs : t.shape = s
    · simp only [hs, if_true, pure, Except.pure, Except.ok.injEq, Option.some.injEq]
      constructor
      · intro e; subst e; exact ⟨rfl, hs⟩
      · intro e; exact e.1
    · simp only [hs, if_false, throw, throwThe, MonadExceptOf.throw, Option.some.injEq]
      constructor
      · intro e; cases e
      · rintro ⟨e, hv⟩; subst e; exact absurd hv hs

theorem eval_reshape_ok {α : Type} (A : Alg α) (O : Op2 α) (inp : List (Tensor α)) (x : Term) (s : List Nat) (v : Tensor α) :
    (Term.reshape x s).evalWith A O inp = .ok v ↔ ∃ vx, x.evalWith A O inp = .ok vx ∧ step A [vx] (.reshape 0 s) = .ok v := by
  rw [Term.evalWith]; exact bind_ok

theorem eval_transpose_ok {α : Type} (A : Alg α) (O : Op2 α) (inp : List (Tensor α)) (x : Term) (p : List Nat) (v : Tensor α) :
    (Term.transpose x p).evalWith A O inp = .ok v ↔ ∃ vx, x.evalWith A O inp = .ok vx ∧ step A [vx] (.transpose 0 p) = .ok v := by
  rw [Term.evalWith]; exact bind_ok

theorem eval_broadcastTo_ok {α : Type} (A : Alg α) (O : Op2 α) (inp : List (Tensor α)) (x : Term) (s : List Nat) (v : Tensor α) :
    (Term.broadcastTo x s).evalWith A O inp = .ok v ↔ ∃ vx, x.evalWith A O inp = .ok vx ∧ step A [vx] (.broadcastTo 0 s) = .ok v := by
  rw [Term.evalWith]; exact bind_ok

theorem eval_concat1_ok {α : Type} (A : Alg α) (O : Op2 α) (inp : List (Tensor α)) (x : Term) (axis : Nat) (v : Tensor α) :
    (Term.concat1 x axis).evalWith A O inp = .ok v ↔ ∃ vx, x.evalWith A O inp = .ok vx ∧ step A [vx] (.concat [0] axis) = .ok v := by
  rw [Term.evalWith]; exact bind_ok

theorem eval_concat2_ok {α : Type} (A : Alg α) (O : Op2 α) (inp : List (Tensor α)) (x y : Term) (axis : Nat) (v : Tensor α) :
    (Term.concat2 x y axis).evalWith A O inp = .ok v ↔
      ∃ a b, x.evalWith A O inp = .ok a ∧ y.evalWith A O inp = .ok b ∧ step A [a, b] (.concat [0, 1] axis) = .ok v := by
  rw [Term.evalWith, bind_ok]
  constructor
  · rintro ⟨a, ha, h⟩
    obtain ⟨b, hb, h⟩ := bind_ok.1 h
    exact ⟨a, b, ha, hb, h⟩
  · rintro ⟨a, b, ha, hb, h⟩
    exact ⟨a, ha, bind_ok.2 ⟨b, hb, h⟩⟩

theorem eval_cast {α : Type} (A : Alg α) (O : Op2 α) (inp : List (Tensor α)) (x : Term) :
    (Term.cast x).evalWith A O inp = x.evalWith A O inp := by
  rw [Term.evalWith]

theorem eval_op2_ok {α : Type} (A : Alg α) (O : Op2 α) (inp : List (Tensor α)) (f : String) (x y : Term) (s : List Nat) (v : Tensor α) :
    (Term.op2 f x y s).evalWith A O inp = .ok v ↔
      ∃ a b, x.evalWith A O inp = .ok a ∧ y.evalWith A O inp = .ok b ∧
        O f a b = .ok v ∧ v.shape = s := by
  rw [Term.evalWith, bind_ok]
  constructor
  · rintro ⟨a, ha, h⟩
    obtain ⟨b, hb, h⟩ := bind_ok.1 h
    obtain ⟨r, hr, h⟩ := bind_ok.1 h
    by_cases hs : r.shape = s
    · simp only [hs, if_true, pure, Except.pure, Except.ok.injEq] at h
      subst h
      exact ⟨a, b, ha, hb, hr, hs⟩
    · simp [hs, throw, throwThe, MonadExceptOf.throw] at h
  · rintro ⟨a, b, ha, hb, h, hs⟩
    refine ⟨a, ha, bind_ok.2 ⟨b, hb, bind_ok.2 ⟨v, h, ?_⟩⟩⟩
    simp [hs, pure, Except.pure]

/-! ### What a successful `step` of the five instruction kinds of the term model yields -/

theorem runPlan_tabulate_wf {α : Type} (A : Alg α) (regs : List (Tensor α)) (s : List Nat) (f : List Nat → Cell) :
    (runPlan A regs (tabulate s f)).shape = s ∧
      (runPlan A regs (tabulate s f)).data.length = prod (runPlan A regs (tabulate s f)).shape := by
  simp [runPlan_tabulate]

theorem step_reshape_prod {α : Type} (A : Alg α) (regs : List (Tensor α)) (x : Nat) (t : Tensor α) (s : List Nat)
    (v : Tensor α) (hx : regs[x]? = some t) (h : step A regs (.reshape x s) = .ok v) :
    prod t.shape = prod s := by
  by_cases hs : prod t.shape = prod s
  · exact hs
  · obtain ⟨e, he⟩ := step_reshape_error A regs x t s hx hs
    rw [he] at h; cases h

theorem step_reshape_wf {α : Type} (A : Alg α) (regs : List (Tensor α)) (x : Nat) (t : Tensor α) (s : List Nat)
    (v : Tensor α) (hx : regs[x]? = some t) (h : step A regs (.reshape x s) = .ok v) :
    v.shape = s ∧ v.data.length = prod v.shape := by
  rw [step_reshape A regs x t s hx (step_reshape_prod A regs x t s v hx h)] at h
  cases h
  simp

theorem step_transpose_perm {α : Type} (A : Alg α) (regs : List (Tensor α)) (x : Nat) (t : Tensor α) (p : List Nat)
    (v : Tensor α) (hx : regs[x]? = some t) (h : step A regs (.transpose x p) = .ok v) :
    isPerm p t.shape.length = true := by
  simp only [step, planInstr] at h
  obtain ⟨q, hq, -⟩ := bind_ok.1 h
  rw [getShape_regs regs x t hx] at hq
  obtain ⟨sx, hsx, hq⟩ := bind_ok.1 hq
  cases hsx
  split at hq
  · simp [throw, throwThe, MonadExceptOf.throw, bind, Except.bind] at hq
  · rename_i hn
    simpa using hn

theorem step_transpose_wf {α : Type} (A : Alg α) (regs : List (Tensor α)) (x : Nat) (t : Tensor α) (p : List Nat)
    (v : Tensor α) (hx : regs[x]? = some t) (h : step A regs (.transpose x p) = .ok v) :
    v.shape = permShape p t.shape ∧ v.data.length = prod v.shape := by
  rw [step_transpose A regs x t p hx (step_transpose_perm A regs x t p v hx h)] at h
  cases h
  simp

theorem step_broadcastTo_wf {α : Type} (A : Alg α) (regs : List (Tensor α)) (x : Nat) (s : List Nat) (v : Tensor α)
    (h : step A regs (.broadcastTo x s) = .ok v) : v.shape = s ∧ v.data.length = prod v.shape := by
  simp only [step, planInstr] at h
  obtain ⟨p, hp, h⟩ := bind_ok.1 h
  obtain ⟨sx, hsx, hp⟩ := bind_ok.1 hp
  split at hp
  · simp [throw, throwThe, MonadExceptOf.throw, bind, Except.bind] at hp
  · simp only [pure, Except.pure, Except.ok.injEq] at hp h
    subst hp; subst h
    exact runPlan_tabulate_wf A regs _ _

theorem step_ewise_wf {α : Type} (A : Alg α) (regs : List (Tensor α)) (f : String) (args : List Arg) (v : Tensor α)
    (h : step A regs (.ewise f args) = .ok v) : v.data.length = prod v.shape := by
  simp only [step, planInstr] at h
  obtain ⟨p, hp, h⟩ := bind_ok.1 h
  obtain ⟨ss, hss, hp⟩ := bind_ok.1 hp
  split at hp
  · simp [throw, throwThe, MonadExceptOf.throw, bind, Except.bind] at hp
  · obtain ⟨so, hso, hp⟩ := bind_ok.1 hp
    simp only [pure, Except.pure, Except.ok.injEq] at hp h
    subst hp; subst h
    exact (runPlan_tabulate_wf A regs _ _).2

/-- A one-operand `concatenate` that runs has a valid axis. -/
theorem step_concat1_axis {α : Type} (A : Alg α) (t : Tensor α) (axis : Nat) (v : Tensor α)
    (h : step A [t] (.concat [0] axis) = .ok v) : axis < t.shape.length := by
  simp only [step, planInstr, List.mapM_cons, List.mapM_nil, getShape_regs [t] 0 t rfl] at h
  obtain ⟨q, hq, -⟩ := bind_ok.1 h
  simp only [bind, Except.bind, pure, Except.pure] at hq
  split at hq
  · simp [throw, throwThe, MonadExceptOf.throw] at hq
  · rename_i hn
    omega

theorem step_concat1_wf {α : Type} (A : Alg α) (t : Tensor α) (axis : Nat) (v : Tensor α)
    (h : step A [t] (.concat [0] axis) = .ok v) : v.shape = t.shape ∧ v.data.length = prod v.shape := by
  simp only [step, planInstr, List.mapM_cons, List.mapM_nil, getShape_regs [t] 0 t rfl] at h
  obtain ⟨q, hq, h⟩ := bind_ok.1 h
  simp only [bind, Except.bind, pure, Except.pure] at hq
  split at hq
  · simp [throw, throwThe, MonadExceptOf.throw] at hq
  · split at hq
    · simp [throw, throwThe, MonadExceptOf.throw] at hq
    · simp only [pure, Except.pure, Except.ok.injEq] at hq h
      subst hq; subst h
      have := runPlan_tabulate_wf A [t]
      simp only [List.map_cons, List.map_nil, List.foldl_cons, List.foldl_nil, Nat.zero_add, set_getD_self]
      exact ⟨(this _ _).1, (this _ _).2⟩

theorem step_concat2_wf {α : Type} (A : Alg α) (a b : Tensor α) (axis : Nat) (v : Tensor α)
    (h : step A [a, b] (.concat [0, 1] axis) = .ok v) :
    v.shape = a.shape.set axis (a.shape.getD axis 0 + b.shape.getD axis 0) ∧ v.data.length = prod v.shape := by
  simp only [step, planInstr, List.mapM_cons, List.mapM_nil, getShape_regs [a, b] 0 a rfl,
    getShape_regs [a, b] 1 b rfl] at h
  obtain ⟨q, hq, h⟩ := bind_ok.1 h
  simp only [bind, Except.bind, pure, Except.pure] at hq
  split at hq
  · simp [throw, throwThe, MonadExceptOf.throw] at hq
  · split at hq
    · simp [throw, throwThe, MonadExceptOf.throw] at hq
    · simp only [pure, Except.pure, Except.ok.injEq] at hq h
      subst hq; subst h
      have := runPlan_tabulate_wf A [a, b]
      simp only [List.map_cons, List.map_nil, List.foldl_cons, List.foldl_nil, Nat.zero_add]
      exact ⟨(this _ _).1, (this _ _).2⟩

/-- The elementwise instance of `op2` returns data of the size its shape says. -/
theorem ewiseOp_wf {α : Type} (A : Alg α) : (ewiseOp A).WF :=
  fun f a b r h => step_ewise_wf A [a, b] f _ r h

/-! ### A reshape / transpose reads only its operand register -/

theorem readReg_reloc {α : Type} (A : Alg α) (regs : List (Tensor α)) (x : Nat) (t : Tensor α)
    (hx : regs[x]? = some t) (k : Nat) : readReg A regs x k = readReg A [t] 0 k := by
  simp [readReg, hx]

theorem step_reshape_reloc {α : Type} (A : Alg α) (regs : List (Tensor α)) (x : Nat) (t : Tensor α) (s : List Nat)
    (v : Tensor α) (hx : regs[x]? = some t) (h : step A regs (.reshape x s) = .ok v) :
    step A [t] (.reshape 0 s) = .ok v := by
  have hs := step_reshape_prod A regs x t s v hx h
  rw [step_reshape A regs x t s hx hs] at h
  rw [step_reshape A [t] 0 t s rfl hs, ← h]
  simp only [readReg_reloc A regs x t hx]

theorem step_transpose_reloc {α : Type} (A : Alg α) (regs : List (Tensor α)) (x : Nat) (t : Tensor α) (p : List Nat)
    (v : Tensor α) (hx : regs[x]? = some t) (h : step A regs (.transpose x p) = .ok v) :
    step A [t] (.transpose 0 p) = .ok v := by
  have hp := step_transpose_perm A regs x t p v hx h
  rw [step_transpose A regs x t p hx hp] at h
  rw [step_transpose A [t] 0 t p rfl hp, ← h]
  simp only [readReg_reloc A regs x t hx]

/-! ### The rule lemmas on a one-register file -/

/-- `SkipReshape`, merge: the outer reshape applied to the inner operand. -/
theorem reshape_reshape_single {α : Type} (A : Alg α) (t y z : Tensor α) (s1 s2 : List Nat)
    (h1 : step A [t] (.reshape 0 s1) = .ok y) (h2 : step A [y] (.reshape 0 s2) = .ok z) :
    step A [t] (.reshape 0 s2) = .ok z := by
  have e1 := step_reshape_prod A [t] 0 t s1 y rfl h1
  have hy := (step_reshape_wf A [t] 0 t s1 y rfl h1).1
  have e2 := step_reshape_prod A [y] 0 y s2 z rfl h2
  rw [hy] at e2
  obtain ⟨y', z', f1, f2, f3⟩ := reshape_reshape_step A [t] 0 t s1 s2 rfl e1 e2
  rw [h1] at f1
  cases f1
  have := step_reshape_reloc A ([t] ++ [y]) 1 y s2 z' rfl f2
  rw [h2] at this
  cases this
  exact f3

/-- `SkipTranspose`, merge: one transpose by the composed permutation, applied to the inner operand. -/
theorem transpose_transpose_single {α : Type} (A : Alg α) (t y z : Tensor α) (p1 p2 p : List Nat)
    (h1 : step A [t] (.transpose 0 p1) = .ok y) (h2 : step A [y] (.transpose 0 p2) = .ok z)
    (hc : Extracted.composePerm p1 p2 = some p) :
    step A [t] (.transpose 0 p) = .ok z := by
  have k1 := step_transpose_perm A [t] 0 t p1 y rfl h1
  have hy := (step_transpose_wf A [t] 0 t p1 y rfl h1).1
  have k2 := step_transpose_perm A [y] 0 y p2 z rfl h2
  have hlen : y.shape.length = t.shape.length := by
    rw [hy]; simp [permShape, (permOK_of_isPerm k1).len]
  rw [hlen] at k2
  obtain ⟨y', z', f1, f2, f3⟩ := transpose_transpose_step A [t] 0 t p1 p2 p rfl k1 k2 hc
  rw [h1] at f1
  cases f1
  have := step_transpose_reloc A ([t] ++ [y]) 1 y p2 z' rfl f2
  rw [h2] at this
  cases this
  exact f3

/-- Two transposes that run compose (the extracted comprehension never indexes out of range). -/
theorem composePerm_of_steps {α : Type} (A : Alg α) (t y z : Tensor α) (p1 p2 : List Nat)
    (h1 : step A [t] (.transpose 0 p1) = .ok y) (h2 : step A [y] (.transpose 0 p2) = .ok z) :
    ∃ p, p2.mapM (fun q => p1[q]?) = some p := by
  have k1 := permOK_of_isPerm (step_transpose_perm A [t] 0 t p1 y rfl h1)
  have hy := (step_transpose_wf A [t] 0 t p1 y rfl h1).1
  have k2 := step_transpose_perm A [y] 0 y p2 z rfl h2
  have hlen : y.shape.length = t.shape.length := by
    rw [hy]; simp [permShape, k1.len]
  rw [hlen] at k2
  have k2 := permOK_of_isPerm k2
  have : (p2.mapM (fun q => p1[q]?)).isSome = true := by
    apply mapM_isSome
    intro a ha
    have ha' : a < p1.length := by rw [k1.len]; exact (k2.mem a).1 ha
    simp [List.getElem?_eq_getElem ha']
  exact Option.isSome_iff_exists.1 this

/-! ### Shapes and sizes of what a term evaluates to -/

/-- The traced shape of a term is the shape of its value. -/
theorem eval_shape {α : Type} (A : Alg α) (O : Op2 α) (inp : List (Tensor α)) (t : Term) :
    ∀ v, t.evalWith A O inp = .ok v → v.shape = t.shape := by
  induction t with
  | input i s => intro v h; exact ((eval_input_ok A O inp i s v).1 h).2
  | reshape x s _ =>
    intro v h
    obtain ⟨vx, _, hs⟩ := (eval_reshape_ok A O inp x s v).1 h
    exact (step_reshape_wf A [vx] 0 vx s v rfl hs).1
  | transpose x p ih =>
    intro v h
    obtain ⟨vx, hx, hs⟩ := (eval_transpose_ok A O inp x p v).1 h
    rw [(step_transpose_wf A [vx] 0 vx p v rfl hs).1, ih vx hx]
    rfl
  | broadcastTo x s _ =>
    intro v h
    obtain ⟨vx, _, hs⟩ := (eval_broadcastTo_ok A O inp x s v).1 h
    exact (step_broadcastTo_wf A [vx] 0 s v hs).1
  | concat1 x axis ih =>
    intro v h
    obtain ⟨vx, hx, hs⟩ := (eval_concat1_ok A O inp x axis v).1 h
    rw [(step_concat1_wf A vx axis v hs).1, ih vx hx]
    rfl
  | concat2 x y axis ihx ihy =>
    intro v h
    obtain ⟨a, b, ha, hb, hs⟩ := (eval_concat2_ok A O inp x y axis v).1 h
    rw [(step_concat2_wf A a b axis v hs).1, ihx a ha, ihy b hb]
    rfl
  | cast x ih => intro v h; rw [eval_cast] at h; exact ih v h
  | op2 f x y s _ _ =>
    intro v h
    obtain ⟨a, b, _, _, _, hs⟩ := (eval_op2_ok A O inp f x y s v).1 h
    exact hs

/-- On inputs whose data have the size their shapes say, so has every value. -/
theorem eval_wf {α : Type} (A : Alg α) (O : Op2 α) (hO : O.WF) (inp : List (Tensor α)) (hin : ∀ x ∈ inp, x.data.length = prod x.shape)
    (t : Term) : ∀ v, t.evalWith A O inp = .ok v → v.data.length = prod v.shape := by
  induction t with
  | input i s =>
    intro v h
    exact hin v (List.mem_of_getElem? ((eval_input_ok A O inp i s v).1 h).1)
  | reshape x s _ =>
    intro v h
    obtain ⟨vx, _, hs⟩ := (eval_reshape_ok A O inp x s v).1 h
    exact (step_reshape_wf A [vx] 0 vx s v rfl hs).2
  | transpose x p _ =>
    intro v h
    obtain ⟨vx, _, hs⟩ := (eval_transpose_ok A O inp x p v).1 h
    exact (step_transpose_wf A [vx] 0 vx p v rfl hs).2
  | broadcastTo x s _ =>
    intro v h
    obtain ⟨vx, _, hs⟩ := (eval_broadcastTo_ok A O inp x s v).1 h
    exact (step_broadcastTo_wf A [vx] 0 s v hs).2
  | concat1 x axis _ =>
    intro v h
    obtain ⟨vx, _, hs⟩ := (eval_concat1_ok A O inp x axis v).1 h
    exact (step_concat1_wf A vx axis v hs).2
  | concat2 x y axis _ _ =>
    intro v h
    obtain ⟨a, b, _, _, hs⟩ := (eval_concat2_ok A O inp x y axis v).1 h
    exact (step_concat2_wf A a b axis v hs).2
  | cast x ih => intro v h; rw [eval_cast] at h; exact ih v h
  | op2 f x y s _ _ =>
    intro v h
    obtain ⟨a, b, _, _, hs, _⟩ := (eval_op2_ok A O inp f x y s v).1 h
    exact hO f a b v hs

/-! ### The root cases of a pass, at the level of `Term.eval`

`inp` are inputs whose data have the size their shapes say (`hin`); the no-op tests are given in decoded
form (`Props/C05.lean` decodes the extracted tests with the `…Noop_sound` obligations). -/

section Root
variable {α : Type} (A : Alg α) (O : Op2 α) (inp : List (Tensor α))

/-- No-op reshape: a reshape to the traced shape of its operand computes the operand. -/
theorem eval_reshape_noop (hO : O.WF) (hin : ∀ x ∈ inp, x.data.length = prod x.shape) (x : Term) (s : List Nat) (v : Tensor α)
    (hs : s = x.shape) (h : (Term.reshape x s).evalWith A O inp = .ok v) : x.evalWith A O inp = .ok v := by
  obtain ⟨y, hy, hst⟩ := (eval_reshape_ok A O inp x s v).1 h
  have e := reshape_same_step A [y] 0 y rfl (eval_wf A O hO inp hin x y hy)
  rw [eval_shape A O inp x y hy, ← hs, hst] at e
  rw [Except.ok.inj e]
  exact hy

/-- No-op transpose: a transpose by the identity permutation of the traced rank computes the operand. -/
theorem eval_transpose_noop (hO : O.WF) (hin : ∀ x ∈ inp, x.data.length = prod x.shape) (x : Term) (p : List Nat) (v : Tensor α)
    (hp : p = List.range x.shape.length) (h : (Term.transpose x p).evalWith A O inp = .ok v) : x.evalWith A O inp = .ok v := by
  obtain ⟨y, hy, hst⟩ := (eval_transpose_ok A O inp x p v).1 h
  have e := transpose_id_step A [y] 0 y rfl (eval_wf A O hO inp hin x y hy)
  rw [eval_shape A O inp x y hy, ← hp, hst] at e
  rw [Except.ok.inj e]
  exact hy

/-- No-op broadcast_to. -/
theorem eval_broadcastTo_noop (hO : O.WF) (hin : ∀ x ∈ inp, x.data.length = prod x.shape) (x : Term) (s : List Nat) (v : Tensor α)
    (hs : s = x.shape) (h : (Term.broadcastTo x s).evalWith A O inp = .ok v) : x.evalWith A O inp = .ok v := by
  obtain ⟨y, hy, hst⟩ := (eval_broadcastTo_ok A O inp x s v).1 h
  have e := broadcast_same_step A [y] 0 y rfl (eval_wf A O hO inp hin x y hy)
  rw [eval_shape A O inp x y hy, ← hs, hst] at e
  rw [Except.ok.inj e]
  exact hy

/-- One-operand concatenate (that runs: its axis is then valid). -/
theorem eval_concat1_noop (hO : O.WF) (hin : ∀ x ∈ inp, x.data.length = prod x.shape) (x : Term) (axis : Nat) (v : Tensor α)
    (h : (Term.concat1 x axis).evalWith A O inp = .ok v) : x.evalWith A O inp = .ok v := by
  obtain ⟨y, hy, hst⟩ := (eval_concat1_ok A O inp x axis v).1 h
  have e := concat_singleton_step A [y] 0 axis y rfl (eval_wf A O hO inp hin x y hy) (step_concat1_axis A y axis v hst)
  rw [hst] at e
  rw [Except.ok.inj e]
  exact hy

/-- Merge of two reshapes, with the inner operand replaced by anything that computes the same. -/
theorem eval_reshape_merge (x' r : Term) (s1 s : List Nat) (v : Tensor α)
    (ih : ∀ w, x'.evalWith A O inp = .ok w → r.evalWith A O inp = .ok w)
    (h : (Term.reshape (.reshape x' s1) s).evalWith A O inp = .ok v) : (Term.reshape r s).evalWith A O inp = .ok v := by
  obtain ⟨y, hy, hs⟩ := (eval_reshape_ok A O inp _ s v).1 h
  obtain ⟨t, ht, hs1⟩ := (eval_reshape_ok A O inp _ s1 y).1 hy
  exact (eval_reshape_ok A O inp _ s v).2 ⟨t, ih t ht, reshape_reshape_single A t y v s1 s hs1 hs⟩

/-- Two nested transposes that run have a defined composition ... -/
theorem eval_transpose_composable (x' : Term) (p1 p2 : List Nat) (v : Tensor α)
    (h : (Term.transpose (.transpose x' p1) p2).evalWith A O inp = .ok v) : ∃ p, p2.mapM (fun q => p1[q]?) = some p := by
  obtain ⟨y, hy, hs⟩ := (eval_transpose_ok A O inp _ p2 v).1 h
  obtain ⟨t, ht, hs1⟩ := (eval_transpose_ok A O inp _ p1 y).1 hy
  exact composePerm_of_steps A t y v p1 p2 hs1 hs

/-- ... and the merged transpose computes the same. -/
theorem eval_transpose_merge (x' r : Term) (p1 p2 p : List Nat) (v : Tensor α)
    (hc : Extracted.composePerm p1 p2 = some p)
    (ih : ∀ w, x'.evalWith A O inp = .ok w → r.evalWith A O inp = .ok w)
    (h : (Term.transpose (.transpose x' p1) p2).evalWith A O inp = .ok v) : (Term.transpose r p).evalWith A O inp = .ok v := by
  obtain ⟨y, hy, hs⟩ := (eval_transpose_ok A O inp _ p2 v).1 h
  obtain ⟨t, ht, hs1⟩ := (eval_transpose_ok A O inp _ p1 y).1 hy
  exact (eval_transpose_ok A O inp _ p v).2 ⟨t, ih t ht, transpose_transpose_single A t y v p1 p2 p hs1 hs hc⟩

/-! Rebuilding a node from operands that compute the same (possibly over another register file `inp'`). -/

theorem eval_reshape_congr (inp' : List (Tensor α)) (x r : Term) (s : List Nat) (v : Tensor α)
    (ih : ∀ w, x.evalWith A O inp = .ok w → r.evalWith A O inp' = .ok w)
    (h : (Term.reshape x s).evalWith A O inp = .ok v) : (Term.reshape r s).evalWith A O inp' = .ok v := by
  obtain ⟨y, hy, hs⟩ := (eval_reshape_ok A O inp _ s v).1 h
  exact (eval_reshape_ok A O inp' _ s v).2 ⟨y, ih y hy, hs⟩

theorem eval_transpose_congr (inp' : List (Tensor α)) (x r : Term) (p : List Nat) (v : Tensor α)
    (ih : ∀ w, x.evalWith A O inp = .ok w → r.evalWith A O inp' = .ok w)
    (h : (Term.transpose x p).evalWith A O inp = .ok v) : (Term.transpose r p).evalWith A O inp' = .ok v := by
  obtain ⟨y, hy, hs⟩ := (eval_transpose_ok A O inp _ p v).1 h
  exact (eval_transpose_ok A O inp' _ p v).2 ⟨y, ih y hy, hs⟩

theorem eval_broadcastTo_congr (inp' : List (Tensor α)) (x r : Term) (s : List Nat) (v : Tensor α)
    (ih : ∀ w, x.evalWith A O inp = .ok w → r.evalWith A O inp' = .ok w)
    (h : (Term.broadcastTo x s).evalWith A O inp = .ok v) : (Term.broadcastTo r s).evalWith A O inp' = .ok v := by
  obtain ⟨y, hy, hs⟩ := (eval_broadcastTo_ok A O inp _ s v).1 h
  exact (eval_broadcastTo_ok A O inp' _ s v).2 ⟨y, ih y hy, hs⟩

theorem eval_concat1_congr (inp' : List (Tensor α)) (x r : Term) (axis : Nat) (v : Tensor α)
    (ih : ∀ w, x.evalWith A O inp = .ok w → r.evalWith A O inp' = .ok w)
    (h : (Term.concat1 x axis).evalWith A O inp = .ok v) : (Term.concat1 r axis).evalWith A O inp' = .ok v := by
  obtain ⟨y, hy, hs⟩ := (eval_concat1_ok A O inp _ axis v).1 h
  exact (eval_concat1_ok A O inp' _ axis v).2 ⟨y, ih y hy, hs⟩

theorem eval_concat2_congr (inp' : List (Tensor α)) (x y rx ry : Term) (axis : Nat) (v : Tensor α)
    (ihx : ∀ w, x.evalWith A O inp = .ok w → rx.evalWith A O inp' = .ok w)
    (ihy : ∀ w, y.evalWith A O inp = .ok w → ry.evalWith A O inp' = .ok w)
    (h : (Term.concat2 x y axis).evalWith A O inp = .ok v) : (Term.concat2 rx ry axis).evalWith A O inp' = .ok v := by
  obtain ⟨a, b, ha, hb, hs⟩ := (eval_concat2_ok A O inp _ _ axis v).1 h
  exact (eval_concat2_ok A O inp' _ _ axis v).2 ⟨a, b, ihx a ha, ihy b hb, hs⟩

theorem eval_op2_congr (inp' : List (Tensor α)) (f : String) (x y rx ry : Term) (s : List Nat) (v : Tensor α)
    (ihx : ∀ w, x.evalWith A O inp = .ok w → rx.evalWith A O inp' = .ok w)
    (ihy : ∀ w, y.evalWith A O inp = .ok w → ry.evalWith A O inp' = .ok w)
    (h : (Term.op2 f x y s).evalWith A O inp = .ok v) : (Term.op2 f rx ry s).evalWith A O inp' = .ok v := by
  obtain ⟨a, b, ha, hb, hs⟩ := (eval_op2_ok A O inp f _ _ s v).1 h
  exact (eval_op2_ok A O inp' f _ _ s v).2 ⟨a, b, ihx a ha, ihy b hb, hs⟩

end Root

/-! ### `rewrite` is one strategy of the rewrite system -/

/-- One pass of the term model applies patterns (in contexts, in sequence) and nothing else. -/
theorem rewrite_rewrites (t : Term) : Rewrites t (rewrite t).1 := by
  induction t using rewrite.induct with
  | case1 i s => rw [rewrite]; exact .refl _
  | case2 x' s1 s hn ih => rw [rewrite, if_pos hn]; exact .trans (.rule (.reshapeNoop _ s hn)) ih
  | case3 x' s1 s hn ih => rw [rewrite, if_neg hn]; exact .trans (.rule (.reshapeMerge x' s1 s)) (.reshape s ih)
  | case4 x s hx hn ih => rw [rewrite.eq_3 _ _ hx, if_pos hn]; exact .trans (.rule (.reshapeNoop x s hn)) ih
  | case5 x s hx hn ih => rw [rewrite.eq_3 _ _ hx, if_neg hn]; exact .reshape s ih
  | case6 x' p1 p2 hn ih => rw [rewrite, if_pos hn]; exact .trans (.rule (.transposeNoop _ p2 hn)) ih
  | case7 x' p1 p2 hn p hc ih =>
    rw [rewrite, if_neg hn]
    simp only [hc]
    exact .trans (.rule (.transposeMerge x' p1 p2 p hc)) (.transpose p ih)
  | case8 x' p1 p2 hn hc ih =>
    rw [rewrite, if_neg hn]
    simp only [hc]
    exact .transpose p2 ih
  | case9 x p hx hn ih => rw [rewrite.eq_5 _ _ hx, if_pos hn]; exact .trans (.rule (.transposeNoop x p hn)) ih
  | case10 x p hx hn ih => rw [rewrite.eq_5 _ _ hx, if_neg hn]; exact .transpose p ih
  | case11 x s hn ih => rw [rewrite, if_pos hn]; exact .trans (.rule (.broadcastNoop x s hn)) ih
  | case12 x s hn ih => rw [rewrite, if_neg hn]; exact .broadcastTo s ih
  | case13 x axis hn ih => rw [rewrite, if_pos hn]; exact .trans (.rule (.concatNoop x axis hn)) ih
  | case14 x axis hn ih => rw [rewrite, if_neg hn]; exact .concat1 axis ih
  | case15 x y axis hn ih =>
    -- `SkipConcatenate` never fires on two operands (fails to build if the extracted test says otherwise)
    exact absurd hn (by decide)
  | case16 x y axis hn ihx ihy => rw [rewrite, if_neg hn]; exact .concat2 axis ihx ihy
  | case17 x ih => rw [rewrite]; exact .trans (.rule (.skipCast x)) ih
  | case18 f x y s ihx ihy => rw [rewrite]; exact .op2 f s ihx ihy

/-! ### Iterating a pass -/

/-- Whatever every pass preserves, the optimiser loop preserves. -/
theorem fix_invariant {G : Type} (P : PassModel G) (Q : G → Prop) (hQ : ∀ g, Q g → Q (P.pass g).1) :
    ∀ g, Q g → Q (P.fix g).1 := by
  intro g
  induction h : P.measure g using Nat.strongRecOn generalizing g with
  | _ n ih =>
    intro hg
    rw [fix_unfold]
    by_cases hc : (P.pass g).2 = true
    · simp only [hc, if_true]
      exact ih _ (by rw [← h]; exact P.decreases g hc) _ rfl (hQ g hg)
    · simp only [hc, Bool.false_eq_true, if_false]
      exact hQ g hg

/-! ### Bindings -/

theorem evalLets_cons_ok {α : Type} (A : Alg α) (O : Op2 α) (b : Term) (bs : List Term) (env env' : List (Tensor α)) :
    evalLetsWith A O (b :: bs) env = .ok env' ↔ ∃ v, b.evalWith A O env = .ok v ∧ evalLetsWith A O bs (env ++ [v]) = .ok env' := by
  rw [evalLetsWith]; exact bind_ok

/-- The register file only grows: one register per binding. -/
theorem evalLets_extends {α : Type} (A : Alg α) (O : Op2 α) : ∀ (bs : List Term) (env env' : List (Tensor α)),
    evalLetsWith A O bs env = .ok env' → ∃ vs, env' = env ++ vs ∧ vs.length = bs.length
  | [], env, env', h => by
    simp only [evalLetsWith, pure, Except.pure, Except.ok.injEq] at h
    exact ⟨[], by simp [h], rfl⟩
  | b :: bs, env, env', h => by
    obtain ⟨v, _, hr⟩ := (evalLets_cons_ok A O b bs env env').1 h
    obtain ⟨vs, e, hl⟩ := evalLets_extends A O bs _ _ hr
    exact ⟨v :: vs, by simp [e], by simp [hl]⟩

theorem evalLets_wf {α : Type} (A : Alg α) (O : Op2 α) (hO : O.WF) : ∀ (bs : List Term) (env env' : List (Tensor α)),
    (∀ x ∈ env, x.data.length = prod x.shape) → evalLetsWith A O bs env = .ok env' →
      ∀ x ∈ env', x.data.length = prod x.shape
  | [], env, env', hin, h => by
    simp only [evalLetsWith, pure, Except.pure, Except.ok.injEq] at h
    rw [← h]; exact hin
  | b :: bs, env, env', hin, h => by
    obtain ⟨v, hv, hr⟩ := (evalLets_cons_ok A O b bs env env').1 h
    refine evalLets_wf A O hO bs _ _ ?_ hr
    intro x hx
    rcases List.mem_append.1 hx with hx | hx
    · exact hin x hx
    · rw [List.mem_singleton.1 hx]; exact eval_wf A O hO env hin b v hv

/-- Rewriting every binding once by a transformation that preserves what a term computes preserves the
whole register file (so every consumer of a binding reads the same value as before). -/
theorem evalLets_map {α : Type} (A : Alg α) (O : Op2 α) (hO : O.WF) (f : Term → Term)
    (hf : ∀ env : List (Tensor α), (∀ x ∈ env, x.data.length = prod x.shape) →
      ∀ t v, t.evalWith A O env = .ok v → (f t).evalWith A O env = .ok v) :
    ∀ (bs : List Term) (env env' : List (Tensor α)), (∀ x ∈ env, x.data.length = prod x.shape) →
      evalLetsWith A O bs env = .ok env' → evalLetsWith A O (bs.map f) env = .ok env'
  | [], _, _, _, h => h
  | b :: bs, env, env', hin, h => by
    obtain ⟨v, hv, hr⟩ := (evalLets_cons_ok A O b bs env env').1 h
    rw [List.map_cons]
    refine (evalLets_cons_ok A O _ _ env env').2 ⟨v, hf env hin b v hv, evalLets_map A O hO f hf bs _ _ ?_ hr⟩
    intro x hx
    rcases List.mem_append.1 hx with hx | hx
    · exact hin x hx
    · rw [List.mem_singleton.1 hx]; exact eval_wf A O hO env hin b v hv

/-- Substituting trees that compute the bound values for the leaves that read them. -/
theorem eval_subst {α : Type} (A : Alg α) (O : Op2 α) (env vs : List (Tensor α)) (σ : List Term) (hlen : σ.length = vs.length)
    (hσ : ∀ (j : Nat) (t : Term), σ[j]? = some t → ∃ v, vs[j]? = some v ∧ t.evalWith A O env = .ok v) (t : Term) :
    ∀ v, t.evalWith A O (env ++ vs) = .ok v → (t.subst env.length σ).evalWith A O env = .ok v := by
  induction t with
  | input i s =>
    intro v h
    obtain ⟨hi, hs⟩ := (eval_input_ok A O _ i s v).1 h
    rw [Term.subst]
    by_cases hlt : i < env.length
    · rw [if_pos hlt]
      rw [List.getElem?_append_left hlt] at hi
      exact (eval_input_ok A O env i s v).2 ⟨hi, hs⟩
    · rw [if_neg hlt]
      rw [List.getElem?_append_right (by omega)] at hi
      have hj : i - env.length < σ.length := by
        rw [hlen]
        rcases Nat.lt_or_ge (i - env.length) vs.length with h | h
        · exact h
        · rw [List.getElem?_eq_none h] at hi; cases hi
      obtain ⟨v', hv', he⟩ := hσ _ _ (List.getElem?_eq_getElem hj)
      rw [hi] at hv'
      cases hv'
      simpa [List.getElem?_eq_getElem hj] using he
  | reshape x s ih => intro v h; exact eval_reshape_congr A O _ env x _ s v ih h
  | transpose x p ih => intro v h; exact eval_transpose_congr A O _ env x _ p v ih h
  | broadcastTo x s ih => intro v h; exact eval_broadcastTo_congr A O _ env x _ s v ih h
  | concat1 x axis ih => intro v h; exact eval_concat1_congr A O _ env x _ axis v ih h
  | concat2 x y axis ihx ihy => intro v h; exact eval_concat2_congr A O _ env x y _ _ axis v ihx ihy h
  | cast x ih => intro v h; rw [Term.subst, eval_cast]; exact ih v (by rwa [eval_cast] at h)
  | op2 f x y s ihx ihy => intro v h; exact eval_op2_congr A O _ env f x y _ _ s v ihx ihy h

/-- The tree unfolding of every binding computes, from the graph inputs alone, the value of that binding. -/
theorem unfoldLets_sound_aux {α : Type} (A : Alg α) (O : Op2 α) (env : List (Tensor α)) :
    ∀ (bs : List Term) (σ : List Term) (vs env' : List (Tensor α)), σ.length = vs.length →
      (∀ (j : Nat) (t : Term), σ[j]? = some t → ∃ v, vs[j]? = some v ∧ t.evalWith A O env = .ok v) →
      evalLetsWith A O bs (env ++ vs) = .ok env' →
      ∀ (j : Nat) (t : Term), (unfoldLets env.length bs σ)[j]? = some t → ∃ v, env'[env.length + j]? = some v ∧ t.evalWith A O env = .ok v
  | [], σ, vs, env', _, hσ, h => by
    simp only [evalLetsWith, pure, Except.pure, Except.ok.injEq] at h
    intro j t hj
    obtain ⟨v, hv, he⟩ := hσ j t hj
    refine ⟨v, ?_, he⟩
    rw [← h, List.getElem?_append_right (by omega)]
    simpa using hv
  | b :: bs, σ, vs, env', hlen, hσ, h => by
    obtain ⟨v, hv, hr⟩ := (evalLets_cons_ok A O b bs _ env').1 h
    rw [List.append_assoc] at hr
    rw [unfoldLets]
    refine unfoldLets_sound_aux A O env bs _ (vs ++ [v]) env' (by simp [hlen]) ?_ hr
    intro j t hj
    rcases Nat.lt_or_ge j σ.length with hlt | hge
    · rw [List.getElem?_append_left hlt] at hj
      obtain ⟨w, hw, he⟩ := hσ j t hj
      exact ⟨w, by rw [List.getElem?_append_left (by omega)]; exact hw, he⟩
    · rw [List.getElem?_append_right hge] at hj
      have hj0 : j - σ.length = 0 := by
        rcases Nat.eq_zero_or_pos (j - σ.length) with h0 | h0
        · exact h0
        · rw [List.getElem?_eq_none (by simp; omega)] at hj; cases hj
      rw [hj0] at hj
      simp only [List.getElem?_cons_zero, Option.some.injEq] at hj
      subst hj
      refine ⟨v, ?_, eval_subst A O env vs σ hlen hσ b v hv⟩
      rw [List.getElem?_append_right (by omega)]
      have : j - vs.length = 0 := by omega
      simp [this]

/-! ### The pass loop on bindings -/

theorem rewriteLets_facts : ∀ bs : List Term,
    ((rewriteLets bs).1.map Term.size).sum ≤ (bs.map Term.size).sum ∧
      ((rewriteLets bs).2 = true → ((rewriteLets bs).1.map Term.size).sum < (bs.map Term.size).sum)
  | [] => by simp [rewriteLets]
  | b :: bs => by
    have hb := rewrite_facts b
    have ih := rewriteLets_facts bs
    simp only [rewriteLets, List.map_cons, List.sum_cons, List.any_cons, Bool.or_eq_true] at ih ⊢
    refine ⟨by omega, ?_⟩
    rintro (h | h)
    · have := hb.2.1 h; omega
    · have := ih.2 h; omega

/-- The pass loop instantiated with the memoised pass over bindings. -/
def letsPassModel : PassModel (List Term) :=
  { pass := rewriteLets, measure := fun bs => (bs.map Term.size).sum,
    decreases := fun bs h => (rewriteLets_facts bs).2 h }

end Einx.Optimize
