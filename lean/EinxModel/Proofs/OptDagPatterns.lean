import EinxModel.Proofs.OptDagBasic
/-!
Soundness of the pattern decisions of `Optimize/Dag.lean` against the DAG evaluator: whatever a pattern that fires
on tracer `i` of an evaluated store returns (`Action`), evaluates to the value of tracer `i` (`ActOK`).
-/
namespace Einx.OptDag
variable {V : Type}

/-- What an action must satisfy: `fwd v` -- the forwarded operand has the value of the node; `merge fn x lit` -- the merged
call on the values of `fn` and `x` returns the value of the node (when the literal has no tracers in it). -/
def ActOK (Sm : Sem V) (envO : List V) : Action → V → Prop
  | .fwd v, vo => evalToks envO v = .ok [.val vo]
  | .merge fn x lit, vo => ∃ f xE, evalToks envO fn = .ok [.val f] ∧ evalToks envO x = .ok xE ∧
      (refFree lit = true → Sm.app (mergedCall f xE lit) = .ok vo)

section
variable (Sm : Sem V) (S : Store) (bindO : List (Nat × V)) (envO : List V) (hO : EnvOK Sm S.nodes bindO envO)
include hO

theorem old_value (i : Nat) (n : Node) (h : S.nodes[i]? = some n) : ∃ vo, envO[i]? = some vo :=
  let ⟨v, hv, _⟩ := hO.2 i n h
  ⟨v, hv⟩

theorem old_tyOK (i : Nat) (n : Node) (x : V) (h : S.nodes[i]? = some n) (hx : envO[i]? = some x) : tyOK Sm n.ty x = true := by
  obtain ⟨v, hv, he⟩ := hO.2 i n h
  rw [hx] at hv; cases hv
  unfold evalNode at he
  split at he
  · split at he
    · split at he
      · rename_i ht
        simp only [pure, Except.pure, Except.ok.injEq] at he
        subst he; exact ht
      · cases he
    · cases he
  · split at he
    · obtain ⟨ea, _, he⟩ := bind_ok.1 he
      obtain ⟨w, _, he⟩ := bind_ok.1 he
      split at he
      · rename_i ht
        simp only [pure, Except.pure, Except.ok.injEq] at he
        subst he
        simp only [Bool.and_eq_true] at ht
        exact ht.1
      · cases he
    · cases he
  · cases he

theorem old_app (i : Nat) (ty : Ty) (a : App) (h : S.nodes[i]? = some ⟨ty, .app a⟩) :
    ∃ vo ea, envO[i]? = some vo ∧ evalApp envO a = .ok ea ∧ Sm.app ea = .ok vo ∧ a.out = [.ref 0] ∧ a.head.evaluable = true ∧
      inplaceOK Sm ea vo = true := by
  obtain ⟨v, hv, he⟩ := hO.2 i _ h
  simp only [evalNode] at he
  split at he
  · rename_i hc
    obtain ⟨ea, h1, he⟩ := bind_ok.1 he
    obtain ⟨w, h2, he⟩ := bind_ok.1 he
    split at he
    · rename_i ht
      simp only [pure, Except.pure, Except.ok.injEq] at he
      subst he
      have hm := evalApp_mono (envO.take i) (envO.drop i) a ea h1
      rw [List.take_append_drop] at hm
      simp only [Bool.and_eq_true, beq_iff_eq] at hc ht
      exact ⟨w, ea, hv, hm, h2, hc.1, hc.2, ht.2⟩
    · cases he
  · cases he

theorem old_no_proj (i : Nat) (ty : Ty) (s k : Nat) (h : S.nodes[i]? = some ⟨ty, .proj s k⟩) : False := by
  obtain ⟨v, _, he⟩ := hO.2 i _ h
  simp [evalNode, throw, throwThe, MonadExceptOf.throw] at he

theorem appOf_inv (i : Nat) (a : App) (base k : Nat) (h : S.appOf i = some (a, base, k)) :
    ∃ ty, S.nodes[i]? = some ⟨ty, .app a⟩ ∧ i = base ∧ 0 = k := by
  unfold Store.appOf at h
  split at h
  · rename_i ty a' hn
    simp only [Option.some.injEq, Prod.mk.injEq] at h
    obtain ⟨rfl, rfl, rfl⟩ := h
    exact ⟨ty, hn, rfl, rfl⟩
  · rename_i ty src k' hn
    exact (old_no_proj Sm S bindO envO hO i ty src k' hn).elim
  · cases h

/-- A tracer that matches a pattern's function structurally has the value of that function. -/
theorem matchPath_isFn (pat : FnPat) : ∀ (path : List String) (i : Nat) (f : V), S.matchPath pat path i = true → envO[i]? = some f →
    IsFn Sm pat path f
  | [], i, f, hm, hf => by
    unfold Store.matchPath at hm
    split at hm
    · rename_i a hn
      obtain ⟨vo, ea, h1, h2, h3, _, _, _⟩ := old_app Sm S bindO envO hO i _ a hn
      rw [hf] at h1; cases h1
      obtain ⟨pre, args, kwargs, deps, _, _, _, _, rfl⟩ := (evalApp_ok envO a ea).1 h2
      exact ⟨_, by simpa using hm, h3⟩
    · cases hm
  | key :: rest, i, f, hm, hf => by
    unfold Store.matchPath at hm
    split at hm
    · rename_i a hn
      obtain ⟨vo, ea, h1, h2, h3, _, _, _⟩ := old_app Sm S bindO envO hO i _ a hn
      rw [hf] at h1; cases h1
      obtain ⟨pre, args, kwargs, deps, hpre, _, _, _, rfl⟩ := (evalApp_ok envO a ea).1 h2
      simp only [Bool.and_eq_true, beq_iff_eq] at hm
      obtain ⟨hk, hm⟩ := hm
      split at hm
      · rename_i j hp
        rw [hp] at hpre
        obtain ⟨rs, rss, e1, e2, rfl⟩ := (evalOperands_cons envO _ _ _).1 hpre
        rw [evalOperands_nil] at e2; cases e2
        obtain ⟨r, rs', e3, e4, rfl⟩ := (evalToks_cons envO _ _ _).1 e1
        rw [evalToks_nil] at e4; cases e4
        simp only [evalTok] at e3
        cases hj : envO[j]? with
        | none => simp [hj, throw, throwThe, MonadExceptOf.throw] at e3
        | some m =>
          simp only [hj, pure, Except.pure, Except.ok.injEq] at e3
          subst e3
          exact ⟨m, _, matchPath_isFn pat rest j m hm hj, hk, rfl, h3⟩
      · cases hm
    · cases hm

/-- `S.callOf [ref i] pat = some a`: node `i` is a call of the pattern's function, and it evaluated. -/
theorem callOf_inv (pat : FnPat) (i : Nat) (a : App) (h : S.callOf [.ref i] pat = some a) :
    ∃ ty fi vo ea fv, S.nodes[i]? = some ⟨ty, .app a⟩ ∧ a.head = .call ∧ a.pre = [[.ref fi]] ∧ envO[i]? = some vo ∧
      evalApp envO a = .ok ea ∧ Sm.app ea = .ok vo ∧ envO[fi]? = some fv ∧ ea.pre = [[.val fv]] ∧ IsFn Sm pat pat.path.reverse fv := by
  simp only [Store.callOf] at h
  split at h
  · rename_i a' base k ha
    obtain ⟨ty, hn, rfl, rfl⟩ := appOf_inv Sm S bindO envO hO i a' base k ha
    split at h
    · rename_i hc
      split at h
      · rename_i f hp
        split at h
        · rename_i hf
          cases h
          obtain ⟨vo, ea, h1, h2, h3, _, _, _⟩ := old_app Sm S bindO envO hO i _ a hn
          obtain ⟨pre, args, kwargs, deps, hpre, _, _, _, rfl⟩ := (evalApp_ok envO a ea).1 h2
          unfold Store.fnMatches at hf
          split at hf
          · rename_i fi
            rw [hp] at hpre
            obtain ⟨rs, rss, e1, e2, rfl⟩ := (evalOperands_cons envO _ _ _).1 hpre
            rw [evalOperands_nil] at e2; cases e2
            obtain ⟨r, rs', e3, e4, rfl⟩ := (evalToks_cons envO _ _ _).1 e1
            rw [evalToks_nil] at e4; cases e4
            simp only [evalTok] at e3
            cases hj : envO[fi]? with
            | none => simp [hj, throw, throwThe, MonadExceptOf.throw] at e3
            | some m =>
              simp only [hj, pure, Except.pure, Except.ok.injEq] at e3
              subst e3
              exact ⟨ty, fi, vo, _, m, hn, by simpa using hc, hp, h1, h2, h3, hj, rfl,
                matchPath_isFn Sm S bindO envO hO pat _ fi m hf hj⟩
          · cases hf
        · cases h
      · cases h
    · cases h
  · cases h

omit hO in
theorem evalToks_ref (i : Nat) (x : V) (h : envO[i]? = some x) : evalToks envO [.ref i] = .ok [.val x] := by
  rw [evalToks_single]
  simp [evalTok, h, pure, Except.pure]

omit hO in
theorem evalToks_ref_inv (i : Nat) (rs : List (RTok V)) (h : evalToks envO [.ref i] = .ok rs) : ∃ x, envO[i]? = some x ∧ rs = [.val x] := by
  obtain ⟨r, rs', e3, e4, rfl⟩ := (evalToks_cons envO _ _ _).1 h
  rw [evalToks_nil] at e4; cases e4
  simp only [evalTok] at e3
  cases hj : envO[i]? with
  | none => simp [hj, throw, throwThe, MonadExceptOf.throw] at e3
  | some m =>
    simp only [hj, pure, Except.pure, Except.ok.injEq] at e3
    subst e3
    exact ⟨m, rfl, rfl⟩

theorem shapeOf_sound (v : List Tok) (s : List Nat) (h : S.shapeOf v = .ok s) :
    ∃ j, v = [.ref j] ∧ ∀ x, envO[j]? = some x → Sm.shapeOf x = some s := by
  unfold Store.shapeOf at h
  split at h
  · rename_i j
    refine ⟨j, rfl, ?_⟩
    intro x hx
    unfold Store.tyOf at h
    cases hn : S.nodes[j]? with
    | none => simp [hn, throw, throwThe, MonadExceptOf.throw] at h
    | some n =>
      have ht := old_tyOK Sm S bindO envO hO j n x hn hx
      simp only [hn, Option.map_some] at h
      split at h
      · rename_i s' hty
        simp only [pure, Except.pure, Except.ok.injEq] at h
        subst h
        simp only [Option.some.injEq] at hty
        rw [hty] at ht
        simpa [tyOK] using ht
      · rename_i s' c hty
        simp only [pure, Except.pure, Except.ok.injEq] at h
        subst h
        simp only [Option.some.injEq] at hty
        rw [hty] at ht
        simpa [tyOK] using ht
      · cases h
      · cases h
  · cases h

end

section
variable (Sm : Sem V) (S : Store) (pats : List Pattern) (bindO : List (Nat × V)) (envO : List V)
  (hO : EnvOK Sm S.nodes bindO envO) (hL : Sm.Laws pats)
include hO hL

/-- `_skip_id` on a tracer follows identity casts: the value stays the same. -/
theorem skipChain_sound : ∀ (fuel i j : Nat) (x : V), skipChain S fuel i = .ok j → envO[i]? = some x → envO[j]? = some x
  | 0, _, _, _, h, _ => by simp [skipChain, throw, throwThe, MonadExceptOf.throw] at h
  | fuel + 1, i, j, x, h, hx => by
    unfold skipChain at h
    split at h
    · rename_i ty a hn
      split at h
      · rename_i hc
        split at h
        · rename_i k hp
          obtain ⟨vo, ea, h1, h2, h3, _, _, _⟩ := old_app Sm S bindO envO hO i _ a hn
          rw [hx] at h1; cases h1
          obtain ⟨pre, args, kwargs, deps, hpre, _, _, _, rfl⟩ := (evalApp_ok envO a ea).1 h2
          rw [hp] at hpre
          obtain ⟨rs, rss, e1, e2, rfl⟩ := (evalOperands_cons envO _ _ _).1 hpre
          rw [evalOperands_nil] at e2; cases e2
          obtain ⟨m, hm, rfl⟩ := evalToks_ref_inv envO k rs e1
          simp only [Bool.and_eq_true, beq_iff_eq] at hc
          have e := hL.cast_id _ m x hc.1 rfl hc.2 h3
          exact skipChain_sound fuel k j x h (e ▸ hm)
        · cases h
      · simp only [pure, Except.pure, Except.ok.injEq] at h
        subst h; exact hx
    · simp only [pure, Except.pure, Except.ok.injEq] at h
      subst h; exact hx

/-- `_skip_id` that ends in a single tracer started from a single tracer of the same value (pure node language: every
`Cast` has one output). -/
theorem skipIdCast_ref (v' : List Tok) (j : Nat) (h : skipIdCast S v' = .ok [.ref j]) :
    ∃ i', v' = [.ref i'] ∧ ∀ x, envO[i']? = some x → envO[j]? = some x := by
  unfold skipIdCast at h
  split at h
  · simp only [pure, Except.pure, Except.ok.injEq] at h
    subst h
    exact ⟨j, rfl, fun x hx => hx⟩
  · rename_i i hfr
    split at h
    · rename_i a base k ha
      obtain ⟨ty, hn, rfl, rfl⟩ := appOf_inv Sm S bindO envO hO i a base k ha
      split at h
      · rename_i hc
        obtain ⟨vo, ea, h1, h2, h3, hout, _, _⟩ := old_app Sm S bindO envO hO i _ a hn
        simp only [Bool.and_eq_true, beq_iff_eq] at hc
        have hv'' : v' = [.ref i] := by
          rw [← hc.2, App.outAt, hout]; simp
        split at h
        · rename_i k hp
          obtain ⟨j', hj', h⟩ := bind_ok.1 h
          simp only [pure, Except.pure, Except.ok.injEq, List.cons.injEq, Tok.ref.injEq, and_true] at h
          subst h
          refine ⟨i, hv'', ?_⟩
          intro x hx
          rw [hx] at h1
          have hxv := Option.some.inj h1
          subst hxv
          obtain ⟨pre, args, kwargs, deps, hpre, _, _, _, rfl⟩ := (evalApp_ok envO a ea).1 h2
          rw [hp] at hpre
          obtain ⟨rs, rss, e1, e2, rfl⟩ := (evalOperands_cons envO _ _ _).1 hpre
          rw [evalOperands_nil] at e2; cases e2
          obtain ⟨m, hm, rfl⟩ := evalToks_ref_inv envO k rs e1
          have e := hL.cast_id _ m x hc.1 rfl hout h3
          exact skipChain_sound Sm S pats bindO envO hO hL _ k j' x hj' (e ▸ hm)
        · cases h
      · simp only [pure, Except.pure, Except.ok.injEq] at h
        subst h
        exact ⟨j, rfl, fun x hx => hx⟩
    · simp only [pure, Except.pure, Except.ok.injEq] at h
      subst h
      exact ⟨j, rfl, fun x hx => hx⟩

theorem skipIdLeaves_ref (v : List Tok) (i' : Nat) (h : skipIdLeaves S v = .ok [.ref i']) :
    ∃ i, v = [.ref i] ∧ ∀ x, envO[i]? = some x → envO[i']? = some x := by
  unfold skipIdLeaves at h
  split at h
  · rename_i t
    split at h
    · simp only [pure, Except.pure, Except.ok.injEq, List.cons.injEq, and_true] at h
      subst h
      rename_i ho
      simp [Tok.isOpen] at ho
    · obtain ⟨t', ht', h⟩ := bind_ok.1 h
      simp only [pure, Except.pure, Except.ok.injEq, List.cons.injEq, and_true] at h
      subst h
      unfold skipLeaf at ht'
      split at ht'
      · rename_i i _
        obtain ⟨j', hj', ht'⟩ := bind_ok.1 ht'
        simp only [pure, Except.pure, Except.ok.injEq, Tok.ref.injEq] at ht'
        subst ht'
        exact ⟨i, rfl, fun x hx => skipChain_sound Sm S pats bindO envO hO hL _ i j' x hj' hx⟩
      · simp only [pure, Except.pure, Except.ok.injEq] at ht'
        subst ht'
        rename_i hne
        exact (hne i' rfl).elim
  · split at h
    · cases h
    · obtain ⟨ts, _, h⟩ := bind_ok.1 h
      simp [pure, Except.pure] at h
  · split at h
    · cases h
    · obtain ⟨ts, _, h⟩ := bind_ok.1 h
      simp [pure, Except.pure] at h
  · cases h

theorem skipId_ref (v : List Tok) (j : Nat) (h : skipId S v = .ok [.ref j]) :
    ∃ i, v = [.ref i] ∧ ∀ x, envO[i]? = some x → envO[j]? = some x := by
  unfold skipId at h
  obtain ⟨v', hv', h⟩ := bind_ok.1 h
  obtain ⟨i', rfl, hi'⟩ := skipIdCast_ref Sm S pats bindO envO hO hL v' j h
  obtain ⟨i, rfl, hi⟩ := skipIdLeaves_ref Sm S pats bindO envO hO hL v i' hv'
  exact ⟨i, rfl, fun x hx => hi' x (hi x hx)⟩

end

end Einx.OptDag
